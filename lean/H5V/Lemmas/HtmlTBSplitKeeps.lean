import H5V.Lemmas.HtmlTBSplitPtc
/-!
C03 lifted to the tree — layer 4d: processing a character token leaves `ignore_lf`,
`foster_parenting` (outside the bracket of `foster_parent_in_body`), `opts`, `template_modes`,
`doc_handle`, `form_elem`, `context_elem` the line counter and the insertion mode (which only `process_to_completion` itself changes) alone (`Keeps`).
-/
namespace H5V.Lemmas.TBSplit
open H5V.Model.Dom (Id QualName Attr NodeOrText SinkOp Output ElementFlags QuirksMode Dom)
open H5V.Model.HtmlTok (TagKind RawKind)
open H5V.Model.HtmlTB

/-- the components no character token changes -/
def fr (s : State) : Opts × List Mode × Id × Option Id × Bool × Bool × Option Id × Nat × Mode :=
  (s.opts, s.templateModes, s.docHandle, s.formElem, s.ignoreLf, s.fosterParenting, s.contextElem, s.currentLine,
    s.mode)

def Keeps {α : Type} (m : M α) : Prop := ∀ s a s', m s = .ok (a, s') → fr s' = fr s

theorem keeps_pure {α : Type} (a : α) : Keeps (pure a : M α) := by
  intro s b s' h; cases h; rfl

theorem keeps_throw {α : Type} (e : String) : Keeps (throw e : M α) := by
  intro s b s' h; cases h

theorem keeps_bind {α β : Type} {m : M α} {f : α → M β} (hm : Keeps m) (hf : ∀ a, Keeps (f a)) : Keeps (m >>= f) := by
  intro s b s2 h
  obtain ⟨a, s1, h1, h2⟩ := bind_ok h
  exact (hf a s1 b s2 h2).trans (hm s a s1 h1)

theorem keeps_pure_bind {α β : Type} {a : α} {f : α → M β} (h : Keeps (f a)) : Keeps ((pure a : M α) >>= f) := h

theorem keeps_throw_bind {α β : Type} (e : String) (f : α → M β) : Keeps ((throw e : M α) >>= f) := by
  intro s b s' h; cases h
theorem keeps_panicAt_bind {α β : Type} (a b c : String) (f : α → M β) : Keeps ((panicAt a b c : M α) >>= f) :=
  keeps_throw_bind _ _
theorem keeps_panicAt {α : Type} (a b c : String) : Keeps (panicAt a b c : M α) := keeps_throw _
theorem keeps_fuelOut {α : Type} (a : String) : Keeps (fuelOut a : M α) := keeps_throw _

theorem keeps_getS_bind {β : Type} {f : State → M β} (h : ∀ s, Keeps (f s)) : Keeps (getS >>= f) := by
  intro s b s' hs
  rw [bind_apply, getS_apply] at hs
  exact h s s b s' hs

theorem keeps_modS {g : State → State} (h : ∀ s, fr (g s) = fr s) : Keeps (modS g) := by
  intro s a s' hs; cases hs; exact h s

theorem keeps_ite {α : Type} {c : Prop} [Decidable c] {a b : M α} (ha : c → Keeps a) (hb : ¬ c → Keeps b) :
    Keeps (if c then a else b) := by
  split
  · exact ha ‹_›
  · exact hb ‹_›

theorem keeps_sink (op : SinkOp) : Keeps (sink op) := by
  intro s o s' h
  obtain ⟨d, _, rfl⟩ := sink_ok h
  rfl

theorem keeps_sinkUnit (op : SinkOp) : Keeps (sinkUnit op) := by
  unfold sinkUnit
  exact keeps_bind (keeps_sink op) (fun _ => keeps_pure _)

theorem keeps_sinkNode (op : SinkOp) : Keeps (sinkNode op) := by
  unfold sinkNode
  refine keeps_bind (keeps_sink op) (fun o => ?_)
  split
  · exact keeps_pure _
  · exact keeps_throw _

theorem keeps_parseError (msg : String) : Keeps (parseError msg) := keeps_sinkUnit _

theorem QResp.keeps {α : Type} {m : M α} (h : QResp m) : Keeps m := by
  intro s a s' hs
  obtain ⟨tr, rfl⟩ := h.trEq hs
  rfl

syntax "k_lemma" : tactic
macro_rules | `(tactic| k_lemma) => `(tactic| with_reducible exact keeps_sinkUnit _)
macro_rules | `(tactic| k_lemma) => `(tactic| with_reducible exact keeps_sinkNode _)
macro_rules | `(tactic| k_lemma) => `(tactic| with_reducible exact keeps_parseError _)
macro_rules | `(tactic| k_lemma) => `(tactic| with_reducible exact keeps_panicAt _ _ _)
macro_rules | `(tactic| k_lemma) => `(tactic| with_reducible exact keeps_fuelOut _)
macro_rules | `(tactic| k_lemma) => `(tactic| with_reducible exact keeps_throw _)
macro_rules | `(tactic| k_lemma) => `(tactic| with_reducible exact keeps_throw_bind _ _)
macro_rules | `(tactic| k_lemma) => `(tactic| with_reducible exact keeps_panicAt_bind _ _ _ _)
macro_rules | `(tactic| k_lemma) => `(tactic| with_reducible exact keeps_pure _)
macro_rules | `(tactic| k_lemma) => `(tactic| with_reducible exact QResp.keeps (by q_lemma))

macro "k_step" : tactic =>
  `(tactic| first
    | k_lemma
    | ((with_reducible refine keeps_modS ?_); exact fun _ => rfl)
    | (with_reducible refine keeps_getS_bind ?_)
    | (with_reducible refine keeps_pure_bind ?_)
    | (with_reducible refine keeps_bind ?_ ?_)
    | (with_reducible intro _)
    | (with_reducible refine keeps_ite (fun _ => ?_) (fun _ => ?_))
    | split
    | assumption
    | (with_reducible exact ‹∀ _, Keeps _› _)
    | (with_reducible exact ‹∀ _ _, Keeps _› _ _)
    | (simp (config := { zeta := true }) only [pure_bind]))

macro "k_auto" : tactic => `(tactic| repeat' k_step)

theorem push_keeps (h : Id) : Keeps (push h) := by unfold push; k_auto
macro_rules | `(tactic| k_lemma) => `(tactic| with_reducible exact push_keeps _)

theorem pop_keeps : Keeps pop := by
  intro s a s' h
  unfold pop at h
  rw [bind_apply, getS_apply] at h
  simp only at h
  cases hl : s.openElems.getLast? with
  | none => rw [hl] at h; cases h
  | some e =>
    rw [hl] at h
    simp only at h
    obtain ⟨u, s1, h1, h⟩ := bind_ok h
    cases h1
    obtain ⟨u2, s2, h2, h⟩ := bind_ok h
    cases h
    exact (keeps_sinkUnit _ _ _ _ h2).trans rfl
macro_rules | `(tactic| k_lemma) => `(tactic| with_reducible exact pop_keeps)

theorem setFramesetOk_keeps (b : Bool) : Keeps (setFramesetOk b) := by unfold setFramesetOk; k_auto
macro_rules | `(tactic| k_lemma) => `(tactic| with_reducible exact setFramesetOk_keeps _)
theorem unexpected_keeps : Keeps unexpected := by unfold unexpected; k_auto
macro_rules | `(tactic| k_lemma) => `(tactic| with_reducible exact unexpected_keeps)
theorem setQuirksMode_keeps (m : QuirksMode) : Keeps (setQuirksMode m) := by unfold setQuirksMode; k_auto
macro_rules | `(tactic| k_lemma) => `(tactic| with_reducible exact setQuirksMode_keeps _)
theorem createElementWithFlags_keeps (n : QualName) (a : List Attr) (h : Bool) : Keeps (createElementWithFlags n a h) := by
  unfold createElementWithFlags; k_auto
macro_rules | `(tactic| k_lemma) => `(tactic| with_reducible exact createElementWithFlags_keeps _ _ _)
theorem insertAt_keeps (p : InsertionPoint) (c : NodeOrText) : Keeps (insertAt p c) := by unfold insertAt; k_auto
macro_rules | `(tactic| k_lemma) => `(tactic| with_reducible exact insertAt_keeps _ _)
theorem insertAppropriately_keeps (c : NodeOrText) (o : Option Id) : Keeps (insertAppropriately c o) := by
  unfold insertAppropriately; k_auto
macro_rules | `(tactic| k_lemma) => `(tactic| with_reducible exact insertAppropriately_keeps _ _)
theorem insertElement_keeps (p : Bool) (ns name : Str) (a : List Attr) (h : Bool) : Keeps (insertElement p ns name a h) := by
  unfold insertElement; k_auto
macro_rules | `(tactic| k_lemma) => `(tactic| with_reducible exact insertElement_keeps _ _ _ _ _)
theorem insertPhantom_keeps (name : String) : Keeps (insertPhantom name) := insertElement_keeps _ _ _ _ _
macro_rules | `(tactic| k_lemma) => `(tactic| with_reducible exact insertPhantom_keeps _)
theorem createRoot_keeps (a : List Attr) : Keeps (createRoot a) := by unfold createRoot; k_auto
macro_rules | `(tactic| k_lemma) => `(tactic| with_reducible exact createRoot_keeps _)
theorem appendText_keeps (z : Str) : Keeps (appendText z) := by unfold appendText; k_auto
macro_rules | `(tactic| k_lemma) => `(tactic| with_reducible exact appendText_keeps _)
theorem setAF_keeps (af : List FormatEntry) : Keeps (setAF af) := by unfold setAF; k_auto
macro_rules | `(tactic| k_lemma) => `(tactic| with_reducible exact setAF_keeps _)

theorem reconstructCreate_keeps : ∀ f i, Keeps (reconstructCreate f i)
  | 0, _ => by unfold reconstructCreate; k_auto
  | f + 1, i => by
    have ih := reconstructCreate_keeps f (i + 1)
    unfold reconstructCreate; k_auto
macro_rules | `(tactic| k_lemma) => `(tactic| with_reducible exact reconstructCreate_keeps _ _)

theorem reconstruct_keeps : Keeps reconstructActiveFormattingElements := by
  unfold reconstructActiveFormattingElements
  have h1 : ∀ n, Keeps (reconstructRewind n) := fun n => (reconstructRewind_q n).keeps
  k_auto
macro_rules | `(tactic| k_lemma) => `(tactic| with_reducible exact reconstruct_keeps)

theorem fOk_keeps (z : Str) : Keeps (fOk z) := by unfold fOk; k_auto
macro_rules | `(tactic| k_lemma) => `(tactic| with_reducible exact fOk_keeps _)

theorem stepInBody_chars_keeps (st : SplitStatus) (z : Str) : Keeps (stepInBody (.chars st z)) := by
  rw [stepInBody_chars_eq]; k_auto

theorem tablePre_keeps : Keeps tablePre := by unfold tablePre; k_auto
macro_rules | `(tactic| k_lemma) => `(tactic| with_reducible exact tablePre_keeps)

theorem charsPre_keeps (m : Mode) (st : SplitStatus) : Keeps (charsPre m st) := by
  cases m <;> cases st <;> (simp only [charsPre]; k_auto)

theorem isForeignChars_keeps : Keeps isForeignChars := (isForeign_q _).keeps

theorem dPre_keeps (st : SplitStatus) : Keeps (dPre st) := by
  unfold dPre
  refine keeps_bind isForeignChars_keeps (fun b => ?_)
  refine keeps_ite (fun _ => keeps_pure _) (fun _ => keeps_getS_bind (fun s => charsPre_keeps _ _))

theorem fosterParentInBody_apply (t : Token) (s : State) :
    fosterParentInBody t s = match stepInBody t { s with fosterParenting := true } with
      | .error e => .error e
      | .ok (r, s') => .ok (r, { s' with fosterParenting := false }) := by
  unfold fosterParentInBody
  rw [bind_apply, modS_apply]
  simp only
  rw [bind_apply]
  cases stepInBody t { s with fosterParenting := true } with
  | error e => rfl
  | ok v => rfl

/-- the foster-parented in-body rule: the flag ends up cleared, the rest is kept -/
theorem fosterParentInBody_chars_fr (st : SplitStatus) (z : Str) {s s' : State} {r : ProcessResult}
    (h : fosterParentInBody (.chars st z) s = .ok (r, s')) :
    fr s' = fr { s with fosterParenting := false } := by
  rw [fosterParentInBody_apply] at h
  cases hb : stepInBody (.chars st z) { s with fosterParenting := true } with
  | error e => rw [hb] at h; cases h
  | ok v =>
    obtain ⟨r', s1⟩ := v
    rw [hb] at h
    cases h
    have := stepInBody_chars_keeps st z _ _ _ hb
    simp only [fr, Prod.mk.injEq] at this ⊢
    obtain ⟨a, b, c, d, e, _, g, i, j⟩ := this
    exact ⟨a, b, c, d, e, trivial, g, i, j⟩

end H5V.Lemmas.TBSplit
