import H5V.Lemmas.HtmlTBSkelShapeAF
/-!
C06, third invariant layer (adjacent text), part 4: the arena calls of the adoption agency
(`remove_from_parent`, `append` of an existing node, `reparent_children`) and the stack edits
(`set`, `insert`, `remove`) under `AdjD`.
-/
namespace H5V.Props.C06
open H5V.Model.Dom hiding Str
open H5V.Model.HtmlTB hiding Str
open H5V.Lemmas.Dom

/-! ### lists -/

theorem before_trans : ∀ {l : List Id} {a b c : Id}, l.Nodup → Before l a b → Before l b c → Before l a c
  | [], _, _, _, _, h1, _ => by cases h1
  | x :: t, a, b, c, hn, h1, h2 => by
    have hnt : t.Nodup := (List.nodup_cons.mp hn).2
    have hxt : x ∉ t := (List.nodup_cons.mp hn).1
    unfold Before at h1 h2 ⊢
    cases h1 with
    | cons _ h1' =>
      cases h2 with
      | cons _ h2' => exact List.Sublist.cons _ (before_trans hnt h1' h2')
      | cons_cons _ h2' =>
        -- x = b, but b ∈ t
        exact absurd (h1'.subset (by simp)) hxt
    | cons_cons _ h1' =>
      cases h2 with
      | cons _ h2' =>
        have hc : c ∈ t := h2'.subset (by simp)
        exact List.Sublist.cons_cons _ (List.singleton_sublist.mpr hc)
      | cons_cons _ h2' =>
        exact absurd (h1'.subset (by simp)) hxt

theorem before_append {low high : List Id} {y x : Id} (hy : y ∈ low) (hx : x ∈ high) : Before (low ++ high) y x :=
  List.Sublist.append (List.singleton_sublist.mpr hy) (List.singleton_sublist.mpr hx)

/-- what follows `c` on a duplicate-free stack is behind it -/
theorem mem_post_of_before {pre post : List Id} {c e : Id} (hn : (pre ++ c :: post).Nodup)
    (h : Before (pre ++ c :: post) c e) : e ∈ post := by
  have hne : c ≠ e := by rintro rfl; exact not_before_self hn _ h
  have hm := h.mem.2
  simp only [List.mem_append, List.mem_cons] at hm
  rcases hm with hm | hm | hm
  · exact absurd h (fun hb => before_antisymm hn hb (before_mid_pre hm))
  · exact absurd hm.symm hne
  · exact hm

theorem mem_pre_of_before' {pre post : List Id} {c e : Id} (hn : (pre ++ c :: post).Nodup)
    (h : Before (pre ++ c :: post) e c) : e ∈ pre := by
  have hne : c ≠ e := by rintro rfl; exact not_before_self hn _ h
  have hm := h.mem.1
  simp only [List.mem_append, List.mem_cons] at hm
  rcases hm with hm | hm | hm
  · exact hm
  · exact absurd hm.symm hne
  · exact absurd h (fun hb => before_antisymm hn (before_mid_post hm) hb)

/-- the decomposition of a list at an index -/
theorem split_at_index {α : Type} : ∀ {l : List α} {k : Nat} {x : α}, l[k]? = some x →
    ∃ h1 h2, l = h1 ++ x :: h2 ∧ h1.length = k
  | [], _, _, h => by simp at h
  | a :: t, 0, x, h => by
    simp only [List.getElem?_cons_zero, Option.some.injEq] at h
    exact ⟨[], t, by rw [h]; rfl, rfl⟩
  | a :: t, k + 1, x, h => by
    simp only [List.getElem?_cons_succ] at h
    obtain ⟨h1, h2, hl, hk⟩ := split_at_index h
    exact ⟨a :: h1, h2, by rw [hl]; rfl, by simp [hk]⟩

theorem set_split {α : Type} (h1 h2 : List α) (x y : α) : (h1 ++ x :: h2).set h1.length y = h1 ++ y :: h2 := by
  induction h1 with
  | nil => rfl
  | cons a t ih => simp only [List.cons_append, List.length_cons, List.set_cons_succ, ih]

theorem eraseIdx_split' {α : Type} (h1 h2 : List α) (x : α) : (h1 ++ x :: h2).eraseIdx h1.length = h1 ++ h2 := by
  induction h1 with
  | nil => rfl
  | cons a t ih => simp only [List.cons_append, List.length_cons, List.eraseIdx_cons_succ, ih]

theorem getElem?_split_succ {α : Type} (h1 h2 : List α) (x : α) :
    (h1 ++ x :: h2)[h1.length + 1]? = h2.head? := by
  induction h1 with
  | nil => cases h2 <;> rfl
  | cons a t ih => simpa using ih

theorem getElem?_split_self {α : Type} (h1 h2 : List α) (x : α) : (h1 ++ x :: h2)[h1.length]? = some x := by
  induction h1 with
  | nil => rfl
  | cons a t ih => simp [ih]

/-! ### names -/

theorem exm_of_keepName_false {n : EName} (h : keepName n = false) : exm n = false := by
  unfold exm
  rw [constrained_of_keepName_false h]
  cases hh : (n == hN "head") with
  | false => rfl
  | true => rw [beq_iff_eq.mp hh, keepName_head] at h; cases h

theorem not_table_of_keepName_false {n : EName} (h : keepName n = false) : n ≠ hN "table" := by
  rintro rfl; revert h; decide

theorem not_template_of_keepName_false {n : EName} (h : keepName n = false) : n ≠ hN "template" := by
  rintro rfl; rw [keepName_template] at h; cases h

theorem tc_not_element {d : Dom} (hb : DomBase d) {T p : Id} (hp : d.isElement p = true) :
    d.templateContentsOf T ≠ some p := by
  intro h
  have hdoc := (hb.tcOk T p h).2
  unfold Dom.isElement at hp
  rw [hdoc] at hp; cases hp

/-! ### `remove_from_parent` -/

theorem removeFromParent_adj {s s' : State} {x : Id} {u : Unit} {O : List Id} (h : AdjD s.dom O)
    (hx : s.dom.parentOf x = none ∨ (x ∈ O ∧ exm (nm s.dom x) = false))
    (e : sinkUnit (.removeFromParent x) s = .ok (u, s')) :
    AdjD s'.dom O ∧ s'.dom.parentOf x = none ∧ (∀ y, y ≠ x → s'.dom.parentOf y = s.dom.parentOf y) ∧
      (∀ Q, (s'.dom.childrenOf Q).Sublist (s.dom.childrenOf Q)) ∧ (∀ y, s'.dom.dataOf y = s.dom.dataOf y) ∧
      (∀ Q, x ∉ s'.dom.childrenOf Q) := by
  obtain ⟨out, e⟩ := sinkUnit_ok.mp e
  obtain ⟨d, hd, rfl⟩ := sink_ok.mp e
  show AdjD d O ∧ d.parentOf x = none ∧ (∀ y, y ≠ x → d.parentOf y = s.dom.parentOf y) ∧
      (∀ Q, (d.childrenOf Q).Sublist (s.dom.childrenOf Q)) ∧ (∀ y, d.dataOf y = s.dom.dataOf y) ∧
      (∀ Q, x ∉ d.childrenOf Q)
  rcases removeFromParent_ok (apply_remove hd) with ⟨hpn, rfl⟩ | ⟨p, i, hp, hi, hpar, hch, hdat, _, _⟩
  · refine ⟨h, hpn, fun _ _ => rfl, fun _ => List.Sublist.refl _, fun _ => rfl, fun Q hm => ?_⟩
    have := h.lk Q x hm; rw [hpn] at this; cases this
  · obtain ⟨hs1, hs2⟩ := split_of_indexOf hi
    have hrm : removeAt (s.dom.childrenOf p) i = (s.dom.childrenOf p).take i ++ (s.dom.childrenOf p).drop (i + 1) := rfl
    have hadj : AdjD d O := by
      refine h.remove (P := p) (t := x) (a := (s.dom.childrenOf p).take i) (b := (s.dom.childrenOf p).drop (i + 1))
        hs1 (by intro y; rw [hch, hrm]) hpar hdat ?_
      rcases hx with hx | ⟨hxO, hxx⟩
      · rw [hp] at hx; cases hx
      · exact h.ol x hxO hxx p _ _ hs1
    refine ⟨hadj, by rw [hpar]; simp, fun y hy => by rw [hpar]; simp [hy], fun Q => ?_, hdat, fun Q hm => ?_⟩
    · rw [hch]
      by_cases hQ : Q = p
      · subst hQ
        simp only [if_true, hrm]
        conv => rhs; rw [hs1]
        exact List.Sublist.append (List.Sublist.refl _) (List.sublist_cons_self _ _)
      · simp only [hQ, if_false]; exact List.Sublist.refl _
    · have := hadj.lk Q x hm
      rw [hpar] at this; simp at this

/-! ### `append(parent, node)` for an existing node -/

theorem appendNode_adj {s s' : State} {p x : Id} {u : Unit} {O : List Id} (h : AdjD s.dom O) (hb : DomBase s.dom)
    (hpx : p ≠ x) (hpe : s.dom.isElement p = true) (hcp : s.dom.parentOf x = none) (hct : s.dom.isText x = false)
    (hnt : nm s.dom x ≠ hN "table") (cPB : x ∈ O → p ∈ O → Before O p x)
    (e : sinkUnit (.append p (.node x)) s = .ok (u, s')) :
    AdjD s'.dom O ∧ (∀ Q, s'.dom.childrenOf Q = if Q = p then s.dom.childrenOf p ++ [x] else s.dom.childrenOf Q) ∧
      (∀ y, s'.dom.parentOf y = if y = x then some p else s.dom.parentOf y) ∧
      (∀ y, s'.dom.dataOf y = s.dom.dataOf y) := by
  obtain ⟨out, e⟩ := sinkUnit_ok.mp e
  obtain ⟨d, hd, rfl⟩ := sink_ok.mp e
  obtain ⟨_, h2, h1, h3⟩ := dom_appendNode_eff (apply_append hd) hpx
  refine ⟨?_, h2, h1, h3⟩
  refine h.insertNode (P := p) (a := s.dom.childrenOf p) (b := []) (by simp) (by simpa using h2) h1 h3 hcp hct
    (fun _ _ => rfl) cPB (fun T hT => absurd hT (tc_not_element hb hpe)) (fun hn => absurd hn hnt)
    (fun _ _ y hy => by cases hy)

/-! ### `reparent_children` into a fresh element -/

theorem reparent_adj {s s' : State} {n np : Id} {u : Unit} {O : List Id} (h : AdjD s.dom O) (hb : DomBase s.dom)
    (hnp : s.dom.childrenOf np = []) (hO : np ∉ O) (hnpe : s.dom.isElement np = true)
    (e : sinkUnit (.reparentChildren n np) s = .ok (u, s')) :
    AdjD s'.dom O ∧ s'.dom.childrenOf np = s.dom.childrenOf n ∧ s'.dom.childrenOf n = [] ∧
      (∀ Q, Q ≠ n → Q ≠ np → s'.dom.childrenOf Q = s.dom.childrenOf Q) ∧
      (∀ y, y ∉ s.dom.childrenOf n → s'.dom.parentOf y = s.dom.parentOf y) ∧
      (∀ y, s'.dom.dataOf y = s.dom.dataOf y) := by
  obtain ⟨out, e⟩ := sinkUnit_ok.mp e
  obtain ⟨d, hd, rfl⟩ := sink_ok.mp e
  obtain ⟨hne, _, _, hpar, hch, hdat, _, _⟩ := reparentChildren_ok (apply_reparent hd)
  refine ⟨h.reparent hne hnp hch hpar hdat hO (fun T _ => tc_not_element hb hnpe), ?_, ?_, ?_, ?_, hdat⟩
  · show d.childrenOf np = _
    rw [hch, hnp]; simp [Ne.symm hne]
  · show d.childrenOf n = _
    rw [hch]; simp
  · intro Q h1 h2
    show d.childrenOf Q = _
    rw [hch]; simp [h1, h2]
  · intro y hy
    show d.parentOf y = _
    rw [hpar]; simp [hy]


/-! ### the new element of the adoption agency is put on the stack right above the furthest block -/

theorem AdjD.insertChildAbove {d : Dom} {pre post : List Id} {fb new : Id} (h : AdjD d ((pre ++ [fb]) ++ post))
    (hnd : ((pre ++ [fb]) ++ post).Nodup) (hb : DomBase d) (hfbe : d.isElement fb = true) (hne : new ≠ fb)
    (hpar : d.parentOf new = some fb) (hch : d.childrenOf fb = [new]) (hk : keepName (nm d new) = false)
    (hkids : ∀ e ∈ d.childrenOf new, e ∈ (pre ++ [fb]) ++ post → Before ((pre ++ [fb]) ++ post) fb e) :
    AdjD d ((pre ++ [fb]) ++ new :: post) := by
  have hP : ∀ P, new ∈ d.childrenOf P → P = fb := fun P hm => by
    have := h.lk P new hm
    rw [hpar] at this; exact (Option.some.inj this).symm
  refine h.stackInsert ?_ ?_ ?_ ?_ ?_ ?_ ?_ ?_
  · intro _ P l1 l2 hc
    have := hP P (by rw [hc]; simp)
    subst this
    rw [hch] at hc
    cases l1 with
    | nil =>
      simp only [List.nil_append, List.cons.injEq] at hc
      rw [← hc.2]; rfl
    | cons a t =>
      simp only [List.cons_append, List.cons.injEq] at hc
      have := hc.2
      cases t <;> simp at this
  · intro hm
    exact hne (hP new hm)
  · intro P hm _
    rw [hP P hm]; simp
  · intro e he heO
    have hbf := hkids e he heO
    have : (pre ++ [fb]) ++ post = pre ++ fb :: post := by simp
    rw [this] at hbf hnd
    exact mem_post_of_before hnd hbf
  · intro T tc htc _ hm _
    have := hP tc hm
    subst this
    exact absurd htc (tc_not_element hb hfbe)
  · intro tc e _ hn
    exact absurd hn (not_template_of_keepName_false hk)
  · intro _ P y hbf
    have := hP P hbf.mem.1
    subst this
    rw [hch] at hbf
    have := List.Sublist.length_le hbf
    simp at this
  · intro hn
    exact absurd hn (not_table_of_keepName_false hk)

end H5V.Props.C06
