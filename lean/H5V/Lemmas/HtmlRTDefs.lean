import H5V.Model.HtmlSer
import H5V.Spec.HtmlEscape
import H5V.Model.HtmlTB
/-!
C07 round trip, part 0: vocabulary.

* `HNode` — the trees the round trip is claimed for: elements with a local name, an attribute list
  (name, value) and children; text nodes.
* `ordinaryName` — the element names that fall into the "any other start tag" / "any other end
  tag" rules of the "in body" insertion mode (nothing void, raw text, implied end tags, formatting,
  scoping, table, foreign, …), spelled the way the tokenizer spells a tag name.
* `blockName` — the plain block elements (`div`, `section`, `ul`, …: "close a `p` element in button
  scope" is a no-op when no `p` is open); `fmtName` — the formatting elements `b`, `big`, `code`,
  `em`, `font`, `i`, `s`, `small`, `strike`, `strong`, `tt`, `u`; `elemNameOk` = any of the three.
* `okForest` — well-formedness: such names, attribute names the tokenizer reads back verbatim
  and without a parse error, pairwise distinct; attribute values and text free of CR and U+0000;
  text nodes non-empty and never adjacent.
* the three images of a forest: `toSer` (input of the serializer model), `tokTokens` / `tbTokens`
  (token streams), `toDTree` (what is read off the DOM arena by `extract`).
* `render` — the character-level serialisation.
-/
namespace H5V.Lemmas.HtmlRT
open H5V.Spec.HtmlEscape

abbrev Str := List Char

inductive HNode where
  | elem (name : Str) (attrs : List (Str × Str)) (children : List HNode)
  | text (s : Str)
deriving Repr

abbrev Forest := List HNode

/-! ### names -/

/-- the names that have a rule of their own for the start tag in "in body" (rules.rs `InBody`),
list by list in the order of the rules -/
def startLists : List (List String) := [
  ["html"],
  ["base", "basefont", "bgsound", "link", "meta", "noframes", "script", "style", "template", "title"],
  ["body"], ["frameset"],
  ["address", "article", "aside", "blockquote", "center", "details", "dialog",
   "dir", "div", "dl", "fieldset", "figcaption", "figure", "footer", "header",
   "hgroup", "main", "nav", "ol", "p", "search", "section", "summary", "ul"],
  ["menu"], ["h1", "h2", "h3", "h4", "h5", "h6"], ["pre", "listing"], ["form"], ["li", "dd", "dt"],
  ["plaintext"], ["button"], ["a"],
  ["b", "big", "code", "em", "font", "i", "s", "small", "strike", "strong", "tt", "u"],
  ["nobr"], ["applet", "marquee", "object"], ["table"],
  ["area", "br", "embed", "img", "keygen", "wbr"], ["input"], ["param", "source", "track"], ["hr"],
  ["image"], ["textarea"], ["xmp"], ["iframe"], ["noembed"], ["select"], ["option"], ["optgroup"],
  ["rb", "rtc"], ["rp", "rt"], ["math"], ["svg"],
  ["caption", "col", "colgroup", "frame", "head", "tbody", "td", "tfoot", "th", "thead", "tr"],
  ["noscript"]]

/-- the names that have a rule of their own for the end tag in "in body" -/
def endLists : List (List String) := [
  ["template"], ["body"], ["html"],
  ["address", "article", "aside", "blockquote", "button", "center", "details",
   "dialog", "dir", "div", "dl", "fieldset", "figcaption", "figure", "footer",
   "header", "hgroup", "listing", "main", "menu", "nav", "ol", "pre", "search",
   "section", "select", "summary", "ul"],
  ["form"], ["option"], ["p"], ["li", "dd", "dt"], ["h1", "h2", "h3", "h4", "h5", "h6"],
  ["a", "b", "big", "code", "em", "font", "i", "nobr", "s", "small", "strike", "strong", "tt", "u"],
  ["applet", "marquee", "object"], ["br"]]

/-- every element name with a start- or end-tag rule of its own in "in body" -/
def specialNames : List String := startLists.flatten ++ endLists.flatten

/-- a character the tag-name state appends unchanged: not white space (CR becomes LF), `/`, `>`,
U+0000, and not an upper-case ASCII letter -/
def nameCharOk (c : Char) : Bool :=
  !(c = '\t' || c = '\n' || c = '\x0c' || c = ' ' || c = '\r' || c = '/' || c = '>' || c = '\x00'
    || ('A' ≤ c ∧ c ≤ 'Z'))

/-- a tag name as the tokenizer produces it: a lower-case ASCII letter, then `nameCharOk` characters -/
def tagNameOk : Str → Bool
  | [] => false
  | c :: rest => decide ('a' ≤ c ∧ c ≤ 'z') && rest.all nameCharOk

/-- **ordinary element name**: spelled like a tokenizer tag name and without a rule of its own in
"in body" — start tag: "any other start tag", end tag: "any other end tag" -/
def ordinaryName (n : Str) : Bool := tagNameOk n && !H5V.Model.HtmlTB.isOneOf n specialNames

/-- the plain block elements: start tag "if a `p` element is in button scope, close it; insert",
end tag "if in scope: generate implied end tags, pop up to it" (no `p`, whose end tag differs) -/
def blockNames : List String :=
  ["address", "article", "aside", "blockquote", "center", "details", "dialog", "dir", "div", "dl", "fieldset",
   "figcaption", "figure", "footer", "header", "hgroup", "main", "nav", "ol", "search", "section", "summary", "ul",
   "menu"]

def blockName (n : Str) : Bool := H5V.Model.HtmlTB.isOneOf n blockNames

/-- the formatting elements other than `a` and `nobr` (whose start tags have rules of their own): the
start tag pushes an entry onto the list of active formatting elements, the end tag runs the adoption
agency algorithm -/
def fmtNames : List String := ["b", "big", "code", "em", "font", "i", "s", "small", "strike", "strong", "tt", "u"]

def fmtName (n : Str) : Bool := H5V.Model.HtmlTB.isOneOf n fmtNames

/-- the element names of the round-trip class: ordinary names, the plain block elements and the
formatting elements -/
def elemNameOk (n : Str) : Bool := ordinaryName n || blockName n || fmtName n

/-- a character the attribute-name state appends unchanged and without a parse error -/
def attrCharOk (c : Char) : Bool :=
  nameCharOk c && !(c = '=' || c = '"' || c = '\'' || c = '<')

/-- an attribute name the tokenizer reads back verbatim, without parse error -/
def attrNameOk : Str → Bool
  | [] => false
  | c :: rest => attrCharOk c && rest.all attrCharOk

def noCRNULb (s : Str) : Bool := s.all (fun c => !(c = '\r' || c = '\x00'))

def attrsOk (as : List (Str × Str)) : Bool :=
  as.all (fun a => attrNameOk a.1 && noCRNULb a.2) && decide (as.map (·.1)).Nodup

def HNode.isText : HNode → Bool
  | .text _ => true
  | .elem .. => false

/-- no two adjacent text nodes -/
def noAdjText : Forest → Bool
  | [] => true
  | [_] => true
  | a :: b :: rest => !(a.isText && b.isText) && noAdjText (b :: rest)

mutual
def okNode : HNode → Bool
  | .elem n as ch => elemNameOk n && attrsOk as && okForest ch && noAdjText ch
  | .text s => !s.isEmpty && noCRNULb s
def okForest : Forest → Bool
  | [] => true
  | n :: ns => okNode n && okForest ns
end

/-- the class of forests of the round-trip theorems -/
def Ordinary (f : Forest) : Prop := okForest f = true ∧ noAdjText f = true

instance (f : Forest) : Decidable (Ordinary f) := by unfold Ordinary; infer_instance

/-! ### size -/

mutual
def HNode.size : HNode → Nat
  | .elem _ _ ch => 1 + sizeF ch
  | .text _ => 1
def sizeF : Forest → Nat
  | [] => 0
  | n :: ns => n.size + sizeF ns
end

/-! ### the serializer's input -/

def serName (n : Str) : H5V.Model.HtmlSer.QualName := ⟨.html, n⟩
def serAttr (a : Str × Str) : H5V.Model.HtmlSer.Attr := ⟨⟨.empty, a.1⟩, none, a.2⟩

mutual
def toSer : HNode → H5V.Model.HtmlSer.Node
  | .elem n as ch => .element (serName n) (as.map serAttr) (toSerF ch)
  | .text s => .text s
def toSerF : Forest → List H5V.Model.HtmlSer.Node
  | [] => []
  | n :: ns => toSer n :: toSerF ns
end

/-- the context element of the fragment: an HTML `div` -/
def nDiv : Str := ['d', 'i', 'v']

/-- the node whose children are serialised: a `div` holding the forest -/
def serRoot (f : Forest) : H5V.Model.HtmlSer.Node := .element (serName nDiv) [] (toSerF f)

/-! ### character-level serialisation -/

def renderAttr (a : Str × Str) : Str := ' ' :: a.1 ++ ['=', '"'] ++ escape true a.2 ++ ['"']

def renderAttrs (as : List (Str × Str)) : Str := as.flatMap renderAttr

def startTagStr (n : Str) (as : List (Str × Str)) : Str := '<' :: n ++ renderAttrs as ++ ['>']
def endTagStr (n : Str) : Str := '<' :: '/' :: n ++ ['>']

mutual
def render : HNode → Str
  | .elem n as ch => startTagStr n as ++ renderF ch ++ endTagStr n
  | .text s => escape false s
def renderF : Forest → Str
  | [] => []
  | n :: ns => render n ++ renderF ns
end

/-! ### token streams -/

/-- the start / end tag tokens as the tokenizer delivers them -/
def tokStart (n : Str) (as : List (Str × Str)) : H5V.Model.HtmlTok.Tag :=
  { kind := .startTag, name := n, selfClosing := false, attrs := as.map (fun a => ⟨a.1, a.2⟩), hadDup := false }
def tokEnd (n : Str) : H5V.Model.HtmlTok.Tag :=
  { kind := .endTag, name := n, selfClosing := false, attrs := [], hadDup := false }

/-! tokenizer tokens of a forest, text as one character token per text node -/
mutual
def tokTokens : HNode → List H5V.Model.HtmlTok.Token
  | .elem n as ch => .tag (tokStart n as) :: tokTokensF ch ++ [.tag (tokEnd n)]
  | .text s => [.chars s]
def tokTokensF : Forest → List H5V.Model.HtmlTok.Token
  | [] => []
  | n :: ns => tokTokens n ++ tokTokensF ns
end

/-! the same with one character token per character (what the tokenizer model emits) -/
mutual
def tokTokens1 : HNode → List H5V.Model.HtmlTok.Token
  | .elem n as ch => .tag (tokStart n as) :: tokTokens1F ch ++ [.tag (tokEnd n)]
  | .text s => s.map (fun c => .chars [c])
def tokTokens1F : Forest → List H5V.Model.HtmlTok.Token
  | [] => []
  | n :: ns => tokTokens1 n ++ tokTokens1F ns
end

/-- merge adjacent character tokens (the comparison convention of the tokenizer model) -/
def mergeChars : List H5V.Model.HtmlTok.Token → List H5V.Model.HtmlTok.Token
  | .chars a :: rest =>
    match mergeChars rest with
    | .chars b :: rest' => .chars (a ++ b) :: rest'
    | r => .chars a :: r
  | t :: rest => t :: mergeChars rest
  | [] => []

def tbAttrs (as : List (Str × Str)) : List H5V.Model.Dom.Attr :=
  as.map (fun a => { name := H5V.Model.HtmlTB.plainName a.1, value := a.2 })

/-- the start / end tag tokens as the tree builder receives them -/
def tbStart (n : Str) (as : List (Str × Str)) : H5V.Model.HtmlTB.Tag :=
  { kind := .startTag, name := n, selfClosing := false, attrs := tbAttrs as, hadDup := false }
def tbEnd (n : Str) : H5V.Model.HtmlTB.Tag :=
  { kind := .endTag, name := n, selfClosing := false, attrs := [], hadDup := false }

/-! tree-builder input tokens of a forest; `split` cuts a text into the pieces it arrives in -/
mutual
def tbTokens (split : Str → List Str) : HNode → List H5V.Model.HtmlTB.TokToken
  | .elem n as ch => .tag (tbStart n as) :: tbTokensF split ch ++ [.tag (tbEnd n)]
  | .text s => (split s).map .chars
def tbTokensF (split : Str → List Str) : Forest → List H5V.Model.HtmlTB.TokToken
  | [] => []
  | n :: ns => tbTokens split n ++ tbTokensF split ns
end

/-- a way of cutting text into non-empty pieces -/
def GoodSplit (split : Str → List Str) : Prop :=
  ∀ s, (split s).flatten = s ∧ ∀ p ∈ split s, p ≠ []

theorem goodSplit_whole : GoodSplit (fun s => if s = [] then [] else [s]) := by
  intro s
  by_cases h : s = [] <;> simp [h]

theorem goodSplit_chars : GoodSplit (fun s => s.map (fun c => [c])) := by
  intro s
  constructor
  · induction s with
    | nil => rfl
    | cons c t ih => simp [List.flatten_cons] at ih ⊢; exact ih
  · intro p hp
    simp only [List.mem_map] at hp
    obtain ⟨c, _, rfl⟩ := hp
    simp

/-! ### reading a tree off the DOM arena -/

/-- what `extract` reads: elements (qualified name, attributes), text, anything else -/
inductive DTree where
  | elem (name : H5V.Model.Dom.QualName) (attrs : List H5V.Model.Dom.Attr) (children : List DTree)
  | text (s : Str)
  | other
deriving Repr

/-! `extract d fuel expectedParent x`: the subtree below node `x` of the arena, following the child
lists (depth-bounded by the fuel); `none` when a child id is outside the arena, a parent pointer of a
child does not point back, a text node has children, or the fuel runs out; elements with template
contents / the integration-point flag and all other node kinds read as `other` -/
mutual
def extract (d : H5V.Model.Dom.Dom) : Nat → Option Nat → Nat → Option DTree
  | 0, _, _ => none
  | fuel + 1, expectedParent, x =>
    match d.nodes[x]? with
    | none => none
    | some n =>
      if n.parent ≠ expectedParent then none else
      match n.data with
      | .text s => if n.children = [] then some (.text s) else none
      | .element q as none false => (extractList d fuel x n.children).map (DTree.elem q as)
      | _ => some .other
def extractList (d : H5V.Model.Dom.Dom) : Nat → Nat → List Nat → Option (List DTree)
  | _, _, [] => some []
  | fuel, p, c :: cs =>
    match extract d fuel (some p) c, extractList d fuel p cs with
    | some t, some ts => some (t :: ts)
    | _, _ => none
end

mutual
def toDTree : HNode → DTree
  | .elem n as ch => .elem (H5V.Model.HtmlTB.htmlQual n) (tbAttrs as) (toDTreeF ch)
  | .text s => .text s
def toDTreeF : Forest → List DTree
  | [] => []
  | n :: ns => toDTree n :: toDTreeF ns
end

end H5V.Lemmas.HtmlRT
