import H5V.Lemmas.HtmlTBModesInvPrim2
/-!
C02 (insertion modes), the invariant `Good` of the specification's run: the rules of "in head" (and the clauses of
"in body" / "in head" for the `html` start tag and the `template` tags that the other modes share).
-/
set_option linter.unusedSectionVars false
set_option linter.unusedSimpArgs false
set_option linter.unusedVariables false
namespace H5V.Lemmas.ModesInv
open H5V.Spec H5V.Spec.TreeModes
open H5V.Spec.TreeAlgo (Str Name nsHtml nsMathml nsSvg inHtml)
open H5V.Spec.TreeAlgo2 (Elem Entry PState)

section
variable {N : Type} [DecidableEq N]

/-! ### the `html` start tag of "in body" -/

theorem post_inBodyStartHtml {σ : State N} (hg : Good σ) {t : Tag} {r : Step N} (h : inBodyStartHtml σ t = .ok r) :
    Post r := by
  unfold inBodyStartHtml at h
  dsimp only at h
  split at h
  · cases pure_ok h; exact fun _ => hg.same
  · obtain ⟨top, _, h2⟩ := bind_ok h
    cases pure_ok h2
    exact fun _ => hg.same

/-! ### the `template` start tag of "in head" -/

theorem post_inHeadStartTemplate {cfg : Config N} {σ : State N} (hc : Ctx cfg σ) {t : Tag} (ht : t.is "template" = true)
    {r : Step N} (h : inHeadStartTemplate σ t = .ok r) : Post r := by
  unfold inHeadStartTemplate at h
  obtain ⟨s1, h1, h2⟩ := bind_ok h
  cases pure_ok h2
  obtain ⟨e, _, _, hu, _⟩ := insertHtml'_eff h1
  refine fun _ => Good.plain' (m := .inTemplate) hu.mode (by decide) ?_ ?_
  · rw [hu.list]
    exact hc.good.af.marker
  · rw [hu.tms]
    intro m hm
    rcases List.mem_append.mp hm with hm | hm
    · exact hc.good.tm m hm
    · rw [List.mem_singleton.mp hm]; exact Or.inl rfl

/-! ### the `template` end tag of "in head" -/

@[simp] theorem hd_genAllImpliedThoroughly_mode (s : State N) : (genAllImpliedThoroughly s).mode = s.mode := rfl
@[simp] theorem hd_genAllImpliedThoroughly_orig (s : State N) :
    (genAllImpliedThoroughly s).originalMode = s.originalMode := rfl
@[simp] theorem hd_genAllImpliedThoroughly_tms (s : State N) :
    (genAllImpliedThoroughly s).templateModes = s.templateModes := rfl
@[simp] theorem hd_genAllImpliedThoroughly_stopped (s : State N) : (genAllImpliedThoroughly s).stopped = s.stopped := rfl
@[simp] theorem hd_genAllImpliedThoroughly_list (s : State N) : (genAllImpliedThoroughly s).p.list = s.p.list := rfl

/-- the state "reset the insertion mode appropriately" is applied to by the `template` end tag -/
theorem hd_endTemplate_core (cfg : Config N) (hed : cfg.edition = .customizableSelect) {σ s0 s' : State N}
    (hg : Good σ) (htm0 : s0.templateModes = σ.templateModes) (hl0 : s0.p.list = σ.p.list)
    (h : resetInsertionMode cfg
      { (popUntilPopped s0 "template").clearToLastMarker with
        templateModes := (popUntilPopped s0 "template").clearToLastMarker.templateModes.dropLast } = .ok s') :
    Good s' := by
  have htm : ∀ m ∈ σ.templateModes.dropLast, tmOk m := fun m hm => hg.tm m (List.dropLast_subset _ hm)
  have haf : AFOk (TreeAlgo2.clearToLastMarker σ.p.list) := hg.af.clear
  obtain ⟨m, hs, hm1, hm2, hm3, hm4, hcell⟩ := resetInsertionMode_eff cfg hed
    (by
      show ∀ m ∈ s0.templateModes.dropLast, tmOk m
      rw [htm0]; exact htm) h
  subst hs
  have haf' : AFOk (TreeAlgo2.clearToLastMarker s0.p.list) := by rw [hl0]; exact haf
  have htm' : ∀ m ∈ s0.templateModes.dropLast, tmOk m := by rw [htm0]; exact htm
  by_cases hmc : m = .inCell
  · subst hmc
    exact Good.ofCell rfl (hcell rfl) haf' htm'
  · exact Good.plain ⟨hmc, hm1, hm2, hm3, hm4⟩ haf' htm'

theorem post_inHeadEndTemplate {cfg : Config N} {σ : State N} (hc : Ctx cfg σ) {r : Step N}
    (h : inHeadEndTemplate cfg σ = .ok r) : Post r := by
  unfold inHeadEndTemplate at h
  split at h
  · cases pure_ok h; exact fun _ => hc.good.same
  · obtain ⟨s1, h1, h2⟩ := bind_ok h
    cases pure_ok h2
    refine fun _ => hd_endTemplate_core cfg hc.ed hc.good ?_ ?_ h1
    · split <;> rfl
    · split <;> rfl

/-! ### "in head" -/

/-- **"in head"** keeps the invariant (from any mode but "text" / "in table text") -/
theorem keeps_inHead : Keeps0 (inHead (N := N)) PreHead := by
  intro cfg hed σ tok r hg hst hpre h
  have hc : Ctx cfg σ := ⟨hed, hg, hst, hpre.1, hpre.2⟩
  -- "anything else", `</head>`: the mode becomes "after head"
  have hae : Good (σ.pop.setMode .afterHead) := hg.toPlain' (m := .afterHead) rfl (by decide)
  unfold inHead at h
  cases tok with
  | character c =>
    dsimp only at h
    split at h
    · obtain ⟨s1, h1, h2⟩ := map_ok h
      subst h2
      have hu := insertChar_eff h1
      exact fun _ => hg.same hu.mode hu.orig hu.tms hu.stack hu.list
    · cases pure_ok h; exact ⟨hst, hae⟩
  | comment d =>
    dsimp only at h
    obtain ⟨s1, h1, h2⟩ := map_ok h
    subst h2
    have hu := insertComment_eff h1
    exact fun _ => hg.same hu.mode hu.orig hu.tms hu.stack hu.list
  | doctype _ _ _ _ =>
    dsimp only at h
    cases pure_ok h; exact fun _ => hg.same
  | eof =>
    dsimp only at h
    cases pure_ok h; exact ⟨hst, hae⟩
  | startTag t =>
    dsimp only at h
    split at h
    · exact post_inBodyStartHtml hg h
    · split at h
      · -- base, basefont, bgsound, link
        obtain ⟨s1, h1, h2⟩ := map_ok h
        subst h2
        obtain ⟨_, hu⟩ := insertVoid_eff h1
        exact fun _ => hg.same hu.mode hu.orig hu.tms hu.stack hu.list
      · split at h
        · -- meta
          obtain ⟨s1, h1, h2⟩ := map_ok h
          subst h2
          obtain ⟨_, hu⟩ := insertVoid_eff h1
          exact fun _ => hg.same hu.mode hu.orig hu.tms hu.stack hu.list
        · split at h
          · -- title
            obtain ⟨s1, h1, h2⟩ := map_ok h
            subst h2
            obtain ⟨e, he, hne, hm, ho, ht, _, hs, hl⟩ := genericTextElement_eff (sw := .rcdata) h1
            exact fun _ => hc.enterText (e := e) (by rw [he]) hne hm ho ht hs hl
          · split at h
            · -- noscript (scripting), noframes, style
              obtain ⟨s1, h1, h2⟩ := map_ok h
              subst h2
              obtain ⟨e, he, hne, hm, ho, ht, _, hs, hl⟩ := genericTextElement_eff (sw := .rawtext) h1
              exact fun _ => hc.enterText (e := e) (by rw [he]) hne hm ho ht hs hl
            · split at h
              · -- noscript (no scripting)
                obtain ⟨s1, h1, h2⟩ := bind_ok h
                cases pure_ok h2
                obtain ⟨e, _, _, hu, _⟩ := insertHtml'_eff h1
                refine fun _ => Good.plain' (m := .inHeadNoscript) rfl (by decide) ?_ ?_
                · show AFOk s1.p.list
                  rw [hu.list]; exact hg.af
                · show ∀ m ∈ s1.templateModes, tmOk m
                  rw [hu.tms]; exact hg.tm
              · split at h
                · -- script
                  obtain ⟨s1, h1, h2⟩ := bind_ok h
                  cases pure_ok h2
                  obtain ⟨e, he, hne, hu, _⟩ := insertHtml'_eff h1
                  exact fun _ => hc.enterText (e := e) (by rw [he]) hne rfl hu.mode hu.tms hu.stack hu.list
                · split at h
                  · -- template
                    rename_i htpl
                    exact post_inHeadStartTemplate hc htpl h
                  · split at h
                    · cases pure_ok h; exact fun _ => hg.same
                    · cases pure_ok h; exact ⟨hst, hae⟩
  | endTag t =>
    dsimp only at h
    split at h
    · cases pure_ok h; exact fun _ => hae
    · split at h
      · cases pure_ok h; exact ⟨hst, hae⟩
      · split at h
        · exact post_inHeadEndTemplate hc h
        · cases pure_ok h; exact fun _ => hg.same

end
end H5V.Lemmas.ModesInv
