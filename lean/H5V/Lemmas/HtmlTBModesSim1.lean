import H5V.Lemmas.HtmlTBModesAbs
/-!
Simulation lemmas, part 1: the mid-step invariant `MInv`, how `absF` moves along `SameTB` / `Ext`
steps and simple field updates, and the queries of the model as predicates of the abstract state.
-/
namespace H5V.Lemmas.HtmlTBModes
open H5V.Model.HtmlTB
open H5V.Model.Dom (Id SinkOp Output Dom QualName Attr NodeOrText ElementFlags NodeData QuirksMode)
open H5V.Lemmas.HtmlTBAlgo
open H5V.Lemmas.TBSafe (TI HInv SInv Rooted)
open H5V.Spec.TreeAlgo2 (Elem Entry PState Ctx Edit Place)
open H5V.Spec.TreeModes (STok ETok IMode Config Out TokSwitch XOp Op Step Edition)

/-! ### tokens as the tokenizer delivers them -/

/-- a tag of the tokenizer: attribute names without prefix and namespace, no ASCII upper-case letter in
the tag name, no two attributes with the same name; no `shadowrootmode` attribute -/
structure TagWf (t : Tag) : Prop where
  plain : PlainTag t
  lower : ∀ c ∈ t.name, ¬ ('A' ≤ c ∧ c ≤ 'Z')
  nodup : (t.attrs.map (·.name.loc)).Nodup
  /-- declarative shadow roots are outside the scope of the specification `Spec.TreeModes` -/
  noShadow : ∀ a ∈ t.attrs, a.name.loc ≠ "shadowrootmode".toList

/-- the characters of a run have the class the run is labelled with -/
def ClassOk : SplitStatus → Str → Prop
  | .notSplit, _ => True
  | .whitespace, t => ∀ c ∈ t, isAsciiWhitespace c = true
  | .notWhitespace, t => ∀ c ∈ t, isAsciiWhitespace c = false

def TokWf : Token → Prop
  | .tag t => TagWf t
  | .chars st text => text ≠ [] ∧ '\x00' ∉ text ∧ ClassOk st text
  | _ => True

/-- what the simulation lemmas need in the middle of a rule (weaker than `TI`, kept by pops) -/
structure MInv (s : State) : Prop where
  elems : ElemsOk s.dom s.openElems
  root : ∀ h0, s.openElems.head? = some h0 → nameOf s.dom h0 = ⟨nsHtml, "html".toList⟩
  af : AFOk s.dom s.openElems s.activeFormatting
  afEl : ∀ h t, FormatEntry.element h t ∈ s.activeFormatting → s.dom.isElement h = true
  head : ∀ h, s.headElem = some h → s.dom.isElement h = true
  /-- the context element (fragment case) is an element -/
  ctx : ∀ c, s.contextElem = some c → s.dom.isElement c = true
  /-- the listed tokens are start tags and the listed elements are HTML elements of their token's name -/
  afwf : ∀ h t, FormatEntry.element h t ∈ s.activeFormatting → t.kind = .startTag ∧ nameOf s.dom h = ⟨nsHtml, t.name⟩
  /-- the sink's "annotation-xml integration point" flag is set on a non-HTML element of the stack only if it
  is a MathML `annotation-xml` -/
  ip : ∀ h ∈ s.openElems, (nameOf s.dom h).ns ≠ nsHtml → ipOfDom s.dom h = true → nameOf s.dom h = annotName
  /-- "in table text" is never on the stack of template insertion modes -/
  tmodes : ∀ m ∈ s.templateModes, m ≠ .inTableText
  /-- the form element pointer is an element, and not the root `html` element -/
  form : ∀ f, s.formElem = some f → s.dom.isElement f = true ∧ nameOf s.dom f ≠ ⟨nsHtml, "html".toList⟩
  /-- the pending table character tokens are chunks as the tokenizer delivers them -/
  pend : ∀ p ∈ s.pendingTableText, TokWf (.chars p.1 p.2)

theorem MInv.of_ti {s : State} (h : TI s)
    (hk : ∀ h t, FormatEntry.element h t ∈ s.activeFormatting → t.kind = .startTag)
    (hip : ∀ h ∈ s.openElems, (nameOf s.dom h).ns ≠ nsHtml → ipOfDom s.dom h = true → nameOf s.dom h = annotName)
    (hpend : ∀ p ∈ s.pendingTableText, TokWf (.chars p.1 p.2)) :
    MInv s where
  elems := elemsOk_of_ti h
  root := by
    intro h0 hh
    by_cases hp : TBSafe.preRoot s.mode = true
    · have hst := h.s.stack
      unfold TBSafe.preRoot at hp
      simp only [Bool.or_eq_true, beq_iff_eq] at hp
      rcases hp with hp | hp <;> rw [hp] at hst <;> simp only [TBSafe.ModeStack] at hst <;> rw [hst] at hh <;> cases hh
    · obtain ⟨r, rest, hl, hn⟩ := h.s.root (by simpa using hp)
      rw [hl] at hh; cases hh
      rw [← nm_eq_nameOf]; exact hn
  af := afOk_of_hinv h.h
  afEl := fun x t hm => isEl_iff.mp (h.h.af x t hm).1
  head := fun x hx => isEl_iff.mp (h.h.head x hx).1
  ctx := fun x hx => isEl_iff.mp (h.h.ctx x hx)
  afwf := fun x t hm => ⟨hk x t hm, by rw [← nm_eq_nameOf]; exact (h.h.af x t hm).2.1⟩
  ip := hip
  tmodes := by
    intro m hmem hm
    have := h.s.tmodes m hmem
    rw [hm] at this
    exact absurd this (by decide)
  form := by
    intro f hf
    obtain ⟨h1, h2⟩ := h.h.form f hf
    refine ⟨isEl_iff.mp h1, ?_⟩
    rw [← nm_eq_nameOf, h2]
    show TBSafe.formName ≠ _
    decide
  pend := hpend

theorem MInv.headOk {s : State} (h : MInv s) (hne : s.openElems ≠ []) : HeadOk s.dom s.openElems := by
  cases hl : s.openElems with
  | nil => exact absurd hl hne
  | cons a r =>
    have hn := h.root a (by rw [hl]; rfl)
    refine ⟨a, rfl, ?_, ?_⟩
    · unfold elemOf; rw [hn]
      show (HtmlTBSpec.toName ⟨nsHtml, "html".toList⟩).isHtml "table" = false
      decide
    · unfold Spec.TreeAlgo2.isSpecial elemOf; rw [hn]
      show Spec.TreeAlgo.inTable Spec.TreeTables.special (HtmlTBSpec.toName ⟨nsHtml, "html".toList⟩) = true
      decide +kernel

/-- nothing but the sink and the trace changed, and element signatures survived -/
theorem MInv.sameTB {s s' : State} (h : MInv s) (hs : SameTB s s') (he : TBSafe.Ext s.dom s'.dom) : MInv s' := by
  have ho := hs.openElems
  have ha := hs.activeFormatting
  have hhd : s'.headElem = s.headElem := by unfold SameTB at hs; rw [hs]
  have hcx : s'.contextElem = s.contextElem := by unfold SameTB at hs; rw [hs]
  have htm : s'.templateModes = s.templateModes := by unfold SameTB at hs; rw [hs]
  have hfe : s'.formElem = s.formElem := by unfold SameTB at hs; rw [hs]
  have hpe : s'.pendingTableText = s.pendingTableText := by unfold SameTB at hs; rw [hs]
  refine ⟨by rw [ho]; exact ElemsOk.ext h.elems he, ?_, ?_, ?_, ?_, ?_, ?_, ?_, by rw [htm]; exact h.tmodes, ?_,
    by rw [hpe]; exact h.pend⟩
  rotate_right
  · intro f hf; rw [hfe] at hf
    obtain ⟨h1, h2⟩ := h.form f hf
    exact ⟨isElement_ext he h1, by rw [nameOf_ext he h1]; exact h2⟩
  · intro h0 hh; rw [ho] at hh
    rw [nameOf_ext he (h.elems h0 (List.mem_of_head? hh))]; exact h.root h0 hh
  · rw [ho, ha]
    intro x t hm
    obtain ⟨a, b, c⟩ := h.af x t hm
    exact ⟨isElement_lt (isElement_ext he (h.afEl x t hm)), b, fun hx => by rw [nameOf_ext he (h.elems x hx)]; exact c hx⟩
  · intro x t hm; rw [ha] at hm; exact isElement_ext he (h.afEl x t hm)
  · intro x hx; rw [hhd] at hx; exact isElement_ext he (h.head x hx)
  · intro x hx; rw [hcx] at hx
    exact isElement_ext he (h.ctx x hx)
  · intro x t hm; rw [ha] at hm
    rw [nameOf_ext he (h.afEl x t hm)]; exact h.afwf x t hm
  · intro x hx; rw [ho] at hx
    rw [nameOf_ext he (h.elems x hx), ipOfDom_ext he (h.elems x hx)]; exact h.ip x hx

/-! ### `absF` along steps that leave the tree builder's fields alone -/

structure SameFields (s s' : State) : Prop where
  opts : s'.opts = s.opts
  mode : s'.mode = s.mode
  origMode : s'.origMode = s.origMode
  templateModes : s'.templateModes = s.templateModes
  pendingTableText : s'.pendingTableText = s.pendingTableText
  quirksMode : s'.quirksMode = s.quirksMode
  docHandle : s'.docHandle = s.docHandle
  openElems : s'.openElems = s.openElems
  activeFormatting : s'.activeFormatting = s.activeFormatting
  headElem : s'.headElem = s.headElem
  formElem : s'.formElem = s.formElem
  framesetOk : s'.framesetOk = s.framesetOk
  ignoreLf : s'.ignoreLf = s.ignoreLf
  fosterParenting : s'.fosterParenting = s.fosterParenting
  contextElem : s'.contextElem = s.contextElem

theorem _root_.H5V.Lemmas.HtmlTBAlgo.SameTB.fields {s s' : State} (h : SameTB s s') : SameFields s s' := by
  unfold SameTB at h
  constructor <;> rw [h]

theorem headPointer_ext {s : State} {d' : Dom} (hm : MInv s) (he : TBSafe.Ext s.dom d') :
    s.headElem.map (elemOf d') = s.headElem.map (elemOf s.dom) := by
  cases hh : s.headElem with
  | none => rfl
  | some h => simp only [Option.map_some]; rw [elemOf_ext he (hm.head h hh)]

theorem context_ext {s : State} {d' : Dom} (hm : MInv s) (he : TBSafe.Ext s.dom d') :
    s.contextElem.map (elemOf d') = s.contextElem.map (elemOf s.dom) ∧
    s.contextElem.map (ipOfDom d') = s.contextElem.map (ipOfDom s.dom) := by
  cases hh : s.contextElem with
  | none => exact ⟨rfl, rfl⟩
  | some h =>
    simp only [Option.map_some]
    rw [elemOf_ext he (hm.ctx h hh), ipOfDom_ext he (hm.ctx h hh)]
    exact ⟨rfl, rfl⟩

/-- a query step does not change the abstract state -/
theorem absF_of_same {s s' : State} (x : Aux) (hm : MInv s) (hs : SameTB s s') (he : TBSafe.Ext s.dom s'.dom) :
    absF s' x = absF s x := by
  have f := hs.fields
  have e1 : absStack s'.dom s'.openElems = absStack s.dom s.openElems := by
    rw [f.openElems]; exact absStack_ext hm.elems he
  have e2 : s'.headElem.map (elemOf s'.dom) = s.headElem.map (elemOf s.dom) := by
    rw [f.headElem]; exact headPointer_ext hm he
  simp only [absF, absP, e1, e2, f.mode, f.origMode, f.templateModes, f.pendingTableText, f.quirksMode,
    f.activeFormatting, f.formElem, f.framesetOk, f.ignoreLf, f.fosterParenting]

theorem cfgOf_of_same {s s' : State} (hm : MInv s) (hs : SameTB s s') (he : TBSafe.Ext s.dom s'.dom) :
    cfgOf s' = cfgOf s := by
  have f := hs.fields
  obtain ⟨c1, c2⟩ := context_ext hm he
  simp only [cfgOf, f.docHandle, f.opts, f.contextElem, c1, c2]

theorem AuxOk.of_same {s s' : State} {x : Aux} (h : AuxOk s x) (hm : MInv s) (hs : SameTB s s')
    (he : TBSafe.Ext s.dom s'.dom) : AuxOk s' x := by
  refine ⟨h.live, ?_, fun a ha => isElement_ext he (h.annotEl a ha), h.xlog⟩
  intro y hy hn
  rw [hs.openElems] at hy
  rw [nameOf_ext he (hm.elems y hy)] at hn
  rw [h.annot y hy hn, ipOfDom_ext he (hm.elems y hy)]

/-! ### what a rule of the model must do to match a rule of the specification -/

/-- the standard's single token for a non-character token of the tree builder -/
def stokOf : Token → STok
  | .tag t => stokOfTag t
  | .comment d => .comment d
  | .chars _ _ => .character ' '      -- not used: character tokens are treated separately
  | .nullChar => .character '\x00'
  | .eof => .eof

def isCharsTok : Token → Bool
  | .chars _ _ => true
  | _ => false

/-- the state `process_to_completion` continues with -/
def applyRes (res : ProcessResult) (s' : State) : State :=
  match res with
  | .reprocess m _ => { s' with mode := m }
  | _ => s'

/-- the specification's result for a result of the model -/
def stepOf (res : ProcessResult) (s' : State) (x' : Aux) : Step Id :=
  match res with
  | .reprocess _ _ => .reprocess (absF (applyRes res s') x')
  | _ => .done (absF s' x')

def rawSwitch : H5V.Model.HtmlTok.RawKind → TokSwitch
  | .rcdata => .rcdata | .rawtext => .rawtext | .scriptData => .scriptData | .scriptDataEscaped _ => .scriptData

/-- the answer to the tokenizer (the self-closing acknowledgement is not compared: html5ever reports
it as a parse error only; nor is `svgScript`: html5ever does not process SVG scripts) -/
def OutRel (res : ProcessResult) (o o' : Out Id) : Prop :=
  match res with
  | .script node => o'.script = some node ∧ o'.switch = o.switch
  | .toPlaintext => o'.switch = some .plaintext ∧ o'.script = o.script
  | .toRawData k => o'.switch = some (rawSwitch k) ∧ o'.script = o.script
  | _ => o'.switch = o.switch ∧ o'.script = o.script

/-- the result is one a rule may return for a non-character token -/
def ResTok (tok : Token) : ProcessResult → Prop
  | .reprocess _ t => t = tok
  | .reprocessForeign _ => False
  | .splitWhitespace _ => False
  | _ => True

/-- the node ids `ids` (those the sink hands out during a stretch that starts in `s`) are not elements of `s.dom` -/
def FreshIds (s : State) (ids : List Id) : Prop := ∀ n ∈ ids, s.dom.isElement n = false

theorem FreshIds.nil (s : State) : FreshIds s [] := fun _ h => by cases h

theorem FreshIds.of_dom {s s1 : State} {ids : List Id} (h : FreshIds s1 ids) (he : TBSafe.Ext s.dom s1.dom) : FreshIds s ids := by
  intro n hn
  cases hc : s.dom.isElement n
  · rfl
  · have := isElement_ext he hc
    rw [h n hn] at this; cases this

theorem FreshIds.of_eq {s s1 : State} {ids : List Id} (h : FreshIds s1 ids) (he : s.dom = s1.dom) : FreshIds s ids := by
  unfold FreshIds; rw [he]; exact h

theorem FreshIds.append {s : State} {a b : List Id} (ha : FreshIds s a) (hb : FreshIds s b) : FreshIds s (a ++ b) := by
  intro n hn
  rcases List.mem_append.mp hn with h | h
  · exact ha n h
  · exact hb n h

theorem FreshIds.of_size {s : State} {ids : List Id} (h : ∀ n ∈ ids, s.dom.size ≤ n) : FreshIds s ids := by
  intro n hn
  cases hc : s.dom.isElement n
  · rfl
  · exact absurd (isElement_lt hc) (Nat.not_lt.mpr (h n hn))

/-- the node ids taken from the supply between `x` and `x'` are not elements of `s.dom` -/
def FreshSup (s : State) (x x' : Aux) : Prop := ∀ used, x.supply = used ++ x'.supply → FreshIds s used

/-- **the post-condition of a rule** run on a non-character token: with the nodes `ids` the sink handed
out, the specification's rule `spec` maps the abstract state of `s` to that of the final state, makes
the same DOM calls (up to the splitting of text insertions), gives the same answer to the tokenizer;
`x'.stopped` = "stop parsing" was reached -/
def TokPost (spec : SState → Spec.TreeModes.M (Step Id)) (s : State) (tok : Token) :
    ProcessResult → State → List Call → Prop :=
  fun res s' calls => ResTok tok res ∧ MInv (applyRes res s') ∧ cfgOf s' = cfgOf s ∧ ∃ ids, FreshIds s ids ∧ ∀ x rest, AuxOk s x → x.supply = ids ++ rest →
    ∃ x' ops, spec (absF s x) = .ok (stepOf res s' x') ∧ (x'.stopped = false → AuxOk (applyRes res s') x') ∧
      (x'.stopped = true → res = .done ∧ tok = .eof) ∧ x'.supply = rest ∧ OutRel res x.out x'.out ∧ x'.outs = x.outs ∧
      x'.fullLog = x.fullLog ++ ops ∧
      ∀ tc, TcOk s'.dom tc → flatCalls (edits2 calls) = flatCalls (ops.map (opCall tc))

/-- a rule function of the model simulates a rule function of the specification on every
non-character token -/
def StepSimTok (f : Token → M ProcessResult) (g : Config Id → SState → STok → Spec.TreeModes.M (Step Id)) : Prop :=
  ∀ (tok : Token), isCharsTok tok = false → TokWf tok → ∀ s, MInv s →
    PC (f tok) s (TokPost (fun σ => g (cfgOf s) σ (stokOf tok)) s tok)

/-! ### the merged log grows at the end -/

theorem mergeLog_append {N : Type} : ∀ (xs : List (Nat × XOp N)) (i : Nat) (es new : List (Edit N ETok)),
    (∀ j ∈ xs.map (·.1), j ≤ i + es.length) →
    Spec.TreeModes.mergeLog xs i (es ++ new) = Spec.TreeModes.mergeLog xs i es ++ new.map .edit := by
  intro xs
  induction xs with
  | nil => intro i es new _; simp [Spec.TreeModes.mergeLog]
  | cons a xs ih =>
    intro i es new h
    obtain ⟨j, o⟩ := a
    have hj : j ≤ i + es.length := h j (by simp)
    have hle : j - i ≤ es.length := by omega
    simp only [Spec.TreeModes.mergeLog]
    rw [List.take_append_of_le_length hle, List.drop_append_of_le_length hle, ih]
    · simp
    · intro j' hj'
      have := h j' (by simp only [List.map_cons, List.mem_cons]; exact Or.inr hj')
      simp only [List.length_drop]
      omega

theorem mergeLog_snoc {N : Type} : ∀ (xs : List (Nat × XOp N)) (i : Nat) (es : List (Edit N ETok)) (o : XOp N),
    (∀ j ∈ xs.map (·.1), j ≤ i + es.length) →
    Spec.TreeModes.mergeLog (xs ++ [(i + es.length, o)]) i es = Spec.TreeModes.mergeLog xs i es ++ [.x o] := by
  intro xs
  induction xs with
  | nil =>
    intro i es o _
    simp [Spec.TreeModes.mergeLog]
  | cons a xs ih =>
    intro i es o h
    obtain ⟨j, p⟩ := a
    have hj : j ≤ i + es.length := h j (by simp)
    simp only [List.cons_append, Spec.TreeModes.mergeLog]
    have e : i + es.length = max i j + (es.drop (j - i)).length := by
      simp only [List.length_drop]; omega
    rw [e, ih]
    · simp
    · intro j' hj'
      have := h j' (by simp only [List.map_cons, List.mem_cons]; exact Or.inr hj')
      omega

/-! ### links: one stretch of a rule -/

theorem tcOk_of_ext {d d' : Dom} {tc : Id → Id} (h : TcOk d' tc) (he : TBSafe.Ext d d') : TcOk d tc := by
  intro x hx
  rw [h x (isElement_ext he hx), tcOf_ext he hx]

/-- `(s, x)` and `(s', x')` are the two ends of a stretch in which the model made `calls`, the
specification appended the matching entries to its log, `rest` is what is left of the node supply -/
structure Link (s : State) (x : Aux) (s' : State) (x' : Aux) (calls : List Call) (rest : List Id) : Prop where
  aux : AuxOk s' x'
  supply : x'.supply = rest
  switch : x'.out.switch = x.out.switch
  script : x'.out.script = x.out.script
  outs : x'.outs = x.outs
  log : ∃ ops, x'.fullLog = x.fullLog ++ ops ∧
    ∀ tc, TcOk s'.dom tc → flatCalls (edits2 calls) = flatCalls (ops.map (opCall tc))

/-- a stretch of a rule: from `s` to `s'` with `calls`; `R x x'` is what is known about the abstract
states (typically `helper (absF s x) = .ok (absF s' x')` for a helper of the specification) -/
def Tr (s s' : State) (calls : List Call) (R : Aux → Aux → Prop) : Prop :=
  MInv s' ∧ cfgOf s' = cfgOf s ∧ TBSafe.Ext s.dom s'.dom ∧
    ∃ ids, FreshIds s ids ∧ ∀ x rest, AuxOk s x → x.supply = ids ++ rest → ∃ x', Link s x s' x' calls rest ∧ R x x'

theorem Tr.refl {s : State} (hm : MInv s) : Tr s s [] (fun x x' => x' = x) :=
  ⟨hm, rfl, TBSafe.Ext.refl _, [], FreshIds.nil s, fun x rest hx hs => ⟨x, ⟨hx, by simpa using hs, rfl, rfl, rfl, [], by simp, fun _ _ => rfl⟩, rfl⟩⟩

theorem Tr.trans {s s1 s2 : State} {c1 c2 : List Call} {R1 R2 : Aux → Aux → Prop}
    (h1 : Tr s s1 c1 R1) (h2 : Tr s1 s2 c2 R2) : Tr s s2 (c1 ++ c2) (fun x x2 => ∃ x1, R1 x x1 ∧ R2 x1 x2) := by
  obtain ⟨_, hc1, he1, ids1, hf1, f1⟩ := h1
  obtain ⟨hm2, hc2, he2, ids2, hf2, f2⟩ := h2
  refine ⟨hm2, hc2.trans hc1, he1.trans he2, ids1 ++ ids2, hf1.append (hf2.of_dom he1), ?_⟩
  intro x rest hx hs
  obtain ⟨x1, l1, r1⟩ := f1 x (ids2 ++ rest) hx (by rw [hs, List.append_assoc])
  obtain ⟨x2, l2, r2⟩ := f2 x1 rest l1.aux l1.supply
  refine ⟨x2, ⟨l2.aux, l2.supply, l2.switch.trans l1.switch, l2.script.trans l1.script, l2.outs.trans l1.outs, ?_⟩, x1, r1, r2⟩
  obtain ⟨o1, e1, k1⟩ := l1.log
  obtain ⟨o2, e2, k2⟩ := l2.log
  refine ⟨o1 ++ o2, by rw [e2, e1, List.append_assoc], ?_⟩
  intro tc htc
  rw [edits2_append, flatCalls_append, List.map_append, flatCalls_append, k1 tc (tcOk_of_ext htc he2), k2 tc htc]

theorem Tr.conseq {s s' : State} {c : List Call} {R R' : Aux → Aux → Prop} (h : Tr s s' c R)
    (hr : ∀ x x', AuxOk s x → AuxOk s' x' → R x x' → R' x x') : Tr s s' c R' := by
  obtain ⟨hm, hc, he, ids, hf, f⟩ := h
  refine ⟨hm, hc, he, ids, hf, fun x rest hx hs => ?_⟩
  obtain ⟨x', l, r⟩ := f x rest hx hs
  exact ⟨x', l, hr x x' hx l.aux r⟩

/-- a stretch without calls that the specification does not see (queries, parse errors) -/
theorem Tr.of_same {s s' : State} {calls : List Call} (hm : MInv s) (hs : SameTB s s') (he : Ext2 s calls s')
    (hcalls : edits2 calls = []) : Tr s s' calls (fun x x' => x' = x ∧ absF s x = absF s' x) :=
  ⟨hm.sameTB hs he.ext, cfgOf_of_same hm hs he.ext, he.ext, [], FreshIds.nil s, fun x rest hx hsup =>
    ⟨x, ⟨hx.of_same hm hs he.ext, by simpa using hsup, rfl, rfl, rfl, [], by simp, fun _ _ => by rw [hcalls]; rfl⟩,
      rfl, (absF_of_same x hm hs he.ext).symm⟩⟩

end H5V.Lemmas.HtmlTBModes
