import H5V.Lemmas.HtmlTBSafeRules0
/-!
# Tree-builder safety, part 10: the "simple" insertion modes

`Initial`, `BeforeHtml`, `BeforeHead`, `InHeadNoscript`, `AfterHead`, `Text`, `InTemplate`, `AfterBody`,
`InFrameset`, `AfterFrameset`, `AfterAfterBody`, `AfterAfterFrameset`: each rule, run in its own mode from a
state satisfying the invariant `TI`, either fails benignly or ends in a state/result satisfying `StepPost`.
The rules of the delegates (`InHead`, `InBody`, the EOF arm of `InTemplate`, the push-head block of
`AfterHead`) are hypotheses (`HeadSpec`, `BodySpec`, `TemplateEofSpec`, `AfterHeadBlockSpec`).
-/
namespace H5V.Lemmas.TBSafe
open H5V.Model.HtmlTB
open H5V.Model.Dom (Id QualName Attr NodeOrText SinkOp Output ElementFlags QuirksMode Dom NodeData Node)

variable {al : Allow}

/-! ### helpers -/

/-- the modes without any requirement of their own (besides the root) -/
def plainMode (m : Mode) : Bool :=
  m == .beforeHead || m == .inBody || m == .inTable || m == .inCaption || m == .inColumnGroup ||
  m == .inTableBody || m == .inRow || m == .inTemplate || m == .afterBody || m == .inFrameset ||
  m == .afterFrameset || m == .afterAfterBody || m == .afterAfterFrameset

theorem plainMode_ne_text {m : Mode} (h : plainMode m = true) : m ≠ .text := by
  rintro rfl; revert h; decide

theorem SInv.plain {m m' : Mode} {s : State} (h : SInv m s) (hm : m ≠ .inTableText)
    (hr : Rooted s.dom s.openElems) (hp : plainMode m' = true) : SInv m' s := by
  cases m' <;> first
    | (exfalso; revert hp; decide)
    | exact h.chmode hm (fun _ => hr) trivial (fun e => absurd e (by decide)) (by decide) (by decide)

theorem StepPost.of_ti {tok : Token} {res : ProcessResult} {s' : State} (ht : TI s')
    (hn : nextMode res s'.mode = s'.mode) (hr : ResOk tok res) : StepPost tok res s' :=
  ⟨ht.h, by rw [hn]; exact ht.s, hr⟩

theorem StepPost.reprocess {tok : Token} {m : Mode} {s' : State} (h : HInv s') (hs : SInv m s')
    (hm : m ≠ .text := by decide) : StepPost tok (.reprocess m tok) s' := ⟨h, hs, rfl, hm⟩

/-- switch to a plain mode -/
theorem TI.setPlain {s : State} (ht : TI s) (hr : preRoot s.mode = false) (hm : s.mode ≠ .inTableText)
    {m : Mode} (hp : plainMode m = true) : TI { s with mode := m } :=
  ⟨ht.h.withMode m, (ht.s.plain hm (ht.rooted hr) hp).withMode m⟩

theorem sat_unexpected_post {tok : Token} {s : State} (ht : TI s) : Sat unexpected s (StepPost tok) :=
  sat_unexpected.mono (by rintro r s' ⟨rfl, hq⟩; exact StepPost.of_qf ht hq rfl trivial)

/-- `unexpected; Reprocess(plain mode)` -/
theorem sat_unexpected_reprocess {tok : Token} {m : Mode} {s : State} (ht : TI s)
    (hr : preRoot s.mode = false) (hm : s.mode ≠ .inTableText) (hp : plainMode m = true) :
    Sat (do let _ ← unexpected; pure (ProcessResult.reprocess m tok)) s (StepPost tok) := by
  refine sat_unexpected.bind ?_
  rintro _ s1 ⟨-, hq⟩
  have ht1 := ht.of_qf hq
  refine sat_pure (StepPost.reprocess ht1.h ?_ (plainMode_ne_text hp))
  have hr1 : preRoot s1.mode = false := by rw [hq.mode]; exact hr
  exact ht1.s.plain (by rw [hq.mode]; exact hm) (ht1.rooted hr1) hp

theorem rooted_dropLast {d : Dom} {l : List Id} (hr : Rooted d l) (h2 : 2 ≤ l.length) : Rooted d l.dropLast := by
  obtain ⟨r, rest, rfl, hn⟩ := hr
  cases rest with
  | nil => simp at h2
  | cons a t => exact ⟨r, (a :: t).dropLast, by simp [List.dropLast], hn⟩

/-- the stack shrinks to a sublist for which the requirements of the new mode hold -/
theorem SInv.shrink {m m' : Mode} {s s' : State} {l : List Id} (hi : HInv s) (h : SInv m s) (st : St s s' l)
    (hsub : l.Sublist s.openElems) (hm : m ≠ .inTableText) (hr : preRoot m' = false → Rooted s.dom l)
    (hs : ModeStack s.dom m' l) (hh : needsHead m' = true → s.headElem.isSome = true)
    (ht : m' ≠ .text) (htt : m' ≠ .inTableText) : SInv m' s' := by
  have hel : AllEl s.dom l := hi.open_el.sub (fun x hx => hsub.subset hx)
  exact {
    root := fun hp => by rw [st.openElems]; exact (hr hp).ext st.fr.ext hel
    stack := by rw [st.openElems]; exact hs.ext st.fr.ext hel
    head := fun hn => by rw [st.fr.headElem]; exact hh hn
    headIn := by
      rw [st.openElems, st.fr.headElem]
      rintro ⟨x, hx, hn⟩
      exact h.headIn ⟨x, hsub.subset hx, by rw [← hel.nm_eq st.fr.ext hx]; exact hn⟩
    text := fun e => absurd e ht
    tableText := fun e => absurd e htt
    pending := fun _ => by rw [st.fr.pendingTableText]; exact h.pending hm
    tmpl := by
      rw [st.openElems, st.fr.templateModes, tcount_ext st.fr.ext hel, ctxTmpl_fr hi st.fr]
      exact Nat.le_trans (Nat.add_le_add_right (tcount_le_of_sublist hsub) _) h.tmpl
    tmodes := by rw [st.fr.templateModes]; exact h.tmodes }

theorem isOneOf_sub {n : Str} {l1 l2 : List String} (hsub : ∀ x ∈ l1, x ∈ l2) (h : isOneOf n l1 = true) :
    isOneOf n l2 = true := by
  unfold isOneOf at *
  rw [List.any_eq_true] at *
  obtain ⟨x, hx, hxn⟩ := h
  exact ⟨x, hsub x hx, hxn⟩

theorem isStart_sub {t : Tag} {l1 l2 : List String} (hsub : ∀ x ∈ l1, x ∈ l2) (h : t.isStart l1 = true) :
    t.isStart l2 = true := by
  simp only [Tag.isStart, Bool.and_eq_true] at h ⊢
  exact ⟨h.1, isOneOf_sub hsub h.2⟩

theorem start_name {tag : Tag} {n : String} (h : tag.isStart [n] = true) : tag.name = n.toList := by
  simp [Tag.isStart, isOneOf] at h
  exact h.2.symm

/-! ### Initial -/

theorem initial_else {tok : Token} {s : State} (ht : TI s) (hm : s.mode = .initial) :
    Sat (do
      let s0 ← getS
      if (!s0.opts.iframeSrcdoc) = true then do
          let _ ← unexpected
          setQuirksMode QuirksMode.quirks
          pure (ProcessResult.reprocess Mode.beforeHtml tok)
        else pure (ProcessResult.reprocess Mode.beforeHtml tok)) s (StepPost tok) := by
  have hfin : ∀ s1, Same s s1 → StepPost tok (.reprocess .beforeHtml tok) s1 := by
    intro s1 st
    have ht1 := ht.of_same st
    have hs : SInv .initial s1 := by have := ht1.s; rw [st.fr.mode, hm] at this; exact this
    exact StepPost.reprocess ht1.h
      (hs.chmode (by decide) (fun e => absurd e (by decide)) hs.stack (fun e => absurd e (by decide))
        (by decide) (by decide))
  refine sat_getS_bind ?_
  split
  · refine sat_unexpected.bind ?_
    rintro _ s1 ⟨-, hq1⟩
    refine sat_setQuirksMode.bind ?_
    intro _ s2 st2
    exact sat_pure (hfin s2 (hq1.same.trans st2))
  · exact sat_pure (hfin s (Same.refl s))

theorem stepInitial_spec : ∀ (tok : Token) (s : State), TI s → s.mode = .initial →
    Sat (stepInitial tok) s (StepPost tok) := by
  intro tok s ht hm
  unfold stepInitial
  cases tok with
  | chars st text =>
    cases st with
    | notSplit => exact sat_pure (StepPost.of_same ht (Same.refl s) rfl trivial)
    | whitespace => exact sat_pure (StepPost.of_same ht (Same.refl s) rfl trivial)
    | notWhitespace => exact initial_else ht hm
  | comment text =>
    exact sat_appendCommentToDoc.mono (by rintro r s' ⟨rfl, hq⟩; exact StepPost.of_qf ht hq rfl trivial)
  | tag t => exact initial_else ht hm
  | nullChar => exact initial_else ht hm
  | eof => exact initial_else ht hm

/-! ### BeforeHtml -/

/-- the state after `create_root` in `BeforeHtml` -/
theorem createRoot_post {s s' : State} {r : Id} (ht : TI s) (hm : s.mode = .beforeHtml) (fr : Fr s s')
    (ho : s'.openElems = s.openElems ++ [r]) (haf : s'.activeFormatting = s.activeFormatting)
    (hel : IsEl s'.dom r) (hn : nm s'.dom r = htmlName) : HInv s' ∧ SInv .beforeHead s' := by
  have hs : SInv .beforeHtml s := by have := ht.s; rw [hm] at this; exact this
  have hnil : s.openElems = [] := hs.stack
  have ho' : s'.openElems = [r] := by rw [ho, hnil]; rfl
  have h0 : HInv { s' with openElems := [] } :=
    ht.h.of_fr (fr.withOpen []) (fun x hx => by cases hx)
      (by show ∀ e ∈ s'.activeFormatting, e ∈ s.activeFormatting; rw [haf]; exact fun _ h => h)
  have hmem : ∀ x ∈ s'.openElems, x = r := fun x hx => by rw [ho'] at hx; exact List.mem_singleton.mp hx
  refine ⟨⟨?_, ?_, h0.af, h0.head, h0.form, h0.ctx⟩, ?_⟩
  · intro x hx; rw [hmem x hx]; exact hel
  · intro x hx; rw [hmem x hx]
    intro htm; rw [hn] at htm; exact absurd htm (by decide)
  · exact {
      root := fun _ => ⟨r, [], ho', hn⟩
      stack := trivial
      head := fun e => absurd e (by decide)
      headIn := by
        rintro ⟨x, hx, hh⟩
        rw [hmem x hx, hn] at hh; exact absurd hh (by decide)
      text := fun e => absurd e (by decide)
      tableText := fun e => absurd e (by decide)
      pending := fun _ => by rw [fr.pendingTableText]; exact hs.pending (by decide)
      tmpl := by
        have h1 := hs.tmpl
        rw [hnil] at h1
        have h2 : tcount s'.dom s'.openElems = 0 :=
          tcount_zero_of_not (fun x hx => by rw [hmem x hx, hn]; decide)
        rw [h2, fr.templateModes, ctxTmpl_fr ht.h fr]
        simpa [tcount] using h1
      tmodes := by rw [fr.templateModes]; exact hs.tmodes }

theorem beforeHtml_else {tok : Token} {s : State} (ht : TI s) (hm : s.mode = .beforeHtml) :
    Sat (do
      createRoot []
      pure (ProcessResult.reprocess Mode.beforeHead tok)) s (StepPost tok) := by
  refine sat_createRoot.bind ?_
  rintro _ s1 ⟨r, fr, ho, haf, hel, hn, -⟩
  obtain ⟨h1, h2⟩ := createRoot_post ht hm fr ho haf hel hn
  exact sat_pure (StepPost.reprocess h1 h2)

theorem stepBeforeHtml_spec : ∀ (tok : Token) (s : State), TI s → s.mode = .beforeHtml →
    Sat (stepBeforeHtml tok) s (StepPost tok) := by
  intro tok s ht hm
  unfold stepBeforeHtml
  cases tok with
  | chars st text =>
    cases st with
    | notSplit => exact sat_pure (StepPost.of_same ht (Same.refl s) rfl trivial)
    | whitespace => exact sat_pure (StepPost.of_same ht (Same.refl s) rfl trivial)
    | notWhitespace => exact beforeHtml_else ht hm
  | comment text =>
    exact sat_appendCommentToDoc.mono (by rintro r s' ⟨rfl, hq⟩; exact StepPost.of_qf ht hq rfl trivial)
  | tag t =>
    dsimp only
    by_cases h1 : t.isStart ["html"] = true
    · rw [if_pos h1]
      refine sat_createRoot.bind ?_
      rintro _ s1 ⟨r, fr, ho, haf, hel, hn, -⟩
      obtain ⟨h1, h2⟩ := createRoot_post ht hm fr ho haf hel hn
      refine sat_setMode.bind ?_
      rintro _ s2 rfl
      exact sat_pure ⟨h1.withMode _, h2.withMode _, trivial⟩
    rw [if_neg h1]
    by_cases h2 : t.isEnd ["head", "body", "html", "br"] = true
    · rw [if_pos h2]; exact beforeHtml_else ht hm
    rw [if_neg h2]
    by_cases h3 : (t.kind == Model.HtmlTok.TagKind.endTag) = true
    · rw [if_pos h3]; exact sat_unexpected_post ht
    rw [if_neg h3]; exact beforeHtml_else ht hm
  | nullChar => exact beforeHtml_else ht hm
  | eof => exact beforeHtml_else ht hm

/-! ### BeforeHead -/

/-- the state after inserting the `head` element and setting the head pointer -/
theorem headInserted_post {s s1 : State} {h : Id} (ht : TI s) (hm : s.mode = .beforeHead)
    (hins : Inserted s s1 h nsHtml "head".toList true) :
    HInv { s1 with headElem := some h } ∧ SInv .inHead { s1 with headElem := some h } := by
  have hs : SInv .beforeHead s := by have := ht.s; rw [hm] at this; exact this
  have hr : Rooted s.dom s.openElems := hs.root rfl
  have h1 : HInv s1 := hins.hinv ht.h
  have ho : s1.openElems = s.openElems ++ [h] := by rw [hins.openElems]; rfl
  have hnm : nm s1.dom h = headName := hins.nm
  refine ⟨⟨h1.open_el, h1.open_tc, h1.af, ?_, h1.form, h1.ctx⟩, ?_⟩
  · intro x hx
    have : h = x := by simpa using hx
    subst this
    exact ⟨hins.el, hnm⟩
  · exact {
      root := fun _ => by
        show Rooted s1.dom s1.openElems
        rw [ho]; exact hr.append_ext hins.fr.ext ht.h.open_el
      stack := ⟨h, by show h ∈ s1.openElems; rw [ho]; simp, hnm⟩
      head := fun _ => rfl
      headIn := fun _ => rfl
      text := fun e => absurd e (by decide)
      tableText := fun e => absurd e (by decide)
      pending := fun _ => by
        show s1.pendingTableText = []
        rw [hins.fr.pendingTableText]; exact hs.pending (by decide)
      tmpl := by
        show tcount s1.dom s1.openElems + ctxTmpl s1 ≤ s1.templateModes.length
        rw [ho, tcount_append, tcount_ext hins.fr.ext ht.h.open_el, hins.fr.templateModes, ctxTmpl_fr ht.h hins.fr]
        have : tcount s1.dom [h] = 0 :=
          tcount_zero_of_not (fun x hx => by rw [List.mem_singleton.mp hx, hnm]; decide)
        have := hs.tmpl
        omega
      tmodes := by
        show ∀ x ∈ s1.templateModes, tmplModeOk x = true
        rw [hins.fr.templateModes]; exact hs.tmodes }

theorem beforeHead_else {tok : Token} {s : State} (ht : TI s) (hm : s.mode = .beforeHead) :
    Sat (do
      let h ← insertPhantom "head"
      modS fun s => { s with headElem := some h }
      pure (ProcessResult.reprocess Mode.inHead tok)) s (StepPost tok) := by
  refine (sat_insertPhantom (ht.place (by rw [hm]; rfl))).bind ?_
  intro h s1 hins
  refine sat_modS_bind ?_
  obtain ⟨h1, h2⟩ := headInserted_post ht hm hins
  exact sat_pure (StepPost.reprocess h1 h2)

theorem stepBeforeHead_spec : ∀ (tok : Token) (s : State), TI s → s.mode = .beforeHead →
    Sat (stepBeforeHead tok) s (StepPost tok) := by
  intro tok s ht hm
  have hpre : preRoot s.mode = false := by rw [hm]; rfl
  unfold stepBeforeHead
  cases tok with
  | chars st text =>
    cases st with
    | notSplit => exact sat_pure (StepPost.of_same ht (Same.refl s) rfl trivial)
    | whitespace => exact sat_pure (StepPost.of_same ht (Same.refl s) rfl trivial)
    | notWhitespace => exact beforeHead_else ht hm
  | comment text =>
    exact (sat_appendComment (ht.place hpre)).mono
      (by rintro r s' ⟨rfl, hq⟩; exact StepPost.of_qf ht hq rfl trivial)
  | tag t =>
    dsimp only
    by_cases h1 : t.isStart ["html"] = true
    · rw [if_pos h1]; exact sat_stepInBody_html ht hpre h1
    rw [if_neg h1]
    by_cases h2 : t.isStart ["head"] = true
    · rw [if_pos h2]
      refine (sat_insertElementFor (ht.place hpre)).bind ?_
      intro h s1 hins
      rw [start_name h2] at hins
      refine sat_modS_bind ?_
      obtain ⟨h1, h2⟩ := headInserted_post ht hm hins
      refine sat_setMode.bind ?_
      rintro _ s2 rfl
      exact sat_pure ⟨h1.withMode _, h2.withMode _, trivial⟩
    rw [if_neg h2]
    by_cases h3 : t.isEnd ["head", "body", "html", "br"] = true
    · rw [if_pos h3]; exact beforeHead_else ht hm
    rw [if_neg h3]
    by_cases h4 : (t.kind == Model.HtmlTok.TagKind.endTag) = true
    · rw [if_pos h4]; exact sat_unexpected_post ht
    rw [if_neg h4]; exact beforeHead_else ht hm
  | nullChar => exact beforeHead_else ht hm
  | eof => exact beforeHead_else ht hm

/-! ### InHeadNoscript -/

theorem noscript_pop {s : State} (ht : TI s) (hm : s.mode = .inHeadNoscript) :
    Sat pop s (fun _ s' => HInv s' ∧ SInv .inHead s') := by
  have hs : SInv .inHeadNoscript s := by have := ht.s; rw [hm] at this; exact this
  obtain ⟨⟨x, hx, hxn⟩, t, hlast, -⟩ := hs.stack
  refine (sat_pop hlast).mono ?_
  rintro _ s' ⟨-, st⟩
  have hlen : 2 ≤ s.openElems.length := by
    have h1 : 0 < s.openElems.dropLast.length := List.length_pos_of_mem hx
    rw [List.length_dropLast] at h1
    omega
  refine ⟨ht.h.of_st st (fun y hy => List.dropLast_subset _ hy), ?_⟩
  exact SInv.shrink ht.h hs st (List.dropLast_sublist _) (by decide)
    (fun _ => rooted_dropLast (hs.root rfl) hlen) ⟨x, hx, hxn⟩ (fun _ => hs.head rfl) (by decide) (by decide)

theorem noscript_else {tok : Token} {s : State} (ht : TI s) (hm : s.mode = .inHeadNoscript) :
    Sat (do
      let _ ← unexpected
      let _ ← pop
      pure (ProcessResult.reprocess Mode.inHead tok)) s (StepPost tok) := by
  refine sat_unexpected.bind ?_
  rintro _ s1 ⟨-, hq⟩
  refine (noscript_pop (ht.of_qf hq) (by rw [hq.mode]; exact hm)).bind ?_
  rintro _ s2 ⟨h1, h2⟩
  exact sat_pure (StepPost.reprocess h1 h2)

theorem stepInHeadNoscript_spec (hh : HeadSpec) : ∀ (tok : Token) (s : State), TI s → s.mode = .inHeadNoscript →
    Sat (stepInHeadNoscript tok) s (StepPost tok) := by
  intro tok s ht hm
  have hpre : preRoot s.mode = false := by rw [hm]; rfl
  have hok : origOk s.mode = true := by rw [hm]; rfl
  unfold stepInHeadNoscript
  cases tok with
  | chars st text =>
    cases st with
    | notSplit => exact sat_pure (StepPost.of_same ht (Same.refl s) rfl trivial)
    | whitespace => exact hh _ s ht hok (Or.inr rfl)
    | notWhitespace => exact noscript_else ht hm
  | comment text => exact hh _ s ht hok (Or.inr rfl)
  | tag t =>
    dsimp only
    by_cases h1 : t.isStart ["html"] = true
    · rw [if_pos h1]; exact sat_stepInBody_html ht hpre h1
    rw [if_neg h1]
    by_cases h2 : t.isEnd ["noscript"] = true
    · rw [if_pos h2]
      refine (noscript_pop ht hm).bind ?_
      rintro _ s1 ⟨h1, h2⟩
      refine sat_setMode.bind ?_
      rintro _ s2 rfl
      exact sat_pure ⟨h1.withMode _, h2.withMode _, trivial⟩
    rw [if_neg h2]
    by_cases h3 : t.isStart ["basefont", "bgsound", "link", "meta", "noframes", "style"] = true
    · rw [if_pos h3]
      refine hh _ s ht hok (Or.inr ?_)
      simp only [headDeleg, Bool.or_eq_true]
      exact Or.inl (isStart_sub (by simp) h3)
    rw [if_neg h3]
    by_cases h4 : t.isEnd ["br"] = true
    · rw [if_pos h4]; exact noscript_else ht hm
    rw [if_neg h4]
    by_cases h5 : (t.isStart ["head", "noscript"] || t.kind == Model.HtmlTok.TagKind.endTag) = true
    · rw [if_pos h5]; exact sat_unexpected_post ht
    rw [if_neg h5]; exact noscript_else ht hm
  | nullChar => exact noscript_else ht hm
  | eof => exact noscript_else ht hm

/-! ### AfterHead -/

/-- a fresh element (neither `template` nor `head`) was inserted in a body-like mode -/
theorem TI.of_inserted {s s1 : State} {r : Id} {name : Str} {pushIt : Bool} (ht : TI s)
    (hpre : preRoot s.mode = false) (hbl : bodyLike s.mode = true)
    (hins : Inserted s s1 r nsHtml name pushIt) (hn : NewOk ⟨nsHtml, name⟩) : TI s1 := by
  have b := BStep.of_inserted ht.h (ht.rooted hpre) hins hn
  exact ⟨b.hinv, by rw [b.mode]; exact ht.s.of_bstep ht.h b hbl (Keeps.of_inserted hins)⟩

theorem afterHead_else {tok : Token} {s : State} (ht : TI s) (hm : s.mode = .afterHead) :
    Sat (do
      let _ ← insertPhantom "body"
      pure (ProcessResult.reprocess Mode.inBody tok)) s (StepPost tok) := by
  have hpre : preRoot s.mode = false := by rw [hm]; rfl
  refine (sat_insertPhantom (ht.place hpre)).bind ?_
  intro h s1 hins
  have ht1 := ht.of_inserted hpre (by rw [hm]; rfl) hins ⟨by decide, by decide⟩
  have hm1 : s1.mode = .afterHead := by rw [hins.fr.mode]; exact hm
  have hpre1 : preRoot s1.mode = false := by rw [hm1]; rfl
  exact sat_pure (StepPost.reprocess ht1.h (ht1.s.plain (by rw [hm1]; decide) (ht1.rooted hpre1) rfl))

theorem stepAfterHead_spec (hh : HeadSpec) (hah : AfterHeadBlockSpec) : ∀ (tok : Token) (s : State), TI s →
    s.mode = .afterHead → Sat (stepAfterHead tok) s (StepPost tok) := by
  intro tok s ht hm
  have hpre : preRoot s.mode = false := by rw [hm]; rfl
  have hok : origOk s.mode = true := by rw [hm]; rfl
  have hbl : bodyLike s.mode = true := by rw [hm]; rfl
  unfold stepAfterHead
  cases tok with
  | chars st text =>
    cases st with
    | notSplit => exact sat_pure (StepPost.of_same ht (Same.refl s) rfl trivial)
    | whitespace =>
      exact (sat_appendText (ht.place hpre)).mono
        (by rintro r s' ⟨rfl, hq⟩; exact StepPost.of_qf ht hq rfl trivial)
    | notWhitespace => exact afterHead_else ht hm
  | comment text =>
    exact (sat_appendComment (ht.place hpre)).mono
      (by rintro r s' ⟨rfl, hq⟩; exact StepPost.of_qf ht hq rfl trivial)
  | tag t =>
    dsimp only
    by_cases h1 : t.isStart ["html"] = true
    · rw [if_pos h1]; exact sat_stepInBody_html ht hpre h1
    rw [if_neg h1]
    by_cases h2 : t.isStart ["body"] = true
    · rw [if_pos h2]
      refine (sat_insertElementFor (ht.place hpre)).bind ?_
      intro h s1 hins
      have ht1 := ht.of_inserted hpre hbl hins (by rw [start_name h2]; exact ⟨by decide, by decide⟩)
      refine sat_setFramesetOk.bind ?_
      intro _ s2 st2
      have ht2 := ht1.of_same st2
      have hm2 : s2.mode = .afterHead := by rw [st2.fr.mode, hins.fr.mode]; exact hm
      refine sat_setMode.bind ?_
      rintro _ s3 rfl
      exact sat_pure (StepPost.of_ti (ht2.setPlain (by rw [hm2]; rfl) (by rw [hm2]; decide) (m := .inBody) rfl)
        rfl trivial)
    rw [if_neg h2]
    by_cases h3 : t.isStart ["frameset"] = true
    · rw [if_pos h3]
      refine (sat_insertElementFor (ht.place hpre)).bind ?_
      intro h s1 hins
      have ht1 := ht.of_inserted hpre hbl hins (by rw [start_name h3]; exact ⟨by decide, by decide⟩)
      have hm1 : s1.mode = .afterHead := by rw [hins.fr.mode]; exact hm
      refine sat_setMode.bind ?_
      rintro _ s3 rfl
      exact sat_pure (StepPost.of_ti (ht1.setPlain (by rw [hm1]; rfl) (by rw [hm1]; decide) (m := .inFrameset) rfl)
        rfl trivial)
    rw [if_neg h3]
    by_cases h4 : t.isStart
        ["base", "basefont", "bgsound", "link", "meta", "noframes", "script", "style", "template", "title"] = true
    · rw [if_pos h4]
      refine sat_unexpected.bind ?_
      rintro _ s1 ⟨-, hq⟩
      refine sat_getS_bind ?_
      have ht1 := ht.of_qf hq
      have hm1 : s1.mode = .afterHead := by rw [hq.mode]; exact hm
      have hsome : s1.headElem.isSome = true := by
        have := ht1.s; rw [hm1] at this; exact this.head rfl
      cases hhd : s1.headElem with
      | none => rw [hhd] at hsome; cases hsome
      | some head => exact hah _ head s1 ht1 hm1 hhd h4
    rw [if_neg h4]
    by_cases h5 : t.isEnd ["template"] = true
    · rw [if_pos h5]
      refine hh _ s ht hok (Or.inr ?_)
      simp only [headDeleg, Bool.or_eq_true]
      exact Or.inr h5
    rw [if_neg h5]
    by_cases h6 : t.isEnd ["body", "html", "br"] = true
    · rw [if_pos h6]; exact afterHead_else ht hm
    rw [if_neg h6]
    by_cases h7 : (t.isStart ["head"] || t.kind == Model.HtmlTok.TagKind.endTag) = true
    · rw [if_pos h7]; exact sat_unexpected_post ht
    rw [if_neg h7]; exact afterHead_else ht hm
  | nullChar => exact afterHead_else ht hm
  | eof => exact afterHead_else ht hm

/-! ### Text -/

theorem sat_textProto {α : Type} {s : State} {Q : α → State → Prop} (ha : al.text) :
    Sat (panicAt "unreachable" "rules.rs:1037" "impossible case in Text mode" : M α) s Q := by
  unfold panicAt
  refine sat_throw ?_
  have : ("unreachable" ++ "@" ++ "rules.rs:1037" ++ ": " ++ "impossible case in Text mode" : String)
      = textProtoMsg := rfl
  rw [this]; exact Benign.textProto ha

/-- the raw-text element has been popped: the original mode can be restored -/
theorem text_popped {s s' : State} (ht : TI s) (hm : s.mode = .text) (st : St s s' s.openElems.dropLast) :
    ∃ om, s'.origMode = some om ∧ om ≠ .text ∧ ∀ m', HInv { s' with origMode := none, mode := m' } ∧
      SInv om { s' with origMode := none, mode := m' } := by
  have hs : SInv .text s := by have := ht.s; rw [hm] at this; exact this
  obtain ⟨om, ho, hok, hlen, hst, hhd⟩ := hs.text rfl
  have hnt : om ≠ .text := by rintro rfl; revert hok; decide
  have hntt : om ≠ .inTableText := by rintro rfl; revert hok; decide
  have hpre : preRoot om = false → Rooted s.dom s.openElems.dropLast :=
    fun _ => rooted_dropLast (hs.root rfl) hlen
  have h1 : HInv s' := ht.h.of_st st (fun y hy => List.dropLast_subset _ hy)
  have h2 : SInv om s' :=
    SInv.shrink ht.h hs st (List.dropLast_sublist _) (by decide) hpre hst hhd hnt hntt
  refine ⟨om, by rw [st.fr.origMode]; exact ho, hnt, fun m' => ⟨?_, ?_⟩⟩
  · exact ⟨h1.open_el, h1.open_tc, h1.af, h1.head, h1.form, h1.ctx⟩
  · exact ⟨h2.root, h2.stack, h2.head, h2.headIn, fun e => absurd e hnt, fun e => absurd e hntt, h2.pending,
      h2.tmpl, h2.tmodes⟩

theorem text_top {s : State} (ht : TI s) (hm : s.mode = .text) : ∃ t, s.openElems.getLast? = some t := by
  have hs : SInv .text s := by have := ht.s; rw [hm] at this; exact this
  obtain ⟨t, h, -⟩ := hs.stack
  exact ⟨t, h⟩

theorem stepText_spec : ∀ (tok : Token) (s : State), TI s → s.mode = .text →
    (al.text ∨ textTok tok = true) → Sat (stepText tok) s (StepPost tok) := by
  intro tok s ht hm hprot
  have hpre : preRoot s.mode = false := by rw [hm]; rfl
  unfold stepText
  cases tok with
  | chars st text =>
    exact (sat_appendText (ht.place hpre)).mono
      (by rintro r s' ⟨rfl, hq⟩; exact StepPost.of_qf ht hq rfl trivial)
  | comment text => exact sat_textProto (hprot.resolve_right (by simp [textTok]))
  | nullChar => exact sat_textProto (hprot.resolve_right (by decide))
  | tag t =>
    dsimp only
    by_cases h1 : (t.kind == Model.HtmlTok.TagKind.endTag) = true
    · rw [if_pos h1]
      obtain ⟨top, htop⟩ := text_top ht hm
      refine (sat_pop htop).bind ?_
      rintro node s1 ⟨-, st⟩
      refine sat_getS_bind ?_
      obtain ⟨om, ho, hnt, hfin⟩ := text_popped ht hm st
      rw [ho]
      dsimp only
      refine sat_set_bind ?_
      obtain ⟨h1, h2⟩ := hfin om
      split
      · exact sat_pure ⟨h1, h2, rfl⟩
      · exact sat_pure ⟨h1, h2, trivial⟩
    rw [if_neg h1]
    refine sat_textProto (hprot.resolve_right ?_)
    simpa [textTok] using h1
  | eof =>
    dsimp only
    have htail : ∀ s1, QF s s1 → Sat (do
        let _ ← pop
        let s ← getS
        match s.origMode with
          | none => panicAt "unwrap-none" "rules.rs:1023" "orig_mode.take().unwrap()"
          | some m => do
            set { s with origMode := none }
            pure (ProcessResult.reprocess m Token.eof)) s1 (StepPost .eof) := by
      intro s1 hq
      have ht1 := ht.of_qf hq
      have hm1 : s1.mode = .text := by rw [hq.mode]; exact hm
      obtain ⟨top, htop⟩ := text_top ht1 hm1
      refine (sat_pop htop).bind ?_
      rintro node s2 ⟨-, st⟩
      refine sat_getS_bind ?_
      obtain ⟨om, ho, hnt, hfin⟩ := text_popped ht1 hm1 st
      rw [ho]
      dsimp only
      refine sat_set_bind ?_
      obtain ⟨h1, h2⟩ := hfin s2.mode
      exact sat_pure (StepPost.reprocess h1 h2 hnt)
    refine sat_unexpected.bind ?_
    rintro _ s1 ⟨-, hq1⟩
    have ht1 := ht.of_qf hq1
    have hm1 : s1.mode = .text := by rw [hq1.mode]; exact hm
    obtain ⟨top, htop⟩ := text_top ht1 hm1
    refine (sat_currentNodeNamed htop (ht1.h.open_el top (getLast?_mem htop))).bind ?_
    rintro b s2 ⟨-, hq2⟩
    have hq := hq1.trans hq2
    split
    · refine sat_getS_bind ?_
      have htop2 : s2.openElems.getLast? = some top := by rw [hq2.openElems]; exact htop
      rw [htop2]
      dsimp only
      refine Sat.bind (Q := fun c s3 => s3 = s2) (sat_pure rfl) ?_
      rintro c s3 rfl
      refine (sat_sinkUnit_total ⟨_, _, apply_mark _ _⟩).bind ?_
      intro _ s4 hq4
      exact htail s4 (hq.trans hq4)
    · exact htail s2 hq

/-! ### InTemplate -/

theorem body_deleg (hb : BodySpec) {tok : Token} {s : State} (ht : TI s) (hbl : bodyLike s.mode = true)
    (h1 : s.mode ≠ .inHead) (h2 : s.mode ≠ .inTableText) (h3 : s.mode ≠ .inCell) :
    Sat (stepInBody tok) s (StepPost tok) :=
  (hb tok s ht hbl h1 (fun e => absurd e h2) (fun e => absurd e h3)).mono (fun _ _ h => h.1)

theorem sat_setTemplateMode_reprocess {tok : Token} {m : Mode} {s : State} (ht : TI s) (hm : s.mode = .inTemplate)
    (hok : tmplModeOk m = true) (hp : plainMode m = true) :
    Sat (do setTemplateMode m; pure (ProcessResult.reprocess m tok)) s (StepPost tok) := by
  unfold setTemplateMode
  refine sat_modS_bind ?_
  have hs : SInv .inTemplate s := by have := ht.s; rw [hm] at this; exact this
  refine sat_pure (StepPost.reprocess ⟨ht.h.open_el, ht.h.open_tc, ht.h.af, ht.h.head, ht.h.form, ht.h.ctx⟩ ?_
    (plainMode_ne_text hp))
  have hs' : SInv .inTemplate { s with templateModes := s.templateModes.dropLast ++ [m] } := by
    refine ⟨hs.root, hs.stack, hs.head, hs.headIn, hs.text, hs.tableText, hs.pending, ?_, ?_⟩
    · show tcount s.dom s.openElems + ctxTmpl s ≤ (s.templateModes.dropLast ++ [m]).length
      have := hs.tmpl
      simp only [List.length_append, List.length_dropLast, List.length_singleton]
      omega
    · show ∀ x ∈ s.templateModes.dropLast ++ [m], tmplModeOk x = true
      intro x hx
      rcases List.mem_append.mp hx with hx | hx
      · exact hs.tmodes x (List.dropLast_subset _ hx)
      · rw [List.mem_singleton.mp hx]; exact hok
  exact hs'.plain (by decide) (hs.root rfl) hp

theorem stepInTemplate_spec (hh : HeadSpec) (hb : BodySpec) (hte : TemplateEofSpec) : ∀ (tok : Token) (s : State),
    TI s → s.mode = .inTemplate → Sat (stepInTemplate tok) s (StepPost tok) := by
  intro tok s ht hm
  have hok : origOk s.mode = true := by rw [hm]; rfl
  have hbody : ∀ tok, Sat (stepInBody tok) s (StepPost tok) := fun tok =>
    body_deleg hb ht (by rw [hm]; rfl) (by rw [hm]; decide) (by rw [hm]; decide) (by rw [hm]; decide)
  unfold stepInTemplate
  cases tok with
  | chars st text => exact hbody _
  | comment text => exact hbody _
  | nullChar => exact sat_unexpected_post ht
  | eof => exact hte s ht hok
  | tag t =>
    dsimp only
    by_cases h1 : (t.isStart
        ["base", "basefont", "bgsound", "link", "meta", "noframes", "script", "style", "template", "title"] ||
        t.isEnd ["template"]) = true
    · rw [if_pos h1]; exact hh _ s ht hok (Or.inr h1)
    rw [if_neg h1]
    by_cases h2 : t.isStart ["caption", "colgroup", "tbody", "tfoot", "thead"] = true
    · rw [if_pos h2]; exact sat_setTemplateMode_reprocess ht hm rfl rfl
    rw [if_neg h2]
    by_cases h3 : t.isStart ["col"] = true
    · rw [if_pos h3]; exact sat_setTemplateMode_reprocess ht hm rfl rfl
    rw [if_neg h3]
    by_cases h4 : t.isStart ["tr"] = true
    · rw [if_pos h4]; exact sat_setTemplateMode_reprocess ht hm rfl rfl
    rw [if_neg h4]
    by_cases h5 : t.isStart ["td", "th"] = true
    · rw [if_pos h5]; exact sat_setTemplateMode_reprocess ht hm rfl rfl
    rw [if_neg h5]
    by_cases h6 : (t.kind == Model.HtmlTok.TagKind.startTag) = true
    · rw [if_pos h6]; exact sat_setTemplateMode_reprocess ht hm rfl rfl
    rw [if_neg h6]; exact sat_unexpected_post ht

/-! ### AfterBody -/

theorem sat_commentToHtml_post {tok : Token} {text : Str} {s : State} (ht : TI s) (hpre : preRoot s.mode = false) :
    Sat (appendCommentToHtml text) s (StepPost tok) := by
  obtain ⟨r, rest, hl, -⟩ := ht.rooted hpre
  exact (sat_appendCommentToHtml hl).mono (by rintro r s' ⟨rfl, hq⟩; exact StepPost.of_qf ht hq rfl trivial)

theorem sat_commentToDoc_post {tok : Token} {text : Str} {s : State} (ht : TI s) :
    Sat (appendCommentToDoc text) s (StepPost tok) :=
  sat_appendCommentToDoc.mono (by rintro r s' ⟨rfl, hq⟩; exact StepPost.of_qf ht hq rfl trivial)

theorem stepAfterBody_spec (hb : BodySpec) : ∀ (tok : Token) (s : State), TI s → s.mode = .afterBody →
    Sat (stepAfterBody tok) s (StepPost tok) := by
  intro tok s ht hm
  have hpre : preRoot s.mode = false := by rw [hm]; rfl
  have hntt : s.mode ≠ .inTableText := by rw [hm]; decide
  have helse : ∀ tok, Sat (do let _ ← unexpected; pure (ProcessResult.reprocess Mode.inBody tok)) s (StepPost tok) :=
    fun tok => sat_unexpected_reprocess ht hpre hntt rfl
  unfold stepAfterBody
  cases tok with
  | chars st text =>
    cases st with
    | notSplit => exact sat_pure (StepPost.of_same ht (Same.refl s) rfl trivial)
    | whitespace => exact body_deleg hb ht (by rw [hm]; rfl) (by rw [hm]; decide) hntt (by rw [hm]; decide)
    | notWhitespace => exact helse _
  | comment text => exact sat_commentToHtml_post ht hpre
  | nullChar => exact helse _
  | eof => exact sat_pure (StepPost.of_same ht (Same.refl s) rfl trivial)
  | tag t =>
    dsimp only
    by_cases h1 : t.isStart ["html"] = true
    · rw [if_pos h1]; exact sat_stepInBody_html ht hpre h1
    rw [if_neg h1]
    by_cases h2 : t.isEnd ["html"] = true
    · rw [if_pos h2]
      refine sat_isFragment.bind ?_
      rintro b s1 ⟨-, rfl⟩
      split
      · refine sat_unexpected.bind ?_
        rintro _ s2 ⟨-, hq⟩
        exact sat_pure (StepPost.of_qf ht hq rfl trivial)
      · refine sat_setMode.bind ?_
        rintro _ s2 rfl
        exact sat_pure (StepPost.of_ti (ht.setPlain hpre hntt (m := .afterAfterBody) rfl) rfl trivial)
    rw [if_neg h2]; exact helse _

/-! ### InFrameset -/

theorem stepInFrameset_spec (hh : HeadSpec) : ∀ (tok : Token) (s : State), TI s → s.mode = .inFrameset →
    Sat (stepInFrameset tok) s (StepPost tok) := by
  intro tok s ht hm
  have hpre : preRoot s.mode = false := by rw [hm]; rfl
  have hntt : s.mode ≠ .inTableText := by rw [hm]; decide
  have hbl : bodyLike s.mode = true := by rw [hm]; rfl
  have hok : origOk s.mode = true := by rw [hm]; rfl
  unfold stepInFrameset
  cases tok with
  | chars st text =>
    cases st with
    | notSplit => exact sat_pure (StepPost.of_same ht (Same.refl s) rfl trivial)
    | whitespace =>
      exact (sat_appendText (ht.place hpre)).mono
        (by rintro r s' ⟨rfl, hq⟩; exact StepPost.of_qf ht hq rfl trivial)
    | notWhitespace => exact sat_unexpected_post ht
  | comment text =>
    exact (sat_appendComment (ht.place hpre)).mono
      (by rintro r s' ⟨rfl, hq⟩; exact StepPost.of_qf ht hq rfl trivial)
  | nullChar => exact sat_unexpected_post ht
  | eof =>
    dsimp only
    refine sat_getS_bind ?_
    split
    · refine sat_unexpected.bind ?_
      rintro _ s2 ⟨-, hq⟩
      exact sat_pure (StepPost.of_qf ht hq rfl trivial)
    · exact sat_pure (StepPost.of_same ht (Same.refl s) rfl trivial)
  | tag t =>
    dsimp only
    by_cases h1 : t.isStart ["html"] = true
    · rw [if_pos h1]; exact sat_stepInBody_html ht hpre h1
    rw [if_neg h1]
    by_cases h2 : t.isStart ["frameset"] = true
    · rw [if_pos h2]
      refine (sat_insertElementFor (ht.place hpre)).bind ?_
      intro h s1 hins
      have ht1 := ht.of_inserted hpre hbl hins (by rw [start_name h2]; exact ⟨by decide, by decide⟩)
      exact sat_pure (StepPost.of_ti ht1 rfl trivial)
    rw [if_neg h2]
    by_cases h3 : t.isEnd ["frameset"] = true
    · rw [if_pos h3]
      refine sat_getS_bind ?_
      split
      · refine sat_unexpected.bind ?_
        rintro _ s2 ⟨-, hq⟩
        exact sat_pure (StepPost.of_qf ht hq rfl trivial)
      · rename_i hlen
        have hr := ht.rooted hpre
        have hne : s.openElems ≠ [] := by obtain ⟨r, rest, hl, -⟩ := hr; rw [hl]; simp
        obtain ⟨top, htop⟩ := getLast?_of_ne_nil hne
        have hlen2 : 2 ≤ s.openElems.length := by
          have h0 : 0 < s.openElems.length := List.length_pos_iff.mpr hne
          have h1 : s.openElems.length ≠ 1 := by simpa using hlen
          omega
        have hne' : s.openElems.dropLast ≠ [] := by
          intro e
          have := congrArg List.length e
          rw [List.length_dropLast] at this
          simp at this; omega
        refine (sat_pop htop).bind ?_
        rintro _ s1 ⟨-, st⟩
        have b : BStep s s1 := BStep.of_st ht.h hr (dropLast_append_getLast htop) hne' st
        have hk : Keeps (modeNeed s.mode) s s1 := by rw [hm]; intro x hx hp; cases hp
        have ht1 : TI s1 := ⟨b.hinv, by rw [b.mode]; exact ht.s.of_bstep ht.h b hbl hk⟩
        have hm1 : s1.mode = .inFrameset := by rw [b.mode]; exact hm
        have htail : ∀ (toAfter : Bool) (s2 : State), TI s2 → s2.mode = .inFrameset →
            Sat (if toAfter = true then do
                  setMode Mode.afterFrameset
                  pure ProcessResult.done
                else pure ProcessResult.done) s2 (StepPost (Token.tag t)) := by
          intro toAfter s2 ht2 hm2
          split
          · refine sat_setMode.bind ?_
            rintro _ s3 rfl
            exact sat_pure (StepPost.of_ti
              (ht2.setPlain (by rw [hm2]; rfl) (by rw [hm2]; decide) (m := .afterFrameset) rfl) rfl trivial)
          · exact sat_pure (StepPost.of_ti ht2 rfl trivial)
        refine sat_isFragment.bind ?_
        rintro fb s1' ⟨-, rfl⟩
        split
        · refine Sat.bind (Q := fun _ s2 => s2 = s1') (sat_pure rfl) ?_
          rintro toAfter s2 rfl
          exact htail toAfter s2 ht1 hm1
        · have hne1 : s1'.openElems ≠ [] := by rw [st.openElems]; exact hne'
          obtain ⟨top1, htop1⟩ := getLast?_of_ne_nil hne1
          refine (sat_currentNodeNamed htop1 (ht1.h.open_el top1 (getLast?_mem htop1))).bind ?_
          rintro nb s2 ⟨-, hq2⟩
          refine Sat.bind (Q := fun _ s3 => s3 = s2) (sat_pure rfl) ?_
          rintro toAfter s3 rfl
          exact htail toAfter s3 (ht1.of_qf hq2) (by rw [hq2.mode]; exact hm1)
    rw [if_neg h3]
    by_cases h4 : t.isStart ["frame"] = true
    · rw [if_pos h4]
      refine (sat_insertAndPopElementFor (ht.place hpre)).bind ?_
      intro h s1 hins
      have ht1 := ht.of_inserted hpre hbl hins (by rw [start_name h4]; exact ⟨by decide, by decide⟩)
      exact sat_pure (StepPost.of_ti ht1 rfl trivial)
    rw [if_neg h4]
    by_cases h5 : t.isStart ["noframes"] = true
    · rw [if_pos h5]
      refine hh _ s ht hok (Or.inr ?_)
      simp only [headDeleg, Bool.or_eq_true]
      exact Or.inl (isStart_sub (by simp) h5)
    rw [if_neg h5]; exact sat_unexpected_post ht

/-! ### AfterFrameset -/

theorem stepAfterFrameset_spec (hh : HeadSpec) : ∀ (tok : Token) (s : State), TI s → s.mode = .afterFrameset →
    Sat (stepAfterFrameset tok) s (StepPost tok) := by
  intro tok s ht hm
  have hpre : preRoot s.mode = false := by rw [hm]; rfl
  have hntt : s.mode ≠ .inTableText := by rw [hm]; decide
  have hok : origOk s.mode = true := by rw [hm]; rfl
  unfold stepAfterFrameset
  cases tok with
  | chars st text =>
    cases st with
    | notSplit => exact sat_pure (StepPost.of_same ht (Same.refl s) rfl trivial)
    | whitespace =>
      exact (sat_appendText (ht.place hpre)).mono
        (by rintro r s' ⟨rfl, hq⟩; exact StepPost.of_qf ht hq rfl trivial)
    | notWhitespace => exact sat_unexpected_post ht
  | comment text =>
    exact (sat_appendComment (ht.place hpre)).mono
      (by rintro r s' ⟨rfl, hq⟩; exact StepPost.of_qf ht hq rfl trivial)
  | nullChar => exact sat_unexpected_post ht
  | eof => exact sat_pure (StepPost.of_same ht (Same.refl s) rfl trivial)
  | tag t =>
    dsimp only
    by_cases h1 : t.isStart ["html"] = true
    · rw [if_pos h1]; exact sat_stepInBody_html ht hpre h1
    rw [if_neg h1]
    by_cases h2 : t.isEnd ["html"] = true
    · rw [if_pos h2]
      refine sat_setMode.bind ?_
      rintro _ s2 rfl
      exact sat_pure (StepPost.of_ti (ht.setPlain hpre hntt (m := .afterAfterFrameset) rfl) rfl trivial)
    rw [if_neg h2]
    by_cases h3 : t.isStart ["noframes"] = true
    · rw [if_pos h3]
      refine hh _ s ht hok (Or.inr ?_)
      simp only [headDeleg, Bool.or_eq_true]
      exact Or.inl (isStart_sub (by simp) h3)
    rw [if_neg h3]; exact sat_unexpected_post ht

/-! ### AfterAfterBody -/

theorem stepAfterAfterBody_spec (hb : BodySpec) : ∀ (tok : Token) (s : State), TI s → s.mode = .afterAfterBody →
    Sat (stepAfterAfterBody tok) s (StepPost tok) := by
  intro tok s ht hm
  have hpre : preRoot s.mode = false := by rw [hm]; rfl
  have hntt : s.mode ≠ .inTableText := by rw [hm]; decide
  have helse : ∀ tok, Sat (do let _ ← unexpected; pure (ProcessResult.reprocess Mode.inBody tok)) s (StepPost tok) :=
    fun tok => sat_unexpected_reprocess ht hpre hntt rfl
  unfold stepAfterAfterBody
  cases tok with
  | chars st text =>
    cases st with
    | notSplit => exact sat_pure (StepPost.of_same ht (Same.refl s) rfl trivial)
    | whitespace => exact body_deleg hb ht (by rw [hm]; rfl) (by rw [hm]; decide) hntt (by rw [hm]; decide)
    | notWhitespace => exact helse _
  | comment text => exact sat_commentToDoc_post ht
  | nullChar => exact helse _
  | eof => exact sat_pure (StepPost.of_same ht (Same.refl s) rfl trivial)
  | tag t =>
    dsimp only
    by_cases h1 : t.isStart ["html"] = true
    · rw [if_pos h1]; exact sat_stepInBody_html ht hpre h1
    rw [if_neg h1]; exact helse _

/-! ### AfterAfterFrameset -/

theorem stepAfterAfterFrameset_spec (hh : HeadSpec) (hb : BodySpec) : ∀ (tok : Token) (s : State), TI s →
    s.mode = .afterAfterFrameset → Sat (stepAfterAfterFrameset tok) s (StepPost tok) := by
  intro tok s ht hm
  have hpre : preRoot s.mode = false := by rw [hm]; rfl
  have hntt : s.mode ≠ .inTableText := by rw [hm]; decide
  have hok : origOk s.mode = true := by rw [hm]; rfl
  unfold stepAfterAfterFrameset
  cases tok with
  | chars st text =>
    cases st with
    | notSplit => exact sat_pure (StepPost.of_same ht (Same.refl s) rfl trivial)
    | whitespace => exact body_deleg hb ht (by rw [hm]; rfl) (by rw [hm]; decide) hntt (by rw [hm]; decide)
    | notWhitespace => exact sat_unexpected_post ht
  | comment text => exact sat_commentToDoc_post ht
  | nullChar => exact sat_unexpected_post ht
  | eof => exact sat_pure (StepPost.of_same ht (Same.refl s) rfl trivial)
  | tag t =>
    dsimp only
    by_cases h1 : t.isStart ["html"] = true
    · rw [if_pos h1]; exact sat_stepInBody_html ht hpre h1
    rw [if_neg h1]
    by_cases h2 : t.isStart ["noframes"] = true
    · rw [if_pos h2]
      refine hh _ s ht hok (Or.inr ?_)
      simp only [headDeleg, Bool.or_eq_true]
      exact Or.inl (isStart_sub (by simp) h2)
    rw [if_neg h2]; exact sat_unexpected_post ht

end H5V.Lemmas.TBSafe
