import H5V.Lemmas.HtmlTBFuelBase
/-!
# The fuel of `process_to_completion`, part 2: the loop

Relative to `AllDec` — every rule decreases the measure along `Reprocess` (`HtmlTBFuelRules*`) — the loop
`process_to_completion fuel tok more` never runs out of fuel when `mu s tok more ≤ fuel`, and
`ptcFuel s tok` is at least `mu s tok []`.
-/
namespace H5V.Lemmas.TBFuel
open H5V.Model.HtmlTB
open H5V.Model.HtmlTok (TagKind)
open H5V.Model.Dom (Id QualName Attr NodeOrText SinkOp Output ElementFlags QuirksMode Dom NodeData Node)
open H5V.Lemmas.TBSafe
open H5V.Lemmas.TBC (ok_bind ok_pure ok_getS_bind ok_modS_bind ok_ite ok_bind_pure res_unexpected res_appendText
  res_appendComment)

variable {al : Allow}

/-- an allowance, to read the first-pass `Sat` lemmas on successful runs -/
@[reducible] def anyAl : Allow := ⟨True, True⟩

/-- **every rule decreases the measure**: the answer of `step(mode, token)` from a state satisfying the
invariant -/
def AllDec : Prop := ∀ (tok : Token) (s : State), TI s → ∀ r s', step s.mode tok s = .ok (r, s') →
  Dec s s.mode tok r s'

theorem dec_of_noRep {s s' : State} {m : Mode} {tok : Token} {r : ProcessResult} (h : H5V.Lemmas.TBC.NoRep r)
    (hs : ∀ b, r ≠ .splitWhitespace b) : Dec s m tok r s' := by
  cases r with
  | reprocess m' t => exact h.elim
  | reprocessForeign t => exact h.elim
  | splitWhitespace b => exact absurd rfl (hs b)
  | _ => trivial

theorem dec_done {s s' : State} {m : Mode} {tok : Token} : Dec s m tok .done s' := trivial

/-! ### foreign content -/

theorem dec_unexpectedStartTagInForeignContent (hd : AllDec) {tag : Tag} {s : State} (ht : TI s)
    (hbl : bodyLike s.mode = true) {r : ProcessResult} {s' : State}
    (h : unexpectedStartTagInForeignContent tag s = .ok (r, s')) : Dec s s.mode (.tag tag) r s' := by
  have hpre : preRoot s.mode = false := by
    cases hm : s.mode <;> simp [bodyLike, hm, preRoot] at hbl ⊢
  unfold unexpectedStartTagInForeignContent at h
  obtain ⟨_, s1, h1, h2⟩ := ok_bind h
  have hq1 : QF s s1 := (sat_ok (al := anyAl) sat_unexpected h1).2
  have ht1 : TI s1 := ht.of_qf hq1
  have hpre1 : preRoot s1.mode = false := by rw [hq1.mode]; exact hpre
  have hr1 := ht1.rooted hpre1
  have h3 := ok_getS_bind h2
  obtain ⟨_, s2, h4, h5⟩ := ok_bind h3
  obtain ⟨r0, rest, hl, hn⟩ := hr1
  obtain ⟨pre, post, x, heq, hx, hpx, hpost⟩ :=
    split_last_sat (p := fun h => (nm s1.dom h).ns == nsHtml) (l := s1.openElems)
      ⟨r0, by rw [hl]; exact List.mem_cons_self, by rw [hn]; rfl⟩
  obtain ⟨post1, post2, hp, st⟩ := sat_ok (al := anyAl)
    (sat_popToIntegrationPointLoop _ s1 pre post x ht1.h.open_el heq hx (by simpa using hpx)
      (by rw [heq]; simp; omega)) h4
  have hne : pre ++ post1 ≠ [] := by
    intro e
    have : pre = [] := (List.append_eq_nil_iff.mp e).1
    rw [this] at hx; cases hx
  have heq2 : s1.openElems = (pre ++ post1) ++ post2 := by rw [heq, hp]; simp
  have hb : BStep s1 s2 := BStep.of_st ht1.h ⟨r0, rest, hl, hn⟩ heq2 hne st
  have hk : Keeps (fun n => n.ns == nsHtml) s1 s2 :=
    keeps_html_of_pops heq2 st.openElems (fun y hy => by
      have := hpost y (by rw [hp]; exact List.mem_append_right _ hy)
      simpa using this)
  have ht2 : TI s2 := ⟨hb.hinv, by
    rw [hb.mode]
    exact ht1.s.of_bstep ht1.h hb (by rw [hq1.mode]; exact hbl) (Keeps.of_html hk)⟩
  have h6 := ok_getS_bind h5
  have hm2 : s2.mode = s.mode := by rw [hb.mode, hq1.mode]
  have hdec := hd (.tag tag) s2 ht2 r s' h6
  rw [hm2] at hdec
  refine hdec.mono ?_
  refine (WLe.of_qf ht.h.open_el hq1).trans (WLe.of_st_sublist ht1.h.open_el st ?_)
  rw [heq2]; exact List.sublist_append_left _ _

theorem dec_foreignEndTagLoop (hd : AllDec) {tag : Tag} : ∀ (n : Nat) (first : Bool) (s : State), TI s →
    n < s.openElems.length → ∀ r s', foreignEndTagLoop tag n first s = .ok (r, s') →
    Dec s s.mode (.tag tag) r s' := by
  intro n
  induction n with
  | zero =>
    intro first s ht hlt r s' h
    unfold foreignEndTagLoop at h
    have h1 := ok_getS_bind h
    have hget : s.openElems[0]? = some s.openElems[0] := List.getElem?_eq_getElem hlt
    rw [hget] at h1
    dsimp only at h1
    simp only [pure_bind] at h1
    have hmem : s.openElems[0] ∈ s.openElems := List.getElem_mem hlt
    obtain ⟨nn, s1, h2, h3⟩ := ok_bind h1
    obtain ⟨rfl, hq1⟩ := sat_ok (al := anyAl) (sat_elemName (ht.h.open_el _ hmem)) h2
    by_cases c1 : (!first && (nm s.dom s.openElems[0]).ns == nsHtml) = true
    · rw [if_pos c1] at h3
      have h4 := ok_getS_bind h3
      have hdec := hd (.tag tag) s1 (ht.of_qf hq1) r s' h4
      rw [hq1.mode] at hdec
      exact hdec.mono (WLe.of_qf ht.h.open_el hq1)
    · rw [if_neg c1] at h3
      rw [(ok_pure h3).1.symm]; trivial
  | succ n ih =>
    intro first s ht hlt r s' h
    unfold foreignEndTagLoop at h
    have h1 := ok_getS_bind h
    have hget : s.openElems[n + 1]? = some s.openElems[n + 1] := List.getElem?_eq_getElem hlt
    rw [hget] at h1
    dsimp only at h1
    simp only [pure_bind] at h1
    have hmem : s.openElems[n + 1] ∈ s.openElems := List.getElem_mem hlt
    have hel := ht.h.open_el _ hmem
    obtain ⟨nn, s1, h2, h3⟩ := ok_bind h1
    obtain ⟨rfl, hq1⟩ := sat_ok (al := anyAl) (sat_elemName hel) h2
    have ht1 : TI s1 := ht.of_qf hq1
    have hw1 : WLe s s1 := WLe.of_qf ht.h.open_el hq1
    by_cases c1 : (!first && (nm s.dom s.openElems[n + 1]).ns == nsHtml) = true
    · rw [if_pos c1] at h3
      have h4 := ok_getS_bind h3
      have hdec := hd (.tag tag) s1 ht1 r s' h4
      rw [hq1.mode] at hdec
      exact hdec.mono hw1
    rw [if_neg c1] at h3
    by_cases c2 : eqIgnoreAsciiCase (nm s.dom s.openElems[n + 1]).loc tag.name = true
    · rw [if_pos c2] at h3
      have h4 := ok_modS_bind h3
      rw [(ok_pure h4).1.symm]; trivial
    rw [if_neg c2] at h3
    have hcont : ∀ s2, QF s1 s2 → foreignEndTagLoop tag n false s2 = .ok (r, s') →
        Dec s s.mode (.tag tag) r s' := by
      intro s2 hq2 h5
      have hq := hq1.trans hq2
      have hdec := ih false s2 (ht.of_qf hq) (by rw [hq.openElems]; omega) r s' h5
      rw [hq.mode] at hdec
      exact hdec.mono (WLe.of_qf ht.h.open_el hq)
    by_cases c3 : first = true
    · rw [if_pos c3] at h3
      obtain ⟨_, s2, h5, h6⟩ := ok_bind h3
      exact hcont s2 (sat_ok (al := anyAl) sat_unexpected h5).2 h6
    · rw [if_neg c3] at h3
      exact hcont s1 (QF.refl _) h3

theorem res_foreignStartTag' {tag : Tag} {s s' : State} {r : ProcessResult}
    (h : foreignStartTag tag s = .ok (r, s')) : r = .done ∨ r = .doneAckSelfClosing := by
  unfold foreignStartTag at h
  obtain ⟨_, s1, _, h2⟩ := ok_bind h
  obtain ⟨_, s2, _, h3⟩ := ok_bind h2
  dsimp only at h3
  refine ok_ite (P := fun r => r = .done ∨ r = .doneAckSelfClosing) h3 ?_ ?_
  · intro s3 s4 r1 h4; exact Or.inr (ok_bind_pure h4)
  · intro s3 s4 r1 h4; exact Or.inl (ok_bind_pure h4)

theorem dec_stepForeign (hd : AllDec) {tok : Token} {s : State} (ht : TI s) (hf : ForeignTop s)
    {r : ProcessResult} {s' : State} (h : stepForeign tok s = .ok (r, s')) : Dec s s.mode tok r s' := by
  have hbl := bodyLike_of_foreign ht hf
  have hpre : preRoot s.mode = false := by
    cases hm : s.mode <;> simp [bodyLike, hm, preRoot] at hbl ⊢
  unfold stepForeign at h
  cases tok with
  | eof => exact absurd h (by intro e; cases e)
  | nullChar =>
    dsimp only at h
    obtain ⟨_, s1, _, h2⟩ := ok_bind h
    rw [res_appendText h2]; trivial
  | chars st text =>
    dsimp only at h
    by_cases c0 : anyNotWhitespace text = true
    · rw [if_pos c0] at h
      obtain ⟨_, s1, _, h2⟩ := ok_bind h
      rw [res_appendText h2]; trivial
    · rw [if_neg c0] at h
      rw [res_appendText h]; trivial
  | comment text =>
    dsimp only at h
    rw [res_appendComment h]; trivial
  | tag tag =>
    dsimp only at h
    by_cases c1 : (tag.isStart foreignBreakoutStart || tag.isEnd ["br", "p"]) = true
    · rw [if_pos c1] at h; exact dec_unexpectedStartTagInForeignContent hd ht hbl h
    rw [if_neg c1] at h
    by_cases c2 : tag.isStart ["font"] = true
    · rw [if_pos c2] at h
      by_cases c3 : (tag.attrs.any fun a => a.name.ns == [] && isOneOf a.name.loc ["color", "face", "size"]) = true
      · rw [if_pos c3] at h; exact dec_unexpectedStartTagInForeignContent hd ht hbl h
      · rw [if_neg c3] at h
        rcases res_foreignStartTag' h with e | e <;> (rw [e]; trivial)
    rw [if_neg c2] at h
    by_cases c3 : (tag.kind == .startTag) = true
    · rw [if_pos c3] at h
      rcases res_foreignStartTag' h with e | e <;> (rw [e]; trivial)
    rw [if_neg c3] at h
    have h1 := ok_getS_bind h
    have hr := ht.rooted hpre
    have hlen : 0 < s.openElems.length := by
      obtain ⟨r0, rest, hl, _⟩ := hr; rw [hl]; simp
    by_cases c4 : (s.openElems.length == 0) = true
    · have := beq_iff_eq.mp c4; omega
    rw [if_neg c4] at h1
    exact dec_foreignEndTagLoop hd _ true s ht (by omega) r s' h1

/-! ### the loop -/

/-- the length of the character tokens still queued -/
def moreLen (more : List Token) : Nat := (more.map tokenCharLen).sum

/-- the number of iterations `process_to_completion` may still need -/
def mu (s : State) (tok : Token) (more : List Token) : Nat :=
  if isCharsTok tok = true then 16 * moreLen more + 16 * (tokenCharLen tok - 1) + ms s s.mode tok + 1
  else ms s s.mode tok + 1

/-- the queue: empty unless a run of characters is being split; all character tokens are non-empty -/
structure MoreOk2 (tok : Token) (more : List Token) : Prop where
  nonchars : isCharsTok tok = false → more = []
  pos : isCharsTok tok = true → 1 ≤ tokenCharLen tok
  more : ∀ t ∈ more, isCharsTok t = true ∧ 1 ≤ tokenCharLen t

theorem MoreOk2.toMoreOk {tok : Token} {more : List Token} (h : MoreOk2 tok more) : MoreOk tok more := by
  by_cases hc : isCharsTok tok = true
  · exact Or.inr ⟨hc, fun t ht => (h.more t ht).1⟩
  · exact Or.inl (h.nonchars (by cases hb : isCharsTok tok <;> simp [hb] at hc ⊢))

theorem ms_of_same_shape {s s' : State} {m : Mode} {tok : Token} (hd : s'.dom = s.dom)
    (ho : s'.openElems = s.openElems) (htm : s'.templateModes = s.templateModes) : ms s' m tok = ms s m tok := by
  unfold ms wW tmW
  rw [hd, ho, htm]

theorem ms_qf {s s' : State} (hel : AllEl s.dom s.openElems) (h : QF s s') (m : Mode) (tok : Token) :
    ms s' m tok = ms s m tok := by
  unfold ms wW tmW
  rw [h.openElems, h.templateModes, tabCount_ext h.ext hel]

theorem popFrontCharRun_spec {buf first rest : Str} {ws : Bool} (h : popFrontCharRun buf = some (first, ws, rest)) :
    1 ≤ first.length ∧ first.length + rest.length = buf.length := by
  unfold popFrontCharRun at h
  cases buf with
  | nil => cases h
  | cons c t =>
    dsimp only at h
    cases h
    constructor
    · rw [List.takeWhile_cons_of_pos (by simp)]
      simp
    · rw [← List.length_append, List.takeWhile_append_dropWhile]

theorem moreLen_cons (t : Token) (l : List Token) : moreLen (t :: l) = tokenCharLen t + moreLen l := by
  unfold moreLen; simp

theorem moreLen_append (a b : List Token) : moreLen (a ++ b) = moreLen a + moreLen b := by
  unfold moreLen; simp

theorem ms_chars_bound (s : State) (m : Mode) {t : Token} (h : isCharsTok t = true) : ms s m t ≤ 13 := by
  cases t with
  | chars st x => exact ms_chars_le s m st x
  | _ => simp [isCharsTok] at h

/-- the continuation of `process_to_completion` after a rule has answered -/
theorem sat_ptcCont2 {fuel : Nat} {tok : Token} {more : List Token}
    (ih : ∀ tok more s, TI s → MoreOk2 tok more → Prot s tok → mu s tok more ≤ fuel →
      Sat (processToCompletion fuel tok more) s (fun _ s' => TI s'))
    {result : ProcessResult} {s s1 : State} (hp : StepPost tok result s1) (hdec : Dec s s.mode tok result s1)
    (hmo : MoreOk2 tok more) (hmu : mu s tok more ≤ fuel + 1) :
    Sat (ptcCont fuel tok more result) s1 (fun _ s' => TI s') := by
  have hnext : ∀ s2, TI s2 → Sat (ptcNext fuel more) s2 (fun _ s' => TI s') := by
    intro s2 ht2
    unfold ptcNext
    cases hmore : more with
    | nil => exact sat_pure ht2
    | cons t rest =>
      dsimp only
      have hct : isCharsTok tok = true := by
        cases hb : isCharsTok tok with
        | true => rfl
        | false => have := hmo.nonchars hb; rw [hmore] at this; cases this
      have ht := hmo.more t (by rw [hmore]; exact List.mem_cons_self)
      refine ih t rest s2 ht2 ⟨(fun hb => by rw [ht.1] at hb; cases hb), (fun _ => ht.2),
        (fun x hx => hmo.more x (by rw [hmore]; exact List.mem_cons_of_mem _ hx))⟩
        (fun _ => Or.inr (textTok_of_chars ht.1)) ?_
      -- the measure
      have hpos := hmo.pos hct
      unfold mu at hmu ⊢
      rw [if_pos hct, hmore, moreLen_cons] at hmu
      rw [if_pos ht.1]
      have := ms_chars_bound s2 s2.mode ht.1
      omega
  unfold ptcCont
  dsimp only
  cases result with
  | done =>
    dsimp only
    have ht1 : TI s1 := ⟨hp.h, hp.s⟩
    have hack : ∀ (c : Bool), Sat (if c = true then do
          parseError "Unacknowledged self-closing tag"
          ptcNext fuel more
        else ptcNext fuel more) s1 (fun _ s' => TI s') := by
      intro c
      split
      · exact sat_parseError.bind (fun _ s2 hq => hnext s2 (ht1.of_qf hq))
      · exact hnext s1 ht1
    exact hack _
  | doneAckSelfClosing => exact hnext s1 ⟨hp.h, hp.s⟩
  | reprocess m t =>
    dsimp only
    refine sat_setMode.bind ?_
    rintro _ s2 rfl
    have : t = tok := hp.r.1
    subst this
    refine ih t more _ ⟨hp.h.withMode m, hp.s.withMode m⟩ hmo (fun h => absurd h hp.r.2) ?_
    have hd : ms s1 m t < ms s s.mode t := hdec
    have he : ms ({ s1 with mode := m } : State) m t = ms s1 m t := ms_of_same_shape rfl rfl rfl
    unfold mu at hmu ⊢
    show (if isCharsTok t = true then _ + ms ({ s1 with mode := m } : State) m t + 1
      else ms ({ s1 with mode := m } : State) m t + 1) ≤ fuel
    rw [he]
    by_cases hc : isCharsTok t = true
    · rw [if_pos hc] at hmu ⊢; omega
    · rw [if_neg hc] at hmu ⊢; omega
  | reprocessForeign t =>
    exact absurd hp.r id
  | splitWhitespace buf =>
    dsimp only
    obtain ⟨htok, hmode⟩ : tok = .chars .notSplit buf ∧ s1.mode = s.mode := hdec
    subst htok
    cases hpf : popFrontCharRun buf with
    | none => exact sat_pure ⟨hp.h, hp.s⟩
    | some x =>
      obtain ⟨first, isWs, rest⟩ := x
      dsimp only
      obtain ⟨hf1, hflen⟩ := popFrontCharRun_spec hpf
      have hmore' : ∀ t ∈ (if rest.length > 0 then more ++ [Token.chars .notSplit rest] else more),
          isCharsTok t = true ∧ 1 ≤ tokenCharLen t := by
        intro t ht
        by_cases hl : rest.length > 0
        · rw [if_pos hl] at ht
          rcases List.mem_append.mp ht with h | h
          · exact hmo.more t h
          · rw [List.mem_singleton.mp h]; exact ⟨rfl, hl⟩
        · rw [if_neg hl] at ht; exact hmo.more t ht
      refine ih _ _ s1 ⟨hp.h, hp.s⟩ ⟨(fun hb => by cases hb), (fun _ => hf1), hmore'⟩ (fun _ => Or.inr rfl) ?_
      -- the measure: the split token is one unit cheaper
      have hlenmore : moreLen (if rest.length > 0 then more ++ [Token.chars .notSplit rest] else more) =
          moreLen more + rest.length := by
        by_cases hl : rest.length > 0
        · rw [if_pos hl, moreLen_append]; unfold moreLen; simp [tokenCharLen]
        · rw [if_neg hl]; omega
      unfold mu at hmu ⊢
      rw [if_pos (show isCharsTok (Token.chars SplitStatus.notSplit buf) = true from rfl)] at hmu
      rw [if_pos (show isCharsTok (Token.chars _ first) = true from rfl), hlenmore, hmode]
      have e1 : ms s s.mode (.chars .notSplit buf) = 2 * rank s.mode .chars + 1 := rfl
      have e2 : ms s1 s.mode (.chars (if isWs = true then SplitStatus.whitespace else .notWhitespace) first) =
          2 * rank s.mode .chars + 0 := by
        cases isWs <;> rfl
      rw [e1] at hmu
      rw [e2]
      show 16 * (moreLen more + rest.length) + 16 * (first.length - 1) + (2 * rank s.mode .chars + 0) + 1 ≤ fuel
      have : tokenCharLen (.chars .notSplit buf) = buf.length := rfl
      rw [this] at hmu
      omega
  | script node =>
    dsimp only
    have hm : more = [] := hmo.nonchars hp.r
    subst hm
    exact sat_pure ⟨hp.h, hp.s⟩
  | toPlaintext =>
    dsimp only
    have hm : more = [] := hmo.nonchars hp.r
    subst hm
    exact sat_pure ⟨hp.h, hp.s⟩
  | toRawData k =>
    dsimp only
    have hm : more = [] := hmo.nonchars hp.r
    subst hm
    exact sat_pure ⟨hp.h, hp.s⟩
  | encodingIndicator e => exact sat_pure ⟨hp.h, hp.s⟩

/-- a `Sat` fact and a fact about every successful run hold together -/
theorem sat_and_ok {α : Type} {m : M α} {s : State} {Q : α → State → Prop} {P : α → State → Prop}
    (h : Sat m s Q) (hp : ∀ a s', m s = .ok (a, s') → P a s') : Sat m s (fun a s' => Q a s' ∧ P a s') := by
  unfold Sat at h ⊢
  cases hm : m s with
  | error e => rw [hm] at h; exact h
  | ok r => obtain ⟨a, s'⟩ := r; rw [hm] at h; exact ⟨h, hp a s' hm⟩

/-- **`process_to_completion` with enough fuel never runs out of it** (no `al.fuel` allowance) -/
theorem sat_processToCompletion2 (hall : AllSpec (al := al)) (hd : AllDec) :
    ∀ (fuel : Nat) (tok : Token) (more : List Token) (s : State),
    TI s → MoreOk2 tok more → Prot s tok → mu s tok more ≤ fuel →
    Sat (processToCompletion fuel tok more) s (fun _ s' => TI s') := by
  intro fuel
  induction fuel with
  | zero =>
    intro tok more s _ _ _ hmu
    unfold mu at hmu
    by_cases hc : isCharsTok tok = true
    · rw [if_pos hc] at hmu; omega
    · rw [if_neg hc] at hmu; omega
  | succ fuel ih =>
    intro tok more s ht hmo hprot hmu
    rw [processToCompletion_succ]
    dsimp only
    by_cases heof : tok = .eof
    · subst heof
      rw [isForeign_eof]
      refine Sat.bind (Q := fun b s1 => b = false ∧ s = s1) (sat_pure ⟨rfl, rfl⟩) ?_
      rintro b s1 ⟨rfl, rfl⟩
      simp only [Bool.false_eq_true, if_false]
      refine sat_getS_bind ?_
      refine Sat.bind (sat_and_ok (hall .eof s ht (fun _ => Or.inr rfl)) (hd .eof s ht)) ?_
      rintro result s1 ⟨hp, hdec⟩
      exact sat_ptcCont2 ih hp hdec hmo hmu
    · refine (sat_isForeign ht.h).bind ?_
      rintro b s1 ⟨hq, hb⟩
      have ht1 : TI s1 := ht.of_qf hq
      have hmu1 : mu s1 tok more ≤ fuel + 1 := by
        unfold mu at hmu ⊢
        rw [hq.mode, ms_qf ht.h.open_el hq]
        exact hmu
      split
      · rename_i hbt
        obtain ⟨c, hc, hns⟩ := hb hbt
        have hf1 : ForeignTop s1 := by
          refine ⟨c, ?_, ?_⟩
          · unfold adjNode at hc ⊢
            rw [hq.openElems, hq.contextElem]; exact hc
          · rw [nm_ext hq.ext (adjNode_el ht.h hc)]; exact hns
        refine Sat.bind (sat_and_ok (sat_stepForeign hall ht1 hf1 heof)
          (fun r s' h => dec_stepForeign hd ht1 hf1 h)) ?_
        rintro result s2 ⟨hp, hdec⟩
        exact sat_ptcCont2 ih hp hdec hmo hmu1
      · refine sat_getS_bind ?_
        refine Sat.bind (sat_and_ok (hall tok s1 ht1 (by rw [hq.mode]; exact hprot)) (hd tok s1 ht1)) ?_
        rintro result s2 ⟨hp, hdec⟩
        exact sat_ptcCont2 ih hp hdec hmo hmu1

/-- the fuel `process_token` provides is enough -/
theorem mu_le_ptcFuel (s : State) (t : Token) : mu s t [] ≤ ptcFuel s t := by
  unfold mu ptcFuel
  have h := ms_le s s.mode t
  by_cases hc : isCharsTok t = true
  · rw [if_pos hc]
    have := ms_chars_bound s s.mode hc
    show 16 * moreLen [] + _ + _ + 1 ≤ _
    have e : moreLen [] = 0 := rfl
    rw [e]
    omega
  · rw [if_neg hc]; omega

end H5V.Lemmas.TBFuel
