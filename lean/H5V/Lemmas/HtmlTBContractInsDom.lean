import H5V.Lemmas.HtmlTBContractPrim
/-!
# TreeSink contract for the HTML tree builder, part 4a: inserting a fresh node or text (DOM side)

`insert_at(point, child)` issues `append`, `append_before_sibling` or `append_based_on_parent_node`.
For a child that is text or a *fresh* node (insertable, parentless, childless) the call is inside the
contract as soon as the insertion point is valid (`IpValid`), and its effect on the parent pointers is
`InsEff`: nothing changes but the parent of the inserted node (or of one new text node).
-/
namespace H5V.Lemmas.TBC
open H5V.Model.HtmlTB
open H5V.Model.Dom (Id QualName Attr NodeOrText SinkOp Output ElementFlags QuirksMode Dom NodeData Node Contract)
open H5V.Lemmas.Dom
open H5V.Props.C20 (Inv Run)

/-- a node the builder has created and not inserted yet -/
structure FreshNode (d : Dom) (r : Id) : Prop where
  ins : d.isInsertable r = true
  par : d.parentOf r = none
  kids : d.childrenOf r = []

/-- the sink call `insert_at` makes -/
def ipOp : InsertionPoint → NodeOrText → SinkOp
  | .lastChild parent, child => .append parent child
  | .beforeSibling sibling, child => .appendBeforeSibling sibling child
  | .tableFosterParenting element prev, child => .appendBasedOnParentNode element prev child

theorem insertAt_eq (p : InsertionPoint) (child : NodeOrText) :
    H5V.Model.HtmlTB.insertAt p child = sinkUnit (ipOp p child) := by
  cases p <;> rfl

/-- a usable insertion point: the parent is a container; foster parenting names two elements -/
def IpValid (d : Dom) : InsertionPoint → Prop
  | .lastChild p => d.isContainer p = true
  | .beforeSibling _ => False
  | .tableFosterParenting e pe => d.isElement e = true ∧ d.isElement pe = true

/-- the handles an insertion point mentions -/
def ipIds : InsertionPoint → List Id
  | .lastChild p => [p]
  | .beforeSibling sb => [sb]
  | .tableFosterParenting e pe => [e, pe]

theorem isContainer_of_isElement {d : Dom} {x : Id} (h : d.isElement x = true) : d.isContainer x = true := by
  unfold Dom.isElement at h
  unfold Dom.isContainer
  cases hd : d.dataOf x with
  | none => rw [hd] at h; cases h
  | some v => rw [hd] at h; cases v <;> simp at h ⊢

theorem isInsertable_of_isElement {d : Dom} {x : Id} (h : d.isElement x = true) : d.isInsertable x = true := by
  unfold Dom.isElement at h
  unfold Dom.isInsertable
  cases hd : d.dataOf x with
  | none => rw [hd] at h; cases h
  | some v => rw [hd] at h; cases v <;> simp at h ⊢

/-- a fresh node is an ancestor-or-self of nothing but itself -/
theorem not_anc_of_fresh {d : Dom} (hw : WF d) {r p : Id} (hr : FreshNode d r) (hne : r ≠ p) (hp : p < d.size) :
    d.isAncOrSelf r p = false := by
  cases h : d.isAncOrSelf r p with
  | false => rfl
  | true =>
    have := anc_eq_of_no_children hw hr.kids ((isAncOrSelf_iff hw hp).mp h)
    exact absurd this hne

theorem childOk_fresh {d : Dom} (hw : WF d) {r p : Id} {mp : Bool} (hr : FreshNode d r) (hne : r ≠ p)
    (hp : p < d.size) : d.childOk p mp (.node r) = true := by
  simp only [Dom.childOk, Bool.and_eq_true, Bool.not_eq_true', Bool.or_eq_true]
  exact ⟨⟨hr.ins, Or.inr (by rw [hr.par]; rfl)⟩, not_anc_of_fresh hw hr hne hp⟩

/-- the child of an insertion by the helpers of this file: text, or a fresh node different from the
handles of the insertion point -/
inductive ChildFresh (d : Dom) (ip : InsertionPoint) : NodeOrText → Prop
  | text (t : Str) : ChildFresh d ip (.text t)
  | node (r : Id) : FreshNode d r → (∀ x ∈ ipIds ip, x ≠ r) → ChildFresh d ip (.node r)

/-- **inserting text or a fresh node at a valid insertion point is inside the contract** -/
theorem contract_ipOp {d : Dom} (hi : Inv d) {ip : InsertionPoint} {child : NodeOrText} (hv : IpValid d ip)
    (hc : ChildFresh d ip child) : Contract d (ipOp ip child) := by
  cases ip with
  | beforeSibling sb => exact absurd hv id
  | lastChild p =>
    show d.contractAppend p child = true
    simp only [Dom.contractAppend, Bool.and_eq_true]
    refine ⟨hv, ?_⟩
    cases hc with
    | text t => rfl
    | node r hr hne =>
      exact childOk_fresh hi.wf hr (fun e => hne p (by simp [ipIds]) e.symm) (lt_of_isContainer hv)
  | tableFosterParenting e pe =>
    obtain ⟨he, hpe⟩ := hv
    show (d.isElement e && d.isElement pe &&
      (if (d.parentOf e).isSome then d.contractAppendBeforeSibling e child else d.contractAppend pe child)) = true
    rw [he, hpe]
    simp only [Bool.true_and]
    cases hpar : d.parentOf e with
    | none =>
      simp only [Option.isSome_none, Bool.false_eq_true, if_false, Dom.contractAppend, Bool.and_eq_true]
      refine ⟨isContainer_of_isElement hpe, ?_⟩
      cases hc with
      | text t => rfl
      | node r hr hne =>
        exact childOk_fresh hi.wf hr (fun e' => hne pe (by simp [ipIds]) e'.symm) (lt_of_isElement hpe)
    | some P =>
      simp only [Option.isSome_some, if_true, Dom.contractAppendBeforeSibling, hpar, Bool.and_eq_true]
      have hPc : d.isContainer P = true := hi.kinds.parentContainer e P hpar
      refine ⟨isInsertable_of_isElement he, ⟨hPc, ?_⟩, ?_⟩
      · cases hc with
        | text t => rfl
        | node r hr hne =>
          refine childOk_fresh hi.wf hr ?_ (lt_of_isContainer hPc)
          rintro rfl
          -- `r` would have the child `e`
          have := (hi.wf.links e r).mp hpar
          rw [hr.kids] at this; cases this
      · cases hc with
        | text t => simp
        | node r hr hne =>
          have : r ≠ e := fun e' => hne e (by simp [ipIds]) e'.symm
          simp [this]

/-- the parent the inserted node gets -/
def ipParent (d : Dom) : InsertionPoint → Option Id
  | .lastChild p => some p
  | .beforeSibling sb => d.parentOf sb
  | .tableFosterParenting e pe => match d.parentOf e with | some P => some P | none => some pe

/-- what an insertion of a parentless node `r` does to the parent pointers -/
structure NodeEff (d d' : Dom) (r P : Id) : Prop where
  size : d'.size = d.size
  par : ∀ x, d'.parentOf x = if x = r then some P else d.parentOf x
  plt : P < d.size

/-- what an insertion of text does to the parent pointers: nothing, or one new node under `P` -/
def TextEff (d d' : Dom) (P : Id) : Prop :=
  (d'.size = d.size ∧ ∀ x, d'.parentOf x = d.parentOf x) ∨
  (d'.size = d.size + 1 ∧ P < d.size ∧ ∀ x, d'.parentOf x = if x = d.size then some P else d.parentOf x)

theorem apply_append_inv {d d' : Dom} {p : Id} {c : NodeOrText} {out : Output}
    (h : d.apply (.append p c) = .ok (d', out)) : d.append p c = .ok d' := by
  have h' : d.applyV Dom.cloneVariant Dom.beforeSiblingVariant (.append p c) = .ok (d', out) := h
  simp only [Dom.applyV, bind, Except.bind] at h'
  cases ha : d.append p c with
  | error e => simp [ha] at h'
  | ok d1 => simp [ha] at h'; rw [h'.1]

theorem apply_abopn_inv {d d' : Dom} {e p : Id} {c : NodeOrText} {out : Output}
    (h : d.apply (.appendBasedOnParentNode e p c) = .ok (d', out)) :
    d.appendBasedOnParentNodeV .detachFirst e p c = .ok d' := by
  have h' : d.applyV Dom.cloneVariant Dom.beforeSiblingVariant (.appendBasedOnParentNode e p c) = .ok (d', out) := h
  simp only [Dom.applyV, bind, Except.bind] at h'
  cases ha : d.appendBasedOnParentNodeV Dom.beforeSiblingVariant e p c with
  | error e => simp [ha] at h'
  | ok d1 => simp [ha] at h'; rw [← h'.1]; exact ha

theorem nodeEff_append {d d' : Dom} {p r : Id} (hne : p ≠ r) (h : d.append p (.node r) = .ok d') :
    NodeEff d d' r p := by
  rw [append_node_eq] at h
  obtain ⟨cn, pn, _, _, hpn, hp, _, _, hs, _⟩ := appendRaw_ok h hne
  exact ⟨hs, hp, node?_lt hpn⟩

theorem textEff_append {d d' : Dom} {p : Id} {t : Str} (h : d.append p (.text t) = .ok d') :
    TextEff d d' p := by
  obtain ⟨hp, h1 | h2⟩ := append_text_ok h
  · obtain ⟨_, _, _, _, hsh, _, hs⟩ := h1
    exact Or.inl ⟨hs, hsh.parent⟩
  · obtain ⟨hp', _, _, hs, _⟩ := allocAppend_ok hp h2.2
    exact Or.inr ⟨hs, hp, hp'⟩

theorem nodeEff_beforeSibling {d d' : Dom} {e r P : Id} (hpar : d.parentOf e = some P) (hrp : d.parentOf r = none)
    (h : d.appendBeforeSiblingV .detachFirst e (.node r) = .ok d') : NodeEff d d' r P := by
  rcases appendBeforeSiblingV_ok h with h1 | ⟨c, d1, he, hr, h2⟩
  · obtain ⟨P', i, hp', _, hPlt, hm⟩ := appendBeforeSibling_ok h1
    rw [hpar] at hp'; cases hp'
    obtain ⟨d1, hr, _, _, _, hp, _, _, hs, _⟩ := insertAtIndex_ok hm
    rcases removeFromParent_ok hr with ⟨_, hd1⟩ | ⟨_, _, hpr, _⟩
    · subst hd1; exact ⟨hs, hp, hPlt⟩
    · rw [hrp] at hpr; cases hpr
  · cases he
    rcases removeFromParent_ok hr with ⟨_, hd1⟩ | ⟨_, _, hpr, _⟩
    · subst hd1
      obtain ⟨P', i, hp', _, hPlt, hm⟩ := appendBeforeSibling_ok h2
      rw [hpar] at hp'; cases hp'
      obtain ⟨d2, hr2, _, _, _, hp, _, _, hs, _⟩ := insertAtIndex_ok hm
      rcases removeFromParent_ok hr2 with ⟨_, hd2⟩ | ⟨_, _, hpr, _⟩
      · subst hd2; exact ⟨hs, hp, hPlt⟩
      · rw [hrp] at hpr; cases hpr
    · rw [hrp] at hpr; cases hpr

theorem textEff_beforeSibling {d d' : Dom} {e P : Id} {t : Str} (hpar : d.parentOf e = some P)
    (h : d.appendBeforeSiblingV .detachFirst e (.text t) = .ok d') : TextEff d d' P := by
  rw [appendBeforeSiblingV_text] at h
  obtain ⟨P', i, hp', _, hPlt, hm⟩ := appendBeforeSibling_ok h
  rw [hpar] at hp'; cases hp'
  rcases hm with ⟨prev, old, _, _, _, hsh, _, hs⟩ | ⟨_, h2⟩
  · exact Or.inl ⟨hs, hsh.parent⟩
  · obtain ⟨_, hp, _, _, hs, _⟩ := insertAtIndex_fresh_ok h2
    exact Or.inr ⟨hs, hPlt, hp⟩

/-- **effect of inserting a parentless node** -/
theorem nodeEff_ipOp {d d' : Dom} {ip : InsertionPoint} {r : Id} {out : Output} (hv : IpValid d ip)
    (hrp : d.parentOf r = none) (hne : ∀ x ∈ ipIds ip, x ≠ r)
    (h : d.apply (ipOp ip (.node r)) = .ok (d', out)) : ∃ P, ipParent d ip = some P ∧ NodeEff d d' r P := by
  cases ip with
  | beforeSibling sb => exact absurd hv id
  | lastChild p =>
    exact ⟨p, rfl, nodeEff_append (hne p (by simp [ipIds])) (apply_append_inv h)⟩
  | tableFosterParenting e pe =>
    have h' := apply_abopn_inv h
    have he : e < d.size := lt_of_isElement hv.1
    have := appendBasedOnParentNodeV_eq h' he
    cases hpar : d.parentOf e with
    | none =>
      rw [hpar] at this
      simp only [Option.isSome_none, Bool.false_eq_true, if_false] at this
      exact ⟨pe, by simp [ipParent, hpar], nodeEff_append (hne pe (by simp [ipIds])) this.symm⟩
    | some P =>
      rw [hpar] at this
      simp only [Option.isSome_some, if_true] at this
      exact ⟨P, by simp [ipParent, hpar], nodeEff_beforeSibling hpar hrp this.symm⟩

/-- **effect of inserting text** -/
theorem textEff_ipOp {d d' : Dom} {ip : InsertionPoint} {t : Str} {out : Output} (hv : IpValid d ip)
    (h : d.apply (ipOp ip (.text t)) = .ok (d', out)) : ∃ P, ipParent d ip = some P ∧ TextEff d d' P := by
  cases ip with
  | beforeSibling sb => exact absurd hv id
  | lastChild p => exact ⟨p, rfl, textEff_append (apply_append_inv h)⟩
  | tableFosterParenting e pe =>
    have h' := apply_abopn_inv h
    have he : e < d.size := lt_of_isElement hv.1
    have := appendBasedOnParentNodeV_eq h' he
    cases hpar : d.parentOf e with
    | none =>
      rw [hpar] at this
      simp only [Option.isSome_none, Bool.false_eq_true, if_false] at this
      exact ⟨pe, by simp [ipParent, hpar], textEff_append this.symm⟩
    | some P =>
      rw [hpar] at this
      simp only [Option.isSome_some, if_true] at this
      exact ⟨P, by simp [ipParent, hpar], textEff_beforeSibling hpar this.symm⟩

end H5V.Lemmas.TBC
