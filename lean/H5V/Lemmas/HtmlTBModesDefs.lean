import H5V.Lemmas.HtmlTBModesDev
/-!
What "the model's rule for an insertion mode implements the specification's" means: `ModeSim`
(non-character tokens), `ModeCharSim` (runs of characters), `ForeignSim`, `ForeignCharSim`.
-/
namespace H5V.Lemmas.HtmlTBModes
open H5V.Model.HtmlTB
open H5V.Model.Dom (Id SinkOp Output Dom QualName Attr NodeOrText ElementFlags NodeData QuirksMode)
open H5V.Lemmas.HtmlTBAlgo
open H5V.Lemmas.TBSafe (TI HInv SInv Rooted ForeignTop textTok)
open H5V.Spec.TreeAlgo2 (Elem Entry PState Ctx Edit Place)
open H5V.Spec.TreeModes (STok ETok IMode Config Out TokSwitch XOp Op Step Edition)

/-! ### runs of characters on the side of the specification -/

/-- the characters `text`, each handled at once ("done", no "reprocess") by the dispatcher; no
character is dropped by the "ignore a line feed" flag -/
def specCharsRest (cfg : Config Id) : SState → Str → Spec.TreeModes.M SState
  | σ, [] => pure σ
  | σ, c :: cs => do
    if σ.stopped || σ.ignoreLf then throw "specChars: stopped / ignoreLf"
    match ← dispatchDev cfg σ (.character c) with
    | .done σ' => specCharsRest cfg σ' cs
    | _ => throw "specChars: not done"

/-- the first character by `rule` (the rules the dispatcher chose), the others by the dispatcher -/
def specChars (cfg : Config Id) (rule : SState → STok → Spec.TreeModes.M (Step Id)) : SState → Str → Spec.TreeModes.M SState
  | σ, [] => pure σ
  | σ, c :: cs => do
    match ← rule σ (.character c) with
    | .done σ' => specCharsRest cfg σ' cs
    | _ => throw "specChars: not done"

/-- **the post-condition of a rule run on a run of characters** -/
def CharsPost (rule : SState → STok → Spec.TreeModes.M (Step Id)) (s : State) (st : SplitStatus) (text : Str) :
    ProcessResult → State → List Call → Prop :=
  fun res s' calls =>
    match res with
    | .done => s'.ignoreLf = s.ignoreLf ∧
        Tr s s' calls (fun x x' => specChars (cfgOf s) rule (absF s x) text = .ok (absF s' x'))
    | .splitWhitespace t' => st = .notSplit ∧ t' = text ∧ s'.ignoreLf = s.ignoreLf ∧
        Tr s s' calls (fun x x' => x' = x ∧ absF s x = absF s' x)
    | .reprocess m' tok' => tok' = .chars st text ∧ s'.ignoreLf = s.ignoreLf ∧ ∃ c cs, text = c :: cs ∧
        Tr s { s' with mode := m' } calls (fun x x' =>
          rule (absF s x) (.character c) = .ok (.reprocess (absF { s' with mode := m' } x')))
    | _ => False

/-! ### runs of characters handled by a rule function that another mode delegates to -/

/-- every character of `text` is handled at once ("done") by `rule`; the states in between keep the
insertion mode, are not stopped, have no pending "ignore LF", and the dispatcher keeps choosing the
rules of the insertion mode -/
inductive CharsRunK (cfg : Config Id) (rule : SState → STok → Spec.TreeModes.M (Step Id)) : SState → Str → SState → Prop
  | nil (σ : SState) : CharsRunK cfg rule σ [] σ
  | cons {σ σ1 σ' : SState} {c : Char} {cs : Str} : rule σ (.character c) = .ok (.done σ1) → σ1.mode = σ.mode →
      σ1.stopped = false → σ1.ignoreLf = false →
      Spec.TreeAlgo.useHtmlRules (Spec.TreeModes.adjustedCurrentNode cfg σ1) .character = true →
      CharsRunK cfg rule σ1 cs σ' → CharsRunK cfg rule σ (c :: cs) σ'

/-- as `CharsPost`, with `CharsRunK` for the case "done" -/
def CharsPostK (rule : SState → STok → Spec.TreeModes.M (Step Id)) (s : State) (st : SplitStatus) (text : Str) :
    ProcessResult → State → List Call → Prop :=
  fun res s' calls =>
    match res with
    | .done => s'.ignoreLf = s.ignoreLf ∧
        Tr s s' calls (fun x x' => CharsRunK (cfgOf s) rule (absF s x) text (absF s' x'))
    | .splitWhitespace t' => st = .notSplit ∧ t' = text ∧ s'.ignoreLf = s.ignoreLf ∧
        Tr s s' calls (fun x x' => x' = x ∧ absF s x = absF s' x)
    | .reprocess m' tok' => tok' = .chars st text ∧ s'.ignoreLf = s.ignoreLf ∧ ∃ c cs, text = c :: cs ∧
        Tr s { s' with mode := m' } calls (fun x x' =>
          rule (absF s x) (.character c) = .ok (.reprocess (absF { s' with mode := m' } x')))
    | _ => False

theorem specCharsRest_of_run {cfg : Config Id} {rule : SState → STok → Spec.TreeModes.M (Step Id)} {m : IMode} {text : Str}
    (hd : ∀ σ1 c, c ∈ text → σ1.mode = m →
      Spec.TreeAlgo.useHtmlRules (Spec.TreeModes.adjustedCurrentNode cfg σ1) .character = true →
      dispatchDev cfg σ1 (.character c) = rule σ1 (.character c)) :
    ∀ {σ σ' : SState} {t : Str}, CharsRunK cfg rule σ t σ' → (∀ c ∈ t, c ∈ text) → σ.mode = m → σ.stopped = false →
      σ.ignoreLf = false → Spec.TreeAlgo.useHtmlRules (Spec.TreeModes.adjustedCurrentNode cfg σ) .character = true →
      specCharsRest cfg σ t = .ok σ' := by
  intro σ σ' t h
  induction h with
  | nil σ => intro _ _ _ _ _; rfl
  | cons h1 h2 h3 h4 h5 _ ih =>
    intro hsub hm hs hl hu
    simp only [specCharsRest, hs, hl, Bool.or_self, Bool.false_eq_true, if_false]
    rw [hd _ _ (hsub _ List.mem_cons_self) hm hu, h1]
    exact ih (fun c hc => hsub c (List.mem_cons_of_mem _ hc)) (h2.trans hm) h3 h4 h5

/-- from a delegated run to the run of the delegating mode: the first character by `rule'`, the others
by the dispatcher -/
theorem specChars_of_run {cfg : Config Id} {rule rule' : SState → STok → Spec.TreeModes.M (Step Id)} {σ σ' : SState}
    {text : Str} (h : CharsRunK cfg rule σ text σ')
    (h1 : ∀ c ∈ text, rule' σ (.character c) = rule σ (.character c))
    (hd : ∀ σ1 c, c ∈ text → σ1.mode = σ.mode →
      Spec.TreeAlgo.useHtmlRules (Spec.TreeModes.adjustedCurrentNode cfg σ1) .character = true →
      dispatchDev cfg σ1 (.character c) = rule σ1 (.character c)) :
    specChars cfg rule' σ text = .ok σ' := by
  cases h with
  | nil => rfl
  | cons e h2 h3 h4 h5 hr =>
    simp only [specChars]
    rw [h1 _ List.mem_cons_self, e]
    exact specCharsRest_of_run hd hr (fun c hc => List.mem_cons_of_mem _ hc) h2 h3 h4 h5

/-! ### the simulation statements -/

/-- a rule function of the model simulates a rule function of the specification on runs of characters
(the mode that delegates to it keeps being chosen for the following characters: `CharsRunK`) -/
def StepSimChars (f : Token → M ProcessResult) (g : Config Id → SState → STok → Spec.TreeModes.M (Step Id)) : Prop :=
  ∀ st text, TokWf (.chars st text) → ∀ s, MInv s → s.ignoreLf = false →
    (∀ x, AuxOk s x → Spec.TreeAlgo.useHtmlRules (Spec.TreeModes.adjustedCurrentNode (cfgOf s) (absF s x)) .character = true) →
    PC (f (.chars st text)) s (CharsPostK (g (cfgOf s)) s st text)

/-- "process the token according to the rules for parsing tokens in foreign content", with the
"reprocess according to the rules of the current insertion mode in HTML content" carried out -/
def foreignFull (cfg : Config Id) (σ : SState) (tok : STok) : Spec.TreeModes.M (Step Id) := do
  match ← Spec.TreeModes.foreign cfg σ tok with
  | .reprocessHtml σ' => byModeDev cfg σ' tok
  | r => pure r

/-- the rules of insertion mode `m`, non-character tokens -/
def ModeSim (m : Mode) : Prop :=
  ∀ tok, isCharsTok tok = false → TokWf tok → ∀ s, TI s → MInv s → s.mode = m → (m = .text → textTok tok = true) →
    PC (step m tok) s (TokPost (fun σ => byModeDev (cfgOf s) σ (stokOf tok)) s tok)

/-- the rules of insertion mode `m`, runs of characters (the dispatcher has chosen the rules of the
insertion mode for the first character) -/
def ModeCharSim (m : Mode) : Prop :=
  ∀ st text, TokWf (.chars st text) → ∀ s, TI s → MInv s → s.mode = m → s.ignoreLf = false →
    (∀ x, AuxOk s x → Spec.TreeAlgo.useHtmlRules (Spec.TreeModes.adjustedCurrentNode (cfgOf s) (absF s x)) .character = true) →
    PC (step m (.chars st text)) s (CharsPost (byModeDev (cfgOf s)) s st text)

/-- the rules for foreign content, non-character tokens -/
def ForeignSim : Prop :=
  ∀ tok, isCharsTok tok = false → tok ≠ .eof → TokWf tok → ∀ s, TI s → MInv s → ForeignTop s →
    PC (stepForeign tok) s (TokPost (fun σ => foreignFull (cfgOf s) σ (stokOf tok)) s tok)

def ForeignCharSim : Prop :=
  ∀ st text, TokWf (.chars st text) → ∀ s, TI s → MInv s → ForeignTop s → s.ignoreLf = false →
    (∀ x, AuxOk s x → Spec.TreeAlgo.useHtmlRules (Spec.TreeModes.adjustedCurrentNode (cfgOf s) (absF s x)) .character = false) →
    PC (stepForeign (.chars st text)) s (CharsPost (Spec.TreeModes.foreign (cfgOf s)) s st text)

end H5V.Lemmas.HtmlTBModes
