import H5V.Lemmas.HtmlTBSkelShapeForeign
/-!
C06, second invariant layer, part 32: all rules preserve the stack-shape invariant.
-/
namespace H5V.Props.C06
open H5V.Model.Dom hiding Str
open H5V.Model.HtmlTB hiding Str
open H5V.Lemmas.Dom

/-- every insertion mode (from BeforeHead on) preserves the stack-shape invariant -/
theorem allModes : ∀ m, isLate m = true → ModeOk m
  | .initial, h => by cases h
  | .beforeHtml, h => by cases h
  | .beforeHead, _ => modeOk_beforeHead
  | .inHead, _ => modeOk_inHead'
  | .inHeadNoscript, _ => modeOk_inHeadNoscript
  | .afterHead, _ => modeOk_afterHead'
  | .inBody, _ => modeOk_inBody'
  | .text, _ => modeOk_text
  | .inTable, _ => modeOk_inTable
  | .inTableText, _ => modeOk_inTableText
  | .inCaption, _ => modeOk_inCaption
  | .inColumnGroup, _ => modeOk_inColumnGroup
  | .inTableBody, _ => modeOk_inTableBody
  | .inRow, _ => modeOk_inRow
  | .inCell, _ => modeOk_inCell
  | .inTemplate, _ => modeOk_inTemplate
  | .afterBody, _ => modeOk_afterBody
  | .inFrameset, _ => modeOk_inFrameset
  | .afterFrameset, _ => modeOk_afterFrameset
  | .afterAfterBody, _ => modeOk_afterAfterBody
  | .afterAfterFrameset, _ => modeOk_afterAfterFrameset

/-- the end of the input: the parse stops only with `head` and `body`/`frameset` in place -/
theorem allEof : ∀ m, isLate m = true → EofOk m
  | .initial, h => by cases h
  | .beforeHtml, h => by cases h
  | .beforeHead, _ => eofOk_beforeHead
  | .inHead, _ => eofOk_inHead
  | .inHeadNoscript, _ => eofOk_inHeadNoscript
  | .afterHead, _ => eofOk_afterHead
  | .inBody, _ => eofOk_inBody
  | .text, _ => eofOk_text
  | .inTable, _ => eofOk_inTable
  | .inTableText, _ => eofOk_inTableText
  | .inCaption, _ => eofOk_inCaption
  | .inColumnGroup, _ => eofOk_inColumnGroup
  | .inTableBody, _ => eofOk_inTableBody
  | .inRow, _ => eofOk_inRow
  | .inCell, _ => eofOk_inCell
  | .inTemplate, _ => eofOk_inTemplate
  | .afterBody, _ => eofOk_afterBody
  | .inFrameset, _ => eofOk_inFrameset
  | .afterFrameset, _ => eofOk_afterFrameset
  | .afterAfterBody, _ => eofOk_afterAfterBody
  | .afterAfterFrameset, _ => eofOk_afterAfterFrameset

/-- **all rules of the HTML tree-builder model preserve the stack-shape invariant** -/
theorem rules : Rules := ⟨allModes, foreignOk allModes, allEof⟩

end H5V.Props.C06
