import H5V.Lemmas.HtmlTokSpecTac
set_option linter.unusedSimpArgs false
set_option linter.unusedVariables false
/-!
# C01 simulation — table lemmas (`TabOk`) for the RCDATA / RAWTEXT / script data sub-states:
`RawLessThanSign`, `RawEndTagOpen`, `RawEndTagName`, the script data escape start / dash / dash dash
states and the double escape end state; dispatcher `tab_raw`.

In `RawEndTagName` the clause `t.attrs = []` of `RegRel` is needed: the fall-through leaf returns to a
text state, where `RegRel` demands empty attribute registers.
-/
namespace H5V.Lemmas.HtmlTokSpec
open H5V.Model.HtmlTok
open H5V.Spec.HtmlTokenizer (St Tok Emit Tree Switch Ctl ReturnSt)

/-! ## less-than sign states -/

set_option maxHeartbeats 1600000 in
theorem tab_rawLessThanSign_rcdata (o : Opts) (ho : o.exactErrors = false) (pol : Pol) (tree : Tree)
    (m : Mach) (t : Tok) (c : Char) (rest : Str) (h : RegCore m t) (hr : m.reconsume = false)
    (hs : m.state = .rawLessThanSign .rcdata) : TabOk tree t c rest (transChar o pol m c) := by
  tab_state h hs c ['/', '!']

set_option maxHeartbeats 1600000 in
theorem tab_rawLessThanSign_rawtext (o : Opts) (ho : o.exactErrors = false) (pol : Pol) (tree : Tree)
    (m : Mach) (t : Tok) (c : Char) (rest : Str) (h : RegCore m t) (hr : m.reconsume = false)
    (hs : m.state = .rawLessThanSign .rawtext) : TabOk tree t c rest (transChar o pol m c) := by
  tab_state h hs c ['/', '!']

set_option maxHeartbeats 1600000 in
theorem tab_rawLessThanSign_scriptData (o : Opts) (ho : o.exactErrors = false) (pol : Pol) (tree : Tree)
    (m : Mach) (t : Tok) (c : Char) (rest : Str) (h : RegCore m t) (hr : m.reconsume = false)
    (hs : m.state = .rawLessThanSign .scriptData) : TabOk tree t c rest (transChar o pol m c) := by
  tab_state h hs c ['/', '!']

set_option maxHeartbeats 1600000 in
theorem tab_rawLessThanSign_escaped (o : Opts) (ho : o.exactErrors = false) (pol : Pol) (tree : Tree)
    (m : Mach) (t : Tok) (c : Char) (rest : Str) (h : RegCore m t) (hr : m.reconsume = false)
    (hs : m.state = .rawLessThanSign (.scriptDataEscaped .escaped)) : TabOk tree t c rest (transChar o pol m c) := by
  tab_state h hs c ['/']

set_option maxHeartbeats 1600000 in
theorem tab_rawLessThanSign_doubleEscaped (o : Opts) (ho : o.exactErrors = false) (pol : Pol) (tree : Tree)
    (m : Mach) (t : Tok) (c : Char) (rest : Str) (h : RegCore m t) (hr : m.reconsume = false)
    (hs : m.state = .rawLessThanSign (.scriptDataEscaped .doubleEscaped)) : TabOk tree t c rest (transChar o pol m c) := by
  tab_state h hs c ['/']

theorem tab_rawLessThanSign (k : RawKind) (o : Opts) (ho : o.exactErrors = false) (pol : Pol) (tree : Tree)
    (m : Mach) (t : Tok) (c : Char) (rest : Str) (h : RegCore m t) (hr : m.reconsume = false)
    (hs : m.state = .rawLessThanSign k) : TabOk tree t c rest (transChar o pol m c) := by
  cases k with
  | rcdata => exact tab_rawLessThanSign_rcdata o ho pol tree m t c rest h hr hs
  | rawtext => exact tab_rawLessThanSign_rawtext o ho pol tree m t c rest h hr hs
  | scriptData => exact tab_rawLessThanSign_scriptData o ho pol tree m t c rest h hr hs
  | scriptDataEscaped e =>
    cases e with
    | escaped => exact tab_rawLessThanSign_escaped o ho pol tree m t c rest h hr hs
    | doubleEscaped => exact tab_rawLessThanSign_doubleEscaped o ho pol tree m t c rest h hr hs

/-! ## end tag open states -/

set_option maxHeartbeats 1600000 in
theorem tab_rawEndTagOpen_rcdata (o : Opts) (ho : o.exactErrors = false) (pol : Pol) (tree : Tree)
    (m : Mach) (t : Tok) (c : Char) (rest : Str) (h : RegCore m t) (hr : m.reconsume = false)
    (hs : m.state = .rawEndTagOpen .rcdata) : TabOk tree t c rest (transChar o pol m c) := by
  tab_state h hs c []

set_option maxHeartbeats 1600000 in
theorem tab_rawEndTagOpen_rawtext (o : Opts) (ho : o.exactErrors = false) (pol : Pol) (tree : Tree)
    (m : Mach) (t : Tok) (c : Char) (rest : Str) (h : RegCore m t) (hr : m.reconsume = false)
    (hs : m.state = .rawEndTagOpen .rawtext) : TabOk tree t c rest (transChar o pol m c) := by
  tab_state h hs c []

set_option maxHeartbeats 1600000 in
theorem tab_rawEndTagOpen_scriptData (o : Opts) (ho : o.exactErrors = false) (pol : Pol) (tree : Tree)
    (m : Mach) (t : Tok) (c : Char) (rest : Str) (h : RegCore m t) (hr : m.reconsume = false)
    (hs : m.state = .rawEndTagOpen .scriptData) : TabOk tree t c rest (transChar o pol m c) := by
  tab_state h hs c []

set_option maxHeartbeats 1600000 in
theorem tab_rawEndTagOpen_escaped (o : Opts) (ho : o.exactErrors = false) (pol : Pol) (tree : Tree)
    (m : Mach) (t : Tok) (c : Char) (rest : Str) (h : RegCore m t) (hr : m.reconsume = false)
    (hs : m.state = .rawEndTagOpen (.scriptDataEscaped .escaped)) : TabOk tree t c rest (transChar o pol m c) := by
  tab_state h hs c []

theorem tab_rawEndTagOpen (k : RawKind) (o : Opts) (ho : o.exactErrors = false) (pol : Pol) (tree : Tree)
    (m : Mach) (t : Tok) (c : Char) (rest : Str) (h : RegCore m t) (hr : m.reconsume = false)
    (hs : m.state = .rawEndTagOpen k) (hk : k ≠ .scriptDataEscaped .doubleEscaped) :
    TabOk tree t c rest (transChar o pol m c) := by
  cases k with
  | rcdata => exact tab_rawEndTagOpen_rcdata o ho pol tree m t c rest h hr hs
  | rawtext => exact tab_rawEndTagOpen_rawtext o ho pol tree m t c rest h hr hs
  | scriptData => exact tab_rawEndTagOpen_scriptData o ho pol tree m t c rest h hr hs
  | scriptDataEscaped e =>
    cases e with
    | escaped => exact tab_rawEndTagOpen_escaped o ho pol tree m t c rest h hr hs
    | doubleEscaped => exact absurd rfl hk

/-! ## end tag name states -/

/-- an end tag name state (`fn` = the state's function in the specification): the register part of
the relation is destructured, "appropriate end tag token" is decided first, the `>` leaf of the
appropriate case goes through `tabOk_gt`, the other leaves through `tab_cases` -/
macro "tab_rawEndTagName_tac" h:ident hs:ident o:ident pol:ident hpt:ident hr:ident m:ident t:ident c:ident fn:ident : tactic =>
  `(tactic| (
  obtain ⟨hstd, hst, hcr, hreg, hout⟩ := $h
  simp [$hs:ident, stOf, altSt, isRet] at hst
  simp [RegRel, AttrRel, $hs:ident, isTagSt, needsCur, usesTemp, usesComment, usesDoctype] at hreg
  simp [OutRel, cdataBuf, isCdata, $hs:ident] at hout
  obtain ⟨r1, ⟨r2, r3, r4, r5⟩, r6, hat, r7⟩ := hreg
  have happ := appropriate_eq $m $t r2 r3 r1
  by_cases ha : Tok.isAppropriateEndTag $t = true
  · by_cases hgt : $c = '>'
    · subst hgt
      have hm : transChar $o $pol $m '>' = emitTag $pol .data (clearTemp $m) := by
        unfold transChar; simp (config := {decide := true}) [$hs:ident, happ, ha, isWs]
      rw [hm]
      refine tabOk_gt $pol _ $hpt (clearTemp $m) $t $t $t _ (Or.inl rfl) ?_ hcr $hr r1 r2 r3 r4 r5 hout r7
      simp [sstep, H5V.Spec.HtmlTokenizer.step, hst, $fn:ident,
        H5V.Spec.HtmlTokenizer.genericEndTagNameState, ha, Tok.done]
    · unfold transChar
      simp only [$hs:ident, happ]
      rw [hat, attrR_nil_iff] at r5
      obtain ⟨r5a, r5b, r5c, r5d⟩ := r5
      tab_cases $c ['\t', '\n', '\x0c', ' ', '/', '>']
  · unfold transChar
    simp only [$hs:ident, happ]
    rw [hat, attrR_nil_iff] at r5
    obtain ⟨r5a, r5b, r5c, r5d⟩ := r5
    tab_cases $c ['\t', '\n', '\x0c', ' ', '/', '>']))

set_option maxHeartbeats 1600000 in
theorem tab_rawEndTagName_rcdata (o : Opts) (ho : o.exactErrors = false) (pol : Pol) (tree : Tree) (hpt : PolTree pol tree)
    (m : Mach) (t : Tok) (c : Char) (rest : Str) (h : RegCore m t) (hr : m.reconsume = false)
    (hs : m.state = .rawEndTagName .rcdata) : TabOk tree t c rest (transChar o pol m c) := by
  tab_rawEndTagName_tac h hs o pol hpt hr m t c H5V.Spec.HtmlTokenizer.rcdataEndTagNameState

set_option maxHeartbeats 1600000 in
theorem tab_rawEndTagName_rawtext (o : Opts) (ho : o.exactErrors = false) (pol : Pol) (tree : Tree) (hpt : PolTree pol tree)
    (m : Mach) (t : Tok) (c : Char) (rest : Str) (h : RegCore m t) (hr : m.reconsume = false)
    (hs : m.state = .rawEndTagName .rawtext) : TabOk tree t c rest (transChar o pol m c) := by
  tab_rawEndTagName_tac h hs o pol hpt hr m t c H5V.Spec.HtmlTokenizer.rawtextEndTagNameState

set_option maxHeartbeats 1600000 in
theorem tab_rawEndTagName_scriptData (o : Opts) (ho : o.exactErrors = false) (pol : Pol) (tree : Tree) (hpt : PolTree pol tree)
    (m : Mach) (t : Tok) (c : Char) (rest : Str) (h : RegCore m t) (hr : m.reconsume = false)
    (hs : m.state = .rawEndTagName .scriptData) : TabOk tree t c rest (transChar o pol m c) := by
  tab_rawEndTagName_tac h hs o pol hpt hr m t c H5V.Spec.HtmlTokenizer.scriptDataEndTagNameState

set_option maxHeartbeats 1600000 in
theorem tab_rawEndTagName_escaped (o : Opts) (ho : o.exactErrors = false) (pol : Pol) (tree : Tree) (hpt : PolTree pol tree)
    (m : Mach) (t : Tok) (c : Char) (rest : Str) (h : RegCore m t) (hr : m.reconsume = false)
    (hs : m.state = .rawEndTagName (.scriptDataEscaped .escaped)) : TabOk tree t c rest (transChar o pol m c) := by
  tab_rawEndTagName_tac h hs o pol hpt hr m t c H5V.Spec.HtmlTokenizer.scriptDataEscapedEndTagNameState

theorem tab_rawEndTagName (k : RawKind) (o : Opts) (ho : o.exactErrors = false) (pol : Pol) (tree : Tree)
    (hpt : PolTree pol tree) (m : Mach) (t : Tok) (c : Char) (rest : Str) (h : RegCore m t) (hr : m.reconsume = false)
    (hs : m.state = .rawEndTagName k) (hk : k ≠ .scriptDataEscaped .doubleEscaped) :
    TabOk tree t c rest (transChar o pol m c) := by
  cases k with
  | rcdata => exact tab_rawEndTagName_rcdata o ho pol tree hpt m t c rest h hr hs
  | rawtext => exact tab_rawEndTagName_rawtext o ho pol tree hpt m t c rest h hr hs
  | scriptData => exact tab_rawEndTagName_scriptData o ho pol tree hpt m t c rest h hr hs
  | scriptDataEscaped e =>
    cases e with
    | escaped => exact tab_rawEndTagName_escaped o ho pol tree hpt m t c rest h hr hs
    | doubleEscaped => exact absurd rfl hk

/-! ## script data escape states -/

theorem tabRaw_script_eq : "script".toList = ['s', 'c', 'r', 'i', 'p', 't'] := by rfl

/-- a state that compares the temporary buffer with "script": like `tab_state`, but the buffer of the
model is replaced by that of the specification, "script" by the list of its characters, and the
comparison is decided before the split on `c` -/
macro "tab_state_script" h:ident hs:ident t:ident c:ident "[" ls:term,* "]" : tactic => `(tactic| (
  obtain ⟨hstd, hst, hcr, hreg, hout⟩ := $h
  simp [$hs:ident, stOf, altSt, isRet] at hst
  simp [RegRel, AttrRel, $hs:ident, isTagSt, needsCur, usesTemp, usesComment, usesDoctype] at hreg
  simp [OutRel, cdataBuf, isCdata, $hs:ident] at hout
  obtain ⟨r1, r2, r3, r7⟩ := hreg
  have hsc := tabRaw_script_eq
  unfold transChar
  simp only [$hs:ident, r3, hsc]
  by_cases hb : Tok.temporaryBuffer $t = ['s', 'c', 'r', 'i', 'p', 't']
  all_goals (tab_cases $c [$ls,*])))

set_option maxHeartbeats 1600000 in
theorem tab_scriptDataEscapeStart_escaped (o : Opts) (ho : o.exactErrors = false) (pol : Pol) (tree : Tree)
    (m : Mach) (t : Tok) (c : Char) (rest : Str) (h : RegCore m t) (hr : m.reconsume = false)
    (hs : m.state = .scriptDataEscapeStart .escaped) : TabOk tree t c rest (transChar o pol m c) := by
  tab_state h hs c ['-']

set_option maxHeartbeats 1600000 in
theorem tab_scriptDataEscapeStart_doubleEscaped (o : Opts) (ho : o.exactErrors = false) (pol : Pol) (tree : Tree)
    (m : Mach) (t : Tok) (c : Char) (rest : Str) (h : RegCore m t) (hr : m.reconsume = false)
    (hs : m.state = .scriptDataEscapeStart .doubleEscaped) : TabOk tree t c rest (transChar o pol m c) := by
  tab_state_script h hs t c ['\t', '\n', '\x0c', ' ', '/', '>']

theorem tab_scriptDataEscapeStart (k : ScriptEscapeKind) (o : Opts) (ho : o.exactErrors = false) (pol : Pol)
    (tree : Tree) (m : Mach) (t : Tok) (c : Char) (rest : Str) (h : RegCore m t) (hr : m.reconsume = false)
    (hs : m.state = .scriptDataEscapeStart k) : TabOk tree t c rest (transChar o pol m c) := by
  cases k with
  | escaped => exact tab_scriptDataEscapeStart_escaped o ho pol tree m t c rest h hr hs
  | doubleEscaped => exact tab_scriptDataEscapeStart_doubleEscaped o ho pol tree m t c rest h hr hs

set_option maxHeartbeats 1600000 in
theorem tab_scriptDataEscapeStartDash (o : Opts) (ho : o.exactErrors = false) (pol : Pol) (tree : Tree)
    (m : Mach) (t : Tok) (c : Char) (rest : Str) (h : RegCore m t) (hr : m.reconsume = false)
    (hs : m.state = .scriptDataEscapeStartDash) : TabOk tree t c rest (transChar o pol m c) := by
  tab_state h hs c ['-']

set_option maxHeartbeats 1600000 in
theorem tab_scriptDataEscapedDash_escaped (o : Opts) (ho : o.exactErrors = false) (pol : Pol) (tree : Tree)
    (m : Mach) (t : Tok) (c : Char) (rest : Str) (h : RegCore m t) (hr : m.reconsume = false)
    (hs : m.state = .scriptDataEscapedDash .escaped) : TabOk tree t c rest (transChar o pol m c) := by
  tab_state h hs c ['-', '<', '\x00']

set_option maxHeartbeats 1600000 in
theorem tab_scriptDataEscapedDash_doubleEscaped (o : Opts) (ho : o.exactErrors = false) (pol : Pol) (tree : Tree)
    (m : Mach) (t : Tok) (c : Char) (rest : Str) (h : RegCore m t) (hr : m.reconsume = false)
    (hs : m.state = .scriptDataEscapedDash .doubleEscaped) : TabOk tree t c rest (transChar o pol m c) := by
  tab_state h hs c ['-', '<', '\x00']

theorem tab_scriptDataEscapedDash (k : ScriptEscapeKind) (o : Opts) (ho : o.exactErrors = false) (pol : Pol)
    (tree : Tree) (m : Mach) (t : Tok) (c : Char) (rest : Str) (h : RegCore m t) (hr : m.reconsume = false)
    (hs : m.state = .scriptDataEscapedDash k) : TabOk tree t c rest (transChar o pol m c) := by
  cases k with
  | escaped => exact tab_scriptDataEscapedDash_escaped o ho pol tree m t c rest h hr hs
  | doubleEscaped => exact tab_scriptDataEscapedDash_doubleEscaped o ho pol tree m t c rest h hr hs

set_option maxHeartbeats 1600000 in
theorem tab_scriptDataEscapedDashDash_escaped (o : Opts) (ho : o.exactErrors = false) (pol : Pol) (tree : Tree)
    (m : Mach) (t : Tok) (c : Char) (rest : Str) (h : RegCore m t) (hr : m.reconsume = false)
    (hs : m.state = .scriptDataEscapedDashDash .escaped) : TabOk tree t c rest (transChar o pol m c) := by
  tab_state h hs c ['-', '<', '>', '\x00']

set_option maxHeartbeats 1600000 in
theorem tab_scriptDataEscapedDashDash_doubleEscaped (o : Opts) (ho : o.exactErrors = false) (pol : Pol) (tree : Tree)
    (m : Mach) (t : Tok) (c : Char) (rest : Str) (h : RegCore m t) (hr : m.reconsume = false)
    (hs : m.state = .scriptDataEscapedDashDash .doubleEscaped) : TabOk tree t c rest (transChar o pol m c) := by
  tab_state h hs c ['-', '<', '>', '\x00']

theorem tab_scriptDataEscapedDashDash (k : ScriptEscapeKind) (o : Opts) (ho : o.exactErrors = false) (pol : Pol)
    (tree : Tree) (m : Mach) (t : Tok) (c : Char) (rest : Str) (h : RegCore m t) (hr : m.reconsume = false)
    (hs : m.state = .scriptDataEscapedDashDash k) : TabOk tree t c rest (transChar o pol m c) := by
  cases k with
  | escaped => exact tab_scriptDataEscapedDashDash_escaped o ho pol tree m t c rest h hr hs
  | doubleEscaped => exact tab_scriptDataEscapedDashDash_doubleEscaped o ho pol tree m t c rest h hr hs

set_option maxHeartbeats 1600000 in
theorem tab_scriptDataDoubleEscapeEnd (o : Opts) (ho : o.exactErrors = false) (pol : Pol) (tree : Tree)
    (m : Mach) (t : Tok) (c : Char) (rest : Str) (h : RegCore m t) (hr : m.reconsume = false)
    (hs : m.state = .scriptDataDoubleEscapeEnd) : TabOk tree t c rest (transChar o pol m c) := by
  tab_state_script h hs t c ['\t', '\n', '\x0c', ' ', '/', '>']

/-! ## dispatcher -/

/-- all states of this file -/
theorem tab_raw (o : Opts) (ho : o.exactErrors = false) (pol : Pol) (tree : Tree) (hpt : PolTree pol tree)
    (m : Mach) (t : Tok) (c : Char) (rest : Str) (h : RegCore m t) (hr : m.reconsume = false)
    (hs : (∃ k, m.state = .rawLessThanSign k) ∨ (∃ k, m.state = .rawEndTagOpen k) ∨ (∃ k, m.state = .rawEndTagName k) ∨
          (∃ k, m.state = .scriptDataEscapeStart k) ∨ m.state = .scriptDataEscapeStartDash ∨
          (∃ k, m.state = .scriptDataEscapedDash k) ∨ (∃ k, m.state = .scriptDataEscapedDashDash k) ∨
          m.state = .scriptDataDoubleEscapeEnd) :
    TabOk tree t c rest (transChar o pol m c) := by
  have hstd := h.std
  rcases hs with ⟨k, hs⟩ | ⟨k, hs⟩ | ⟨k, hs⟩ | ⟨k, hs⟩ | hs | ⟨k, hs⟩ | ⟨k, hs⟩ | hs
  · exact tab_rawLessThanSign k o ho pol tree m t c rest h hr hs
  · refine tab_rawEndTagOpen k o ho pol tree m t c rest h hr hs ?_
    rintro rfl
    exact hstd.1 hs
  · refine tab_rawEndTagName k o ho pol tree hpt m t c rest h hr hs ?_
    rintro rfl
    exact hstd.2 hs
  · exact tab_scriptDataEscapeStart k o ho pol tree m t c rest h hr hs
  · exact tab_scriptDataEscapeStartDash o ho pol tree m t c rest h hr hs
  · exact tab_scriptDataEscapedDash k o ho pol tree m t c rest h hr hs
  · exact tab_scriptDataEscapedDashDash k o ho pol tree m t c rest h hr hs
  · exact tab_scriptDataDoubleEscapeEnd o ho pol tree m t c rest h hr hs

end H5V.Lemmas.HtmlTokSpec
