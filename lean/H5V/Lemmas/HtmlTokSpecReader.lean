import H5V.Lemmas.HtmlTokSpecStepDefs
/-!
# C01 simulation — the reader: `get_char`, `pop_except_from`, the data state's read against
"consume the next input character" of the newline-normalised input
-/
set_option linter.unusedSimpArgs false
namespace H5V.Lemmas.HtmlTokSpec
open H5V.Model.HtmlTok
open H5V.Spec.HtmlTokenizer (St Tok Emit Tree Switch Ctl ReturnSt normalizeNewlinesFrom normalizeNewlines)

/-! ## newline normalisation -/

theorem norm_nil (b : Bool) : normalizeNewlinesFrom b [] = [] := by
  unfold normalizeNewlinesFrom; rfl

theorem norm_cr (b : Bool) (s : Str) :
    normalizeNewlinesFrom b ('\r' :: s) = '\n' :: normalizeNewlinesFrom true s := by
  rw [normalizeNewlinesFrom]; simp

theorem norm_lf_true (s : Str) :
    normalizeNewlinesFrom true ('\n' :: s) = normalizeNewlinesFrom false s := by
  rw [normalizeNewlinesFrom]; simp

theorem norm_lf_false (s : Str) :
    normalizeNewlinesFrom false ('\n' :: s) = '\n' :: normalizeNewlinesFrom false s := by
  rw [normalizeNewlinesFrom]; simp

theorem norm_other (b : Bool) (c : Char) (s : Str) (h1 : c ≠ '\r') (h2 : c ≠ '\n') :
    normalizeNewlinesFrom b (c :: s) = c :: normalizeNewlinesFrom false s := by
  rw [normalizeNewlinesFrom]; simp [h1, h2]

/-- a character other than the LF of a CR LF pair, folded -/
theorem norm_fold (b : Bool) (c : Char) (s : Str) (h : ¬ (b = true ∧ c = '\n')) :
    normalizeNewlinesFrom b (c :: s) = foldCh c :: normalizeNewlinesFrom (decide (c = '\r')) s := by
  unfold foldCh
  by_cases h1 : c = '\r'
  · subst h1; simp [norm_cr]
  · by_cases h2 : c = '\n'
    · subst h2
      cases b
      · simp [norm_lf_false]
      · simp at h
    · simp [h1, norm_other b c s h1 h2]

/-! ## `get_preprocessed_char` without `exact_errors` -/

theorem foldChar_eq (o : Opts) (ho : o.exactErrors = false) (m : Mach) (c : Char) :
    foldChar o m c = (foldCh c, readerUpd m (m.ignoreLf || decide (c = '\r')) m.reconsume
      (if foldCh c = '\n' then m.line + 1 else m.line) (foldCh c)) := by
  unfold foldChar foldCh readerUpd
  by_cases h1 : c = '\r'
  · subst h1
    simp [ho, Mach.setIgnoreLf, Mach.bumpLine, Mach.setCurrentChar]
  · by_cases h2 : c = '\n'
    · subst h2
      simp [ho, Mach.setIgnoreLf, Mach.bumpLine, Mach.setCurrentChar]
    · simp [ho, h1, h2, Mach.setIgnoreLf, Mach.bumpLine, Mach.setCurrentChar]

/-- the result of a read: the character, the rest of the specification's input, and the machine,
which differs from the old one only in the reader's registers -/
structure ReadOk (m : Mach) (rest : Str) (c : Char) (m1 : Mach) (inp1 : Str) : Prop where
  rest_eq : rest = c :: normalizeNewlinesFrom m1.ignoreLf inp1
  upd : m1 = readerUpd m m1.ignoreLf false m1.line c

theorem preprocess_rel (o : Opts) (ho : o.exactErrors = false) (m : Mach) (c0 : Char) (inp0 : Str)
    (hr : m.reconsume = false) (c : Char) (m1 : Mach) (inp1 : Str)
    (h : preprocess o m c0 inp0 = (some c, m1, inp1)) :
    ReadOk m (normalizeNewlinesFrom m.ignoreLf (c0 :: inp0)) c m1 inp1 := by
  unfold preprocess at h
  by_cases hil : m.ignoreLf = true
  · simp only [hil, if_true] at h
    by_cases hc : c0 = '\n'
    · subst hc
      simp only [if_true] at h
      cases inp0 with
      | nil => simp at h
      | cons c' r =>
        simp only [foldChar_eq o ho, Prod.mk.injEq, Option.some.injEq] at h
        obtain ⟨h1, h2, h3⟩ := h
        subst h1 h2 h3
        refine ⟨?_, ?_⟩
        · rw [hil, norm_lf_true, norm_fold false c' r (by simp)]
          simp [readerUpd, Mach.setIgnoreLf]
        · simp [readerUpd, Mach.setIgnoreLf, hr]
    · simp only [hc, if_false, foldChar_eq o ho, Prod.mk.injEq, Option.some.injEq] at h
      obtain ⟨h1, h2, h3⟩ := h
      subst h1 h2 h3
      refine ⟨?_, ?_⟩
      · rw [hil, norm_fold true c0 inp0 (by simp [hc])]
        simp [readerUpd, Mach.setIgnoreLf]
      · simp [readerUpd, Mach.setIgnoreLf, hr]
  · have hil' : m.ignoreLf = false := by simpa using hil
    simp only [hil', Bool.false_eq_true, if_false, foldChar_eq o ho, Prod.mk.injEq, Option.some.injEq] at h
    obtain ⟨h1, h2, h3⟩ := h
    subst h1 h2 h3
    refine ⟨?_, ?_⟩
    · rw [hil', norm_fold false c0 inp0 (by simp)]
      simp [readerUpd, hil']
    · simp [readerUpd, hr, hil']

/-- **`get_char` against "consume the next input character"** (no stash) -/
theorem getChar_rel (o : Opts) (ho : o.exactErrors = false) (m : Mach) (inp : Str) (c : Char) (m1 : Mach)
    (inp1 : Str) (hg : getChar o m inp = (some c, m1, inp1)) (hst : stash m = []) (rest : Str)
    (hin : InpRel m inp rest) : ReadOk m rest c m1 inp1 := by
  unfold InpRel at hin
  rw [hst, List.nil_append] at hin
  unfold getChar at hg
  by_cases hr : m.reconsume = true
  · simp only [hr, if_true, Prod.mk.injEq, Option.some.injEq] at hg
    obtain ⟨h1, h2, h3⟩ := hg
    subst h1 h2 h3
    refine ⟨?_, ?_⟩
    · rw [hin]; simp [rc, hr, Mach.setReconsume]
    · cases m; simp [readerUpd, Mach.setReconsume]
  · have hr' : m.reconsume = false := by simpa using hr
    simp only [hr', Bool.false_eq_true, if_false] at hg
    cases inp with
    | nil => simp at hg
    | cons c0 inp0 =>
      simp only at hg
      have := preprocess_rel o ho m c0 inp0 hr' c m1 inp1 hg
      rw [hin]
      simpa [rc, hr'] using this

/-- `get_char` finds nothing: the specification's input is exhausted too -/
theorem getChar_none_rel (o : Opts) (m : Mach) (inp : Str) (m1 : Mach) (inp1 : Str)
    (hg : getChar o m inp = (none, m1, inp1)) (hst : stash m = []) (rest : Str)
    (hin : InpRel m inp rest) :
    rest = [] ∧ inp1 = [] ∧ m1.reconsume = false ∧ stash m1 = [] ∧ InpRel m1 inp1 rest ∧
      ∃ il, m1 = readerUpd m il false m.line m.currentChar := by
  unfold InpRel at hin
  rw [hst, List.nil_append] at hin
  unfold getChar at hg
  by_cases hr : m.reconsume = true
  · simp [hr] at hg
  · have hr' : m.reconsume = false := by simpa using hr
    simp only [hr', Bool.false_eq_true, if_false] at hg
    cases inp with
    | nil =>
      simp only [Prod.mk.injEq, true_and] at hg
      obtain ⟨h1, h2⟩ := hg
      subst h1 h2
      refine ⟨by rw [hin]; simp [rc, hr', norm_nil], rfl, hr', hst, ?_, m.ignoreLf, ?_⟩
      · unfold InpRel; rw [hst, hin]; rfl
      · cases m; simp [readerUpd] at hr' ⊢; exact hr'
    | cons c0 inp0 =>
      simp only at hg
      unfold preprocess at hg
      by_cases hil : m.ignoreLf = true
      · simp only [hil, if_true] at hg
        by_cases hc : c0 = '\n'
        · subst hc
          simp only [if_true] at hg
          cases inp0 with
          | nil =>
            simp only [Prod.mk.injEq, true_and] at hg
            obtain ⟨h1, h2⟩ := hg
            subst h1 h2
            have hst' : stash (m.setIgnoreLf false) = [] := by
              rw [stash_congr (m := m) (m' := m.setIgnoreLf false) rfl rfl rfl]; exact hst
            refine ⟨by rw [hin]; simp [rc, hr', hil, norm_lf_true, norm_nil], rfl, hr', hst', ?_, false, ?_⟩
            · unfold InpRel; rw [hst', hin]
              simp [rc, hr', hil, norm_lf_true, norm_nil, Mach.setIgnoreLf]
            · cases m; simp [readerUpd, Mach.setIgnoreLf] at hr' ⊢; exact hr'
          | cons c' r => simp at hg
        · simp [hc] at hg
      · have hil' : m.ignoreLf = false := by simpa using hil
        simp [hil'] at hg

/-! ## `pop_except_from` and the data state's read -/

/-- result of a bulk read: a character of the set read like `get_char`, or a one-character run of
plain text (fast path: no pending `reconsume`/`ignore_lf`) -/
def SetReadOk (S : List Char) (m : Mach) (inp : Str) (rest : Str) (r : SetRes) (m1 : Mach) (inp1 : Str) : Prop :=
  (∃ c, r = .fromSet c ∧ ReadOk m rest c m1 inp1) ∨
  (∃ c, r = .notFromSet [c] ∧ c ∉ S ∧ m.reconsume = false ∧ m.ignoreLf = false ∧ m1 = m ∧ inp = c :: inp1 ∧
    rest = c :: normalizeNewlinesFrom false inp1)

theorem popExceptFrom_rel (o : Opts) (ho : o.exactErrors = false) (S : List Char)
    (hS : '\r' ∈ S ∧ '\n' ∈ S) (m : Mach) (inp : Str) (r : SetRes) (m1 : Mach) (inp1 : Str)
    (h : popExceptFrom o S m inp = (some r, m1, inp1)) (hst : stash m = []) (rest : Str)
    (hin : InpRel m inp rest) : SetReadOk S m inp rest r m1 inp1 := by
  unfold popExceptFrom at h
  by_cases hslow : (o.exactErrors || m.reconsume || m.ignoreLf) = true
  · simp only [hslow, if_true] at h
    cases hg : getChar o m inp with
    | mk oc rest2 =>
      obtain ⟨m2, i2⟩ := rest2
      rw [hg] at h
      cases oc with
      | none => simp at h
      | some c =>
        simp only [Option.map_some, Prod.mk.injEq, Option.some.injEq] at h
        obtain ⟨h1, h2, h3⟩ := h
        subst h1 h2 h3
        exact Or.inl ⟨c, rfl, getChar_rel o ho m inp c m2 i2 hg hst rest hin⟩
  · simp only [hslow, Bool.false_eq_true, if_false] at h
    simp only [ho, Bool.false_or, Bool.or_eq_true, not_or, Bool.not_eq_true] at hslow
    obtain ⟨hr, hil⟩ := hslow
    cases inp with
    | nil => simp at h
    | cons c0 inp0 =>
      simp only at h
      by_cases hc : S.contains c0 = true
      · simp only [hc, if_true] at h
        cases hp : preprocess o m c0 inp0 with
        | mk oc rest2 =>
          obtain ⟨m2, i2⟩ := rest2
          rw [hp] at h
          cases oc with
          | none => simp at h
          | some c =>
            simp only [Option.map_some, Prod.mk.injEq, Option.some.injEq] at h
            obtain ⟨h1, h2, h3⟩ := h
            subst h1 h2 h3
            have := preprocess_rel o ho m c0 inp0 hr c m2 i2 hp
            unfold InpRel at hin
            rw [hst, List.nil_append] at hin
            refine Or.inl ⟨c, rfl, ?_⟩
            rw [hin]; simpa [rc, hr] using this
      · simp only [hc, Bool.false_eq_true, if_false, Prod.mk.injEq, Option.some.injEq] at h
        obtain ⟨h1, h2, h3⟩ := h
        subst h1 h2 h3
        have hnot : c0 ∉ S := by simpa using hc
        have h1 : c0 ≠ '\r' := fun e => hnot (e ▸ hS.1)
        have h2 : c0 ≠ '\n' := fun e => hnot (e ▸ hS.2)
        unfold InpRel at hin
        rw [hst, List.nil_append] at hin
        refine Or.inr ⟨c0, rfl, hnot, hr, hil, rfl, rfl, ?_⟩
        rw [hin, hil, norm_other false c0 inp0 h1 h2]
        simp [rc, hr]

theorem readData_rel (o : Opts) (ho : o.exactErrors = false) (m : Mach) (inp : Str) (r : SetRes) (m1 : Mach)
    (inp1 : Str) (h : readData o m inp = (some r, m1, inp1)) (hst : stash m = []) (rest : Str)
    (hin : InpRel m inp rest) : SetReadOk (setOf .data) m inp rest r m1 inp1 := by
  have hS : '\r' ∈ setOf .data ∧ '\n' ∈ setOf .data := by decide
  unfold readData at h
  by_cases hslow : (o.exactErrors || m.reconsume || m.ignoreLf) = true
  · simp only [hslow, if_true] at h
    exact popExceptFrom_rel o ho _ hS m inp r m1 inp1 h hst rest hin
  · simp only [hslow, Bool.false_eq_true, if_false] at h
    simp only [ho, Bool.false_or, Bool.or_eq_true, not_or, Bool.not_eq_true] at hslow
    obtain ⟨hr, hil⟩ := hslow
    cases inp with
    | nil => simp at h
    | cons c0 inp0 =>
      simp only at h
      by_cases hc : simdFirst.contains c0 = true
      · simp only [hc, if_true] at h
        exact popExceptFrom_rel o ho _ hS m (c0 :: inp0) r m1 inp1 h hst rest hin
      · simp only [hc, Bool.false_eq_true, if_false, Prod.mk.injEq, Option.some.injEq] at h
        obtain ⟨h1, h2, h3⟩ := h
        have hnot : c0 ∉ setOf .data := by
          have : c0 ∉ simdFirst := by simpa using hc
          exact this
        have hn1 : c0 ≠ '\r' := fun e => hnot (e ▸ hS.1)
        have hn2 : c0 ≠ '\n' := fun e => hnot (e ▸ hS.2)
        simp only [hn2, if_false] at h2
        subst h1 h2 h3
        unfold InpRel at hin
        rw [hst, List.nil_append] at hin
        refine Or.inr ⟨c0, rfl, hnot, hr, hil, rfl, rfl, ?_⟩
        rw [hin, hil, norm_other false c0 inp0 hn1 hn2]
        simp [rc, hr]

/-- a bulk read finds nothing: like `get_char` -/
theorem popExceptFrom_none_rel (o : Opts) (S : List Char) (m : Mach) (inp : Str) (m1 : Mach) (inp1 : Str)
    (h : popExceptFrom o S m inp = (none, m1, inp1)) (hst : stash m = []) (rest : Str)
    (hin : InpRel m inp rest) :
    rest = [] ∧ inp1 = [] ∧ m1.reconsume = false ∧ stash m1 = [] ∧ InpRel m1 inp1 rest ∧
      ∃ il, m1 = readerUpd m il false m.line m.currentChar := by
  unfold popExceptFrom at h
  by_cases hslow : (o.exactErrors || m.reconsume || m.ignoreLf) = true
  · simp only [hslow, if_true] at h
    cases hg : getChar o m inp with
    | mk oc rest2 =>
      obtain ⟨m2, i2⟩ := rest2
      rw [hg] at h
      cases oc with
      | some c => simp at h
      | none =>
        simp only [Option.map_none, Prod.mk.injEq, true_and] at h
        obtain ⟨h2, h3⟩ := h
        subst h2 h3
        exact getChar_none_rel o m inp m2 i2 hg hst rest hin
  · simp only [hslow, Bool.false_eq_true, if_false] at h
    simp only [Bool.or_eq_true, not_or, Bool.not_eq_true] at hslow
    obtain ⟨⟨_, hr⟩, hil⟩ := hslow
    cases inp with
    | nil =>
      simp only [Prod.mk.injEq, true_and] at h
      obtain ⟨h2, h3⟩ := h
      subst h2 h3
      unfold InpRel at hin ⊢
      rw [hst, List.nil_append] at hin
      refine ⟨by rw [hin]; simp [rc, hr, norm_nil], rfl, hr, hst, by rw [hst, hin]; rfl, m.ignoreLf, ?_⟩
      cases m; simp [readerUpd] at hr ⊢; exact hr
    | cons c0 inp0 =>
      simp only at h
      by_cases hc : S.contains c0 = true
      · simp only [hc, if_true] at h
        have hnone : (preprocess o m c0 inp0).1 = none := by
          cases hp : (preprocess o m c0 inp0).1 with
          | none => rfl
          | some c => rw [hp] at h; simp at h
        unfold preprocess at hnone
        simp [hil] at hnone
      · have hc' : c0 ∉ S := by simpa using hc
        simp [hc'] at h

theorem readData_none_rel (o : Opts) (m : Mach) (inp : Str) (m1 : Mach) (inp1 : Str)
    (h : readData o m inp = (none, m1, inp1)) (hst : stash m = []) (rest : Str)
    (hin : InpRel m inp rest) :
    rest = [] ∧ inp1 = [] ∧ m1.reconsume = false ∧ stash m1 = [] ∧ InpRel m1 inp1 rest ∧
      ∃ il, m1 = readerUpd m il false m.line m.currentChar := by
  unfold readData at h
  by_cases hslow : (o.exactErrors || m.reconsume || m.ignoreLf) = true
  · simp only [hslow, if_true] at h
    exact popExceptFrom_none_rel o _ m inp m1 inp1 h hst rest hin
  · simp only [hslow, Bool.false_eq_true, if_false] at h
    cases inp with
    | nil =>
      have : popExceptFrom o (setOf .data) m [] = (none, m1, inp1) := by
        unfold popExceptFrom; simp only [hslow, Bool.false_eq_true, if_false]; exact h
      exact popExceptFrom_none_rel o _ m [] m1 inp1 this hst rest hin
    | cons c0 inp0 =>
      simp only at h
      by_cases hc : simdFirst.contains c0 = true
      · simp only [hc, if_true] at h
        exact popExceptFrom_none_rel o _ m (c0 :: inp0) m1 inp1 h hst rest hin
      · have hc' : c0 ∉ simdFirst := by simpa using hc
        simp [hc'] at h

end H5V.Lemmas.HtmlTokSpec
