import H5V.Lemmas.HtmlTBAlgoPrim
/-!
(i), (j), (k): the appropriate place for inserting a node, insert an HTML / foreign element,
insert a character / a comment — the model's helpers against `H5V.Spec.TreeAlgo2`.
-/
namespace H5V.Lemmas.HtmlTBAlgo
open H5V.Model.HtmlTB
open H5V.Model.Dom (Id SinkOp Output Dom QualName Attr NodeOrText ElementFlags NodeData)
open H5V.Lemmas.Dom
open H5V.Lemmas.HtmlTBSpec (NamesOk toName)
open H5V.Spec.TreeAlgo2
open H5V.Spec.TreeAlgo (Name)

/-! ### the spec side: the foster-parenting substeps as a scan from the current node upwards -/
section Scan
variable {N : Type}

theorem lastPos_lt (p : Elem N → Bool) : ∀ (l : List (Elem N)) (i : Nat), lastPos p l = some i → i < l.length := by
  intro l
  induction l with
  | nil => intro i h; simp [lastPos] at h
  | cons e rest ih =>
    intro i h
    simp only [lastPos] at h
    cases hr : lastPos p rest with
    | some j =>
      simp only [hr, Option.some.injEq] at h
      have := ih j hr
      simp; omega
    | none =>
      simp only [hr] at h
      by_cases hp : p e = true
      · simp [hp] at h; simp; omega
      · simp [hp] at h

theorem lastPos_none (p : Elem N → Bool) : ∀ (l : List (Elem N)), (∀ e ∈ l, p e = false) → lastPos p l = none := by
  intro l
  induction l with
  | nil => intro _; rfl
  | cons e rest ih =>
    intro h
    simp only [lastPos]
    rw [ih (fun x hx => h x (List.mem_cons_of_mem _ hx))]
    simp [h e (List.mem_cons_self ..)]

theorem lastPos_append_none (p : Elem N → Bool) (r : List (Elem N)) (hr : ∀ e ∈ r, p e = false) :
    ∀ (l : List (Elem N)), lastPos p (l ++ r) = lastPos p l := by
  intro l
  induction l with
  | nil => simpa [lastPos] using lastPos_none p r hr
  | cons e rest ih => simp only [List.cons_append, lastPos, ih]

theorem lastPos_snoc (p : Elem N → Bool) (x : Elem N) :
    ∀ (l : List (Elem N)), lastPos p (l ++ [x]) = if p x then some l.length else lastPos p l := by
  intro l
  induction l with
  | nil => simp [lastPos]
  | cons e rest ih =>
    simp only [List.cons_append, lastPos, ih]
    by_cases hp : p x = true
    · simp [hp]
    · simp [hp]

def fosterScan (full : List (Elem N)) : List (Elem N) → Option (Place N)
  | [] => full.head?.map inside
  | x :: rest =>
    if x.name.isHtml "template" then some (.inTemplateContentsOf x.id)
    else if x.name.isHtml "table" then rest.head?.map (fun prev => Place.foster x prev)
    else fosterScan full rest

theorem isHtml_excl (n : Name) (h : n.isHtml "template" = true) : n.isHtml "table" = false := by
  unfold Name.isHtml at *
  simp only [Bool.and_eq_true, beq_iff_eq] at h
  have : (n.loc == "table".toList) = false := by rw [h.2]; decide
  rw [this]; simp

theorem fosterPlace_eq_scan : ∀ (lr r : List (Elem N)),
    (∀ e ∈ r, e.name.isHtml "template" = false ∧ e.name.isHtml "table" = false) →
    fosterPlace (lr.reverse ++ r) = fosterScan (lr.reverse ++ r) lr := by
  intro lr
  induction lr with
  | nil =>
    intro r hr
    simp only [List.reverse_nil, List.nil_append, fosterPlace, fosterScan]
    rw [lastPos_none _ r (fun e he => (hr e he).1), lastPos_none _ r (fun e he => (hr e he).2)]
  | cons x lr ih =>
    intro r hr
    have hfull : (x :: lr).reverse ++ r = lr.reverse ++ (x :: r) := by simp
    by_cases htp : x.name.isHtml "template" = true
    · have htb := isHtml_excl _ htp
      simp only [fosterScan, htp, if_true]
      unfold fosterPlace
      have e1 : lastPos (fun e => e.name.isHtml "template") ((x :: lr).reverse ++ r) = some lr.length := by
        rw [lastPos_append_none _ r (fun e he => (hr e he).1), List.reverse_cons, lastPos_snoc]; simp [htp]
      have e2 : lastPos (fun e => e.name.isHtml "table") ((x :: lr).reverse ++ r)
          = lastPos (fun e => e.name.isHtml "table") lr.reverse := by
        rw [lastPos_append_none _ r (fun e he => (hr e he).2), List.reverse_cons, lastPos_snoc]; simp [htb]
      have eg : ((x :: lr).reverse ++ r)[lr.length]? = some x := by simp
      simp only [e1, e2]
      cases h2 : lastPos (fun e => e.name.isHtml "table") lr.reverse with
      | none => simp [eg]
      | some tb =>
        have := lastPos_lt _ _ _ h2
        simp at this
        simp [this, eg]
    · by_cases htb : x.name.isHtml "table" = true
      · simp only [fosterScan, htp, htb, if_true, Bool.false_eq_true, if_false]
        unfold fosterPlace
        have e1 : lastPos (fun e => e.name.isHtml "table") ((x :: lr).reverse ++ r) = some lr.length := by
          rw [lastPos_append_none _ r (fun e he => (hr e he).2), List.reverse_cons, lastPos_snoc]; simp [htb]
        have e2 : lastPos (fun e => e.name.isHtml "template") ((x :: lr).reverse ++ r)
            = lastPos (fun e => e.name.isHtml "template") lr.reverse := by
          rw [lastPos_append_none _ r (fun e he => (hr e he).1), List.reverse_cons, lastPos_snoc]; simp [htp]
        have eg : ((x :: lr).reverse ++ r)[lr.length]? = some x := by simp
        simp only [e1, e2]
        have tc : (if lr.length = 0 then none
            else (((x :: lr).reverse ++ r)[lr.length]?).bind fun t =>
              (((x :: lr).reverse ++ r)[lr.length - 1]?).map fun prev => Place.foster t prev)
            = lr.head?.map (fun prev => Place.foster x prev) := by
          cases lr with
          | nil => simp
          | cons y lr' =>
            have : ((x :: y :: lr').reverse ++ r)[(y :: lr').length - 1]? = some y := by simp
            simp [eg, this]
        cases h2 : lastPos (fun e => e.name.isHtml "template") lr.reverse with
        | none => simp only []; exact tc
        | some tp =>
          have := lastPos_lt _ _ _ h2
          simp at this
          have hnot : ¬ (lr.length < tp) := by omega
          simp only [hnot, if_false]; exact tc
      · have hx : x.name.isHtml "template" = false ∧ x.name.isHtml "table" = false := by
          simp [htp, htb]
        simp only [fosterScan, htp, htb, Bool.false_eq_true, if_false]
        rw [hfull]
        exact ih (x :: r) (fun e he => by
          cases he with
          | head => exact hx
          | tail _ h => exact hr e h)
end Scan

/-! ### the model side -/

/-- the model's `InsertionPoint` for a place of the standard (`tc`: template contents) -/
def ipOf (tc : Id → Id) : Place Id → InsertionPoint
  | .lastChildOf x => .lastChild x
  | .inTemplateContentsOf x => .lastChild (tc x)
  | .foster t prev => .tableFosterParenting t.id prev.id

theorem QueryQ.extend {α : Type} {s s1 : State} {c1 : List Call} (hs : SameTB s s1) (hc : edits c1 = [])
    {w a : α} {s2 : State} {c2 : List Call} (h : QueryQ s1 w a s2 c2) : QueryQ s w a s2 (c1 ++ c2) :=
  ⟨h.1, hs.trans h.2.1, by rw [edits_append, hc, h.2.2]; rfl⟩

/-- a query followed by a query -/
theorem tot_query_query {α β : Type} {m : M α} {f : α → M β} {s : State} {v : α} {w : β}
    (hm : Tot m s (QueryQ s v))
    (hf : ∀ s1 c1, Ext s c1 s1 → SameTB s s1 → Tot (f v) s1 (QueryQ s1 w)) : Tot (m >>= f) s (QueryQ s w) :=
  tot_query_bind hm fun s1 c1 he hs hc => tot_conseq (hf s1 c1 he hs) fun _ _ _ _ h => QueryQ.extend hs hc h

theorem SameTB.openElems {s s' : State} (h : SameTB s s') : s'.openElems = s.openElems := by
  unfold SameTB at h; rw [h]
theorem SameTB.activeFormatting {s s' : State} (h : SameTB s s') : s'.activeFormatting = s.activeFormatting := by
  unfold SameTB at h; rw [h]
theorem SameTB.fosterParenting {s s' : State} (h : SameTB s s') : s'.fosterParenting = s.fosterParenting := by
  unfold SameTB at h; rw [h]
theorem SameTB.formElem {s s' : State} (h : SameTB s s') : s'.formElem = s.formElem := by
  unfold SameTB at h; rw [h]

theorem tcOf_stable {d d' : Dom} (hs : Stable d d') {h : Id} (he : d.isElement h = true) : tcOf d' h = tcOf d h := by
  unfold tcOf Dom.templateContentsOf; rw [hs.data h he]

theorem tot_htmlElem {s : State} {h : Id} (hh : s.openElems.head? = some h) : Tot htmlElem s (QueryQ s h) := by
  unfold htmlElem
  refine tot_getS_bind ?_
  simp only [hh]
  exact tot_pure ⟨rfl, SameTB.refl s, rfl⟩

theorem tot_currentNode {s : State} {h : Id} (hh : s.openElems.getLast? = some h) : Tot currentNode s (QueryQ s h) := by
  unfold currentNode
  refine tot_getS_bind ?_
  simp only [hh]
  exact tot_pure ⟨rfl, SameTB.refl s, rfl⟩

theorem elemOf_isHtml (d : Dom) (h : Id) (name : String) :
    (elemOf d h).name.isHtml name = ((nameOf d h).ns == nsHtml && (nameOf d h).loc == name.toList) := rfl

/-- the loop of `appropriate_place_for_insertion` is the scan -/
theorem tot_fosterLoop (d0 : Dom) (full : List Id) (hok : ElemsOk d0 full) :
    ∀ (l pre : List Id) (s : State), full.reverse = pre ++ l →
      (∀ h ∈ pre, (elemOf d0 h).name.isHtml "template" = false) →
      s.openElems = full → Stable d0 s.dom →
      ∀ place, fosterScan (absStack d0 full) (absStack d0 l) = some place →
      Tot (fosterLoop l) s (QueryQ s (ipOf (tcOf d0) place)) := by
  intro l
  induction l with
  | nil =>
    intro pre s hfull hpre hopen hst place hscan
    simp only [absStack, List.map_nil, fosterScan, List.head?_map] at hscan
    cases hf : full with
    | nil => simp [hf] at hscan
    | cons h0 rest =>
      simp only [hf, List.head?_cons, Option.map_some, Option.some.injEq] at hscan
      have hmem : h0 ∈ pre := by
        have : h0 ∈ full.reverse := by rw [hf]; simp
        rw [hfull] at this; simpa using this
      have hnt := hpre h0 hmem
      unfold inside at hscan
      rw [hnt] at hscan
      simp only [Bool.false_eq_true, if_false] at hscan
      subst hscan
      unfold fosterLoop
      refine tot_query_query (tot_htmlElem (by rw [hopen, hf]; rfl)) fun s1 c1 _ hs => ?_
      exact tot_pure ⟨rfl, SameTB.refl _, rfl⟩
  | cons x rest ih =>
    intro pre s hfull hpre hopen hst place hscan
    have hx : x ∈ full := by
      have : x ∈ full.reverse := by rw [hfull]; simp
      simpa using this
    have hxe := hok x hx
    have hnx : nameOf s.dom x = nameOf d0 x := nameOf_stable hst hxe
    simp only [absStack, List.map_cons, fosterScan] at hscan
    unfold fosterLoop
    refine tot_query_query (tot_htmlElemNamed s x "template") fun s1 c1 he1 hs1 => ?_
    have e1 : (elemOf s.dom x).name.isHtml "template" = (elemOf d0 x).name.isHtml "template" := by
      rw [elemOf_isHtml, elemOf_isHtml, hnx]
    rw [e1]
    by_cases htp : (elemOf d0 x).name.isHtml "template" = true
    · simp only [htp, if_true] at hscan ⊢
      simp only [Option.some.injEq] at hscan
      subst hscan
      refine tot_query_query (tot_getTemplateContents s1 x) fun s2 c2 _ hs2 => ?_
      have : tcOf s1.dom x = tcOf d0 x := tcOf_stable (hst.trans he1.stable) hxe
      rw [this]
      exact tot_pure ⟨rfl, SameTB.refl _, rfl⟩
    · simp only [htp, Bool.false_eq_true, if_false] at hscan ⊢
      refine tot_query_query (tot_htmlElemNamed s1 x "table") fun s2 c2 he2 hs2 => ?_
      have hst1 : Stable d0 s1.dom := hst.trans he1.stable
      have e2 : (elemOf s1.dom x).name.isHtml "table" = (elemOf d0 x).name.isHtml "table" := by
        rw [elemOf_isHtml, elemOf_isHtml, nameOf_stable hst1 hxe]
      rw [e2]
      by_cases htb : (elemOf d0 x).name.isHtml "table" = true
      · simp only [htb, if_true] at hscan ⊢
        cases rest with
        | nil => simp at hscan
        | cons prev rest' =>
          simp only [List.map_cons, List.head?_cons, Option.map_some, Option.some.injEq] at hscan
          subst hscan
          exact tot_pure ⟨rfl, SameTB.refl _, rfl⟩
      · simp only [htb, Bool.false_eq_true, if_false] at hscan ⊢
        have hst2 : Stable d0 s2.dom := hst1.trans he2.stable
        refine ih (pre ++ [x]) s2 (by rw [hfull]; simp) ?_ ?_ hst2 place hscan
        · intro h hh
          rcases List.mem_append.mp hh with h1 | h1
          · exact hpre h h1
          · simp at h1; subst h1; simpa using htp
        · rw [hs2.openElems, hs1.openElems]; exact hopen

theorem tot_elemIn' (s : State) (h : Id) (set : EName → Bool) :
    Tot (elemIn h set) s (fun b s' calls => (b = set (nameOf s.dom h) ∧ s.dom.isElement h = true) ∧ SameTB s s' ∧ edits calls = []) := by
  unfold elemIn
  refine tot_bind (tot_conseq (tot_elemName s h) fun n s1 c1 _ ⟨⟨hn, he⟩, hs, hc⟩ => ?_)
  subst hn
  exact tot_pure ⟨⟨rfl, he⟩, hs, by simp [hc]⟩

theorem fosterTarget_eq (n : EName) :
    fosterTarget n = Spec.TreeAlgo.inHtml Spec.TreeTables.fosterTarget (toName n) := rfl

theorem absStack_reverse (d : Dom) (l : List Id) : (absStack d l).reverse = absStack d l.reverse := by
  simp [absStack]

theorem absStack_getLast? (d : Dom) (l : List Id) : (absStack d l).getLast? = l.getLast?.map (elemOf d) := by
  simp [absStack]

/-- the second half of `appropriate_place_for_insertion`, once `foster` is known -/
def apfiFinish (target : Id) (foster : Bool) : M InsertionPoint := do
  if !foster then
    if ← htmlElemNamed target "template" then
      let contents ← sinkNode (.getTemplateContents target)
      pure (.lastChild contents)
    else pure (.lastChild target)
  else fosterLoop (← getS).openElems.reverse

/-- `appropriate_place_for_insertion` after the target is known -/
def apfiRest (target : Id) : M InsertionPoint := do
  let foster ← if (← getS).fosterParenting then elemIn target fosterTarget else pure false
  apfiFinish target foster

theorem apfi_eq (ov : Option Id) :
    appropriatePlaceForInsertion ov = (match ov with | some t => pure t | none => currentNode) >>= apfiRest := by
  cases ov <;> rfl

theorem tot_apfiFinish (s : State) (t : Id) (hok : ElemsOk s.dom s.openElems) (hte : s.dom.isElement t = true)
    (place : Place Id)
    (hspec : (if (s.fosterParenting && Spec.TreeAlgo.inHtml Spec.TreeTables.fosterTarget (elemOf s.dom t).name) = true
        then fosterPlace (absStack s.dom s.openElems) else some (inside (elemOf s.dom t))) = some place)
    (s2 : State) (c : List Call) (he2 : Ext s c s2) (hs2 : SameTB s s2) :
    Tot (apfiFinish t (s.fosterParenting && Spec.TreeAlgo.inHtml Spec.TreeTables.fosterTarget (elemOf s.dom t).name)) s2
      (QueryQ s2 (ipOf (tcOf s.dom) place)) := by
  have hst2 := he2.stable
  unfold apfiFinish
  by_cases hf : (s.fosterParenting && Spec.TreeAlgo.inHtml Spec.TreeTables.fosterTarget (elemOf s.dom t).name) = true
  · simp only [hf, if_true, Bool.not_true, Bool.false_eq_true, if_false] at hspec ⊢
    refine tot_getS_bind ?_
    rw [hs2.openElems]
    have hscan := fosterPlace_eq_scan (absStack s.dom s.openElems).reverse [] (by simp)
    simp only [List.reverse_reverse, List.append_nil] at hscan
    rw [hscan, absStack_reverse] at hspec
    exact tot_fosterLoop s.dom s.openElems hok s.openElems.reverse [] s2 (by simp) (by simp) hs2.openElems hst2 place hspec
  · simp only [hf, Bool.false_eq_true, if_false, Bool.not_false, if_true] at hspec ⊢
    simp only [Option.some.injEq] at hspec
    subst hspec
    refine tot_query_query (tot_htmlElemNamed s2 t "template") fun s3 c3 he3 hs3 => ?_
    have e1 : (elemOf s2.dom t).name.isHtml "template" = (elemOf s.dom t).name.isHtml "template" := by
      rw [elemOf_isHtml, elemOf_isHtml, nameOf_stable hst2 hte]
    rw [e1]
    unfold inside
    by_cases htp : (elemOf s.dom t).name.isHtml "template" = true
    · simp only [htp, if_true]
      refine tot_query_query (tot_getTemplateContents s3 t) fun s4 c4 _ hs4 => ?_
      have : tcOf s3.dom t = tcOf s.dom t := tcOf_stable (hst2.trans he3.stable) hte
      rw [this]
      exact tot_pure ⟨rfl, SameTB.refl _, rfl⟩
    · simp only [htp, Bool.false_eq_true, if_false]
      exact tot_pure ⟨rfl, SameTB.refl _, rfl⟩

/-- **(i)** `appropriate_place_for_insertion(override_target)` answers the standard's appropriate
place for inserting a node -/
theorem tot_appropriatePlace (s : State) (ov : Option Id) (hok : ElemsOk s.dom s.openElems)
    (hov : ∀ t, ov = some t → s.dom.isElement t = true) (place : Place Id)
    (hspec : appropriatePlace (absStack s.dom s.openElems) s.fosterParenting (ov.map (elemOf s.dom)) = some place) :
    Tot (appropriatePlaceForInsertion ov) s (QueryQ s (ipOf (tcOf s.dom) place)) := by
  -- the target
  obtain ⟨t, htq, hte, hspec⟩ : ∃ t, Tot (match ov with | some t => pure t | none => currentNode) s (QueryQ s t) ∧
      s.dom.isElement t = true ∧
      (if (s.fosterParenting && Spec.TreeAlgo.inHtml Spec.TreeTables.fosterTarget (elemOf s.dom t).name) = true
        then fosterPlace (absStack s.dom s.openElems) else some (inside (elemOf s.dom t))) = some place := by
    unfold appropriatePlace at hspec
    cases ov with
    | some t =>
      refine ⟨t, tot_pure ⟨rfl, SameTB.refl s, rfl⟩, hov t rfl, ?_⟩
      simpa using hspec
    | none =>
      rw [absStack_getLast?] at hspec
      cases hl : s.openElems.getLast? with
      | none => simp [hl] at hspec
      | some t =>
        refine ⟨t, tot_currentNode hl, hok t (List.mem_of_getLast? hl), ?_⟩
        simpa [hl] using hspec
  rw [apfi_eq]
  refine tot_query_query htq fun s1 c1 he1 hs1 => ?_
  unfold apfiRest
  refine tot_getS_bind ?_
  rw [hs1.fosterParenting]
  have hst1 := he1.stable
  have hn1 : nameOf s1.dom t = nameOf s.dom t := nameOf_stable hst1 hte
  by_cases hfp : s.fosterParenting = true
  · simp only [hfp, if_true]
    refine tot_bind (tot_conseq (tot_elemIn' s1 t fosterTarget) fun b s2 c2 he2 ⟨⟨hb, _⟩, hs2, hc2⟩ => ?_)
    subst hb
    rw [hn1, fosterTarget_eq]
    have := tot_apfiFinish s t hok hte place hspec s2 (c1 ++ c2) (he1.trans he2) (hs1.trans hs2)
    simp only [hfp, Bool.true_and] at this
    exact tot_conseq this fun _ _ _ _ h => QueryQ.extend hs2 hc2 h
  · have hfp' : s.fosterParenting = false := by simpa using hfp
    simp only [hfp', Bool.false_eq_true, if_false]
    refine tot_bind (tot_pure ?_)
    have := tot_apfiFinish s t hok hte place hspec s1 c1 he1 hs1
    simp only [hfp', Bool.false_and] at this
    exact tot_conseq this fun _ _ _ _ h => QueryQ.extend (SameTB.refl _) rfl h

/-! ### inserting -/

/-- the sink call that inserts `child` at the model's insertion point -/
def insertOp (ip : InsertionPoint) (child : NodeOrText) : SinkOp :=
  match ip with
  | .lastChild p => .append p child
  | .beforeSibling sib => .appendBeforeSibling sib child
  | .tableFosterParenting e p => .appendBasedOnParentNode e p child

/-- the `TreeSink` call(s) for an entry of the standard's log of DOM operations (`tc`: the template
contents of template elements) -/
def editCall (tc : Id → Id) : Edit Id Tag → Call
  | .create new ns tok => createCall ns tok new
  | .associateForm elem form place =>
    (.associateWithForm elem form (ipOf tc place).nodes.1 (ipOf tc place).nodes.2, .unit)
  | .insert place child => (insertOp (ipOf tc place) (.node child), .unit)
  | .insertText place text => (insertOp (ipOf tc place) (.text text), .unit)
  | .createComment new text => (.createComment text, .node new)
  | .remove node => (.removeFromParent node, .unit)
  | .moveChildren src dst => (.reparentChildren src dst, .unit)

/-- `tc` gives the template contents of the elements of `d` -/
def TcOk (d : Dom) (tc : Id → Id) : Prop := ∀ x, d.isElement x = true → tc x = tcOf d x

theorem TcOk.self (d : Dom) : TcOk d (tcOf d) := fun _ _ => rfl

theorem TcOk.of_stable {d d' : Dom} {tc : Id → Id} (h : TcOk d' tc) (hs : Stable d d') : TcOk d tc :=
  fun x hx => by rw [h x (isElement_stable hs hx), tcOf_stable hs hx]

theorem apply_insertOp_out {d d' : Dom} {ip : InsertionPoint} {child : NodeOrText} {out : Output}
    (h : d.apply (insertOp ip child) = .ok (d', out)) : out = .unit := by
  cases ip <;> simp only [insertOp] at h <;> unfold Dom.apply Dom.applyV at h <;>
    simp only [bind, Except.bind] at h <;> split at h <;> simp at h <;> exact h.2.symm

theorem tame_insertOp (ip : InsertionPoint) (child : NodeOrText) : Tame (insertOp ip child) := by
  cases ip <;> exact trivial

theorem tot_insertAt (s : State) (ip : InsertionPoint) (child : NodeOrText) :
    Tot (insertAt ip child) s (fun _ s' calls => SameTB s s' ∧ calls = [(insertOp ip child, .unit)]) := by
  have h := tot_sinkUnit (op := insertOp ip child) s (tame_insertOp ip child)
  have e : insertAt ip child = sinkUnit (insertOp ip child) := by cases ip <;> rfl
  rw [e]
  refine tot_conseq h fun _ s' calls _ ⟨d', out, ha, hs, hc⟩ => ?_
  have := apply_insertOp_out ha
  subst this
  exact ⟨hs ▸ SameTB.afterCall .., hc⟩

theorem tot_anyHtmlElemNamed (d0 : Dom) (name : String) : ∀ (l : List Id) (s : State), ElemsOk d0 l → Stable d0 s.dom →
    Tot (anyHtmlElemNamed name l) s (QueryQ s ((absStack d0 l).any fun e => e.name.isHtml name)) := by
  intro l
  induction l with
  | nil => intro s _ _; exact tot_pure ⟨rfl, SameTB.refl _, rfl⟩
  | cons x rest ih =>
    intro s hok hst
    unfold anyHtmlElemNamed
    refine tot_query_query (tot_htmlElemNamed s x name) fun s1 c1 he1 hs1 => ?_
    have e1 : (elemOf s.dom x).name.isHtml name = (elemOf d0 x).name.isHtml name := by
      rw [elemOf_isHtml, elemOf_isHtml, nameOf_stable hst (hok x (List.mem_cons_self ..))]
    rw [e1]
    simp only [absStack, List.map_cons, List.any_cons]
    by_cases hx : (elemOf d0 x).name.isHtml name = true
    · simp only [hx, if_true, Bool.true_or]; exact tot_pure ⟨rfl, SameTB.refl _, rfl⟩
    · simp only [hx, Bool.false_eq_true, if_false, Bool.false_or]
      exact ih s1 (fun y hy => hok y (List.mem_cons_of_mem _ hy)) (hst.trans he1.stable)

theorem tot_inHtmlElemNamed_place (s : State) (name : String) (hok : ElemsOk s.dom s.openElems) :
    Tot (inHtmlElemNamed name) s (QueryQ s ((absStack s.dom s.openElems).any fun e => e.name.isHtml name)) := by
  unfold inHtmlElemNamed
  refine tot_getS_bind ?_
  exact tot_anyHtmlElemNamed s.dom name s.openElems s hok (Stable.refl _)

theorem formAssociatable_eq (n : EName) :
    formAssociatable n = Spec.TreeAlgo.inHtml formAssociatedElements (toName n) := rfl

theorem listed_eq (n : EName) : listed n = Spec.TreeAlgo.inHtml listedElements (toName n) := by
  unfold listed formAssociatable htmlIn Spec.TreeAlgo.inHtml listedElements isOneOf toName
  by_cases hns : (n.ns == nsHtml) = true
  · have hns' : (n.ns == Spec.TreeAlgo.nsHtml) = true := hns
    simp only [hns, hns', Bool.true_and, List.any_cons, List.any_nil, Bool.or_false]
    by_cases himg : "img".toList = n.loc
    · rw [← himg]; decide
    · have : ("img".toList == n.loc) = false := by
        rw [beq_eq_false_iff_ne]; exact himg
      simp only [this, Bool.or_false, Bool.false_eq_true, if_false]
  · have hns2 : (n.ns == nsHtml) = false := by simpa using hns
    have hns' : (n.ns == Spec.TreeAlgo.nsHtml) = false := hns2
    simp only [hns', hns2, Bool.false_and, Bool.false_eq_true, if_false]

/-! `insert_element`, cut into chunks at the statements that are followed by a continuation (the
`do` notation pushes the continuation into the branches of an `if`/`match`; the chunks keep these
continuations small) -/

def ieTail3 (pushIt : Bool) (elem : Id) : M Id := do
  if pushIt then push elem
  pure elem

def ieTail2 (pushIt : Bool) (ip : InsertionPoint) (elem : Id) : M Id := do
  insertAt ip (.node elem)
  ieTail3 pushIt elem

/-- `insert_element` from the creation of the element on (`n1`, `n2` = `ip.nodes`) -/
def ieTail (pushIt : Bool) (ns name : Str) (attrs : List Attr) (hadDup : Bool) (ip : InsertionPoint) (n1 : Id)
    (n2 : Option Id) (formIsAssociatable : Bool) : M Id := do
  let elem ← createElementWithFlags { pfx := none, ns := ns, loc := name } attrs hadDup
  if formIsAssociatable then
    match (← getS).formElem with
    | some form => sinkUnit (.associateWithForm elem form n1 n2)
    | none => panicAt "unwrap-none" "mod.rs:1401" "form_elem unwrap"
  ieTail2 pushIt ip elem

def ieMain (pushIt : Bool) (ns name : Str) (attrs : List Attr) (hadDup : Bool) : M Id := do
  let ip ← appropriatePlaceForInsertion none
  let (node1, node2) := ip.nodes
  let formIsAssociatable ←
    if formAssociatable ⟨ns, name⟩ && (← getS).formElem.isSome then do
      if ← inHtmlElemNamed "template" then pure false
      else pure (!(listed ⟨ns, name⟩ && attrs.any (fun a => a.name.ns == [] && isName a.name.loc "form")))
    else pure false
  ieTail pushIt ns name attrs hadDup ip node1 node2 formIsAssociatable

theorem insertElement_eq (pushIt : Bool) (ns name : Str) (attrs : List Attr) (hadDup : Bool) :
    insertElement pushIt ns name attrs hadDup = ieMain pushIt ns name attrs hadDup := rfl

/-- the `associate_with_form` call, if any -/
def assocCalls (fia : Bool) (form? : Option Id) (elem n1 : Id) (n2 : Option Id) : List Call :=
  if fia then (form?.map fun form => (SinkOp.associateWithForm elem form n1 n2, Output.unit)).toList else []

theorem tot_push (s : State) (h : Id) :
    Tot (push h) s (fun _ s' calls => s' = { s with openElems := s.openElems ++ [h] } ∧ calls = []) :=
  tot_modS rfl rfl ⟨rfl, rfl⟩

theorem tot_ieTail3 (s : State) (pushIt : Bool) (elem : Id) :
    Tot (ieTail3 pushIt elem) s (fun a s' calls => a = elem ∧
      s' = { s with openElems := if pushIt then s.openElems ++ [elem] else s.openElems } ∧ calls = []) := by
  unfold ieTail3
  by_cases hp : pushIt = true
  · simp only [hp, if_true]
    refine tot_bind (tot_conseq (tot_push s elem) fun _ s4 c4 _ ⟨hs4, hc4⟩ => ?_)
    subst hc4
    exact tot_pure ⟨rfl, hs4, rfl⟩
  · have hp' : pushIt = false := by simpa using hp
    simp only [hp', Bool.false_eq_true, if_false]
    exact tot_pure ⟨rfl, rfl, rfl⟩

theorem tot_ieTail (s : State) (pushIt : Bool) (ns : Str) (tag : Tag) (ip : InsertionPoint) (n1 : Id) (n2 : Option Id)
    (fia : Bool) (hfia : fia = true → s.formElem.isSome = true) :
    Tot (ieTail pushIt ns tag.name tag.attrs tag.hadDup ip n1 n2 fia) s (fun elem s' calls =>
      s' = { s with openElems := if pushIt then s.openElems ++ [elem] else s.openElems,
                    dom := s'.dom, traceRev := s'.traceRev } ∧
      s.dom.size ≤ elem ∧ s'.dom.isElement elem = true ∧ nameOf s'.dom elem = ⟨ns, tag.name⟩ ∧
      edits calls = [createCall ns tag elem] ++ assocCalls fia s.formElem elem n1 n2 ++
        [(insertOp ip (.node elem), .unit)]) := by
  unfold ieTail
  refine tot_bind (tot_conseq (tot_createElementWithFlags s ns tag) fun elem s1 c1 he1 ⟨hs1, hc1, hfresh, hel, hnm⟩ => ?_)
  subst hc1
  -- the rest after the association step
  have hrest : ∀ (s2 : State) (c2 : List Call), Ext s1 c2 s2 → SameTB s1 s2 → c2 = assocCalls fia s.formElem elem n1 n2 →
      Tot (ieTail2 pushIt ip elem) s2 (fun b s3 c3 =>
        s3 = { s with openElems := if pushIt then s.openElems ++ [b] else s.openElems, dom := s3.dom, traceRev := s3.traceRev } ∧
        s.dom.size ≤ b ∧ s3.dom.isElement b = true ∧ nameOf s3.dom b = ⟨ns, tag.name⟩ ∧
        edits ([createCall ns tag elem] ++ (c2 ++ c3)) = [createCall ns tag b] ++ assocCalls fia s.formElem b n1 n2 ++
          [(insertOp ip (.node b), .unit)]) := by
    intro s2 c2 he2 hs2 hc2
    subst hc2
    unfold ieTail2
    refine tot_bind (tot_conseq (tot_insertAt s2 ip (.node elem)) fun _ s3 c3 he3 ⟨hs3, hc3⟩ => ?_)
    subst hc3
    have hst23 : Stable s1.dom s3.dom := he2.stable.trans he3.stable
    have hS3 : SameTB s s3 := (hs1.trans hs2).trans hs3
    refine tot_conseq (tot_ieTail3 s3 pushIt elem) fun b s4 c4 _ ⟨hb, hs4, hc4⟩ => ?_
    subst hb hc4
    refine ⟨?_, hfresh, ?_, ?_, ?_⟩
    · rw [hs4]; unfold SameTB at hS3; rw [hS3]
    · rw [hs4]; exact isElement_stable hst23 hel
    · rw [hs4]; show nameOf s3.dom b = _; rw [nameOf_stable hst23 hel]; exact hnm
    · simp only [edits, assocCalls, createCall, List.append_nil]
      cases fia <;> cases s.formElem <;> cases ip <;> simp [insertOp, isEdit]
  by_cases hf : fia = true
  · simp only [hf, if_true]
    refine tot_getS_bind ?_
    rw [hs1.formElem]
    cases hform : s.formElem with
    | none => have h0 := hfia hf; rw [hform] at h0; cases h0
    | some form =>
      refine tot_bind (tot_conseq (tot_sinkUnit s1 trivial) fun _ s2 c2 he2 ⟨d', out, ha, hs2, hc2⟩ => ?_)
      have : out = .unit := by
        unfold Dom.apply Dom.applyV at ha; simp at ha; exact ha.2.symm
      subst this
      have := hrest s2 c2 he2 (hs2 ▸ SameTB.afterCall ..) (by simp [assocCalls, hc2, hf, hform])
      simpa [hf, hform] using this
  · have hf' : fia = false := by simpa using hf
    simp only [hf', Bool.false_eq_true, if_false]
    have := hrest s1 [] (Ext.refl _) (SameTB.refl _) (by simp [assocCalls, hf'])
    simpa [hf'] using this

/-- the log entries of "insert a foreign element" (not *onlyAddToElementStack*) for the new node `elem` -/
def insertEdits (s : State) (ns : Str) (tag : Tag) (place : Place Id) (elem : Id) : List (Edit Id Tag) :=
  [Edit.create elem ns tag] ++
    (if associatesWithForm ⟨ns, tag.name⟩ (tagCtx.tokHasFormAttr tag) s.formElem.isSome
        ((absStack s.dom s.openElems).any fun e => e.name.isHtml "template")
      then (s.formElem.map fun form => Edit.associateForm elem form place).toList else []) ++
    [Edit.insert place elem]

/-- **(j)** `insert_element`: the appropriate place, one `create_element`, the form association the
standard prescribes, the insertion, the push -/
theorem tot_insertElement (s : State) (pushIt : Bool) (ns : Str) (tag : Tag) (hok : ElemsOk s.dom s.openElems)
    (place : Place Id) (hplace : appropriatePlace (absStack s.dom s.openElems) s.fosterParenting none = some place) :
    Tot (insertElement pushIt ns tag.name tag.attrs tag.hadDup) s (fun elem s' calls =>
      s' = { s with openElems := if pushIt then s.openElems ++ [elem] else s.openElems,
                    dom := s'.dom, traceRev := s'.traceRev } ∧
      s.dom.size ≤ elem ∧ s'.dom.isElement elem = true ∧ nameOf s'.dom elem = ⟨ns, tag.name⟩ ∧
      edits calls = (insertEdits s ns tag place elem).map (editCall (tcOf s.dom))) := by
  rw [insertElement_eq]
  unfold ieMain
  refine tot_query_bind (tot_appropriatePlace s none hok (by simp) place hplace) fun s1 c1 he1 hs1 hc1 => ?_
  generalize hnodes : (ipOf (tcOf s.dom) place).nodes = nodes
  obtain ⟨n1, n2⟩ := nodes
  simp only []
  refine tot_getS_bind ?_
  rw [hs1.formElem]
  -- the continuation, for the flag the standard computes
  have hk : ∀ (s2 : State) (c2 : List Call) (fia : Bool), Ext s1 c2 s2 → SameTB s1 s2 → edits c2 = [] →
      fia = associatesWithForm ⟨ns, tag.name⟩ (tagCtx.tokHasFormAttr tag) s.formElem.isSome
        ((absStack s.dom s.openElems).any fun e => e.name.isHtml "template") →
      Tot (ieTail pushIt ns tag.name tag.attrs tag.hadDup (ipOf (tcOf s.dom) place) n1 n2 fia) s2 (fun elem s' c3 =>
        s' = { s with openElems := if pushIt then s.openElems ++ [elem] else s.openElems,
                      dom := s'.dom, traceRev := s'.traceRev } ∧
        s.dom.size ≤ elem ∧ s'.dom.isElement elem = true ∧ nameOf s'.dom elem = ⟨ns, tag.name⟩ ∧
        edits (c1 ++ (c2 ++ c3)) = (insertEdits s ns tag place elem).map (editCall (tcOf s.dom))) := by
    intro s2 c2 fia he2 hs2 hc2 hfia
    have hS2 : SameTB s s2 := hs1.trans hs2
    have hform2 : s2.formElem = s.formElem := hS2.formElem
    refine tot_conseq (tot_ieTail s2 pushIt ns tag (ipOf (tcOf s.dom) place) n1 n2 fia ?_) fun elem s3 c3 he3 ⟨h1, h2, h3, h4, h5⟩ => ?_
    · intro hf
      rw [hform2]
      rw [hfia] at hf
      unfold associatesWithForm at hf
      simp only [Bool.and_eq_true] at hf
      exact hf.1.1.2
    · refine ⟨?_, Nat.le_trans (he1.trans he2).stable.size h2, h3, h4, ?_⟩
      · rw [h1, hS2.openElems]; unfold SameTB at hS2; rw [hS2]
      · rw [edits_append, edits_append, hc1, hc2, h5, hform2]
        have e1 : n1 = (ipOf (tcOf s.dom) place).nodes.1 := by rw [hnodes]
        have e2 : n2 = (ipOf (tcOf s.dom) place).nodes.2 := by rw [hnodes]
        subst hfia
        simp only [insertEdits, assocCalls, List.nil_append, List.map_append, List.map_cons, List.map_nil, editCall, e1, e2]
        cases s.formElem <;> simp [associatesWithForm, editCall]
        split <;> simp [editCall]
  have hfa : formAssociatable ⟨ns, tag.name⟩ = Spec.TreeAlgo.inHtml formAssociatedElements ⟨ns, tag.name⟩ := rfl
  have hli : listed ⟨ns, tag.name⟩ = Spec.TreeAlgo.inHtml listedElements ⟨ns, tag.name⟩ := listed_eq _
  by_cases hc : (formAssociatable ⟨ns, tag.name⟩ && s.formElem.isSome) = true
  · simp only [hc, if_true]
    refine tot_query_bind (tot_inHtmlElemNamed_place s1 "template" (by rw [hs1.openElems]; exact hok.stable he1.stable)) fun s2 c2 he2 hs2 hc2 => ?_
    rw [hs1.openElems, absStack_stable hok he1.stable]
    rw [hfa] at hc
    simp only [Bool.and_eq_true] at hc
    by_cases ht : ((absStack s.dom s.openElems).any fun e => e.name.isHtml "template") = true
    · simp only [ht, if_true]
      refine tot_bind (tot_pure ?_)
      exact hk s2 c2 false he2 hs2 hc2 (by simp [associatesWithForm, ht])
    · have ht' : ((absStack s.dom s.openElems).any fun e => e.name.isHtml "template") = false := by simpa using ht
      simp only [ht', Bool.false_eq_true, if_false]
      refine tot_bind (tot_pure ?_)
      refine hk s2 c2 _ he2 hs2 hc2 ?_
      unfold associatesWithForm; rw [ht', hc.1, hc.2, ← hli]
      simp [tagCtx]
  · have hc' : (formAssociatable ⟨ns, tag.name⟩ && s.formElem.isSome) = false := by simpa using hc
    simp only [hc', Bool.false_eq_true, if_false]
    refine tot_bind (tot_pure ?_)
    exact hk s1 [] false (Ext.refl _) (SameTB.refl _) rfl (by
      unfold associatesWithForm; rw [← hfa, hc']; simp)

/-! ### when the appropriate place is defined, and which nodes it mentions -/
section PlaceFacts
variable {N : Type}

theorem lastPos_spec (p : Elem N → Bool) : ∀ (l : List (Elem N)) (i : Nat), lastPos p l = some i →
    ∃ e, l[i]? = some e ∧ p e = true := by
  intro l
  induction l with
  | nil => intro i h; simp [lastPos] at h
  | cons e rest ih =>
    intro i h
    simp only [lastPos] at h
    cases hr : lastPos p rest with
    | some j =>
      simp only [hr, Option.some.injEq] at h
      obtain ⟨x, hx, hp⟩ := ih j hr
      subst h
      exact ⟨x, by simpa using hx, hp⟩
    | none =>
      simp only [hr] at h
      by_cases hp : p e = true
      · simp [hp] at h; subst h; exact ⟨e, by simp, hp⟩
      · simp [hp] at h

/-- the nodes a place mentions -/
def placeNodes : Place N → List N
  | .lastChildOf x => [x]
  | .inTemplateContentsOf x => [x]
  | .foster t prev => [t.id, prev.id]

theorem getElem?_mem_ids {l : List (Elem N)} {i : Nat} {e : Elem N} (h : l[i]? = some e) : e.id ∈ l.map (·.id) :=
  List.mem_map.mpr ⟨e, List.mem_of_getElem? h, rfl⟩

/-- on a stack that does not start with a `table` element the foster-parenting substeps are defined,
and they only mention nodes of the stack -/
theorem fosterPlace_some (stack : List (Elem N)) (e0 : Elem N) (hh : stack.head? = some e0)
    (hnt : e0.name.isHtml "table" = false) :
    ∃ place, fosterPlace stack = some place ∧ ∀ x ∈ placeNodes place, x ∈ stack.map (·.id) := by
  have hhead : stack[0]? = some e0 := by
    cases stack with
    | nil => simp at hh
    | cons a r => simpa using hh
  have tableCase : ∀ tb, lastPos (fun e => e.name.isHtml "table") stack = some tb →
      ∃ place, (if tb = 0 then none
        else (stack[tb]?).bind fun t => (stack[tb - 1]?).map fun prev => Place.foster t prev) = some place ∧
        ∀ x ∈ placeNodes place, x ∈ stack.map (·.id) := by
    intro tb htb
    obtain ⟨t, ht, hpt⟩ := lastPos_spec _ _ _ htb
    have hlt := lastPos_lt _ _ _ htb
    by_cases h0 : tb = 0
    · subst h0
      rw [hhead] at ht; cases ht
      rw [hnt] at hpt; cases hpt
    · have hlt' : tb - 1 < stack.length := by omega
      have hp : stack[tb - 1]? = some stack[tb - 1] := List.getElem?_eq_getElem hlt'
      refine ⟨.foster t stack[tb - 1], by simp [h0, ht, hp], ?_⟩
      intro x hx
      simp only [placeNodes, List.mem_cons, List.mem_nil_iff, or_false] at hx
      rcases hx with rfl | rfl
      · exact getElem?_mem_ids ht
      · exact getElem?_mem_ids hp
  unfold fosterPlace
  cases htp : lastPos (fun e => e.name.isHtml "template") stack with
  | none =>
    cases htb : lastPos (fun e => e.name.isHtml "table") stack with
    | none =>
      refine ⟨inside e0, by simp [hh], ?_⟩
      intro x hx
      have : x = e0.id := by
        unfold inside at hx; split at hx <;> simpa [placeNodes] using hx
      subst this; exact getElem?_mem_ids hhead
    | some tb => simpa using tableCase tb htb
  | some tp =>
    obtain ⟨t, ht, _⟩ := lastPos_spec _ _ _ htp
    have tpl : ∃ place, ((stack[tp]?).map fun t => Place.inTemplateContentsOf t.id) = some place ∧
        ∀ x ∈ placeNodes place, x ∈ stack.map (·.id) := by
      refine ⟨.inTemplateContentsOf t.id, by simp [ht], ?_⟩
      intro x hx
      simp only [placeNodes, List.mem_cons, List.mem_nil_iff, or_false] at hx
      subst hx; exact getElem?_mem_ids ht
    cases htb : lastPos (fun e => e.name.isHtml "table") stack with
    | none => simpa using tpl
    | some tb =>
      by_cases hlt : tb < tp
      · simpa [hlt] using tpl
      · simpa [hlt] using tableCase tb htb

theorem appropriatePlace_some (stack : List (Elem N)) (fp : Bool) (ov : Option (Elem N)) (e0 : Elem N)
    (hh : stack.head? = some e0) (hnt : e0.name.isHtml "table" = false) :
    ∃ place, appropriatePlace stack fp ov = some place ∧
      ∀ x ∈ placeNodes place, x ∈ stack.map (·.id) ∨ ∃ t, ov = some t ∧ x = t.id := by
  unfold appropriatePlace
  have hl : ∃ e, stack.getLast? = some e := by
    cases stack with
    | nil => simp at hh
    | cons a r =>
      cases h : (a :: r).getLast? with
      | none => simp at h
      | some e => exact ⟨e, rfl⟩
  obtain ⟨el, hel⟩ := hl
  obtain ⟨target, htgt, hmem⟩ : ∃ target, (ov <|> stack.getLast?) = some target ∧
      (target.id ∈ stack.map (·.id) ∨ ∃ t, ov = some t ∧ target.id = t.id) := by
    cases ov with
    | some t => exact ⟨t, rfl, Or.inr ⟨t, rfl, rfl⟩⟩
    | none => exact ⟨el, by simpa using hel, Or.inl (List.mem_map.mpr ⟨el, List.mem_of_getLast? hel, rfl⟩)⟩
  rw [htgt]
  simp only [Option.bind_some]
  by_cases hf : (fp && Spec.TreeAlgo.inHtml Spec.TreeTables.fosterTarget target.name) = true
  · simp only [hf, if_true]
    obtain ⟨place, hp, hn⟩ := fosterPlace_some stack e0 hh hnt
    exact ⟨place, hp, fun x hx => Or.inl (hn x hx)⟩
  · simp only [hf, Bool.false_eq_true, if_false]
    refine ⟨inside target, rfl, ?_⟩
    intro x hx
    have : x = target.id := by
      unfold inside at hx; split at hx <;> simpa [placeNodes] using hx
    subst this; exact hmem

end PlaceFacts

theorem ipOf_congr {d : Dom} {tc : Id → Id} (htc : TcOk d tc) {place : Place Id}
    (hp : ∀ x ∈ placeNodes place, d.isElement x = true) : ipOf tc place = ipOf (tcOf d) place := by
  cases place with
  | lastChildOf x => rfl
  | inTemplateContentsOf x => simp only [ipOf]; rw [htc x (hp x (by simp [placeNodes]))]
  | foster t prev => rfl

end H5V.Lemmas.HtmlTBAlgo
