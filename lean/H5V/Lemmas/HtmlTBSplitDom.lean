import H5V.Lemmas.DomBasic
/-!
`H5V.Lemmas.TBSplitDom` — facts about the abstract DOM (`H5V.Model.Dom`) needed to split/merge text
insertions in tree-builder traces:

* **A** `apply_wE`: `Dom.apply` never looks at the parse-error log (`errorsRev`);
* **B** `append_text_merge`, `appendBasedOnParentNode_text_merge`, `appendBeforeSibling_text_merge`:
  inserting `x` and then `y` at the same place is exactly inserting `x ++ y` (for every arena, no
  well-formedness hypothesis, equal error messages included);
* **C** `textIns_queries`: the query operations are stable under text insertion (modulo the message
  of a failing query, `RelE`);
* **D** `createElement_elemName`, `keepsNames_elemName`: element names survive node insertion.
-/
namespace H5V.Lemmas.TBSplitDom
open H5V.Model.Dom

theorem get_some {d : Dom} {i : Id} {n : Node} (h : d.nodes[i]? = some n) : d.get i = .ok n := by
  unfold Dom.get; rw [h]
theorem get_none {d : Dom} {i : Id} (h : d.nodes[i]? = none) :
    d.get i = .error "model-bad-id: no such node id" := by
  unfold Dom.get; rw [h]

theorem nodes_setNode (d : Dom) (i : Id) (n : Node) (j : Id) :
    (d.setNode i n).nodes[j]? = if i = j then (if i < d.nodes.size then some n else none) else d.nodes[j]? := by
  unfold Dom.setNode
  simp only [Array.getElem?_setIfInBounds]

theorem nodes_setNode_of {d : Dom} {i : Id} {n0 : Node} (h : d.nodes[i]? = some n0) (n : Node) (j : Id) :
    (d.setNode i n).nodes[j]? = if j = i then some n else d.nodes[j]? := by
  rw [nodes_setNode]
  have hlt : i < d.nodes.size := by
    by_cases hi : i < d.nodes.size
    · exact hi
    · simp [Array.getElem?_eq_none (Nat.le_of_not_lt hi)] at h
  by_cases hij : i = j
  · subst hij; simp [hlt]
  · have : ¬ j = i := fun e => hij e.symm
    simp [hij, this]

theorem lt_of_some {d : Dom} {i : Id} {n0 : Node} (h : d.nodes[i]? = some n0) : i < d.nodes.size := by
  by_cases hi : i < d.nodes.size
  · exact hi
  · simp [Array.getElem?_eq_none (Nat.le_of_not_lt hi)] at h

theorem nodes_alloc (d : Dom) (data : NodeData) (j : Id) :
    (d.alloc data).1.nodes[j]? = if j = d.nodes.size then some { data := data } else d.nodes[j]? := by
  unfold Dom.alloc
  simp only [Array.getElem?_push]

theorem dom_ext {a b : Dom} (h1 : ∀ j : Nat, a.nodes[j]? = b.nodes[j]?) (h2 : a.quirks = b.quirks)
    (h3 : a.errorsRev = b.errorsRev) : a = b := by
  cases a; cases b
  simp only [Dom.mk.injEq]
  exact ⟨Array.ext_getElem? h1, h2, h3⟩

/-- the result of "allocate a text node and `fn append` it to `p`" -/
def freshAppend (d : Dom) (p : Id) (pn : Node) (s : Str) : Dom :=
  (((d.alloc (.text s)).1.setNode d.nodes.size { data := .text s, parent := some p }).setNode p
    { pn with children := pn.children ++ [d.nodes.size] })

theorem allocAppendRaw {d : Dom} {p : Id} {pn : Node} (hp : d.nodes[p]? = some pn) (s : Str) :
    (d.alloc (.text s)).1.appendRaw p d.nodes.size = .ok (freshAppend d p pn s) := by
  have hlt := lt_of_some hp
  have h1 : (d.alloc (.text s)).1.nodes[d.nodes.size]? = some { data := .text s } := by
    rw [nodes_alloc]; simp
  unfold Dom.appendRaw
  simp only [bind, Except.bind, get_some h1]
  have h2 : ((d.alloc (.text s)).1.setNode d.nodes.size { data := .text s, parent := some p }).nodes[p]? = some pn := by
    rw [nodes_setNode_of h1, nodes_alloc]
    have : p ≠ d.nodes.size := Nat.ne_of_lt hlt
    simp [this, hp]
  simp [get_some h2, freshAppend]


/-! ### `append` with text -/

def isTextData : NodeData → Bool
  | .text _ => true
  | _ => false

theorem append_text_badp {d : Dom} {p : Id} (hp : d.nodes[p]? = none) (s : Str) :
    d.append p (.text s) = .error "model-bad-id: no such node id" := by
  unfold Dom.append
  simp only [bind, Except.bind, get_none hp]

theorem append_text_empty {d : Dom} {p : Id} {pn : Node} (hp : d.nodes[p]? = some pn)
    (hl : pn.children.getLast? = none) (s : Str) :
    d.append p (.text s) = .ok (freshAppend d p pn s) := by
  unfold Dom.append
  simp only [bind, Except.bind, get_some hp, hl]
  exact allocAppendRaw hp s

theorem append_text_badh {d : Dom} {p h : Id} {pn : Node} (hp : d.nodes[p]? = some pn)
    (hl : pn.children.getLast? = some h) (hh : d.nodes[h]? = none) (s : Str) :
    d.append p (.text s) = .error "model-bad-id: no such node id" := by
  unfold Dom.append
  simp only [bind, Except.bind, get_some hp, hl, get_none hh]

theorem append_text_ext {d : Dom} {p h : Id} {pn hn : Node} {old : Str} (hp : d.nodes[p]? = some pn)
    (hl : pn.children.getLast? = some h) (hh : d.nodes[h]? = some hn) (hd : hn.data = .text old) (s : Str) :
    d.append p (.text s) = .ok (d.setNode h { hn with data := .text (old ++ s) }) := by
  unfold Dom.append
  simp only [bind, Except.bind, get_some hp, hl, get_some hh, hd]

theorem append_text_new {d : Dom} {p h : Id} {pn hn : Node} (hp : d.nodes[p]? = some pn)
    (hl : pn.children.getLast? = some h) (hh : d.nodes[h]? = some hn) (hd : isTextData hn.data = false) (s : Str) :
    d.append p (.text s) = .ok (freshAppend d p pn s) := by
  unfold Dom.append
  simp only [bind, Except.bind, get_some hp, hl, get_some hh]
  cases hdd : hn.data with
  | text old => rw [hdd] at hd; cases hd
  | document | doctype _ _ _ | comment _ | element _ _ _ _ | pi _ _ => exact allocAppendRaw hp s

theorem freshAppend_nodes {d : Dom} {p : Id} {pn : Node} (hp : d.nodes[p]? = some pn) (s : Str) (j : Id) :
    (freshAppend d p pn s).nodes[j]? =
      if j = p then some { pn with children := pn.children ++ [d.nodes.size] }
      else if j = d.nodes.size then some { data := .text s, parent := some p }
      else d.nodes[j]? := by
  have hlt := lt_of_some hp
  have hne : p ≠ d.nodes.size := Nat.ne_of_lt hlt
  have h1 : (d.alloc (.text s)).1.nodes[d.nodes.size]? = some { data := .text s } := by
    rw [nodes_alloc]; simp
  have h2 : ((d.alloc (.text s)).1.setNode d.nodes.size { data := .text s, parent := some p }).nodes[p]? = some pn := by
    rw [nodes_setNode_of h1, nodes_alloc]
    simp [hne, hp]
  unfold freshAppend
  rw [nodes_setNode_of h2, nodes_setNode_of h1, nodes_alloc]
  by_cases hj : j = p
  · simp [hj]
  · simp only [hj, if_false]
    by_cases hj2 : j = d.nodes.size
    · simp [hj2]
    · simp [hj2]

theorem append_merge (d : Dom) (p : Id) (x y : Str) :
    d.append p (.text (x ++ y)) = d.append p (.text x) >>= fun d1 => d1.append p (.text y) := by
  cases hp : d.nodes[p]? with
  | none => rw [append_text_badp hp, append_text_badp hp]; rfl
  | some pn =>
    have fresh : d.append p (.text x) = .ok (freshAppend d p pn x) →
        d.append p (.text (x ++ y)) = .ok (freshAppend d p pn (x ++ y)) →
        d.append p (.text (x ++ y)) = d.append p (.text x) >>= fun d1 => d1.append p (.text y) := by
      intro e1 e2
      rw [e1, e2]
      show _ = (freshAppend d p pn x).append p (.text y)
      have hlt := lt_of_some hp
      have hne : p ≠ d.nodes.size := Nat.ne_of_lt hlt
      have hp1 := freshAppend_nodes hp x p
      simp only [if_true] at hp1
      have hh1 := freshAppend_nodes hp x d.nodes.size
      simp only [hne.symm, if_false, if_true] at hh1
      rw [append_text_ext hp1 (by simp) hh1 rfl]
      congr 1
      apply dom_ext
      · intro j
        rw [nodes_setNode_of hh1, freshAppend_nodes hp, freshAppend_nodes hp]
        by_cases hj : j = d.nodes.size
        · subst hj; simp [hne.symm]
        · simp [hj]
      · rfl
      · rfl
    cases hl : pn.children.getLast? with
    | none => exact fresh (append_text_empty hp hl x) (append_text_empty hp hl _)
    | some h =>
      cases hh : d.nodes[h]? with
      | none => rw [append_text_badh hp hl hh, append_text_badh hp hl hh]; rfl
      | some hn =>
        cases hd : isTextData hn.data with
        | false => exact fresh (append_text_new hp hl hh hd x) (append_text_new hp hl hh hd _)
        | true =>
          cases hdd : hn.data with
          | text old =>
            rw [append_text_ext hp hl hh hdd, append_text_ext hp hl hh hdd]
            show _ = (d.setNode h { hn with data := .text (old ++ x) }).append p (.text y)
            have hh1 : (d.setNode h { hn with data := .text (old ++ x) }).nodes[h]? =
                some { hn with data := .text (old ++ x) } := by
              rw [nodes_setNode_of hh]; simp
            have hp1 : ∃ pn', (d.setNode h { hn with data := .text (old ++ x) }).nodes[p]? = some pn' ∧
                pn'.children = pn.children := by
              rw [nodes_setNode_of hh]
              by_cases hph : p = h
              · subst hph
                rw [hp] at hh; cases hh
                exact ⟨{ pn with data := .text (old ++ x) }, by simp, rfl⟩
              · exact ⟨pn, by simp [hph, hp], rfl⟩
            obtain ⟨pn', hp1, hc⟩ := hp1
            rw [append_text_ext hp1 (hc ▸ hl) hh1 rfl]
            congr 1
            apply dom_ext
            · intro j
              rw [nodes_setNode_of hh1, nodes_setNode_of hh, nodes_setNode_of hh]
              by_cases hj : j = h
              · simp [hj, List.append_assoc]
              · simp [hj]
            · rfl
            · rfl
          | document | doctype _ _ _ | comment _ | element _ _ _ _ | pi _ _ => rw [hdd] at hd; cases hd


/-! ### `append_before_sibling` with text -/

theorem gpi_some {d : Dom} {t P : Id} {i : Nat} {tn pn : Node} (ht : d.nodes[t]? = some tn)
    (hpar : tn.parent = some P) (hP : d.nodes[P]? = some pn) (hi : indexOf? t pn.children = some i) :
    d.getParentAndIndex t = .ok (some (P, i)) := by
  unfold Dom.getParentAndIndex
  simp only [bind, Except.bind, get_some ht, hpar, get_some hP, hi]

theorem gpi_none {d : Dom} {t : Id} {tn : Node} (ht : d.nodes[t]? = some tn)
    (hpar : tn.parent = none) : d.getParentAndIndex t = .ok none := by
  unfold Dom.getParentAndIndex
  simp only [bind, Except.bind, get_some ht, hpar]

theorem gpi_inv {d : Dom} {t P : Id} {i : Nat} (h : d.getParentAndIndex t = .ok (some (P, i))) :
    ∃ tn pn, d.nodes[t]? = some tn ∧ tn.parent = some P ∧ d.nodes[P]? = some pn ∧
      indexOf? t pn.children = some i := by
  unfold Dom.getParentAndIndex at h
  simp only [bind, Except.bind] at h
  cases ht : d.nodes[t]? with
  | none => rw [get_none ht] at h; cases h
  | some tn =>
    rw [get_some ht] at h
    simp only at h
    cases hpar : tn.parent with
    | none => rw [hpar] at h; cases h
    | some p =>
      rw [hpar] at h
      simp only at h
      cases hP : d.nodes[p]? with
      | none => rw [get_none hP] at h; cases h
      | some pn =>
        rw [get_some hP] at h
        simp only at h
        cases hi : indexOf? t pn.children with
        | none => rw [hi] at h; cases h
        | some j =>
          rw [hi] at h
          simp only [Except.ok.injEq, Option.some.injEq, Prod.mk.injEq] at h
          obtain ⟨rfl, rfl⟩ := h
          exact ⟨tn, pn, rfl, hpar, hP, hi⟩

/-- `append_before_sibling(_, text)` after the parent and the index are known -/
def absText (d : Dom) (parent : Id) (i : Nat) (s : Str) : Except String Dom :=
  if i = 0 then
    (d.alloc (.text s)).1.insertAtIndex parent i (d.alloc (.text s)).2
  else do
    let pn ← d.get parent
    match pn.children[i - 1]? with
    | none => throw "index-oob: append_before_sibling: children[i - 1]"
    | some prev =>
      let prevn ← d.get prev
      match prevn.data with
      | .text old => .ok (d.setNode prev { prevn with data := .text (old ++ s) })
      | _ => (d.alloc (.text s)).1.insertAtIndex parent i (d.alloc (.text s)).2

def absCont (d : Dom) (s : Str) : Option (Id × Nat) → Except String Dom
  | none => .error "abs-no-parent: append_before_sibling called on node without parent"
  | some (P, i) => absText d P i s

theorem abs_text_eq (d : Dom) (sib : Id) (s : Str) :
    d.appendBeforeSibling sib (.text s) = d.getParentAndIndex sib >>= absCont d s := by
  unfold Dom.appendBeforeSibling
  simp only [bind, Except.bind]
  cases d.getParentAndIndex sib with
  | error e => rfl
  | ok r =>
    cases r with
    | none => rfl
    | some pi =>
      obtain ⟨P, i⟩ := pi
      simp only [absCont, absText]
      by_cases hi : i = 0
      · simp only [hi, if_true]
      · simp only [hi, if_false]
        cases d.get P with
        | error e => rfl
        | ok pn =>
          simp only [bind, Except.bind]
          cases pn.children[i - 1]? with
          | none => rfl
          | some prev =>
            simp only
            cases d.get prev with
            | error e => rfl
            | ok prevn =>
              simp only
              cases prevn.data <;> rfl


/-- the result of "allocate a text node and insert it as the `i`-th child of `P`" -/
def freshInsert (d : Dom) (P : Id) (pn : Node) (i : Nat) (s : Str) : Dom :=
  (((d.alloc (.text s)).1.setNode d.nodes.size { data := .text s, parent := some P }).setNode P
    { pn with children := insertAt pn.children i d.nodes.size })

theorem allocInsertAt {d : Dom} {P : Id} {pn : Node} (hP : d.nodes[P]? = some pn) {i : Nat}
    (hi : i ≤ pn.children.length) (s : Str) :
    (d.alloc (.text s)).1.insertAtIndex P i (d.alloc (.text s)).2 = .ok (freshInsert d P pn i s) := by
  have hlt := lt_of_some hP
  have hne : P ≠ d.nodes.size := Nat.ne_of_lt hlt
  have h1 : (d.alloc (.text s)).1.nodes[d.nodes.size]? = some { data := .text s } := by
    rw [nodes_alloc]; simp
  have h0 : (d.alloc (.text s)).1.removeFromParent d.nodes.size = .ok (d.alloc (.text s)).1 := by
    unfold Dom.removeFromParent
    simp only [bind, Except.bind, gpi_none h1 rfl]
  have h2 : ((d.alloc (.text s)).1.setNode d.nodes.size { data := .text s, parent := some P }).nodes[P]? = some pn := by
    rw [nodes_setNode_of h1, nodes_alloc]
    simp [hne, hP]
  show (d.alloc (.text s)).1.insertAtIndex P i d.nodes.size = _
  unfold Dom.insertAtIndex
  simp only [bind, Except.bind, h0, get_some h1, get_some h2]
  have : ¬ i > pn.children.length := Nat.not_lt.mpr hi
  simp [this, freshInsert]

theorem freshInsert_nodes {d : Dom} {P : Id} {pn : Node} (hP : d.nodes[P]? = some pn) (i : Nat) (s : Str) (j : Id) :
    (freshInsert d P pn i s).nodes[j]? =
      if j = P then some { pn with children := insertAt pn.children i d.nodes.size }
      else if j = d.nodes.size then some { data := .text s, parent := some P }
      else d.nodes[j]? := by
  have hlt := lt_of_some hP
  have hne : P ≠ d.nodes.size := Nat.ne_of_lt hlt
  have h1 : (d.alloc (.text s)).1.nodes[d.nodes.size]? = some { data := .text s } := by
    rw [nodes_alloc]; simp
  have h2 : ((d.alloc (.text s)).1.setNode d.nodes.size { data := .text s, parent := some P }).nodes[P]? = some pn := by
    rw [nodes_setNode_of h1, nodes_alloc]
    simp [hne, hP]
  unfold freshInsert
  rw [nodes_setNode_of h2, nodes_setNode_of h1, nodes_alloc]
  by_cases hj : j = P
  · simp [hj]
  · simp only [hj, if_false]
    by_cases hj2 : j = d.nodes.size
    · simp [hj2]
    · simp [hj2]

theorem absText_zero {d : Dom} {P : Id} {pn : Node} (hP : d.nodes[P]? = some pn) (s : Str) :
    absText d P 0 s = .ok (freshInsert d P pn 0 s) := by
  unfold absText
  simp only [if_true]
  exact allocInsertAt hP (Nat.zero_le _) s

theorem absText_badprev {d : Dom} {P prev : Id} {pn : Node} {i : Nat} (hP : d.nodes[P]? = some pn) (hi : i ≠ 0)
    (hprev : pn.children[i - 1]? = some prev) (hh : d.nodes[prev]? = none) (s : Str) :
    absText d P i s = .error "model-bad-id: no such node id" := by
  unfold absText
  simp only [hi, if_false, bind, Except.bind, get_some hP, hprev, get_none hh]

theorem absText_ext {d : Dom} {P prev : Id} {pn prevn : Node} {i : Nat} {old : Str} (hP : d.nodes[P]? = some pn)
    (hi : i ≠ 0) (hprev : pn.children[i - 1]? = some prev) (hh : d.nodes[prev]? = some prevn)
    (hd : prevn.data = .text old) (s : Str) :
    absText d P i s = .ok (d.setNode prev { prevn with data := .text (old ++ s) }) := by
  unfold absText
  simp only [hi, if_false, bind, Except.bind, get_some hP, hprev, get_some hh, hd]

theorem absText_new {d : Dom} {P prev : Id} {pn prevn : Node} {i : Nat} (hP : d.nodes[P]? = some pn)
    (hi : i ≠ 0) (hprev : pn.children[i - 1]? = some prev) (hh : d.nodes[prev]? = some prevn)
    (hd : isTextData prevn.data = false) (hle : i ≤ pn.children.length) (s : Str) :
    absText d P i s = .ok (freshInsert d P pn i s) := by
  unfold absText
  simp only [hi, if_false, bind, Except.bind, get_some hP, hprev, get_some hh]
  cases hdd : prevn.data with
  | text old => rw [hdd] at hd; cases hd
  | document | doctype _ _ _ | comment _ | element _ _ _ _ | pi _ _ => exact allocInsertAt hP hle s

theorem indexOf?_insertAt {t x : Id} (hx : x ≠ t) : ∀ {l : List Id} {i : Nat}, indexOf? t l = some i →
    indexOf? t (insertAt l i x) = some (i + 1) := by
  intro l
  induction l with
  | nil => intro i h; simp [indexOf?] at h
  | cons a as ih =>
    intro i h
    simp only [indexOf?] at h
    by_cases ha : a = t
    · simp only [ha, if_true, Option.some.injEq] at h
      subst h
      simp [insertAt, indexOf?, hx, ha]
    · simp only [ha, if_false] at h
      cases hj : indexOf? t as with
      | none => simp [hj] at h
      | some j =>
        simp only [hj, Option.map_some, Option.some.injEq] at h
        subst h
        have := ih hj
        simp only [insertAt, List.take_succ_cons, List.drop_succ_cons, List.cons_append, indexOf?, ha, if_false]
        simp only [insertAt] at this
        rw [this]; rfl

theorem insertAt_getElem {l : List Id} {i : Nat} (x : Id) (hi : i ≤ l.length) : (insertAt l i x)[i]? = some x := by
  unfold insertAt
  rw [List.getElem?_append_right (by simp [List.length_take, Nat.min_eq_left hi])]
  simp [List.length_take, Nat.min_eq_left hi]


theorem abs_merge (d : Dom) (s : Id) (x y : Str) :
    d.appendBeforeSibling s (.text (x ++ y)) =
      d.appendBeforeSibling s (.text x) >>= fun d1 => d1.appendBeforeSibling s (.text y) := by
  rw [abs_text_eq, abs_text_eq]
  cases hg : d.getParentAndIndex s with
  | error e => rfl
  | ok r =>
    cases r with
    | none => rfl
    | some pi =>
      obtain ⟨P, i⟩ := pi
      obtain ⟨sn, pn, hs, hpar, hP, hi⟩ := gpi_inv hg
      show absText d P i (x ++ y) = absText d P i x >>= fun d1 => d1.appendBeforeSibling s (.text y)
      have hlen : i < pn.children.length := (H5V.Lemmas.Dom.indexOf?_some hi).2.2
      have hsne : d.nodes.size ≠ s := (Nat.ne_of_lt (lt_of_some hs)).symm
      have hPne : d.nodes.size ≠ P := (Nat.ne_of_lt (lt_of_some hP)).symm
      have fresh : absText d P i x = .ok (freshInsert d P pn i x) →
          absText d P i (x ++ y) = .ok (freshInsert d P pn i (x ++ y)) →
          absText d P i (x ++ y) = absText d P i x >>= fun d1 => d1.appendBeforeSibling s (.text y) := by
        intro e1 e2
        rw [e1, e2]
        show _ = (freshInsert d P pn i x).appendBeforeSibling s (.text y)
        have hP1 := freshInsert_nodes hP i x P
        simp only [if_true] at hP1
        have hh1 := freshInsert_nodes hP i x d.nodes.size
        simp only [hPne, if_false, if_true] at hh1
        have hs1 : ∃ sn', (freshInsert d P pn i x).nodes[s]? = some sn' ∧ sn'.parent = some P := by
          rw [freshInsert_nodes hP]
          by_cases hsP : s = P
          · subst hsP
            have e : pn = sn := Option.some.inj (hP.symm.trans hs)
            exact ⟨{ pn with children := insertAt pn.children i d.nodes.size }, by simp, by rw [e]; exact hpar⟩
          · exact ⟨sn, by simp [hsP, hsne.symm, hs], hpar⟩
        obtain ⟨sn', hs1, hpar1⟩ := hs1
        have hg1 := gpi_some hs1 hpar1 hP1 (indexOf?_insertAt hsne hi)
        rw [abs_text_eq, hg1]
        show _ = absText (freshInsert d P pn i x) P (i + 1) y
        rw [absText_ext hP1 (Nat.succ_ne_zero i)
          (by simpa using insertAt_getElem d.nodes.size (Nat.le_of_lt hlen)) hh1 rfl]
        congr 1
        apply dom_ext
        · intro j
          rw [nodes_setNode_of hh1, freshInsert_nodes hP, freshInsert_nodes hP]
          by_cases hj : j = d.nodes.size
          · subst hj; simp [hPne]
          · simp [hj]
        · rfl
        · rfl
      by_cases hi0 : i = 0
      · subst hi0
        exact fresh (absText_zero hP x) (absText_zero hP _)
      · have hprev : ∃ prev, pn.children[i - 1]? = some prev := by
          have : i - 1 < pn.children.length := by omega
          exact ⟨pn.children[i - 1], by simp [this]⟩
        obtain ⟨prev, hprev⟩ := hprev
        cases hh : d.nodes[prev]? with
        | none => rw [absText_badprev hP hi0 hprev hh, absText_badprev hP hi0 hprev hh]; rfl
        | some hn =>
          cases hd : isTextData hn.data with
          | false =>
            exact fresh (absText_new hP hi0 hprev hh hd (Nat.le_of_lt hlen) x)
              (absText_new hP hi0 hprev hh hd (Nat.le_of_lt hlen) _)
          | true =>
            cases hdd : hn.data with
            | text old =>
              rw [absText_ext hP hi0 hprev hh hdd, absText_ext hP hi0 hprev hh hdd]
              show _ = (d.setNode prev { hn with data := .text (old ++ x) }).appendBeforeSibling s (.text y)
              have hh1 : (d.setNode prev { hn with data := .text (old ++ x) }).nodes[prev]? =
                  some { hn with data := .text (old ++ x) } := by
                rw [nodes_setNode_of hh]; simp
              have keep : ∀ (j : Id) (n : Node), d.nodes[j]? = some n →
                  ∃ n', (d.setNode prev { hn with data := .text (old ++ x) }).nodes[j]? = some n' ∧
                    n'.parent = n.parent ∧ n'.children = n.children := by
                intro j n hj
                rw [nodes_setNode_of hh]
                by_cases hjp : j = prev
                · subst hjp
                  have e : hn = n := Option.some.inj (hh.symm.trans hj)
                  exact ⟨{ hn with data := .text (old ++ x) }, by simp, by rw [e], by rw [e]⟩
                · exact ⟨n, by simp [hjp, hj], rfl, rfl⟩
              obtain ⟨sn', hs1, hpar1, _⟩ := keep s sn hs
              obtain ⟨pn', hP1, _, hc1⟩ := keep P pn hP
              have hg1 := gpi_some hs1 (hpar1.trans hpar) hP1 (hc1 ▸ hi)
              rw [abs_text_eq, hg1]
              show _ = absText (d.setNode prev { hn with data := .text (old ++ x) }) P i y
              rw [absText_ext hP1 hi0 (hc1 ▸ hprev) hh1 rfl]
              congr 1
              apply dom_ext
              · intro j
                rw [nodes_setNode_of hh1, nodes_setNode_of hh, nodes_setNode_of hh]
                by_cases hj : j = prev
                · simp [hj, List.append_assoc]
                · simp [hj]
              · rfl
              · rfl
            | document | doctype _ _ _ | comment _ | element _ _ _ _ | pi _ _ => rw [hdd] at hd; cases hd


/-! ### what a text insertion changes -/

/-- frame of a text insertion: existing nodes keep their parent pointer and their data (text nodes
may change their text), new nodes are text nodes -/
def TextStep (d d1 : Dom) : Prop :=
  (∀ (j : Id) (n : Node), d.nodes[j]? = some n → ∃ n', d1.nodes[j]? = some n' ∧ n'.parent = n.parent ∧
      (n'.data = n.data ∨ (isTextData n.data = true ∧ isTextData n'.data = true))) ∧
  (∀ (j : Id) (n' : Node), d.nodes[j]? = none → d1.nodes[j]? = some n' → isTextData n'.data = true)

theorem textStep_setData {d : Dom} {h : Id} {hn : Node} {old : Str} (hh : d.nodes[h]? = some hn)
    (hd : hn.data = .text old) (s : Str) : TextStep d (d.setNode h { hn with data := .text s }) := by
  constructor
  · intro j n hj
    rw [nodes_setNode_of hh]
    by_cases hjh : j = h
    · subst hjh
      have e : hn = n := Option.some.inj (hh.symm.trans hj)
      refine ⟨{ hn with data := .text s }, by simp, by rw [e], Or.inr ⟨?_, rfl⟩⟩
      rw [← e, hd]; rfl
    · exact ⟨n, by simp [hjh, hj], rfl, Or.inl rfl⟩
  · intro j n' hj hj'
    rw [nodes_setNode_of hh] at hj'
    by_cases hjh : j = h
    · subst hjh; rw [hh] at hj; cases hj
    · simp [hjh, hj] at hj'

theorem textStep_fresh {d : Dom} {P : Id} {pn : Node} (hP : d.nodes[P]? = some pn) (c : List Id) (s : Str) :
    TextStep d (((d.alloc (.text s)).1.setNode d.nodes.size { data := .text s, parent := some P }).setNode P
      { pn with children := c }) := by
  have hlt := lt_of_some hP
  have hne : P ≠ d.nodes.size := Nat.ne_of_lt hlt
  have h1 : (d.alloc (.text s)).1.nodes[d.nodes.size]? = some { data := .text s } := by
    rw [nodes_alloc]; simp
  have h2 : ((d.alloc (.text s)).1.setNode d.nodes.size { data := .text s, parent := some P }).nodes[P]? = some pn := by
    rw [nodes_setNode_of h1, nodes_alloc]
    simp [hne, hP]
  constructor
  · intro j n hj
    have hjne : j ≠ d.nodes.size := Nat.ne_of_lt (lt_of_some hj)
    rw [nodes_setNode_of h2, nodes_setNode_of h1, nodes_alloc]
    by_cases hjP : j = P
    · subst hjP
      have e : pn = n := Option.some.inj (hP.symm.trans hj)
      exact ⟨{ pn with children := c }, by simp, by rw [e], Or.inl (by rw [e])⟩
    · exact ⟨n, by simp [hjP, hjne, hj], rfl, Or.inl rfl⟩
  · intro j n' hj hj'
    rw [nodes_setNode_of h2, nodes_setNode_of h1, nodes_alloc] at hj'
    by_cases hjP : j = P
    · subst hjP; rw [hP] at hj; cases hj
    · by_cases hjs : j = d.nodes.size
      · rw [hjs] at hj' hjP
        simp [hjP] at hj'
        subst hj'; rfl
      · simp [hjP, hjs, hj] at hj'

theorem append_textStep {d d1 : Dom} {p : Id} {s : Str} (h : d.append p (.text s) = .ok d1) : TextStep d d1 := by
  cases hp : d.nodes[p]? with
  | none => rw [append_text_badp hp] at h; cases h
  | some pn =>
    cases hl : pn.children.getLast? with
    | none =>
      rw [append_text_empty hp hl] at h; cases h
      exact textStep_fresh hp _ s
    | some hh =>
      cases hhn : d.nodes[hh]? with
      | none => rw [append_text_badh hp hl hhn] at h; cases h
      | some hn =>
        cases hd : isTextData hn.data with
        | false =>
          rw [append_text_new hp hl hhn hd] at h; cases h
          exact textStep_fresh hp _ s
        | true =>
          cases hdd : hn.data with
          | text old =>
            rw [append_text_ext hp hl hhn hdd] at h; cases h
            exact textStep_setData hhn hdd _
          | document | doctype _ _ _ | comment _ | element _ _ _ _ | pi _ _ => rw [hdd] at hd; cases hd

theorem abs_textStep {d d1 : Dom} {sib : Id} {s : Str} (h : d.appendBeforeSibling sib (.text s) = .ok d1) :
    TextStep d d1 := by
  rw [abs_text_eq] at h
  cases hg : d.getParentAndIndex sib with
  | error e => rw [hg] at h; cases h
  | ok r =>
    rw [hg] at h
    cases r with
    | none => cases h
    | some pi =>
      obtain ⟨P, i⟩ := pi
      obtain ⟨sn, pn, hs, hpar, hP, hi⟩ := gpi_inv hg
      change absText d P i s = .ok d1 at h
      have hlen : i < pn.children.length := (H5V.Lemmas.Dom.indexOf?_some hi).2.2
      by_cases hi0 : i = 0
      · subst hi0
        rw [absText_zero hP] at h; cases h
        exact textStep_fresh hP _ s
      · have hprev : ∃ prev, pn.children[i - 1]? = some prev := by
          have : i - 1 < pn.children.length := by omega
          exact ⟨pn.children[i - 1], by simp [this]⟩
        obtain ⟨prev, hprev⟩ := hprev
        cases hh : d.nodes[prev]? with
        | none => rw [absText_badprev hP hi0 hprev hh] at h; cases h
        | some hn =>
          cases hd : isTextData hn.data with
          | false =>
            rw [absText_new hP hi0 hprev hh hd (Nat.le_of_lt hlen)] at h; cases h
            exact textStep_fresh hP _ s
          | true =>
            cases hdd : hn.data with
            | text old =>
              rw [absText_ext hP hi0 hprev hh hdd] at h; cases h
              exact textStep_setData hh hdd _
            | document | doctype _ _ _ | comment _ | element _ _ _ _ | pi _ _ => rw [hdd] at hd; cases hd

/-! ### group B: the three merge theorems at the level of `Dom.apply` -/

theorem apply_append (d : Dom) (p : Id) (c : NodeOrText) :
    Dom.apply d (.append p c) = (d.append p c >>= fun d' => .ok (d', Output.unit)) := rfl

theorem absV_text (d : Dom) (s : Id) (z : Str) :
    Dom.appendBeforeSiblingV Dom.beforeSiblingVariant d s (.text z) = d.appendBeforeSibling s (.text z) := rfl

theorem apply_abs_text (d : Dom) (s : Id) (z : Str) :
    Dom.apply d (.appendBeforeSibling s (.text z)) =
      (d.appendBeforeSibling s (.text z) >>= fun d' => .ok (d', Output.unit)) := rfl

theorem apply_abpn_text (d : Dom) (e p : Id) (z : Str) :
    Dom.apply d (.appendBasedOnParentNode e p (.text z)) =
      (d.get e >>= fun en =>
        (if en.parent.isSome then d.appendBeforeSibling e (.text z) else d.append p (.text z)) >>=
          fun d' => .ok (d', Output.unit)) := by
  show (Dom.appendBasedOnParentNodeV Dom.beforeSiblingVariant d e p (.text z) >>= fun d' => .ok (d', Output.unit)) = _
  unfold Dom.appendBasedOnParentNodeV
  simp only [bind, Except.bind]
  cases d.get e with
  | error x => rfl
  | ok en =>
    simp only
    cases en.parent.isSome <;> rfl

theorem append_text_merge (d : Dom) (p : Id) (x y : Str) :
    Dom.apply d (.append p (.text (x ++ y))) =
      (Dom.apply d (.append p (.text x))) >>= fun r => Dom.apply r.1 (.append p (.text y)) := by
  simp only [apply_append, append_merge]
  cases d.append p (.text x) with
  | error e => rfl
  | ok d1 => rfl

theorem appendBeforeSibling_text_merge (d : Dom) (s : Id) (x y : Str) :
    Dom.apply d (.appendBeforeSibling s (.text (x ++ y))) =
      (Dom.apply d (.appendBeforeSibling s (.text x))) >>= fun r => Dom.apply r.1 (.appendBeforeSibling s (.text y)) := by
  simp only [apply_abs_text, abs_merge]
  cases d.appendBeforeSibling s (.text x) with
  | error e => rfl
  | ok d1 => rfl

theorem appendBasedOnParentNode_text_merge (d : Dom) (e p : Id) (x y : Str) :
    Dom.apply d (.appendBasedOnParentNode e p (.text (x ++ y))) =
      (Dom.apply d (.appendBasedOnParentNode e p (.text x))) >>=
        fun r => Dom.apply r.1 (.appendBasedOnParentNode e p (.text y)) := by
  simp only [apply_abpn_text]
  cases he : d.nodes[e]? with
  | none => rw [get_none he]; rfl
  | some en =>
    rw [get_some he]
    show ((if en.parent.isSome then d.appendBeforeSibling e (.text (x ++ y)) else d.append p (.text (x ++ y))) >>=
          fun d' => .ok (d', Output.unit)) =
      ((if en.parent.isSome then d.appendBeforeSibling e (.text x) else d.append p (.text x)) >>=
          fun d' => Except.ok (d', Output.unit)) >>= fun r => _
    cases hpar : en.parent.isSome with
    | true =>
      simp only [if_true, abs_merge]
      cases h1 : d.appendBeforeSibling e (.text x) with
      | error e => rfl
      | ok d1 =>
        obtain ⟨en', he', hp', _⟩ := (abs_textStep h1).1 e en he
        show (d1.appendBeforeSibling e (.text y) >>= fun d' => .ok (d', Output.unit)) =
          (d1.get e >>= fun en => _)
        rw [get_some he']
        show _ = ((if en'.parent.isSome then d1.appendBeforeSibling e (.text y) else d1.append p (.text y)) >>= fun d' => Except.ok (d', Output.unit))
        rw [hp', hpar]; rfl
    | false =>
      simp only [Bool.false_eq_true, if_false, append_merge]
      cases h1 : d.append p (.text x) with
      | error e => rfl
      | ok d1 =>
        obtain ⟨en', he', hp', _⟩ := (append_textStep h1).1 e en he
        show (d1.append p (.text y) >>= fun d' => .ok (d', Output.unit)) =
          (d1.get e >>= fun en => _)
        rw [get_some he']
        show _ = ((if en'.parent.isSome then d1.appendBeforeSibling e (.text y) else d1.append p (.text y)) >>= fun d' => Except.ok (d', Output.unit))
        rw [hp', hpar]; rfl


/-! ### group A: `Dom.apply` does not look at the parse-error log -/

def wE (d : Dom) (e : List Str) : Dom := { d with errorsRev := e }

def errUpd : SinkOp → List Str → List Str
  | .parseError msg, e => msg :: e
  | _, e => e

/-- map over the `Dom` of an `Except String Dom` -/
def mE (e : List Str) (r : Except String Dom) : Except String Dom :=
  match r with
  | .ok d => .ok (wE d e)
  | .error x => .error x

/-- map over the `Dom` component of an `Except String (Dom × α)` -/
def mP {α : Type} (e : List Str) (r : Except String (Dom × α)) : Except String (Dom × α) :=
  match r with
  | .ok (d, a) => .ok (wE d e, a)
  | .error x => .error x

@[simp] theorem get_wE (d : Dom) (e : List Str) (i : Id) : (wE d e).get i = d.get i := rfl
@[simp] theorem setNode_wE (d : Dom) (e : List Str) (i : Id) (n : Node) :
    (wE d e).setNode i n = wE (d.setNode i n) e := rfl
@[simp] theorem size_wE (d : Dom) (e : List Str) : (wE d e).size = d.size := rfl
@[simp] theorem nodes_wE (d : Dom) (e : List Str) : (wE d e).nodes = d.nodes := rfl
@[simp] theorem childrenOf_wE (d : Dom) (e : List Str) (i : Id) : (wE d e).childrenOf i = d.childrenOf i := rfl
@[simp] theorem localNameOf_wE (d : Dom) (e : List Str) (i : Id) : (wE d e).localNameOf i = d.localNameOf i := rfl
theorem alloc_wE (d : Dom) (e : List Str) (data : NodeData) :
    (wE d e).alloc data = (wE (d.alloc data).1 e, (d.alloc data).2) := rfl
@[simp] theorem alloc_wE_fst (d : Dom) (e : List Str) (data : NodeData) :
    ((wE d e).alloc data).1 = wE (d.alloc data).1 e := rfl
@[simp] theorem alloc_wE_snd (d : Dom) (e : List Str) (data : NodeData) :
    ((wE d e).alloc data).2 = (d.alloc data).2 := rfl

@[simp] theorem mE_ok (e : List Str) (d : Dom) : mE e (.ok d) = .ok (wE d e) := rfl
@[simp] theorem mE_error (e : List Str) (x : String) : mE e (.error x) = .error x := rfl

theorem appendRaw_wE (d : Dom) (e : List Str) (p c : Id) :
    (wE d e).appendRaw p c = mE e (d.appendRaw p c) := by
  unfold Dom.appendRaw
  simp only [bind, Except.bind, get_wE, setNode_wE]
  cases d.get c with
  | error x => rfl
  | ok cn =>
    simp only
    by_cases hp : cn.parent.isSome
    · simp only [hp, if_true]; rfl
    · simp only [hp]
      cases (d.setNode c { cn with parent := some p }).get p <;> rfl

theorem getParentAndIndex_wE (d : Dom) (e : List Str) (t : Id) :
    (wE d e).getParentAndIndex t = d.getParentAndIndex t := rfl

theorem removeFromParent_wE (d : Dom) (e : List Str) (t : Id) :
    (wE d e).removeFromParent t = mE e (d.removeFromParent t) := by
  unfold Dom.removeFromParent
  simp only [bind, Except.bind, getParentAndIndex_wE, get_wE, setNode_wE]
  cases d.getParentAndIndex t with
  | error x => rfl
  | ok r =>
    cases r with
    | none => rfl
    | some pi =>
      obtain ⟨p, i⟩ := pi
      simp only
      cases d.get p with
      | error x => rfl
      | ok pn =>
        simp only
        cases (d.setNode p { pn with children := removeAt pn.children i }).get t <;> rfl


theorem append_wE (d : Dom) (e : List Str) (p : Id) (c : NodeOrText) :
    (wE d e).append p c = mE e (d.append p c) := by
  unfold Dom.append
  cases c with
  | node c => exact appendRaw_wE d e p c
  | text s =>
    simp only [bind, Except.bind, get_wE, setNode_wE, alloc_wE_fst, alloc_wE_snd]
    cases d.get p with
    | error x => rfl
    | ok pn =>
      simp only
      cases pn.children.getLast? with
      | none => exact appendRaw_wE _ e p _
      | some h =>
        simp only
        cases d.get h with
        | error x => rfl
        | ok hn =>
          simp only
          cases hn.data with
          | text old => rfl
          | document | doctype _ _ _ | comment _ | element _ _ _ _ | pi _ _ =>
            simp only; exact appendRaw_wE _ e p _

theorem insertAtIndex_wE (d : Dom) (e : List Str) (p : Id) (i : Nat) (c : Id) :
    (wE d e).insertAtIndex p i c = mE e (d.insertAtIndex p i c) := by
  unfold Dom.insertAtIndex
  simp only [bind, Except.bind, removeFromParent_wE]
  cases d.removeFromParent c with
  | error x => rfl
  | ok d1 =>
    simp only [mE_ok, get_wE, setNode_wE]
    cases d1.get c with
    | error x => rfl
    | ok cn =>
      simp only
      cases (d1.setNode c { cn with parent := some p }).get p with
      | error x => rfl
      | ok pn =>
        simp only
        by_cases hi : i > pn.children.length
        · simp only [hi, if_true]; rfl
        · simp only [hi, if_false]; rfl

theorem appendBeforeSibling_wE (d : Dom) (e : List Str) (s : Id) (c : NodeOrText) :
    (wE d e).appendBeforeSibling s c = mE e (d.appendBeforeSibling s c) := by
  unfold Dom.appendBeforeSibling
  simp only [bind, Except.bind, getParentAndIndex_wE, alloc_wE_fst, alloc_wE_snd]
  cases d.getParentAndIndex s with
  | error x => rfl
  | ok r =>
    cases r with
    | none => rfl
    | some pi =>
      obtain ⟨p, i⟩ := pi
      simp only
      cases c with
      | node c => exact insertAtIndex_wE d e p i c
      | text s =>
        simp only
        by_cases hi : i = 0
        · simp only [hi, if_true]
          exact insertAtIndex_wE _ e p 0 _
        · simp only [hi, if_false, get_wE, setNode_wE]
          cases d.get p with
          | error x => rfl
          | ok pn =>
            simp only
            cases pn.children[i - 1]? with
            | none => rfl
            | some prev =>
              simp only
              cases d.get prev with
              | error x => rfl
              | ok prevn =>
                simp only
                cases prevn.data with
                | text old => rfl
                | document | doctype _ _ _ | comment _ | element _ _ _ _ | pi _ _ =>
                  simp only; exact insertAtIndex_wE _ e p i _

theorem preDetach_wE (b : Dom.BeforeSiblingVariant) (d : Dom) (e : List Str) (c : NodeOrText) :
    Dom.preDetach b (wE d e) c = mE e (Dom.preDetach b d c) := by
  cases c with
  | text s => rfl
  | node c =>
    cases b with
    | asCode => rfl
    | detachFirst => exact removeFromParent_wE d e c

theorem appendBeforeSiblingV_wE (b : Dom.BeforeSiblingVariant) (d : Dom) (e : List Str) (s : Id) (c : NodeOrText) :
    Dom.appendBeforeSiblingV b (wE d e) s c = mE e (Dom.appendBeforeSiblingV b d s c) := by
  unfold Dom.appendBeforeSiblingV
  simp only [bind, Except.bind, preDetach_wE]
  cases Dom.preDetach b d c with
  | error x => rfl
  | ok d1 => exact appendBeforeSibling_wE d1 e s c

theorem appendBasedOnParentNodeV_wE (b : Dom.BeforeSiblingVariant) (d : Dom) (e : List Str) (el p : Id)
    (c : NodeOrText) :
    Dom.appendBasedOnParentNodeV b (wE d e) el p c = mE e (Dom.appendBasedOnParentNodeV b d el p c) := by
  unfold Dom.appendBasedOnParentNodeV
  simp only [bind, Except.bind, get_wE]
  cases d.get el with
  | error x => rfl
  | ok en =>
    simp only
    cases en.parent.isSome with
    | true => exact appendBeforeSiblingV_wE b d e el c
    | false => exact append_wE d e p c

theorem appendDoctypeToDocument_wE (d : Dom) (e : List Str) (n p s : Str) :
    (wE d e).appendDoctypeToDocument n p s = mE e (d.appendDoctypeToDocument n p s) :=
  appendRaw_wE (d.alloc (.doctype n p s)).1 e Dom.document _

theorem addAttrsIfMissing_wE (d : Dom) (e : List Str) (t : Id) (attrs : List Attr) :
    (wE d e).addAttrsIfMissing t attrs = mE e (d.addAttrsIfMissing t attrs) := by
  unfold Dom.addAttrsIfMissing
  simp only [bind, Except.bind, get_wE]
  cases d.get t with
  | error x => rfl
  | ok tn =>
    simp only
    cases tn.data <;> rfl

theorem reparentLoop_wE (e : List Str) (node np : Id) : ∀ (cs : List Id) (d : Dom),
    Dom.reparentLoop (wE d e) node np cs = mE e (Dom.reparentLoop d node np cs) := by
  intro cs
  induction cs with
  | nil => intro d; rfl
  | cons c cs ih =>
    intro d
    simp only [Dom.reparentLoop, bind, Except.bind, get_wE]
    cases d.get c with
    | error x => rfl
    | ok cn =>
      simp only
      cases cn.parent with
      | none => rfl
      | some pp =>
        simp only
        by_cases hpp : pp = node
        · simp only [hpp, ne_eq, not_true_eq_false, if_false, setNode_wE]
          exact ih _
        · simp only [ne_eq, hpp, not_false_eq_true, if_true]; rfl

theorem reparentChildren_wE (d : Dom) (e : List Str) (node np : Id) :
    (wE d e).reparentChildren node np = mE e (d.reparentChildren node np) := by
  unfold Dom.reparentChildren
  simp only [bind, Except.bind, get_wE]
  cases d.get node with
  | error x => rfl
  | ok n =>
    simp only
    cases d.get np with
    | error x => rfl
    | ok npn =>
      simp only
      by_cases hn : node = np
      · simp only [hn, if_true]; rfl
      · simp only [hn, if_false, reparentLoop_wE]
        cases Dom.reparentLoop d node np n.children with
        | error x => rfl
        | ok d1 =>
          simp only [mE_ok, get_wE]
          cases d1.get node with
          | error x => rfl
          | ok n1 =>
            simp only
            cases d1.get np with
            | error x => rfl
            | ok np1 =>
              simp only [setNode_wE, get_wE]
              cases (d1.setNode np { np1 with children := np1.children ++ n1.children }).get node <;> rfl

theorem elemName_wE (d : Dom) (e : List Str) (t : Id) : (wE d e).elemName t = d.elemName t := rfl
theorem getTemplateContents_wE (d : Dom) (e : List Str) (t : Id) :
    (wE d e).getTemplateContents t = d.getTemplateContents t := rfl
theorem isMathml_wE (d : Dom) (e : List Str) (t : Id) :
    (wE d e).isMathmlAnnotationXmlIntegrationPoint t = d.isMathmlAnnotationXmlIntegrationPoint t := rfl

theorem createElement_wE (d : Dom) (e : List Str) (name : QualName) (attrs : List Attr) (flags : ElementFlags) :
    (wE d e).createElement name attrs flags =
      (wE (d.createElement name attrs flags).1 e, (d.createElement name attrs flags).2) := by
  unfold Dom.createElement
  cases flags.template <;> rfl
theorem createComment_wE (d : Dom) (e : List Str) (t : Str) :
    (wE d e).createComment t = (wE (d.createComment t).1 e, (d.createComment t).2) := rfl
theorem createPi_wE (d : Dom) (e : List Str) (t s : Str) :
    (wE d e).createPi t s = (wE (d.createPi t s).1 e, (d.createPi t s).2) := rfl


/-! the selectedcontent family (`CloneVariant.fixed`) -/

@[simp] theorem mP_ok {α : Type} (e : List Str) (d : Dom) (a : α) : mP e (.ok (d, a)) = .ok (wE d e, a) := rfl
@[simp] theorem mP_error {α : Type} (e : List Str) (x : String) : mP (α := α) e (.error x) = .error x := rfl

theorem nearestSelectLoop_wE (d : Dom) (e : List Str) : ∀ (fuel : Nat) (cur : Id) (saw : Bool),
    Dom.nearestSelectLoop (wE d e) fuel cur saw = Dom.nearestSelectLoop d fuel cur saw := by
  intro fuel
  induction fuel with
  | zero => intro cur saw; rfl
  | succ fuel ih =>
    intro cur saw
    simp only [Dom.nearestSelectLoop, get_wE, ih]

theorem nearestAncestorSelect_wE (d : Dom) (e : List Str) (o : Id) :
    (wE d e).nearestAncestorSelect o = d.nearestAncestorSelect o := by
  unfold Dom.nearestAncestorSelect
  simp only [get_wE, nearestSelectLoop_wE, size_wE]

theorem preorderAux_wE (d : Dom) (e : List Str) : ∀ (fuel : Nat) (x : Id),
    Dom.preorderAux (wE d e) fuel x = Dom.preorderAux d fuel x := by
  intro fuel
  induction fuel with
  | zero => intro x; rfl
  | succ fuel ih =>
    intro x
    have : Dom.preorderAux (wE d e) fuel = Dom.preorderAux d fuel := funext ih
    simp only [Dom.preorderAux, childrenOf_wE, this]

theorem descendants_wE (d : Dom) (e : List Str) (x : Id) : (wE d e).descendants x = d.descendants x := by
  have : (fun y => (wE d e).subtree y) = fun y => d.subtree y := by
    funext y; exact preorderAux_wE d e _ y
  unfold Dom.descendants
  rw [this]; rfl

theorem enabledSelectedcontent_wE (d : Dom) (e : List Str) (s : Id) :
    Dom.enabledSelectedcontent .fixed (wE d e) s = Dom.enabledSelectedcontent .fixed d s := by
  unfold Dom.enabledSelectedcontent
  simp only [get_wE, descendants_wE, localNameOf_wE]

theorem cloneTarget_wE (d : Dom) (e : List Str) (o : Id) :
    Dom.cloneTarget .fixed (wE d e) o = Dom.cloneTarget .fixed d o := by
  unfold Dom.cloneTarget
  simp only [get_wE, nearestAncestorSelect_wE, enabledSelectedcontent_wE]

theorem cloneKidsWith_wE (e : List Str) (cl : Dom → Id → Except String (Dom × Id))
    (hcl : ∀ d c, cl (wE d e) c = mP e (cl d c)) (parent : Id) : ∀ (cs : List Id) (d : Dom),
    Dom.cloneKidsWith cl parent (wE d e) cs = mE e (Dom.cloneKidsWith cl parent d cs) := by
  intro cs
  induction cs with
  | nil => intro d; rfl
  | cons c cs ih =>
    intro d
    simp only [Dom.cloneKidsWith, bind, Except.bind, hcl]
    cases cl d c with
    | error x => rfl
    | ok r =>
      obtain ⟨d1, k⟩ := r
      simp only [mP_ok, appendRaw_wE]
      cases d1.appendRaw parent k with
      | error x => rfl
      | ok d2 => exact ih d2

theorem cloneListWith_wE (e : List Str) (cl : Dom → Id → Except String (Dom × Id))
    (hcl : ∀ d c, cl (wE d e) c = mP e (cl d c)) : ∀ (cs : List Id) (d : Dom),
    Dom.cloneListWith cl (wE d e) cs = mP e (Dom.cloneListWith cl d cs) := by
  intro cs
  induction cs with
  | nil => intro d; rfl
  | cons c cs ih =>
    intro d
    simp only [Dom.cloneListWith, bind, Except.bind, hcl]
    cases cl d c with
    | error x => rfl
    | ok r =>
      obtain ⟨d1, k⟩ := r
      simp only [mP_ok, ih]
      cases Dom.cloneListWith cl d1 cs with
      | error x => rfl
      | ok r2 => rfl

theorem cloneFixed_wE (e : List Str) : ∀ (fuel : Nat) (d : Dom) (x : Id),
    Dom.cloneFixed (wE d e) fuel x = mP e (Dom.cloneFixed d fuel x) := by
  intro fuel
  induction fuel with
  | zero => intro d x; rfl
  | succ fuel ih =>
    intro d x
    have tail : ∀ (d : Dom) (data : NodeData) (cs : List Id),
        (Dom.cloneKidsWith (fun d c => Dom.cloneFixed d fuel c) ((wE d e).alloc data).2 ((wE d e).alloc data).1 cs >>=
            fun d' => Except.ok (d', ((wE d e).alloc data).2)) =
          mP e (Dom.cloneKidsWith (fun d c => Dom.cloneFixed d fuel c) (d.alloc data).2 (d.alloc data).1 cs >>=
            fun d' => Except.ok (d', (d.alloc data).2)) := by
      intro d data cs
      show (Dom.cloneKidsWith (fun d c => Dom.cloneFixed d fuel c) (d.alloc data).2 (wE (d.alloc data).1 e) cs >>=
            fun d' => Except.ok (d', (d.alloc data).2)) = _
      rw [cloneKidsWith_wE e (fun d c => Dom.cloneFixed d fuel c) (fun d c => ih d c)]
      cases Dom.cloneKidsWith (fun d c => Dom.cloneFixed d fuel c) (d.alloc data).2 (d.alloc data).1 cs <;> rfl
    simp only [Dom.cloneFixed, bind, Except.bind, get_wE]
    cases d.get x with
    | error x => rfl
    | ok n =>
      simp only
      cases n.data with
      | element name attrs tc ip =>
        cases tc with
        | none => exact tail d _ _
        | some tc =>
          simp only [ih]
          cases Dom.cloneFixed d fuel tc with
          | error x => rfl
          | ok r =>
            obtain ⟨d1, tc'⟩ := r
            exact tail d1 _ _
      | document | doctype _ _ _ | comment _ | text _ | pi _ _ => exact tail d _ _

theorem clearParents_wE (e : List Str) : ∀ (cs : List Id) (d : Dom),
    Dom.clearParents (wE d e) cs = wE (Dom.clearParents d cs) e := by
  intro cs
  induction cs with
  | nil => intro d; rfl
  | cons c cs ih =>
    intro d
    simp only [Dom.clearParents, nodes_wE]
    cases d.nodes[c]? with
    | none => exact ih d
    | some cn => simp only [setNode_wE]; exact ih _

theorem detachChildren_wE (d : Dom) (e : List Str) (p : Id) :
    (wE d e).detachChildren p = mE e (d.detachChildren p) := by
  unfold Dom.detachChildren
  simp only [bind, Except.bind, get_wE, clearParents_wE]
  cases d.get p with
  | error x => rfl
  | ok pn =>
    simp only
    cases (Dom.clearParents d pn.children).get p <;> rfl

theorem attachAll_wE (e : List Str) (p : Id) : ∀ (ks : List Id) (d : Dom),
    Dom.attachAll (wE d e) p ks = mE e (Dom.attachAll d p ks) := by
  intro ks
  induction ks with
  | nil => intro d; rfl
  | cons k ks ih =>
    intro d
    simp only [Dom.attachAll, bind, Except.bind, appendRaw_wE]
    cases d.appendRaw p k with
    | error x => rfl
    | ok d1 => exact ih d1

theorem cloneOptionInto_wE (d : Dom) (e : List Str) (o sc : Id) :
    Dom.cloneOptionInto .fixed (wE d e) o sc = mE e (Dom.cloneOptionInto .fixed d o sc) := by
  unfold Dom.cloneOptionInto
  simp only [bind, Except.bind, get_wE]
  cases d.get o with
  | error x => rfl
  | ok on =>
    simp only
    rw [cloneListWith_wE e _ (fun d c => cloneFixed_wE e (d.size + 1) d c)]
    cases Dom.cloneListWith (fun d c => Dom.cloneFixed d (d.size + 1) c) d on.children with
    | error x => rfl
    | ok r =>
      obtain ⟨d1, frag⟩ := r
      simp only [mP_ok, detachChildren_wE]
      cases d1.detachChildren sc with
      | error x => rfl
      | ok d2 => exact attachAll_wE e sc frag d2

theorem maybeCloneOption_wE (d : Dom) (e : List Str) (o : Id) :
    Dom.maybeCloneOption .fixed (wE d e) o = mE e (Dom.maybeCloneOption .fixed d o) := by
  unfold Dom.maybeCloneOption
  simp only [bind, Except.bind, cloneTarget_wE]
  cases Dom.cloneTarget .fixed d o with
  | error x => rfl
  | ok r =>
    cases r with
    | none => rfl
    | some sc => exact cloneOptionInto_wE d e o sc


theorem apply_wE (d : Dom) (e : List Str) (op : SinkOp) :
    Dom.apply (wE d e) op =
      match Dom.apply d op with
      | .ok (d', o) => .ok (wE d' (errUpd op e), o)
      | .error x => .error x := by
  unfold Dom.apply
  cases op with
  | parseError msg => rfl
  | getDocument => rfl
  | elemName t =>
    simp only [Dom.applyV, elemName_wE, bind, Except.bind]
    cases d.elemName t <;> rfl
  | createElement name attrs flags =>
    simp only [Dom.applyV, createElement_wE]; rfl
  | createComment text => rfl
  | createPi target data => rfl
  | append p c =>
    simp only [Dom.applyV, append_wE, bind, Except.bind]
    cases d.append p c <;> rfl
  | appendBasedOnParentNode el p c =>
    simp only [Dom.applyV, appendBasedOnParentNodeV_wE, bind, Except.bind]
    cases Dom.appendBasedOnParentNodeV Dom.beforeSiblingVariant d el p c <;> rfl
  | appendDoctypeToDocument n p s =>
    simp only [Dom.applyV, appendDoctypeToDocument_wE, bind, Except.bind]
    cases d.appendDoctypeToDocument n p s <;> rfl
  | markScriptAlreadyStarted n => rfl
  | pop n => rfl
  | getTemplateContents t =>
    simp only [Dom.applyV, getTemplateContents_wE, bind, Except.bind]
    cases d.getTemplateContents t <;> rfl
  | sameNode x y => rfl
  | setQuirksMode m => rfl
  | appendBeforeSibling s c =>
    simp only [Dom.applyV, appendBeforeSiblingV_wE, bind, Except.bind]
    cases Dom.appendBeforeSiblingV Dom.beforeSiblingVariant d s c <;> rfl
  | addAttrsIfMissing t a =>
    simp only [Dom.applyV, addAttrsIfMissing_wE, bind, Except.bind]
    cases d.addAttrsIfMissing t a <;> rfl
  | associateWithForm t f n p => rfl
  | removeFromParent t =>
    simp only [Dom.applyV, removeFromParent_wE, bind, Except.bind]
    cases d.removeFromParent t <;> rfl
  | reparentChildren n np =>
    simp only [Dom.applyV, reparentChildren_wE, bind, Except.bind]
    cases d.reparentChildren n np <;> rfl
  | isMathmlAnnotationXmlIntegrationPoint t =>
    simp only [Dom.applyV, isMathml_wE, bind, Except.bind]
    cases d.isMathmlAnnotationXmlIntegrationPoint t <;> rfl
  | setCurrentLine l => rfl
  | allowDeclarativeShadowRoots p => rfl
  | attachDeclarativeShadow l t a => rfl
  | maybeCloneAnOptionIntoSelectedcontent o =>
    have : Dom.cloneVariant = .fixed := rfl
    simp only [Dom.applyV, this, maybeCloneOption_wE, bind, Except.bind]
    cases Dom.maybeCloneOption .fixed d o <;> rfl



/-! ### group C: queries are stable under text insertion -/

/-- equal results, or both fail (the message is ignored) -/
def RelE {α : Type} (a b : Except String α) : Prop :=
  match a, b with
  | .ok x, .ok y => x = y
  | .error _, .error _ => True
  | _, _ => False

theorem RelE.refl {α : Type} (a : Except String α) : RelE a a := by
  cases a <;> simp [RelE]

theorem RelE.symm {α : Type} {a b : Except String α} (h : RelE a b) : RelE b a := by
  cases a <;> cases b <;> simp_all [RelE]

theorem RelE.trans {α : Type} {a b c : Except String α} (h1 : RelE a b) (h2 : RelE b c) : RelE a c := by
  cases a <;> cases b <;> cases c <;> simp_all [RelE]

theorem RelE.of_eq {α : Type} {a b : Except String α} (h : a = b) : RelE a b := h ▸ RelE.refl a

def isTextIns : SinkOp → Bool
  | .append _ (.text _) => true
  | .appendBeforeSibling _ (.text _) => true
  | .appendBasedOnParentNode _ _ (.text _) => true
  | _ => false

theorem apply_append_ok {d d' : Dom} {p : Id} {c : NodeOrText} {o : Output}
    (h : Dom.apply d (.append p c) = .ok (d', o)) : d.append p c = .ok d' := by
  rw [apply_append] at h
  cases h1 : d.append p c with
  | error x => rw [h1] at h; cases h
  | ok d1 => rw [h1] at h; cases h; rfl

theorem apply_abs_text_ok {d d' : Dom} {s : Id} {z : Str} {o : Output}
    (h : Dom.apply d (.appendBeforeSibling s (.text z)) = .ok (d', o)) :
    d.appendBeforeSibling s (.text z) = .ok d' := by
  rw [apply_abs_text] at h
  cases h1 : d.appendBeforeSibling s (.text z) with
  | error x => rw [h1] at h; cases h
  | ok d1 => rw [h1] at h; cases h; rfl

theorem apply_abpn_text_ok {d d' : Dom} {e p : Id} {z : Str} {o : Output}
    (h : Dom.apply d (.appendBasedOnParentNode e p (.text z)) = .ok (d', o)) :
    d.appendBeforeSibling e (.text z) = .ok d' ∨ d.append p (.text z) = .ok d' := by
  rw [apply_abpn_text] at h
  cases h0 : d.get e with
  | error x => rw [h0] at h; cases h
  | ok en =>
    rw [h0] at h
    change ((if en.parent.isSome then d.appendBeforeSibling e (.text z) else d.append p (.text z)) >>=
          fun d' => Except.ok (d', Output.unit)) = _ at h
    cases hpar : en.parent.isSome with
    | true =>
      rw [hpar] at h
      simp only [if_true] at h
      cases h1 : d.appendBeforeSibling e (.text z) with
      | error x => rw [h1] at h; cases h
      | ok d1 => rw [h1] at h; cases h; exact Or.inl rfl
    | false =>
      rw [hpar] at h
      simp only [Bool.false_eq_true, if_false] at h
      cases h1 : d.append p (.text z) with
      | error x => rw [h1] at h; cases h
      | ok d1 => rw [h1] at h; cases h; exact Or.inr rfl

theorem textIns_textStep {d d' : Dom} {op : SinkOp} {o : Output} (hop : isTextIns op = true)
    (h : Dom.apply d op = .ok (d', o)) : TextStep d d' := by
  cases op with
  | append p c =>
    cases c with
    | text s => exact append_textStep (apply_append_ok h)
    | node c => cases hop
  | appendBeforeSibling s c =>
    cases c with
    | text z => exact abs_textStep (apply_abs_text_ok h)
    | node c => cases hop
  | appendBasedOnParentNode e p c =>
    cases c with
    | text z =>
      rcases apply_abpn_text_ok h with h1 | h1
      · exact abs_textStep h1
      · exact append_textStep h1
    | node c => cases hop
  | _ => cases hop

/-- a query that reads the data of one node and fails on text nodes -/
theorem textStep_query {α : Type} {d d' : Dom} (hs : TextStep d d') (f : NodeData → Except String α)
    (hf : ∀ dt, isTextData dt = true → ∃ x, f dt = .error x) (t : Id) :
    RelE (d.get t >>= fun n => f n.data) (d'.get t >>= fun n => f n.data) := by
  cases ht : d.nodes[t]? with
  | none =>
    rw [get_none ht]
    cases ht' : d'.nodes[t]? with
    | none => rw [get_none ht']; exact True.intro
    | some n' =>
      rw [get_some ht']
      obtain ⟨x, hx⟩ := hf _ (hs.2 t n' ht ht')
      show RelE (Except.error _) (f n'.data)
      rw [hx]; exact True.intro
  | some n =>
    obtain ⟨n', ht', _, hd⟩ := hs.1 t n ht
    rw [get_some ht, get_some ht']
    show RelE (f n.data) (f n'.data)
    rcases hd with hd | ⟨h1, h2⟩
    · rw [hd]; exact RelE.refl _
    · obtain ⟨x, hx⟩ := hf _ h1
      obtain ⟨x', hx'⟩ := hf _ h2
      rw [hx, hx']; exact True.intro

def enD : NodeData → Except String (Str × Str)
  | .element n _ _ _ => .ok (n.ns, n.loc)
  | _ => .error "not-element: elem_name"

def tcD : NodeData → Except String Id
  | .element _ _ (some tc) _ => .ok tc
  | .element _ _ none _ => .error "not-template: get_template_contents: expect(\"not a template element!\")"
  | _ => .error "not-template: get_template_contents: panic!(\"not a template element!\")"

def ipD : NodeData → Except String Bool
  | .element _ _ _ ip => .ok ip
  | _ => .error "not-element: is_mathml_annotation_xml_integration_point"

theorem elemName_eq (d : Dom) (t : Id) : d.elemName t = d.get t >>= fun n => enD n.data := by
  unfold Dom.elemName
  simp only [bind, Except.bind]
  cases d.get t with
  | error x => rfl
  | ok n => simp only; cases n.data <;> rfl

theorem getTemplateContents_eq (d : Dom) (t : Id) :
    d.getTemplateContents t = d.get t >>= fun n => tcD n.data := by
  unfold Dom.getTemplateContents
  simp only [bind, Except.bind]
  cases d.get t with
  | error x => rfl
  | ok n =>
    simp only
    cases n.data with
    | element n a tc ip => cases tc <;> rfl
    | document | doctype _ _ _ | comment _ | text _ | pi _ _ => rfl

theorem isMathml_eq (d : Dom) (t : Id) :
    d.isMathmlAnnotationXmlIntegrationPoint t = d.get t >>= fun n => ipD n.data := by
  unfold Dom.isMathmlAnnotationXmlIntegrationPoint
  simp only [bind, Except.bind]
  cases d.get t with
  | error x => rfl
  | ok n => simp only; cases n.data <;> rfl

theorem textStep_queries {d d' : Dom} (hs : TextStep d d') (t : Id) :
    RelE (d.elemName t) (d'.elemName t) ∧ RelE (d.getTemplateContents t) (d'.getTemplateContents t) ∧
    RelE (d.isMathmlAnnotationXmlIntegrationPoint t) (d'.isMathmlAnnotationXmlIntegrationPoint t) := by
  refine ⟨?_, ?_, ?_⟩
  · rw [elemName_eq, elemName_eq]
    refine textStep_query hs enD ?_ t
    intro dt hdt; cases dt <;> first | exact ⟨_, rfl⟩ | cases hdt
  · rw [getTemplateContents_eq, getTemplateContents_eq]
    refine textStep_query hs tcD ?_ t
    intro dt hdt; cases dt <;> first | exact ⟨_, rfl⟩ | cases hdt
  · rw [isMathml_eq, isMathml_eq]
    refine textStep_query hs ipD ?_ t
    intro dt hdt; cases dt <;> first | exact ⟨_, rfl⟩ | cases hdt

theorem textIns_queries {d d' : Dom} {op : SinkOp} {o : Output} (hop : isTextIns op = true)
    (h : Dom.apply d op = .ok (d', o)) (t : Id) :
    RelE (d.elemName t) (d'.elemName t) ∧ RelE (d.getTemplateContents t) (d'.getTemplateContents t) ∧
    RelE (d.isMathmlAnnotationXmlIntegrationPoint t) (d'.isMathmlAnnotationXmlIntegrationPoint t) :=
  textStep_queries (textIns_textStep hop h) t


/-! ### group D: element names survive node insertion -/

/-- every node of `d` is a node of `d'` with the same data -/
def SameData (d d' : Dom) : Prop :=
  ∀ (j : Id) (n : Node), d.nodes[j]? = some n → ∃ n', d'.nodes[j]? = some n' ∧ n'.data = n.data

theorem SameData.refl (d : Dom) : SameData d d := fun _ n h => ⟨n, h, rfl⟩

theorem SameData.trans {a b c : Dom} (h1 : SameData a b) (h2 : SameData b c) : SameData a c := by
  intro j n hj
  obtain ⟨n1, hj1, e1⟩ := h1 j n hj
  obtain ⟨n2, hj2, e2⟩ := h2 j n1 hj1
  exact ⟨n2, hj2, e2.trans e1⟩

theorem SameData.of_nodes {d d' : Dom} (h : d'.nodes = d.nodes) : SameData d d' := by
  intro j n hj; exact ⟨n, by rw [h]; exact hj, rfl⟩

theorem SameData.setNode {d : Dom} {i : Id} {n0 n : Node} (h : d.nodes[i]? = some n0) (hd : n.data = n0.data) :
    SameData d (d.setNode i n) := by
  intro j m hj
  rw [nodes_setNode_of h]
  by_cases hji : j = i
  · subst hji
    have e : n0 = m := Option.some.inj (h.symm.trans hj)
    exact ⟨n, by simp, by rw [hd, e]⟩
  · exact ⟨m, by simp [hji, hj], rfl⟩

theorem SameData.alloc (d : Dom) (data : NodeData) : SameData d (d.alloc data).1 := by
  intro j m hj
  have : j ≠ d.nodes.size := Nat.ne_of_lt (lt_of_some hj)
  exact ⟨m, by rw [nodes_alloc]; simp [this, hj], rfl⟩

/-- the element names of `d` are still there in `d'` -/
def NameKeep (d d' : Dom) : Prop :=
  ∀ (t : Id) (r : Str × Str), d.elemName t = .ok r → d'.elemName t = .ok r

theorem NameKeep.refl (d : Dom) : NameKeep d d := fun _ _ h => h

theorem NameKeep.trans {a b c : Dom} (h1 : NameKeep a b) (h2 : NameKeep b c) : NameKeep a c :=
  fun t r h => h2 t r (h1 t r h)

theorem elemName_ok_inv {d : Dom} {t : Id} {r : Str × Str} (h : d.elemName t = .ok r) :
    ∃ n, d.nodes[t]? = some n ∧ enD n.data = .ok r := by
  rw [elemName_eq] at h
  cases ht : d.nodes[t]? with
  | none => rw [get_none ht] at h; cases h
  | some n => rw [get_some ht] at h; exact ⟨n, rfl, h⟩

theorem elemName_of {d : Dom} {t : Id} {n : Node} (ht : d.nodes[t]? = some n) : d.elemName t = enD n.data := by
  rw [elemName_eq, get_some ht]; rfl

theorem SameData.nameKeep {d d' : Dom} (h : SameData d d') : NameKeep d d' := by
  intro t r hr
  obtain ⟨n, ht, hn⟩ := elemName_ok_inv hr
  obtain ⟨n', ht', hd⟩ := h t n ht
  rw [elemName_of ht', hd]; exact hn

theorem TextStep.nameKeep {d d' : Dom} (h : TextStep d d') : NameKeep d d' := by
  intro t r hr
  obtain ⟨n, ht, hn⟩ := elemName_ok_inv hr
  obtain ⟨n', ht', _, hd⟩ := h.1 t n ht
  rw [elemName_of ht']
  rcases hd with hd | ⟨h1, _⟩
  · rw [hd]; exact hn
  · cases hdd : n.data with
    | text s => rw [hdd] at hn; cases hn
    | document | doctype _ _ _ | comment _ | element _ _ _ _ | pi _ _ => rw [hdd] at h1; cases h1

theorem alloc_elemName (d : Dom) (name : QualName) (attrs : List Attr) (tc : Option Id) (ip : Bool) :
    (d.alloc (.element name attrs tc ip)).1.elemName (d.alloc (.element name attrs tc ip)).2 =
      .ok (name.ns, name.loc) := by
  have h1 : (d.alloc (.element name attrs tc ip)).1.nodes[d.nodes.size]? =
      some { data := .element name attrs tc ip } := by
    rw [nodes_alloc]; simp
  exact (elemName_of h1).trans rfl

theorem createElement_elemName (d : Dom) (name : QualName) (attrs : List Attr) (flags : ElementFlags) :
    ((d.createElement name attrs flags).1).elemName (d.createElement name attrs flags).2 =
      .ok (name.ns, name.loc) := by
  unfold Dom.createElement
  cases flags.template with
  | true => exact alloc_elemName _ name attrs _ _
  | false => exact alloc_elemName _ name attrs _ _

theorem createElement_sameData (d : Dom) (name : QualName) (attrs : List Attr) (flags : ElementFlags) :
    SameData d (d.createElement name attrs flags).1 := by
  unfold Dom.createElement
  cases flags.template with
  | true => exact (SameData.alloc d _).trans (SameData.alloc _ _)
  | false => exact SameData.alloc d _

theorem appendRaw_sameData {d d' : Dom} {p c : Id} (h : d.appendRaw p c = .ok d') : SameData d d' := by
  unfold Dom.appendRaw at h
  simp only [bind, Except.bind] at h
  cases hc : d.nodes[c]? with
  | none => rw [get_none hc] at h; cases h
  | some cn =>
    rw [get_some hc] at h
    simp only at h
    by_cases hpar : cn.parent.isSome
    · simp only [hpar, if_true] at h; cases h
    · simp only [hpar] at h
      have s1 : SameData d (d.setNode c { cn with parent := some p }) := SameData.setNode hc rfl
      cases hp : (d.setNode c { cn with parent := some p }).nodes[p]? with
      | none => rw [get_none hp] at h; cases h
      | some pn =>
        rw [get_some hp] at h
        cases h
        exact s1.trans (SameData.setNode hp rfl)

theorem removeFromParent_sameData {d d' : Dom} {t : Id} (h : d.removeFromParent t = .ok d') : SameData d d' := by
  unfold Dom.removeFromParent at h
  simp only [bind, Except.bind] at h
  cases hg : d.getParentAndIndex t with
  | error x => rw [hg] at h; cases h
  | ok r =>
    rw [hg] at h
    cases r with
    | none => cases h; exact SameData.refl d
    | some pi =>
      obtain ⟨p, i⟩ := pi
      simp only at h
      cases hp : d.nodes[p]? with
      | none => rw [get_none hp] at h; cases h
      | some pn =>
        rw [get_some hp] at h
        simp only at h
        have s1 : SameData d (d.setNode p { pn with children := removeAt pn.children i }) := SameData.setNode hp rfl
        cases ht : (d.setNode p { pn with children := removeAt pn.children i }).nodes[t]? with
        | none => rw [get_none ht] at h; cases h
        | some tn =>
          rw [get_some ht] at h
          cases h
          exact s1.trans (SameData.setNode ht rfl)

theorem insertAtIndex_sameData {d d' : Dom} {p c : Id} {i : Nat} (h : d.insertAtIndex p i c = .ok d') :
    SameData d d' := by
  unfold Dom.insertAtIndex at h
  simp only [bind, Except.bind] at h
  cases hr : d.removeFromParent c with
  | error x => rw [hr] at h; cases h
  | ok d1 =>
    rw [hr] at h
    simp only at h
    have s0 := removeFromParent_sameData hr
    cases hc : d1.nodes[c]? with
    | none => rw [get_none hc] at h; cases h
    | some cn =>
      rw [get_some hc] at h
      simp only at h
      have s1 : SameData d1 (d1.setNode c { cn with parent := some p }) := SameData.setNode hc rfl
      cases hp : (d1.setNode c { cn with parent := some p }).nodes[p]? with
      | none => rw [get_none hp] at h; cases h
      | some pn =>
        rw [get_some hp] at h
        simp only at h
        by_cases hi : i > pn.children.length
        · simp only [hi, if_true] at h; cases h
        · simp only [hi, if_false] at h
          cases h
          exact s0.trans (s1.trans (SameData.setNode hp rfl))

theorem append_nameKeep {d d' : Dom} {p : Id} {c : NodeOrText} (h : d.append p c = .ok d') : NameKeep d d' := by
  cases c with
  | text s => exact (append_textStep h).nameKeep
  | node c => exact (appendRaw_sameData (by simpa [Dom.append] using h)).nameKeep

theorem abs_node_sameData {d d' : Dom} {s c : Id} (h : d.appendBeforeSibling s (.node c) = .ok d') :
    SameData d d' := by
  unfold Dom.appendBeforeSibling at h
  simp only [bind, Except.bind] at h
  cases hg : d.getParentAndIndex s with
  | error x => rw [hg] at h; cases h
  | ok r =>
    rw [hg] at h
    cases r with
    | none => cases h
    | some pi =>
      obtain ⟨p, i⟩ := pi
      exact insertAtIndex_sameData h

theorem absV_nameKeep {d d' : Dom} {s : Id} {c : NodeOrText}
    (h : Dom.appendBeforeSiblingV Dom.beforeSiblingVariant d s c = .ok d') : NameKeep d d' := by
  cases c with
  | text z => exact (abs_textStep h).nameKeep
  | node c =>
    unfold Dom.appendBeforeSiblingV at h
    simp only [bind, Except.bind] at h
    cases hr : Dom.preDetach Dom.beforeSiblingVariant d (.node c) with
    | error x => rw [hr] at h; cases h
    | ok d1 =>
      rw [hr] at h
      have s0 : SameData d d1 := removeFromParent_sameData hr
      exact (s0.trans (abs_node_sameData h)).nameKeep

theorem abpnV_nameKeep {d d' : Dom} {e p : Id} {c : NodeOrText}
    (h : Dom.appendBasedOnParentNodeV Dom.beforeSiblingVariant d e p c = .ok d') : NameKeep d d' := by
  unfold Dom.appendBasedOnParentNodeV at h
  simp only [bind, Except.bind] at h
  cases he : d.get e with
  | error x => rw [he] at h; cases h
  | ok en =>
    rw [he] at h
    simp only at h
    cases hpar : en.parent.isSome with
    | true => rw [hpar] at h; exact absV_nameKeep h
    | false => rw [hpar] at h; exact append_nameKeep h

theorem addAttrsIfMissing_nameKeep {d d' : Dom} {t : Id} {attrs : List Attr}
    (h : d.addAttrsIfMissing t attrs = .ok d') : NameKeep d d' := by
  unfold Dom.addAttrsIfMissing at h
  simp only [bind, Except.bind] at h
  cases ht : d.nodes[t]? with
  | none => rw [get_none ht] at h; cases h
  | some tn =>
    rw [get_some ht] at h
    simp only at h
    cases hd : tn.data with
    | element n existing tc ip =>
      rw [hd] at h
      cases h
      intro u r hr
      obtain ⟨m, hu, hm⟩ := elemName_ok_inv hr
      by_cases hut : u = t
      · subst hut
        have e : tn = m := Option.some.inj (ht.symm.trans hu)
        have h1 : (d.setNode u { tn with data := .element n (existing ++ Dom.missingAttrs existing attrs) tc ip }).nodes[u]? =
            some { tn with data := .element n (existing ++ Dom.missingAttrs existing attrs) tc ip } := by
          rw [nodes_setNode_of ht]; simp
        rw [elemName_of h1]
        rw [← e, hd] at hm
        exact hm
      · have h1 : (d.setNode t { tn with data := .element n (existing ++ Dom.missingAttrs existing attrs) tc ip }).nodes[u]? =
            some m := by
          rw [nodes_setNode_of ht]; simp [hut, hu]
        rw [elemName_of h1]; exact hm
    | document | doctype _ _ _ | comment _ | text _ | pi _ _ => rw [hd] at h; cases h

theorem reparentLoop_sameData {node np : Id} : ∀ (cs : List Id) {d d' : Dom},
    Dom.reparentLoop d node np cs = .ok d' → SameData d d' := by
  intro cs
  induction cs with
  | nil => intro d d' h; cases h; exact SameData.refl d
  | cons c cs ih =>
    intro d d' h
    simp only [Dom.reparentLoop, bind, Except.bind] at h
    cases hc : d.nodes[c]? with
    | none => rw [get_none hc] at h; cases h
    | some cn =>
      rw [get_some hc] at h
      simp only at h
      cases hpar : cn.parent with
      | none => rw [hpar] at h; cases h
      | some pp =>
        rw [hpar] at h
        simp only at h
        by_cases hpp : pp = node
        · simp only [hpp, ne_eq, not_true_eq_false, if_false] at h
          exact (SameData.setNode (n := { cn with parent := some np }) hc rfl).trans (ih h)
        · simp only [ne_eq, hpp, not_false_eq_true, if_true] at h; cases h

theorem reparentChildren_sameData {d d' : Dom} {node np : Id} (h : d.reparentChildren node np = .ok d') :
    SameData d d' := by
  unfold Dom.reparentChildren at h
  simp only [bind, Except.bind] at h
  cases h0 : d.get node with
  | error x => rw [h0] at h; cases h
  | ok n =>
    rw [h0] at h
    simp only at h
    cases h1 : d.get np with
    | error x => rw [h1] at h; cases h
    | ok npn =>
      rw [h1] at h
      simp only at h
      by_cases hn : node = np
      · simp only [hn, if_true] at h; cases h
      · simp only [hn, if_false] at h
        cases hl : Dom.reparentLoop d node np n.children with
        | error x => rw [hl] at h; cases h
        | ok d1 =>
          rw [hl] at h
          simp only at h
          have s0 := reparentLoop_sameData _ hl
          cases h2 : d1.get node with
          | error x => rw [h2] at h; cases h
          | ok n1 =>
            rw [h2] at h
            simp only at h
            cases h3 : d1.nodes[np]? with
            | none => rw [get_none h3] at h; cases h
            | some np1 =>
              rw [get_some h3] at h
              simp only at h
              have s1 : SameData d1 (d1.setNode np { np1 with children := np1.children ++ n1.children }) :=
                SameData.setNode h3 rfl
              cases h4 : (d1.setNode np { np1 with children := np1.children ++ n1.children }).nodes[node]? with
              | none => rw [get_none h4] at h; cases h
              | some n2 =>
                rw [get_some h4] at h
                cases h
                exact s0.trans (s1.trans (SameData.setNode h4 rfl))

def keepsNames : SinkOp → Bool
  | .parseError _ => true
  | .getDocument => true
  | .elemName _ => true
  | .createElement _ _ _ => true
  | .createComment _ => true
  | .createPi _ _ => true
  | .append _ _ => true
  | .appendBasedOnParentNode _ _ _ => true
  | .appendDoctypeToDocument _ _ _ => true
  | .markScriptAlreadyStarted _ => true
  | .pop _ => true
  | .getTemplateContents _ => true
  | .sameNode _ _ => true
  | .setQuirksMode _ => true
  | .appendBeforeSibling _ _ => true
  | .addAttrsIfMissing _ _ => true
  | .associateWithForm _ _ _ _ => true
  | .removeFromParent _ => true
  | .reparentChildren _ _ => true
  | .isMathmlAnnotationXmlIntegrationPoint _ => true
  | .setCurrentLine _ => true
  | .allowDeclarativeShadowRoots _ => true
  | .attachDeclarativeShadow _ _ _ => true
  | .maybeCloneAnOptionIntoSelectedcontent _ => false

/-- helper: invert `do let d ← f; .ok (d, o')` -/
theorem bind_ok_inv {f : Except String Dom} {o' : Output} {d' : Dom} {o : Output}
    (h : (f >>= fun d1 => Except.ok (d1, o')) = .ok (d', o)) : f = .ok d' := by
  cases f with
  | error x => cases h
  | ok d1 => cases h; rfl

theorem keepsNames_nameKeep {d d' : Dom} {op : SinkOp} {o : Output} (hop : keepsNames op = true)
    (h : Dom.apply d op = .ok (d', o)) : NameKeep d d' := by
  cases op with
  | parseError msg => cases h; exact (SameData.of_nodes rfl).nameKeep
  | getDocument => cases h; exact NameKeep.refl d
  | elemName t =>
    have : Dom.apply d (.elemName t) = (d.elemName t >>= fun r => Except.ok (d, Output.name r.1 r.2)) := rfl
    rw [this] at h
    cases h1 : d.elemName t with
    | error x => rw [h1] at h; cases h
    | ok r => rw [h1] at h; cases h; exact NameKeep.refl d
  | createElement name attrs flags => cases h; exact (createElement_sameData d name attrs flags).nameKeep
  | createComment text => cases h; exact (SameData.alloc d _).nameKeep
  | createPi target data => cases h; exact (SameData.alloc d _).nameKeep
  | append p c => exact append_nameKeep (apply_append_ok h)
  | appendBasedOnParentNode e p c =>
    have : Dom.apply d (.appendBasedOnParentNode e p c) =
      (Dom.appendBasedOnParentNodeV Dom.beforeSiblingVariant d e p c >>= fun d1 => Except.ok (d1, Output.unit)) := rfl
    rw [this] at h
    exact abpnV_nameKeep (bind_ok_inv h)
  | appendDoctypeToDocument n p s =>
    have : Dom.apply d (.appendDoctypeToDocument n p s) =
      (d.appendDoctypeToDocument n p s >>= fun d1 => Except.ok (d1, Output.unit)) := rfl
    rw [this] at h
    have h1 : (d.alloc (.doctype n p s)).1.appendRaw Dom.document (d.alloc (.doctype n p s)).2 = .ok d' :=
      bind_ok_inv h
    exact ((SameData.alloc d _).trans (appendRaw_sameData h1)).nameKeep
  | markScriptAlreadyStarted n => cases h; exact NameKeep.refl d
  | pop n => cases h; exact NameKeep.refl d
  | getTemplateContents t =>
    have : Dom.apply d (.getTemplateContents t) = (d.getTemplateContents t >>= fun r => Except.ok (d, Output.node r)) := rfl
    rw [this] at h
    cases h1 : d.getTemplateContents t with
    | error x => rw [h1] at h; cases h
    | ok r => rw [h1] at h; cases h; exact NameKeep.refl d
  | sameNode x y => cases h; exact NameKeep.refl d
  | setQuirksMode m => cases h; exact (SameData.of_nodes rfl).nameKeep
  | appendBeforeSibling s c =>
    have : Dom.apply d (.appendBeforeSibling s c) =
      (Dom.appendBeforeSiblingV Dom.beforeSiblingVariant d s c >>= fun d1 => Except.ok (d1, Output.unit)) := rfl
    rw [this] at h
    exact absV_nameKeep (bind_ok_inv h)
  | addAttrsIfMissing t a =>
    have : Dom.apply d (.addAttrsIfMissing t a) =
      (d.addAttrsIfMissing t a >>= fun d1 => Except.ok (d1, Output.unit)) := rfl
    rw [this] at h
    exact addAttrsIfMissing_nameKeep (bind_ok_inv h)
  | associateWithForm t f n p => cases h; exact NameKeep.refl d
  | removeFromParent t =>
    have : Dom.apply d (.removeFromParent t) =
      (d.removeFromParent t >>= fun d1 => Except.ok (d1, Output.unit)) := rfl
    rw [this] at h
    exact (removeFromParent_sameData (bind_ok_inv h)).nameKeep
  | reparentChildren n np =>
    have : Dom.apply d (.reparentChildren n np) =
      (d.reparentChildren n np >>= fun d1 => Except.ok (d1, Output.unit)) := rfl
    rw [this] at h
    exact (reparentChildren_sameData (bind_ok_inv h)).nameKeep
  | isMathmlAnnotationXmlIntegrationPoint t =>
    have : Dom.apply d (.isMathmlAnnotationXmlIntegrationPoint t) =
      (d.isMathmlAnnotationXmlIntegrationPoint t >>= fun r => Except.ok (d, Output.bool r)) := rfl
    rw [this] at h
    cases h1 : d.isMathmlAnnotationXmlIntegrationPoint t with
    | error x => rw [h1] at h; cases h
    | ok r => rw [h1] at h; cases h; exact NameKeep.refl d
  | setCurrentLine l => cases h; exact NameKeep.refl d
  | allowDeclarativeShadowRoots p => cases h; exact NameKeep.refl d
  | attachDeclarativeShadow l t a => cases h; exact NameKeep.refl d
  | maybeCloneAnOptionIntoSelectedcontent o => cases hop

theorem keepsNames_elemName {d d' : Dom} {op : SinkOp} {o : Output} (hop : keepsNames op = true)
    (h : Dom.apply d op = .ok (d', o)) {t : Id} {r : Str × Str} (ht : d.elemName t = .ok r) :
    d'.elemName t = .ok r :=
  keepsNames_nameKeep hop h t r ht


end H5V.Lemmas.TBSplitDom

#print axioms H5V.Lemmas.TBSplitDom.apply_wE
#print axioms H5V.Lemmas.TBSplitDom.append_text_merge
#print axioms H5V.Lemmas.TBSplitDom.appendBasedOnParentNode_text_merge
#print axioms H5V.Lemmas.TBSplitDom.appendBeforeSibling_text_merge
#print axioms H5V.Lemmas.TBSplitDom.textIns_queries
#print axioms H5V.Lemmas.TBSplitDom.RelE.refl
#print axioms H5V.Lemmas.TBSplitDom.RelE.symm
#print axioms H5V.Lemmas.TBSplitDom.RelE.trans
#print axioms H5V.Lemmas.TBSplitDom.createElement_elemName
#print axioms H5V.Lemmas.TBSplitDom.keepsNames_elemName
