import H5V.Lemmas.HtmlTokLines
/-!
Termination of the HTML tokenizer loop: a measure `mu m inp` on (machine, unread input) that
strictly decreases along every `.cont` step of `Tokenizer::step`, and is bounded by the fuel
`fuelFor m inp` that `feed` / `end` hand to `run`.

The only text that can be read more than once is what a named character reference collects in
`name_buf` and gives back (`unconsume_name`): an alphanumeric/`;` run directly after an `&`.
`tripF` counts the characters of the unread input that can still make that trip; every character
weighs 16 (whether unread or stashed in `temp_buf` / `name_buf` / as the `#x` of a numeric
reference), a pending `reconsume` 12, the sub-tokenizer 8 + a rank, a tokenizer state at most 2.
-/
namespace H5V.Model.HtmlTok
open H5V.Props.C14

/-! ### characters that can sit in `name_buf` -/

def runCh (c : Char) : Bool := isAsciiAlnum c || c = ';'

/-- number of characters of `s` that may still travel through `name_buf` and come back;
`b`: we are inside an alphanumeric/`;` run that directly follows an `&` -/
def tripF : Bool → Str → Nat
  | _, [] => 0
  | b, c :: s =>
    if c = '&' then tripF true s
    else if runCh c then (if b then 1 else 0) + tripF b s
    else tripF false s

@[simp] theorem tripF_nil (b : Bool) : tripF b [] = 0 := by simp [tripF]

theorem runCh_ne_amp {c : Char} (h : runCh c = true) : c ≠ '&' := by
  intro hc; subst hc; revert h; decide

theorem tripF_cons_amp (b : Bool) (s : Str) : tripF b ('&' :: s) = tripF true s := by simp [tripF]

theorem tripF_cons_run (b : Bool) (c : Char) (s : Str) (h : runCh c = true) :
    tripF b (c :: s) = (if b then 1 else 0) + tripF b s := by
  simp [tripF, runCh_ne_amp h, h]

theorem tripF_cons_other (b : Bool) (c : Char) (s : Str) (h1 : c ≠ '&') (h2 : runCh c = false) :
    tripF b (c :: s) = tripF false s := by
  simp [tripF, h1, h2]

theorem tripF_le_true (b : Bool) (s : Str) : tripF b s ≤ tripF true s := by
  induction s generalizing b with
  | nil => simp
  | cons c t ih =>
    by_cases h1 : c = '&'
    · subst h1; simp [tripF_cons_amp]
    · cases h2 : runCh c with
      | true =>
        rw [tripF_cons_run _ _ _ h2, tripF_cons_run _ _ _ h2]
        have := ih b
        cases b <;> simp <;> omega
      | false => rw [tripF_cons_other _ _ _ h1 h2, tripF_cons_other _ _ _ h1 h2]; exact Nat.le_refl _

theorem tripF_le_length (b : Bool) (s : Str) : tripF b s ≤ s.length := by
  induction s generalizing b with
  | nil => simp
  | cons c t ih =>
    by_cases h1 : c = '&'
    · subst h1; rw [tripF_cons_amp]; have := ih true; simp; omega
    · cases h2 : runCh c with
      | true =>
        rw [tripF_cons_run _ _ _ h2]
        have := ih b
        cases b <;> simp <;> omega
      | false => rw [tripF_cons_other _ _ _ h1 h2]; have := ih false; simp; omega

/-- consuming a prefix never increases the count -/
theorem tripF_suffix (b : Bool) (a s : Str) : tripF false s ≤ tripF b (a ++ s) := by
  induction a generalizing b with
  | nil =>
    cases b
    · exact Nat.le_refl _
    · exact tripF_le_true false s
  | cons c t ih =>
    rw [List.cons_append]
    by_cases h1 : c = '&'
    · subst h1; rw [tripF_cons_amp]; exact ih true
    · cases h2 : runCh c with
      | true => rw [tripF_cons_run _ _ _ h2]; have := ih b; omega
      | false => rw [tripF_cons_other _ _ _ h1 h2]; exact ih false

/-- a character other than `&` in front, outside a run: no effect -/
theorem tripF_false_cons (c : Char) (s : Str) (h : c ≠ '&') : tripF false (c :: s) = tripF false s := by
  cases h2 : runCh c with
  | true => rw [tripF_cons_run _ _ _ h2]; simp
  | false => rw [tripF_cons_other _ _ _ h h2]

theorem tripF_false_run (nb s : Str) (h : ∀ x ∈ nb, runCh x = true) :
    tripF false (nb ++ s) = tripF false s := by
  induction nb with
  | nil => rfl
  | cons c t ih =>
    rw [List.cons_append, tripF_false_cons _ _ (runCh_ne_amp (h c (List.mem_cons_self ..)))]
    exact ih (fun x hx => h x (List.mem_cons_of_mem _ hx))

theorem tripF_true_cons_run (c : Char) (s : Str) (h : runCh c = true) :
    tripF true (c :: s) = 1 + tripF true s := by
  rw [tripF_cons_run _ _ _ h]; simp

theorem tripF_true_run (nb s : Str) (h : ∀ x ∈ nb, runCh x = true) :
    tripF true (nb ++ s) = nb.length + tripF true s := by
  induction nb with
  | nil => simp
  | cons c t ih =>
    rw [List.cons_append, tripF_true_cons_run _ _ (h c (List.mem_cons_self ..)),
      ih (fun x hx => h x (List.mem_cons_of_mem _ hx))]
    simp; omega

theorem tripF_true_hash (s : Str) : tripF true ('#' :: s) = tripF false s :=
  tripF_cons_other _ _ _ (by decide) (by decide)

/-- the character `get_char` delivers for the raw character `c0` -/
def foldCh (c0 : Char) : Char := if c0 = '\r' then '\n' else c0

theorem tripF_foldCh (c0 : Char) (s : Str) : tripF false (foldCh c0 :: s) ≤ tripF false (c0 :: s) := by
  unfold foldCh
  split
  · rename_i h; subst h
    rw [tripF_false_cons _ _ (by decide), tripF_false_cons _ _ (by decide)]
    exact Nat.le_refl _
  · exact Nat.le_refl _

theorem foldCh_amp {c0 : Char} (h : foldCh c0 = '&') : c0 = '&' := by
  unfold foldCh at h
  split at h
  · exact absurd h (by decide)
  · exact h

/-! ### every character of every entity name is alphanumeric or `;` -/

def keyRunOk (x : Nat) : Bool :=
  (97 ≤ x && x ≤ 122) || (65 ≤ x && x ≤ 90) || (48 ≤ x && x ≤ 57) || x == 59

def tableRunCh : Bool :=
  Gen.Entities.firstLetters.all (fun c => (Gen.Entities.bucket c).all (fun r => r.1.all keyRunOk))

theorem tableRunCh_true : tableRunCh = true := by decide +kernel

theorem runCh_of_toNat (x : Char) (h : keyRunOk x.toNat = true) : runCh x = true := by
  unfold keyRunOk at h
  unfold runCh isAsciiAlnum
  simp only [Bool.or_eq_true, Bool.and_eq_true, decide_eq_true_eq, beq_iff_eq] at h ⊢
  have e1 : ∀ a b : Char, a ≤ b ↔ a.toNat ≤ b.toNat := fun a b => by
    rw [Char.le_def, UInt32.le_iff_toNat_le]; rfl
  simp only [e1]
  rcases h with ((h | h) | h) | h
  · exact Or.inl (Or.inl (Or.inl h))
  · exact Or.inl (Or.inl (Or.inr h))
  · exact Or.inl (Or.inr h)
  · right
    apply Char.ext
    apply UInt32.toNat_inj.mp
    exact h

/-- a buffer that is in the entity map (a name or a prefix of one) is alphanumeric/`;` throughout -/
theorem lookup_runCh (nb : Str) (mt : Nat × Nat) (h : entityLookup nb = some mt) :
    ∀ x ∈ nb, runCh x = true := by
  unfold entityLookup at h
  cases hk : nb.map Char.toNat with
  | nil =>
    have : nb = [] := by simpa using hk
    subst this
    intro x hx; exact absurd hx List.not_mem_nil
  | cons c rest =>
    have hsome : (entityLookupN (c :: rest)).isSome = true := by rw [← hk, h]; rfl
    obtain ⟨r, hr, hp⟩ := (Walk.lookup_some_iff c rest).mp hsome
    have hc := bucket_letter c r hr
    have ht := tableRunCh_true
    simp only [tableRunCh, List.all_eq_true] at ht
    have hrow := ht c hc r hr
    intro x hx
    apply runCh_of_toNat
    have : x.toNat ∈ c :: rest := by rw [← hk]; exact List.mem_map_of_mem hx
    exact hrow _ (hp.subset this)

/-! ### the measure -/

/-- characters of a numeric reference (`#`, `x`) or of `name_buf` the sub-tokenizer may give back -/
def crStash (cr : CharRefSt) : Nat :=
  match cr.state with
  | .octothorpe => 1
  | .numeric _ => if cr.seenDigit then 0 else 1 + (if cr.hexMarker.isSome then 1 else 0)
  | .named | .bogusName => (cr.nameBuf.getD []).length
  | _ => 0

def crFlag : CRState → Bool
  | .begin | .named | .bogusName => true
  | _ => false

def crRank : CRState → Nat
  | .begin => 3 | .octothorpe => 2 | .numeric _ => 1 | .numericSemicolon => 0 | .named => 1 | .bogusName => 1

/-- rank of a tokenizer state in the `reconsume` chains of the table (targets 0) -/
def base : State → Nat
  | .commentEnd => 1
  | .data | .rawData _ | .bogusComment | .beforeAttributeName | .comment | .commentEndDash
  | .beforeDoctypeName | .bogusDoctype | .cdataSection | .attributeValue _ => 0
  | _ => 2

theorem base_le (s : State) : base s ≤ 2 := by
  cases s <;> simp [base]

/-- the character a pending `reconsume` will deliver again -/
def rc (m : Mach) : Str := if m.reconsume then [m.currentChar] else []

def mu (m : Mach) (inp : Str) : Nat :=
  match m.charRef with
  | some cr => 16 * (crStash cr + inp.length) + tripF (crFlag cr.state) inp + 8 + crRank cr.state
  | none =>
    16 * ((stash m).length + inp.length) + tripF false (rc m ++ (stash m ++ inp))
      + (if m.reconsume then 12 else 0) + base m.state

theorem mu_none {m : Mach} (h : m.charRef = none) (inp : Str) :
    mu m inp = 16 * ((stash m).length + inp.length) + tripF false (rc m ++ (stash m ++ inp))
      + (if m.reconsume then 12 else 0) + base m.state := by
  unfold mu; rw [h]

theorem mu_some {m : Mach} {cr : CharRefSt} (h : m.charRef = some cr) (inp : Str) :
    mu m inp = 16 * (crStash cr + inp.length) + tripF (crFlag cr.state) inp + 8 + crRank cr.state := by
  unfold mu; rw [h]

theorem crStash_le (cr : CharRefSt) : crStash cr ≤ (cr.nameBuf.getD []).length + 2 := by
  unfold crStash
  split
  · omega
  · split <;> (try split) <;> omega
  · omega
  · omega
  · omega

theorem crRank_le (s : CRState) : crRank s ≤ 3 := by cases s <;> simp [crRank]

theorem stash_len_le (m : Mach) (h : m.charRef = none) : (stash m).length ≤ m.tempBuf.length := by
  unfold stash; rw [h]; dsimp only; split <;> simp

/-- **the fuel handed to `run` exceeds the measure** -/
theorem mu_lt_fuelFor (m : Mach) (inp : Str) : mu m inp < fuelFor m inp := by
  unfold fuelFor
  cases hcr : m.charRef with
  | some cr =>
    rw [mu_some hcr]
    have h1 := crStash_le cr
    have h2 := tripF_le_length (crFlag cr.state) inp
    have h3 := crRank_le cr.state
    simp only
    omega
  | none =>
    rw [mu_none hcr]
    have h1 := stash_len_le m hcr
    have h2 := tripF_le_length false (rc m ++ (stash m ++ inp))
    have h3 := base_le m.state
    have h4 : (rc m).length ≤ 1 := by unfold rc; split <;> simp
    simp only [List.length_append] at h2
    simp only
    split <;> omega

/-! ### arithmetic: the shapes of a decreasing step -/

theorem rc_false {m : Mach} (h : m.reconsume = false) : rc m = [] := by unfold rc; simp [h]
theorem rc_true {m : Mach} (h : m.reconsume = true) : rc m = [m.currentChar] := by unfold rc; simp [h]

/-- a read without pending `reconsume` that consumed at least `c0` (possibly asking to reconsume
the character it delivered) -/
theorem mu_dec_consume {m m' : Mach} {inp i' a : Str} {c0 : Char}
    (hcr : m.charRef = none) (hr : m.reconsume = false) (hcr' : m'.charRef = none) (hst' : stash m' = [])
    (hsp : stash m ++ inp = a ++ c0 :: i')
    (hcc : m'.reconsume = true → m'.currentChar = foldCh c0) : mu m' i' < mu m inp := by
  rw [mu_none hcr, mu_none hcr', rc_false hr, hst', hsp]
  have hl : (stash m).length + inp.length = a.length + (i'.length + 1) := by
    have := congrArg List.length hsp
    simpa using this
  have hb := base_le m'.state
  have h1 : tripF false (c0 :: i') ≤ tripF false (a ++ c0 :: i') := tripF_suffix false a _
  have h2 : tripF false i' ≤ tripF false (c0 :: i') := tripF_suffix false [c0] i'
  have h3 := tripF_foldCh c0 i'
  rw [hl]
  cases hr' : m'.reconsume with
  | false => simp [rc_false hr']; omega
  | true =>
    rw [rc_true hr', hcc hr']
    simp only [List.nil_append, List.length_nil, List.cons_append, ↓reduceIte]
    omega

/-- a step without pending `reconsume` before and after, that consumed something or moved down in
the state ranking (what was stashed may have gone back to the queue) -/
theorem mu_dec_plain {m m' : Mach} {inp i' a : Str}
    (hcr : m.charRef = none) (hr : m.reconsume = false) (hcr' : m'.charRef = none) (hr' : m'.reconsume = false)
    (hst' : stash m' = []) (hsp : stash m ++ inp = a ++ i')
    (h : a ≠ [] ∨ base m'.state < base m.state) : mu m' i' < mu m inp := by
  rw [mu_none hcr, mu_none hcr', rc_false hr, rc_false hr', hst', hsp]
  have hl : (stash m).length + inp.length = a.length + i'.length := by
    have := congrArg List.length hsp
    simpa using this
  have hb := base_le m'.state
  have h1 : tripF false i' ≤ tripF false (a ++ i') := tripF_suffix false a _
  rw [hl]
  simp only [hr, hr', List.nil_append, List.length_nil, Bool.false_eq_true, ↓reduceIte]
  rcases h with h | h
  · have : 0 < a.length := List.length_pos_iff.mpr h
    omega
  · omega

/-- a read that re-delivers the pending character -/
theorem mu_dec_recon {m m' : Mach} {inp : Str}
    (hcr : m.charRef = none) (hr : m.reconsume = true) (hst : stash m = []) (hcr' : m'.charRef = none)
    (hst' : stash m' = [])
    (hcc : m'.reconsume = true → m'.currentChar = m.currentChar ∧ base m'.state < base m.state) :
    mu m' inp < mu m inp := by
  rw [mu_none hcr, mu_none hcr', rc_true hr, hst, hst']
  have hb := base_le m'.state
  have h1 : tripF false inp ≤ tripF false (m.currentChar :: inp) := tripF_suffix false [m.currentChar] inp
  cases hr' : m'.reconsume with
  | false => simp [rc_false hr', hr]; omega
  | true =>
    obtain ⟨e1, e2⟩ := hcc hr'
    rw [rc_true hr', e1]
    simp only [hr, List.nil_append, List.cons_append, ↓reduceIte]
    omega

theorem crStash_begin {cr : CharRefSt} (h : cr.state = .begin) : crStash cr = 0 := by
  unfold crStash; rw [h]

/-- a character reference starts on a freshly consumed `&` -/
theorem mu_dec_amp {m m' : Mach} {inp i' a : Str} {cr : CharRefSt}
    (hcr : m.charRef = none) (hr : m.reconsume = false) (hcr' : m'.charRef = some cr) (hb : cr.state = .begin)
    (hsp : stash m ++ inp = a ++ '&' :: i') : mu m' i' < mu m inp := by
  rw [mu_none hcr, mu_some hcr', rc_false hr, hsp, crStash_begin hb, hb]
  have hl : (stash m).length + inp.length = a.length + (i'.length + 1) := by
    have := congrArg List.length hsp
    simpa using this
  have h1 : tripF false ('&' :: i') ≤ tripF false (a ++ '&' :: i') := tripF_suffix false a _
  rw [tripF_cons_amp] at h1
  rw [hl]
  simp only [crFlag, crRank, List.nil_append]
  omega

/-- a character reference starts on a re-delivered `&` -/
theorem mu_dec_amp_recon {m m' : Mach} {inp : Str} {cr : CharRefSt}
    (hcr : m.charRef = none) (hr : m.reconsume = true) (hcc : m.currentChar = '&') (hst : stash m = [])
    (hcr' : m'.charRef = some cr) (hb : cr.state = .begin) : mu m' inp < mu m inp := by
  rw [mu_none hcr, mu_some hcr', rc_true hr, hst, hcc, crStash_begin hb, hb]
  simp only [crFlag, crRank, List.nil_append, List.cons_append, tripF_cons_amp, hr, ↓reduceIte, List.length_nil]
  omega

/-! ### the reader: what a successful read consumed -/

theorem preprocess_shape (o : Opts) (m m1 : Mach) (x c : Char) (xs i1 : Str)
    (h : preprocess o m x xs = (some c, m1, i1)) : ∃ a c0, x :: xs = a ++ c0 :: i1 ∧ c = foldCh c0 := by
  unfold preprocess at h
  split at h
  · split at h
    · cases xs with
      | nil => simp at h
      | cons y ys =>
        simp only [Prod.mk.injEq, Option.some.injEq] at h
        obtain ⟨h1, _, h3⟩ := h
        subst h3
        exact ⟨[x], y, rfl, by rw [← h1, (foldChar_fields o _ y).2.2.2.2.2.2]; rfl⟩
    · simp only [Prod.mk.injEq, Option.some.injEq] at h
      obtain ⟨h1, _, h3⟩ := h
      subst h3
      exact ⟨[], x, rfl, by rw [← h1, (foldChar_fields o _ x).2.2.2.2.2.2]; rfl⟩
  · simp only [Prod.mk.injEq, Option.some.injEq] at h
    obtain ⟨h1, _, h3⟩ := h
    subst h3
    exact ⟨[], x, rfl, by rw [← h1, (foldChar_fields o _ x).2.2.2.2.2.2]; rfl⟩

theorem getChar_shape (o : Opts) (m m1 : Mach) (inp i1 : Str) (c : Char)
    (h : getChar o m inp = (some c, m1, i1)) :
    (m.reconsume = true ∧ i1 = inp ∧ c = m.currentChar) ∨
    (m.reconsume = false ∧ ∃ a c0, inp = a ++ c0 :: i1 ∧ c = foldCh c0) := by
  unfold getChar at h
  split at h
  · rename_i hr
    simp only [Prod.mk.injEq, Option.some.injEq] at h
    exact Or.inl ⟨hr, h.2.2.symm, h.1.symm⟩
  · rename_i hr
    cases inp with
    | nil => simp at h
    | cons x xs => exact Or.inr ⟨by simpa using hr, preprocess_shape o m m1 x c xs i1 h⟩

/-- a read of a `pop_except_from` state: re-delivery, or a non-empty prefix consumed whose last
character is `&` if the read reports `&` -/
def SetShape (m : Mach) (inp : Str) (r : SetRes) (i1 : Str) : Prop :=
  (m.reconsume = true ∧ i1 = inp ∧ r = .fromSet m.currentChar) ∨
  (m.reconsume = false ∧ ∃ a c0, inp = a ++ c0 :: i1 ∧ (r = .fromSet '&' → c0 = '&'))

theorem popExceptFrom_shape (o : Opts) (S : List Char) (m m1 : Mach) (inp i1 : Str) (r : SetRes)
    (h : popExceptFrom o S m inp = (some r, m1, i1)) : SetShape m inp r i1 := by
  have viaGet : ∀ c, getChar o m inp = (some c, m1, i1) → r = .fromSet c → SetShape m inp r i1 := by
    intro c hg hrc
    rcases getChar_shape o m m1 inp i1 c hg with ⟨g1, g2, g3⟩ | ⟨g1, a, c0, g2, g3⟩
    · exact Or.inl ⟨g1, g2, by rw [hrc, g3]⟩
    · refine Or.inr ⟨g1, a, c0, g2, fun hx => ?_⟩
      rw [hrc] at hx
      simp only [SetRes.fromSet.injEq] at hx
      rw [hx] at g3
      exact foldCh_amp g3.symm
  unfold popExceptFrom at h
  split at h
  · cases hg : getChar o m inp with
    | mk c rest =>
      obtain ⟨m2, i2⟩ := rest
      rw [hg] at h
      cases c with
      | none => simp at h
      | some c =>
        simp only [Option.map_some, Prod.mk.injEq, Option.some.injEq] at h
        obtain ⟨h1, h2, h3⟩ := h
        subst h2 h3
        exact viaGet c hg h1.symm
  · rename_i hs
    have hs' : o.exactErrors = false ∧ m.reconsume = false ∧ m.ignoreLf = false := by
      simpa [and_assoc] using hs
    cases inp with
    | nil => simp at h
    | cons x xs =>
      simp only at h
      split at h
      · have hg : getChar o m (x :: xs) = preprocess o m x xs := by
          unfold getChar; simp [hs'.2.1]
        cases hp : preprocess o m x xs with
        | mk c rest =>
          obtain ⟨m2, i2⟩ := rest
          rw [hp] at h hg
          cases c with
          | none => simp at h
          | some c =>
            simp only [Option.map_some, Prod.mk.injEq, Option.some.injEq] at h
            obtain ⟨h1, h2, h3⟩ := h
            subst h2 h3
            exact viaGet c hg h1.symm
      · simp only [Prod.mk.injEq, Option.some.injEq] at h
        obtain ⟨h1, _, h3⟩ := h
        subst h3
        exact Or.inr ⟨hs'.2.1, [], x, rfl, fun hx => by rw [← h1] at hx; simp at hx⟩

theorem readData_shape (o : Opts) (m m1 : Mach) (inp i1 : Str) (r : SetRes)
    (h : readData o m inp = (some r, m1, i1)) : SetShape m inp r i1 := by
  unfold readData at h
  split at h
  · exact popExceptFrom_shape o _ m m1 inp i1 r h
  · rename_i hs
    have hs' : o.exactErrors = false ∧ m.reconsume = false ∧ m.ignoreLf = false := by
      simpa [and_assoc] using hs
    cases inp with
    | nil => simp at h
    | cons x xs =>
      simp only at h
      split at h
      · exact popExceptFrom_shape o _ m m1 (x :: xs) i1 r h
      · simp only [Prod.mk.injEq, Option.some.injEq] at h
        obtain ⟨h1, _, h3⟩ := h
        subst h3
        exact Or.inr ⟨hs'.2.1, [], x, rfl, fun hx => by rw [← h1] at hx; simp at hx⟩

/-! ### the table: `reconsume` chains go down in `base` -/

theorem transChar_base (o : Opts) (pol : Pol) (m : Mach) (c : Char) (h : m.reconsume = false) :
    (transChar o pol m c).1.reconsume = true → base (transChar o pol m c).1.state < base m.state := by
  unfold transChar
  split <;> (repeat' split) <;> simp_all [base]

/-! ### `get_char!` states -/

theorem ofSig_cont (ms : Mach × Sig) (inp : Str) (m' : Mach) (i' : Str)
    (h : ofSig ms inp = .cont m' i') : m' = ms.1 ∧ i' = inp :=
  ofSig_pair ms inp m' i' (by rw [h]; rfl)

theorem dec_getChar (o : Opts) (pol : Pol) (m : Mach) (inp : Str) (hi : LInv m)
    (hcr : m.charRef = none) (hrk : readKind m.state = .getChar) (m' : Mach) (i' : Str)
    (h : contChar o pol (getChar o m inp) = .cont m' i') : m'.charRef = none ∧ mu m' i' < mu m inp := by
  have hf := readKind_getChar_facts hrk
  have hst : stash m = [] := stash_plain hcr hf.1 hf.2.2
  cases hgc : getChar o m inp with
  | mk oc r =>
    obtain ⟨m1, i1⟩ := r
    rw [hgc] at h
    cases oc with
    | none => simp [contChar] at h
    | some c =>
      obtain ⟨f1, f2, f3, f4, _⟩ := getChar_fields o m m1 inp i1 c hgc
      obtain ⟨r1, r2⟩ := getChar_ri o m m1 inp i1 c hi.ri hgc
      simp only [contChar] at h
      obtain ⟨h1, h2⟩ := ofSig_cont _ _ _ _ h
      subst h1 h2
      obtain ⟨a1, a2, a3, a4, a5, a6, a7⟩ := afterChar_lines o pol m1 c (by rw [f4, hcr])
        (by intro hraw; rw [f2]; rw [f1] at hraw; exact hi.nr hraw hf.1 hf.2.2) f3 r1 r2
      refine ⟨a4, ?_⟩
      have hcc : (transChar o pol m1 c).1.currentChar = c := by rw [transChar_currentChar, r1]
      rcases getChar_shape o m m1 inp _ c hgc with ⟨g1, g2, g3⟩ | ⟨g1, a, c0, g2, g3⟩
      · subst g2
        refine mu_dec_recon hcr g1 hst a4 a5 (fun hr' => ⟨by rw [hcc, g3], ?_⟩)
        have := transChar_base o pol m1 c f3 hr'
        rwa [f1] at this
      · exact mu_dec_consume hcr g1 a4 a5 (by rw [hst]; exact g2) (fun _ => by rw [hcc, g3])

/-! ### `pop_except_from` states and the data state -/

theorem dec_set (o : Opts) (pol : Pol) (m : Mach) (inp : Str)
    (hcr : m.charRef = none) (hk : readKind m.state = .popExcept ∨ readKind m.state = .dataSimd)
    (rd : Option SetRes × Mach × Str)
    (hsome : ∀ sr, rd.1 = some sr → ReadOk m rd.2.1 sr ∧ SetShape m inp sr rd.2.2)
    (m' : Mach) (i' : Str) (h : contSet o pol rd = .cont m' i') :
    (m'.charRef = none ∨ ∃ b, m'.charRef = some { inAttr := b }) ∧ mu m' i' < mu m inp := by
  have hsf := readKind_state_facts hk
  have hst : stash m = [] := stash_plain hcr hsf.1 hsf.2.1
  obtain ⟨oc, m1, i1⟩ := rd
  cases oc with
  | none => simp [contSet] at h
  | some sr =>
    obtain ⟨⟨f1, f2, f3, f4, _, _⟩, hsh⟩ := hsome sr rfl
    simp only at f1 f2 f3 f4 hsh
    simp only [contSet] at h
    obtain ⟨h1, h2⟩ := ofSig_cont _ _ _ _ h
    subst h1 h2
    have hcr1 : m1.charRef = none := by rw [f4, hcr]
    have hr' : (transSet o pol m1 sr).1.reconsume = false := by rw [transSet_reconsume, f3]
    have hne := transSet_not_eat o pol m1 sr ⟨by rw [f1]; exact hsf.1, by rw [f1]; exact hsf.2.1⟩
    rcases (transSet_charRef o pol m1 sr hcr1 (by rw [f1]; exact hk)).2 with hx | ⟨hx, _, _⟩
    · refine ⟨Or.inl hx, ?_⟩
      have hst' := stash_plain hx hne.1 hne.2
      rcases hsh with ⟨g1, g2, _⟩ | ⟨g1, a, c0, g2, _⟩
      · subst g2
        exact mu_dec_recon hcr g1 hst hx hst' (fun hr => by rw [hr'] at hr; simp at hr)
      · exact mu_dec_consume hcr g1 hx hst' (by rw [hst]; exact g2) (fun hr => by rw [hr'] at hr; simp at hr)
    · refine ⟨Or.inr ⟨_, hx⟩, ?_⟩
      have hamp := transSet_amp o pol m1 sr hcr1 (by rw [hx]; simp)
      rcases hsh with ⟨g1, g2, g3⟩ | ⟨g1, a, c0, g2, g3⟩
      · subst g2
        rw [hamp] at g3
        simp only [SetRes.fromSet.injEq] at g3
        exact mu_dec_amp_recon hcr g1 g3.symm hst hx rfl
      · have := g3 hamp
        subst this
        exact mu_dec_amp hcr g1 hx rfl (by rw [hst]; exact g2)

/-! ### before-attribute-value -/

theorem stepBav_shape (o : Opts) (pol : Pol) (m : Mach) (inp : Str) (hr : m.reconsume = false)
    (m' : Mach) (i' : Str) (h : stepBav o pol m inp = .cont m' i') :
    ∃ a, inp = a ++ i' ∧ (a ≠ [] ∨ m'.state = .attributeValue .unquoted) := by
  unfold stepBav at h
  cases inp with
  | nil => simp [peek, hr] at h
  | cons c rest =>
    simp only [peek, hr, Bool.false_eq_true, ↓reduceIte, List.head?_cons] at h
    have hma : (if m.ignoreLf = true then m.setIgnoreLf false else m).reconsume = false := by
      split <;> simp [hr]
    generalize (if m.ignoreLf = true then m.setIgnoreLf false else m) = ma at h hma
    have hd : discardChar ma (c :: rest) = (ma, rest) := by simp [discardChar, hma]
    have one : ∀ s : State, ∃ a, c :: rest = a ++ rest ∧ (a ≠ [] ∨ s = .attributeValue .unquoted) :=
      fun _ => ⟨[c], rfl, Or.inl (by simp)⟩
    split at h
    · simp only [hd, R.cont.injEq] at h
      obtain ⟨_, h2⟩ := h; subst h2; exact one _
    · split at h
      · cases hg : getChar o ma (c :: rest) with
        | mk oc r =>
          obtain ⟨m2, i2⟩ := r
          rw [hg] at h
          cases oc with
          | none => simp at h
          | some c2 =>
            simp only [R.cont.injEq] at h
            obtain ⟨_, h2⟩ := h; subst h2
            rcases getChar_shape o ma m2 (c :: rest) i2 c2 hg with ⟨g1, _⟩ | ⟨_, a, c0, g2, _⟩
            · rw [hma] at g1; simp at g1
            · exact ⟨a ++ [c0], by rw [g2]; simp, Or.inl (by simp)⟩
      · split at h
        · simp only [hd, R.cont.injEq] at h
          obtain ⟨_, h2⟩ := h; subst h2; exact one _
        · split at h
          · simp only [hd, R.cont.injEq] at h
            obtain ⟨_, h2⟩ := h; subst h2; exact one _
          · split at h
            · simp only [hd, R.cont.injEq] at h
              obtain ⟨_, h2⟩ := h; subst h2; exact one _
            · split at h
              · simp only [hd] at h
                obtain ⟨_, h2⟩ := ofSig_cont _ _ _ _ h
                subst h2; exact one _
              · simp only [R.cont.injEq] at h
                obtain ⟨h1, h2⟩ := h; subst h1 h2
                exact ⟨[], rfl, Or.inr (by simp)⟩

theorem dec_bav (o : Opts) (pol : Pol) (m : Mach) (inp : Str) (hr : m.reconsume = false)
    (hcr : m.charRef = none) (hs : m.state = .beforeAttributeValue) (htb : m.tempBuf = [])
    (m' : Mach) (i' : Str) (h : stepBav o pol m inp = .cont m' i') :
    m'.charRef = none ∧ mu m' i' < mu m inp := by
  have hp : (stepBav o pol m inp).pair? = some (m', i') := by rw [h]; rfl
  obtain ⟨b1, b2, _⟩ := stepBav_lines o pol m inp hr m' i' hp
  have hcr' : m'.charRef = none := by
    rw [(stepBav_charRef o pol m inp).2 m' (pair_mach _ _ _ hp), hcr]
  have hs0 : stash m = [] := stash_nil_of hcr (fun _ => htb)
  have hs1 : stash m' = [] := stash_nil_of hcr' (fun _ => by rw [b1, htb])
  obtain ⟨a, e1, e2⟩ := stepBav_shape o pol m inp hr m' i' h
  refine ⟨hcr', mu_dec_plain hcr hr hcr' b2 hs1 (by rw [hs0]; exact e1) ?_⟩
  rcases e2 with e2 | e2
  · exact Or.inl e2
  · right; rw [e2, hs]; decide

/-! ### the look-ahead states (`eat`) -/

theorem eatCmp_true_len (eq : Char → Char → Bool) (all pat : Str) (h : eatCmp eq all pat = some true) :
    pat.length ≤ all.length := by
  induction all generalizing pat with
  | nil =>
    cases pat with
    | nil => simp
    | cons p ps => simp [eatCmp] at h
  | cons a t ih =>
    cases pat with
    | nil => simp
    | cons p ps =>
      simp only [eatCmp] at h
      split at h
      · have := ih ps h; simp; omega
      · simp at h

/-- the `ignore_lf` prologue of `eat` drops at most a leading LF of stash ++ queue -/
theorem eatSkipLf_shape (m : Mach) (inp : Str) (hr : m.reconsume = false) (hok : EatOk m) :
    ∃ a, m.tempBuf ++ inp = a ++ ((eatSkipLf m inp).1.tempBuf ++ (eatSkipLf m inp).2) := by
  unfold eatSkipLf
  cases hil : m.ignoreLf with
  | false => exact ⟨[], by simp⟩
  | true =>
    have ht := hok hil
    cases inp with
    | nil => exact ⟨[], by simp [peek, hr]⟩
    | cons c rest =>
      simp only [peek, hr, Bool.false_eq_true, ↓reduceIte, List.head?_cons]
      by_cases hc : c = '\n'
      · subst hc
        exact ⟨['\n'], by simp [discardChar, hr, ht]⟩
      · exact ⟨[], by simp [hc]⟩

/-- `eat` only ever removes a prefix of stash ++ queue (non-empty when the keyword matched) -/
theorem eat_shape (m : Mach) (inp pat : Str) (eq : Char → Char → Bool)
    (hr : m.reconsume = false) (hok : EatOk m) (hne : pat ≠ [])
    (b : Option Bool) (m1 : Mach) (i1 : Str) (h : eat m inp pat eq = (b, m1, i1)) :
    ∃ a, m.tempBuf ++ inp = a ++ (m1.tempBuf ++ i1) ∧ (b = some true → a ≠ []) := by
  rw [eat_eq_core] at h
  obtain ⟨a0, ha0⟩ := eatSkipLf_shape m inp hr hok
  generalize (eatSkipLf m inp).1 = mi at *
  generalize (eatSkipLf m inp).2 = ii at *
  unfold eatCore at h
  cases hc : eatCmp eq (mi.tempBuf ++ ii) pat with
  | none =>
    cases hae : mi.atEof with
    | true =>
      simp only [hc, hae, ↓reduceIte, Prod.mk.injEq] at h
      obtain ⟨hb, hm1, hi1⟩ := h
      subst hb hm1 hi1
      exact ⟨a0, by simpa using ha0, by simp⟩
    | false =>
      simp only [hc, hae, Bool.false_eq_true, ↓reduceIte, Prod.mk.injEq] at h
      obtain ⟨hb, hm1, hi1⟩ := h
      subst hb hm1 hi1
      exact ⟨a0, by simpa using ha0, by simp⟩
  | some bb =>
    cases bb with
    | false =>
      simp only [hc, Prod.mk.injEq] at h
      obtain ⟨hb, hm1, hi1⟩ := h
      subst hb hm1 hi1
      exact ⟨a0, by simpa using ha0, by simp⟩
    | true =>
      simp only [hc, Prod.mk.injEq] at h
      obtain ⟨hb, hm1, hi1⟩ := h
      subst hb hm1 hi1
      have hlen := eatCmp_true_len eq _ pat hc
      refine ⟨a0 ++ (mi.tempBuf ++ ii).take pat.length, ?_, fun _ => ?_⟩
      · rw [ha0]
        simp only [Mach.setTempBuf, List.nil_append, List.append_assoc]
        rw [List.take_append_drop]
      · intro hnil
        have h2 : ((mi.tempBuf ++ ii).take pat.length).length = 0 := by
          have := congrArg List.length hnil
          simp only [List.length_append, List.length_nil] at this
          omega
        rw [List.length_take] at h2
        have : 0 < pat.length := List.length_pos_iff.mpr hne
        omega

theorem dec_mdo (o : Opts) (pol : Pol) (m : Mach) (inp : Str) (K : Nat)
    (h0 : EatSt .markupDeclarationOpen K m inp) (m' : Mach) (i' : Str)
    (h : stepMdo o pol m inp = .cont m' i') :
    m'.charRef = none ∧ m'.reconsume = false ∧ m'.tempBuf = [] ∧ m'.state ≠ .markupDeclarationOpen ∧
    m'.state ≠ .afterDoctypeName ∧
    ∃ a, m.tempBuf ++ inp = a ++ i' ∧ (a ≠ [] ∨ base m'.state < 2) := by
  obtain ⟨pk1, pk2, pk3, _, _⟩ := patOk_kw
  obtain ⟨n1, n2, n3, _, _⟩ := kw_ne
  unfold stepMdo at h
  cases h1 : eat m inp kwDashDash eqExact with
  | mk b1 r1 =>
    obtain ⟨m1, i1⟩ := r1
    obtain ⟨s1, t1, _⟩ := eat_stage h0 _ _ pk1 n1 b1 m1 i1 h1
    obtain ⟨a1, e1, p1⟩ := eat_shape m inp _ _ h0.nrec h0.ok n1 b1 m1 i1 h1
    rw [h1] at h
    cases b1 with
    | none => simp at h
    | some b1 =>
      have ht1 := t1 (by simp)
      rw [ht1, List.nil_append] at e1
      cases b1 with
      | true =>
        simp only [R.cont.injEq] at h
        obtain ⟨x1, x2⟩ := h; subst x1 x2
        exact ⟨by simp [s1.cr], by simp [s1.nrec], by simp [ht1], by simp, by simp, a1, e1, Or.inl (p1 rfl)⟩
      | false =>
        simp only at h
        cases h2 : eat m1 i1 kwDoctype eqCi with
        | mk b2 r2 =>
          obtain ⟨m2, i2⟩ := r2
          obtain ⟨s2, t2, _⟩ := eat_stage s1 _ _ pk2 n2 b2 m2 i2 h2
          obtain ⟨a2, e2, p2⟩ := eat_shape m1 i1 _ _ s1.nrec s1.ok n2 b2 m2 i2 h2
          rw [h2] at h
          cases b2 with
          | none => simp at h
          | some b2 =>
            have ht2 := t2 (by simp)
            rw [ht1, ht2, List.nil_append, List.nil_append] at e2
            cases b2 with
            | true =>
              simp only [R.cont.injEq] at h
              obtain ⟨x1, x2⟩ := h; subst x1 x2
              refine ⟨by simp [s2.cr], by simp [s2.nrec], by simp [ht2], by simp, by simp, a1 ++ a2, ?_, Or.inl ?_⟩
              · rw [e1, e2, List.append_assoc]
              · have := p2 rfl
                intro hx; exact this (List.append_eq_nil_iff.mp hx).2
            | false =>
              simp only at h
              have bogus : ∀ (mx : Mach) (ix : Str) (ax : Str), mx.charRef = none → mx.reconsume = false →
                  mx.tempBuf = [] → m.tempBuf ++ inp = ax ++ ix →
                  R.cont (to .bogusComment (clearComment (badChar o mx))) ix = .cont m' i' →
                  m'.charRef = none ∧ m'.reconsume = false ∧ m'.tempBuf = [] ∧ m'.state ≠ .markupDeclarationOpen ∧
                  m'.state ≠ .afterDoctypeName ∧
                  ∃ a, m.tempBuf ++ inp = a ++ i' ∧ (a ≠ [] ∨ base m'.state < 2) := by
                intro mx ix ax q1 q2 q3 q4 hx
                simp only [R.cont.injEq] at hx
                obtain ⟨x1, x2⟩ := hx; subst x1 x2
                exact ⟨by simp [q1], by simp [q2], by simp [q3], by simp, by simp, ax, q4, Or.inr (by simp [base])⟩
              split at h
              · cases h3 : eat m2 i2 kwCdata eqExact with
                | mk b3 r3 =>
                  obtain ⟨m3, i3⟩ := r3
                  obtain ⟨s3, t3, _⟩ := eat_stage s2 _ _ pk3 n3 b3 m3 i3 h3
                  obtain ⟨a3, e3, p3⟩ := eat_shape m2 i2 _ _ s2.nrec s2.ok n3 b3 m3 i3 h3
                  rw [h3] at h
                  cases b3 with
                  | none => simp at h
                  | some b3 =>
                    have ht3 := t3 (by simp)
                    rw [ht2, ht3, List.nil_append, List.nil_append] at e3
                    have e123 : m.tempBuf ++ inp = (a1 ++ a2 ++ a3) ++ i3 := by
                      rw [e1, e2, e3]; simp
                    cases b3 with
                    | true =>
                      simp only [R.cont.injEq] at h
                      obtain ⟨x1, x2⟩ := h; subst x1 x2
                      refine ⟨by simp [s3.cr], by simp [s3.nrec], by simp [clearTemp], by simp, by simp, _, e123, Or.inl ?_⟩
                      have := p3 rfl
                      intro hx; exact this (List.append_eq_nil_iff.mp hx).2
                    | false => exact bogus m3 i3 _ s3.cr s3.nrec ht3 e123 h
              · exact bogus m2 i2 (a1 ++ a2) s2.cr s2.nrec ht2 (by rw [e1, e2, List.append_assoc]) h

theorem dec_adn (o : Opts) (pol : Pol) (m : Mach) (inp : Str) (K : Nat)
    (h0 : EatSt .afterDoctypeName K m inp) (m' : Mach) (i' : Str)
    (h : stepAdn o pol m inp = .cont m' i') :
    m'.charRef = none ∧ mu m' i' < mu m inp := by
  obtain ⟨_, _, _, pk4, pk5⟩ := patOk_kw
  obtain ⟨_, _, _, n4, n5⟩ := kw_ne
  have hst0 : stash m = m.tempBuf := stash_eat h0.cr (Or.inr h0.st)
  have hb0 : base m.state = 2 := by rw [h0.st]; rfl
  unfold stepAdn at h
  cases h1 : eat m inp kwPublic eqCi with
  | mk b1 r1 =>
    obtain ⟨m1, i1⟩ := r1
    obtain ⟨s1, t1, _⟩ := eat_stage h0 _ _ pk4 n4 b1 m1 i1 h1
    obtain ⟨a1, e1, p1⟩ := eat_shape m inp _ _ h0.nrec h0.ok n4 b1 m1 i1 h1
    rw [h1] at h
    cases b1 with
    | none => simp at h
    | some b1 =>
      have ht1 := t1 (by simp)
      rw [ht1, List.nil_append] at e1
      cases b1 with
      | true =>
        simp only [R.cont.injEq] at h
        obtain ⟨x1, x2⟩ := h; subst x1 x2
        have hc' : (to (.afterDoctypeKeyword .pub) m1).charRef = none := by simp [s1.cr]
        exact ⟨hc', mu_dec_plain h0.cr h0.nrec hc' (by simp [s1.nrec]) (stash_plain hc' (by simp) (by simp))
          (by rw [hst0]; exact e1) (Or.inl (p1 rfl))⟩
      | false =>
        simp only at h
        cases h2 : eat m1 i1 kwSystem eqCi with
        | mk b2 r2 =>
          obtain ⟨m2, i2⟩ := r2
          obtain ⟨s2, t2, _⟩ := eat_stage s1 _ _ pk5 n5 b2 m2 i2 h2
          obtain ⟨a2, e2, p2⟩ := eat_shape m1 i1 _ _ s1.nrec s1.ok n5 b2 m2 i2 h2
          rw [h2] at h
          cases b2 with
          | none => simp at h
          | some b2 =>
            have ht2 := t2 (by simp)
            rw [ht1, ht2, List.nil_append, List.nil_append] at e2
            have e12 : m.tempBuf ++ inp = (a1 ++ a2) ++ i2 := by rw [e1, e2, List.append_assoc]
            cases b2 with
            | true =>
              simp only [R.cont.injEq] at h
              obtain ⟨x1, x2⟩ := h; subst x1 x2
              have hc' : (to (.afterDoctypeKeyword .sys) m2).charRef = none := by simp [s2.cr]
              refine ⟨hc', mu_dec_plain h0.cr h0.nrec hc' (by simp [s2.nrec]) (stash_plain hc' (by simp) (by simp))
                (by rw [hst0]; exact e12) (Or.inl ?_)⟩
              have := p2 rfl
              intro hx; exact this (List.append_eq_nil_iff.mp hx).2
            | false =>
              simp only at h
              cases hg : getChar o m2 i2 with
              | mk oc r =>
                obtain ⟨m3, i3⟩ := r
                rw [hg] at h
                cases oc with
                | none => simp at h
                | some c =>
                  obtain ⟨f1, f2, f3, f4, _⟩ := getChar_fields o m2 m3 i2 i3 c hg
                  obtain ⟨r1, r2⟩ := getChar_ri o m2 m3 i2 i3 c (by intro hx; rw [s2.nrec] at hx; simp at hx) hg
                  simp only at h
                  obtain ⟨x1, x2⟩ := ofSig_cont _ _ _ _ h
                  subst x1 x2
                  obtain ⟨_, _, _, a4, a5, _, _⟩ := afterChar_lines o pol m3 c (by rw [f4, s2.cr])
                    (by intro _; rw [f2, ht2]) f3 r1 r2
                  refine ⟨a4, ?_⟩
                  have hcc : (transChar o pol m3 c).1.currentChar = c := by rw [transChar_currentChar, r1]
                  rcases getChar_shape o m2 m3 i2 _ c hg with ⟨g1, _⟩ | ⟨_, a, c0, g2, g3⟩
                  · rw [s2.nrec] at g1; simp at g1
                  · exact mu_dec_consume (a := (a1 ++ a2) ++ a) (c0 := c0) h0.cr h0.nrec a4 a5
                      (by rw [hst0, e12, g2]; simp) (fun _ => by rw [hcc, g3])

/-! ### the character-reference sub-tokenizer -/

/-- what the measure needs to know about the sub-tokenizer's registers -/
structure CRT (cr : CharRefSt) : Prop where
  nbRun : ∀ x ∈ cr.nameBuf.getD [], runCh x = true
  hexOk : ∀ c, cr.hexMarker = some c → c = 'x' ∨ c = 'X'

theorem hex_ne_amp {c : Char} (h : c = 'x' ∨ c = 'X') : c ≠ '&' := by
  rcases h with h | h <;> subst h <;> decide

theorem CRT.fresh (b : Bool) : CRT { inAttr := b } := ⟨by simp, by simp⟩

theorem alnum_runCh {c : Char} (h : isAsciiAlnum c = true) : runCh c = true := by
  unfold runCh; simp [h]

/-- weight of a character reference in progress (without the constant 8) -/
def crW (cr : CharRefSt) (inp : Str) : Nat :=
  16 * (crStash cr + inp.length) + tripF (crFlag cr.state) inp + crRank cr.state

theorem mu_some' {m : Mach} {cr : CharRefSt} (h : m.charRef = some cr) (inp : Str) :
    mu m inp = crW cr inp + 8 := by
  rw [mu_some h]; unfold crW; omega

/-- one step of the sub-tokenizer: `Stuck` changes nothing (and the queue is empty), `Progress` decreases the weight and
keeps the registers' invariant, `Done` leaves no more than the weight in the queue -/
def CRDec (cr : CharRefSt) (inp : Str) : CRRes → Prop
  | .error _ => True
  | .ok (_, i1, cr1, st) =>
    match st with
    | .stuck => cr1 = cr ∧ i1 = []
    | .progress => CRT cr1 ∧ crW cr1 i1 < crW cr inp
    | .done _ => 16 * i1.length + tripF false i1 ≤ crW cr inp

theorem finishNamed_shape (o : Opts) (m : Mach) (inp : Str) (cr : CharRefSt) (ec : Option Char) (nb : Str)
    (m1 : Mach) (i1 : Str) (cr1 : CharRefSt) (st : CRStatus) (hnb : cr.nameBuf = some nb)
    (h : finishNamed o m inp cr ec = .ok (m1, i1, cr1, st)) :
    (∃ chars k, st = .done chars ∧ i1 = nb.drop k ++ inp) ∨
    (st = .progress ∧ i1 = inp ∧ (cr1.state = .bogusName ∧ cr1.nameBuf = some nb ∧ cr1.hexMarker = cr.hexMarker) ∧
      ∃ c, ec = some c ∧ isAsciiAlnum c = true) := by
  unfold finishNamed at h
  rw [hnb] at h
  dsimp only at h
  cases hm : cr.nameMatch with
  | none =>
    rw [hm] at h
    dsimp only at h
    cases ec with
    | none =>
      simp only [Bool.false_eq_true, ↓reduceIte, Except.ok.injEq, Prod.mk.injEq] at h
      obtain ⟨_, e2, _, e4⟩ := h
      exact Or.inl ⟨[], 0, e4.symm, by rw [← e2]; rfl⟩
    | some c =>
      dsimp only at h
      by_cases hcb : isAsciiAlnum c = true
      · simp only [hcb, ↓reduceIte, Except.ok.injEq, Prod.mk.injEq] at h
        obtain ⟨_, e2, e3, e4⟩ := h
        exact Or.inr ⟨e4.symm, e2.symm, by rw [← e3]; exact ⟨rfl, rfl, rfl⟩, c, rfl, hcb⟩
      · simp only [hcb, Bool.false_eq_true, ↓reduceIte, Except.ok.injEq, Prod.mk.injEq] at h
        obtain ⟨_, e2, _, e4⟩ := h
        exact Or.inl ⟨[], 0, e4.symm, by rw [← e2]; rfl⟩
  | some mt =>
    obtain ⟨c1, c2⟩ := mt
    rw [hm] at h
    dsimp only at h
    cases hd : namedDecision m cr nb c1 c2 with
    | error e => rw [hd] at h; simp at h
    | ok r =>
      rw [hd] at h
      cases r with
      | none =>
        simp only [Except.ok.injEq, Prod.mk.injEq] at h
        obtain ⟨_, e2, _, e4⟩ := h
        exact Or.inl ⟨[], 0, e4.symm, by rw [← e2]; rfl⟩
      | some mc =>
        obtain ⟨mx, cs⟩ := mc
        simp only [Except.ok.injEq, Prod.mk.injEq] at h
        obtain ⟨_, e2, _, e4⟩ := h
        exact Or.inl ⟨cs, cr.nameLen, e4.symm, e2.symm⟩

/-- text given back by `unconsume_name` / `finish_named` after `nb ++ [c]` was collected: it does not
count as travelling any more -/
theorem tripF_drop_back (nb : Str) (c : Char) (rest : Str) (k : Nat) (h : ∀ x ∈ nb, runCh x = true) :
    tripF false ((nb ++ [c]).drop k ++ rest) ≤ tripF true (c :: rest) := by
  by_cases hk : k ≤ nb.length
  · rw [List.drop_append_of_le_length hk, List.append_assoc, List.singleton_append,
      tripF_false_run _ _ (fun x hx => h x (List.mem_of_mem_drop hx))]
    exact tripF_le_true false _
  · have : (nb ++ [c]).drop k = [] := by
      apply List.drop_eq_nil_of_le; simp; omega
    rw [this, List.nil_append]
    exact tripF_suffix true [c] rest

theorem length_drop_back (nb : Str) (c : Char) (rest : Str) (k : Nat) :
    ((nb ++ [c]).drop k ++ rest).length ≤ nb.length + (rest.length + 1) := by
  simp only [List.length_append, List.length_drop, List.length_cons, List.length_nil]
  omega

theorem crStep_term (o : Opts) (m : Mach) (inp : Str) (cr : CharRefSt)
    (hr : m.reconsume = false) (ht : CRT cr) :
    CRDec cr inp (crStep o m inp cr) := by
  unfold crStep
  cases inp with
  | nil => simp only [peek, hr, Bool.false_eq_true, ↓reduceIte, List.head?_nil]; exact ⟨rfl, rfl⟩
  | cons c rest =>
    simp only [peek, hr, Bool.false_eq_true, ↓reduceIte, List.head?_cons]
    have hd : discardChar m (c :: rest) = (m, rest) := by simp [discardChar, hr]
    have hsuf : tripF false rest ≤ tripF false (c :: rest) := tripF_suffix false [c] rest
    cases hst : cr.state with
    | begin =>
      dsimp only
      split
      · refine ⟨⟨by simp, ht.hexOk⟩, ?_⟩
        simp [crW, crStash, crFlag, crRank, hst]
      · split
        · rename_i hh
          rw [hd]
          refine ⟨⟨ht.nbRun, ht.hexOk⟩, ?_⟩
          subst hh
          simp only [crW, crStash, crFlag, crRank, hst, tripF_true_hash, List.length_cons]
          omega
        · show 16 * (c :: rest).length + tripF false (c :: rest) ≤ crW cr (c :: rest)
          have := tripF_le_true false (c :: rest)
          simp only [crW, crStash, crFlag, crRank, hst]
          omega
    | octothorpe =>
      dsimp only
      split
      · rename_i hx
        rw [hd]
        have hcx : c = 'x' ∨ c = 'X' := by simpa using hx
        refine ⟨⟨ht.nbRun, ?_⟩, ?_⟩
        · intro c' hc'; simp only [Option.some.injEq] at hc'; subst hc'; exact hcx
        · simp only [crW, crStash, crFlag, crRank, hst, List.length_cons, Option.isSome_some, ↓reduceIte]
          split <;> omega
      · refine ⟨⟨ht.nbRun, by simp⟩, ?_⟩
        simp only [crW, crStash, crFlag, crRank, hst, Option.isSome_none, Bool.false_eq_true, ↓reduceIte]
        split <;> omega
    | numeric base =>
      dsimp only
      cases htd : toDigit c base with
      | some n =>
        dsimp only
        rw [hd]
        refine ⟨⟨ht.nbRun, ht.hexOk⟩, ?_⟩
        simp only [crW, crStash, crFlag, crRank, hst, List.length_cons, ↓reduceIte]
        split <;> omega
      | none =>
        dsimp only
        split
        · rename_i hsd
          have hsd' : cr.seenDigit = false := by simpa using hsd
          unfold unconsumeNumeric
          show 16 * (('#' :: (match cr.hexMarker with | some c => [c] | none => [])) ++ c :: rest).length
            + tripF false (('#' :: (match cr.hexMarker with | some c => [c] | none => [])) ++ c :: rest)
            ≤ crW cr (c :: rest)
          simp only [crW, crStash, crFlag, crRank, hst, hsd', Bool.false_eq_true, ↓reduceIte]
          rw [List.cons_append, tripF_false_cons _ _ (by decide)]
          cases hh : cr.hexMarker with
          | none => simp; omega
          | some y =>
            simp only [List.cons_append, List.nil_append, tripF_false_cons _ _ (hex_ne_amp (ht.hexOk y hh)),
              List.length_cons, Option.isSome_some, ↓reduceIte]
            omega
        · rename_i hsd
          have hsd' : cr.seenDigit = true := by simpa using hsd
          refine ⟨⟨ht.nbRun, ht.hexOk⟩, ?_⟩
          simp [crW, crStash, crFlag, crRank, hst, hsd']
    | numericSemicolon =>
      dsimp only
      have hw : crW cr (c :: rest) = 16 * (c :: rest).length + tripF false (c :: rest) := by
        simp [crW, crStash, crFlag, crRank, hst]
      split
      · rw [hd]
        obtain ⟨m1, ch, hf⟩ := finishNumericStatus_ok o m rest cr
        rw [hf]
        show 16 * rest.length + tripF false rest ≤ crW cr (c :: rest)
        rw [hw]; simp only [List.length_cons]; omega
      · obtain ⟨m1, ch, hf⟩ := finishNumericStatus_ok o
          (emitErr m "Semicolon missing after numeric character reference") (c :: rest) cr
        rw [hf]
        show 16 * (c :: rest).length + tripF false (c :: rest) ≤ crW cr (c :: rest)
        rw [hw]; exact Nat.le_refl _
    | named =>
      rw [hd]
      dsimp only
      cases hnb : cr.nameBuf with
      | none => trivial
      | some nb =>
        dsimp only
        have hrun : ∀ x ∈ nb, runCh x = true := by simpa [hnb] using ht.nbRun
        have hw : crW cr (c :: rest) = 16 * (nb.length + (rest.length + 1)) + tripF true (c :: rest) + 1 := by
          simp [crW, crStash, crFlag, crRank, hst, hnb]
        -- the register after pushing a travelling character
        have push : ∀ (cr1 : CharRefSt), (cr1.state = .named ∨ cr1.state = .bogusName) →
            cr1.nameBuf = some (nb ++ [c]) → cr1.hexMarker = cr.hexMarker → runCh c = true →
            CRT cr1 ∧ crW cr1 rest < crW cr (c :: rest) := by
          intro cr1 q1 q2 q3 q4
          refine ⟨⟨?_, by rw [q3]; exact ht.hexOk⟩, ?_⟩
          · rw [q2]
            intro x hx
            simp only [Option.getD_some] at hx
            rcases List.mem_append.mp hx with hx | hx
            · exact hrun x hx
            · simp only [List.mem_cons, List.not_mem_nil, or_false] at hx
              subst hx; exact q4
          · rw [hw, tripF_true_cons_run _ _ q4]
            rcases q1 with q1 | q1 <;> simp [crW, crStash, crFlag, crRank, q1, q2] <;> omega
        cases hlk : entityLookup (nb ++ [c]) with
        | some mt =>
          dsimp only
          have hcrun : runCh c = true := lookup_runCh _ _ hlk c (by simp)
          split
          · exact push _ (Or.inl (by simp)) rfl rfl hcrun
          · exact push _ (Or.inl (by simp)) rfl rfl hcrun
        | none =>
          dsimp only
          cases hfn : finishNamed o m rest { cr with state := .named, nameBuf := some (nb ++ [c]) } (some c) with
          | error e => trivial
          | ok v =>
            obtain ⟨m1, i1, cr1, st⟩ := v
            rcases finishNamed_shape o m rest _ (some c) (nb ++ [c]) m1 i1 cr1 st rfl hfn with
              ⟨chars, k, e1, e2⟩ | ⟨e1, e2, e3, c', e4, e5⟩
            · subst e1 e2
              show 16 * ((nb ++ [c]).drop k ++ rest).length + tripF false ((nb ++ [c]).drop k ++ rest)
                ≤ crW cr (c :: rest)
              have := tripF_drop_back nb c rest k hrun
              have := length_drop_back nb c rest k
              rw [hw]; omega
            · subst e1 e2
              simp only [Option.some.injEq] at e4
              subst e4
              exact push _ (Or.inr e3.1) e3.2.1 e3.2.2 (alnum_runCh e5)
    | bogusName =>
      rw [hd]
      dsimp only
      cases hnb : cr.nameBuf with
      | none => trivial
      | some nb =>
        dsimp only
        have hrun : ∀ x ∈ nb, runCh x = true := by simpa [hnb] using ht.nbRun
        have hw : crW cr (c :: rest) = 16 * (nb.length + (rest.length + 1)) + tripF true (c :: rest) + 1 := by
          simp [crW, crStash, crFlag, crRank, hst, hnb]
        split
        · rename_i hal
          have hcrun := alnum_runCh hal
          refine ⟨⟨?_, ht.hexOk⟩, ?_⟩
          · intro x hx
            simp only [Option.getD_some] at hx
            rcases List.mem_append.mp hx with hx | hx
            · exact hrun x hx
            · simp only [List.mem_cons, List.not_mem_nil, or_false] at hx
              subst hx; exact hcrun
          · rw [hw, tripF_true_cons_run _ _ hcrun]
            simp [crW, crStash, crFlag, crRank]; omega
        · show 16 * ((nb ++ [c]) ++ rest).length + tripF false ((nb ++ [c]) ++ rest) ≤ crW cr (c :: rest)
          have h1 := tripF_drop_back nb c rest 0 hrun
          have h2 := length_drop_back nb c rest 0
          simp only [List.drop_zero] at h1 h2
          rw [hw]; omega

/-! ### the step-level invariant and the decrease -/

/-- invariant at step boundaries: the line-accounting invariant (which contains the no-panic
invariant `Safe` and the look-ahead discipline) plus: `name_buf` holds alphanumerics/`;` only and
the hex marker is `x`/`X` -/
structure TInv (m : Mach) : Prop where
  linv : LInv m
  crt : ∀ cr, m.charRef = some cr → CRT cr

theorem TInv.of_none {m : Mach} (h : LInv m) (hcr : m.charRef = none) : TInv m :=
  ⟨h, fun cr hc => by rw [hcr] at hc; simp at hc⟩

theorem crStateOk_facts {s : State} (h : crStateOk s) :
    s ≠ .markupDeclarationOpen ∧ s ≠ .afterDoctypeName ∧ base s = 0 := by
  rcases h with h | h | ⟨k, h⟩ <;> subst h <;> simp [base]

theorem dec_charRef (o : Opts) (m : Mach) (inp : Str) (cr : CharRefSt) (hi : TInv m)
    (hcr : m.charRef = some cr) (m' : Mach) (i' : Str) :
    ((stepCharRef o m inp cr).pair? = some (m', i') → ∀ cr', m'.charRef = some cr' → CRT cr') ∧
    (stepCharRef o m inp cr = .cont m' i' → mu m' i' < mu m inp) := by
  obtain ⟨_, c2, _⟩ := hi.linv.cr cr hcr
  have hstate := crStateOk_facts (hi.linv.safe.crState cr hcr)
  have hdec := crStep_term o m inp cr c2 (hi.crt cr hcr)
  unfold stepCharRef
  cases hc : crStep o m inp cr with
  | error x => exact ⟨fun h => by simp [R.pair?] at h, fun h => by simp at h⟩
  | ok v =>
    obtain ⟨m1, i1, cr1, st⟩ := v
    have hw := crStep_weaker o m m1 inp i1 cr cr1 st hc
    rw [hc] at hdec
    cases st with
    | stuck =>
      refine ⟨fun h cr' hcr' => ?_, fun h => by simp at h⟩
      simp only [R.pair?, Option.some.injEq, Prod.mk.injEq] at h
      obtain ⟨h1, _⟩ := h
      subst h1
      simp only [setCharRef_charRef, Option.some.injEq] at hcr'
      subst hcr'
      have : cr1 = cr := hdec.1
      rw [this]; exact hi.crt cr hcr
    | progress =>
      have hd : CRT cr1 ∧ crW cr1 i1 < crW cr inp := hdec
      refine ⟨fun h cr' hcr' => ?_, fun h => ?_⟩
      · simp only [R.pair?, Option.some.injEq, Prod.mk.injEq] at h
        obtain ⟨h1, _⟩ := h
        subst h1
        simp only [setCharRef_charRef, Option.some.injEq] at hcr'
        subst hcr'
        exact hd.1
      · simp only [R.cont.injEq] at h
        obtain ⟨h1, h2⟩ := h
        subst h1 h2
        rw [mu_some' hcr, mu_some' (m := m1.setCharRef (some cr1)) (cr := cr1) (by simp)]
        omega
    | done chars =>
      have hd : 16 * i1.length + tripF false i1 ≤ crW cr inp := hdec
      have hp := processCharRef_fields m1 chars
      refine ⟨fun h cr' hcr' => ?_, fun h => ?_⟩
      · obtain ⟨h1, _⟩ := ofSig_pair _ _ _ _ h
        subst h1
        simp at hcr'
      · obtain ⟨h1, h2⟩ := ofSig_cont _ _ _ _ h
        subst h1 h2
        have hcn : ((processCharRef m1 chars).1.setCharRef none).charRef = none := by simp
        have hst : ((processCharRef m1 chars).1.setCharRef none).state = m.state := by
          simp [hp.1, hw.1]
        have hrec : ((processCharRef m1 chars).1.setCharRef none).reconsume = false := by
          simp only [setCharRef_reconsume, hp.2.2.2.1]
          cases hx : m1.reconsume with
          | false => rfl
          | true => have := hw.2.2.2.1 hx; rw [c2] at this; simp at this
        rw [mu_some' hcr, mu_none hcn, rc_false hrec, hrec, hst, hstate.2.2,
          stash_plain hcn (by rw [hst]; exact hstate.1) (by rw [hst]; exact hstate.2.1)]
        simp only [List.nil_append, List.length_nil, Bool.false_eq_true, ↓reduceIte]
        omega

/-- outside a character reference a step leaves `char_ref_tokenizer` empty or starts a fresh one -/
theorem step_charRef_after (o : Opts) (pol : Pol) (m : Mach) (inp : Str) (hcr : m.charRef = none)
    (m' : Mach) (i' : Str) (h : (step o pol m inp).pair? = some (m', i')) :
    m'.charRef = none ∨ ∃ b, m'.charRef = some { inAttr := b } := by
  have hmach := pair_mach _ _ _ h
  cases hrk : readKind m.state with
  | getChar =>
    rw [step_getChar o pol m inp hcr hrk] at h
    cases hgc : getChar o m inp with
    | mk oc r =>
      obtain ⟨m1, i1⟩ := r
      rw [hgc] at h
      cases oc with
      | none =>
        obtain ⟨_, _, g3⟩ := getChar_none o m m1 inp i1 hgc
        simp only [contChar, R.pair?, Option.some.injEq, Prod.mk.injEq] at h
        obtain ⟨h1, _⟩ := h
        subst h1
        rcases g3 with ⟨_, g4⟩ | ⟨_, _, g4⟩ <;> subst g4 <;> simp [hcr]
      | some c =>
        simp only [contChar] at h
        obtain ⟨h1, _⟩ := ofSig_pair _ _ _ _ h
        subst h1
        left
        rw [transChar_charRef, (getChar_fields o m m1 inp i1 c hgc).2.2.2.1, hcr]
  | popExcept =>
    rw [step_popExcept o pol m inp hcr hrk] at h
    cases hgc : popExceptFrom o (setOf m.state) m inp with
    | mk oc r =>
      obtain ⟨m1, i1⟩ := r
      rw [hgc] at h
      cases oc with
      | none =>
        obtain ⟨_, _, g3⟩ := popExceptFrom_none o _ m m1 inp i1 hgc
        simp only [contSet, R.pair?, Option.some.injEq, Prod.mk.injEq] at h
        obtain ⟨h1, _⟩ := h
        subst h1
        rcases g3 with ⟨_, g4⟩ | ⟨_, _, g4⟩ <;> subst g4 <;> simp [hcr]
      | some sr =>
        obtain ⟨g1, _, _, g4, _⟩ := popExceptFrom_fields o _ m m1 inp i1 sr hgc
        simp only [contSet] at h
        obtain ⟨h1, _⟩ := ofSig_pair _ _ _ _ h
        subst h1
        rcases (transSet_charRef o pol m1 sr (by rw [g4, hcr]) (Or.inl (by rw [g1]; exact hrk))).2 with hx | ⟨hx, _, _⟩
        · exact Or.inl hx
        · exact Or.inr ⟨_, hx⟩
  | dataSimd =>
    rw [step_dataSimd o pol m inp hcr hrk] at h
    cases hgc : readData o m inp with
    | mk oc r =>
      obtain ⟨m1, i1⟩ := r
      rw [hgc] at h
      cases oc with
      | none =>
        obtain ⟨_, _, g3⟩ := readData_none o m m1 inp i1 hgc
        simp only [contSet, R.pair?, Option.some.injEq, Prod.mk.injEq] at h
        obtain ⟨h1, _⟩ := h
        subst h1
        rcases g3 with ⟨_, g4⟩ | ⟨_, _, g4⟩ <;> subst g4 <;> simp [hcr]
      | some sr =>
        obtain ⟨g1, _, _, g4, _⟩ := readData_fields o m m1 inp i1 sr hgc
        simp only [contSet] at h
        obtain ⟨h1, _⟩ := ofSig_pair _ _ _ _ h
        subst h1
        rcases (transSet_charRef o pol m1 sr (by rw [g4, hcr]) (Or.inr (by rw [g1]; exact hrk))).2 with hx | ⟨hx, _, _⟩
        · exact Or.inl hx
        · exact Or.inr ⟨_, hx⟩
  | peekBav =>
    rw [step_kind_bav o pol m inp hcr hrk] at hmach
    left; rw [(stepBav_charRef o pol m inp).2 m' hmach, hcr]
  | eatMdo =>
    rw [step_kind_mdo o pol m inp hcr hrk] at hmach
    left; rw [(stepMdo_charRef o pol m inp).2 m' hmach, hcr]
  | eatAdn =>
    rw [step_kind_adn o pol m inp hcr hrk] at hmach
    left; rw [(stepAdn_charRef o pol m inp (readKind_adn hrk)).2 m' hmach, hcr]

/-- **the invariant is preserved by every step** (whatever the step answers) -/
theorem step_tinv (o : Opts) (pol : Pol) (m : Mach) (inp : Str) (hi : TInv m) (m' : Mach) (i' : Str)
    (h : (step o pol m inp).pair? = some (m', i')) : TInv m' := by
  refine ⟨(step_lines o pol m inp hi.linv m' i' h).1, ?_⟩
  cases hcr : m.charRef with
  | some cr =>
    rw [step_kind_charRef o pol m inp cr hcr] at h
    exact (dec_charRef o m inp cr hi hcr m' i').1 h
  | none =>
    intro cr' hcr'
    rcases step_charRef_after o pol m inp hcr m' i' h with hx | ⟨b, hx⟩
    · rw [hx] at hcr'; simp at hcr'
    · rw [hx] at hcr'
      simp only [Option.some.injEq] at hcr'
      subst hcr'
      exact CRT.fresh b

/-- **every `Continue` step strictly decreases the measure** -/
theorem step_dec (o : Opts) (pol : Pol) (m : Mach) (inp : Str) (hi : TInv m) (m' : Mach) (i' : Str)
    (h : step o pol m inp = .cont m' i') : mu m' i' < mu m inp := by
  have hl := hi.linv
  cases hcr : m.charRef with
  | some cr =>
    rw [step_kind_charRef o pol m inp cr hcr] at h
    exact (dec_charRef o m inp cr hi hcr m' i').2 h
  | none =>
    cases hrk : readKind m.state with
    | getChar =>
      rw [step_getChar o pol m inp hcr hrk] at h
      exact (dec_getChar o pol m inp hl hcr hrk m' i' h).2
    | popExcept =>
      rw [step_popExcept o pol m inp hcr hrk] at h
      refine (dec_set o pol m inp hcr (Or.inl hrk) _ ?_ m' i' h).2
      intro sr hsr
      cases hp : popExceptFrom o (setOf m.state) m inp with
      | mk a b =>
        obtain ⟨m1, i1⟩ := b
        rw [hp] at hsr; simp only at hsr; subst hsr
        exact ⟨popExceptFrom_fields o _ m m1 inp i1 sr hp, popExceptFrom_shape o _ m m1 inp i1 sr hp⟩
    | dataSimd =>
      rw [step_dataSimd o pol m inp hcr hrk] at h
      refine (dec_set o pol m inp hcr (Or.inr hrk) _ ?_ m' i' h).2
      intro sr hsr
      cases hp : readData o m inp with
      | mk a b =>
        obtain ⟨m1, i1⟩ := b
        rw [hp] at hsr; simp only at hsr; subst hsr
        exact ⟨readData_fields o m m1 inp i1 sr hp, readData_shape o m m1 inp i1 sr hp⟩
    | peekBav =>
      have hst := readKind_bav hrk
      rw [step_kind_bav o pol m inp hcr hrk] at h
      exact (dec_bav o pol m inp (hl.peekNoRecon (Or.inl hst)) hcr hst
        (hl.nr (by rw [hst]; rfl) (by rw [hst]; simp) (by rw [hst]; simp)) m' i' h).2
    | eatMdo =>
      have hst := readKind_mdo hrk
      rw [step_kind_mdo o pol m inp hcr hrk] at h
      have h0 : EatSt .markupDeclarationOpen (Phi m inp) m inp :=
        ⟨hst, hcr, hl.peekNoRecon (Or.inr (Or.inl hst)), hl.eatOk (Or.inl hst),
          by unfold Phi; rw [stash_eat hcr (Or.inl hst)]⟩
      obtain ⟨d1, d2, d3, d4, d5, a, d6, d7⟩ := dec_mdo o pol m inp _ h0 m' i' h
      refine mu_dec_plain hcr h0.nrec d1 d2 (stash_plain d1 d4 d5)
        (by rw [stash_eat hcr (Or.inl hst)]; exact d6) ?_
      rcases d7 with d7 | d7
      · exact Or.inl d7
      · right; rw [hst]; exact d7
    | eatAdn =>
      have hst := readKind_adn hrk
      rw [step_kind_adn o pol m inp hcr hrk] at h
      have h0 : EatSt .afterDoctypeName (Phi m inp) m inp :=
        ⟨hst, hcr, hl.peekNoRecon (Or.inr (Or.inr hst)), hl.eatOk (Or.inr hst),
          by unfold Phi; rw [stash_eat hcr (Or.inr hst)]⟩
      exact (dec_adn o pol m inp _ h0 m' i' h).2

/-! ### whole runs -/

/-- **`run` never runs out of fuel** when it is given more than the measure -/
theorem run_terminates (o : Opts) (pol : Pol) (fuel : Nat) (m : Mach) (inp : Str) (hi : TInv m)
    (hf : mu m inp < fuel) : run o pol fuel m inp ≠ .outOfFuel := by
  induction fuel generalizing m inp with
  | zero => omega
  | succ n ih =>
    unfold run
    cases hs : step o pol m inp with
    | cont m1 i1 =>
      simp only
      have hd := step_dec o pol m inp hi m1 i1 hs
      exact ih m1 i1 (step_tinv o pol m inp hi m1 i1 (by rw [hs]; rfl)) (by omega)
    | suspend m1 i1 => simp
    | script m1 i1 => simp
    | indicator m1 i1 => simp
    | panic e => simp

/-- **fuel irrelevance**: more fuel than needed changes nothing -/
theorem run_fuel_mono (o : Opts) (pol : Pol) (n k : Nat) (m : Mach) (inp : Str)
    (h : run o pol n m inp ≠ .outOfFuel) (hk : n ≤ k) : run o pol k m inp = run o pol n m inp := by
  induction n generalizing k m inp with
  | zero => exact absurd rfl h
  | succ n ih =>
    cases k with
    | zero => omega
    | succ k =>
      unfold run at h ⊢
      cases hs : step o pol m inp with
      | cont m1 i1 =>
        rw [hs] at h
        exact ih k m1 i1 h (by omega)
      | suspend m1 i1 => rfl
      | script m1 i1 => rfl
      | indicator m1 i1 => rfl
      | panic e => rfl

/-- the machine and left-over input a run ends with -/
def RunRes.pair? : RunRes → Option (Mach × Str)
  | .done m i | .script m i | .indicator m i => some (m, i)
  | .panic _ | .outOfFuel => none

/-- the invariant holds wherever a run stops (suspension or pause) -/
theorem run_tinv (o : Opts) (pol : Pol) (fuel : Nat) (m : Mach) (inp : Str) (hi : TInv m)
    (m' : Mach) (i' : Str) (h : (run o pol fuel m inp).pair? = some (m', i')) : TInv m' := by
  induction fuel generalizing m inp with
  | zero => simp [run, RunRes.pair?] at h
  | succ n ih =>
    unfold run at h
    cases hs : step o pol m inp with
    | cont m1 i1 =>
      rw [hs] at h
      exact ih m1 i1 (step_tinv o pol m inp hi m1 i1 (by rw [hs]; rfl)) h
    | suspend m1 i1 =>
      rw [hs] at h
      simp only [RunRes.pair?, Option.some.injEq, Prod.mk.injEq] at h
      obtain ⟨e1, e2⟩ := h; subst e1 e2
      exact step_tinv o pol m inp hi m1 i1 (by rw [hs]; rfl)
    | script m1 i1 =>
      rw [hs] at h
      simp only [RunRes.pair?, Option.some.injEq, Prod.mk.injEq] at h
      obtain ⟨e1, e2⟩ := h; subst e1 e2
      exact step_tinv o pol m inp hi m1 i1 (by rw [hs]; rfl)
    | indicator m1 i1 =>
      rw [hs] at h
      simp only [RunRes.pair?, Option.some.injEq, Prod.mk.injEq] at h
      obtain ⟨e1, e2⟩ := h; subst e1 e2
      exact step_tinv o pol m inp hi m1 i1 (by rw [hs]; rfl)
    | panic e => rw [hs] at h; simp [RunRes.pair?] at h

theorem run_no_panic (o : Opts) (pol : Pol) (fuel : Nat) (m : Mach) (inp : Str) (hi : TInv m) (e : String) :
    run o pol fuel m inp ≠ .panic e := by
  induction fuel generalizing m inp with
  | zero => simp [run]
  | succ n ih =>
    unfold run
    cases hs : step o pol m inp with
    | cont m1 i1 => exact ih m1 i1 (step_tinv o pol m inp hi m1 i1 (by rw [hs]; rfl))
    | suspend m1 i1 => simp
    | script m1 i1 => simp
    | indicator m1 i1 => simp
    | panic x => exact absurd hs ((step_safe o pol m inp hi.linv.safe).1 x)

theorem runsTo_tinv (o : Opts) (pol : Pol) {m : Mach} {inp : Str} {m' : Mach}
    (hrun : RunsTo o pol m inp m') : TInv m → TInv m' := by
  induction hrun with
  | @susp m0 i0 m0' hs => intro hi; exact step_tinv o pol m0 i0 hi m0' [] (by rw [hs]; rfl)
  | @cont m0 i0 mx ix m0' hs _ ih => intro hi; exact ih (step_tinv o pol m0 i0 hi mx ix (by rw [hs]; rfl))
  | @script m0 i0 mx ix m0' hs _ ih => intro hi; exact ih (step_tinv o pol m0 i0 hi mx ix (by rw [hs]; rfl))
  | @indicator m0 i0 mx ix m0' hs _ ih => intro hi; exact ih (step_tinv o pol m0 i0 hi mx ix (by rw [hs]; rfl))

/-- after any sequence of chunks, each run to suspension, the invariant holds -/
theorem session_tinv (o : Opts) (pol : Pol) {m : Mach} {cs : List Str} {mf : Mach}
    (hs : Session o pol m cs mf) : TInv m → TInv mf := by
  induction hs with
  | nil => exact id
  | cons hr _ ih => intro hi; exact ih (runsTo_tinv o pol hr hi)

/-! ### the invariant on fresh machines and under the setters of `feed` / `end` -/

theorem tinv_fresh (m : Mach) (h1 : m.tempBuf = []) (h2 : m.reconsume = false) (h3 : m.charRef = none) :
    TInv m := TInv.of_none (linv_fresh m h1 h2 h3) h3

/-- the invariant only looks at these registers -/
theorem LInv.congr {m m' : Mach} (hi : LInv m) (h1 : m'.state = m.state) (h2 : m'.charRef = m.charRef)
    (h3 : m'.tempBuf = m.tempBuf) (h4 : m'.reconsume = m.reconsume) (h5 : m'.ignoreLf = m.ignoreLf)
    (h6 : m'.currentChar = m.currentChar) : LInv m' where
  safe := ⟨fun cr h => by rw [h1]; exact hi.safe.crState cr (by rw [← h2]; exact h),
           fun cr h => hi.safe.crRegs cr (by rw [← h2]; exact h)⟩
  eatOk := by
    intro hs hil
    rw [h3]
    exact hi.eatOk (by rw [← h1]; exact hs) (by rw [← h5]; exact hil)
  nr := by rw [h1, h3]; exact hi.nr
  peekNoRecon := by rw [h1, h4]; exact hi.peekNoRecon
  ri := by rw [h4, h5, h6]; exact hi.ri
  stashOk := by rw [stash_congr h1 h3 h2]; exact hi.stashOk
  cr := by rw [h2, h4, h5]; exact hi.cr

theorem TInv.congr {m m' : Mach} (hi : TInv m) (h1 : m'.state = m.state) (h2 : m'.charRef = m.charRef)
    (h3 : m'.tempBuf = m.tempBuf) (h4 : m'.reconsume = m.reconsume) (h5 : m'.ignoreLf = m.ignoreLf)
    (h6 : m'.currentChar = m.currentChar) : TInv m' :=
  ⟨hi.linv.congr h1 h2 h3 h4 h5 h6, by rw [h2]; exact hi.crt⟩

theorem TInv.setAtEof {m : Mach} (hi : TInv m) (b : Bool) : TInv (m.setAtEof b) :=
  hi.congr (by simp) (by simp) (by simp) (by simp) (by simp) (by simp)

theorem TInv.setDiscardBom {m : Mach} (hi : TInv m) (b : Bool) : TInv (m.setDiscardBom b) :=
  hi.congr (by simp) (by simp) (by simp) (by simp) (by simp) (by simp)

theorem feedBom_tinv (m : Mach) (inp : Str) (hi : TInv m) : TInv (feedBom m inp).1 := by
  unfold feedBom
  cases inp with
  | nil => exact hi
  | cons c rest =>
    dsimp only
    split
    · exact hi.setDiscardBom false
    · exact hi

/-- **`feed` never runs out of the fuel it hands to `run`** -/
theorem feed_terminates (o : Opts) (pol : Pol) (m : Mach) (inp chunk : Str) (hi : TInv m) :
    feed o pol m inp chunk ≠ .outOfFuel := by
  unfold feed
  dsimp only
  split
  · simp
  · exact run_terminates o pol _ _ _ (feedBom_tinv m _ hi) (mu_lt_fuelFor _ _)

/-- wherever `feed` stops (needs more input, or a Script / EncodingIndicator pause) the invariant
holds again: the next `feed` terminates, too -/
theorem feed_tinv (o : Opts) (pol : Pol) (m : Mach) (inp chunk : Str) (hi : TInv m)
    (m' : Mach) (i' : Str) (h : (feed o pol m inp chunk).pair? = some (m', i')) : TInv m' := by
  unfold feed at h
  dsimp only at h
  split at h
  · simp only [RunRes.pair?, Option.some.injEq, Prod.mk.injEq] at h
    rw [← h.1]; exact hi
  · exact run_tinv o pol _ _ _ (feedBom_tinv m _ hi) m' i' h

theorem feed_no_panic (o : Opts) (pol : Pol) (m : Mach) (inp chunk : Str) (hi : TInv m) (e : String) :
    feed o pol m inp chunk ≠ .panic e := by
  unfold feed
  dsimp only
  split
  · simp
  · exact run_no_panic o pol _ _ _ (feedBom_tinv m _ hi) e

/-! ### a step that asks for more input has drained the queue (also at EOF) -/

theorem ofSig_ne_suspend (ms : Mach × Sig) (inp : Str) (m' : Mach) (i' : Str) :
    ofSig ms inp ≠ .suspend m' i' := by
  intro h
  have := ofSig_not_suspend ms inp
  rw [h] at this
  simp [R.isSuspend] at this

theorem eat_none_nil (m m1 : Mach) (inp i1 pat : Str) (eq : Char → Char → Bool)
    (h : eat m inp pat eq = (none, m1, i1)) : i1 = [] := by
  rw [eat_eq_core] at h
  unfold eatCore at h
  repeat' split at h
  all_goals simp_all

theorem stepBav_suspend_nil (o : Opts) (pol : Pol) (m : Mach) (inp : Str) (m' : Mach) (i' : Str)
    (h : stepBav o pol m inp = .suspend m' i') : i' = [] := by
  unfold stepBav at h
  cases hpk : peek m inp with
  | none =>
    rw [hpk] at h
    simp only [R.suspend.injEq] at h
    rw [← h.2]; exact (peek_none m inp hpk).2
  | some c =>
    rw [hpk] at h
    dsimp only at h
    generalize (if m.ignoreLf = true then m.setIgnoreLf false else m) = ma at h
    split at h
    · simp at h
    · split at h
      · cases hg : getChar o ma inp with
        | mk oc r =>
          obtain ⟨m2, i2⟩ := r
          rw [hg] at h
          cases oc with
          | none =>
            simp only [R.suspend.injEq] at h
            rw [← h.2]; exact (getChar_none o ma m2 inp i2 hg).1
          | some c2 => simp at h
      · repeat' split at h
        all_goals first | (simp at h; done) | exact absurd h (ofSig_ne_suspend _ _ _ _)

theorem stepMdo_suspend_nil (o : Opts) (pol : Pol) (m : Mach) (inp : Str) (m' : Mach) (i' : Str)
    (h : stepMdo o pol m inp = .suspend m' i') : i' = [] := by
  unfold stepMdo at h
  cases h1 : eat m inp kwDashDash eqExact with
  | mk b1 r1 =>
    obtain ⟨m1, i1⟩ := r1
    rw [h1] at h
    cases b1 with
    | none => simp only [R.suspend.injEq] at h; rw [← h.2]; exact eat_none_nil _ _ _ _ _ _ h1
    | some b1 =>
      cases b1 with
      | true => simp at h
      | false =>
        simp only at h
        cases h2 : eat m1 i1 kwDoctype eqCi with
        | mk b2 r2 =>
          obtain ⟨m2, i2⟩ := r2
          rw [h2] at h
          cases b2 with
          | none => simp only [R.suspend.injEq] at h; rw [← h.2]; exact eat_none_nil _ _ _ _ _ _ h2
          | some b2 =>
            cases b2 with
            | true => simp at h
            | false =>
              simp only at h
              split at h
              · cases h3 : eat m2 i2 kwCdata eqExact with
                | mk b3 r3 =>
                  obtain ⟨m3, i3⟩ := r3
                  rw [h3] at h
                  cases b3 with
                  | none => simp only [R.suspend.injEq] at h; rw [← h.2]; exact eat_none_nil _ _ _ _ _ _ h3
                  | some b3 => cases b3 <;> simp at h
              · simp at h

theorem stepAdn_suspend_nil (o : Opts) (pol : Pol) (m : Mach) (inp : Str) (m' : Mach) (i' : Str)
    (h : stepAdn o pol m inp = .suspend m' i') : i' = [] := by
  unfold stepAdn at h
  cases h1 : eat m inp kwPublic eqCi with
  | mk b1 r1 =>
    obtain ⟨m1, i1⟩ := r1
    rw [h1] at h
    cases b1 with
    | none => simp only [R.suspend.injEq] at h; rw [← h.2]; exact eat_none_nil _ _ _ _ _ _ h1
    | some b1 =>
      cases b1 with
      | true => simp at h
      | false =>
        simp only at h
        cases h2 : eat m1 i1 kwSystem eqCi with
        | mk b2 r2 =>
          obtain ⟨m2, i2⟩ := r2
          rw [h2] at h
          cases b2 with
          | none => simp only [R.suspend.injEq] at h; rw [← h.2]; exact eat_none_nil _ _ _ _ _ _ h2
          | some b2 =>
            cases b2 with
            | true => simp at h
            | false =>
              simp only at h
              cases hg : getChar o m2 i2 with
              | mk oc r =>
                obtain ⟨m3, i3⟩ := r
                rw [hg] at h
                cases oc with
                | none =>
                  simp only [R.suspend.injEq] at h
                  rw [← h.2]; exact (getChar_none o m2 m3 i2 i3 hg).1
                | some c => exact absurd h (ofSig_ne_suspend _ _ _ _)

/-- **a step that asks for more input has consumed all there was** (no `at_eof` hypothesis: also
inside `Tokenizer::end`) -/
theorem step_suspend_nil (o : Opts) (pol : Pol) (m : Mach) (inp : Str) (hi : TInv m) (m' : Mach) (i' : Str)
    (h : step o pol m inp = .suspend m' i') : i' = [] := by
  cases hcr : m.charRef with
  | some cr =>
    rw [step_kind_charRef o pol m inp cr hcr] at h
    obtain ⟨_, c2, _⟩ := hi.linv.cr cr hcr
    have hdec := crStep_term o m inp cr c2 (hi.crt cr hcr)
    unfold stepCharRef at h
    cases hc : crStep o m inp cr with
    | error x => rw [hc] at h; simp at h
    | ok v =>
      obtain ⟨m1, i1, cr1, st⟩ := v
      rw [hc] at h hdec
      cases st with
      | stuck =>
        simp only [R.suspend.injEq] at h
        rw [← h.2]
        have : cr1 = cr ∧ i1 = [] := hdec
        exact this.2
      | progress => simp at h
      | done chars => exact absurd h (ofSig_ne_suspend _ _ _ _)
  | none =>
    cases hrk : readKind m.state with
    | getChar =>
      rw [step_getChar o pol m inp hcr hrk] at h
      cases hgc : getChar o m inp with
      | mk oc r =>
        obtain ⟨m1, i1⟩ := r
        rw [hgc] at h
        cases oc with
        | none =>
          simp only [contChar, R.suspend.injEq] at h
          rw [← h.2]; exact (getChar_none o m m1 inp i1 hgc).1
        | some c => exact absurd h (ofSig_ne_suspend _ _ _ _)
    | popExcept =>
      rw [step_popExcept o pol m inp hcr hrk] at h
      cases hgc : popExceptFrom o (setOf m.state) m inp with
      | mk oc r =>
        obtain ⟨m1, i1⟩ := r
        rw [hgc] at h
        cases oc with
        | none =>
          simp only [contSet, R.suspend.injEq] at h
          rw [← h.2]; exact (popExceptFrom_none o _ m m1 inp i1 hgc).1
        | some c => exact absurd h (ofSig_ne_suspend _ _ _ _)
    | dataSimd =>
      rw [step_dataSimd o pol m inp hcr hrk] at h
      cases hgc : readData o m inp with
      | mk oc r =>
        obtain ⟨m1, i1⟩ := r
        rw [hgc] at h
        cases oc with
        | none =>
          simp only [contSet, R.suspend.injEq] at h
          rw [← h.2]; exact (readData_none o m m1 inp i1 hgc).1
        | some c => exact absurd h (ofSig_ne_suspend _ _ _ _)
    | peekBav =>
      rw [step_kind_bav o pol m inp hcr hrk] at h
      exact stepBav_suspend_nil o pol m inp m' i' h
    | eatMdo =>
      rw [step_kind_mdo o pol m inp hcr hrk] at h
      exact stepMdo_suspend_nil o pol m inp m' i' h
    | eatAdn =>
      rw [step_kind_adn o pol m inp hcr hrk] at h
      exact stepAdn_suspend_nil o pol m inp m' i' h

theorem run_done_nil (o : Opts) (pol : Pol) (fuel : Nat) (m : Mach) (inp : Str) (hi : TInv m)
    (m' : Mach) (i' : Str) (h : run o pol fuel m inp = .done m' i') : i' = [] := by
  induction fuel generalizing m inp with
  | zero => simp [run] at h
  | succ n ih =>
    unfold run at h
    cases hs : step o pol m inp with
    | cont m1 i1 =>
      rw [hs] at h
      exact ih m1 i1 (step_tinv o pol m inp hi m1 i1 (by rw [hs]; rfl)) h
    | suspend m1 i1 =>
      rw [hs] at h
      simp only [RunRes.done.injEq] at h
      rw [← h.2]; exact step_suspend_nil o pol m inp hi m1 i1 hs
    | script m1 i1 => rw [hs] at h; simp at h
    | indicator m1 i1 => rw [hs] at h; simp at h
    | panic e => rw [hs] at h; simp at h

/-! ### the `eof_step` loop -/

def rawRank : RawKind → Nat
  | .scriptDataEscaped _ => 1
  | _ => 0

/-- number of `eof_step` rounds before the one that emits EOF -/
def eofRank : State → Nat
  | .data | .plaintext => 0
  | .rawData k => rawRank k
  | .rawLessThanSign k | .rawEndTagOpen k | .rawEndTagName k => 1 + rawRank k
  | .scriptDataEscapeStart _ | .scriptDataDoubleEscapeEnd | .beforeAttributeValue
  | .commentLessThanSign | .commentLessThanSignBang | .commentLessThanSignBangDash
  | .commentLessThanSignBangDashDash | .markupDeclarationOpen | .cdataSectionBracket | .cdataSectionEnd => 2
  | .tagName | .beforeAttributeName | .attributeName | .afterAttributeName | .attributeValue _
  | .afterAttributeValueQuoted | .selfClosingStartTag | .scriptDataEscapedDash _ | .scriptDataEscapedDashDash _
  | .tagOpen | .endTagOpen | .scriptDataEscapeStartDash
  | .commentStart | .commentStartDash | .comment | .commentEndDash | .commentEnd | .commentEndBang
  | .doctype | .beforeDoctypeName | .doctypeName | .afterDoctypeName | .afterDoctypeKeyword _
  | .beforeDoctypeIdentifier _ | .doctypeIdentifierDoubleQuoted _ | .doctypeIdentifierSingleQuoted _
  | .afterDoctypeIdentifier _ | .betweenDoctypePublicAndSystemIdentifiers | .bogusDoctype | .bogusComment
  | .cdataSection => 1

theorem rawRank_le (k : RawKind) : rawRank k ≤ 1 := by cases k <;> simp [rawRank]

theorem eofRank_le (s : State) : eofRank s ≤ 2 := by
  cases s <;> simp [eofRank] <;> (rename_i k; have := rawRank_le k; omega)

theorem transEof_rank (o : Opts) (m : Mach) :
    (∀ e, (transEof o m).2 ≠ .panic e) ∧
    ((transEof o m).2 = .cont → eofRank (transEof o m).1.state < eofRank m.state) := by
  unfold transEof
  split <;> simp_all [eofRank, rawRank]

theorem eofLoop_total_aux (o : Opts) (fuel : Nat) (m : Mach) (h : eofRank m.state < fuel) :
    ∃ m', eofLoop o fuel m = .ok m' := by
  induction fuel generalizing m with
  | zero => omega
  | succ n ih =>
    unfold eofLoop
    obtain ⟨h1, h2⟩ := transEof_rank o m
    cases ht : transEof o m with
    | mk m1 sig =>
      rw [ht] at h1 h2
      cases sig with
      | cont => exact ih m1 (by have := h2 rfl; simp only at this; omega)
      | done => exact ⟨m1, rfl⟩
      | panic e => exact absurd rfl (h1 e)

/-- **the `eof_step` loop of `Tokenizer::end` always finishes within its 8 rounds** (3 suffice) -/
theorem eofLoop_total (o : Opts) (m : Mach) : ∃ m', eofLoop o 8 m = .ok m' :=
  eofLoop_total_aux o 8 m (by have := eofRank_le m.state; omega)

/-! ### a sink that never pauses the tokenizer -/

/-- the sink never answers `Script` / `EncodingIndicator` to a tag token -/
def NoPause (pol : Pol) : Prop := ∀ out t, pol.onTag out t ≠ .script ∧ pol.onTag out t ≠ .indicator

def Sig.isPause : Sig → Bool
  | .script | .indicator => true
  | _ => false

def R.isPause : R → Bool
  | .script _ _ | .indicator _ _ => true
  | _ => false

theorem ofSig_isPause (ms : Mach × Sig) (inp : Str) : (ofSig ms inp).isPause = ms.2.isPause := by
  unfold ofSig
  split <;> simp_all [R.isPause, Sig.isPause]

theorem applySinkRes_noPause (m : Mach) (r : SinkRes) (h : r ≠ .script ∧ r ≠ .indicator) :
    (applySinkRes m r).2.isPause = false := by
  unfold applySinkRes
  cases r <;> simp_all [Sig.isPause]

theorem emitTag_noPause (pol : Pol) (hp : NoPause pol) (s : State) (m : Mach) :
    (emitTag pol s m).2.isPause = false := by
  unfold emitTag emitCurrentTag
  exact applySinkRes_noPause _ _ (hp _ _)

theorem transChar_noPause (o : Opts) (pol : Pol) (hp : NoPause pol) (m : Mach) (c : Char) :
    (transChar o pol m c).2.isPause = false := by
  unfold transChar
  split <;> (repeat' split) <;>
    (have h1 := emitTag_noPause pol hp .data m
     have h2 := emitTag_noPause pol hp .data (clearTemp m)
     have h3 := emitTag_noPause pol hp .data { m with tagSelfClosing := true }
     simp_all [Sig.isPause])

theorem consumeCharRef_noPause (m : Mach) : (consumeCharRef m).2.isPause = false := by
  unfold consumeCharRef
  split <;> simp [Sig.isPause]

theorem transSet_noPause (o : Opts) (pol : Pol) (hp : NoPause pol) (m : Mach) (r : SetRes) :
    (transSet o pol m r).2.isPause = false := by
  unfold transSet
  split <;> (repeat' split) <;>
    (have h1 := emitTag_noPause pol hp .data m
     have h2 := consumeCharRef_noPause m
     simp_all [Sig.isPause])

theorem processCharRef_noPause (m : Mach) (chars : Str) : (processCharRef m chars).2.isPause = false := by
  unfold processCharRef
  dsimp only
  split <;> simp [Sig.isPause]

theorem stepBav_noPause (o : Opts) (pol : Pol) (hp : NoPause pol) (m : Mach) (inp : Str) :
    (stepBav o pol m inp).isPause = false := by
  unfold stepBav
  cases hpk : peek m inp with
  | none => rfl
  | some c =>
    dsimp only
    generalize (if m.ignoreLf = true then m.setIgnoreLf false else m) = ma
    split
    · rfl
    · split
      · cases hg : getChar o ma inp with
        | mk oc r =>
          obtain ⟨m2, i2⟩ := r
          cases oc <;> rfl
      · repeat' split
        all_goals first | rfl | (rw [ofSig_isPause]; exact emitTag_noPause pol hp _ _)

theorem stepMdo_noPause (o : Opts) (pol : Pol) (m : Mach) (inp : Str) :
    (stepMdo o pol m inp).isPause = false := by
  unfold stepMdo
  repeat' split
  all_goals rfl

theorem stepAdn_noPause (o : Opts) (pol : Pol) (hp : NoPause pol) (m : Mach) (inp : Str) :
    (stepAdn o pol m inp).isPause = false := by
  unfold stepAdn
  repeat' split
  all_goals first | rfl | (rw [ofSig_isPause]; exact transChar_noPause o pol hp _ _)

theorem stepCharRef_noPause (o : Opts) (m : Mach) (inp : Str) (cr : CharRefSt) :
    (stepCharRef o m inp cr).isPause = false := by
  unfold stepCharRef
  repeat' split
  all_goals first | rfl | (rw [ofSig_isPause]; exact processCharRef_noPause _ _)

/-- with a sink that never pauses, no step answers `Script` / `EncodingIndicator` -/
theorem step_noPause (o : Opts) (pol : Pol) (hp : NoPause pol) (m : Mach) (inp : Str) :
    (step o pol m inp).isPause = false := by
  unfold step
  repeat' split
  all_goals
    first
      | exact stepCharRef_noPause o m inp _
      | exact stepBav_noPause o pol hp m inp
      | exact stepMdo_noPause o pol m inp
      | exact stepAdn_noPause o pol hp m inp
      | rfl
      | (rw [ofSig_isPause]; exact transChar_noPause o pol hp _ _)
      | (rw [ofSig_isPause]; exact transSet_noPause o pol hp _ _)

theorem run_noPause (o : Opts) (pol : Pol) (hp : NoPause pol) (fuel : Nat) (m : Mach) (inp : Str) :
    (∀ m' i', run o pol fuel m inp ≠ .script m' i') ∧ (∀ m' i', run o pol fuel m inp ≠ .indicator m' i') := by
  induction fuel generalizing m inp with
  | zero => simp [run]
  | succ n ih =>
    unfold run
    have hs0 := step_noPause o pol hp m inp
    cases hs : step o pol m inp with
    | cont m1 i1 => exact ih m1 i1
    | suspend m1 i1 => simp
    | script m1 i1 => rw [hs] at hs0; simp [R.isPause] at hs0
    | indicator m1 i1 => rw [hs] at hs0; simp [R.isPause] at hs0
    | panic e => simp

/-! ### `Tokenizer::end` -/

theorem crEofOnce_ok (o : Opts) (m : Mach) (inp : Str) (cr : CharRefSt) (hs : CRSafe cr) :
    ∃ v, crEofOnce o m inp cr = .ok v := by
  unfold crEofOnce
  cases hst : cr.state with
  | begin => exact ⟨_, rfl⟩
  | octothorpe => exact ⟨_, rfl⟩
  | numeric base =>
    dsimp only
    split
    · exact ⟨_, rfl⟩
    · obtain ⟨m1, c, h⟩ := finishNumericStatus_ok o (emitErr m "EOF in numeric character reference") inp cr
      exact ⟨_, h⟩
  | numericSemicolon =>
    obtain ⟨m1, c, h⟩ := finishNumericStatus_ok o (emitErr m "EOF in numeric character reference") inp cr
    exact ⟨_, h⟩
  | named => exact finishNamed_ok o m inp cr none hs (hs.named (Or.inl hst))
  | bogusName =>
    dsimp only
    cases hnb : cr.nameBuf with
    | none => exact absurd hnb (hs.named (Or.inr hst))
    | some nb => exact ⟨_, rfl⟩

theorem crEof_ok (o : Opts) (m : Mach) (cr : CharRefSt) (hil : m.ignoreLf = false) (hr : m.reconsume = false)
    (hc : CRLines cr) (hs : CRSafe cr) : ∃ m1 i1 chars, crEof o m [] cr = .ok (m1, i1, chars) := by
  obtain ⟨⟨mx, ix, crx, st⟩, hon⟩ := crEofOnce_ok o m [] cr hs
  obtain ⟨⟨cs, hcs⟩, _⟩ := crEofOnce_lines o m cr hil hr hc mx ix crx st hon
  subst hcs
  rw [crEof_eq, hon]
  exact ⟨_, _, _, rfl⟩

/-- the machine `end()` continues with after handing back an unfinished character reference -/
theorem finish_charRef_inv (o : Opts) (m : Mach) (cr : CharRefSt) (hi : LInv m) (hcr : m.charRef = some cr)
    (m1 : Mach) (i1 chars : Str) (hce : crEof o m [] cr = .ok (m1, i1, chars)) :
    TInv (processCharRef (m1.setCharRef none) chars).1 ∧
    (∀ e, (processCharRef (m1.setCharRef none) chars).2 ≠ .panic e) := by
  obtain ⟨c1, c2, c3⟩ := hi.cr cr hcr
  have hstate := hi.safe.crState cr hcr
  obtain ⟨l1, l2, l3, l4, l5, l6⟩ := crEof_lines o m cr c1 c2 c3 m1 i1 chars hce
  have hp := processCharRef_fields (m1.setCharRef none) chars
  generalize hm2 : (processCharRef (m1.setCharRef none) chars).1 = m2 at hp
  have hst2 : m2.state = m.state := by rw [hp.1]; simp only [setCharRef_state]; exact l5
  have hne : m2.state ≠ .markupDeclarationOpen ∧ m2.state ≠ .afterDoctypeName ∧ m2.state ≠ .beforeAttributeValue := by
    rw [hst2]
    rcases hstate with hx | hx | ⟨k, hx⟩ <;> rw [hx] <;> simp
  have hcr2 : m2.charRef = none := by
    have := processCharRef_charRef (m1.setCharRef none) chars
    rw [hm2] at this; simpa using this
  have hrec2 : m2.reconsume = false := by rw [hp.2.2.2.1]; simpa using l3
  have hsto2 : stash m2 = [] := stash_plain hcr2 hne.1 hne.2.1
  refine ⟨TInv.of_none ⟨Safe.of_none hcr2, ?_, ?_, fun _ => hrec2, by intro hx; rw [hrec2] at hx; simp at hx,
      by rw [hsto2]; intro c hc; exact absurd hc List.not_mem_nil,
      by intro cr' hc'; rw [hcr2] at hc'; simp at hc'⟩ hcr2, ?_⟩
  · intro hx; rcases hx with hx | hx
    · exact absurd hx hne.1
    · exact absurd hx hne.2.1
  · intro hraw h1 h2
    rw [hp.2.1]; simp only [setCharRef_tempBuf]; rw [l6]
    exact hi.nr (by rw [← hst2]; exact hraw) (by rw [← hst2]; exact h1) (by rw [← hst2]; exact h2)
  · intro e
    apply processCharRef_no_panic
    simp only [setCharRef_state]; rw [l5]; exact hstate

/-- the part of `Tokenizer::end` after the character-reference hand-back -/
theorem finish_tail_total (o : Opts) (pol : Pol) (hp : NoPause pol) (m : Mach) (inp : Str) (hi : TInv m) :
    ∃ mf, (match run o pol (fuelFor (m.setAtEof true) inp) (m.setAtEof true) inp with
          | .done m inp => if !inp.isEmpty then .error "assertion failed: input.is_empty()" else eofLoop o 8 m
          | .script _ _ | .indicator _ _ =>
            .error "assertion failed: matches!(self.run(&input), TokenizerResult::Done)"
          | .panic e => .error e
          | .outOfFuel => .error "run out of fuel") = Except.ok mf := by
  have hi' := hi.setAtEof true
  cases hrun : run o pol (fuelFor (m.setAtEof true) inp) (m.setAtEof true) inp with
  | done m4 i4 =>
    have := run_done_nil o pol _ _ _ hi' m4 i4 hrun
    subst this
    simp only [List.isEmpty_nil, Bool.not_true, Bool.false_eq_true, ↓reduceIte]
    exact eofLoop_total o m4
  | script m4 i4 => exact absurd hrun ((run_noPause o pol hp _ _ _).1 m4 i4)
  | indicator m4 i4 => exact absurd hrun ((run_noPause o pol hp _ _ _).2 m4 i4)
  | panic e => exact absurd hrun (run_no_panic o pol _ _ _ hi' e)
  | outOfFuel => exact absurd hrun (run_terminates o pol _ _ _ hi' (mu_lt_fuelFor _ _))

/-- **`Tokenizer::end` neither panics nor hangs** (for a sink that does not pause the tokenizer):
it always completes, delivering EOF -/
theorem finish_total (o : Opts) (pol : Pol) (hp : NoPause pol) (m : Mach) (hi : TInv m) :
    ∃ mf, finish o pol m = .ok mf := by
  unfold finish
  cases hcr : m.charRef with
  | none =>
    simp only
    exact finish_tail_total o pol hp m [] hi
  | some cr =>
    obtain ⟨c1, c2, c3⟩ := hi.linv.cr cr hcr
    obtain ⟨m1, i1, chars, hce⟩ := crEof_ok o m cr c1 c2 c3 (hi.linv.safe.crRegs cr hcr)
    obtain ⟨ht, hnp⟩ := finish_charRef_inv o m cr hi.linv hcr m1 i1 chars hce
    have hpa := processCharRef_noPause (m1.setCharRef none) chars
    simp only [hce]
    cases hpc : processCharRef (m1.setCharRef none) chars with
    | mk m2 sig =>
      rw [hpc] at ht hnp hpa
      cases sig with
      | cont =>
        simp only
        exact finish_tail_total o pol hp m2 i1 ht
      | script => simp [Sig.isPause] at hpa
      | indicator => simp [Sig.isPause] at hpa
      | panic e => exact absurd rfl (hnp e)

/-! ### `Tokenizer::end` for every sink: the tokenizer pauses only on reading `>`

A machine that stopped (asked for more input, or paused) has no pending `reconsume`, and what the
look-ahead machinery holds back contains neither `>` nor `&`; `end()` hands back only such text, so
its final `run` never delivers a tag token: the sink is not consulted. -/

/-- a character that can neither complete a tag nor start a character reference -/
def plainCh (x : Char) : Prop := x ≠ '>' ∧ x ≠ '&'

theorem runCh_plain {c : Char} (h : runCh c = true) : plainCh c :=
  ⟨by intro hc; subst hc; revert h; decide, runCh_ne_amp h⟩

theorem foldCh_plain {c : Char} (h : plainCh c) : plainCh (foldCh c) := by
  unfold foldCh
  split
  · exact ⟨by decide, by decide⟩
  · exact h

/-- the characters a keyword can match are neither `>` nor `&` -/
def PatPlain (eq : Char → Char → Bool) (pat : Str) : Prop :=
  ∀ p ∈ pat, eq '>' p = false ∧ eq '&' p = false

theorem patPlain_kw : PatPlain eqExact kwDashDash ∧ PatPlain eqCi kwDoctype ∧ PatPlain eqExact kwCdata ∧
    PatPlain eqCi kwPublic ∧ PatPlain eqCi kwSystem := by
  refine ⟨?_, ?_, ?_, ?_, ?_⟩ <;> (intro p hp; revert p; decide)

theorem eatCmp_none_plainCh (eq : Char → Char → Bool) (all pat : Str) (hp : PatPlain eq pat)
    (h : eatCmp eq all pat = none) : ∀ c ∈ all, plainCh c := by
  induction all generalizing pat with
  | nil => intro c hc; exact absurd hc List.not_mem_nil
  | cons a t ih =>
    cases pat with
    | nil => simp [eatCmp] at h
    | cons p ps =>
      simp only [eatCmp] at h
      split at h
      · rename_i he
        intro c hc
        rcases List.mem_cons.mp hc with hc | hc
        · subst hc
          have := hp p (List.mem_cons_self ..)
          constructor
          · intro hx; subst hx; rw [this.1] at he; simp at he
          · intro hx; subst hx; rw [this.2] at he; simp at he
        · exact ih ps (fun q hq => hp q (List.mem_cons_of_mem _ hq)) h c hc
      · simp at h

/-- what a suspended `eat` has stashed matched a prefix of the keyword -/
theorem eat_none_plainCh (m m1 : Mach) (inp i1 pat : Str) (eq : Char → Char → Bool) (hp : PatPlain eq pat)
    (h : eat m inp pat eq = (none, m1, i1)) : ∀ c ∈ m1.tempBuf, plainCh c := by
  rw [eat_eq_core] at h
  unfold eatCore at h
  split at h
  · simp at h
  · simp at h
  · rename_i hc
    split at h
    · simp at h
    · simp only [Prod.mk.injEq, true_and] at h
      rw [← h.1]
      simpa using eatCmp_none_plainCh eq _ pat hp hc

/-- the text held back by the look-ahead machinery contains neither `>` nor `&` -/
def SP (m : Mach) : Prop := m.charRef = none → ∀ x ∈ stash m, plainCh x

theorem SP.of_nil {m : Mach} (h : stash m = []) : SP m := by
  intro _ x hx; rw [h] at hx; exact absurd hx List.not_mem_nil

theorem SP.of_some {m : Mach} {cr : CharRefSt} (h : m.charRef = some cr) : SP m := by
  intro hx; rw [h] at hx; simp at hx

theorem stash_subset (m : Mach) (hcr : m.charRef = none) : ∀ x ∈ stash m, x ∈ m.tempBuf := by
  unfold stash; rw [hcr]; dsimp only
  split
  · exact fun _ h => h
  · intro x hx; exact absurd hx List.not_mem_nil

theorem SP.of_tempBuf {m : Mach} (h : ∀ x ∈ m.tempBuf, plainCh x) : SP m :=
  fun hcr x hx => h x (stash_subset m hcr x hx)

/-- the table pauses only on `>`, in branches that leave `reconsume` alone -/
theorem transChar_pause (o : Opts) (pol : Pol) (m : Mach) (c : Char) :
    (transChar o pol m c).2.isPause = true → c = '>' ∧ (transChar o pol m c).1.reconsume = m.reconsume := by
  unfold transChar
  split <;> (repeat' split) <;> simp_all [Sig.isPause]

theorem transSet_pause (o : Opts) (pol : Pol) (m : Mach) (r : SetRes) :
    (transSet o pol m r).2.isPause = true → r = .fromSet '>' := by
  unfold transSet
  split <;> (repeat' split) <;>
    (have h2 := consumeCharRef_noPause m
     simp_all [Sig.isPause])

theorem stepMdo_sp (o : Opts) (pol : Pol) (m : Mach) (inp : Str) (K : Nat)
    (h0 : EatSt .markupDeclarationOpen K m inp) (m' : Mach) (i' : Str)
    (h : (stepMdo o pol m inp).pair? = some (m', i')) : SP m' := by
  obtain ⟨q1, q2, q3, _, _⟩ := patPlain_kw
  cases hres : stepMdo o pol m inp with
  | cont mx ix =>
    rw [hres] at h
    simp only [R.pair?, Option.some.injEq, Prod.mk.injEq] at h
    obtain ⟨e1, e2⟩ := h; subst e1 e2
    obtain ⟨d1, _, d3, _⟩ := dec_mdo o pol m inp K h0 _ _ hres
    exact SP.of_nil (stash_nil_of d1 (fun _ => d3))
  | script mx ix => have := stepMdo_noPause o pol m inp; rw [hres] at this; simp [R.isPause] at this
  | indicator mx ix => have := stepMdo_noPause o pol m inp; rw [hres] at this; simp [R.isPause] at this
  | panic e => rw [hres] at h; simp [R.pair?] at h
  | suspend mx ix =>
    rw [hres] at h
    simp only [R.pair?, Option.some.injEq, Prod.mk.injEq] at h
    obtain ⟨e1, e2⟩ := h; subst e1 e2
    unfold stepMdo at hres
    cases h1 : eat m inp kwDashDash eqExact with
    | mk b1 r1 =>
      obtain ⟨m1, i1⟩ := r1
      rw [h1] at hres
      cases b1 with
      | none =>
        simp only [R.suspend.injEq] at hres
        rw [← hres.1]; exact SP.of_tempBuf (eat_none_plainCh _ _ _ _ _ _ q1 h1)
      | some b1 =>
        cases b1 with
        | true => simp at hres
        | false =>
          simp only at hres
          cases h2 : eat m1 i1 kwDoctype eqCi with
          | mk b2 r2 =>
            obtain ⟨m2, i2⟩ := r2
            rw [h2] at hres
            cases b2 with
            | none =>
              simp only [R.suspend.injEq] at hres
              rw [← hres.1]; exact SP.of_tempBuf (eat_none_plainCh _ _ _ _ _ _ q2 h2)
            | some b2 =>
              cases b2 with
              | true => simp at hres
              | false =>
                simp only at hres
                split at hres
                · cases h3 : eat m2 i2 kwCdata eqExact with
                  | mk b3 r3 =>
                    obtain ⟨m3, i3⟩ := r3
                    rw [h3] at hres
                    cases b3 with
                    | none =>
                      simp only [R.suspend.injEq] at hres
                      rw [← hres.1]; exact SP.of_tempBuf (eat_none_plainCh _ _ _ _ _ _ q3 h3)
                    | some b3 => cases b3 <;> simp at hres
                · simp at hres

/-- `stepAdn`: every result keeps the stash plain; a pause happens only on reading `>` from
stash ++ queue, with no `reconsume` left -/
theorem stepAdn_view (o : Opts) (pol : Pol) (m : Mach) (inp : Str) (K : Nat)
    (h0 : EatSt .afterDoctypeName K m inp) (m' : Mach) (i' : Str)
    (h : (stepAdn o pol m inp).pair? = some (m', i')) :
    SP m' ∧ ((stepAdn o pol m inp).isPause = true → m'.reconsume = false ∧ '>' ∈ m.tempBuf ++ inp) ∧
    (∀ mx ix, stepAdn o pol m inp = .suspend mx ix → mx.reconsume = false) := by
  obtain ⟨_, _, _, q4, q5⟩ := patPlain_kw
  obtain ⟨_, _, _, pk4, pk5⟩ := patOk_kw
  obtain ⟨_, _, _, n4, n5⟩ := kw_ne
  unfold stepAdn at h ⊢
  cases h1 : eat m inp kwPublic eqCi with
  | mk b1 r1 =>
    obtain ⟨m1, i1⟩ := r1
    obtain ⟨s1, t1, _⟩ := eat_stage h0 _ _ pk4 n4 b1 m1 i1 h1
    obtain ⟨a1, e1, _⟩ := eat_shape m inp _ _ h0.nrec h0.ok n4 b1 m1 i1 h1
    rw [h1] at h
    cases b1 with
    | none =>
      simp only [R.pair?, Option.some.injEq, Prod.mk.injEq] at h
      obtain ⟨x1, x2⟩ := h; subst x1 x2
      refine ⟨SP.of_tempBuf (eat_none_plainCh _ _ _ _ _ _ q4 h1), fun hp => by simp [R.isPause] at hp, ?_⟩
      intro mx ix hx; simp only [R.suspend.injEq] at hx; rw [← hx.1]; exact s1.nrec
    | some b1 =>
      have ht1 := t1 (by simp)
      rw [ht1, List.nil_append] at e1
      cases b1 with
      | true =>
        simp only [R.pair?, Option.some.injEq, Prod.mk.injEq] at h
        obtain ⟨x1, x2⟩ := h; subst x1 x2
        exact ⟨SP.of_nil (stash_plain (by simp [s1.cr]) (by simp) (by simp)), fun hp => by simp [R.isPause] at hp,
          fun mx ix hx => by simp at hx⟩
      | false =>
        simp only at h ⊢
        cases h2 : eat m1 i1 kwSystem eqCi with
        | mk b2 r2 =>
          obtain ⟨m2, i2⟩ := r2
          obtain ⟨s2, t2, _⟩ := eat_stage s1 _ _ pk5 n5 b2 m2 i2 h2
          obtain ⟨a2, e2, _⟩ := eat_shape m1 i1 _ _ s1.nrec s1.ok n5 b2 m2 i2 h2
          rw [h2] at h
          cases b2 with
          | none =>
            simp only [R.pair?, Option.some.injEq, Prod.mk.injEq] at h
            obtain ⟨x1, x2⟩ := h; subst x1 x2
            refine ⟨SP.of_tempBuf (eat_none_plainCh _ _ _ _ _ _ q5 h2), fun hp => by simp [R.isPause] at hp, ?_⟩
            intro mx ix hx; simp only [R.suspend.injEq] at hx; rw [← hx.1]; exact s2.nrec
          | some b2 =>
            have ht2 := t2 (by simp)
            rw [ht1, ht2, List.nil_append, List.nil_append] at e2
            have e12 : m.tempBuf ++ inp = (a1 ++ a2) ++ i2 := by rw [e1, e2, List.append_assoc]
            cases b2 with
            | true =>
              simp only [R.pair?, Option.some.injEq, Prod.mk.injEq] at h
              obtain ⟨x1, x2⟩ := h; subst x1 x2
              exact ⟨SP.of_nil (stash_plain (by simp [s2.cr]) (by simp) (by simp)), fun hp => by simp [R.isPause] at hp,
                fun mx ix hx => by simp at hx⟩
            | false =>
              simp only at h ⊢
              cases hg : getChar o m2 i2 with
              | mk oc r =>
                obtain ⟨m3, i3⟩ := r
                rw [hg] at h
                cases oc with
                | none =>
                  obtain ⟨_, g2, g3⟩ := getChar_none o m2 m3 i2 i3 hg
                  simp only [R.pair?, Option.some.injEq, Prod.mk.injEq] at h
                  obtain ⟨x1, x2⟩ := h; subst x1 x2
                  have hf : m3.tempBuf = [] ∧ m3.reconsume = false ∧ m3.charRef = none := by
                    rcases g3 with ⟨_, g4⟩ | ⟨_, _, g4⟩ <;> subst g4
                    · exact ⟨ht2, s2.nrec, s2.cr⟩
                    · exact ⟨by simp [ht2], by simp [s2.nrec], by simp [s2.cr]⟩
                  refine ⟨SP.of_nil (stash_nil_of hf.2.2 (fun _ => hf.1)), fun hp => by simp [R.isPause] at hp, ?_⟩
                  intro mx ix hx; simp only [R.suspend.injEq] at hx; rw [← hx.1]; exact hf.2.1
                | some c =>
                  obtain ⟨f1, f2, f3, f4, _⟩ := getChar_fields o m2 m3 i2 i3 c hg
                  obtain ⟨r1, r2⟩ := getChar_ri o m2 m3 i2 i3 c (by intro hx; rw [s2.nrec] at hx; simp at hx) hg
                  simp only at h
                  obtain ⟨x1, x2⟩ := ofSig_pair _ _ _ _ h
                  subst x1 x2
                  obtain ⟨_, _, _, a4, a5, _, _⟩ := afterChar_lines o pol m3 c (by rw [f4, s2.cr])
                    (by intro _; rw [f2, ht2]) f3 r1 r2
                  refine ⟨SP.of_nil a5, ?_, fun mx ix hx => absurd hx (ofSig_ne_suspend _ _ _ _)⟩
                  intro hp
                  rw [ofSig_isPause] at hp
                  obtain ⟨p1, p2⟩ := transChar_pause o pol m3 c hp
                  refine ⟨by rw [p2, f3], ?_⟩
                  rcases getChar_shape o m2 m3 i2 _ c hg with ⟨g1, _⟩ | ⟨_, a, c0, g2, g3⟩
                  · rw [s2.nrec] at g1; simp at g1
                  · have hc0 : c0 = '>' := by
                      rw [p1] at g3
                      unfold foldCh at g3
                      split at g3
                      · exact absurd g3 (by decide)
                      · exact g3.symm
                    rw [e12, g2, hc0]; simp

/-! ### every step leaves the stash plain; every stop leaves no `reconsume` -/

theorem ofSig_stop (ms : Mach × Sig) (inp : Str) (m' : Mach) (i' : Str)
    (h : (ofSig ms inp).pair? = some (m', i')) (hnc : ∀ mx ix, ofSig ms inp ≠ .cont mx ix) :
    ms.2.isPause = true := by
  unfold ofSig at h hnc
  split at h
  · rename_i hs; simp only [hs] at hnc; exact absurd rfl (hnc _ _)
  · rename_i hs; simp [hs, Sig.isPause]
  · rename_i hs; simp [hs, Sig.isPause]
  · simp [R.pair?] at h

theorem stepCharRef_stop (o : Opts) (m : Mach) (inp : Str) (cr : CharRefSt) (hi : TInv m)
    (hcr : m.charRef = some cr) (m' : Mach) (i' : Str)
    (h : (stepCharRef o m inp cr).pair? = some (m', i')) : SP m' ∧ m'.reconsume = false := by
  obtain ⟨_, c2, _⟩ := hi.linv.cr cr hcr
  have hstate := crStateOk_facts (hi.linv.safe.crState cr hcr)
  unfold stepCharRef at h
  cases hc : crStep o m inp cr with
  | error x => rw [hc] at h; simp [R.pair?] at h
  | ok v =>
    obtain ⟨m1, i1, cr1, st⟩ := v
    have hw := crStep_weaker o m m1 inp i1 cr cr1 st hc
    have hr1 : m1.reconsume = false := by
      cases hx : m1.reconsume with
      | false => rfl
      | true => have := hw.2.2.2.1 hx; rw [c2] at this; simp at this
    rw [hc] at h
    cases st with
    | stuck =>
      simp only [R.pair?, Option.some.injEq, Prod.mk.injEq] at h
      rw [← h.1]
      exact ⟨SP.of_some (cr := cr1) (by simp), by simpa using hr1⟩
    | progress =>
      simp only [R.pair?, Option.some.injEq, Prod.mk.injEq] at h
      rw [← h.1]
      exact ⟨SP.of_some (cr := cr1) (by simp), by simpa using hr1⟩
    | done chars =>
      obtain ⟨h1, _⟩ := ofSig_pair _ _ _ _ h
      subst h1
      have hp := processCharRef_fields m1 chars
      have hst : ((processCharRef m1 chars).1.setCharRef none).state = m.state := by simp [hp.1, hw.1]
      exact ⟨SP.of_nil (stash_plain (by simp) (by rw [hst]; exact hstate.1) (by rw [hst]; exact hstate.2.1)),
        by simp only [setCharRef_reconsume, hp.2.2.2.1]; exact hr1⟩

/-- **after every step** the look-ahead stash holds neither `>` nor `&` -/
theorem step_sp (o : Opts) (pol : Pol) (m : Mach) (inp : Str) (hi : TInv m) (m' : Mach) (i' : Str)
    (h : (step o pol m inp).pair? = some (m', i')) : SP m' := by
  have hl := hi.linv
  cases hcr : m.charRef with
  | some cr =>
    rw [step_kind_charRef o pol m inp cr hcr] at h
    exact (stepCharRef_stop o m inp cr hi hcr m' i' h).1
  | none =>
    rcases step_charRef_after o pol m inp hcr m' i' h with hc' | ⟨b, hc'⟩
    · cases hrk : readKind m.state with
      | getChar =>
        have hf := readKind_getChar_facts hrk
        rw [step_getChar o pol m inp hcr hrk] at h
        cases hgc : getChar o m inp with
        | mk oc r =>
          obtain ⟨m1, i1⟩ := r
          rw [hgc] at h
          cases oc with
          | none =>
            obtain ⟨_, _, g3⟩ := getChar_none o m m1 inp i1 hgc
            simp only [contChar, R.pair?, Option.some.injEq, Prod.mk.injEq] at h
            obtain ⟨h1, _⟩ := h
            subst h1
            apply SP.of_nil
            rcases g3 with ⟨_, g4⟩ | ⟨_, _, g4⟩ <;> subst g4
            · exact stash_plain hcr hf.1 hf.2.2
            · exact stash_plain (by simp [hcr]) (by simpa using hf.1) (by simpa using hf.2.2)
          | some c =>
            obtain ⟨f1, f2, f3, f4, _⟩ := getChar_fields o m m1 inp i1 c hgc
            obtain ⟨r1, r2⟩ := getChar_ri o m m1 inp i1 c hl.ri hgc
            simp only [contChar] at h
            obtain ⟨h1, _⟩ := ofSig_pair _ _ _ _ h
            subst h1
            obtain ⟨_, _, _, _, a5, _, _⟩ := afterChar_lines o pol m1 c (by rw [f4, hcr])
              (by intro hraw; rw [f2]; rw [f1] at hraw; exact hl.nr hraw hf.1 hf.2.2) f3 r1 r2
            exact SP.of_nil a5
      | popExcept =>
        -- the state after a `pop_except_from` step is never a look-ahead state
        have hsf := readKind_state_facts (Or.inl hrk)
        rw [step_popExcept o pol m inp hcr hrk] at h
        cases hgc : popExceptFrom o (setOf m.state) m inp with
        | mk oc r =>
          obtain ⟨m1, i1⟩ := r
          rw [hgc] at h
          cases oc with
          | none =>
            obtain ⟨_, _, g3⟩ := popExceptFrom_none o _ m m1 inp i1 hgc
            simp only [contSet, R.pair?, Option.some.injEq, Prod.mk.injEq] at h
            obtain ⟨h1, _⟩ := h
            subst h1
            apply SP.of_nil
            rcases g3 with ⟨_, g4⟩ | ⟨_, _, g4⟩ <;> subst g4
            · exact stash_plain hcr hsf.1 hsf.2.1
            · exact stash_plain (by simp [hcr]) (by simpa using hsf.1) (by simpa using hsf.2.1)
          | some sr =>
            obtain ⟨g1, _, _, _, _⟩ := popExceptFrom_fields o _ m m1 inp i1 sr hgc
            simp only [contSet] at h
            obtain ⟨h1, _⟩ := ofSig_pair _ _ _ _ h
            subst h1
            have hne := transSet_not_eat o pol m1 sr ⟨by rw [g1]; exact hsf.1, by rw [g1]; exact hsf.2.1⟩
            exact SP.of_nil (stash_plain hc' hne.1 hne.2)
      | dataSimd =>
        have hsf := readKind_state_facts (Or.inr hrk)
        rw [step_dataSimd o pol m inp hcr hrk] at h
        cases hgc : readData o m inp with
        | mk oc r =>
          obtain ⟨m1, i1⟩ := r
          rw [hgc] at h
          cases oc with
          | none =>
            obtain ⟨_, _, g3⟩ := readData_none o m m1 inp i1 hgc
            simp only [contSet, R.pair?, Option.some.injEq, Prod.mk.injEq] at h
            obtain ⟨h1, _⟩ := h
            subst h1
            apply SP.of_nil
            rcases g3 with ⟨_, g4⟩ | ⟨_, _, g4⟩ <;> subst g4
            · exact stash_plain hcr hsf.1 hsf.2.1
            · exact stash_plain (by simp [hcr]) (by simpa using hsf.1) (by simpa using hsf.2.1)
          | some sr =>
            obtain ⟨g1, _, _, _, _⟩ := readData_fields o m m1 inp i1 sr hgc
            simp only [contSet] at h
            obtain ⟨h1, _⟩ := ofSig_pair _ _ _ _ h
            subst h1
            have hne := transSet_not_eat o pol m1 sr ⟨by rw [g1]; exact hsf.1, by rw [g1]; exact hsf.2.1⟩
            exact SP.of_nil (stash_plain hc' hne.1 hne.2)
      | peekBav =>
        have hst := readKind_bav hrk
        rw [step_kind_bav o pol m inp hcr hrk] at h
        obtain ⟨b1, _, _⟩ := stepBav_lines o pol m inp (hl.peekNoRecon (Or.inl hst)) m' i' h
        have htb : m.tempBuf = [] := hl.nr (by rw [hst]; rfl) (by rw [hst]; simp) (by rw [hst]; simp)
        exact SP.of_nil (stash_nil_of hc' (fun _ => by rw [b1, htb]))
      | eatMdo =>
        have hst := readKind_mdo hrk
        rw [step_kind_mdo o pol m inp hcr hrk] at h
        exact stepMdo_sp o pol m inp (Phi m inp)
          ⟨hst, hcr, hl.peekNoRecon (Or.inr (Or.inl hst)), hl.eatOk (Or.inl hst),
            by unfold Phi; rw [stash_eat hcr (Or.inl hst)]⟩ m' i' h
      | eatAdn =>
        have hst := readKind_adn hrk
        rw [step_kind_adn o pol m inp hcr hrk] at h
        exact (stepAdn_view o pol m inp (Phi m inp)
          ⟨hst, hcr, hl.peekNoRecon (Or.inr (Or.inr hst)), hl.eatOk (Or.inr hst),
            by unfold Phi; rw [stash_eat hcr (Or.inr hst)]⟩ m' i' h).1
    · exact SP.of_some hc'

/-- **a step that stops the loop** (asks for more input, or pauses for the sink) **leaves no pending
`reconsume`**: a read that found the queue empty had none, and the table pauses only in branches
that do not set it -/
theorem step_stop_recon (o : Opts) (pol : Pol) (m : Mach) (inp : Str) (hi : TInv m) (m' : Mach) (i' : Str)
    (h : (step o pol m inp).pair? = some (m', i')) (hnc : ∀ mx ix, step o pol m inp ≠ .cont mx ix) :
    m'.reconsume = false := by
  have hl := hi.linv
  cases hcr : m.charRef with
  | some cr =>
    rw [step_kind_charRef o pol m inp cr hcr] at h
    exact (stepCharRef_stop o m inp cr hi hcr m' i' h).2
  | none =>
    cases hrk : readKind m.state with
    | getChar =>
      rw [step_getChar o pol m inp hcr hrk] at h hnc
      cases hgc : getChar o m inp with
      | mk oc r =>
        obtain ⟨m1, i1⟩ := r
        rw [hgc] at h hnc
        cases oc with
        | none =>
          obtain ⟨_, g2, g3⟩ := getChar_none o m m1 inp i1 hgc
          simp only [contChar, R.pair?, Option.some.injEq, Prod.mk.injEq] at h
          obtain ⟨h1, _⟩ := h
          subst h1
          rcases g3 with ⟨_, g4⟩ | ⟨_, _, g4⟩ <;> subst g4 <;> simp [g2]
        | some c =>
          obtain ⟨_, _, f3, _, _⟩ := getChar_fields o m m1 inp i1 c hgc
          simp only [contChar] at h hnc
          have hp := ofSig_stop _ _ _ _ h hnc
          obtain ⟨h1, _⟩ := ofSig_pair _ _ _ _ h
          subst h1
          rw [(transChar_pause o pol m1 c hp).2, f3]
    | popExcept =>
      rw [step_popExcept o pol m inp hcr hrk] at h
      cases hgc : popExceptFrom o (setOf m.state) m inp with
      | mk oc r =>
        obtain ⟨m1, i1⟩ := r
        rw [hgc] at h
        cases oc with
        | none =>
          obtain ⟨_, g2, g3⟩ := popExceptFrom_none o _ m m1 inp i1 hgc
          simp only [contSet, R.pair?, Option.some.injEq, Prod.mk.injEq] at h
          obtain ⟨h1, _⟩ := h
          subst h1
          rcases g3 with ⟨_, g4⟩ | ⟨_, _, g4⟩ <;> subst g4 <;> simp [g2]
        | some sr =>
          obtain ⟨_, _, f3, _, _⟩ := popExceptFrom_fields o _ m m1 inp i1 sr hgc
          simp only [contSet] at h
          obtain ⟨h1, _⟩ := ofSig_pair _ _ _ _ h
          subst h1
          rw [transSet_reconsume, f3]
    | dataSimd =>
      rw [step_dataSimd o pol m inp hcr hrk] at h
      cases hgc : readData o m inp with
      | mk oc r =>
        obtain ⟨m1, i1⟩ := r
        rw [hgc] at h
        cases oc with
        | none =>
          obtain ⟨_, g2, g3⟩ := readData_none o m m1 inp i1 hgc
          simp only [contSet, R.pair?, Option.some.injEq, Prod.mk.injEq] at h
          obtain ⟨h1, _⟩ := h
          subst h1
          rcases g3 with ⟨_, g4⟩ | ⟨_, _, g4⟩ <;> subst g4 <;> simp [g2]
        | some sr =>
          obtain ⟨_, _, f3, _, _⟩ := readData_fields o m m1 inp i1 sr hgc
          simp only [contSet] at h
          obtain ⟨h1, _⟩ := ofSig_pair _ _ _ _ h
          subst h1
          rw [transSet_reconsume, f3]
    | peekBav =>
      have hst := readKind_bav hrk
      rw [step_kind_bav o pol m inp hcr hrk] at h
      exact (stepBav_lines o pol m inp (hl.peekNoRecon (Or.inl hst)) m' i' h).2.1
    | eatMdo =>
      have hst := readKind_mdo hrk
      rw [step_kind_mdo o pol m inp hcr hrk] at h
      exact (stepMdo_lines o pol m inp (Phi m inp)
        ⟨hst, hcr, hl.peekNoRecon (Or.inr (Or.inl hst)), hl.eatOk (Or.inl hst),
          by unfold Phi; rw [stash_eat hcr (Or.inl hst)]⟩ m' i' h).1
    | eatAdn =>
      have hst := readKind_adn hrk
      rw [step_kind_adn o pol m inp hcr hrk] at h hnc
      obtain ⟨_, v2, v3⟩ := stepAdn_view o pol m inp (Phi m inp)
        ⟨hst, hcr, hl.peekNoRecon (Or.inr (Or.inr hst)), hl.eatOk (Or.inr hst),
          by unfold Phi; rw [stash_eat hcr (Or.inr hst)]⟩ m' i' h
      cases hres : stepAdn o pol m inp with
      | cont mx ix => exact absurd hres (hnc mx ix)
      | suspend mx ix =>
        rw [hres] at h
        simp only [R.pair?, Option.some.injEq, Prod.mk.injEq] at h
        rw [← h.1]; exact v3 mx ix hres
      | script mx ix => exact (v2 (by rw [hres]; rfl)).1
      | indicator mx ix => exact (v2 (by rw [hres]; rfl)).1
      | panic e => rw [hres] at h; simp [R.pair?] at h

/-- a machine in which the tokenizer loop can have stopped: the invariant, no pending `reconsume`,
and a stash without `>` / `&` -/
structure Quiet (m : Mach) : Prop where
  tinv : TInv m
  nrec : m.reconsume = false
  sp : SP m

theorem quiet_fresh (m : Mach) (h1 : m.tempBuf = []) (h2 : m.reconsume = false) (h3 : m.charRef = none) :
    Quiet m :=
  ⟨tinv_fresh m h1 h2 h3, h2, SP.of_nil (stash_nil_of h3 (fun _ => h1))⟩

theorem step_stop_quiet (o : Opts) (pol : Pol) (m : Mach) (inp : Str) (hi : TInv m) (m' : Mach) (i' : Str)
    (h : (step o pol m inp).pair? = some (m', i')) (hnc : ∀ mx ix, step o pol m inp ≠ .cont mx ix) : Quiet m' :=
  ⟨step_tinv o pol m inp hi m' i' h, step_stop_recon o pol m inp hi m' i' h hnc, step_sp o pol m inp hi m' i' h⟩

/-- wherever `run` stops the machine is quiet -/
theorem run_stop_quiet (o : Opts) (pol : Pol) (fuel : Nat) (m : Mach) (inp : Str) (hi : TInv m)
    (m' : Mach) (i' : Str) (h : (run o pol fuel m inp).pair? = some (m', i')) : Quiet m' := by
  induction fuel generalizing m inp with
  | zero => simp [run, RunRes.pair?] at h
  | succ n ih =>
    unfold run at h
    cases hs : step o pol m inp with
    | cont m1 i1 =>
      rw [hs] at h
      exact ih m1 i1 (step_tinv o pol m inp hi m1 i1 (by rw [hs]; rfl)) h
    | suspend m1 i1 =>
      rw [hs] at h
      simp only [RunRes.pair?, Option.some.injEq, Prod.mk.injEq] at h
      obtain ⟨e1, e2⟩ := h; subst e1 e2
      exact step_stop_quiet o pol m inp hi m1 i1 (by rw [hs]; rfl) (by rw [hs]; simp)
    | script m1 i1 =>
      rw [hs] at h
      simp only [RunRes.pair?, Option.some.injEq, Prod.mk.injEq] at h
      obtain ⟨e1, e2⟩ := h; subst e1 e2
      exact step_stop_quiet o pol m inp hi m1 i1 (by rw [hs]; rfl) (by rw [hs]; simp)
    | indicator m1 i1 =>
      rw [hs] at h
      simp only [RunRes.pair?, Option.some.injEq, Prod.mk.injEq] at h
      obtain ⟨e1, e2⟩ := h; subst e1 e2
      exact step_stop_quiet o pol m inp hi m1 i1 (by rw [hs]; rfl) (by rw [hs]; simp)
    | panic e => rw [hs] at h; simp [RunRes.pair?] at h

/-- **every way a `feed` can stop yields a quiet machine** -/
theorem feed_stops_quiet (o : Opts) (pol : Pol) (m : Mach) (inp chunk : Str) (hq : Quiet m)
    (m' : Mach) (i' : Str) (h : (feed o pol m inp chunk).pair? = some (m', i')) : Quiet m' := by
  unfold feed at h
  dsimp only at h
  split at h
  · simp only [RunRes.pair?, Option.some.injEq, Prod.mk.injEq] at h
    rw [← h.1]; exact hq
  · exact run_stop_quiet o pol _ _ _ (feedBom_tinv m _ hq.tinv) m' i' h

theorem runsTo_quiet (o : Opts) (pol : Pol) {m : Mach} {inp : Str} {m' : Mach}
    (hrun : RunsTo o pol m inp m') : TInv m → Quiet m' := by
  induction hrun with
  | @susp m0 i0 m0' hs =>
    intro hi; exact step_stop_quiet o pol m0 i0 hi m0' [] (by rw [hs]; rfl) (by rw [hs]; simp)
  | @cont m0 i0 mx ix m0' hs _ ih => intro hi; exact ih (step_tinv o pol m0 i0 hi mx ix (by rw [hs]; rfl))
  | @script m0 i0 mx ix m0' hs _ ih => intro hi; exact ih (step_tinv o pol m0 i0 hi mx ix (by rw [hs]; rfl))
  | @indicator m0 i0 mx ix m0' hs _ ih => intro hi; exact ih (step_tinv o pol m0 i0 hi mx ix (by rw [hs]; rfl))

theorem session_quiet (o : Opts) (pol : Pol) {m : Mach} {cs : List Str} {mf : Mach}
    (hs : Session o pol m cs mf) : Quiet m → Quiet mf := by
  induction hs with
  | nil => exact id
  | cons hr _ ih => intro hq; exact ih (runsTo_quiet o pol hr hq.tinv)

/-! ### the final `run` of `Tokenizer::end` never consults the sink -/

/-- everything still to be read: the pending `reconsume`, the stash, the queue -/
def pend (m : Mach) (inp : Str) : Str := rc m ++ (stash m ++ inp)

/-- invariant of the final `run` of `end()`: no character reference in progress, and neither `>`
nor `&` anywhere in what is still to be read -/
structure EndInv (m : Mach) (inp : Str) : Prop where
  tinv : TInv m
  cr : m.charRef = none
  plain : ∀ x ∈ pend m inp, plainCh x

theorem pend_plain {m : Mach} {inp : Str} (h1 : m.reconsume = true → plainCh m.currentChar)
    (h2 : ∀ x ∈ stash m, plainCh x) (h3 : ∀ x ∈ inp, plainCh x) : ∀ x ∈ pend m inp, plainCh x := by
  intro x hx
  unfold pend rc at hx
  rcases List.mem_append.mp hx with hx | hx
  · split at hx
    · rename_i hr
      simp only [List.mem_cons, List.not_mem_nil, or_false] at hx
      subst hx; exact h1 hr
    · exact absurd hx List.not_mem_nil
  · rcases List.mem_append.mp hx with hx | hx
    · exact h2 x hx
    · exact h3 x hx

theorem EndInv.inp {m : Mach} {inp : Str} (he : EndInv m inp) : ∀ x ∈ inp, plainCh x :=
  fun x hx => he.plain x (by unfold pend; simp [hx])

theorem EndInv.stash {m : Mach} {inp : Str} (he : EndInv m inp) : ∀ x ∈ stash m, plainCh x :=
  fun x hx => he.plain x (by unfold pend; simp [hx])

theorem EndInv.cc {m : Mach} {inp : Str} (he : EndInv m inp) (hr : m.reconsume = true) : plainCh m.currentChar :=
  he.plain _ (by unfold pend; rw [rc_true hr]; simp)

/-- a read of a `pop_except_from` state, with the character it reports -/
def SetShapeX (m : Mach) (inp : Str) (r : SetRes) (i1 : Str) : Prop :=
  (m.reconsume = true ∧ i1 = inp ∧ r = .fromSet m.currentChar) ∨
  (m.reconsume = false ∧ ∃ a c0, inp = a ++ c0 :: i1 ∧ ∀ x, r = .fromSet x → x = foldCh c0)

theorem popExceptFrom_shapeX (o : Opts) (S : List Char) (m m1 : Mach) (inp i1 : Str) (r : SetRes)
    (h : popExceptFrom o S m inp = (some r, m1, i1)) : SetShapeX m inp r i1 := by
  have viaGet : ∀ c, getChar o m inp = (some c, m1, i1) → r = .fromSet c → SetShapeX m inp r i1 := by
    intro c hg hrc
    rcases getChar_shape o m m1 inp i1 c hg with ⟨g1, g2, g3⟩ | ⟨g1, a, c0, g2, g3⟩
    · exact Or.inl ⟨g1, g2, by rw [hrc, g3]⟩
    · refine Or.inr ⟨g1, a, c0, g2, fun x hx => ?_⟩
      rw [hrc] at hx
      simp only [SetRes.fromSet.injEq] at hx
      rw [← hx, g3]
  unfold popExceptFrom at h
  split at h
  · cases hg : getChar o m inp with
    | mk c rest =>
      obtain ⟨m2, i2⟩ := rest
      rw [hg] at h
      cases c with
      | none => simp at h
      | some c =>
        simp only [Option.map_some, Prod.mk.injEq, Option.some.injEq] at h
        obtain ⟨h1, h2, h3⟩ := h
        subst h2 h3
        exact viaGet c hg h1.symm
  · rename_i hs
    have hs' : o.exactErrors = false ∧ m.reconsume = false ∧ m.ignoreLf = false := by
      simpa [and_assoc] using hs
    cases inp with
    | nil => simp at h
    | cons x xs =>
      simp only at h
      split at h
      · have hg : getChar o m (x :: xs) = preprocess o m x xs := by
          unfold getChar; simp [hs'.2.1]
        cases hp : preprocess o m x xs with
        | mk c rest =>
          obtain ⟨m2, i2⟩ := rest
          rw [hp] at h hg
          cases c with
          | none => simp at h
          | some c =>
            simp only [Option.map_some, Prod.mk.injEq, Option.some.injEq] at h
            obtain ⟨h1, h2, h3⟩ := h
            subst h2 h3
            exact viaGet c hg h1.symm
      · simp only [Prod.mk.injEq, Option.some.injEq] at h
        obtain ⟨h1, _, h3⟩ := h
        subst h3
        exact Or.inr ⟨hs'.2.1, [], x, rfl, fun y hy => by rw [← h1] at hy; simp at hy⟩

theorem readData_shapeX (o : Opts) (m m1 : Mach) (inp i1 : Str) (r : SetRes)
    (h : readData o m inp = (some r, m1, i1)) : SetShapeX m inp r i1 := by
  unfold readData at h
  split at h
  · exact popExceptFrom_shapeX o _ m m1 inp i1 r h
  · rename_i hs
    have hs' : o.exactErrors = false ∧ m.reconsume = false ∧ m.ignoreLf = false := by
      simpa [and_assoc] using hs
    cases inp with
    | nil => simp at h
    | cons x xs =>
      simp only at h
      split at h
      · exact popExceptFrom_shapeX o _ m m1 (x :: xs) i1 r h
      · simp only [Prod.mk.injEq, Option.some.injEq] at h
        obtain ⟨h1, _, h3⟩ := h
        subst h3
        exact Or.inr ⟨hs'.2.1, [], x, rfl, fun y hy => by rw [← h1] at hy; simp at hy⟩

/-- the character a `pop_except_from` read reports is plain when everything pending is -/
theorem setShapeX_plain {m : Mach} {inp : Str} {r : SetRes} {i1 : Str} (he : EndInv m inp)
    (h : SetShapeX m inp r i1) : (∀ x, r = .fromSet x → plainCh x) ∧ (∀ x ∈ i1, plainCh x) := by
  rcases h with ⟨g1, g2, g3⟩ | ⟨_, a, c0, g2, g3⟩
  · subst g2
    refine ⟨fun x hx => ?_, he.inp⟩
    rw [g3] at hx
    simp only [SetRes.fromSet.injEq] at hx
    rw [← hx]; exact he.cc g1
  · refine ⟨fun x hx => ?_, fun x hx => he.inp x (by rw [g2]; simp [hx])⟩
    rw [g3 x hx]
    exact foldCh_plain (he.inp c0 (by rw [g2]; simp))

theorem isPause_false_of {b : Bool} (h : b = true → False) : b = false := by
  cases b
  · rfl
  · exact absurd rfl h

theorem end_getChar (o : Opts) (pol : Pol) (m : Mach) (inp : Str) (he : EndInv m inp)
    (hrk : readKind m.state = .getChar) :
    (contChar o pol (getChar o m inp)).isPause = false ∧
    ∀ m' i', contChar o pol (getChar o m inp) = .cont m' i' →
      m'.charRef = none ∧ ∀ x ∈ pend m' i', plainCh x := by
  have hl := he.tinv.linv
  have hcr := he.cr
  have hf := readKind_getChar_facts hrk
  cases hgc : getChar o m inp with
  | mk oc r =>
    obtain ⟨m1, i1⟩ := r
    cases oc with
    | none => exact ⟨rfl, fun m' i' h => by simp [contChar] at h⟩
    | some c =>
      obtain ⟨f1, f2, f3, f4, _⟩ := getChar_fields o m m1 inp i1 c hgc
      obtain ⟨r1, r2⟩ := getChar_ri o m m1 inp i1 c hl.ri hgc
      have hcp : plainCh c ∧ ∀ x ∈ i1, plainCh x := by
        rcases getChar_shape o m m1 inp i1 c hgc with ⟨g1, g2, g3⟩ | ⟨_, a, c0, g2, g3⟩
        · subst g2; rw [g3]; exact ⟨he.cc g1, he.inp⟩
        · rw [g3]
          exact ⟨foldCh_plain (he.inp c0 (by rw [g2]; simp)), fun x hx => he.inp x (by rw [g2]; simp [hx])⟩
      simp only [contChar]
      constructor
      · rw [ofSig_isPause]
        exact isPause_false_of (fun hp => hcp.1.1 (transChar_pause o pol m1 c hp).1)
      · intro m' i' h
        obtain ⟨h1, h2⟩ := ofSig_cont _ _ _ _ h
        subst h1 h2
        obtain ⟨_, _, _, a4, a5, _, _⟩ := afterChar_lines o pol m1 c (by rw [f4, hcr])
          (by intro hraw; rw [f2]; rw [f1] at hraw; exact hl.nr hraw hf.1 hf.2.2) f3 r1 r2
        refine ⟨a4, pend_plain (fun _ => ?_) (by rw [a5]; intro x hx; exact absurd hx List.not_mem_nil) hcp.2⟩
        rw [transChar_currentChar, r1]; exact hcp.1

theorem end_set (o : Opts) (pol : Pol) (m : Mach) (inp : Str) (he : EndInv m inp)
    (hk : readKind m.state = .popExcept ∨ readKind m.state = .dataSimd)
    (rd : Option SetRes × Mach × Str)
    (hsome : ∀ sr, rd.1 = some sr → ReadOk m rd.2.1 sr ∧ SetShapeX m inp sr rd.2.2) :
    (contSet o pol rd).isPause = false ∧
    ∀ m' i', contSet o pol rd = .cont m' i' → m'.charRef = none ∧ ∀ x ∈ pend m' i', plainCh x := by
  have hcr := he.cr
  have hsf := readKind_state_facts hk
  obtain ⟨oc, m1, i1⟩ := rd
  cases oc with
  | none => exact ⟨rfl, fun m' i' h => by simp [contSet] at h⟩
  | some sr =>
    obtain ⟨⟨f1, f2, f3, f4, _, _⟩, hsh⟩ := hsome sr rfl
    simp only at f1 f2 f3 f4 hsh
    obtain ⟨p1, p2⟩ := setShapeX_plain he hsh
    have hcr1 : m1.charRef = none := by rw [f4, hcr]
    simp only [contSet]
    constructor
    · rw [ofSig_isPause]
      exact isPause_false_of (fun hp => (p1 _ (transSet_pause o pol m1 sr hp)).1 rfl)
    · intro m' i' h
      obtain ⟨h1, h2⟩ := ofSig_cont _ _ _ _ h
      subst h1 h2
      have hr' : (transSet o pol m1 sr).1.reconsume = false := by rw [transSet_reconsume, f3]
      have hne := transSet_not_eat o pol m1 sr ⟨by rw [f1]; exact hsf.1, by rw [f1]; exact hsf.2.1⟩
      have hc' : (transSet o pol m1 sr).1.charRef = none := by
        cases hx : (transSet o pol m1 sr).1.charRef with
        | none => rfl
        | some cr' =>
          have := transSet_amp o pol m1 sr hcr1 (by rw [hx]; simp)
          exact absurd rfl (p1 _ this).2
      refine ⟨hc', pend_plain (fun hr => by rw [hr'] at hr; simp at hr) ?_ p2⟩
      rw [stash_plain hc' hne.1 hne.2]
      intro x hx; exact absurd hx List.not_mem_nil

theorem stepBav_pause (o : Opts) (pol : Pol) (m : Mach) (inp : Str) (hr : m.reconsume = false)
    (h : (stepBav o pol m inp).isPause = true) : '>' ∈ inp := by
  unfold stepBav at h
  cases inp with
  | nil => simp [peek, hr, R.isPause] at h
  | cons c rest =>
    simp only [peek, hr, Bool.false_eq_true, ↓reduceIte, List.head?_cons] at h
    generalize (if m.ignoreLf = true then m.setIgnoreLf false else m) = ma at h
    split at h
    · simp [R.isPause] at h
    · split at h
      · cases hg : getChar o ma (c :: rest) with
        | mk oc r =>
          obtain ⟨m2, i2⟩ := r
          rw [hg] at h
          cases oc <;> simp [R.isPause] at h
      · split at h
        · simp [R.isPause] at h
        · split at h
          · simp [R.isPause] at h
          · split at h
            · simp [R.isPause] at h
            · split at h
              · rename_i hgt
                rw [hgt]; simp
              · simp [R.isPause] at h

theorem end_bav (o : Opts) (pol : Pol) (m : Mach) (inp : Str) (he : EndInv m inp)
    (hs : m.state = .beforeAttributeValue) :
    (stepBav o pol m inp).isPause = false ∧
    ∀ m' i', stepBav o pol m inp = .cont m' i' → m'.charRef = none ∧ ∀ x ∈ pend m' i', plainCh x := by
  have hl := he.tinv.linv
  have hr := hl.peekNoRecon (Or.inl hs)
  have htb : m.tempBuf = [] := hl.nr (by rw [hs]; rfl) (by rw [hs]; simp) (by rw [hs]; simp)
  constructor
  · exact isPause_false_of (fun hp => (he.inp _ (stepBav_pause o pol m inp hr hp)).1 rfl)
  · intro m' i' h
    have hp : (stepBav o pol m inp).pair? = some (m', i') := by rw [h]; rfl
    obtain ⟨b1, b2, _⟩ := stepBav_lines o pol m inp hr m' i' hp
    have hcr' : m'.charRef = none := by
      rw [(stepBav_charRef o pol m inp).2 m' (pair_mach _ _ _ hp), he.cr]
    obtain ⟨a, e1, _⟩ := stepBav_shape o pol m inp hr m' i' h
    refine ⟨hcr', pend_plain (fun hx => by rw [b2] at hx; simp at hx) ?_
      (fun x hx => he.inp x (by rw [e1]; simp [hx]))⟩
    rw [stash_nil_of hcr' (fun _ => by rw [b1, htb])]
    intro x hx; exact absurd hx List.not_mem_nil

/-- `stepAdn` answering Continue: what is still to be read came from stash ++ queue -/
theorem stepAdn_cont_pend (o : Opts) (pol : Pol) (m : Mach) (inp : Str) (K : Nat)
    (h0 : EatSt .afterDoctypeName K m inp) (hpl : ∀ x ∈ m.tempBuf ++ inp, plainCh x) (m' : Mach) (i' : Str)
    (h : stepAdn o pol m inp = .cont m' i') : m'.charRef = none ∧ ∀ x ∈ pend m' i', plainCh x := by
  obtain ⟨_, _, _, pk4, pk5⟩ := patOk_kw
  obtain ⟨_, _, _, n4, n5⟩ := kw_ne
  have nil_plain : ∀ x ∈ ([] : Str), plainCh x := fun x hx => absurd hx List.not_mem_nil
  unfold stepAdn at h
  cases h1 : eat m inp kwPublic eqCi with
  | mk b1 r1 =>
    obtain ⟨m1, i1⟩ := r1
    obtain ⟨s1, t1, _⟩ := eat_stage h0 _ _ pk4 n4 b1 m1 i1 h1
    obtain ⟨a1, e1, _⟩ := eat_shape m inp _ _ h0.nrec h0.ok n4 b1 m1 i1 h1
    rw [h1] at h
    cases b1 with
    | none => simp at h
    | some b1 =>
      have ht1 := t1 (by simp)
      rw [ht1, List.nil_append] at e1
      have hp1 : ∀ x ∈ i1, plainCh x := fun x hx => hpl x (by rw [e1]; simp [hx])
      cases b1 with
      | true =>
        simp only [R.cont.injEq] at h
        obtain ⟨x1, x2⟩ := h; subst x1 x2
        have hc' : (to (.afterDoctypeKeyword .pub) m1).charRef = none := by simp [s1.cr]
        exact ⟨hc', pend_plain (fun hx => by simp [s1.nrec] at hx)
          (by rw [stash_plain hc' (by simp) (by simp)]; exact nil_plain) hp1⟩
      | false =>
        simp only at h
        cases h2 : eat m1 i1 kwSystem eqCi with
        | mk b2 r2 =>
          obtain ⟨m2, i2⟩ := r2
          obtain ⟨s2, t2, _⟩ := eat_stage s1 _ _ pk5 n5 b2 m2 i2 h2
          obtain ⟨a2, e2, _⟩ := eat_shape m1 i1 _ _ s1.nrec s1.ok n5 b2 m2 i2 h2
          rw [h2] at h
          cases b2 with
          | none => simp at h
          | some b2 =>
            have ht2 := t2 (by simp)
            rw [ht1, ht2, List.nil_append, List.nil_append] at e2
            have hp2 : ∀ x ∈ i2, plainCh x := fun x hx => hp1 x (by rw [e2]; simp [hx])
            cases b2 with
            | true =>
              simp only [R.cont.injEq] at h
              obtain ⟨x1, x2⟩ := h; subst x1 x2
              have hc' : (to (.afterDoctypeKeyword .sys) m2).charRef = none := by simp [s2.cr]
              exact ⟨hc', pend_plain (fun hx => by simp [s2.nrec] at hx)
                (by rw [stash_plain hc' (by simp) (by simp)]; exact nil_plain) hp2⟩
            | false =>
              simp only at h
              cases hg : getChar o m2 i2 with
              | mk oc r =>
                obtain ⟨m3, i3⟩ := r
                rw [hg] at h
                cases oc with
                | none => simp at h
                | some c =>
                  obtain ⟨f1, f2, f3, f4, _⟩ := getChar_fields o m2 m3 i2 i3 c hg
                  obtain ⟨r1, r2⟩ := getChar_ri o m2 m3 i2 i3 c (by intro hx; rw [s2.nrec] at hx; simp at hx) hg
                  simp only at h
                  obtain ⟨x1, x2⟩ := ofSig_cont _ _ _ _ h
                  subst x1 x2
                  obtain ⟨_, _, _, a4, a5, _, _⟩ := afterChar_lines o pol m3 c (by rw [f4, s2.cr])
                    (by intro _; rw [f2, ht2]) f3 r1 r2
                  rcases getChar_shape o m2 m3 i2 _ c hg with ⟨g1, _⟩ | ⟨_, a, c0, g2, g3⟩
                  · rw [s2.nrec] at g1; simp at g1
                  · refine ⟨a4, pend_plain (fun _ => ?_) (by rw [a5]; exact nil_plain)
                      (fun x hx => hp2 x (by rw [g2]; simp [hx]))⟩
                    rw [transChar_currentChar, r1, g3]
                    exact foldCh_plain (hp2 c0 (by rw [g2]; simp))

/-- **under the invariant of the final run no step pauses, and the invariant is kept** -/
theorem step_end (o : Opts) (pol : Pol) (m : Mach) (inp : Str) (he : EndInv m inp) :
    (step o pol m inp).isPause = false ∧ ∀ m' i', step o pol m inp = .cont m' i' → EndInv m' i' := by
  have hl := he.tinv.linv
  have hcr := he.cr
  have mk : ((step o pol m inp).isPause = false ∧
      ∀ m' i', step o pol m inp = .cont m' i' → m'.charRef = none ∧ ∀ x ∈ pend m' i', plainCh x) →
      ((step o pol m inp).isPause = false ∧ ∀ m' i', step o pol m inp = .cont m' i' → EndInv m' i') := by
    intro ⟨h1, h2⟩
    refine ⟨h1, fun m' i' h => ?_⟩
    obtain ⟨q1, q2⟩ := h2 m' i' h
    exact ⟨step_tinv o pol m inp he.tinv m' i' (by rw [h]; rfl), q1, q2⟩
  apply mk
  cases hrk : readKind m.state with
  | getChar =>
    rw [step_getChar o pol m inp hcr hrk]
    exact end_getChar o pol m inp he hrk
  | popExcept =>
    rw [step_popExcept o pol m inp hcr hrk]
    refine end_set o pol m inp he (Or.inl hrk) _ ?_
    intro sr hsr
    cases hp : popExceptFrom o (setOf m.state) m inp with
    | mk a b =>
      obtain ⟨m1, i1⟩ := b
      rw [hp] at hsr; simp only at hsr; subst hsr
      exact ⟨popExceptFrom_fields o _ m m1 inp i1 sr hp, popExceptFrom_shapeX o _ m m1 inp i1 sr hp⟩
  | dataSimd =>
    rw [step_dataSimd o pol m inp hcr hrk]
    refine end_set o pol m inp he (Or.inr hrk) _ ?_
    intro sr hsr
    cases hp : readData o m inp with
    | mk a b =>
      obtain ⟨m1, i1⟩ := b
      rw [hp] at hsr; simp only at hsr; subst hsr
      exact ⟨readData_fields o m m1 inp i1 sr hp, readData_shapeX o m m1 inp i1 sr hp⟩
  | peekBav =>
    rw [step_kind_bav o pol m inp hcr hrk]
    exact end_bav o pol m inp he (readKind_bav hrk)
  | eatMdo =>
    have hst := readKind_mdo hrk
    rw [step_kind_mdo o pol m inp hcr hrk]
    have h0 : EatSt .markupDeclarationOpen (Phi m inp) m inp :=
      ⟨hst, hcr, hl.peekNoRecon (Or.inr (Or.inl hst)), hl.eatOk (Or.inl hst),
        by unfold Phi; rw [stash_eat hcr (Or.inl hst)]⟩
    refine ⟨stepMdo_noPause o pol m inp, fun m' i' h => ?_⟩
    obtain ⟨d1, d2, d3, d4, d5, a, d6, _⟩ := dec_mdo o pol m inp _ h0 m' i' h
    refine ⟨d1, pend_plain (fun hx => by rw [d2] at hx; simp at hx) ?_ (fun x hx => ?_)⟩
    · rw [stash_plain d1 d4 d5]; intro x hx; exact absurd hx List.not_mem_nil
    · have : x ∈ stash m ++ inp := by rw [stash_eat hcr (Or.inl hst), d6]; simp [hx]
      rcases List.mem_append.mp this with hx' | hx'
      · exact he.stash x hx'
      · exact he.inp x hx'
  | eatAdn =>
    have hst := readKind_adn hrk
    rw [step_kind_adn o pol m inp hcr hrk]
    have h0 : EatSt .afterDoctypeName (Phi m inp) m inp :=
      ⟨hst, hcr, hl.peekNoRecon (Or.inr (Or.inr hst)), hl.eatOk (Or.inr hst),
        by unfold Phi; rw [stash_eat hcr (Or.inr hst)]⟩
    have hpl : ∀ x ∈ m.tempBuf ++ inp, plainCh x := by
      intro x hx
      rw [← stash_eat hcr (Or.inr hst)] at hx
      rcases List.mem_append.mp hx with hx' | hx'
      · exact he.stash x hx'
      · exact he.inp x hx'
    constructor
    · apply isPause_false_of
      intro hp
      cases hres : stepAdn o pol m inp with
      | cont mx ix => rw [hres] at hp; simp [R.isPause] at hp
      | suspend mx ix => rw [hres] at hp; simp [R.isPause] at hp
      | panic e => rw [hres] at hp; simp [R.isPause] at hp
      | script mx ix =>
        exact (hpl _ ((stepAdn_view o pol m inp _ h0 mx ix (by rw [hres]; rfl)).2.1 hp).2).1 rfl
      | indicator mx ix =>
        exact (hpl _ ((stepAdn_view o pol m inp _ h0 mx ix (by rw [hres]; rfl)).2.1 hp).2).1 rfl
    · exact fun m' i' h => stepAdn_cont_pend o pol m inp _ h0 hpl m' i' h

/-- the final `run` of `end()` never answers Script / EncodingIndicator, whatever the sink -/
theorem run_end (o : Opts) (pol : Pol) (fuel : Nat) (m : Mach) (inp : Str) (he : EndInv m inp) :
    (∀ m' i', run o pol fuel m inp ≠ .script m' i') ∧ (∀ m' i', run o pol fuel m inp ≠ .indicator m' i') := by
  induction fuel generalizing m inp with
  | zero => simp [run]
  | succ n ih =>
    unfold run
    obtain ⟨hs0, hnext⟩ := step_end o pol m inp he
    cases hs : step o pol m inp with
    | cont m1 i1 => exact ih m1 i1 (hnext m1 i1 hs)
    | suspend m1 i1 => simp
    | script m1 i1 => rw [hs] at hs0; simp [R.isPause] at hs0
    | indicator m1 i1 => rw [hs] at hs0; simp [R.isPause] at hs0
    | panic e => simp

/-! ### `end()` from a quiet machine, for every sink -/

theorem hex_plain {c : Char} (h : c = 'x' ∨ c = 'X') : plainCh c := by
  rcases h with h | h <;> subst h <;> exact ⟨by decide, by decide⟩

/-- what a round of the sub-tokenizer's `end_of_file` puts back into the (empty) queue contains
neither `>` nor `&` -/
theorem crEofOnce_back (o : Opts) (m : Mach) (cr : CharRefSt) (ht : CRT cr)
    (m1 : Mach) (i1 : Str) (cr1 : CharRefSt) (st : CRStatus)
    (h : crEofOnce o m [] cr = .ok (m1, i1, cr1, st)) : ∀ x ∈ i1, plainCh x := by
  have nil_plain : ∀ x ∈ ([] : Str), plainCh x := fun x hx => absurd hx List.not_mem_nil
  have fin : ∀ mm, finishNumericStatus o mm [] cr = .ok (m1, i1, cr1, st) → ∀ x ∈ i1, plainCh x := by
    intro mm hf
    obtain ⟨mx, c, hok⟩ := finishNumericStatus_ok o mm [] cr
    rw [hok] at hf
    simp only [Except.ok.injEq, Prod.mk.injEq] at hf
    rw [← hf.2.1]; exact nil_plain
  unfold crEofOnce at h
  cases hst : cr.state with
  | begin =>
    simp only [hst, Except.ok.injEq, Prod.mk.injEq] at h
    rw [← h.2.1]; exact nil_plain
  | octothorpe =>
    simp only [hst, Except.ok.injEq, Prod.mk.injEq] at h
    rw [← h.2.1]
    intro x hx
    simp only [List.mem_cons, List.not_mem_nil, or_false] at hx
    subst hx; exact ⟨by decide, by decide⟩
  | numeric base =>
    simp only [hst] at h
    split at h
    · unfold unconsumeNumeric at h
      simp only [Except.ok.injEq, Prod.mk.injEq] at h
      rw [← h.2.1]
      intro x hx
      simp only [List.append_nil, List.mem_cons] at hx
      rcases hx with hx | hx
      · subst hx; exact ⟨by decide, by decide⟩
      · cases hh : cr.hexMarker with
        | none => rw [hh] at hx; simp at hx
        | some y =>
          rw [hh] at hx
          simp only [List.mem_cons, List.not_mem_nil, or_false] at hx
          subst hx; exact hex_plain (ht.hexOk _ hh)
    · exact fin _ h
  | numericSemicolon =>
    simp only [hst] at h
    exact fin _ h
  | bogusName =>
    simp only [hst] at h
    cases hnb : cr.nameBuf with
    | none => rw [hnb] at h; simp at h
    | some nb =>
      rw [hnb] at h
      simp only [Except.ok.injEq, Prod.mk.injEq] at h
      rw [← h.2.1]
      intro x hx
      simp only [List.append_nil] at hx
      exact runCh_plain (ht.nbRun x (by rw [hnb]; exact hx))
  | named =>
    simp only [hst] at h
    cases hnb : cr.nameBuf with
    | none => unfold finishNamed at h; rw [hnb] at h; simp at h
    | some nb =>
      rcases finishNamed_shape o m [] cr none nb m1 i1 cr1 st hnb h with ⟨chars, k, _, e2⟩ | ⟨_, _, _, c, e4, _⟩
      · rw [e2]
        intro x hx
        simp only [List.append_nil] at hx
        exact runCh_plain (ht.nbRun x (by rw [hnb]; exact List.mem_of_mem_drop hx))
      · simp at e4

theorem crEof_back (o : Opts) (m : Mach) (cr : CharRefSt) (hil : m.ignoreLf = false) (hr : m.reconsume = false)
    (hc : CRLines cr) (ht : CRT cr) (m1 : Mach) (i1 chars : Str) (h : crEof o m [] cr = .ok (m1, i1, chars)) :
    ∀ x ∈ i1, plainCh x := by
  rw [crEof_eq] at h
  cases hon : crEofOnce o m [] cr with
  | error e => rw [hon] at h; simp at h
  | ok v =>
    obtain ⟨mx, ix, crx, st⟩ := v
    obtain ⟨⟨cs, hcs⟩, _⟩ := crEofOnce_lines o m cr hil hr hc mx ix crx st hon
    subst hcs
    have hb := crEofOnce_back o m cr ht mx ix crx _ hon
    rw [hon] at h
    simp only [Except.ok.injEq, Prod.mk.injEq] at h
    rw [← h.2.1]; exact hb

theorem pend_setAtEof (m : Mach) (b : Bool) (inp : Str) : pend (m.setAtEof b) inp = pend m inp := by
  unfold pend rc
  rw [stash_congr (m := m) (by simp) (by simp) (by simp)]
  simp

theorem EndInv.setAtEof {m : Mach} {inp : Str} (he : EndInv m inp) (b : Bool) : EndInv (m.setAtEof b) inp :=
  ⟨he.tinv.setAtEof b, by simpa using he.cr, by rw [pend_setAtEof]; exact he.plain⟩

/-- the part of `Tokenizer::end` after the character-reference hand-back, for any sink -/
theorem finish_tail_end (o : Opts) (pol : Pol) (m : Mach) (inp : Str) (he : EndInv m inp) :
    ∃ mf, (match run o pol (fuelFor (m.setAtEof true) inp) (m.setAtEof true) inp with
          | .done m inp => if !inp.isEmpty then .error "assertion failed: input.is_empty()" else eofLoop o 8 m
          | .script _ _ | .indicator _ _ =>
            .error "assertion failed: matches!(self.run(&input), TokenizerResult::Done)"
          | .panic e => .error e
          | .outOfFuel => .error "run out of fuel") = Except.ok mf := by
  have he' := he.setAtEof true
  have hi' := he'.tinv
  cases hrun : run o pol (fuelFor (m.setAtEof true) inp) (m.setAtEof true) inp with
  | done m4 i4 =>
    have := run_done_nil o pol _ _ _ hi' m4 i4 hrun
    subst this
    simp only [List.isEmpty_nil, Bool.not_true, Bool.false_eq_true, ↓reduceIte]
    exact eofLoop_total o m4
  | script m4 i4 => exact absurd hrun ((run_end o pol _ _ _ he').1 m4 i4)
  | indicator m4 i4 => exact absurd hrun ((run_end o pol _ _ _ he').2 m4 i4)
  | panic e => exact absurd hrun (run_no_panic o pol _ _ _ hi' e)
  | outOfFuel => exact absurd hrun (run_terminates o pol _ _ _ hi' (mu_lt_fuelFor _ _))

/-- **`Tokenizer::end` completes from every quiet machine, whatever the sink answers to tags**: it
never delivers a tag token, so the sink is not consulted -/
theorem finish_end_total (o : Opts) (pol : Pol) (m : Mach) (hq : Quiet m) : ∃ mf, finish o pol m = .ok mf := by
  have hi := hq.tinv
  unfold finish
  cases hcr : m.charRef with
  | none =>
    simp only
    refine finish_tail_end o pol m [] ⟨hi, hcr, pend_plain (fun hx => ?_) (hq.sp hcr)
      (fun x hx => absurd hx List.not_mem_nil)⟩
    rw [hq.nrec] at hx; simp at hx
  | some cr =>
    obtain ⟨c1, c2, c3⟩ := hi.linv.cr cr hcr
    have hstate := crStateOk_facts (hi.linv.safe.crState cr hcr)
    obtain ⟨m1, i1, chars, hce⟩ := crEof_ok o m cr c1 c2 c3 (hi.linv.safe.crRegs cr hcr)
    obtain ⟨ht, hnp⟩ := finish_charRef_inv o m cr hi.linv hcr m1 i1 chars hce
    obtain ⟨_, _, l3, _, l5, _⟩ := crEof_lines o m cr c1 c2 c3 m1 i1 chars hce
    have hback := crEof_back o m cr c1 c2 c3 (hi.crt cr hcr) m1 i1 chars hce
    have hpa := processCharRef_noPause (m1.setCharRef none) chars
    have hp := processCharRef_fields (m1.setCharRef none) chars
    have hpc0 := processCharRef_charRef (m1.setCharRef none) chars
    simp only [hce]
    cases hpc : processCharRef (m1.setCharRef none) chars with
    | mk m2 sig =>
      rw [hpc] at ht hnp hpa hp hpc0
      simp only at hp hpc0
      cases sig with
      | cont =>
        simp only
        have hcr2 : m2.charRef = none := by simpa using hpc0
        have hst2 : m2.state = m.state := by rw [hp.1]; simp only [setCharRef_state]; exact l5
        have hrec2 : m2.reconsume = false := by rw [hp.2.2.2.1]; simpa using l3
        refine finish_tail_end o pol m2 i1 ⟨ht, hcr2, pend_plain (fun hx => ?_) ?_ hback⟩
        · rw [hrec2] at hx; simp at hx
        · rw [stash_plain hcr2 (by rw [hst2]; exact hstate.1) (by rw [hst2]; exact hstate.2.1)]
          intro x hx; exact absurd hx List.not_mem_nil
      | script => simp [Sig.isPause] at hpa
      | indicator => simp [Sig.isPause] at hpa
      | panic e => exact absurd rfl (hnp e)

end H5V.Model.HtmlTok
