import H5V.Lemmas.HtmlTBSkelShapeQ
/-!
C06, second invariant layer, part 2: what the popping helpers do to the stack of open elements
(`pop`, `generate_implied_end_tags`, `pop_until_current`, `pop_until`, …), in terms of element names.
`PR s s'`: nothing but the stack (a prefix of the old one) and the trace changed.
-/
namespace H5V.Props.C06
open H5V.Model.Dom hiding Str
open H5V.Model.HtmlTB hiding Str
open H5V.Lemmas.Dom

/-- pops only: the new stack is the old one without `popped` on top -/
structure PR (s s' : State) (popped : List Id) : Prop where
  nodes : s'.dom.nodes = s.dom.nodes
  stack : s.openElems = s'.openElems ++ popped
  rest : s' = { s with openElems := s'.openElems, dom := s'.dom, traceRev := s'.traceRev }

theorem PR.of_qs {s s' : State} (h : QS s s') : PR s s' [] :=
  ⟨h.nodes, by rw [h.openElems]; simp, by rw [h.rest]⟩

theorem PR.trans {a b c : State} {p1 p2 : List Id} (h1 : PR a b p1) (h2 : PR b c p2) : PR a c (p2 ++ p1) :=
  ⟨h2.nodes.trans h1.nodes, by rw [h1.stack, h2.stack]; simp, by rw [h2.rest, h1.rest]⟩

theorem PR.qs_right {a b c : State} {p : List Id} (h1 : PR a b p) (h2 : QS b c) : PR a c p := by
  have := h1.trans (PR.of_qs h2); simpa using this

theorem PR.qs_left {a b c : State} {p : List Id} (h1 : QS a b) (h2 : PR b c p) : PR a c p := by
  have := (PR.of_qs h1).trans h2; simpa using this

theorem PR.nm {s s' : State} {p : List Id} (h : PR s s' p) (x : Id) : nm s'.dom x = nm s.dom x := nm_of_nodes h.nodes x

theorem dropLast_append_getLast? {l : List Id} {x : Id} (h : l.getLast? = some x) : l = l.dropLast ++ [x] := by
  rw [List.getLast?_eq_some_iff] at h
  obtain ⟨ys, rfl⟩ := h
  simp

theorem pop_sem {s s' : State} {h : Id} (e : pop s = .ok (h, s')) : PR s s' [h] := by
  unfold pop at e
  rw [getS_bind] at e
  cases hl : s.openElems.getLast? with
  | none => simp only [hl] at e; exact absurd e panicAt_ok
  | some x =>
    simp only [hl] at e
    obtain ⟨u, s1, e1, e2⟩ := bind_ok.mp e
    have hs1 := set_ok.mp e1
    obtain ⟨u2, s2, e3, e4⟩ := bind_ok.mp e2
    obtain ⟨rfl, rfl⟩ := pure_ok.mp e4
    have q := qs_sinkUnit e3
    subst hs1
    refine ⟨q.nodes, ?_, ?_⟩
    · rw [q.openElems]; exact dropLast_append_getLast? hl
    · rw [q.rest]

theorem popSilently_sem {s s' : State} {r : Option Id} (e : popSilently s = .ok (r, s')) :
    (r = none ∧ s' = s ∧ s.openElems = []) ∨ (∃ h, r = some h ∧ PR s s' [h]) := by
  unfold popSilently at e
  rw [getS_bind] at e
  cases hl : s.openElems.getLast? with
  | none =>
    simp only [hl] at e
    obtain ⟨rfl, rfl⟩ := pure_ok.mp e
    exact Or.inl ⟨rfl, rfl, List.getLast?_eq_none_iff.mp hl⟩
  | some x =>
    simp only [hl] at e
    obtain ⟨u, s1, e1, e2⟩ := bind_ok.mp e
    have hs1 := set_ok.mp e1
    obtain ⟨rfl, rfl⟩ := pure_ok.mp e2
    subst hs1
    exact Or.inr ⟨x, rfl, rfl, dropLast_append_getLast? hl, rfl⟩

/-- `generate_implied_end_tags(set)`: pops elements whose names are in `set`; stops at the first other one -/
theorem generateImpliedEndTagsLoop_sem (set : EName → Bool) : ∀ (fuel : Nat) (s s' : State) (u : Unit),
    generateImpliedEndTagsLoop set fuel s = .ok (u, s') →
      ∃ popped, PR s s' popped ∧ (∀ x ∈ popped, set (nm s.dom x) = true) ∧
        (∀ t, s'.openElems.getLast? = some t → set (nm s.dom t) = false)
  | 0, s, s', u, e => by unfold generateImpliedEndTagsLoop at e; exact absurd e fuelOut_ok
  | fuel + 1, s, s', u, e => by
    unfold generateImpliedEndTagsLoop at e
    rw [getS_bind] at e
    cases hl : s.openElems.getLast? with
    | none =>
      simp only [hl] at e
      obtain ⟨_, rfl⟩ := pure_ok.mp e
      exact ⟨[], PR.of_qs (QS.refl _), (by intro x hx; cases hx), (by intro t ht; rw [hl] at ht; cases ht)⟩
    | some el =>
      simp only [hl] at e
      obtain ⟨n, s1, e1, e2⟩ := bind_ok.mp e
      obtain ⟨q1, hn, _⟩ := elemName_sem e1
      by_cases hs : set n = true
      · simp only [hs, Bool.not_true, Bool.false_eq_true, if_false] at e2
        obtain ⟨h, s2, e3, e4⟩ := bind_ok.mp e2
        have p2 := pop_sem e3
        have hh : h = el := by
          have := p2.stack
          rw [q1.openElems, dropLast_append_getLast? hl] at this
          have := List.append_inj_right' this (by simp)
          simpa using this.symm
        subst hh
        obtain ⟨popped, p3, h3, h4⟩ := generateImpliedEndTagsLoop_sem set fuel s2 s' u e4
        have hnm : ∀ x, nm s2.dom x = nm s.dom x := fun x => by rw [p2.nm, q1.nm]
        refine ⟨popped ++ [h], (PR.qs_left q1 p2).trans p3, ?_, ?_⟩
        · intro x hx
          simp only [List.mem_append, List.mem_singleton] at hx
          rcases hx with hx | rfl
          · rw [← hnm]; exact h3 x hx
          · rw [← hn]; exact hs
        · intro t ht; rw [← hnm]; exact h4 t ht
      · simp only [hs, Bool.not_false, if_true] at e2
        obtain ⟨_, rfl⟩ := pure_ok.mp e2
        refine ⟨[], PR.of_qs q1, (by intro x hx; cases hx), ?_⟩
        intro t ht
        rw [q1.openElems, hl] at ht
        cases ht
        rw [← hn]; simpa using hs

theorem generateImpliedEndTags_sem {set : EName → Bool} {s s' : State} {u : Unit}
    (e : generateImpliedEndTags set s = .ok (u, s')) :
    ∃ popped, PR s s' popped ∧ (∀ x ∈ popped, set (nm s.dom x) = true) ∧
      (∀ t, s'.openElems.getLast? = some t → set (nm s.dom t) = false) := by
  unfold generateImpliedEndTags at e
  rw [getS_bind] at e
  exact generateImpliedEndTagsLoop_sem set _ _ _ _ e

theorem PR.of_popSilently {s s' : State} {h : Id} (p : PR s s' [h]) : s.openElems.getLast? = some h := by
  rw [p.stack]; simp

/-- `pop_until_current(set)`: pops elements not in `set`; ends with the current node in `set` -/
theorem popUntilCurrentLoop_sem (set : EName → Bool) : ∀ (fuel : Nat) (s s' : State) (u : Unit),
    popUntilCurrentLoop set fuel s = .ok (u, s') →
      ∃ popped, PR s s' popped ∧ (∀ x ∈ popped, set (nm s.dom x) = false) ∧
        ∃ t, s'.openElems.getLast? = some t ∧ set (nm s.dom t) = true
  | 0, s, s', u, e => by unfold popUntilCurrentLoop at e; exact absurd e fuelOut_ok
  | fuel + 1, s, s', u, e => by
    unfold popUntilCurrentLoop at e
    obtain ⟨b, s1, e1, e2⟩ := bind_ok.mp e
    obtain ⟨q1, t, hl, hb⟩ := currentNodeIn_sem e1
    by_cases hbt : b = true
    · simp only [hbt, if_true] at e2
      obtain ⟨_, rfl⟩ := pure_ok.mp e2
      exact ⟨[], PR.of_qs q1, (by intro x hx; cases hx), t, by rw [q1.openElems]; exact hl, by rw [← hb]; exact hbt⟩
    · simp only [hbt] at e2
      obtain ⟨r, s2, e3, e4⟩ := bind_ok.mp e2
      rcases popSilently_sem e3 with ⟨_, _, hem⟩ | ⟨h, _, p2⟩
      · rw [q1.openElems] at hem
        rw [hem] at hl
        cases hl
      · have hh : h = t := by
          have := p2.of_popSilently
          rw [q1.openElems, hl] at this
          cases this; rfl
        subst hh
        obtain ⟨popped, p3, h3, t', h4, h5⟩ := popUntilCurrentLoop_sem set fuel s2 s' u e4
        have hnm : ∀ x, nm s2.dom x = nm s.dom x := fun x => by rw [p2.nm, q1.nm]
        refine ⟨popped ++ [h], (PR.qs_left q1 p2).trans p3, ?_, t', h4, by rw [← hnm]; exact h5⟩
        intro x hx
        simp only [List.mem_append, List.mem_singleton] at hx
        rcases hx with hx | rfl
        · rw [← hnm]; exact h3 x hx
        · rw [← hb]; simpa using hbt

theorem popUntilCurrent_sem {set : EName → Bool} {s s' : State} {u : Unit}
    (e : popUntilCurrent set s = .ok (u, s')) :
    ∃ popped, PR s s' popped ∧ (∀ x ∈ popped, set (nm s.dom x) = false) ∧
      ∃ t, s'.openElems.getLast? = some t ∧ set (nm s.dom t) = true := by
  unfold popUntilCurrent at e
  rw [getS_bind] at e
  exact popUntilCurrentLoop_sem set _ _ _ _ e

/-- `pop_until(pred)`: pops up to and including the topmost element satisfying `pred` (everything if there is none) -/
theorem popUntilLoop_sem (pred : EName → Bool) : ∀ (fuel n : Nat) (s s' : State) (k : Nat),
    popUntilLoop pred fuel n s = .ok (k, s') →
      ∃ popped, PR s s' popped ∧
        ((∃ m above, popped = m :: above ∧ pred (nm s.dom m) = true ∧ ∀ x ∈ above, pred (nm s.dom x) = false) ∨
         (s'.openElems = [] ∧ ∀ x ∈ popped, pred (nm s.dom x) = false))
  | 0, _, s, s', k, e => by unfold popUntilLoop at e; exact absurd e fuelOut_ok
  | fuel + 1, n, s, s', k, e => by
    unfold popUntilLoop at e
    obtain ⟨r, s1, e1, e2⟩ := bind_ok.mp e
    rcases popSilently_sem e1 with ⟨rfl, rfl, hem⟩ | ⟨h, rfl, p1⟩
    · simp only at e2
      obtain ⟨_, rfl⟩ := pure_ok.mp e2
      exact ⟨[], PR.of_qs (QS.refl _), Or.inr ⟨hem, by intro x hx; cases hx⟩⟩
    · simp only at e2
      obtain ⟨nme, s2, e3, e4⟩ := bind_ok.mp e2
      obtain ⟨q2, hn, _⟩ := elemName_sem e3
      have hn' : nme = nm s.dom h := by rw [hn, p1.nm]
      by_cases hp : pred nme = true
      · simp only [hp, if_true] at e4
        obtain ⟨_, rfl⟩ := pure_ok.mp e4
        exact ⟨[h], p1.qs_right q2, Or.inl ⟨h, [], rfl, by rw [← hn']; exact hp, by intro x hx; cases hx⟩⟩
      · simp only [hp] at e4
        obtain ⟨popped, p3, h3⟩ := popUntilLoop_sem pred fuel _ s2 s' k e4
        have hnm : ∀ x, nm s2.dom x = nm s.dom x := fun x => by rw [q2.nm, p1.nm]
        refine ⟨popped ++ [h], (p1.qs_right q2).trans p3, ?_⟩
        rcases h3 with ⟨m, above, hpo, hm, hab⟩ | ⟨hem, hall⟩
        · refine Or.inl ⟨m, above ++ [h], by rw [hpo]; simp, by rw [← hnm]; exact hm, ?_⟩
          intro x hx
          simp only [List.mem_append, List.mem_singleton] at hx
          rcases hx with hx | rfl
          · rw [← hnm]; exact hab x hx
          · rw [← hn']; simpa using hp
        · refine Or.inr ⟨hem, ?_⟩
          intro x hx
          simp only [List.mem_append, List.mem_singleton] at hx
          rcases hx with hx | rfl
          · rw [← hnm]; exact hall x hx
          · rw [← hn']; simpa using hp

theorem popUntil_sem {pred : EName → Bool} {s s' : State} {k : Nat} (e : popUntil pred s = .ok (k, s')) :
    ∃ popped, PR s s' popped ∧
      ((∃ m above, popped = m :: above ∧ pred (nm s.dom m) = true ∧ ∀ x ∈ above, pred (nm s.dom x) = false) ∨
       (s'.openElems = [] ∧ ∀ x ∈ popped, pred (nm s.dom x) = false)) := by
  unfold popUntil at e
  rw [getS_bind] at e
  exact popUntilLoop_sem pred _ _ _ _ _ e

theorem expectToCloseS_sem {name : Str} {s s' : State} {u : Unit} (e : expectToCloseS name s = .ok (u, s')) :
    ∃ popped, PR s s' popped ∧
      ((∃ m above, popped = m :: above ∧ isHS (nm s.dom m) name = true ∧ ∀ x ∈ above, isHS (nm s.dom x) name = false) ∨
       (s'.openElems = [] ∧ ∀ x ∈ popped, isHS (nm s.dom x) name = false)) := by
  unfold expectToCloseS at e
  obtain ⟨k, s1, e1, e2⟩ := bind_ok.mp e
  unfold popUntilNamedS at e1
  obtain ⟨popped, p1, h1⟩ := popUntil_sem e1
  have hq : QS s1 s' := by
    by_cases hk : (k != 1) = true
    · simp only [hk, if_true] at e2; exact qs_parseError e2
    · simp only [hk] at e2; obtain ⟨_, rfl⟩ := pure_ok.mp e2; exact QS.refl _
  refine ⟨popped, p1.qs_right hq, ?_⟩
  rcases h1 with h | ⟨hem, h⟩
  · exact Or.inl h
  · exact Or.inr ⟨by rw [hq.openElems]; exact hem, h⟩

/-- the search of `process_end_tag_in_body` over the reversed stack `l` (whose last index is `len - 1`) -/
theorem endTagSearch_sem (name : Str) : ∀ (l : List Id) (len : Nat) (s s' : State) (r : Option (Option Nat)),
    endTagSearch name l len s = .ok (r, s') →
      QS s s' ∧ ∀ idx, r = some (some idx) → ∃ pre m post, l = pre ++ m :: post ∧ idx = len - 1 - pre.length ∧
        isHS (nm s.dom m) name = true ∧ ∀ x ∈ pre, specialTag (nm s.dom x) = false ∧ isHS (nm s.dom x) name = false
  | [], len, s, s', r, e => by
    unfold endTagSearch at e
    obtain ⟨rfl, rfl⟩ := pure_ok.mp e
    exact ⟨QS.refl _, by intro idx h; cases h⟩
  | x :: rest, len, s, s', r, e => by
    unfold endTagSearch at e
    obtain ⟨b1, s1, e1, e2⟩ := bind_ok.mp e
    obtain ⟨q1, hb1, _⟩ := htmlElemNamedS_sem e1
    by_cases h1 : b1 = true
    · simp only [h1, if_true] at e2
      obtain ⟨rfl, rfl⟩ := pure_ok.mp e2
      refine ⟨q1, ?_⟩
      intro idx hidx
      cases hidx
      exact ⟨[], x, rest, rfl, by simp, by unfold isHS; rw [← hb1]; exact h1, by intro y hy; cases hy⟩
    · simp only [h1] at e2
      obtain ⟨b2, s2, e3, e4⟩ := bind_ok.mp e2
      obtain ⟨q2, hb2⟩ := elemIn_sem e3
      by_cases h2 : b2 = true
      · simp only [h2, if_true] at e4
        obtain ⟨u, s3, e5, e6⟩ := bind_ok.mp e4
        obtain ⟨rfl, rfl⟩ := pure_ok.mp e6
        exact ⟨(q1.trans q2).trans (qs_parseError e5), by intro idx h; cases h⟩
      · simp only [h2] at e4
        obtain ⟨q3, hr⟩ := endTagSearch_sem name rest (len - 1) s2 s' r e4
        have q12 := q1.trans q2
        refine ⟨q12.trans q3, ?_⟩
        intro idx hidx
        obtain ⟨pre, m, post, hl, hi, hm, hpre⟩ := hr idx hidx
        refine ⟨x :: pre, m, post, by rw [hl]; rfl, by simp only [List.length_cons]; omega, by rw [← q12.nm]; exact hm, ?_⟩
        intro y hy
        simp only [List.mem_cons] at hy
        rcases hy with rfl | hy
        · refine ⟨?_, ?_⟩
          · rw [← q1.nm, ← hb2]; simpa using h2
          · unfold isHS; rw [← hb1]; simpa using h1
        · have := hpre y hy
          rw [q12.nm] at this
          exact this

theorem mem_drop_min {l : List Id} {a b : Nat} {x : Id} (h : x ∈ l.drop (min a b)) : x ∈ l.drop a ∨ x ∈ l.drop b := by
  by_cases hab : a ≤ b
  · rw [Nat.min_eq_left hab] at h; exact Or.inl h
  · rw [Nat.min_eq_right (Nat.le_of_lt (Nat.lt_of_not_le hab))] at h; exact Or.inr h

/-- `process_end_tag_in_body`: every popped element is non-special, or has the tag's name, or is one
of the implied-end elements -/
theorem processEndTagInBody_sem {tag : Tag} {s s' : State} {u : Unit} (e : processEndTagInBody tag s = .ok (u, s')) :
    ∃ popped, PR s s' popped ∧ ∀ x ∈ popped, specialTag (nm s.dom x) = false ∨ isHS (nm s.dom x) tag.name = true ∨
      cursoryImpliedEnd (nm s.dom x) = true := by
  unfold processEndTagInBody at e
  rw [getS_bind] at e
  obtain ⟨r, s1, e1, e2⟩ := bind_ok.mp e
  obtain ⟨q1, hr⟩ := endTagSearch_sem tag.name _ _ _ _ _ e1
  cases r with
  | none =>
    simp only at e2
    obtain ⟨_, rfl⟩ := pure_ok.mp e2
    exact ⟨[], PR.of_qs q1, by intro x hx; cases hx⟩
  | some r1 =>
    cases r1 with
    | none =>
      simp only at e2
      obtain ⟨_, s2, e3, e4⟩ := bind_ok.mp e2
      obtain ⟨_, rfl⟩ := pure_ok.mp e4
      exact ⟨[], PR.of_qs (q1.trans (qs_unexpected e3).1), by intro x hx; cases hx⟩
    | some idx =>
      simp only at e2
      obtain ⟨pre, m, post, hl, hidx, hm, hpre⟩ := hr idx rfl
      obtain ⟨hget, hsplit⟩ := getElem?_of_reverse_split hl
      obtain ⟨_, s2, e3, e4⟩ := bind_ok.mp e2
      unfold generateImpliedEndExcept at e3
      obtain ⟨popped1, p1, hp1, _⟩ := generateImpliedEndTags_sem e3
      rw [getS_bind] at e4
      by_cases hlen : (s2.openElems.length == 0) = true
      · simp only [hlen, if_true] at e4; exact absurd e4 panicAt_ok
      · simp only [hlen] at e4
        -- the optional parse error, then the truncation
        have key : ∀ s3, QS s2 s3 → (modS fun st => { st with openElems := st.openElems.take idx }) s3 = .ok (u, s') →
            ∃ popped, PR s s' popped ∧ ∀ x ∈ popped, specialTag (nm s.dom x) = false ∨
              isHS (nm s.dom x) tag.name = true ∨ cursoryImpliedEnd (nm s.dom x) = true := by
          intro s3 q3 e5
          have hs' := modS_ok.mp e5
          have hst1 : s1.openElems = s.openElems := q1.openElems
          have hst : s.openElems = s2.openElems ++ popped1 := by rw [← hst1]; exact p1.stack
          have hst3 : s3.openElems = s.openElems.take s2.openElems.length := by
            rw [q3.openElems, hst]; simp
          have hstk : s'.openElems = s.openElems.take (min idx s2.openElems.length) := by
            rw [hs']; show s3.openElems.take idx = _; rw [hst3, List.take_take]
          refine ⟨s.openElems.drop (min idx s2.openElems.length), ⟨?_, ?_, ?_⟩, ?_⟩
          · rw [hs']; show s3.dom.nodes = _; rw [q3.nodes, p1.nodes, q1.nodes]
          · rw [hstk]; exact (List.take_append_drop _ _).symm
          · rw [hs']
            have h3 := q3.rest; have h2 := p1.rest; have h1 := q1.rest
            rw [h3, h2, h1]
          · intro x hx
            rcases mem_drop_min hx with hx | hx
            · -- at or above the match
              have hdrop : s.openElems.drop idx = m :: pre.reverse := by
                have hlen' : idx = post.reverse.length := by
                  have : s.openElems.length = post.length + 1 + pre.length := by rw [hsplit]; simp; omega
                  rw [hidx, this]; simp
                rw [hsplit, hlen', List.drop_left]
              rw [hdrop] at hx
              simp only [List.mem_cons, List.mem_reverse] at hx
              rcases hx with rfl | hx
              · exact Or.inr (Or.inl hm)
              · exact Or.inl (hpre x hx).1
            · have : s.openElems.drop s2.openElems.length = popped1 := by rw [hst]; simp
              rw [this] at hx
              have := hp1 x hx
              rw [q1.nm] at this
              unfold impliedExcept at this
              split at this
              · cases this
              · exact Or.inr (Or.inr this)
        by_cases hne : (idx != s2.openElems.length - 1) = true
        · simp only [hne, if_true] at e4
          obtain ⟨_, s3, e5, e6⟩ := bind_ok.mp e4
          exact key s3 (qs_unexpected e5).1 e6
        · simp only [hne] at e4
          exact key s2 (QS.refl _) e4

/-- only the stack (arbitrarily) and the trace changed -/
structure SE (s s' : State) : Prop where
  nodes : s'.dom.nodes = s.dom.nodes
  rest : s' = { s with openElems := s'.openElems, dom := s'.dom, traceRev := s'.traceRev }

theorem PR.se {s s' : State} {p : List Id} (h : PR s s' p) : SE s s' := ⟨h.nodes, h.rest⟩
theorem SE.of_qs {s s' : State} (h : QS s s') : SE s s' := ⟨h.nodes, by rw [h.rest]⟩
theorem SE.trans {a b c : State} (h1 : SE a b) (h2 : SE b c) : SE a c := ⟨h2.nodes.trans h1.nodes, by rw [h2.rest, h1.rest]⟩
theorem SE.nm {s s' : State} (h : SE s s') (x : Id) : nm s'.dom x = nm s.dom x := nm_of_nodes h.nodes x

theorem removeFromStack_sem {x : Id} {s s' : State} {u : Unit} (e : removeFromStack x s = .ok (u, s')) :
    SE s s' ∧ ((s'.openElems = s.openElems ∧ x ∉ s.openElems) ∨
      ∃ pos, s.openElems[pos]? = some x ∧ x ∉ s.openElems.drop (pos + 1) ∧ s'.openElems = s.openElems.eraseIdx pos) := by
  unfold removeFromStack at e
  obtain ⟨r, s1, e1, e2⟩ := bind_ok.mp e
  have e1' : rposition (fun n => if true then sameNode x n else sameNode n x) s = .ok (r, s1) := e1
  obtain ⟨q1, h1, h1n⟩ := rposition_same_sem e1'
  cases r with
  | none =>
    simp only at e2
    obtain ⟨_, rfl⟩ := pure_ok.mp e2
    exact ⟨SE.of_qs q1, Or.inl ⟨q1.openElems, h1n rfl⟩⟩
  | some pos =>
    simp only at e2
    obtain ⟨_, s2, e3, e4⟩ := bind_ok.mp e2
    have hs2 := modS_ok.mp e3
    have q3 := qs_sinkUnit e4
    obtain ⟨hget, hnot⟩ := h1 pos rfl
    refine ⟨⟨by rw [q3.nodes, hs2]; exact q1.nodes, ?_⟩, Or.inr ⟨pos, hget, hnot, ?_⟩⟩
    · have h3 := q3.rest; have h1' := q1.rest
      rw [h3, hs2, h1']
    · rw [q3.openElems, hs2]; show s1.openElems.eraseIdx pos = _; rw [q1.openElems]

/-- the `while` loop of `unexpected_start_tag_in_foreign_content`: pops non-HTML elements only -/
theorem popToIntegrationPointLoop_sem : ∀ (fuel : Nat) (s s' : State) (u : Unit),
    popToIntegrationPointLoop fuel s = .ok (u, s') →
      ∃ popped, PR s s' popped ∧ ∀ x ∈ popped, (nm s.dom x).ns ≠ nsHtml
  | 0, s, s', u, e => by unfold popToIntegrationPointLoop at e; exact absurd e fuelOut_ok
  | fuel + 1, s, s', u, e => by
    unfold popToIntegrationPointLoop at e
    obtain ⟨b, s0, e3, e4⟩ := bind_ok.mp e
    obtain ⟨q0, t, hl, hb⟩ := currentNodeIn_sem e3
    have key : ∀ (stop : Bool) (s1 : State), QS s s1 → (stop = false → (nm s.dom t).ns ≠ nsHtml) →
        (if stop = true then pure () else do let _ ← pop; popToIntegrationPointLoop fuel : M Unit) s1 = .ok (u, s') →
        ∃ popped, PR s s' popped ∧ ∀ x ∈ popped, (nm s.dom x).ns ≠ nsHtml := by
      intro stop s1 q1 hstop e2
      by_cases hs : stop = true
      · simp only [hs, if_true] at e2
        obtain ⟨_, rfl⟩ := pure_ok.mp e2
        exact ⟨[], PR.of_qs q1, by intro x hx; cases hx⟩
      · simp only [hs] at e2
        obtain ⟨h, s2, e5, e6⟩ := bind_ok.mp e2
        have p2 := pop_sem e5
        obtain ⟨popped, p3, h3⟩ := popToIntegrationPointLoop_sem fuel s2 s' u e6
        have hnm : ∀ x, nm s2.dom x = nm s.dom x := fun x => by rw [p2.nm, q1.nm]
        refine ⟨popped ++ [h], (PR.qs_left q1 p2).trans p3, ?_⟩
        intro x hx
        simp only [List.mem_append, List.mem_singleton] at hx
        rcases hx with hx | rfl
        · rw [← hnm]; exact h3 x hx
        · have hl' : s.openElems.getLast? = some x := by
            have := p2.of_popSilently; rw [q1.openElems] at this; exact this
          rw [hl] at hl'; cases hl'
          exact hstop (by simpa using hs)
    by_cases hbt : b = true
    · simp only [hbt, if_true] at e4
      obtain ⟨stop, s1, e5, e6⟩ := bind_ok.mp e4
      obtain ⟨rfl, rfl⟩ := pure_ok.mp e5
      exact key true s0 q0 (by intro h; cases h) e6
    · simp only [hbt] at e4
      obtain ⟨cur, s1, e5, e6⟩ := bind_ok.mp e4
      obtain ⟨rfl, _⟩ := currentNode_sem e5
      obtain ⟨stop, s2, e7, e8⟩ := bind_ok.mp e6
      refine key stop s2 (q0.trans (IsQ.q _ _ _ e7)) ?_ e8
      intro _ hns
      apply hbt
      rw [hb]
      simp [hns]

theorem findFurthestBlock_sem : ∀ (l : List Id) (i : Nat) (s s' : State) (r : Option (Nat × Id)),
    findFurthestBlock l i s = .ok (r, s') →
      QS s s' ∧ (∀ j e, r = some (j, e) → ∃ pre post, l = pre ++ e :: post ∧ j = i + pre.length ∧
        specialTag (nm s.dom e) = true ∧ ∀ x ∈ pre, specialTag (nm s.dom x) = false) ∧
      (r = none → ∀ x ∈ l, specialTag (nm s.dom x) = false)
  | [], i, s, s', r, e => by
    unfold findFurthestBlock at e
    obtain ⟨rfl, rfl⟩ := pure_ok.mp e
    exact ⟨QS.refl _, (by intro j e h; cases h), (by intro _ x hx; cases hx)⟩
  | y :: rest, i, s, s', r, e => by
    unfold findFurthestBlock at e
    obtain ⟨b, s1, e1, e2⟩ := bind_ok.mp e
    obtain ⟨q1, hb⟩ := elemIn_sem e1
    by_cases hbt : b = true
    · simp only [hbt, if_true] at e2
      obtain ⟨rfl, rfl⟩ := pure_ok.mp e2
      refine ⟨q1, ?_, (by intro h; cases h)⟩
      intro j el h
      cases h
      exact ⟨[], rest, rfl, by simp, by rw [← hb]; exact hbt, by intro x hx; cases hx⟩
    · simp only [hbt] at e2
      obtain ⟨q2, h2, h3⟩ := findFurthestBlock_sem rest (i + 1) s1 s' r e2
      have hy : specialTag (nm s.dom y) = false := by rw [← hb]; simpa using hbt
      refine ⟨q1.trans q2, ?_, ?_⟩
      · intro j el h
        obtain ⟨pre, post, hl, hj, hs, hpre⟩ := h2 j el h
        refine ⟨y :: pre, post, by rw [hl]; rfl, by simp only [List.length_cons]; omega, by rw [← q1.nm]; exact hs, ?_⟩
        intro x hx
        simp only [List.mem_cons] at hx
        rcases hx with rfl | hx
        · exact hy
        · rw [← q1.nm]; exact hpre x hx
      · intro hn x hx
        simp only [List.mem_cons] at hx
        rcases hx with rfl | hx
        · exact hy
        · rw [← q1.nm]; exact h3 hn x hx

theorem positionSameNode_sem (x : Id) : ∀ (l : List Id) (i : Nat) (s s' : State) (r : Option Nat),
    positionSameNode x l i s = .ok (r, s') →
      QS s s' ∧ ∀ j, r = some j → ∃ pre post, l = pre ++ x :: post ∧ j = i + pre.length ∧ x ∉ pre
  | [], i, s, s', r, e => by
    unfold positionSameNode at e
    obtain ⟨rfl, rfl⟩ := pure_ok.mp e
    exact ⟨QS.refl _, by intro j h; cases h⟩
  | y :: rest, i, s, s', r, e => by
    unfold positionSameNode at e
    obtain ⟨b, s1, e1, e2⟩ := bind_ok.mp e
    obtain ⟨q1, hb⟩ := sameNode_sem e1
    by_cases hbt : b = true
    · simp only [hbt, if_true] at e2
      obtain ⟨rfl, rfl⟩ := pure_ok.mp e2
      have hyx : y = x := by rw [hb] at hbt; simpa using hbt
      subst hyx
      exact ⟨q1, by intro j h; cases h; exact ⟨[], rest, rfl, by simp, by simp⟩⟩
    · simp only [hbt] at e2
      have hyx : y ≠ x := by rw [hb] at hbt; simpa using hbt
      obtain ⟨q2, h2⟩ := positionSameNode_sem x rest (i + 1) s1 s' r e2
      refine ⟨q1.trans q2, ?_⟩
      intro j h
      obtain ⟨pre, post, hl, hj, hpre⟩ := h2 j h
      refine ⟨y :: pre, post, by rw [hl]; rfl, by simp only [List.length_cons]; omega, ?_⟩
      simp only [List.mem_cons, not_or]
      exact ⟨Ne.symm hyx, hpre⟩

/-- the `<li>/<dd>/<dt>` search over the reversed stack -/
theorem listCloseSearch_sem (list : Bool) : ∀ (l : List Id) (s s' : State) (r : Option Str),
    listCloseSearch list l s = .ok (r, s') →
      QS s s' ∧ ∀ name, r = some name → ∃ pre m post, l = pre ++ m :: post ∧ name = (nm s.dom m).loc ∧
        (if list then closeList (nm s.dom m) else closeDefn (nm s.dom m)) = true ∧
        ∀ x ∈ pre, extraSpecial (nm s.dom x) = false ∧
          (if list then closeList (nm s.dom x) else closeDefn (nm s.dom x)) = false
  | [], s, s', r, e => by
    unfold listCloseSearch at e
    obtain ⟨rfl, rfl⟩ := pure_ok.mp e
    exact ⟨QS.refl _, by intro n h; cases h⟩
  | y :: rest, s, s', r, e => by
    unfold listCloseSearch at e
    obtain ⟨n, s1, e1, e2⟩ := bind_ok.mp e
    obtain ⟨q1, hn, _⟩ := elemName_sem e1
    by_cases hc : (if list = true then closeList n else closeDefn n) = true
    · simp only [hc, if_true] at e2
      obtain ⟨rfl, rfl⟩ := pure_ok.mp e2
      refine ⟨q1, ?_⟩
      intro name h
      cases h
      exact ⟨[], y, rest, rfl, by rw [hn], by rw [← hn]; exact hc, by intro x hx; cases hx⟩
    · simp only [hc] at e2
      by_cases hx : extraSpecial n = true
      · simp only [hx, if_true] at e2
        obtain ⟨rfl, rfl⟩ := pure_ok.mp e2
        exact ⟨q1, by intro n h; cases h⟩
      · simp only [hx] at e2
        obtain ⟨q2, h2⟩ := listCloseSearch_sem list rest s1 s' r e2
        refine ⟨q1.trans q2, ?_⟩
        intro name h
        obtain ⟨pre, m, post, hl, hname, hcl, hpre⟩ := h2 name h
        refine ⟨y :: pre, m, post, by rw [hl]; rfl, by rw [hname, q1.nm], by rw [← q1.nm]; exact hcl, ?_⟩
        intro z hz
        simp only [List.mem_cons] at hz
        rcases hz with rfl | hz
        · rw [← hn]; exact ⟨by simpa using hx, by simpa using hc⟩
        · rw [← q1.nm]; exact hpre z hz

theorem bodyElem_sem {s s' : State} {r : Option Id} (e : bodyElem s = .ok (r, s')) :
    QS s s' ∧ ∀ b, r = some b → s.openElems[1]? = some b ∧ isHS (nm s.dom b) "body".toList = true := by
  unfold bodyElem at e
  rw [getS_bind] at e
  by_cases hlen : s.openElems.length ≤ 1
  · simp only [hlen, if_true] at e
    obtain ⟨rfl, rfl⟩ := pure_ok.mp e
    exact ⟨QS.refl _, by intro b h; cases h⟩
  · simp only [hlen, if_false] at e
    cases h1 : s.openElems[1]? with
    | none =>
      simp only [h1] at e
      obtain ⟨rfl, rfl⟩ := pure_ok.mp e
      exact ⟨QS.refl _, by intro b h; cases h⟩
    | some node =>
      simp only [h1] at e
      obtain ⟨b, s1, e1, e2⟩ := bind_ok.mp e
      obtain ⟨q1, hb, _⟩ := htmlElemNamed_sem e1
      by_cases hbt : b = true
      · simp only [hbt, if_true] at e2
        obtain ⟨rfl, rfl⟩ := pure_ok.mp e2
        exact ⟨q1, by intro b' h; cases h; exact ⟨rfl, by unfold isHS; rw [← hb]; exact hbt⟩⟩
      · simp only [hbt] at e2
        obtain ⟨rfl, rfl⟩ := pure_ok.mp e2
        exact ⟨q1, by intro b h; cases h⟩

end H5V.Props.C06
