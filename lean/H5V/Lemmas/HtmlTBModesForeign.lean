import H5V.Lemmas.HtmlTBModesPrimIns2
import H5V.Lemmas.HtmlTBModesPrimPop
/-!
The rules for parsing tokens in foreign content: the model's `stepForeign` against
`Spec.TreeModes.foreign`.
-/
namespace H5V.Lemmas.HtmlTBModes
open H5V.Model.HtmlTB
open H5V.Model.Dom (Id SinkOp Output Dom QualName Attr NodeOrText ElementFlags NodeData QuirksMode)
open H5V.Lemmas.HtmlTBAlgo
open H5V.Lemmas.HtmlTBSpec (toName)
open H5V.Lemmas.TBSafe (TI HInv SInv Rooted ForeignTop textTok)
open H5V.Spec.TreeAlgo2 (Elem Entry PState Ctx Edit Place)
open H5V.Spec.TreeModes (STok ETok IMode Config Out TokSwitch XOp Op Step Edition ForeignEnd)

/-! ### small facts -/

theorem isWs_eqF (c : Char) : Spec.TreeModes.isWs c = isAsciiWhitespace c := by
  simp only [Spec.TreeModes.isWs, isAsciiWhitespace]
  simp only [Bool.or_assoc]
  cases h1 : c == ' ' <;> cases h2 : c == '\t' <;> cases h3 : c == '\n' <;> cases h4 : c == '\x0c' <;>
    cases h5 : c == '\r' <;> simp_all

theorem insertChar_errF (σ : SState) (w : String) (c : Char) :
    Spec.TreeModes.insertChar (σ.err w) c = (fun σ' : SState => σ'.err w) <$> Spec.TreeModes.insertChar σ c := by
  simp only [Spec.TreeModes.insertChar, Spec.TreeModes.State.err]
  cases Spec.TreeAlgo2.insertCharacters σ.p [c] <;> rfl

/-! ### transports -/

theorem pcF_with_run {α : Type} {m : M α} {s : State} {Q : α → State → List Call → Prop} (h : PC m s Q) :
    PC m s (fun a s' c => Q a s' c ∧ m.run s = .ok (a, s')) := by
  intro a s' hr
  obtain ⟨c, he, hq⟩ := h a s' hr
  exact ⟨c, he, hq, hr⟩

theorem qfF_of_same {s s' : State} {c : List Call} (hs : SameTB s s') (he : Ext2 s c s') : TBSafe.QF s s' :=
  ⟨s'.dom, s'.traceRev, hs, he.ext⟩

/-- a rule run after a stretch -/
theorem TokPost.after_trF {spec spec2 : SState → Spec.TreeModes.M (Step Id)} {s s1 s' : State} {tok : Token}
    {res : ProcessResult} {c1 c2 : List Call} {R : Aux → Aux → Prop} (htr : Tr s s1 c1 R)
    (he2 : TBSafe.Ext s1.dom s'.dom) (h : TokPost spec2 s1 tok res s' c2)
    (hspec : ∀ x x1, AuxOk s x → AuxOk s1 x1 → R x x1 → spec (absF s x) = spec2 (absF s1 x1)) :
    TokPost spec s tok res s' (c1 ++ c2) := by
  obtain ⟨hm1, hc1, he1, ids1, hfi1, f1⟩ := htr
  obtain ⟨hres, hminv, hcfg, ids2, hfi2, f2⟩ := h
  refine ⟨hres, hminv, hcfg.trans hc1, ids1 ++ ids2, hfi1.append (hfi2.of_dom he1), fun x rest hx hsup => ?_⟩
  obtain ⟨x1, l1, r1⟩ := f1 x (ids2 ++ rest) hx (by rw [hsup, List.append_assoc])
  obtain ⟨x', ops, e, p1, p2, p3, p4, p5, p6, p7⟩ := f2 x1 rest l1.aux l1.supply
  obtain ⟨ops1, e1, k1⟩ := l1.log
  refine ⟨x', ops1 ++ ops, (hspec x x1 hx l1.aux r1).trans e, p1, p2, p3, outRel_congr l1.switch l1.script p4,
    p5.trans l1.outs, ?_, ?_⟩
  · rw [p6, e1, List.append_assoc]
  · intro tc htc
    rw [edits2_append, flatCalls_append, List.map_append, flatCalls_append, k1 tc (tcOk_of_ext htc he2), p7 tc htc]

/-- the specification reports parse errors before the rule: they go into the initial `Aux` -/
theorem TokPost.pre_errF {spec spec' : SState → Spec.TreeModes.M (Step Id)} {s s' : State} {tok : Token}
    {res : ProcessResult} {calls : List Call} (h : TokPost spec s tok res s' calls) (E : Aux → List String)
    (he : ∀ x, AuxOk s x → ∀ x', spec (absF s { x with errors := E x }) = .ok (stepOf res s' x') →
      spec' (absF s x) = .ok (stepOf res s' x')) :
    TokPost spec' s tok res s' calls := by
  obtain ⟨h1, h2, h3, ids, hfi, f⟩ := h
  refine ⟨h1, h2, h3, ids, hfi, fun x rest hx hs => ?_⟩
  obtain ⟨x', ops, e, r1, r2, r3, r4, r5, r6, r7⟩ :=
    f { x with errors := E x } rest ⟨hx.live, hx.annot, hx.annotEl, hx.xlog⟩ hs
  exact ⟨x', ops, he x hx x' e, r1, r2, r3, r4, r5, r6, r7⟩

/-! ### the loop of `unexpected_start_tag_in_foreign_content` -/

/-- the integration-point flag of the sink is set for MathML `annotation-xml` elements only (the tree
builder creates every element of the stack with `flagsFor`) -/
def IpNamed (s : State) : Prop :=
  ∀ h ∈ s.openElems, (nameOf s.dom h).ns ≠ nsHtml → ipOfDom s.dom h = true → nameOf s.dom h = annotName

/-- the value of the test for the current node `h` -/
def ipStopV (d : Dom) (h : Id) : Bool :=
  ((nameOf d h).ns == nsHtml || mathmlTextIntegrationPoint (nameOf d h) || svgHtmlIntegrationPoint (nameOf d h))
    || ipOfDom d h

theorem ipF_of_isElement {d : Dom} {h : Id} (he : d.isElement h = true) :
    d.isMathmlAnnotationXmlIntegrationPoint h = .ok (ipOfDom d h) := by
  obtain ⟨nd, hn⟩ := H5V.Lemmas.Dom.node?_of_lt (isElement_lt he)
  unfold Dom.isElement at he; rw [H5V.Lemmas.Dom.dataOf_of_node hn] at he
  unfold Dom.isMathmlAnnotationXmlIntegrationPoint ipOfDom
  rw [H5V.Lemmas.Dom.dataOf_of_node hn]
  simp only [bind, Except.bind, H5V.Lemmas.Dom.get_ok_of hn]
  cases hd : nd.data <;> simp [hd] at he ⊢

theorem pc_isMathmlIP {s : State} {h : Id} (hel : s.dom.isElement h = true) :
    PC (sinkBool (.isMathmlAnnotationXmlIntegrationPoint h)) s (QueryQ s (ipOfDom s.dom h)) := by
  unfold sinkBool
  refine pc_bind (pc_sink ?_)
  intro d' out ha
  have h1 : s.dom.apply (.isMathmlAnnotationXmlIntegrationPoint h) = .ok (s.dom, .bool (ipOfDom s.dom h)) := by
    simp [Dom.apply, Dom.applyV, ipF_of_isElement hel, bind, Except.bind]
  rw [h1] at ha
  cases ha
  exact pc_pure ⟨rfl, SameTB.afterCall .., rfl⟩

theorem dropWhile_congrF {α : Type} {p q : α → Bool} : ∀ {l : List α}, (∀ a ∈ l, p a = q a) → l.dropWhile p = l.dropWhile q
  | [], _ => rfl
  | a :: l, h => by
    simp only [List.dropWhile_cons, h a (by simp)]
    rw [dropWhile_congrF (fun b hb => h b (by simp [hb]))]

theorem mem_takeWhileF {α : Type} {p : α → Bool} : ∀ {l : List α} {a : α}, a ∈ l.takeWhile p → p a = true
  | [], _, h => by cases h
  | b :: l, a, h => by
    by_cases hb : p b = true
    · rw [List.takeWhile_cons, if_pos hb] at h
      rcases List.mem_cons.mp h with rfl | h
      · exact hb
      · exact mem_takeWhileF h
    · rw [List.takeWhile_cons, if_neg hb] at h; cases h

theorem ipStopV_ext {d d' : Dom} (he : TBSafe.Ext d d') {h : Id} (hi : d.isElement h = true) :
    ipStopV d' h = ipStopV d h := by
  unfold ipStopV
  rw [nameOf_ext he hi, ipOfDom_ext he hi]

/-- the `while` loop pops down to the last element for which the test holds -/
theorem pc_popToIP : ∀ (fuel : Nat) (s : State), MInv s → PC (popToIntegrationPointLoop fuel) s (fun _ s' calls =>
    StackOnly s s' ∧ edits calls = [] ∧
      s'.openElems = (s.openElems.reverse.dropWhile (fun h => !ipStopV s.dom h)).reverse) := by
  intro fuel
  induction fuel with
  | zero => intro s _; unfold popToIntegrationPointLoop; exact pc_fuelOut
  | succ fuel ih =>
    intro s hm
    unfold popToIntegrationPointLoop
    cases hl : s.openElems.getLast? with
    | none => unfold currentNodeIn; exact pc_bind (pc_bind (pc_currentNode_empty hl))
    | some h0 =>
      obtain ⟨l, hl'⟩ : ∃ l', s.openElems = l' ++ [h0] := List.getLast?_eq_some_iff.mp hl
      have hrev : s.openElems.reverse = h0 :: l.reverse := by rw [hl']; simp
      have hel0 : s.dom.isElement h0 = true := hm.elems h0 (List.mem_of_getLast? hl)
      refine pc_query_bind (PC.of_tot (pop_tot_currentNodeIn hl _)) ?_
      intro s1 c1 he1 hs1 hc1
      have hl1 : s1.openElems.getLast? = some h0 := by rw [hs1.openElems]; exact hl
      have hm1 : MInv s1 := hm.sameTB hs1 he1.ext
      -- the continuation
      have hjp : ∀ (stop : Bool) (s2 : State) (c2 : List Call), stop = ipStopV s.dom h0 → SameTB s s2 → Ext2 s c2 s2 →
          edits c2 = [] →
          PC (if stop = true then pure () else do let _ ← pop; popToIntegrationPointLoop fuel) s2 (fun _ s' c3 =>
            StackOnly s s' ∧ edits (c2 ++ c3) = [] ∧
              s'.openElems = (s.openElems.reverse.dropWhile (fun h => !ipStopV s.dom h)).reverse) := by
        intro stop s2 c2 hstop hs2 he2 hc2
        by_cases hv : stop = true
        · rw [if_pos hv]
          refine pc_pure ⟨StackOnly.of_sameTB hs2, by simpa using hc2, ?_⟩
          rw [hs2.openElems, hrev, List.dropWhile_cons]
          rw [← hstop, hv]
          simp [hl']
        · rw [if_neg hv]
          have hl2 : s2.openElems.getLast? = some h0 := by rw [hs2.openElems]; exact hl
          have hm2 : MInv s2 := hm.sameTB hs2 he2.ext
          refine pc_seq (PC.of_tot (pop_tot_pop hl2)) ?_
          rintro _ s3 c3 he3 ⟨-, hso3, ho3, hc3⟩
          have ho3' : s3.openElems = l := by rw [ho3, hs2.openElems, hl']; simp
          have hex3 := he2.ext.trans he3.ext
          have hm3 : MInv s3 := by
            refine hm2.of_shrink (SameButSL.of_stackOnly hso3) he3.ext ?_ ?_ ?_
            · intro h hh; rw [ho3] at hh; exact (List.dropLast_prefix _).subset hh
            · intro a ha; exact head?_of_prefix (ho3 ▸ List.dropLast_prefix _) a ha
            · intro e he; rw [hso3.activeFormatting] at he; exact he
          refine pc_conseq (ih s3 hm3) ?_
          rintro _ s4 c4 he4 ⟨hso4, hc4, ho4⟩
          refine ⟨((StackOnly.of_sameTB hs2).trans hso3).trans hso4, by simp [edits_append, hc2, hc3, hc4], ?_⟩
          rw [ho4, ho3', hrev, List.dropWhile_cons]
          have : (!ipStopV s.dom h0) = true := by rw [← hstop]; simpa using hv
          rw [if_pos this]
          congr 1
          apply dropWhile_congrF
          intro a ha
          have hal : a ∈ s.openElems := by rw [hl']; simp at ha; simp [ha]
          rw [ipStopV_ext hex3 (hm.elems a hal)]
      by_cases hv : ((nameOf s.dom h0).ns == nsHtml || mathmlTextIntegrationPoint (nameOf s.dom h0) ||
          svgHtmlIntegrationPoint (nameOf s.dom h0)) = true
      · simp only [hv, if_true]
        refine pc_bind (pc_pure ?_)
        refine pc_conseq (hjp true s1 c1 (by unfold ipStopV; rw [hv]; rfl) hs1 he1 hc1) ?_
        rintro _ s' c3 _ h; simpa using h
      · simp only [hv, Bool.false_eq_true, if_false]
        refine pc_query_bind (PC.of_tot (pop_tot_currentNode hl1)) ?_
        intro s2 c2 he2 hs2 hc2
        have hel2 : s2.dom.isElement h0 = true := isElement_ext (he1.ext.trans he2.ext) hel0
        refine pc_query_bind (pc_isMathmlIP hel2) ?_
        intro s3 c3 he3 hs3 hc3
        have hval : ipOfDom s2.dom h0 = ipStopV s.dom h0 := by
          unfold ipStopV
          rw [ipOfDom_ext (he1.ext.trans he2.ext) hel0]
          have : ((nameOf s.dom h0).ns == nsHtml || mathmlTextIntegrationPoint (nameOf s.dom h0) ||
            svgHtmlIntegrationPoint (nameOf s.dom h0)) = false := by simpa using hv
          rw [this, Bool.false_or]
        refine pc_conseq (hjp _ s3 (c1 ++ (c2 ++ c3)) hval ((hs1.trans hs2).trans hs3) (he1.trans (he2.trans he3))
          (by simp [edits_append, hc1, hc2, hc3])) ?_
        rintro _ s' c4 _ ⟨h1, h2, h3⟩
        exact ⟨h1, by simpa [List.append_assoc] using h2, h3⟩

/-! ### "pop elements until the current node is an integration point or an HTML element" -/

/-- the state after the pops of `foreignBreakOut` -/
def brkF (σ : SState) : SState :=
  σ.setStack (σ.p.stack.reverse.dropWhile fun e => !Spec.TreeModes.stopsBreakOut σ e).reverse

theorem foreignBreakOut_eqF (σ : SState) :
    Spec.TreeModes.foreignBreakOut σ = .reprocessHtml (brkF (σ.err "foreign content: HTML tag breaks out")) := rfl

theorem brkF_err (σ : SState) (w : String) : brkF (σ.err w) = (brkF σ).err w := rfl

/-- the model's test is the specification's -/
theorem stops_eqF {s : State} {x : Aux} (hx : AuxOk s x) (hip : IpNamed s) {h : Id} (hh : h ∈ s.openElems) :
    Spec.TreeModes.stopsBreakOut (absF s x) (elemOf s.dom h) = ipStopV s.dom h := by
  have e1 : Spec.TreeModes.stopsBreakOut (absF s x) (elemOf s.dom h)
      = (mathmlTextIntegrationPoint (nameOf s.dom h) ||
          (((nameOf s.dom h).ns == nsMathml && (nameOf s.dom h).loc == "annotation-xml".toList && x.annot.contains h) ||
            svgHtmlIntegrationPoint (nameOf s.dom h)) || (nameOf s.dom h).ns == nsHtml) := rfl
  rw [e1]
  unfold ipStopV
  by_cases hn : nameOf s.dom h = annotName
  · rw [hx.annot h hh hn, hn]
    cases ipOfDom s.dom h <;> decide
  · have hname : ((nameOf s.dom h).ns == nsMathml && (nameOf s.dom h).loc == "annotation-xml".toList) = false := by
      cases h1 : (nameOf s.dom h).ns == nsMathml
      · rfl
      · cases h2 : (nameOf s.dom h).loc == "annotation-xml".toList
        · rfl
        · exfalso; apply hn
          rw [beq_iff_eq] at h1 h2
          cases hnm : nameOf s.dom h with
          | mk ns loc => rw [hnm] at h1 h2; simp only at h1 h2; subst h1 h2; rfl
    rw [hname, Bool.false_and, Bool.false_or]
    cases hhtml : (nameOf s.dom h).ns == nsHtml
    · have hns : (nameOf s.dom h).ns ≠ nsHtml := by
        intro e; rw [e] at hhtml; simp at hhtml
      have hipf : ipOfDom s.dom h = false := by
        cases hb : ipOfDom s.dom h
        · rfl
        · exact absurd (hip h hh hns hb) hn
      rw [hipf]
      cases mathmlTextIntegrationPoint (nameOf s.dom h) <;> cases svgHtmlIntegrationPoint (nameOf s.dom h) <;> rfl
    · cases mathmlTextIntegrationPoint (nameOf s.dom h) <;> cases svgHtmlIntegrationPoint (nameOf s.dom h) <;> rfl

theorem brkF_stack {s : State} {x : Aux} (hx : AuxOk s x) (hip : IpNamed s) :
    (brkF (absF s x)).p.stack
      = absStack s.dom (s.openElems.reverse.dropWhile (fun h => !ipStopV s.dom h)).reverse := by
  show ((absF s x).p.stack.reverse.dropWhile fun e => !Spec.TreeModes.stopsBreakOut (absF s x) e).reverse = _
  rw [absF_stack hx]
  unfold absStack
  rw [← List.map_reverse, List.dropWhile_map, List.map_reverse]
  congr 2
  apply dropWhile_congrF
  intro a ha
  simp only [Function.comp]
  rw [stops_eqF hx hip (by simpa using ha)]

/-- the stretch of the `while` loop -/
theorem tr_popToIP {s s' : State} {calls : List Call} (hm : MInv s) (hip : IpNamed s) (he : Ext2 s calls s')
    (hso : StackOnly s s') (hc : edits calls = [])
    (ho : s'.openElems = (s.openElems.reverse.dropWhile (fun h => !ipStopV s.dom h)).reverse) :
    Tr s s' calls (fun x x' => x' = x ∧ absF s' x = brkF (absF s x)) := by
  refine (Tr.of_prefix hm hso (ho ▸ pop_prefix_dropWhile _ _) he hc).conseq ?_
  rintro x x' hx _ ⟨rfl, e⟩
  refine ⟨rfl, ?_⟩
  rw [e, ho, ← brkF_stack hx hip]
  rfl

theorem IpNamed.of_same {s s' : State} (h : IpNamed s) (hm : MInv s) (hs : SameTB s s') (he : TBSafe.Ext s.dom s'.dom) :
    IpNamed s' := by
  intro a ha
  rw [hs.openElems] at ha
  rw [nameOf_ext he (hm.elems a ha), ipOfDom_ext he (hm.elems a ha)]
  exact h a ha

theorem pc_unexpectedQ (s : State) :
    PC unexpected s (fun r s' calls => r = .done ∧ SameTB s s' ∧ edits calls = []) := by
  unfold unexpected
  refine pc_seq (PC.of_tot (tot_parseError s _)) ?_
  rintro _ s1 c1 he ⟨-, hs, hc⟩
  exact pc_pure ⟨rfl, hs, by simpa using hc⟩

theorem bodyLike_preRoot {m : Mode} (hbl : TBSafe.bodyLike m = true) : TBSafe.preRoot m = false := by
  cases m <;> simp [TBSafe.bodyLike, TBSafe.preRoot] at hbl ⊢

/-- the invariant of C04 after the stack was cut down to a prefix that keeps every HTML element -/
theorem ti_of_cut {s s' : State} (ht : TI s) (hbl : TBSafe.bodyLike s.mode = true) (hso : StackOnly s s')
    (he : TBSafe.Ext s.dom s'.dom) {post : List Id} (heq : s.openElems = s'.openElems ++ post)
    (hne : s'.openElems ≠ []) (hpost : ∀ y ∈ post, (nameOf s.dom y).ns ≠ nsHtml) : TI s' := by
  have hfr : TBSafe.Fr s s' := by
    unfold StackOnly at hso
    refine ⟨?_, ?_, ?_, ?_, ?_, ?_, ?_, ?_, ?_, he⟩ <;> rw [hso]
  have st : TBSafe.St s s' s'.openElems := ⟨hfr, rfl, hso.activeFormatting⟩
  have hr := ht.rooted (bodyLike_preRoot hbl)
  have hb : TBSafe.BStep s s' := TBSafe.BStep.of_st ht.h hr heq hne st
  have hk : TBSafe.Keeps (fun n => n.ns == nsHtml) s s' :=
    TBSafe.Keeps.of_pops heq rfl (fun y hy => by
      have := hpost y hy
      rw [nm_eq_nameOf]
      simpa using this)
  exact ⟨hb.hinv, by rw [hb.mode]; exact ht.s.of_bstep ht.h hb hbl (TBSafe.Keeps.of_html hk)⟩

theorem ipStopV_html {d : Dom} {h : Id} (hn : (nameOf d h).ns = nsHtml) : ipStopV d h = true := by
  unfold ipStopV; rw [hn]; rfl

theorem ipStopV_false {d : Dom} {h : Id} (hv : ipStopV d h = false) : (nameOf d h).ns ≠ nsHtml := by
  intro hn; rw [ipStopV_html hn] at hv; cases hv

/-- **the break-out start tags, `</br>`, `</p>`**: parse error, pop down to an integration point or an
HTML element, process the token by the rules of the insertion mode -/
theorem pc_breakOut (hall : ∀ m, ModeSim m) {t : Tag} (hwf : TagWf t) {s : State} (ht : TI s) (hm : MInv s)
    (hbl : TBSafe.bodyLike s.mode = true) (hip : IpNamed s) :
    PC (unexpectedStartTagInForeignContent t) s (TokPost (fun σ =>
      byModeDev (cfgOf s) (brkF (σ.err "foreign content: HTML tag breaks out")) (stokOf (.tag t))) s (.tag t)) := by
  unfold unexpectedStartTagInForeignContent
  refine pc_seq (pc_unexpectedQ s) ?_
  rintro _ s1 c1 he1 ⟨-, hs1, hc1⟩
  have ht1 : TI s1 := ht.of_qf (qfF_of_same hs1 he1)
  have hm1 : MInv s1 := hm.sameTB hs1 he1.ext
  have hbl1 : TBSafe.bodyLike s1.mode = true := by rw [hs1.fields.mode]; exact hbl
  have hip1 : IpNamed s1 := hip.of_same hm hs1 he1.ext
  refine pc_getS_bind ?_
  refine pc_seq (pc_popToIP _ s1 hm1) ?_
  rintro _ s2 c2 he2 ⟨hso2, hc2, ho2⟩
  -- the invariant after the pops
  have hsplit : s1.openElems = s2.openElems ++ (s1.openElems.reverse.takeWhile (fun h => !ipStopV s1.dom h)).reverse := by
    rw [ho2, ← List.reverse_append, List.takeWhile_append_dropWhile, List.reverse_reverse]
  have hpost : ∀ y ∈ (s1.openElems.reverse.takeWhile (fun h => !ipStopV s1.dom h)).reverse, (nameOf s1.dom y).ns ≠ nsHtml := by
    intro y hy
    have := mem_takeWhileF (List.mem_reverse.mp hy)
    exact ipStopV_false (by simpa using this)
  have hne2 : s2.openElems ≠ [] := by
    intro hnil
    obtain ⟨r, rest, hl, hn⟩ := ht1.rooted (bodyLike_preRoot hbl1)
    have hr : r ∈ (s1.openElems.reverse.takeWhile (fun h => !ipStopV s1.dom h)).reverse := by
      have : r ∈ s1.openElems := by rw [hl]; simp
      rw [hsplit, hnil] at this
      simpa using this
    refine hpost r hr ?_
    rw [← nm_eq_nameOf, hn]; rfl
  have ht2 : TI s2 := ti_of_cut ht1 hbl1 hso2 he2.ext hsplit hne2 hpost
  have hmode2 : s2.mode = s1.mode := (SameButSL.of_stackOnly hso2).mode
  refine pc_getS_bind ?_
  have hm2 : MInv s2 := (tr_popToIP hm1 hip1 he2 hso2 hc2 ho2).1
  have hstep := hall s2.mode (.tag t) rfl hwf s2 ht2 hm2 rfl
    (fun h => absurd h (TBSafe.bodyLike_ne_text (by rw [hmode2]; exact hbl1)))
  refine pc_conseq hstep ?_
  intro res s' c3 he3 hpost3
  have htr : Tr s s2 (c1 ++ c2) (fun x x2 => x2 = { x with errors := x.errors ++ ["foreign content: HTML tag breaks out"] } ∧
      absF s2 x2 = brkF ((absF s x).err "foreign content: HTML tag breaks out")) := by
    have h1 := Tr.of_same hm hs1 he1 (by rw [← edits2_edits, hc1]; rfl)
    have h2 := tr_popToIP hm1 hip1 he2 hso2 hc2 ho2
    refine (h1.trans h2).reaux (fun x x2 => { x2 with errors := x.errors ++ ["foreign content: HTML tag breaks out"] })
      (fun _ _ => ⟨⟨rfl, rfl, rfl, rfl, rfl⟩, rfl, rfl, rfl⟩) ?_
    rintro x x2 hx hx2 ⟨x1, ⟨e1, r1⟩, e2, r2⟩
    subst e1; subst e2
    refine ⟨rfl, ?_⟩
    rw [absF_errors, r2, ← r1]
    rfl
  rw [← List.append_assoc]
  refine TokPost.after_trF htr he3.ext hpost3 ?_
  rintro x x2 hx hx2 ⟨-, r⟩
  rw [r, htr.2.1]

/-! ### "any other end tag" -/

/-- html5ever's walk down the stack; `l`: the entries still to visit, the entry under inspection first;
`first`: it is the current node -/
def endWalkF (name : Str) : List (Elem Id) → Nat → Bool → ForeignEnd
  | [], _, _ => .ret
  | [node], _, first => if !first && node.name.ns == nsHtml then .html else .ret
  | node :: prev :: rest, k, first =>
    if !first && node.name.ns == nsHtml then .html
    else if node.name.loc.map Spec.TreeAlgo.lower == name then .popThrough k
    else endWalkF name (prev :: rest) (k + 1) false

/-- what the model's loop does for an outcome of the walk -/
def EndPost (t : Tag) (s : State) : ForeignEnd → ProcessResult → State → List Call → Prop
  | .ret, res, s', calls => res = .done ∧ SameTB s s' ∧ edits calls = []
  | .popThrough k, res, s', calls => res = .done ∧ StackOnly s s' ∧ edits calls = [] ∧
      s'.openElems = s.openElems.take (s.openElems.length - (k + 1))
  | .html, res, s', calls => TokPost (fun σ => Spec.TreeModes.byMode (cfgOf s) σ (.endTag (specTag t))) s (.tag t) res s' calls

theorem EndPost.after_query {t : Tag} {s s1 s' : State} {r : ForeignEnd} {res : ProcessResult} {c1 c2 : List Call}
    (hm : MInv s) (hs : SameTB s s1) (he : Ext2 s c1 s1) (hc : edits c1 = []) (he2 : TBSafe.Ext s1.dom s'.dom)
    (h : EndPost t s1 r res s' c2) : EndPost t s r res s' (c1 ++ c2) := by
  cases r with
  | ret =>
    obtain ⟨h1, h2, h3⟩ := h
    exact ⟨h1, hs.trans h2, by simp [edits_append, hc, h3]⟩
  | popThrough k =>
    obtain ⟨h1, h2, h3, h4⟩ := h
    refine ⟨h1, (StackOnly.of_sameTB hs).trans h2, by simp [edits_append, hc, h3], ?_⟩
    rw [h4, hs.openElems]
  | html =>
    have htr := Tr.of_same hm hs he (by rw [← edits2_edits, hc]; rfl)
    have h' : TokPost (fun σ => Spec.TreeModes.byMode (cfgOf s1) σ (.endTag (specTag t))) s1 (.tag t) res s' c2 := h
    show TokPost (fun σ => Spec.TreeModes.byMode (cfgOf s) σ (.endTag (specTag t))) s (.tag t) res s' (c1 ++ c2)
    refine TokPost.after_trF htr he2 h' ?_
    rintro x x1 hx hx1 ⟨e1, r1⟩
    subst e1
    rw [r1, htr.2.1]

theorem eqIgnore_lowerF {a b : Str} (hb : ∀ c ∈ b, ¬ ('A' ≤ c ∧ c ≤ 'Z')) :
    eqIgnoreAsciiCase a b = (a.map Spec.TreeAlgo.lower == b) := by
  unfold eqIgnoreAsciiCase
  have : b.map asciiLower = b := by
    rw [List.map_congr_left (g := id)]
    · simp
    · intro c hc; unfold asciiLower; rw [if_neg (hb c hc)]; rfl
  rw [this]
  rfl

theorem take_succ_reverseF {α : Type} (l : List α) (n : Nat) (h : n < l.length) :
    (l.take (n + 1)).reverse = l[n] :: (l.take n).reverse := by
  rw [List.take_add_one, List.getElem?_eq_getElem h]
  simp

theorem byModeDev_endF (cfg : Config Id) (σ : SState) (t : STag) :
    byModeDev cfg σ (.endTag t) = Spec.TreeModes.byMode cfg σ (.endTag t) :=
  byModeDev_eq cfg σ _ (by simp [isStartTag])

/-- **the loop of "any other end tag"** -/
theorem pc_foreignEndTagLoop (hall : ∀ m, ModeSim m) {t : Tag} (hwf : TagWf t) (hk : t.kind = .endTag) :
    ∀ (n : Nat) (first : Bool) (s : State), TI s → MInv s → TBSafe.bodyLike s.mode = true → n < s.openElems.length →
      PC (foreignEndTagLoop t n first) s (EndPost t s
        (endWalkF t.name ((absStack s.dom s.openElems).take (n + 1)).reverse (s.openElems.length - 1 - n) first)) := by
  intro n
  induction n with
  | zero =>
    intro first s ht hm hbl hlt
    have hlen : (absStack s.dom s.openElems).length = s.openElems.length := by simp [absStack]
    have hget : s.openElems[0]? = some s.openElems[0] := List.getElem?_eq_getElem hlt
    have hshape : ((absStack s.dom s.openElems).take (0 + 1)).reverse = [elemOf s.dom s.openElems[0]] := by
      rw [take_succ_reverseF _ _ (by rw [hlen]; exact hlt)]
      simp [absStack]
    rw [hshape]
    unfold foreignEndTagLoop
    refine pc_getS_bind ?_
    rw [hget]
    dsimp only
    refine pc_bind (pc_pure ?_)
    refine pc_query_bind (PC.of_tot (tot_elemName' s _)) ?_
    intro s1 c1 he1 hs1 hc1
    have ht1 : TI s1 := ht.of_qf (qfF_of_same hs1 he1)
    have hm1 : MInv s1 := hm.sameTB hs1 he1.ext
    have hbl1 : TBSafe.bodyLike s1.mode = true := by rw [hs1.fields.mode]; exact hbl
    simp only [List.nil_append]
    have hnode : (elemOf s.dom s.openElems[0]).name = toName (nameOf s.dom s.openElems[0]) := rfl
    have hns : (toName (nameOf s.dom s.openElems[0])).ns = (nameOf s.dom s.openElems[0]).ns := rfl
    by_cases h1 : (!first && (nameOf s.dom s.openElems[0]).ns == nsHtml) = true
    · rw [if_pos h1]
      have hw : endWalkF t.name [elemOf s.dom s.openElems[0]] (s.openElems.length - 1 - 0) first = .html := by
        unfold endWalkF
        rw [hnode, hns]
        exact if_pos h1
      rw [hw]
      refine pc_getS_bind ?_
      have hstep := hall s1.mode (.tag t) rfl hwf s1 ht1 hm1 rfl (fun h => absurd h (TBSafe.bodyLike_ne_text hbl1))
      refine pc_conseq hstep ?_
      intro res s' c2 he2 hpost
      refine EndPost.after_query (r := .html) hm hs1 he1 hc1 he2.ext ?_
      show TokPost (fun σ => Spec.TreeModes.byMode (cfgOf s1) σ (.endTag (specTag t))) s1 (.tag t) res s' c2
      refine tokPost_congr hpost ?_
      intro x hx
      simp only [stokOf, stokOfTag_end hk, byModeDev_endF]
    · rw [if_neg h1]
      have hw : endWalkF t.name [elemOf s.dom s.openElems[0]] (s.openElems.length - 1 - 0) first = .ret := by
        unfold endWalkF
        rw [hnode, hns]
        exact if_neg h1
      rw [hw]
      exact pc_pure ⟨rfl, hs1, by simpa using hc1⟩
  | succ n ih =>
    intro first s ht hm hbl hlt
    have hlen : (absStack s.dom s.openElems).length = s.openElems.length := by simp [absStack]
    have hget : s.openElems[n + 1]? = some s.openElems[n + 1] := List.getElem?_eq_getElem hlt
    have hmem : s.openElems[n + 1] ∈ s.openElems := List.getElem_mem hlt
    have hel := hm.elems _ hmem
    -- the shape of the list the walk looks at
    obtain ⟨prev, rest, hrest⟩ : ∃ prev rest, ((absStack s.dom s.openElems).take (n + 1)).reverse = prev :: rest := by
      cases hr : ((absStack s.dom s.openElems).take (n + 1)).reverse with
      | nil =>
        have := congrArg List.length hr
        rw [List.length_reverse, List.length_take, hlen] at this
        simp only [List.length_nil] at this
        omega
      | cons a r => exact ⟨a, r, rfl⟩
    have hshape : ((absStack s.dom s.openElems).take (n + 1 + 1)).reverse
        = elemOf s.dom s.openElems[n + 1] :: prev :: rest := by
      rw [take_succ_reverseF _ _ (by rw [hlen]; exact hlt), hrest]
      simp [absStack]
    rw [hshape]
    unfold foreignEndTagLoop
    refine pc_getS_bind ?_
    rw [hget]
    dsimp only
    refine pc_bind (pc_pure ?_)
    refine pc_query_bind (PC.of_tot (tot_elemName' s _)) ?_
    intro s1 c1 he1 hs1 hc1
    have ht1 : TI s1 := ht.of_qf (qfF_of_same hs1 he1)
    have hm1 : MInv s1 := hm.sameTB hs1 he1.ext
    have hbl1 : TBSafe.bodyLike s1.mode = true := by rw [hs1.fields.mode]; exact hbl
    simp only [List.nil_append]
    have hnode : (elemOf s.dom s.openElems[n + 1]).name = toName (nameOf s.dom s.openElems[n + 1]) := rfl
    have hns : (toName (nameOf s.dom s.openElems[n + 1])).ns = (nameOf s.dom s.openElems[n + 1]).ns := rfl
    have hloc : (toName (nameOf s.dom s.openElems[n + 1])).loc = (nameOf s.dom s.openElems[n + 1]).loc := rfl
    by_cases h1 : (!first && (nameOf s.dom s.openElems[n + 1]).ns == nsHtml) = true
    · rw [if_pos h1]
      have hw : endWalkF t.name (elemOf s.dom s.openElems[n + 1] :: prev :: rest) (s.openElems.length - 1 - (n + 1)) first
          = .html := by
        unfold endWalkF
        rw [hnode, hns]
        exact if_pos h1
      rw [hw]
      refine pc_getS_bind ?_
      have hstep := hall s1.mode (.tag t) rfl hwf s1 ht1 hm1 rfl (fun h => absurd h (TBSafe.bodyLike_ne_text hbl1))
      refine pc_conseq hstep ?_
      intro res s' c2 he2 hpost
      refine EndPost.after_query (r := .html) hm hs1 he1 hc1 he2.ext ?_
      show TokPost (fun σ => Spec.TreeModes.byMode (cfgOf s1) σ (.endTag (specTag t))) s1 (.tag t) res s' c2
      refine tokPost_congr hpost ?_
      intro x hx
      simp only [stokOf, stokOfTag_end hk, byModeDev_endF]
    rw [if_neg h1]
    by_cases h2 : eqIgnoreAsciiCase (nameOf s.dom s.openElems[n + 1]).loc t.name = true
    · rw [if_pos h2]
      have hw : endWalkF t.name (elemOf s.dom s.openElems[n + 1] :: prev :: rest) (s.openElems.length - 1 - (n + 1)) first
          = .popThrough (s.openElems.length - 1 - (n + 1)) := by
        unfold endWalkF
        rw [hnode, hns, hloc, if_neg h1]
        rw [eqIgnore_lowerF hwf.lower] at h2
        exact if_pos h2
      rw [hw]
      refine pc_seq (pc_modS (Q := fun _ s2 c2 => s2 = { s1 with openElems := s1.openElems.take (n + 1) } ∧ c2 = []) rfl rfl ⟨rfl, rfl⟩) ?_
      rintro _ s2 c2 he2 ⟨rfl, rfl⟩
      refine pc_pure ⟨rfl, ?_, by simpa using hc1, ?_⟩
      · exact (StackOnly.of_sameTB hs1).trans rfl
      · show s1.openElems.take (n + 1) = _
        rw [hs1.openElems]
        congr 1
        omega
    rw [if_neg h2]
    have hw : endWalkF t.name (elemOf s.dom s.openElems[n + 1] :: prev :: rest) (s.openElems.length - 1 - (n + 1)) first
        = endWalkF t.name (prev :: rest) (s.openElems.length - 1 - n) false := by
      conv => lhs; unfold endWalkF
      rw [hnode, hns, hloc, if_neg h1]
      rw [eqIgnore_lowerF hwf.lower] at h2
      rw [if_neg h2]
      congr 1
      omega
    rw [hw, ← hrest]
    have hcont : ∀ s2 c2, SameTB s s2 → Ext2 s c2 s2 → edits c2 = [] →
        PC (foreignEndTagLoop t n false) s2 (fun res s' c3 => EndPost t s
          (endWalkF t.name ((absStack s.dom s.openElems).take (n + 1)).reverse (s.openElems.length - 1 - n) false)
          res s' (c2 ++ c3)) := by
      intro s2 c2 hs2 he2 hc2
      have ht2 : TI s2 := ht.of_qf (qfF_of_same hs2 he2)
      have := ih false s2 ht2 (hm.sameTB hs2 he2.ext) (by rw [hs2.fields.mode]; exact hbl) (by rw [hs2.openElems]; omega)
      rw [hs2.openElems, absStack_ext hm.elems he2.ext] at this
      refine pc_conseq this ?_
      intro res s' c3 he3 hp
      exact EndPost.after_query hm hs2 he2 hc2 he3.ext hp
    cases first with
    | true =>
      simp only [if_true]
      refine pc_seq (pc_unexpectedQ s1) ?_
      rintro _ s2 c2 he2 ⟨-, hs2, hc2⟩
      refine pc_conseq (hcont s2 (c1 ++ c2) (hs1.trans hs2) (he1.trans he2) (by simp [edits_append, hc1, hc2])) ?_
      intro res s' c3 _ hp
      rw [← List.append_assoc]; exact hp
    | false =>
      simp only [Bool.false_eq_true, if_false]
      exact hcont s1 c1 hs1 he1 hc1

/-! ### the walk and the standard's loop -/

theorem endWalkF_spec (name : Str) : ∀ (tl : List (Elem Id)) (node : Elem Id) (k : Nat) (first : Bool),
    endWalkF name (node :: tl) k first
      = if (!first && node.name.ns == nsHtml) = true then .html
        else Spec.TreeModes.foreignEndLoop name (node :: tl) k := by
  intro tl
  induction tl with
  | nil => intro node k first; simp only [endWalkF, Spec.TreeModes.foreignEndLoop]
  | cons prev rest ih =>
    intro node k first
    rw [endWalkF, Spec.TreeModes.foreignEndLoop]
    by_cases h1 : (!first && node.name.ns == nsHtml) = true
    · rw [if_pos h1, if_pos h1]
    rw [if_neg h1, if_neg h1, ih prev (k + 1) false]
    by_cases h2 : (node.name.loc.map Spec.TreeAlgo.lower == name) = true
    · rw [if_pos h2, if_pos h2]
    · rw [if_neg h2, if_neg h2]
      simp only [Bool.not_false, Bool.true_and]
      cases hh : prev.name.ns == nsHtml
      · have : (prev.name.ns != Spec.TreeAlgo.nsHtml) = true := by
          show (!(prev.name.ns == nsHtml)) = true
          rw [hh]; rfl
        rw [if_pos this]
        simp
      · have : ¬ (prev.name.ns != Spec.TreeAlgo.nsHtml) = true := by
          show ¬ (!(prev.name.ns == nsHtml)) = true
          rw [hh]; simp
        rw [if_neg this]
        simp

/-- the walk that starts at the current node is the standard's loop (steps 3–7) -/
theorem endWalkF_top (name : Str) (l : List (Elem Id)) :
    endWalkF name l 0 true = Spec.TreeModes.foreignEndLoop name l 0 := by
  cases l with
  | nil => simp [endWalkF, Spec.TreeModes.foreignEndLoop]
  | cons node tl => rw [endWalkF_spec]; simp

/-! ### the specification's rule for an end tag, in terms of html5ever's walk -/

/-- "2. If node's tag name, converted to ASCII lowercase, is not the same as the tag name of the token,
then this is a parse error." -/
def endErrF (σ : SState) (st : STag) : SState :=
  if σ.cur.any (fun e => e.name.loc.map Spec.TreeAlgo.lower == st.name) then σ
  else σ.err "foreign content: end tag does not match the current node"

theorem endErrF_eq (σ : SState) (st : STag) : endErrF σ st = { σ with errors := (endErrF σ st).errors } := by
  unfold endErrF; split <;> rfl

theorem endErrF_p (σ : SState) (st : STag) : (endErrF σ st).p = σ.p := by
  unfold endErrF; split <;> rfl

/-- the "reprocess in HTML content" of `foreignFull` -/
def wrapF (cfg : Config Id) (tok : STok) : Step Id → Spec.TreeModes.M (Step Id)
  | .reprocessHtml σ' => byModeDev cfg σ' tok
  | r => pure r

theorem foreignFull_eqF (cfg : Config Id) (σ : SState) (tok : STok) :
    foreignFull cfg σ tok = Spec.TreeModes.foreign cfg σ tok >>= wrapF cfg tok := by
  unfold foreignFull
  congr 1

theorem wrapF_stepOf (cfg : Config Id) (tok : STok) (res : ProcessResult) (s' : State) (x' : Aux) :
    wrapF cfg tok (stepOf res s' x') = pure (stepOf res s' x') := by
  cases res <;> rfl

/-- the outcome of "any other end tag" for an outcome of the walk -/
def endSpecF (cfg : Config Id) (σ : SState) (st : STag) : ForeignEnd → Spec.TreeModes.M (Step Id)
  | .ret => pure (.done (endErrF σ st))
  | .popThrough k => pure (.done ((endErrF σ st).setStack (σ.p.stack.take (σ.p.stack.length - (k + 1)))))
  | .html => Spec.TreeModes.byMode cfg (endErrF σ st) (.endTag st) >>= wrapF cfg (.endTag st)

/-- **the rule for an end tag that is neither `</br>`, `</p>` nor the `</script>` of an SVG `script`
current node, in terms of the outcome of the standard's loop** -/
theorem foreignFull_endF (cfg : Config Id) (σ : SState) (st : STag)
    (hb : st.isOneOf Spec.TreeTables.foreignBreakoutEnd = false)
    (hS : (st.is "script" && σ.cur.any (fun e => e.name.ns == Spec.TreeAlgo.nsSvg && e.name.loc == "script".toList)) = false) :
    foreignFull cfg σ (.endTag st) = endSpecF cfg σ st (Spec.TreeModes.foreignEndLoop st.name σ.p.stack.reverse 0) := by
  rw [foreignFull_eqF]
  have e1 : Spec.TreeModes.foreign cfg σ (.endTag st) = Spec.TreeModes.foreignAnyOtherEndTag cfg σ st := by
    simp only [Spec.TreeModes.foreign, hb, hS, Bool.false_eq_true, if_false]
  rw [e1]
  unfold Spec.TreeModes.foreignAnyOtherEndTag
  simp only []
  have e2 : (if σ.cur.any (fun e => e.name.loc.map Spec.TreeAlgo.lower == st.name) = true then σ
      else σ.err "foreign content: end tag does not match the current node") = endErrF σ st := rfl
  rw [e2, endErrF_p]
  cases Spec.TreeModes.foreignEndLoop st.name σ.p.stack.reverse 0 <;> rfl

theorem endLoop_matchF (name : Str) (node prev : Elem Id) (rest : List (Elem Id)) (k : Nat)
    (h : (node.name.loc.map Spec.TreeAlgo.lower == name) = true) :
    Spec.TreeModes.foreignEndLoop name (node :: prev :: rest) k = .popThrough k := by
  rw [Spec.TreeModes.foreignEndLoop, if_pos h]

/-- the `</script>` end tag of an SVG `script` current node -/
theorem foreignFull_scriptF (cfg : Config Id) (σ : SState) (st : STag)
    (hb : st.isOneOf Spec.TreeTables.foreignBreakoutEnd = false)
    (hS : (st.is "script" && σ.cur.any (fun e => e.name.ns == Spec.TreeAlgo.nsSvg && e.name.loc == "script".toList)) = true)
    (e : Elem Id) (hcur : σ.cur = some e) :
    foreignFull cfg σ (.endTag st)
      = .ok (.done { σ.pop with out := { σ.pop.out with svgScript := some e.id } }) := by
  rw [foreignFull_eqF]
  have hS' := hS
  rw [hcur] at hS'
  simp only [Spec.TreeModes.foreign, hb, Bool.false_eq_true, if_false, Spec.TreeModes.foreignEndSvgScript, hcur,
    Spec.TreeModes.req, hS', if_true]
  rfl

/-- **an end tag other than `</br>`, `</p>`** -/
theorem pc_endTagArm (hall : ∀ m, ModeSim m) {t : Tag} (hwf : TagWf t) (hk : t.kind = .endTag)
    (hb : (specTag t).isOneOf Spec.TreeTables.foreignBreakoutEnd = false) {s : State} (ht : TI s) (hm : MInv s)
    (hbl : TBSafe.bodyLike s.mode = true) (hne : s.openElems ≠ []) :
    PC (foreignEndTagLoop t (s.openElems.length - 1) true) s
      (TokPost (fun σ => foreignFull (cfgOf s) σ (.endTag (specTag t))) s (.tag t)) := by
  have hpos : 0 < s.openElems.length := List.length_pos_iff.mpr hne
  have hP := pc_foreignEndTagLoop hall hwf hk (s.openElems.length - 1) true s ht hm hbl (by omega)
  have hlen : (absStack s.dom s.openElems).length = s.openElems.length := by simp [absStack]
  have e1 : (absStack s.dom s.openElems).take (s.openElems.length - 1 + 1) = absStack s.dom s.openElems :=
    List.take_of_length_le (by rw [hlen]; omega)
  have e2 : s.openElems.length - 1 - (s.openElems.length - 1) = 0 := by omega
  rw [e1, e2, endWalkF_top] at hP
  refine pc_conseq hP ?_
  intro res s' calls he hp
  -- the current node
  obtain ⟨l, h0, hl'⟩ : ∃ l h0, s.openElems = l ++ [h0] := by
    rcases List.eq_nil_or_concat s.openElems with h | ⟨l, h0, h⟩
    · exact absurd h hne
    · exact ⟨l, h0, by simpa using h⟩
  have hlast : s.openElems.getLast? = some h0 := by rw [hl']; simp
  have hcurx : ∀ x, AuxOk s x → (absF s x).cur = some (elemOf s.dom h0) := by
    intro x hx; rw [absF_cur hx, hlast]; rfl
  by_cases hS : ((specTag t).is "script" && ((elemOf s.dom h0).name.ns == Spec.TreeAlgo.nsSvg &&
      (elemOf s.dom h0).name.loc == "script".toList)) = true
  · -- `</script>` closing an SVG `script`
    have hSx : ∀ x, AuxOk s x → ((specTag t).is "script" && (absF s x).cur.any (fun e => e.name.ns == Spec.TreeAlgo.nsSvg &&
        e.name.loc == "script".toList)) = true := by
      intro x hx; rw [hcurx x hx]; exact hS
    simp only [Bool.and_eq_true, Spec.TreeModes.Tag.is, strIs_eq, specTag_name, decide_eq_true_eq, beq_iff_eq] at hS
    obtain ⟨hname, hsvg, hscr⟩ := hS
    -- at least two entries: the root is an HTML element
    obtain ⟨l2, p0, hl2⟩ : ∃ l2 p0, l = l2 ++ [p0] := by
      rcases List.eq_nil_or_concat l with h | ⟨l2, p0, h⟩
      · exfalso
        have hroot := hm.root h0 (by rw [hl', h]; rfl)
        have : (elemOf s.dom h0).name.ns = nsHtml := by unfold elemOf; rw [hroot]; rfl
        rw [this] at hsvg
        revert hsvg; decide
      · exact ⟨l2, p0, by simpa using h⟩
    have hD : Spec.TreeModes.foreignEndLoop t.name (absStack s.dom s.openElems).reverse 0 = .popThrough 0 := by
      have : (absStack s.dom s.openElems).reverse = elemOf s.dom h0 :: elemOf s.dom p0 :: (absStack s.dom l2).reverse := by
        rw [hl', hl2]; simp [absStack]
      rw [this]
      apply endLoop_matchF
      rw [hscr, hname]
      decide
    rw [hD] at hp
    obtain ⟨hres, hso, hc, ho⟩ := hp
    subst hres
    have ho' : s'.openElems = s.openElems.dropLast := by
      rw [ho, List.dropLast_eq_take]
    have htr := Tr.of_prefix hm hso (ho' ▸ List.dropLast_prefix _) he hc
    refine tokPost_of_tr htr trivial ?_
    rintro x x' hx hx' ⟨rfl, e⟩
    refine ⟨{ x' with out := { x'.out with svgScript := some h0 } }, ?_, ⟨rfl, rfl, rfl, rfl, rfl⟩, Or.inl rfl, rfl, rfl⟩
    rw [foreignFull_scriptF _ _ _ hb (hSx x' hx) _ (hcurx x' hx)]
    simp only [stepOf]
    have : absF s' x' = (absF s x').pop := by
      rw [e, ho', absStack_dropLast, ← absF_stack hx]; rfl
    show Except.ok (Step.done _) = Except.ok (Step.done ({ absF s' x' with out := { x'.out with svgScript := some h0 } }))
    rw [this]
    rfl
  · have hSx : ∀ x, AuxOk s x → ((specTag t).is "script" && (absF s x).cur.any (fun e => e.name.ns == Spec.TreeAlgo.nsSvg &&
        e.name.loc == "script".toList)) = false := by
      intro x hx; rw [hcurx x hx]; simpa using hS
    have hfull : ∀ x, AuxOk s x → foreignFull (cfgOf s) (absF s x) (.endTag (specTag t))
        = endSpecF (cfgOf s) (absF s x) (specTag t) (Spec.TreeModes.foreignEndLoop t.name (absStack s.dom s.openElems).reverse 0) := by
      intro x hx
      rw [foreignFull_endF _ _ _ hb (hSx x hx), absF_stack hx]
      rfl
    cases hD : Spec.TreeModes.foreignEndLoop t.name (absStack s.dom s.openElems).reverse 0 with
    | ret =>
      rw [hD] at hp
      obtain ⟨hres, hs, hc⟩ := hp
      subst hres
      refine tokPost_of_tr (Tr.of_same hm hs he (by rw [← edits2_edits, hc]; rfl)) trivial ?_
      rintro x x' hx hx' ⟨rfl, e⟩
      refine ⟨{ x' with errors := (endErrF (absF s x') (specTag t)).errors }, ?_, ⟨rfl, rfl, rfl, rfl, rfl⟩, Or.inl rfl, rfl, rfl⟩
      rw [hfull x' hx, hD]
      simp only [endSpecF, stepOf, absF_errors, ← e]
      rw [← endErrF_eq]
      rfl
    | popThrough k =>
      rw [hD] at hp
      obtain ⟨hres, hso, hc, ho⟩ := hp
      subst hres
      have htr := Tr.of_prefix hm hso (ho ▸ List.take_prefix _ _) he hc
      refine tokPost_of_tr htr trivial ?_
      rintro x x' hx hx' ⟨rfl, e⟩
      refine ⟨{ x' with errors := (endErrF (absF s x') (specTag t)).errors }, ?_, ⟨rfl, rfl, rfl, rfl, rfl⟩, Or.inl rfl, rfl, rfl⟩
      rw [hfull x' hx, hD]
      simp only [endSpecF, stepOf, absF_errors]
      rw [e, ho]
      have : absStack s.dom (s.openElems.take (s.openElems.length - (k + 1)))
          = (absF s x').p.stack.take ((absF s x').p.stack.length - (k + 1)) := by
        rw [absF_stack hx, hlen]; simp [absStack]
      rw [this]
      conv => lhs; rw [endErrF_eq]
      rfl
    | html =>
      rw [hD] at hp
      have hp' : TokPost (fun σ => Spec.TreeModes.byMode (cfgOf s) σ (.endTag (specTag t))) s (.tag t) res s' calls := hp
      refine TokPost.pre_errF hp' (fun x => (endErrF (absF s x) (specTag t)).errors) ?_
      intro x hx x' e
      rw [hfull x hx, hD]
      simp only [endSpecF]
      rw [absF_errors, ← endErrF_eq] at e
      rw [e]
      exact wrapF_stepOf _ _ _ _ _

/-! ### the rules for foreign content, non-character tokens -/

theorem TokPost.wrapF {spec spec' : SState → Spec.TreeModes.M (Step Id)} {s s' : State} {tok : Token}
    {res : ProcessResult} {calls : List Call} (cfg : Config Id) (stok : STok) (h : TokPost spec s tok res s' calls)
    (he : ∀ x, AuxOk s x → spec' (absF s x) = spec (absF s x) >>= _root_.H5V.Lemmas.HtmlTBModes.wrapF cfg stok) :
    TokPost spec' s tok res s' calls := by
  refine TokPost.pre_errF h (fun x => x.errors) ?_
  intro x hx x' e
  have e' : spec (absF s x) = .ok (stepOf res s' x') := e
  rw [he x hx, e']
  exact wrapF_stepOf _ _ _ _ _

theorem foreignTop_ne {s : State} (hf : ForeignTop s) : s.openElems ≠ [] := by
  obtain ⟨c, hc, _⟩ := hf
  intro h
  unfold TBSafe.adjNode at hc
  rw [h] at hc
  cases hc

/-- the rules for foreign content, non-character tokens -/
theorem foreignSim (hall : ∀ m, ModeSim m) :
    ForeignSim := by
  intro tok hch hne hwf s ht hm hf
  have hip : IpNamed s := hm.ip
  have hbl := TBSafe.bodyLike_of_foreign ht hf
  cases tok with
  | chars st text => cases hch
  | eof => exact absurd rfl hne
  | comment text =>
    simp only [stepForeign]
    refine pc_conseq (pc_appendComment' hm text) ?_
    rintro r s' calls _ ⟨rfl, htr⟩
    refine tokPost_of_tr htr trivial ?_
    intro x x' hx hx' hr
    refine ⟨x', ?_, AuxSame.rfl', Or.inl rfl, rfl, rfl⟩
    rw [foreignFull_eqF, stokOf]
    simp only [Spec.TreeModes.foreign, hr]
    rfl
  | nullChar =>
    simp only [stepForeign]
    refine pc_seq (pc_unexpected hm) ?_
    rintro _ s1 c1 he1 ⟨-, htr1⟩
    refine pc_conseq (pc_appendText htr1.1 ['�']) ?_
    rintro r s' c2 _ ⟨rfl, hs2, htr2⟩
    refine tokPost_of_tr (htr1.trans htr2) trivial ?_
    rintro x x'' hx hx'' ⟨x1, ⟨e1, r1⟩, r2⟩
    subst e1
    refine ⟨{ x'' with errors := x''.errors ++ ["foreign content: U+0000"] }, ?_, ⟨rfl, rfl, rfl, rfl, rfl⟩, Or.inl rfl, rfl, rfl⟩
    rw [foreignFull_eqF, stokOf]
    simp only [Spec.TreeModes.foreign, beq_self_eq_true, if_true, insertChar_errF]
    rw [← r1] at r2
    simp only [List.foldlM_cons, List.foldlM_nil, bind_pure] at r2
    rw [r2]
    rfl
  | tag t =>
    have hwf' : TagWf t := hwf
    simp only [stepForeign]
    cases hk : t.kind with
    | startTag =>
      have hbrk := H5V.Lemmas.HtmlTBSpec.breakout_eq_spec t hk hwf'.plain
      have hattrs : (specTag t).attrs.map (·.name) = t.attrs.map (·.name.loc) := by
        simp only [specTag, List.map_map]; rfl
      have hend : t.isEnd ["br", "p"] = false := by simp [Tag.isEnd, hk]
      have hkb : (H5V.Model.HtmlTok.TagKind.startTag == H5V.Model.HtmlTok.TagKind.startTag) = true := rfl
      -- the two outcomes
      have hUB : Spec.TreeAlgo.breaksOutOfForeign t.name (t.attrs.map (·.name.loc)) = true →
          PC (unexpectedStartTagInForeignContent t) s (TokPost (fun σ => foreignFull (cfgOf s) σ (stokOf (.tag t))) s (.tag t)) := by
        intro hB
        refine pc_tokPost_congr (pc_breakOut hall hwf' ht hm hbl hip) ?_
        intro x hx
        rw [foreignFull_eqF]
        simp only [stokOf, stokOfTag_start hk]
        simp only [Spec.TreeModes.foreign, specTag_name, hattrs, hB, if_true]
        rfl
      have hFS : Spec.TreeAlgo.breaksOutOfForeign t.name (t.attrs.map (·.name.loc)) = false →
          PC (foreignStartTag t) s (TokPost (fun σ => foreignFull (cfgOf s) σ (stokOf (.tag t))) s (.tag t)) := by
        intro hB
        refine pc_conseq (pc_foreignStartTag hm hwf'.plain hwf'.nodup (.tag t)) ?_
        intro res s' calls _ hp
        refine TokPost.wrapF (cfgOf s) (stokOf (.tag t)) hp ?_
        intro x hx
        rw [foreignFull_eqF]
        simp only [stokOf, stokOfTag_start hk]
        simp only [Spec.TreeModes.foreign, specTag_name, hattrs, hB, Bool.false_eq_true, if_false]
      rw [hend, Bool.or_false]
      by_cases h1 : t.isStart foreignBreakoutStart = true
      · rw [if_pos h1]
        exact hUB (by rw [← hbrk, h1]; rfl)
      · have h1' : t.isStart foreignBreakoutStart = false := by simpa using h1
        rw [if_neg h1]
        rw [h1', Bool.false_or] at hbrk
        by_cases h2 : t.isStart ["font"] = true
        · rw [if_pos h2]
          rw [h2, Bool.true_and] at hbrk
          by_cases h3 : (t.attrs.any fun a => a.name.ns == [] && isOneOf a.name.loc ["color", "face", "size"]) = true
          · rw [if_pos h3]; exact hUB (by rw [← hbrk]; exact h3)
          · rw [if_neg h3]; exact hFS (by rw [← hbrk]; simpa using h3)
        · have h2' : t.isStart ["font"] = false := by simpa using h2
          rw [if_neg h2, if_pos hkb]
          rw [h2', Bool.false_and] at hbrk
          exact hFS hbrk.symm
    | endTag =>
      have hst1 : t.isStart foreignBreakoutStart = false := by simp [Tag.isStart, hk]
      have hst2 : t.isStart ["font"] = false := by simp [Tag.isStart, hk]
      have hkb : (H5V.Model.HtmlTok.TagKind.endTag == H5V.Model.HtmlTok.TagKind.startTag) = false := rfl
      have hendeq : t.isEnd ["br", "p"] = (specTag t).isOneOf Spec.TreeTables.foreignBreakoutEnd := by
        simp only [Tag.isEnd, hk, BEq.rfl, Bool.true_and, isOneOf_cons, isOneOf_nil, Spec.TreeModes.Tag.isOneOf,
          Spec.TreeTables.foreignBreakoutEnd, strIsOneOf_cons, strIsOneOf_nil, specTag_name]
      rw [hst1, Bool.false_or]
      by_cases h1 : t.isEnd ["br", "p"] = true
      · rw [if_pos h1]
        refine pc_tokPost_congr (pc_breakOut hall hwf' ht hm hbl hip) ?_
        intro x hx
        rw [foreignFull_eqF]
        simp only [stokOf, stokOfTag_end hk]
        simp only [Spec.TreeModes.foreign, ← hendeq, h1, if_true]
        rfl
      · rw [if_neg h1, hst2, hkb]
        simp only [Bool.false_eq_true, if_false]
        refine pc_getS_bind ?_
        have hne' := foreignTop_ne hf
        have hz : (s.openElems.length == 0) = false := by
          cases h : s.openElems.length == 0 with
          | false => rfl
          | true =>
            have := beq_iff_eq.mp h
            exact absurd (List.length_eq_zero_iff.mp this) hne'
        simp only [hz, Bool.false_eq_true, if_false]
        have hb : (specTag t).isOneOf Spec.TreeTables.foreignBreakoutEnd = false := by
          rw [← hendeq]; simpa using h1
        refine pc_tokPost_congr (pc_endTagArm hall hwf' hk hb ht hm hbl hne') ?_
        intro x hx
        simp only [stokOf, stokOfTag_end hk]

/-! ### runs of characters in foreign content -/

/-- the state after the characters `text` were inserted at `place` by the rules for foreign content -/
def charsFinalF (σ : SState) (place : Place Id) (text : Str) : SState :=
  { σ with p := { σ.p with log := σ.p.log ++ text.map fun c => Edit.insertText place [c] },
           framesetOk := σ.framesetOk && text.all Spec.TreeModes.isWs }

theorem charsFinalF_nil (σ : SState) (place : Place Id) : charsFinalF σ place [] = σ := by
  simp [charsFinalF]

theorem charsFinalF_cons (σ : SState) (place : Place Id) (c : Char) (cs : Str) :
    charsFinalF (charsFinalF σ place [c]) place cs = charsFinalF σ place (c :: cs) := by
  simp [charsFinalF, List.append_assoc, Bool.and_assoc]

theorem insertChar_placeF (σ : SState) (place : Place Id)
    (h : Spec.TreeAlgo2.appropriatePlace σ.p.stack σ.p.fosterParenting none = some place) (c : Char) :
    Spec.TreeModes.insertChar σ c
      = .ok { σ with p := { σ.p with log := σ.p.log ++ [Edit.insertText place [c]] } } := by
  simp only [Spec.TreeModes.insertChar, Spec.TreeAlgo2.insertCharacters, h, Option.map_some, Spec.TreeModes.req]
  rfl

theorem Spec.TreeModes.foreign_charF (cfg : Config Id) (σ : SState) (place : Place Id)
    (h : Spec.TreeAlgo2.appropriatePlace σ.p.stack σ.p.fosterParenting none = some place) (c : Char) (hc : c ≠ '\x00') :
    Spec.TreeModes.foreign cfg σ (.character c) = .ok (.done (charsFinalF σ place [c])) := by
  have hc' : (c == '\x00') = false := by simpa using hc
  simp only [Spec.TreeModes.foreign, hc', Bool.false_eq_true, if_false, insertChar_placeF σ place h]
  cases hw : Spec.TreeModes.isWs c
  · simp only [Bool.false_eq_true, if_false]
    show Except.ok (Step.done _) = _
    simp [charsFinalF, hw, Spec.TreeModes.State.notOk]
  · simp only [if_true]
    show Except.ok (Step.done _) = _
    simp [charsFinalF, hw]

theorem specCharsRest_foreignF (cfg : Config Id) (place : Place Id) : ∀ (text : Str) (σ : SState),
    (∀ c ∈ text, c ≠ '\x00') →
    Spec.TreeAlgo2.appropriatePlace σ.p.stack σ.p.fosterParenting none = some place → σ.stopped = false →
    σ.ignoreLf = false →
    Spec.TreeAlgo.useHtmlRules (Spec.TreeModes.adjustedCurrentNode cfg σ) .character = false →
    specCharsRest cfg σ text = .ok (charsFinalF σ place text) := by
  intro text
  induction text with
  | nil => intro σ _ _ _ _ _; rw [charsFinalF_nil]; rfl
  | cons c cs ih =>
    intro σ hnul hpl hst hlf hu
    have hd : dispatchDev cfg σ (.character c) = .ok (.done (charsFinalF σ place [c])) := by
      unfold dispatchDev
      have : Spec.TreeModes.tokenKind (.character c) = .character := rfl
      rw [this, hu]
      simp only [Bool.false_eq_true, if_false]
      exact Spec.TreeModes.foreign_charF cfg σ place hpl c (hnul c (by simp))
    simp only [specCharsRest, hst, hlf, Bool.or_self, Bool.false_eq_true, if_false, hd]
    have := ih (charsFinalF σ place [c]) (fun c' hc' => hnul c' (by simp [hc'])) hpl hst hlf hu
    rw [charsFinalF_cons] at this
    exact this

theorem specChars_foreignF (cfg : Config Id) (place : Place Id) (text : Str) (σ : SState)
    (hnul : ∀ c ∈ text, c ≠ '\x00')
    (hpl : Spec.TreeAlgo2.appropriatePlace σ.p.stack σ.p.fosterParenting none = some place) (hst : σ.stopped = false)
    (hlf : σ.ignoreLf = false)
    (hu : Spec.TreeAlgo.useHtmlRules (Spec.TreeModes.adjustedCurrentNode cfg σ) .character = false) :
    specChars cfg (Spec.TreeModes.foreign cfg) σ text = .ok (charsFinalF σ place text) := by
  cases text with
  | nil => rw [charsFinalF_nil]; rfl
  | cons c cs =>
    simp only [specChars, Spec.TreeModes.foreign_charF cfg σ place hpl c (hnul c (by simp))]
    have := specCharsRest_foreignF cfg place cs (charsFinalF σ place [c]) (fun c' hc' => hnul c' (by simp [hc'])) hpl hst hlf hu
    rw [charsFinalF_cons] at this
    exact this

theorem all_isWs_of_not_any {text : Str} (h : anyNotWhitespace text = false) : text.all Spec.TreeModes.isWs = true := by
  unfold anyNotWhitespace at h
  rw [List.all_eq_true]
  intro c hc
  have := (List.any_eq_false.mp h) c hc
  rw [isWs_eqF]
  simpa using this

theorem all_isWs_of_any {text : Str} (h : anyNotWhitespace text = true) : text.all Spec.TreeModes.isWs = false := by
  unfold anyNotWhitespace at h
  obtain ⟨c, hc, hn⟩ := List.any_eq_true.mp h
  cases ha : text.all Spec.TreeModes.isWs
  · rfl
  · have := (List.all_eq_true.mp ha) c hc
    rw [isWs_eqF] at this
    rw [this] at hn
    cases hn

/-- from a successful "insert a character" to the appropriate place -/
theorem place_of_foldlM {σ σ' : SState} {c : Char} {cs : Str}
    (h : (c :: cs).foldlM (fun σ c => Spec.TreeModes.insertChar σ c) σ = .ok σ') :
    ∃ place, Spec.TreeAlgo2.appropriatePlace σ.p.stack σ.p.fosterParenting none = some place := by
  cases hp : Spec.TreeAlgo2.appropriatePlace σ.p.stack σ.p.fosterParenting none with
  | some place => exact ⟨place, rfl⟩
  | none =>
    exfalso
    rw [List.foldlM_cons] at h
    have : Spec.TreeModes.insertChar σ c = .error "insert a character: no place" := by
      simp only [Spec.TreeModes.insertChar, Spec.TreeAlgo2.insertCharacters, hp, Option.map_none, Spec.TreeModes.req]
      rfl
    rw [this] at h
    cases h

/-- the rules for foreign content, runs of characters -/
theorem foreignCharSim : ForeignCharSim := by
  intro st text hwf s ht hm hf hlf hu
  obtain ⟨hne, hnul, -⟩ := hwf
  have hnul' : ∀ c ∈ text, c ≠ '\x00' := fun c hc e => hnul (e ▸ hc)
  obtain ⟨c0, cs0, htext⟩ : ∃ c cs, text = c :: cs := by
    cases text with
    | nil => exact absurd rfl hne
    | cons c cs => exact ⟨c, cs, rfl⟩
  simp only [stepForeign]
  -- the common tail
  have htail : ∀ (s1 : State) (c1 : List Call) (b : Bool), MInv s1 → s1.ignoreLf = s.ignoreLf →
      Tr s s1 c1 (fun x x1 => x1 = x ∧ absF s1 x1 = { absF s x with framesetOk := b }) →
      (b = (s.framesetOk && text.all Spec.TreeModes.isWs)) →
      PC (appendText text) s1 (fun res s' c2 => CharsPost (Spec.TreeModes.foreign (cfgOf s)) s st text res s' (c1 ++ c2)) := by
    intro s1 c1 b hm1 hlf1 htr1 hb
    refine pc_conseq (pc_appendText hm1 text) ?_
    rintro r s' c2 _ ⟨rfl, hs2, htr2⟩
    refine ⟨by rw [hs2.fields.ignoreLf]; exact hlf1, (htr1.trans htr2).conseq ?_⟩
    rintro x x' hx hx' ⟨x1, ⟨e1, r1⟩, r2⟩
    subst e1
    rw [r1, htext] at r2
    obtain ⟨place, hpl⟩ := place_of_foldlM r2
    rw [← htext, foldlM_insertChar _ place hpl] at r2
    have hfin : absF s' x' = charsFinalF (absF s x1) place text := by
      injection r2 with r2
      rw [← r2, hb]
      rfl
    rw [hfin]
    exact specChars_foreignF (cfgOf s) place text (absF s x1) hnul' hpl hx.live hlf (hu x1 hx)
  by_cases ha : anyNotWhitespace text = true
  · simp only [ha, if_true]
    refine pc_seq (pc_setFramesetOk hm false) ?_
    rintro _ s1 c1 _ ⟨hs1, htr1⟩
    refine htail s1 c1 false htr1.1 (by rw [hs1]) htr1 ?_
    rw [all_isWs_of_any ha, Bool.and_false]
  · have ha' : anyNotWhitespace text = false := by simpa using ha
    simp only [ha', Bool.false_eq_true, if_false]
    have := htail s [] s.framesetOk hm rfl ((Tr.refl hm).conseq (by rintro x x' _ _ rfl; exact ⟨rfl, rfl⟩))
      (by rw [all_isWs_of_not_any ha', Bool.and_true])
    simpa using this

end H5V.Lemmas.HtmlTBModes
