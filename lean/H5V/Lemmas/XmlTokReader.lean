import H5V.Model.XmlTok
import H5V.Lemmas.XmlTokFields
/-!
Reader lemmas for the XML tokenizer model: every reading primitive is *monotone* in the unread
input (a completed read is unaffected by appending more input) and *resumable* (a suspended read,
re-executed after more input arrived, behaves like the read on the concatenated input).
These are the shared core of C03 / C08 / C09 (DESIGN.md 3.2.1).
-/
namespace H5V.Model.XmlTok

/-! ### preprocess / getChar -/

theorem preprocess_mono (o : Opts) (m m' : Mach) (c c' : Char) (inp inp' e : Str)
    (h : preprocess o m c inp = (some c', m', inp')) :
    preprocess o m c (inp ++ e) = (some c', m', inp' ++ e) := by
  unfold preprocess at h ⊢
  split at h
  · split at h
    · cases inp with
      | nil => simp at h
      | cons x xs => simp_all
    · simp_all
  · simp_all

/-- a `none` from `preprocess` means: the LF after a CR was swallowed and nothing is left -/
theorem preprocess_none (o : Opts) (m m' : Mach) (c : Char) (inp inp' : Str)
    (h : preprocess o m c inp = (none, m', inp')) :
    m.ignoreLf = true ∧ c = '\n' ∧ inp = [] ∧ inp' = [] ∧ m' = m.setIgnoreLf false := by
  unfold preprocess at h
  split at h
  · split at h
    · cases inp with
      | nil => simp_all
      | cons x xs => simp at h
    · simp at h
  · simp at h

/-- resuming after `preprocess` swallowed the LF: reading `x` with the flag cleared is what the
original read would have produced had `x` been available -/
theorem preprocess_resume (o : Opts) (m : Mach) (x : Char) (rest : Str)
    (h1 : m.ignoreLf = true) :
    preprocess o m '\n' (x :: rest) = preprocess o (m.setIgnoreLf false) x rest := by
  have hf : (m.setIgnoreLf false).ignoreLf = false := rfl
  simp [preprocess, h1, hf]

theorem getChar_mono (o : Opts) (m m' : Mach) (c' : Char) (inp inp' e : Str)
    (h : getChar o m inp = (some c', m', inp')) :
    getChar o m (inp ++ e) = (some c', m', inp' ++ e) := by
  unfold getChar at h ⊢
  split
  · simp_all
  · cases inp with
    | nil => simp_all
    | cons x xs =>
      simp_all
      exact preprocess_mono o m m' x c' xs inp' e h

theorem peek_mono (m : Mach) (inp e : Str) (c : Char) (h : peek m inp = some c) :
    peek m (inp ++ e) = some c := by
  unfold peek at h ⊢
  split <;> simp_all

theorem peek_none (m : Mach) (inp : Str) (h : peek m inp = none) : m.reconsume = false ∧ inp = [] := by
  unfold peek at h
  split at h <;> simp_all

/-- shape of a suspended `get_char` -/
theorem getChar_none (o : Opts) (m m' : Mach) (inp inp' : Str)
    (h : getChar o m inp = (none, m', inp')) :
    inp' = [] ∧ m.reconsume = false ∧
      ((inp = [] ∧ m' = m) ∨ (inp = ['\n'] ∧ m.ignoreLf = true ∧ m' = m.setIgnoreLf false)) := by
  unfold getChar at h
  split at h
  · simp at h
  · rename_i hr
    cases inp with
    | nil => simp at h; simp_all
    | cons x xs =>
      simp only at h
      have := preprocess_none o m m' x xs inp' h
      simp_all

/-- **resumable**: re-executing a suspended `get_char` after more input arrived is the read on the
concatenated input -/
theorem getChar_resume (o : Opts) (m m' : Mach) (inp inp' e : Str)
    (h : getChar o m inp = (none, m', inp')) :
    getChar o m' (inp' ++ e) = getChar o m (inp ++ e) := by
  obtain ⟨h1, h2, h3⟩ := getChar_none o m m' inp inp' h
  subst h1
  rcases h3 with ⟨h3, h4⟩ | ⟨h3, h4, h5⟩
  · subst h3 h4; rfl
  · subst h3 h5
    have hr' : (m.setIgnoreLf false).reconsume = false := by simp [h2]
    cases e with
    | nil =>
      simp [getChar, h2, hr', preprocess, h4]
    | cons x xs =>
      simp only [getChar, h2, hr', List.nil_append, List.cons_append, Bool.false_eq_true, ↓reduceIte]
      exact (preprocess_resume o m x xs h4).symm

/-! ### eat -/

theorem eatCmp_mono (eq : Char → Char → Bool) (s pat e : Str) (b : Bool)
    (h : eatCmp eq s pat = some b) : eatCmp eq (s ++ e) pat = some b := by
  induction s generalizing pat with
  | nil =>
    cases pat with
    | nil => simpa [eatCmp] using h
    | cons p ps => simp [eatCmp] at h
  | cons c s ih =>
    cases pat with
    | nil => simpa [eatCmp] using h
    | cons p ps =>
      simp only [List.cons_append, eatCmp] at h ⊢
      split <;> simp_all

theorem eatCmp_nil_none (eq : Char → Char → Bool) (pat : Str) (hp : pat ≠ []) :
    eatCmp eq [] pat = none := by
  cases pat with
  | nil => exact absurd rfl hp
  | cons p ps => rfl

theorem eatCmp_drop (eq : Char → Char → Bool) (s pat e : Str) (h : eatCmp eq s pat = some true) :
    (s ++ e).drop pat.length = s.drop pat.length ++ e := by
  induction s generalizing pat with
  | nil =>
    cases pat with
    | nil => simp
    | cons p ps => simp [eatCmp] at h
  | cons c s ih =>
    cases pat with
    | nil => simp
    | cons p ps =>
      simp only [eatCmp] at h
      split at h
      · simpa using ih ps h
      · simp at h

/-- with no pending "ignore LF", a character that can be peeked can be read -/
theorem getChar_of_peek (o : Opts) (m : Mach) (inp : Str) (c : Char)
    (h : peek m inp = some c) (hil : m.ignoreLf = false) :
    ∃ c' m' i', getChar o m inp = (some c', m', i') ∧ m'.ignoreLf = (decide (c = '\r') && !m.reconsume) ∧
      m'.tempBuf = m.tempBuf ∧ m'.atEof = m.atEof ∧ m'.state = m.state ∧ m'.charRef = m.charRef := by
  unfold peek at h
  unfold getChar
  split
  · rename_i hr
    exact ⟨m.currentChar, m.setReconsume false, inp, rfl, by simp [hil, hr]⟩
  · rename_i hr
    cases inp with
    | nil => simp [hr] at h
    | cons x xs =>
      simp only [hr, Bool.false_eq_true, ↓reduceIte, List.head?_cons, Option.some.injEq] at h
      subst h
      simp only [preprocess, hil, Bool.false_eq_true, ↓reduceIte, foldChar]
      refine ⟨_, _, _, rfl, ?_⟩
      by_cases hx : x = '\r' <;> (simp [hx, hr]; (repeat' split) <;> simp [hil])

theorem eatSkipLf_mono (o : Opts) (m : Mach) (inp e : Str) (c : Char) (h : peek m inp = some c) :
    eatSkipLf o m (inp ++ e) = ((eatSkipLf o m inp).1, (eatSkipLf o m inp).2 ++ e) := by
  unfold eatSkipLf
  have hp := peek_mono m inp e c h
  split
  · simp only [h, hp]
    split
    · have hpk : peek (m.setIgnoreLf false) inp = some c := by simpa [peek] using h
      obtain ⟨c', m', i', hg, _⟩ := getChar_of_peek o (m.setIgnoreLf false) inp c hpk rfl
      rw [getChar_mono o _ m' c' inp i' e hg, hg]
    · rfl
  · rfl

theorem eatSkipLf_none (o : Opts) (m : Mach) (inp : Str) (h : peek m inp = none) : eatSkipLf o m inp = (m, inp) := by
  unfold eatSkipLf
  split <;> simp [h]

/-- side condition under which the look-ahead stash is sound: no pending "ignore LF" while text
is stashed (preserved by every step: `Good`) -/
def EatOk (m : Mach) : Prop := m.ignoreLf = true → m.tempBuf = []

@[simp] theorem setTempBuf_setTempBuf (m : Mach) (a b : Str) :
    (m.setTempBuf a).setTempBuf b = m.setTempBuf b := rfl

theorem eatSkipLf_id (o : Opts) (m : Mach) (inp : Str) (h : m.ignoreLf = false) : eatSkipLf o m inp = (m, inp) := by
  unfold eatSkipLf; simp [h]

/-- the prologue touches neither the stash nor the control registers; once it has seen a character
the "ignore LF" flag is clear -/
theorem eatSkipLf_fields (o : Opts) (m : Mach) (inp : Str) :
    (eatSkipLf o m inp).1.atEof = m.atEof ∧ (eatSkipLf o m inp).1.tempBuf = m.tempBuf ∧
    (eatSkipLf o m inp).1.state = m.state ∧ (eatSkipLf o m inp).1.charRef = m.charRef ∧
    (∀ c, peek m inp = some c → (eatSkipLf o m inp).1.ignoreLf = false) := by
  unfold eatSkipLf
  split
  · cases hpk : peek m inp with
    | none => simp
    | some c =>
      simp only
      split
      · rename_i hc
        have hpk' : peek (m.setIgnoreLf false) inp = some c := by simpa [peek] using hpk
        obtain ⟨c', m', i', hg, h1, h2, h3, h4, h5⟩ := getChar_of_peek o (m.setIgnoreLf false) inp c hpk' rfl
        simp only [hg, h2, h3, h4, h5]
        refine ⟨by simp, by simp, by simp, by simp, fun _ _ => ?_⟩
        rw [h1, hc]; simp
      · simp
  · rename_i hil
    refine ⟨rfl, rfl, rfl, rfl, fun _ _ => by simpa using hil⟩

@[simp] theorem eatSkipLf_atEof (o : Opts) (m : Mach) (inp : Str) : (eatSkipLf o m inp).1.atEof = m.atEof :=
  (eatSkipLf_fields o m inp).1

/-- core of `eat` once the `ignore_lf` prologue is done -/
def eatCore (m1 : Mach) (all : Str) (pat : Str) : Option Bool × Mach × Str :=
  match eatCmp eqCi all pat with
  | some true => (some true, m1.setTempBuf [], all.drop pat.length)
  | some false => (some false, m1.setTempBuf [], all)
  | none =>
    if m1.atEof then (some false, m1.setTempBuf [], all)
    else (none, m1.setTempBuf all, [])

theorem eat_eq_core (o : Opts) (m : Mach) (inp pat : Str) :
    eat o m inp pat = eatCore (eatSkipLf o m inp).1 ((eatSkipLf o m inp).1.tempBuf ++ (eatSkipLf o m inp).2) pat := rfl

theorem eatCore_mono (m1 m' : Mach) (all inp' e pat : Str) (b : Bool)
    (hat : m1.atEof = false) (h : eatCore m1 all pat = (some b, m', inp')) :
    eatCore m1 (all ++ e) pat = (some b, m', inp' ++ e) := by
  unfold eatCore at h ⊢
  cases hc : eatCmp eqCi all pat with
  | none => simp [hc, hat] at h
  | some b' =>
    have hc' := eatCmp_mono eqCi all pat e b' hc
    simp only [hc, hc'] at h ⊢
    cases b' with
    | true =>
      simp only [Prod.mk.injEq] at h ⊢
      obtain ⟨h1, h2, h3⟩ := h
      refine ⟨h1, h2, ?_⟩
      rw [← h3]
      exact eatCmp_drop eqCi _ pat e hc
    | false =>
      simp only [Prod.mk.injEq] at h ⊢
      obtain ⟨h1, h2, h3⟩ := h
      exact ⟨h1, h2, by rw [← h3]⟩

theorem eat_mono (o : Opts) (m m' : Mach) (inp inp' e pat : Str) (b : Bool)
    (hg : EatOk m) (hpat : pat ≠ []) (hat : m.atEof = false)
    (h : eat o m inp pat = (some b, m', inp')) :
    eat o m (inp ++ e) pat = (some b, m', inp' ++ e) := by
  rw [eat_eq_core] at h ⊢
  cases hpk : peek m inp with
  | some c =>
    rw [eatSkipLf_mono o m inp e c hpk]
    simp only [← List.append_assoc]
    exact eatCore_mono _ _ _ _ _ _ _ (by simp [hat]) h
  | none =>
    obtain ⟨hr, hinp⟩ := peek_none m inp hpk
    subst hinp
    cases hil : m.ignoreLf with
    | true =>
      have ht := hg hil
      rw [eatSkipLf_none o m [] hpk] at h
      simp [eatCore, ht, eatCmp_nil_none eqCi pat hpat, hat] at h
    | false =>
      rw [eatSkipLf_id o m _ hil] at h ⊢
      simp only [List.append_nil, List.nil_append] at h ⊢
      have := eatCore_mono m m' m.tempBuf inp' e pat b hat h
      simpa using this

/-- shape of a suspended `eat`, and **resumability**: any later `eat` (the state re-executes its
whole look-ahead sequence) behaves as on the concatenated input; the stash stays sound -/
theorem eat_none (o : Opts) (m m' : Mach) (inp inp' pat : Str)
    (hg : EatOk m) (h : eat o m inp pat = (none, m', inp')) :
    inp' = [] ∧ EatOk m' ∧ m'.atEof = m.atEof ∧
    ∀ (e pat' : Str), eat o m' e pat' = eat o m (inp ++ e) pat' := by
  rw [eat_eq_core] at h
  unfold eatCore at h
  split at h
  · simp at h
  · simp at h
  · split at h
    · simp at h
    · simp only [Prod.mk.injEq, true_and] at h
      obtain ⟨h1, h2⟩ := h
      refine ⟨h2.symm, ?_, by simp [← h1], ?_⟩
      · -- EatOk m'
        subst h1
        intro hil
        simp only [setTempBuf_ignoreLf] at hil
        -- ignoreLf survived the prologue ⇒ nothing was available ⇒ the stash is the (empty) old one
        cases hpk : peek m inp with
        | none =>
          rw [eatSkipLf_none o m inp hpk] at hil ⊢
          have := hg hil
          obtain ⟨_, hinp⟩ := peek_none m inp hpk
          simp [this, hinp]
        | some c =>
          exfalso
          have := (eatSkipLf_fields o m inp).2.2.2.2 c hpk
          rw [this] at hil; cases hil
      · intro e pat'
        subst h1
        rw [eat_eq_core, eat_eq_core]
        cases hpk : peek m inp with
        | some c =>
          rw [eatSkipLf_mono o m inp e c hpk]
          -- after the prologue saw a character the flag is clear
          have hil : (eatSkipLf o m inp).1.ignoreLf = false := (eatSkipLf_fields o m inp).2.2.2.2 c hpk
          rw [eatSkipLf_id o _ e (by simpa using hil)]
          simp [eatCore, List.append_assoc, setTempBuf_setTempBuf]
        | none =>
          obtain ⟨hr, hinp⟩ := peek_none m inp hpk
          subst hinp
          rw [eatSkipLf_none o m [] hpk]
          simp only [List.append_nil, List.nil_append]
          cases hil : m.ignoreLf with
          | true =>
            have ht := hg hil
            have : m.setTempBuf m.tempBuf = m := rfl
            rw [this]
          | false =>
            have : m.setTempBuf m.tempBuf = m := rfl
            rw [this]


/-! ### pop_except_from / data-state read -/

theorem popExceptFrom_mono (o : Opts) (set : List Char) (m m' : Mach) (r : SetRes) (inp inp' e : Str)
    (h : popExceptFrom o set m inp = (some r, m', inp')) :
    popExceptFrom o set m (inp ++ e) = (some r, m', inp' ++ e) := by
  unfold popExceptFrom at h ⊢
  split
  · rename_i hs
    simp only [hs, ↓reduceIte] at h
    cases hg : getChar o m inp with
    | mk c rest =>
      cases c with
      | none => simp [hg] at h
      | some c =>
        obtain ⟨m1, i1⟩ := rest
        rw [getChar_mono o m m1 c inp i1 e hg]
        simp_all
  · rename_i hs
    simp only [hs, Bool.false_eq_true, ↓reduceIte] at h
    cases inp with
    | nil => simp at h
    | cons x xs =>
      simp only [List.cons_append] at h ⊢
      split
      · rename_i hx
        simp only [hx, ↓reduceIte] at h
        cases hg : preprocess o m x xs with
        | mk c rest =>
          cases c with
          | none => simp [hg] at h
          | some c =>
            obtain ⟨m1, i1⟩ := rest
            rw [preprocess_mono o m m1 x c xs i1 e hg]
            simp_all
      · rename_i hx
        simp only [hx, Bool.false_eq_true, ↓reduceIte] at h
        simp_all

theorem popExceptFrom_none (o : Opts) (set : List Char) (m m' : Mach) (inp inp' : Str)
    (h : popExceptFrom o set m inp = (none, m', inp')) :
    inp' = [] ∧ m.reconsume = false ∧
      ((inp = [] ∧ m' = m) ∨ (inp = ['\n'] ∧ m.ignoreLf = true ∧ m' = m.setIgnoreLf false)) := by
  unfold popExceptFrom at h
  split at h
  · cases hg : getChar o m inp with
    | mk c rest =>
      obtain ⟨m1, i1⟩ := rest
      cases c with
      | some c => simp [hg] at h
      | none =>
        simp only [hg, Option.map_none, Prod.mk.injEq, true_and] at h
        obtain ⟨h1, h2⟩ := h
        subst h1 h2
        exact getChar_none o m m1 inp i1 hg
  · rename_i hs
    have hs' : o.exactErrors = false ∧ m.reconsume = false ∧ m.ignoreLf = false := by
      simpa [and_assoc] using hs
    cases inp with
    | nil => simp at h; simp_all
    | cons x xs =>
      simp only at h
      split at h
      · cases hg : preprocess o m x xs with
        | mk c rest =>
          obtain ⟨m1, i1⟩ := rest
          cases c with
          | some c => simp [hg] at h
          | none =>
            have := preprocess_none o m m1 x xs i1 hg
            simp_all
      · simp at h

/-! ### character-reference sub-tokenizer -/

/-- a char-ref step result with more input appended -/
def CRRes.ext (r : CRRes) (e : Str) : CRRes :=
  match r with
  | .error x => .error x
  | .ok (m, i, cr, st) => .ok (m, i ++ e, cr, st)

def CRRes.notStuck (r : CRRes) : Prop :=
  match r with
  | .ok (_, _, _, .stuck) => False
  | _ => True

theorem unconsume_ext (m : Mach) (inp e buf : Str) :
    unconsume m (inp ++ e) buf = ((unconsume m inp buf).1, (unconsume m inp buf).2 ++ e) := by
  unfold unconsume; split <;> simp [List.append_assoc]

theorem unconsumeNumeric_ext (m : Mach) (inp e : Str) (cr : CharRefSt) :
    unconsumeNumeric m (inp ++ e) cr = (unconsumeNumeric m inp cr).ext e := by
  simp [unconsumeNumeric, CRRes.ext, unconsume_ext]

theorem finishNumericStatus_ext (o : Opts) (m : Mach) (inp e : Str) (cr : CharRefSt) :
    finishNumericStatus o m (inp ++ e) cr = (finishNumericStatus o m inp cr).ext e := by
  unfold finishNumericStatus
  split <;> simp [CRRes.ext]

theorem unconsumeName_ext (m : Mach) (inp e : Str) (cr : CharRefSt) :
    unconsumeName m (inp ++ e) cr = (unconsumeName m inp cr).ext e := by
  unfold unconsumeName
  split <;> simp [CRRes.ext, unconsume_ext]

theorem finishNamed_ext (o : Opts) (m : Mach) (inp e : Str) (cr : CharRefSt) (ec : Option Char) :
    finishNamed o m (inp ++ e) cr ec = (finishNamed o m inp cr ec).ext e := by
  unfold finishNamed
  repeat' split
  all_goals
    first
      | (simp [CRRes.ext, unconsumeName_ext, unconsume_ext]; done)
      | (dsimp only; split <;> simp [CRRes.ext, unconsumeName_ext, unconsume_ext])

theorem unconsumeNumeric_notStuck (m : Mach) (inp : Str) (cr : CharRefSt) :
    (unconsumeNumeric m inp cr).notStuck := by
  simp [unconsumeNumeric, CRRes.notStuck]

theorem finishNumericStatus_notStuck (o : Opts) (m : Mach) (inp : Str) (cr : CharRefSt) :
    (finishNumericStatus o m inp cr).notStuck := by
  unfold finishNumericStatus
  split <;> simp [CRRes.notStuck]

theorem unconsumeName_notStuck (m : Mach) (inp : Str) (cr : CharRefSt) : (unconsumeName m inp cr).notStuck := by
  unfold unconsumeName; split <;> simp [CRRes.notStuck]

theorem finishNamed_notStuck (o : Opts) (m : Mach) (inp : Str) (cr : CharRefSt) (ec : Option Char) :
    (finishNamed o m inp cr ec).notStuck := by
  unfold finishNamed
  repeat' split
  all_goals
    first
      | exact unconsumeName_notStuck _ _ _
      | (simp [CRRes.notStuck]; done)
      | (dsimp only; split <;> first | exact unconsumeName_notStuck _ _ _ | simp [CRRes.notStuck])

/-- a character other than LF that can be peeked can be read, whatever the "ignore LF" flag -/
theorem getChar_of_peek_ne (o : Opts) (m : Mach) (inp : Str) (c : Char)
    (h : peek m inp = some c) (hc : c ≠ '\n' ∨ m.reconsume = true) :
    ∃ c' m' i', getChar o m inp = (some c', m', i') := by
  unfold peek at h
  unfold getChar
  split
  · exact ⟨_, _, _, rfl⟩
  · rename_i hr
    cases inp with
    | nil => simp [hr] at h
    | cons x xs =>
      simp only [hr, Bool.false_eq_true, ↓reduceIte, List.head?_cons, Option.some.injEq] at h
      subst h
      have hx : x ≠ '\n' := by rcases hc with hc | hc; exact hc; simp [hc] at hr
      simp only [preprocess, hx, ↓reduceIte]
      split <;> exact ⟨_, _, _, rfl⟩

theorem discardChar_ok (o : Opts) (m : Mach) (inp : Str) (c : Char)
    (h : peek m inp = some c) (hc : c ≠ '\n') :
    ∃ m' i', discardChar o m inp = .ok (m', i') ∧ ∀ e, discardChar o m (inp ++ e) = .ok (m', i' ++ e) := by
  obtain ⟨c', m', i', hg⟩ := getChar_of_peek_ne o m inp c h (Or.inl hc)
  refine ⟨m', i', by simp [discardChar, hg], fun e => ?_⟩
  simp [discardChar, getChar_mono o m m' c' inp i' e hg]

/-- **monotone**: a char-ref step that is not stuck does not depend on what follows -/
theorem crStep_mono (o : Opts) (m : Mach) (inp e : Str) (cr : CharRefSt)
    (h : (crStep o m inp cr).notStuck) :
    crStep o m (inp ++ e) cr = (crStep o m inp cr).ext e := by
  unfold crStep at h ⊢
  cases hst : cr.state with
  | named =>
    simp only [hst] at h ⊢
    cases hg : getChar o m inp with
    | mk c r =>
      obtain ⟨m1, i1⟩ := r
      cases c with
      | none => simp [hg, CRRes.notStuck] at h
      | some c =>
        rw [getChar_mono o m m1 c inp i1 e hg]
        simp only
        repeat' split
        all_goals simp [CRRes.ext, finishNamed_ext]
  | bogusName =>
    simp only [hst] at h ⊢
    cases hg : getChar o m inp with
    | mk c r =>
      obtain ⟨m1, i1⟩ := r
      cases c with
      | none => simp [hg, CRRes.notStuck] at h
      | some c =>
        rw [getChar_mono o m m1 c inp i1 e hg]
        simp only
        repeat' split
        all_goals simp [CRRes.ext, unconsumeName_ext]
  | begin =>
    simp only [hst] at h ⊢
    cases hpk : peek m inp with
    | none => simp [hpk, CRRes.notStuck] at h
    | some c =>
      simp only [peek_mono m inp e c hpk]
      by_cases hws : (c = '\t' || c = '\n' || c = '\x0c' || c = ' ' || c = '<' || c = '&') = true
      · simp [hws, CRRes.ext]
      · simp only [hws, Bool.false_eq_true, ↓reduceIte]
        by_cases hadd : some c = cr.addnlAllowed
        · simp [hadd, CRRes.ext]
        · simp only [hadd, ↓reduceIte]
          by_cases hh : c = '#'
          · obtain ⟨m', i', hd1, hd2⟩ := discardChar_ok o m inp c hpk (by rw [hh]; decide)
            simp [hh, hd1, hd2 e, CRRes.ext]
          · simp [hh, CRRes.ext]
  | octothorpe =>
    simp only [hst] at h ⊢
    cases hpk : peek m inp with
    | none => simp [hpk, CRRes.notStuck] at h
    | some c =>
      simp only [peek_mono m inp e c hpk]
      by_cases hx : (c = 'x' || c = 'X') = true
      · obtain ⟨m', i', hd1, hd2⟩ := discardChar_ok o m inp c hpk (by
          intro hc; subst hc; simp at hx)
        simp [hx, hd1, hd2 e, CRRes.ext]
      · simp [hx, CRRes.ext]
  | numeric base =>
    simp only [hst] at h ⊢
    cases hpk : peek m inp with
    | none => simp [hpk, CRRes.notStuck] at h
    | some c =>
      simp only [peek_mono m inp e c hpk]
      cases hd : toDigit c base with
      | some n =>
        obtain ⟨m', i', hd1, hd2⟩ := discardChar_ok o m inp c hpk (by
          intro hc; subst hc; simp [toDigit] at hd)
        simp [hd1, hd2 e, CRRes.ext]
      | none =>
        simp only
        split
        · exact unconsumeNumeric_ext m inp e cr
        · simp [CRRes.ext]
  | numericSemicolon =>
    simp only [hst] at h ⊢
    cases hpk : peek m inp with
    | none => simp [hpk, CRRes.notStuck] at h
    | some c =>
      simp only [peek_mono m inp e c hpk]
      by_cases hsc : c = ';'
      · obtain ⟨m', i', hd1, hd2⟩ := discardChar_ok o m inp c hpk (by rw [hsc]; decide)
        simp [hsc, hd1, hd2 e, finishNumericStatus_ext]
      · simp [hsc, finishNumericStatus_ext]

end H5V.Model.XmlTok
