import H5V.Lemmas.XmlShapeLex
/-!
C17, shape of parsed trees, part 5 (tokenizer side): the three transition tables of the XML tokenizer model
preserve `LexE` — `transChar_lexE` (the `get_char!` table outside the ten comment states, which are
`XmlShapeCmt.transChar_cmt`), `transSet_lex` (the `pop_except_from` table), `transEof_lex` (`eof_step`).
-/
namespace H5V.Lemmas.XmlShapeLex
open H5V.Model.XmlTok H5V.Lemmas.XmlRT

/-! ### `LexE` through the helpers -/

theorem modeOK_congr {md : Mode} {m m' : Mach} (h : ModeOK md m) (e1 : m'.tagKind = m.tagKind)
    (e2 : m'.tagName = m.tagName) (e3 : m'.piTarget = m.piTarget) : ModeOK md m' := by
  cases md with
  | other => trivial
  | stag => simp only [ModeOK] at h ⊢; rw [e1, e2]; exact h
  | etag => simp only [ModeOK] at h ⊢; rw [e1]; exact h
  | pi => simp only [ModeOK] at h ⊢; rw [e3]; exact h

/-- an operation that leaves the state and the mode-relevant registers alone -/
theorem Lex_keep {m m' : Mach} (h : LexE m) (hg : LexG m') (es : m'.state = m.state)
    (e1 : m'.tagKind = m.tagKind) (e2 : m'.tagName = m.tagName) (e3 : m'.piTarget = m.piTarget) : LexE m' :=
  ⟨hg, by rw [es]; exact modeOK_congr h.2 e1 e2 e3⟩

section
variable {m : Mach}

theorem Lex_emitErr (h : LexE m) (s : String) : LexE (emitErr m s) := Lex_keep h (LexG_emitErr h.1 s) rfl rfl rfl rfl
theorem Lex_emitT (h : LexE m) {t : Token} (ht : TokA t) : LexE (emit m t) :=
  Lex_keep h (LexG_emit h.1 ht) rfl rfl rfl rfl
theorem Lex_emitE (h : LexE m) (s : Str) : LexE (emit m (.error s)) := Lex_keep h (LexG_emit h.1 trivial) rfl rfl rfl rfl
theorem Lex_badChar (h : LexE m) (o : Opts) : LexE (badChar o m) :=
  Lex_keep h (LexG_badChar h.1 o) (by simp) (by unfold badChar; split <;> rfl) (by unfold badChar; split <;> rfl)
    (by unfold badChar; split <;> rfl)
theorem Lex_badEof (h : LexE m) (o : Opts) : LexE (badEof o m) :=
  Lex_keep h (LexG_badEof h.1 o) (by simp) (by unfold badEof; split <;> rfl) (by unfold badEof; split <;> rfl)
    (by unfold badEof; split <;> rfl)
theorem Lex_emitChar (h : LexE m) (c : Char) : LexE (emitChar m c) := Lex_keep h (LexG_emitChar h.1 c) rfl rfl rfl rfl
theorem Lex_emitChars (h : LexE m) {s : Str} (hs : s ≠ []) : LexE (emitChars m s) :=
  Lex_keep h (LexG_emitChars h.1 hs) rfl rfl rfl rfl
theorem Lex_consumeCharRef (h : LexE m) (x : Option Char) : LexE (consumeCharRef x m) :=
  Lex_keep h (LexG_consumeCharRef h.1 x) rfl rfl rfl rfl
theorem Lex_pushValue (h : LexE m) (c : Char) : LexE (pushValue c m) := Lex_keep h (LexG_pushValue h.1 c) rfl rfl rfl rfl
theorem Lex_appendValue (h : LexE m) (s : Str) : LexE (appendValue s m) :=
  Lex_keep h (LexG_appendValue h.1 s) rfl rfl rfl rfl
theorem Lex_pushComment (h : LexE m) {c : Char} (hc : c ≠ '>' ∨ GtOk m.comment) : LexE (pushComment c m) :=
  Lex_keep h (LexG_pushComment h.1 hc) rfl rfl rfl rfl
theorem Lex_appendComment (h : LexE m) (s : String) (hs : ∀ c ∈ s.toList, c ≠ '>') : LexE (appendComment s m) :=
  Lex_keep h (LexG_appendComment h.1 s hs) rfl rfl rfl rfl
theorem Lex_clearComment (h : LexE m) : LexE (clearComment m) := Lex_keep h (LexG_clearComment h.1) rfl rfl rfl rfl
theorem Lex_emitComment (h : LexE m) : LexE (emitComment m) := Lex_keep h (LexG_emitComment h.1) rfl rfl rfl rfl
theorem Lex_createDoctype (h : LexE m) : LexE (createDoctype m) := Lex_keep h (LexG_createDoctype h.1) rfl rfl rfl rfl
theorem Lex_pushDoctypeName (h : LexE m) {c : Char} (hc : DtCh c) : LexE (pushDoctypeName c m) :=
  Lex_keep h (LexG_pushDoctypeName h.1 hc) rfl rfl rfl rfl
theorem Lex_pushDoctypeId (h : LexE m) (k : DoctypeKind) (c : Char) : LexE (pushDoctypeId k c m) :=
  Lex_keep h (LexG_pushDoctypeId h.1 k c) (by simp) (by cases k <;> rfl) (by cases k <;> rfl) (by cases k <;> rfl)
theorem Lex_clearDoctypeId (h : LexE m) (k : DoctypeKind) : LexE (clearDoctypeId k m) :=
  Lex_keep h (LexG_clearDoctypeId h.1 k) (by simp) (by cases k <;> rfl) (by cases k <;> rfl) (by cases k <;> rfl)
theorem Lex_emitDoctype (h : LexE m) : LexE (emitDoctype m) := Lex_keep h (LexG_emitDoctype h.1) rfl rfl rfl rfl
theorem Lex_pushName (h : LexE m) {c : Char} (hc : NmCh c) (he : c ≠ '=') : LexE (pushName c m) :=
  Lex_keep h (LexG_pushName h.1 hc he) rfl rfl rfl rfl
theorem Lex_pushPiData (h : LexE m) {c : Char} (hq : c ≠ '?') : LexE (pushPiData c m) :=
  Lex_keep h (LexG_pushPiData h.1 hq) rfl rfl rfl rfl
theorem Lex_createAttr (h : LexE m) {c : Char} (hc : NmCh c) : LexE (createAttr c m) := by
  obtain ⟨e1, e2, e3⟩ := finishAttribute_tag m
  exact Lex_keep h (LexG_createAttr h.1 hc) (by simp) e2 e1 e3

theorem Lex_pushTag (h : LexE m) {c : Char} (hc : NmCh c) : LexE (pushTag c m) := by
  refine ⟨LexG_pushTag h.1 c, ?_⟩
  have h2 := h.2
  show ModeOK (modeOf m.state) (pushTag c m)
  cases hm : modeOf m.state with
  | other => trivial
  | stag => rw [hm] at h2; exact ⟨h2.1, tagNameLex_snoc h2.2 hc⟩
  | etag => rw [hm] at h2; exact h2
  | pi => rw [hm] at h2; exact h2

theorem Lex_pushPiTarget (h : LexE m) {c : Char} (hc : NoWs3 c) (hq : c ≠ '?') : LexE (pushPiTarget c m) := by
  refine ⟨LexG_pushPiTarget h.1 hc hq, ?_⟩
  have h2 := h.2
  show ModeOK (modeOf m.state) (pushPiTarget c m)
  cases hm : modeOf m.state with
  | other => trivial
  | stag => rw [hm] at h2; exact h2
  | etag => rw [hm] at h2; exact h2
  | pi => simp [ModeOK, pushPiTarget]

theorem Lex_setEmptyTag (h : LexE m) (hm : modeOf m.state = .stag) : LexE (setEmptyTag m) := by
  refine ⟨LexG_setEmptyTag h.1, ?_⟩
  have h2 := h.2
  show ModeOK (modeOf m.state) (setEmptyTag m)
  rw [hm] at h2 ⊢
  exact ⟨Or.inr rfl, h2.2⟩

/-- a transition into a state of mode `other` -/
theorem Lex_to_other (h : LexE m) (s : State) (hs : modeOf s = .other) : LexE (to s m) :=
  ⟨LexG_to h.1 s, by show ModeOK (modeOf s) _; rw [hs]; trivial⟩
theorem Lex_reconsumeTo_other (h : LexE m) (s : State) (hs : modeOf s = .other) : LexE (reconsumeTo s m) :=
  ⟨LexG_reconsumeTo h.1 s, by show ModeOK (modeOf s) _; rw [hs]; trivial⟩
/-- a transition inside a mode -/
theorem Lex_to_md (h : LexE m) (s : State) (md : Mode) (h1 : modeOf m.state = md) (h2 : modeOf s = md) :
    LexE (to s m) :=
  ⟨LexG_to h.1 s, by
    show ModeOK (modeOf s) (to s m)
    rw [h2, ← h1]; exact modeOK_congr h.2 rfl rfl rfl⟩
theorem Lex_reconsumeTo_md (h : LexE m) (s : State) (md : Mode) (h1 : modeOf m.state = md) (h2 : modeOf s = md) :
    LexE (reconsumeTo s m) :=
  ⟨LexG_reconsumeTo h.1 s, by
    show ModeOK (modeOf s) (reconsumeTo s m)
    rw [h2, ← h1]; exact modeOK_congr h.2 rfl rfl rfl⟩

/-- `<` + first name character: a start tag begins -/
theorem Lex_enter_stag (h : LexE m) {c : Char} (hn : TagNameLex [c]) : LexE (to .tagName (createTag .startTag c m)) :=
  ⟨LexG_to (LexG_createTag h.1 _ c) _, ⟨Or.inl rfl, hn⟩⟩
theorem Lex_enter_etag (h : LexE m) (c : Char) : LexE (to .endTagName (createTag .endTag c m)) :=
  ⟨LexG_to (LexG_createTag h.1 _ c) _, rfl⟩
theorem Lex_enter_pi (h : LexE m) {c : Char} (hc : NoWs3 c) : LexE (to .piTarget (createPi c m)) :=
  ⟨LexG_to (LexG_createPi h.1 hc) _, by show [c] ≠ []; simp⟩

theorem emitCurrentTag_lex {m' : Mach} (hg : LexG m')
    (hn : (m'.tagKind = .startTag ∨ m'.tagKind = .emptyTag) → TagNameLex m'.tagName)
    (hs : modeOf m'.state = .other) : LexE (emitCurrentTag m') :=
  ⟨LexG_emitCurrentTag hg hn, by rw [emitCurrentTag_state, hs]; trivial⟩

/-- a tag is emitted from inside a start tag or an end tag -/
theorem Lex_emitTag (h : LexE m) (s : State) (hs : modeOf s = .other)
    (hm : modeOf m.state = .stag ∨ modeOf m.state = .etag) : LexE (emitTag s m) := by
  unfold emitTag
  apply emitCurrentTag_lex (LexG_to h.1 s) _ hs
  intro hk
  have h2 := h.2
  rcases hm with hm | hm
  · rw [hm] at h2; exact h2.2
  · rw [hm] at h2
    have h2' : m.tagKind = .endTag := h2
    have hk' : m.tagKind = .startTag ∨ m.tagKind = .emptyTag := hk
    rw [h2'] at hk'; rcases hk' with e | e <;> cases e
theorem Lex_emitShortTag (h : LexE m) (s : State) (hs : modeOf s = .other) : LexE (emitShortTag s m) := by
  unfold emitShortTag
  dsimp only
  apply emitCurrentTag_lex _ _ hs
  · exact ⟨h.1.out, h.1.aname, h.1.attrs, h.1.nodup, h.1.piT, h.1.piD, h.1.dt, h.1.scan⟩
  · intro hk; rcases hk with e | e <;> cases e
theorem Lex_emitEmptyTag (h : LexE m) (s : State) (hs : modeOf s = .other) (hm : modeOf m.state = .stag) :
    LexE (emitEmptyTag s m) := by
  unfold emitEmptyTag
  dsimp only
  apply emitCurrentTag_lex _ _ hs
  · exact ⟨h.1.out, h.1.aname, h.1.attrs, h.1.nodup, h.1.piT, h.1.piD, h.1.dt, h.1.scan⟩
  · intro _; have h2 := h.2; rw [hm] at h2; exact h2.2
theorem Lex_emitStartTag (h : LexE m) (s : State) (hs : modeOf s = .other) (hm : modeOf m.state = .stag) :
    LexE (emitStartTag s m) := by
  unfold emitStartTag
  dsimp only
  apply emitCurrentTag_lex _ _ hs
  · exact ⟨h.1.out, h.1.aname, h.1.attrs, h.1.nodup, h.1.piT, h.1.piD, h.1.dt, h.1.scan⟩
  · intro _; have h2 := h.2; rw [hm] at h2; exact h2.2

/-- a PI is emitted from inside a PI -/
theorem Lex_emitPi_to (h : LexE m) (s : State) (hs : modeOf s = .other) (hm : modeOf m.state = .pi) :
    LexE (emitPi (to s m)) := by
  have h2 := h.2
  rw [hm] at h2
  exact ⟨LexG_emitPi (LexG_to h.1 s) h2, by show ModeOK (modeOf s) _; rw [hs]; trivial⟩

end

/-! ### character side conditions -/

theorem ws3_of {c : Char} (h : ¬ isWs3 c = true) : NoWs3 c := by
  simp only [isWs3, Bool.or_eq_true, decide_eq_true_eq, not_or] at h
  exact ⟨h.1.1, h.1.2, h.2⟩

theorem nmCh_mk {c : Char} (hq : QC c) (hw : ¬ isWs3 c = true) (h1 : ¬ c = '>') (h2 : ¬ c = '/') : NmCh c := by
  obtain ⟨a, b, d⟩ := ws3_of hw
  exact ⟨a, b, d, h2, h1, hq.1, hq.2⟩

theorem ws4_of {c : Char} (h : ¬ isWs4 c = true) : c ≠ '\t' ∧ c ≠ '\n' ∧ c ≠ '\x0c' ∧ c ≠ ' ' := by
  simp only [isWs4, Bool.or_eq_true, decide_eq_true_eq, not_or] at h
  exact ⟨h.1.1.1, h.1.1.2, h.1.2, h.2⟩

theorem dtCh_mk {c : Char} (hq : QC c) (hw : ¬ isWs4 c = true) (h1 : ¬ c = '>') : DtCh (toAsciiLower c) := by
  obtain ⟨a, b, d, e⟩ := ws4_of hw
  exact dtCh_lower hq a b d e h1

/-! ### the `get_char!` table -/

/-- states outside tags and PIs: every arm stays outside, or enters a start tag / end tag / PI -/
macro "lex_other" : tactic =>
  `(tactic| (repeat' (first
      | assumption
      | (refine Lex_to_other ?_ _ rfl) | (refine Lex_reconsumeTo_other ?_ _ rfl)
      | with_reducible apply Lex_emitChar | with_reducible apply Lex_badChar | with_reducible apply Lex_badEof
      | with_reducible apply Lex_emitErr | with_reducible apply Lex_emitComment
      | (refine Lex_pushComment ?_ (Or.inl (by assumption)))
      | with_reducible apply Lex_clearComment | with_reducible apply Lex_createDoctype
      | with_reducible apply Lex_pushDoctypeId | with_reducible apply Lex_clearDoctypeId
      | with_reducible apply Lex_emitDoctype | with_reducible apply Lex_consumeCharRef
      | (refine Lex_emitShortTag ?_ _ rfl)
      | (refine Lex_pushDoctypeName ?_ (dtCh_mk (by assumption) (by assumption) (by assumption))))))

/-- the ten states inside `<!--` … `-->` (handled in `XmlShapeCmt`) -/
def isCmtSt : State → Bool
  | .commentStart | .commentStartDash | .comment | .commentLessThan | .commentLessThanBang
  | .commentLessThanBangDash | .commentLessThanBangDashDash | .commentEndDash | .commentEnd | .commentEndBang => true
  | _ => false

theorem transChar_lexE (o : Opts) {m : Mach} (h : LexE m) {c : Char} (hc : QC c) (hnc : isCmtSt m.state = false) :
    LexE (transChar o m c).1 := by
  unfold transChar
  split
  -- tagState
  · rename_i hst
    dsimp only
    split
    · lex_other
    · split
      · lex_other
      · split
        · lex_other
        · split
          · lex_other
          · rename_i h1 h2 h3 h4
            apply Lex_enter_stag h
            simp only [Bool.or_eq_true, decide_eq_true_eq, not_or] at h4
            exact ⟨c, [], rfl, ⟨h4.1.1.1.1.1, h4.1.1.1.1.2, h4.1.1.1.2, h2, h4.2, hc.1, hc.2⟩,
              ⟨h1, h3, h4.1.1.2, h4.1.2⟩, by simp⟩
  -- endTagState
  · dsimp only
    split
    · lex_other
    · split
      · lex_other
      · exact Lex_enter_etag h c
  -- endTagName
  · rename_i hst
    have hmd : modeOf m.state = .etag := by rw [hst]; rfl
    dsimp only
    split
    · exact Lex_to_md h _ _ hmd rfl
    · split
      · exact Lex_to_md (Lex_badChar h o) _ .etag (by simpa using hmd) rfl
      · split
        · exact Lex_emitTag h _ rfl (Or.inr hmd)
        · rename_i h1 h2 h3
          exact Lex_pushTag h (nmCh_mk hc h1 h3 h2)
  -- endTagNameAfter
  · rename_i hst
    have hmd : modeOf m.state = .etag := by rw [hst]; rfl
    dsimp only
    split
    · exact Lex_emitTag h _ rfl (Or.inr hmd)
    · split
      · exact h
      · exact Lex_emitErr h _
  -- pi
  · dsimp only
    split
    · lex_other
    · rename_i h1
      exact Lex_enter_pi h (ws3_of h1)
  -- piTarget
  · rename_i hst
    have hmd : modeOf m.state = .pi := by rw [hst]; rfl
    dsimp only
    split
    · exact Lex_to_md h _ _ hmd rfl
    · split
      · exact Lex_to_md h _ _ hmd rfl
      · rename_i h1 h2
        exact Lex_pushPiTarget h (ws3_of h1) h2
  -- piTargetAfter
  · rename_i hst
    have hmd : modeOf m.state = .pi := by rw [hst]; rfl
    dsimp only
    split
    · exact h
    · exact Lex_reconsumeTo_md h _ _ hmd rfl
  -- piData
  · rename_i hst
    have hmd : modeOf m.state = .pi := by rw [hst]; rfl
    dsimp only
    split
    · exact Lex_to_md h _ _ hmd rfl
    · rename_i h1; exact Lex_pushPiData h h1
  -- piAfter
  · rename_i hst
    have hmd : modeOf m.state = .pi := by rw [hst]; rfl
    dsimp only
    split
    · exact Lex_emitPi_to h _ rfl hmd
    · split
      · exact Lex_to_md h _ _ hmd rfl
      · rename_i h1 h2; exact Lex_pushPiData h h2
  -- the comment states
  · rename_i hst; rw [hst] at hnc; cases hnc
  · rename_i hst; rw [hst] at hnc; cases hnc
  · rename_i hst; rw [hst] at hnc; cases hnc
  · rename_i hst; rw [hst] at hnc; cases hnc
  · rename_i hst; rw [hst] at hnc; cases hnc
  · rename_i hst; rw [hst] at hnc; cases hnc
  · rename_i hst; rw [hst] at hnc; cases hnc
  · rename_i hst; rw [hst] at hnc; cases hnc
  · rename_i hst; rw [hst] at hnc; cases hnc
  · rename_i hst; rw [hst] at hnc; cases hnc
  -- bogusComment, cdata …
  · dsimp only; (repeat' split) <;> lex_other
  · dsimp only; (repeat' split) <;> lex_other
  · dsimp only; (repeat' split) <;> lex_other
  · dsimp only; (repeat' split) <;> lex_other
  -- tagName
  · rename_i hst
    have hmd : modeOf m.state = .stag := by rw [hst]; rfl
    dsimp only
    split
    · exact Lex_to_md h _ _ hmd rfl
    · split
      · exact Lex_emitTag h _ rfl (Or.inl hmd)
      · split
        · exact Lex_to_md (Lex_setEmptyTag h hmd) _ .stag (by simpa using hmd) rfl
        · rename_i h1 h2 h3
          exact Lex_pushTag h (nmCh_mk hc h1 h2 h3)
  -- tagEmpty
  · rename_i hst
    have hmd : modeOf m.state = .stag := by rw [hst]; rfl
    dsimp only
    split
    · exact Lex_emitEmptyTag h _ rfl hmd
    · exact Lex_reconsumeTo_md h _ _ hmd rfl
  -- tagAttrNameBefore
  · rename_i hst
    have hmd : modeOf m.state = .stag := by rw [hst]; rfl
    dsimp only
    split
    · exact h
    · split
      · exact Lex_emitTag h _ rfl (Or.inl hmd)
      · split
        · exact Lex_to_md (Lex_setEmptyTag h hmd) _ .stag (by simpa using hmd) rfl
        · split
          · exact Lex_badChar h o
          · rename_i h1 h2 h3 h4
            exact Lex_to_md (Lex_createAttr h (nmCh_mk hc h1 h2 h3)) _ .stag (by simpa using hmd) rfl
  -- tagAttrName
  · rename_i hst
    have hmd : modeOf m.state = .stag := by rw [hst]; rfl
    dsimp only
    split
    · exact Lex_to_md h _ _ hmd rfl
    · split
      · exact Lex_emitTag h _ rfl (Or.inl hmd)
      · split
        · exact Lex_to_md h _ _ hmd rfl
        · split
          · exact Lex_to_md (Lex_setEmptyTag h hmd) _ .stag (by simpa using hmd) rfl
          · rename_i h1 h2 h3 h4
            exact Lex_pushName h (nmCh_mk hc h3 h2 h4) h1
  -- tagAttrNameAfter
  · rename_i hst
    have hmd : modeOf m.state = .stag := by rw [hst]; rfl
    dsimp only
    split
    · exact h
    · split
      · exact Lex_to_md h _ _ hmd rfl
      · split
        · exact Lex_emitTag h _ rfl (Or.inl hmd)
        · split
          · exact Lex_to_md (Lex_setEmptyTag h hmd) _ .stag (by simpa using hmd) rfl
          · rename_i h1 h2 h3 h4
            exact Lex_to_md (Lex_createAttr h (nmCh_mk hc h1 h3 h4)) _ .stag (by simpa using hmd) rfl
  -- tagAttrValueBefore
  · rename_i hst
    have hmd : modeOf m.state = .stag := by rw [hst]; rfl
    dsimp only
    split
    · exact h
    · split
      · exact Lex_to_md h _ _ hmd rfl
      · split
        · exact Lex_to_md h _ _ hmd rfl
        · split
          · exact Lex_reconsumeTo_md h _ _ hmd rfl
          · split
            · exact Lex_emitTag h _ rfl (Or.inl hmd)
            · exact Lex_to_md (Lex_pushValue h c) _ .stag (by simpa using hmd) rfl
  -- doctype states
  · dsimp only; (repeat' split) <;> lex_other
  · dsimp only; (repeat' split) <;> lex_other
  · dsimp only; (repeat' split) <;> lex_other
  · dsimp only; (repeat' split) <;> lex_other
  · dsimp only; (repeat' split) <;> lex_other
  · dsimp only; (repeat' split) <;> lex_other
  · dsimp only; (repeat' split) <;> lex_other
  · dsimp only; (repeat' split) <;> lex_other
  · dsimp only; (repeat' split) <;> lex_other
  · dsimp only; (repeat' split) <;> lex_other
  · dsimp only; (repeat' split) <;> lex_other
  · dsimp only; (repeat' split) <;> lex_other
  -- not a get_char state
  all_goals exact h

/-! ### the `pop_except_from` table -/

/-- what `pop_except_from` hands to the table: a raw run is never empty -/
def SetRes.NonEmpty : SetRes → Prop
  | .fromSet _ => True
  | .notFromSet b => b ≠ []

theorem transSet_lex {m : Mach} (h : LexE m) {r : SetRes} (hr : SetRes.NonEmpty r) : LexE (transSet m r).1 := by
  unfold transSet
  split
  · dsimp only; (repeat' split) <;> lex_other
  · exact Lex_emitChars h hr
  all_goals first
    | exact h
    | exact Lex_appendValue h _
    | (rename_i hst
       have hmd : modeOf m.state = .stag := by rw [hst]; rfl
       dsimp only
       (repeat' split) <;>
         first
           | exact Lex_to_md h _ .stag hmd rfl
           | exact Lex_consumeCharRef h _
           | exact Lex_pushValue h _
           | exact Lex_emitTag h _ rfl (Or.inl hmd))

/-! ### the EOF table -/

theorem transEof_lex (o : Opts) {m : Mach} (h : LexE m) : LexE (transEof o m).1 := by
  unfold transEof
  split
  all_goals dsimp only
  all_goals first
    | (rename_i hst
       have hmd : modeOf m.state = .stag := by rw [hst]; rfl
       first
         | exact Lex_emitTag (Lex_badEof h o) _ rfl (Or.inl (by simpa using hmd))
         | exact Lex_emitStartTag (Lex_badEof h o) _ rfl (by simpa using hmd)
         | exact Lex_to_md (Lex_badEof h o) _ .stag (by simpa using hmd) rfl)
    | (rename_i hst
       have hmd : modeOf m.state = .etag := by rw [hst]; rfl
       exact Lex_emitTag (Lex_badEof h o) _ rfl (Or.inr (by simpa using hmd)))
    | (rename_i hst
       have hmd : modeOf m.state = .pi := by rw [hst]; rfl
       first
         | exact Lex_reconsumeTo_md h _ .pi hmd rfl
         | exact Lex_emitPi_to (Lex_badEof h o) _ rfl (by simpa using hmd))
    | exact Lex_emitT (Lex_emitComment (Lex_badEof h o)) trivial
    | exact Lex_emitT h trivial
    | lex_other

end H5V.Lemmas.XmlShapeLex
