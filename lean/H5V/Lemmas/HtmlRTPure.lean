import H5V.Lemmas.HtmlRTRun2
/-!
C07 round trip, part 5: the tokenizer alone (`Tokenizer::feed` on the whole serialisation, then
`Tokenizer::end`) against a sink that answers `Continue` to every tag.
-/
namespace H5V.Lemmas.HtmlRT
open H5V.Model.HtmlTok

/-- the sink of the tokenizer-only model: a fixed policy, tokens accumulate in `Mach.out` -/
def pureSink (pol : Pol) : Sink Unit := { pol := fun _ => pol, hook := fun m _ => some (m, ()) }

/-- a sink that never switches the tokenizer state nor pauses it -/
def AlwaysContinue (pol : Pol) : Prop := ∀ out t, pol.onTag out t = .continue_

def pureSpec (o : Opts) (pol : Pol) (hp : AlwaysContinue pol) : SinkSpec o (pureSink pol) where
  Inv := fun _ _ _ _ => True
  core := by intro m1 s m1' s1 h; simp only [pureSink, Option.some.injEq, Prod.mk.injEq] at h; rw [← h.1]; rfl
  silent := fun _ _ _ _ m1 _ _ => ⟨m1, (), rfl, trivial⟩
  char := fun _ _ _ _ m1 _ _ _ _ => ⟨m1, (), rfl, trivial⟩
  startPol := fun _ _ _ out n as _ _ => hp out _
  start := fun _ _ _ _ m1 _ _ _ _ _ _ => ⟨m1, (), rfl, trivial⟩
  endPol := fun _ _ _ _ _ _ out _ _ => hp out _
  end_ := fun _ _ _ _ _ _ _ m1 _ _ _ _ => ⟨m1, (), rfl, trivial⟩

/-- the steps of a `GSteps` chain are iterations of `Tokenizer::run` -/
theorem gsteps_pure_run (o : Opts) (pol : Pol) {m inp toks m' inp'} {u u' : Unit}
    (h : GSteps o (pureSink pol) m inp u toks m' inp' u') :
    ∃ k, (∀ fuel, run o pol (fuel + k) m inp = run o pol fuel m' inp') ∧
      m'.out.map (·.1) = toks.reverse ++ m.out.map (·.1) ∧
      (TInv m → TInv m' ∧ mu m' inp' + k ≤ mu m inp) := by
  induction h with
  | refl m inp s => exact ⟨0, fun _ => rfl, by simp, fun hi => ⟨hi, by omega⟩⟩
  | @silent m inp s m1 i1 m1' s1 toks m' i' s' hs hh _ ih =>
    obtain ⟨k, h1, h2, h3⟩ := ih
    simp only [pureSink, Option.some.injEq, Prod.mk.injEq, and_true] at hh
    subst hh
    refine ⟨k + 1, ?_, ?_, ?_⟩
    · intro fuel
      show run o pol ((fuel + k) + 1) m inp = _
      rw [run]; simp only [pureSink] at hs; rw [hs.1]; exact h1 fuel
    · rw [h2, hs.2]
    · intro hi
      have hi1 := step_tinv o pol m inp hi m1 i1 (by simp only [pureSink] at hs; rw [hs.1]; rfl)
      have hd := step_dec o pol m inp hi m1 i1 (by simp only [pureSink] at hs; exact hs.1)
      obtain ⟨a, b⟩ := h3 hi1
      exact ⟨a, by omega⟩
  | @emit m inp s t m1 i1 m1' s1 toks m' i' s' hs hh _ ih =>
    obtain ⟨k, h1, h2, h3⟩ := ih
    simp only [pureSink, Option.some.injEq, Prod.mk.injEq, and_true] at hh
    subst hh
    obtain ⟨ln, hout⟩ := hs.2
    refine ⟨k + 1, ?_, ?_, ?_⟩
    · intro fuel
      show run o pol ((fuel + k) + 1) m inp = _
      rw [run]; simp only [pureSink] at hs; rw [hs.1]; exact h1 fuel
    · rw [h2, hout]; simp
    · intro hi
      have hi1 := step_tinv o pol m inp hi m1 i1 (by simp only [pureSink] at hs; rw [hs.1]; rfl)
      have hd := step_dec o pol m inp hi m1 i1 (by simp only [pureSink] at hs; exact hs.1)
      obtain ⟨a, b⟩ := h3 hi1
      exact ⟨a, by omega⟩

/-- a `GSteps` chain that ends with the tokenizer asking for more input: `run` with the fuel `feed`
hands out returns `Done` there -/
theorem run_of_gsteps (o : Opts) (pol : Pol) {m inp toks m'} {u u' : Unit}
    (h : GSteps o (pureSink pol) m inp u toks m' [] u') (hsus : step o pol m' [] = .suspend m' [])
    (hi : TInv m) (F : Nat) (hF : mu m inp < F) :
    run o pol F m inp = .done m' [] ∧ m'.out.map (·.1) = toks.reverse ++ m.out.map (·.1) := by
  obtain ⟨k, h1, h2, h3⟩ := gsteps_pure_run o pol h
  obtain ⟨_, hmu⟩ := h3 hi
  obtain ⟨n, hn⟩ : ∃ n, F = (n + 1) + k := ⟨F - k - 1, by omega⟩
  refine ⟨?_, h2⟩
  rw [hn, h1 (n + 1), run, hsus]

theorem eofLoop_data (o : Opts) (m : Mach) (h : m.state = .data) : eofLoop o 8 m = .ok (emit m .eof) := by
  simp [eofLoop, transEof, h]

theorem Ctl.setAtEof {m st} (h : Ctl m st) (b : Bool) : Ctl (m.setAtEof b) st := by
  obtain ⟨s1, s2, s3, s4, s5⟩ := h
  constructor <;> simp [Mach.setAtEof, *]

theorem fuelFor_pos (m : Mach) (inp : Str) : ∃ n, fuelFor m inp = n + 1 :=
  ⟨fuelFor m inp - 1, by unfold fuelFor; omega⟩

/-- `Tokenizer::end` from the data state with nothing pending: EOF is delivered -/
theorem finish_idle (o : Opts) (ho : o.exactErrors = false) (pol : Pol) (m : Mach) (h : Ctl m .data) :
    finish o pol m = .ok (emit (m.setAtEof true) .eof) := by
  have h' := h.setAtEof true
  obtain ⟨n, hn⟩ := fuelFor_pos (m.setAtEof true) []
  unfold finish
  simp only [h.cr]
  rw [hn, run, data_suspend o ho pol _ h']
  simp only [List.isEmpty_nil, Bool.not_true, Bool.false_eq_true, if_false]
  exact eofLoop_data o _ h'.st

/-- `Tokenizer::end` inside a fully read reference: the character, then EOF -/
theorem finish_pending (o : Opts) (ho : o.exactErrors = false) (pol : Pol) (m : Mach) (cr : CharRefSt)
    (nm : Str) (v : Nat) (h : CRCtl m .data cr) (hd : CRDone cr nm v) (hr : RefOk nm v) :
    ∃ m2, finish o pol m = .ok m2 ∧
      ∃ l1 l2, m2.out = (.eof, l2) :: (.chars [Char.ofNat v], l1) :: m.out := by
  obtain ⟨s1, s2, s3, s4, s5⟩ := h
  let m1 := (emitChar ((m.setIgnoreLf false).setCharRef none) (Char.ofNat v))
  have hc1 : Ctl m1 .data := by constructor <;> simp [m1, Mach.setIgnoreLf, Mach.setCharRef, *]
  have h' := hc1.setAtEof true
  obtain ⟨n, hn⟩ := fuelFor_pos (m1.setAtEof true) []
  refine ⟨emit (m1.setAtEof true) .eof, ?_, m.line, m.line, ?_⟩
  · unfold finish
    simp only [s2, crEof_done o m cr nm v hd hr.ne hr.semi hr.valid]
    have : processCharRef ((m.setIgnoreLf false).setCharRef none) [Char.ofNat v] = (m1, .cont) := by
      simp [processCharRef, Mach.setIgnoreLf, Mach.setCharRef, s1, m1]
    simp only [this]
    rw [hn, run, data_suspend o ho pol _ h']
    simp only [List.isEmpty_nil, Bool.not_true, Bool.false_eq_true, if_false]
    exact eofLoop_data o _ h'.st
  · simp [m1, emit, emitChar, hr.nz, Mach.setAtEof, Mach.setIgnoreLf, Mach.setCharRef]

/-- the input does not begin with U+FEFF (which `Tokenizer::feed` discards) -/
def noLeadingBom (inp : Str) : Prop := inp.head? ≠ some '﻿'

instance (inp : Str) : Decidable (noLeadingBom inp) := by unfold noLeadingBom; infer_instance

theorem feedBom_noBom (m : Mach) (inp : Str) (h : noLeadingBom inp) (hd : m.discardBom = true) (hne : inp ≠ []) :
    feedBom m inp = (m.setDiscardBom false, inp) := by
  cases inp with
  | nil => exact absurd rfl hne
  | cons c rest =>
    have : c ≠ '﻿' := by intro e; apply h; simp [e]
    simp [feedBom, hd, this]

def mach0 : Mach := { state := .data }

theorem ctl_start : Ctl (mach0.setDiscardBom false) .data := by constructor <;> rfl
theorem noattr_start : NoAttr (mach0.setDiscardBom false) := by constructor <;> rfl
theorem tinv_start : TInv (mach0.setDiscardBom false) := tinv_fresh _ rfl rfl rfl

theorem renderF_eq_nil {f : Forest} (hok : okForest f = true) (h : renderF f = []) : f = [] := by
  cases f with
  | nil => rfl
  | cons t ts => exact absurd h (renderF_ne_nil hok (by simp))

/-- **Layer 3.**  Fed the serialisation of an ordinary forest in one piece and then ended, the
tokenizer (data state, `exact_errors` off, a sink answering `Continue`) delivers exactly the tokens of
the forest — character tokens one character at a time — followed by EOF: no parse error, nothing else. -/
theorem tok_roundtrip (o : Opts) (ho : o.exactErrors = false) (pol : Pol) (hp : AlwaysContinue pol)
    (f : Forest) (hord : Ordinary f) (hbom : noLeadingBom (renderF f)) :
    ∃ m1 m2, feed o pol mach0 [] (renderF f) = .done m1 [] ∧ finish o pol m1 = .ok m2 ∧
      m2.out.reverse.map (·.1) = tokTokens1F f ++ [.eof] := by
  obtain ⟨hok, hadj⟩ := hord
  by_cases hnil : renderF f = []
  · have hf := renderF_eq_nil hok hnil
    subst hf
    refine ⟨mach0, _, by simp [feed, renderF], finish_idle o ho pol mach0 (by constructor <;> rfl), ?_⟩
    simp [emit, Mach.setAtEof, mach0, tokTokens1F]
  · have hfeed : feed o pol mach0 [] (renderF f) =
        run o pol (fuelFor (mach0.setDiscardBom false) (renderF f)) (mach0.setDiscardBom false) (renderF f) := by
      unfold feed
      simp only [List.nil_append, List.isEmpty_iff, hnil, if_false]
      rw [feedBom_noBom mach0 _ hbom rfl hnil]
    rw [hfeed]
    have hmu := mu_lt_fuelFor (mach0.setDiscardBom false) (renderF f)
    have top := seg_top (pureSpec o pol hp) ho [] (rootFrame []) f hok (by simpa [rootFrame] using hadj)
    cases top with
    | idle hseg =>
      obtain ⟨m', _, hg, ⟨hctl, _⟩, _⟩ := hseg (mach0.setDiscardBom false) () ⟨ctl_start, noattr_start⟩ trivial
      obtain ⟨hrun, hout⟩ := run_of_gsteps o pol hg (data_suspend o ho pol m' hctl) tinv_start _ hmu
      refine ⟨m', _, hrun, finish_idle o ho pol m' hctl, ?_⟩
      simp only [emit, Mach.setAtEof, List.reverse_cons, List.map_append, List.map_cons, List.map_nil,
        List.map_reverse]
      rw [hout]; simp [mach0, Mach.setDiscardBom]
    | pending nm v c cs' toks' hr hv htoks _ hseg =>
      obtain ⟨m', _, hg, ⟨cr, hcr, hd, _⟩, _⟩ := hseg (mach0.setDiscardBom false) () ⟨ctl_start, noattr_start⟩ trivial
      obtain ⟨hrun, hout⟩ := run_of_gsteps o pol hg (cr_suspend o pol m' _ cr hcr) tinv_start _ hmu
      obtain ⟨m2, hfin, l1, l2, hout2⟩ := finish_pending o ho pol m' cr nm v hcr hd hr
      refine ⟨m', m2, hrun, hfin, ?_⟩
      rw [hout2, htoks, ← hv]
      simp only [List.reverse_cons, List.map_append, List.map_cons, List.map_nil, List.map_reverse]
      rw [hout]; simp [mach0, Mach.setDiscardBom]

/-! ### merging adjacent character tokens -/

def startsChars : List Token → Bool
  | .chars _ :: _ => true
  | _ => false

theorem mergeChars_startsChars (l : List Token) (h : startsChars l = false) : startsChars (mergeChars l) = false := by
  cases l with
  | nil => rfl
  | cons t r =>
    cases t with
    | chars s => simp [startsChars] at h
    | _ => simp [mergeChars, startsChars]

theorem mergeChars_cons_other (t : Token) (r : List Token) (h : startsChars [t] = false) :
    mergeChars (t :: r) = t :: mergeChars r := by
  cases t with
  | chars s => simp [startsChars] at h
  | _ => simp [mergeChars]

/-- one character token per character, followed by something that does not begin with characters,
merges into one token -/
theorem mergeChars_text (s : Str) (hs : s ≠ []) (rest : List Token) (hr : startsChars rest = false) :
    mergeChars (s.map (fun c => Token.chars [c]) ++ rest) = .chars s :: mergeChars rest := by
  induction s with
  | nil => exact absurd rfl hs
  | cons c s ih =>
    cases s with
    | nil =>
      have h2 := mergeChars_startsChars rest hr
      simp only [List.map_cons, List.map_nil, List.cons_append, List.nil_append, mergeChars]
      split
      · rename_i b r' heq; rw [heq] at h2; simp [startsChars] at h2
      · rfl
    | cons c' s' =>
      have := ih (by simp)
      simp only [List.map_cons, List.cons_append] at this ⊢
      rw [mergeChars, this]
      rfl

mutual
theorem merge_node : ∀ (t : HNode) (rest : List Token), okNode t = true →
    (t.isText = true → startsChars rest = false) →
    mergeChars (tokTokens1 t ++ rest) = tokTokens t ++ mergeChars rest
  | .text s, rest, hok, hr => by
    simp only [tokTokens1, tokTokens]
    rw [mergeChars_text s (okNode_text hok) rest (hr rfl)]; rfl
  | .elem n as ch, rest, hok, _ => by
    simp only [okNode, Bool.and_eq_true] at hok
    simp only [tokTokens1, tokTokens, List.cons_append, List.append_assoc, List.nil_append]
    rw [mergeChars_cons_other _ _ rfl, merge_forest ch (.tag (tokEnd n) :: rest) hok.1.2 hok.2 (fun _ => rfl),
      mergeChars_cons_other _ _ rfl]
theorem merge_forest : ∀ (f : Forest) (rest : List Token), okForest f = true → noAdjText f = true →
    (f ≠ [] → startsChars rest = false) →
    mergeChars (tokTokens1F f ++ rest) = tokTokensF f ++ mergeChars rest
  | [], rest, _, _, _ => by simp [tokTokens1F, tokTokensF]
  | [t], rest, hok, _, hr => by
    simp only [okForest, Bool.and_eq_true] at hok
    simp only [tokTokens1F, tokTokensF, List.append_nil]
    exact merge_node t rest hok.1 (fun _ => hr (by simp))
  | t :: u :: r, rest, hok, hadj, hr => by
    simp only [okForest, Bool.and_eq_true] at hok
    simp only [noAdjText, Bool.and_eq_true, Bool.not_eq_true'] at hadj
    have ih := merge_forest (u :: r) rest (by simp [okForest, hok.2]) hadj.2 (fun _ => hr (by simp))
    have hstart : t.isText = true → startsChars (tokTokens1F (u :: r) ++ rest) = false := by
      intro ht
      have hu : u.isText = false := by
        cases hu : u.isText with
        | false => rfl
        | true => simp [ht, hu] at hadj
      cases u with
      | text s => simp [HNode.isText] at hu
      | elem n as ch => simp [tokTokens1F, tokTokens1, startsChars]
    rw [show tokTokens1F (t :: u :: r) = tokTokens1 t ++ tokTokens1F (u :: r) from rfl,
      show tokTokensF (t :: u :: r) = tokTokens t ++ tokTokensF (u :: r) from rfl, List.append_assoc,
      merge_node t _ hok.1 hstart, ih, List.append_assoc]
end

/-- merging adjacent character tokens of the per-character stream gives one token per text node -/
theorem mergeChars_tokens (f : Forest) (hf : Ordinary f) :
    mergeChars (tokTokens1F f ++ [.eof]) = tokTokensF f ++ [.eof] := by
  rw [merge_forest f [.eof] hf.1 hf.2 (fun _ => rfl)]; rfl

end H5V.Lemmas.HtmlRT
