import H5V.Lemmas.HtmlTBSkelShapeReset
/-!
C06, second invariant layer, part 26: the `template` arms of the InHead rules and the EOF arm of
InTemplate, in every context that reaches them.
-/
namespace H5V.Props.C06
open H5V.Model.Dom hiding Str
open H5V.Model.HtmlTB hiding Str
open H5V.Lemmas.Dom
set_option synthInstance.maxSize 4096

/-- the stacks on which the template arms work: a body-phase stack, `html head`, or `html` alone
(after the head) -/
def Base (d : Dom) (head : Option Id) (up : List Id) (ph : Phase) : Prop :=
  BodyBase d head up ph ∨ (∃ h, head = some h ∧ up = [h] ∧ ph = .p1) ∨ (up = [] ∧ ph = .p1)

theorem Core.setAF {s : State} {r : Id} {up : List Id} {ph : Phase} (hc : Core s r up ph) {af : List FormatEntry}
    (ha : AFok s.dom af) (hx : Afx s.dom af r) : Core { s with activeFormatting := af } r up ph := by
  have hl : Late { s with activeFormatting := af } := hc.late.free rfl rfl rfl rfl rfl rfl rfl rfl rfl
  exact ⟨hl, hc.stack, hc.rdoc, hc.nodup, hc.tg, ha, hc.tc, hc.tmm, hc.form, hc.rtu, hc.rnd, hc.kids, hc.elems, hc.bh,
    hx, hc.adj⟩

theorem Base.notPf {d : Dom} {head : Option Id} {up : List Id} {ph : Phase} (h : Base d head up ph) : ¬ ph.isPf := by
  rcases h with h | ⟨_, _, _, rfl⟩ | ⟨_, rfl⟩
  · exact h.notPf
  · exact fun h => h
  · exact fun h => h

/-- the mode `reset_insertion_mode` returns fits the stack -/
theorem reset_fits {s s' : State} {r : Id} {up : List Id} {ph : Phase} {m : Mode} (hc : Core s r up ph)
    (hb : Base s.dom s.headElem up ph) (e : resetInsertionMode s = .ok (m, s')) :
    QS s s' ∧ Fits s.dom s.headElem m up ph ∧ m ≠ .text ∧ m ≠ .inTableText := by
  rcases hb with hbb | ⟨h, hh, rfl, rfl⟩ | ⟨rfl, rfl⟩
  · obtain ⟨q, hbl, hn⟩ := reset_bl hc hbb e
    refine ⟨q, fits_of_bl hbl hbb hn, ?_, ?_⟩ <;> (rintro rfl; cases hbl)
  · obtain ⟨q, hsem⟩ := reset_sem hc e
    obtain ⟨h', e1, _, e3⟩ := hc.elems
    rw [hh] at e1; cases e1
    rcases hsem with ⟨a, x, b, hup, _, _, hat⟩ | ⟨hall, _⟩
    · have hx : x = h := by
        cases a with
        | nil => simp at hup; exact hup.1.symm
        | cons a0 a1 => simp at hup
      subst hx
      rw [e3, resetAt_head] at hat; cases hat
      exact ⟨q, ⟨x, hh, rfl, rfl⟩, by decide, by decide⟩
    · have := hall h (by simp)
      rw [e3] at this; exact absurd this (by decide)
  · obtain ⟨q, hsem⟩ := reset_sem hc e
    obtain ⟨h', e1, _, _⟩ := hc.elems
    rcases hsem with ⟨a, x, b, hup, _⟩ | ⟨_, hat⟩
    · cases a <;> simp at hup
    · rw [e1, resetAt_html] at hat; cases hat
      exact ⟨q, ⟨rfl, rfl⟩, by decide, by decide⟩

theorem isHS_template {n : EName} : isHS n "template".toList = true ↔ n = hN "template" := by
  constructor
  · intro h
    unfold isHS at h
    simp only [Bool.and_eq_true, beq_iff_eq] at h
    cases n
    obtain ⟨h1, h2⟩ := h
    simp only at h1 h2
    subst h1; subst h2
    rfl
  · rintro rfl; decide

/-- popping up to (and including) a `template` -/
theorem tmpl_popped {s s2 : State} {r m : Id} {up above : List Id} {ph : Phase} (hc : Core s r up ph)
    (hb : Base s.dom s.headElem up ph) (p : PR s s2 (m :: above)) (hm : nm s.dom m = hN "template") :
    ∃ up', Core s2 r up' ph ∧ Base s2.dom s2.headElem up' ph ∧
      tcount s2.dom s2.openElems + 1 ≤ s2.templateModes.length := by
  have hst := p.stack
  rw [hc.stack] at hst
  have hmr : m ≠ r := fun h0 => by rw [h0, hc.root_name] at hm; revert hm; decide
  -- the root stays
  obtain ⟨up', hs2, hup⟩ : ∃ up', s2.openElems = r :: up' ∧ up = up' ++ m :: above := by
    cases hq : s2.openElems with
    | nil => rw [hq] at hst; simp at hst; exact absurd hst.1.symm hmr
    | cons a t =>
      rw [hq] at hst
      simp at hst
      exact ⟨t, by rw [hst.1], hst.2⟩
  have hc2 : Core s2 r up' ph := hc.pr p hup
  have hnm : ∀ x, nm s2.dom x = nm s.dom x := nm_of_nodes p.nodes
  have hhead : s2.headElem = s.headElem := by rw [p.rest]
  have htm : s2.templateModes = s.templateModes := by rw [p.rest]
  refine ⟨up', hc2, ?_, ?_⟩
  · rw [hhead]
    rcases hb with (⟨b, u, hu, rfl, hnh⟩ | ⟨hh, t, u, h0, hu, htn, rfl⟩ | ⟨t, u, hu, htn, rfl, hnh⟩) | ⟨h, hh0, rfl, rfl⟩ | ⟨rfl, _⟩
    · -- body stays
      have hbm : b ≠ m := fun h0 => by
        obtain ⟨_, _, _, _, hbn⟩ := hc.elems
        rw [h0, hm] at hbn; revert hbn; decide
      cases up' with
      | nil => rw [hu] at hup; simp at hup; exact absurd hup.1 hbm
      | cons a t =>
        rw [hu] at hup; simp at hup
        obtain ⟨rfl, hu'⟩ := hup
        exact Or.inl (Or.inl ⟨b, t, rfl, rfl, fun h hh hmem => hnh h hh (by
          rw [hu, hu']
          rcases List.mem_cons.mp hmem with h1 | h1
          · rw [h1]; exact List.mem_cons_self
          · exact List.mem_cons_of_mem _ (List.mem_append_left _ h1))⟩)
    · have hhm : hh ≠ m := fun h1 => by
        obtain ⟨h', e1, _, e3⟩ := hc.elems
        rw [h0] at e1; cases e1
        rw [h1, hm] at e3; revert e3; decide
      cases up' with
      | nil => rw [hu] at hup; simp at hup; exact absurd hup.1 hhm
      | cons a t1 =>
        rw [hu] at hup; simp at hup
        obtain ⟨rfl, hu'⟩ := hup
        cases t1 with
        | nil => exact Or.inr (Or.inl ⟨hh, h0, rfl, rfl⟩)
        | cons a2 t2 =>
          simp at hu'
          obtain ⟨rfl, _⟩ := hu'
          exact Or.inl (Or.inr (Or.inl ⟨hh, t, t2, h0, rfl, by rw [hnm]; exact htn, rfl⟩))
    · cases up' with
      | nil => exact Or.inr (Or.inr ⟨rfl, rfl⟩)
      | cons a t1 =>
        rw [hu] at hup; simp at hup
        obtain ⟨rfl, hu'⟩ := hup
        exact Or.inl (Or.inr (Or.inr ⟨t, t1, rfl, by rw [hnm]; exact htn, rfl,
          fun h hh hmem => hnh h hh (by
          rw [hu, hu']
          rcases List.mem_cons.mp hmem with h1 | h1
          · rw [h1]; exact List.mem_cons_self
          · exact List.mem_cons_of_mem _ (List.mem_append_left _ h1))⟩))
    · -- `html head`: no template there
      exfalso
      cases up' with
      | nil =>
        simp at hup
        obtain ⟨h', e1, _, e3⟩ := hc.elems
        rw [hh0] at e1; cases e1
        rw [hup.1, hm] at e3
        revert e3; decide
      | cons a t1 => simp at hup
    · cases up' <;> simp at hup
  · -- one template less
    rw [htm]
    have h1 := hc.tc
    rw [hc.stack, hup] at h1
    rw [hs2]
    unfold tcount at h1 ⊢
    have : (r :: (up' ++ m :: above)) = (r :: up') ++ (m :: above) := rfl
    rw [this, List.countP_append] at h1
    have hcm : List.countP (fun x => nm s.dom x == hN "template") (m :: above) =
        List.countP (fun x => nm s.dom x == hN "template") above + 1 :=
      List.countP_cons_of_pos (by rw [hm]; decide)
    rw [hcm] at h1
    have hcg : List.countP (fun x => nm s2.dom x == hN "template") (r :: up') =
        List.countP (fun x => nm s.dom x == hN "template") (r :: up') :=
      List.countP_congr (fun x _ => by rw [hnm])
    rw [hcg]
    omega


theorem isLate_of_tmplModeOk {m : Mode} (h : tmplModeOk m = true) : isLate m = true := by
  cases m <;> first | rfl | cases h

theorem Core.setTM {s : State} {r : Id} {up : List Id} {ph : Phase} (hc : Core s r up ph) {tm : List Mode}
    (htm : ∀ m ∈ tm, tmplModeOk m = true) (htc : tcount s.dom s.openElems ≤ tm.length) :
    Core { s with templateModes := tm } r up ph :=
  ⟨⟨hc.late.base, hc.late.pat, ⟨hc.late.st.doc, hc.late.st.ctx, hc.late.st.oe, hc.late.st.tail, hc.late.st.head,
      hc.late.st.ptt⟩, ⟨hc.late.ml.mode, hc.late.ml.orig, fun m hm => isLate_of_tmplModeOk (htm m hm)⟩⟩,
    hc.stack, hc.rdoc, hc.nodup, hc.tg, hc.afn, htc, htm, hc.form, hc.rtu, hc.rnd, hc.kids, hc.elems, hc.bh, hc.afx,
    hc.adj⟩

theorem Base.qs {s s' : State} {r : Id} {up : List Id} {ph : Phase} (hc : Core s r up ph)
    (hb : Base s.dom s.headElem up ph) (q : QS s s') : Base s'.dom s'.headElem up ph := by
  have hh : s'.headElem = s.headElem := by rw [q.rest]
  rw [hh]
  rcases hb with hbb | h | h
  · exact Or.inl (hbb.congr (fun x _ => q.nm x))
  · exact Or.inr (Or.inl h)
  · exact Or.inr (Or.inr h)

/-- the mode is set to what `reset_insertion_mode` answers -/
theorem reset_shape {s s1 s' : State} {r : Id} {up : List Id} {ph : Phase} {m : Mode} {u : Unit} (hc : Core s r up ph)
    (hb : Base s.dom s.headElem up ph) (e1 : resetInsertionMode s = .ok (m, s1)) (e2 : setMode m s1 = .ok (u, s')) :
    ShapeAt s' r up ph ∧ Base s'.dom s'.headElem up ph ∧ s'.mode = m ∧ QS s { s' with mode := s.mode } := by
  obtain ⟨q, hfit, hn1, hn2⟩ := reset_fits hc hb e1
  unfold setMode at e2
  have hs' := modS_ok.mp e2
  have hc1 := hc.qs q
  have hb1 := Base.qs hc hb q
  have hfit1 : Fits s1.dom s1.headElem m up ph := by
    have : s1.headElem = s.headElem := by rw [q.rest]
    rw [this]; exact hfit.congr (fun x _ => q.nm x)
  obtain ⟨_, rfl⟩ := hs'
  refine ⟨⟨hc1.modes (isLate_of_fits hfit1) hc1.late.ml.orig, fitsM_of_fits hn1 hn2 rfl hfit1⟩, hb1, rfl, ?_⟩
  exact ⟨q.nodes, by
    show _ = { s with dom := s1.dom, traceRev := s1.traceRev }
    rw [q.rest]⟩

/-- after the `template` has been popped: the list of active formatting elements is cleared up to
the marker, the template mode is dropped, the insertion mode is reset -/
theorem tmpl_tail {s2 s3 s5 s' : State} {r : Id} {up' : List Id} {ph : Phase} {m : Mode} {u1 u : Unit}
    (hc2 : Core s2 r up' ph) (hb2 : Base s2.dom s2.headElem up' ph)
    (htc : tcount s2.dom s2.openElems + 1 ≤ s2.templateModes.length)
    (e1 : clearActiveFormattingToMarker s2 = .ok (u1, s3))
    (e3 : resetInsertionMode { s3 with templateModes := s3.templateModes.dropLast } = .ok (m, s5))
    (e4 : setMode m s5 = .ok (u, s')) :
    ShapeAt s' r up' ph ∧ Base s'.dom s'.headElem up' ph ∧ s'.mode = m := by
  unfold clearActiveFormattingToMarker at e1
  obtain ⟨_, rfl⟩ := modS_ok.mp e1
  have hc3 := hc2.setAF (af := (clearToMarkerRev s2.activeFormatting.reverse).reverse) (AFok.sub hc2.afn (by
    intro x hx
    have := mem_clearToMarkerRev _ _ (List.mem_reverse.mp hx)
    exact List.mem_reverse.mp this)) (Afx.of_elems hc2.elems hb2.notPf)
  have hc4 := hc3.setTM (tm := s2.templateModes.dropLast)
    (fun m hm => hc2.tmm m (List.dropLast_subset _ hm)) (by
      show tcount s2.dom s2.openElems ≤ _
      rw [List.length_dropLast]; omega)
  obtain ⟨h1, h2, h3, _⟩ := reset_shape hc4 hb2 e3 e4
  exact ⟨h1, h2, h3⟩

theorem isEnd_name {tag : Tag} {l l' : List String} (h : tag.isEnd l = true)
    (hl : ∀ a ∈ l, a ∉ l') : tag.isEnd l' = false := by
  obtain ⟨a, ha, hn, hk⟩ := name_of_isEnd h
  unfold Tag.isEnd isOneOf
  simp only [Bool.and_eq_false_iff, List.any_eq_false, beq_iff_eq]
  right
  intro b hb hq
  have : b = a := by
    rw [hn] at hq
    exact String.ext hq
  exact hl a ha (this ▸ hb)

theorem not_mem_thorough {n : EName} (h : thoroughImpliedEnd n = true) :
    n ≠ hN "html" ∧ n ≠ hN "template" ∧ n ≠ hN "body" ∧ n ≠ hN "head" := by
  refine ⟨?_, ?_, ?_, ?_⟩ <;> (rintro rfl; revert h; decide)

/-- the `</template>` arm of the InHead rules, on any of the stacks `Base` -/
theorem tmplEnd_sem {tag : Tag} (h : tag.isEnd ["template"] = true) {s s' : State} {r : Id} {up : List Id}
    {ph : Phase} {res : ProcessResult} (hc : Core s r up ph) (hb : Base s.dom s.headElem up ph)
    (e : stepInHead (.tag tag) s = .ok (res, s')) :
    res = .done ∧ (QS s s' ∨ ∃ up', ShapeAt s' r up' ph ∧ Base s'.dom s'.headElem up' ph) := by
  unfold stepInHead at e
  dsimp only at e
  have hs : ∀ l, ¬ (tag.isStart l = true) := fun l => by rw [isStart_false_of_isEnd h]; simp
  rw [if_neg (hs _), if_neg (hs _), if_neg (hs _), if_neg (hs _), if_neg (hs _),
    if_neg (by rw [isEnd_name h (by decide)]; simp), if_neg (by rw [isEnd_name h (by decide)]; simp),
    if_neg (hs _), if_pos h] at e
  obtain ⟨b, s1, e1, e2⟩ := bind_ok.mp e
  obtain ⟨q1, hb1⟩ := inHtmlElemNamed_sem e1
  rcases ite_run e2 with ⟨_, e2⟩ | ⟨hbt, e2⟩
  · obtain ⟨_, s2, e3, e4⟩ := bind_ok.mp e2
    obtain ⟨rfl, rfl⟩ := pure_ok.mp e4
    exact ⟨rfl, Or.inl (q1.trans (qs_unexpected e3).1)⟩
  · have hc1 := hc.qs q1
    have hbs1 := Base.qs hc hb q1
    obtain ⟨_, s2, e3, e4⟩ := bind_ok.mp e2
    obtain ⟨_, s3, e5, e6⟩ := bind_ok.mp e4
    obtain ⟨_, s4, e7, e8⟩ := bind_ok.mp e6
    obtain ⟨_, s5, e9, e10⟩ := bind_ok.mp e8
    obtain ⟨m, s6, e11, e12⟩ := bind_ok.mp e10
    obtain ⟨_, s7, e13, e14⟩ := bind_ok.mp e12
    obtain ⟨rfl, rfl⟩ := pure_ok.mp e14
    refine ⟨rfl, Or.inr ?_⟩
    -- the implied end tags
    obtain ⟨pop1, p1, hp1, _⟩ := generateImpliedEndTags_sem e3
    -- nothing of the base is popped: `pop1` is a suffix of the stack made of implied-end elements
    unfold expectToClose at e5
    obtain ⟨pop2, p2, hp2⟩ := expectToCloseS_sem e5
    have hst1 := hc1.stack
    rcases hp2 with ⟨mm, above, rfl, hmm, _⟩ | ⟨hemp, _⟩
    · have p12 := p1.trans p2
      have hmm' : nm s1.dom mm = hN "template" := by
        have : nm s2.dom mm = nm s1.dom mm := nm_of_nodes p1.nodes mm
        rw [← this]; exact isHS_template.mp hmm
      have p12' : PR s1 s3 (mm :: (above ++ pop1)) := by simpa using p12
      obtain ⟨up', hc3, hb3, htc3⟩ := tmpl_popped hc1 hbs1 p12' hmm'
      obtain ⟨_, rfl⟩ := modS_ok.mp e9
      obtain ⟨g1, g2, _⟩ := tmpl_tail hc3 hb3 htc3 e7 e11 e13
      exact ⟨up', g1, g2⟩
    · -- the stack cannot run empty: there is a template on it, and it is not an implied-end element
      exfalso
      rename_i hall
      have hbtrue : b = true := by simpa using hbt
      obtain ⟨x, hx, hxn⟩ := hb1.mp hbtrue
      have hxn' := isHS_template.mp hxn
      have p12 := p1.trans p2
      have hst := p12.stack
      rw [hemp] at hst
      simp only [List.nil_append] at hst
      rw [q1.openElems] at hst
      have hx1 : x ∈ pop2 ++ pop1 := by rw [← hst]; exact hx
      rcases List.mem_append.mp hx1 with hr | hr
      · have := hall x hr
        have hnr : nm s2.dom x = hN "template" := by rw [nm_of_nodes p1.nodes x, q1.nm]; exact hxn'
        rw [hnr] at this; revert this; decide
      · have := (not_mem_thorough (hp1 x hr)).2.1
        rw [q1.nm] at this
        exact this hxn'


theorem Big.base {m : Mode} {r : Id} {ph : Phase} {s : State} (h : Big m r ph s) :
    ∃ up, Core s r up ph ∧ Base s.dom s.headElem up ph := by
  obtain ⟨up, hc, hbb, _, _⟩ := h
  exact ⟨up, hc, Or.inl hbb⟩

/-- the end of the input inside a template: the template is closed, the token is processed again -/
theorem inTemplateEof_sem {s s' : State} {r : Id} {up : List Id} {ph : Phase} {res : ProcessResult}
    (hc : Core s r up ph) (hb : Base s.dom s.headElem up ph) (e : inTemplateEof s = .ok (res, s')) :
    (res = .done ∧ QS s s') ∨ (∃ m, res = .reprocess m .eof ∧ Good r { s' with mode := m }) := by
  unfold inTemplateEof at e
  obtain ⟨b, s1, e1, e2⟩ := bind_ok.mp e
  obtain ⟨q1, hb1⟩ := inHtmlElemNamed_sem e1
  rcases ite_run e2 with ⟨_, e2⟩ | ⟨hbt, e2⟩
  · obtain ⟨rfl, rfl⟩ := pure_ok.mp e2
    exact Or.inl ⟨rfl, q1⟩
  · right
    obtain ⟨_, s2, e3, e4⟩ := bind_ok.mp e2
    have q2 := (qs_unexpected e3).1
    have q12 := q1.trans q2
    have hc2 := hc.qs q12
    have hbs2 := Base.qs hc hb q12
    obtain ⟨k, s3, e5, e6⟩ := bind_ok.mp e4
    obtain ⟨_, s4, e7, e8⟩ := bind_ok.mp e6
    obtain ⟨_, s5, e9, e10⟩ := bind_ok.mp e8
    obtain ⟨m1, s6, e11, e12⟩ := bind_ok.mp e10
    obtain ⟨_, s7, e13, e14⟩ := bind_ok.mp e12
    obtain ⟨m2, s8, e15, e16⟩ := bind_ok.mp e14
    obtain ⟨rfl, rfl⟩ := pure_ok.mp e16
    unfold popUntilNamed popUntilNamedS at e5
    obtain ⟨popped, p3, hp3⟩ := popUntil_sem e5
    rcases hp3 with ⟨mm, above, rfl, hmm, _⟩ | ⟨hemp, hall⟩
    · have hmm' : nm s2.dom mm = hN "template" := isHS_template.mp hmm
      obtain ⟨up', hc3, hb3, htc3⟩ := tmpl_popped hc2 hbs2 p3 hmm'
      obtain ⟨_, rfl⟩ := modS_ok.mp e9
      obtain ⟨g1, g2, _⟩ := tmpl_tail hc3 hb3 htc3 e7 e11 e13
      obtain ⟨q8, hfit, hn1, hn2⟩ := reset_fits g1.core g2 e15
      refine ⟨m2, rfl, Good.mk' (up := up') (ph := ph) ⟨?_, ?_⟩⟩
      · exact (g1.core.qs q8).modes (isLate_of_fits hfit) (g1.core.qs q8).late.ml.orig
      · refine fitsM_of_fits hn1 hn2 rfl ?_
        have : s8.headElem = s7.headElem := by rw [q8.rest]
        show Fits s8.dom s8.headElem m2 up' ph
        rw [this]; exact hfit.congr (fun x _ => q8.nm x)
    · exfalso
      have hbtrue : b = true := by simpa using hbt
      obtain ⟨x, hx, hxn⟩ := hb1.mp hbtrue
      have hst := p3.stack
      rw [hemp, q12.openElems] at hst
      simp only [List.nil_append] at hst
      have := hall x (by rw [← hst]; exact hx)
      rw [q12.nm] at this
      unfold isHS at hxn
      rw [hxn] at this; cases this

instance : RB inTemplateEof :=
  ⟨fun m r ph s res s' hb hm hbl e => by
    obtain ⟨up, hc, hbs⟩ := hb.base
    rcases inTemplateEof_sem hc hbs e with ⟨rfl, q⟩ | ⟨m', rfl, hg⟩
    · exact (hb.good hm hbl).qs q
    · exact ⟨hg, inferInstance⟩⟩


/-! ### `<template>` -/

/-- the declarative-shadow-root branch of `<template>`, after the host has been determined -/
def shadowTail (tag : Tag) (host : Id) : M ProcessResult :=
  insertForeignElement tag nsHtml true >>= fun template =>
    sinkBool (.attachDeclarativeShadow host template tag.attrs) >>= fun succeeded =>
      if (!succeeded) = true then (pop >>= fun _ => insertElementFor tag >>= fun _ => pure ProcessResult.done)
      else pure ProcessResult.done

theorem pushOk_template {s : State} (h : tcount s.dom s.openElems + 1 ≤ s.templateModes.length) :
    PushOk s (hN "template") :=
  ⟨fun t _ => predOk_of_not_constrained (by decide), by decide, fun _ => h⟩

/-- either the template element is pushed without being inserted (the sink accepted the shadow root),
or the state is as before, up to a stray node, and the element is inserted the normal way -/
theorem shadow_sem {tag : Tag} {host : Id} {s s' : State} {r : Id} {up : List Id} {ph : Phase} {res : ProcessResult}
    (htn : tag.name = "template".toList) (hc : Core s r up ph)
    (htc : tcount s.dom s.openElems + 1 ≤ s.templateModes.length)
    (e : shadowTail tag host s = .ok (res, s')) :
    (res = .done ∧ ∃ el, Core s' r (up ++ [el]) ph ∧ SameNames s.dom s'.dom up ∧ nm s'.dom el = hN "template" ∧
        s'.headElem = s.headElem ∧ s'.mode = s.mode ∧ s'.origMode = s.origMode) ∨
    (∃ s5, Core s5 r up ph ∧ SameNames s.dom s5.dom up ∧ s5.headElem = s.headElem ∧ s5.mode = s.mode ∧
        s5.origMode = s.origMode ∧ s5.openElems = s.openElems ∧ s5.templateModes = s.templateModes ∧
        (insertElementFor tag >>= fun _ => pure ProcessResult.done) s5 = .ok (res, s')) := by
  unfold shadowTail at e
  obtain ⟨el0, s3, e1, e2⟩ := bind_ok.mp e
  unfold insertForeignElement at e1
  obtain ⟨ip, s1, e3, e4⟩ := bind_ok.mp e1
  have q1 : QS s s1 := (apfi_sem e3).1
  obtain ⟨el, s2, e5, e6⟩ := bind_ok.mp e4
  simp only [Bool.not_true, Bool.false_eq_true, if_false] at e6
  obtain ⟨_, s2', e7, e8⟩ := bind_ok.mp e6
  unfold push at e7
  obtain ⟨_, rfl⟩ := modS_ok.mp e7
  obtain ⟨rfl, rfl⟩ := pure_ok.mp e8
  have hc1 := hc.qs q1
  obtain ⟨hc2, hdo2, hchg2, hsz2, hel2, hnm2, hnk2⟩ := createElement_core hc1 e5
  have hnm2' : nm s2.dom el = hN "template" := by rw [hnm2]; show (⟨nsHtml, tag.name⟩ : EName) = _; rw [htn]; rfl
  have hsn2 : SameNames s.dom s2.dom up := fun x hx => by
    rw [hc1.sameNames hchg2 x hx, q1.nm]
  have hoe2 : s2.openElems = s.openElems := by rw [hdo2, q1.openElems]
  have htm2 : s2.templateModes = s.templateModes := by rw [hdo2, q1.rest]
  have hfresh : el ∉ s2.openElems := by
    intro hm
    rw [hdo2] at hm
    exact fresh_ne (hc1.late.st.oe el hm) hsz2 rfl
  have htc2 : tcount s2.dom s2.openElems + 1 ≤ s2.templateModes.length := by
    rw [htm2, hoe2, hc.stack, tcount_congr (l := r :: up) (d := s.dom) (d' := s2.dom) ?_]
    · rw [← hc.stack]; exact htc
    · intro x hx
      rcases List.mem_cons.mp hx with rfl | hx
      · rw [nm_chg hchg2 (hc1.late.st.oe x hc1.root_mem), q1.nm]
      · exact hsn2 x hx
  obtain ⟨_, _, hkids2, _, htcc2, _⟩ := createElement_adj hc1.late hc1.adj e5
  have hadj3 : AdjD s2.dom (s2.openElems ++ [el]) := by
    have h' : AdjD s2.dom (s2.openElems ++ []) := by rw [List.append_nil]; exact hc2.adj
    exact h'.stackInsert_isolated hnk2 hkids2 (fun tc h => (htcc2 tc h).1)
  have hc3 : Core { s2 with openElems := s2.openElems ++ [el] } r (up ++ [el]) ph :=
    hc2.pushG ⟨hel2, hnk2 0⟩ hfresh (by rw [hnm2']; exact pushOk_template htc2) hadj3
  obtain ⟨b, s4, e11, e12⟩ := bind_ok.mp e2
  have q4 : QS _ s4 := qs_sink (sinkBool_ok.mp e11)
  have hc4 := hc3.qs q4
  have hh2 : s2.headElem = s.headElem ∧ s2.mode = s.mode ∧ s2.origMode = s.origMode := by
    rw [hdo2, q1.rest]; exact ⟨rfl, rfl, rfl⟩
  rcases ite_run e12 with ⟨_, e12⟩ | ⟨_, e12⟩
  · right
    obtain ⟨y, s5, e13, e14⟩ := bind_ok.mp e12
    have p5 := pop_sem e13
    have hy : y = el := by
      have := p5.stack
      rw [hc4.stack, show r :: (up ++ [el]) = (r :: up) ++ [el] from rfl] at this
      obtain ⟨_, hz⟩ := List.append_inj' this rfl
      simpa using hz.symm
    subst hy
    have hc5 : Core s5 r up ph := hc4.pr p5 rfl
    have hst5 : s5.openElems = s.openElems := by
      rw [hc5.stack, hc.stack]
    have hr5 := p5.rest
    have hr4 := q4.rest
    refine ⟨s5, hc5, ?_, ?_, ?_, ?_, hst5, ?_, e14⟩
    · intro x hx
      rw [nm_of_nodes p5.nodes x, q4.nm]; exact hsn2 x hx
    · rw [hr5, hr4]; exact hh2.1
    · rw [hr5, hr4]; exact hh2.2.1
    · rw [hr5, hr4]; exact hh2.2.2
    · rw [hr5, hr4]; exact htm2
  · left
    obtain ⟨rfl, rfl⟩ := pure_ok.mp e12
    have hr4 := q4.rest
    refine ⟨rfl, el, hc4, ?_, ?_, ?_, ?_, ?_⟩
    · intro x hx; rw [q4.nm]; exact hsn2 x hx
    · rw [q4.nm]; exact hnm2'
    · rw [hr4]; exact hh2.1
    · rw [hr4]; exact hh2.2.1
    · rw [hr4]; exact hh2.2.2


/-- how `insert_element_for(<template>)` behaves in the context at hand -/
def TmplIns (tag : Tag) (s : State) (r : Id) (up : List Id) (ph : Phase) : Prop :=
  ∀ (s5 s6 : State) (el : Id), Core s5 r up ph → SameNames s.dom s5.dom up → s5.headElem = s.headElem →
    s5.openElems = s.openElems → tcount s5.dom s5.openElems + 1 ≤ s5.templateModes.length →
    insertElementFor tag s5 = .ok (el, s6) →
    Core s6 r (up ++ [el]) ph ∧ SameNames s5.dom s6.dom up ∧ nm s6.dom el = hN "template" ∧
      s6.headElem = s5.headElem ∧ s6.mode = s5.mode ∧ s6.origMode = s5.origMode

set_option maxHeartbeats 1600000 in
/-- the `<template>` arm of the InHead rules: a `template` element is pushed, the mode is InTemplate -/
theorem tmplStart_sem {tag : Tag} (h : tag.isStart ["template"] = true) {s s' : State} {r : Id} {up : List Id}
    {ph : Phase} {res : ProcessResult} (hc : Core s r up ph) (ins : TmplIns tag s r up ph)
    (e : stepInHead (.tag tag) s = .ok (res, s')) :
    res = .done ∧ ∃ el, Core s' r (up ++ [el]) ph ∧ SameNames s.dom s'.dom up ∧ nm s'.dom el = hN "template" ∧
      s'.headElem = s.headElem ∧ s'.mode = .inTemplate ∧ s'.origMode = s.origMode := by
  unfold stepInHead at e
  dsimp only at e
  have hs : ∀ l, (∀ a ∈ ["template"], a ∉ l) → ¬ (tag.isStart l = true) := fun l hl => by
    rw [isStart_name h hl]; simp
  have he : ∀ l, ¬ (tag.isEnd l = true) := fun l => by rw [isEnd_false_of_isStart h]; simp
  rw [if_neg (hs _ (by decide)), if_neg (hs _ (by decide)), if_neg (hs _ (by decide)), if_neg (hs _ (by decide)),
    if_neg (hs _ (by decide)), if_neg (he _), if_neg (he _), if_pos h] at e
  obtain ⟨a, ha, htn, _⟩ := name_of_isStart h
  simp only [List.mem_cons, List.not_mem_nil, or_false] at ha
  subst ha
  obtain ⟨_, s1, e1, e2⟩ := bind_ok.mp e
  unfold pushMarker at e1
  obtain ⟨_, rfl⟩ := modS_ok.mp e1
  obtain ⟨_, s2, e3, e4⟩ := bind_ok.mp e2
  unfold setFramesetOk at e3
  obtain ⟨_, rfl⟩ := modS_ok.mp e3
  obtain ⟨_, s3, e5, e6⟩ := bind_ok.mp e4
  unfold setMode at e5
  obtain ⟨_, rfl⟩ := modS_ok.mp e5
  obtain ⟨_, s4, e7, e8⟩ := bind_ok.mp e6
  obtain ⟨_, rfl⟩ := modS_ok.mp e7
  -- the state before the element is inserted
  have hcA : Core { s with activeFormatting := s.activeFormatting ++ [.marker] } r up ph :=
    hc.setAF (AFok.marker hc.afn) (hc.afx.same (fun y t hy => ⟨y, List.mem_append_left _ hy⟩))
  have hcB := (hcA.free (s' := { s with activeFormatting := s.activeFormatting ++ [.marker], framesetOk := false })
    rfl rfl rfl rfl rfl rfl rfl rfl rfl rfl rfl)
  have hcC := hcB.modes (m' := .inTemplate) (om' := s.origMode) rfl hc.late.ml.orig
  have hcD := hcC.setTM (tm := s.templateModes ++ [.inTemplate]) (by
    intro m hm
    rcases List.mem_append.mp hm with hm | hm
    · exact hc.tmm m hm
    · simp at hm; subst hm; rfl) (by
    show tcount s.dom s.openElems ≤ _
    have := hc.tc
    rw [List.length_append]; simp; omega)
  obtain ⟨b, s5, e9, e10⟩ := bind_ok.mp e8
  have q5 : QS _ s5 := IsQ.q _ _ _ e9
  have hc5 := hcD.qs q5
  have hr5 := q5.rest
  have htc5 : tcount s5.dom s5.openElems + 1 ≤ s5.templateModes.length := by
    have h1 : s5.templateModes = s.templateModes ++ [.inTemplate] := by rw [hr5]
    have h2 : s5.openElems = s.openElems := by rw [hr5]
    rw [h1, h2, tcount_congr (l := s.openElems) (d := s.dom) (d' := s5.dom) (fun x _ => q5.nm x)]
    have := hc.tc
    rw [List.length_append]; simp; omega
  have hsn5 : SameNames s.dom s5.dom up := fun x _ => q5.nm x
  have hh5 : s5.headElem = s.headElem ∧ s5.openElems = s.openElems ∧ s5.mode = .inTemplate ∧
      s5.origMode = s.origMode := by rw [hr5]; exact ⟨rfl, rfl, rfl, rfl⟩
  -- the normal way
  have normal : ∀ s6 : State, Core s6 r up ph → SameNames s.dom s6.dom up → s6.headElem = s.headElem →
      s6.openElems = s.openElems → tcount s6.dom s6.openElems + 1 ≤ s6.templateModes.length →
      s6.mode = .inTemplate → s6.origMode = s.origMode →
      (insertElementFor tag >>= fun _ => pure ProcessResult.done) s6 = .ok (res, s') →
      res = .done ∧ ∃ el, Core s' r (up ++ [el]) ph ∧ SameNames s.dom s'.dom up ∧ nm s'.dom el = hN "template" ∧
        s'.headElem = s.headElem ∧ s'.mode = .inTemplate ∧ s'.origMode = s.origMode := by
    intro s6 hc6 hsn6 hh6 hoe6 htc6 hm6 ho6 e11
    obtain ⟨el, s7, e12, e13⟩ := bind_ok.mp e11
    obtain ⟨rfl, rfl⟩ := pure_ok.mp e13
    obtain ⟨g1, g2, g3, g4, g5, g6⟩ := ins s6 _ el hc6 hsn6 hh6 hoe6 htc6 e12
    exact ⟨rfl, el, g1, fun x hx => by rw [g2 x hx, hsn6 x hx], g3, g4.trans hh6, g5.trans hm6, g6.trans ho6⟩
  rcases ite_run e10 with ⟨_, e10⟩ | ⟨_, e10⟩
  · rw [getS_bind] at e10
    have hctx : s5.contextElem = none := hc5.late.st.ctx
    cases hgl : s5.openElems.getLast? with
    | some host =>
      rw [hgl] at e10
      dsimp only at e10
      obtain ⟨sh, sX, eP, e11⟩ := bind_ok.mp e10
      obtain ⟨rfl, rfl⟩ := pure_ok.mp eP
      rcases ite_run e11 with ⟨hcond, e11⟩ | ⟨_, e11⟩
      · rw [hctx] at hcond; simp at hcond
      · obtain ⟨sh', sY, eQ, e12⟩ := bind_ok.mp e11
        obtain ⟨rfl, rfl⟩ := pure_ok.mp eQ
        have e13 : shadowTail tag _ _ = .ok (res, s') := e12
        rcases shadow_sem htn hc5 htc5 e13 with ⟨rfl, el, g1, g2, g3, g4, g5, g6⟩ | ⟨s6, g1, g2, g3, g4, g5, g6, g7, g8⟩
        · exact ⟨rfl, el, g1, fun x hx => by rw [g2 x hx, hsn5 x hx], g3, g4.trans hh5.1, g5.trans hh5.2.2.1,
            g6.trans hh5.2.2.2⟩
        · exact normal s6 g1 (fun x hx => by rw [g2 x hx, hsn5 x hx]) (g3.trans hh5.1) (g6.trans hh5.2.1)
            (by
              rw [g7, g6, tcount_congr (l := s5.openElems) (d := s5.dom) (d' := s6.dom) ?_]
              · exact htc5
              · intro x hx
                rw [hc5.stack] at hx
                rcases List.mem_cons.mp hx with rfl | hx
                · rw [g1.root_name, hc5.root_name]
                · exact g2 x hx)
            (g4.trans hh5.2.2.1) (g5.trans hh5.2.2.2) g8
    | none =>
      rw [hgl] at e10
      dsimp only at e10
      obtain ⟨_, _, eP, _⟩ := bind_ok.mp e10
      exact absurd eP panicAt_ok
  · exact normal s5 hc5 hsn5 hh5.1 hh5.2.1 htc5 hh5.2.2.1 hh5.2.2.2 e10


/-- `insert_element` changes no existing element and leaves the head pointer alone -/
theorem insertElement_chg {m : Mode} {r : Id} {ph : Phase} {s s' : State} {pushIt : Bool} {ns name : Str}
    {attrs : List Attr} {dup : Bool} {el : Id} (h : Big m r ph s)
    (e : insertElement pushIt ns name attrs dup s = .ok (el, s')) :
    Chg s.dom s'.dom ∧ s'.headElem = s.headElem ∧ s'.templateModes = s.templateModes := by
  obtain ⟨ip, s1, s2, s3, s4, s5, e1, q12, e3, q34, e5, hs'⟩ := insertElement_run e
  obtain ⟨q1, t, ht, hares⟩ := apfi_sem e1
  obtain ⟨_, _, hipok1⟩ := apfi_spec h.late e1
  have hb1 : Big m r ph s2 := (h.qs q1).qs q12
  have q02 : QS s s2 := q1.trans q12
  have hipok2 : IpOk s2.dom ip := hipok1.ext (SameSk.of_nodes q12.nodes).ext
  obtain ⟨up, hc2, hbb2, hneed2, hfp2⟩ := hb1
  obtain ⟨hc3, hdo3, hchg3, hfresh3, hel3, hnm3, hnol3⟩ := createElement_core hc2 e3
  have hc4 := hc3.qs q34
  have hext24 : Ext s2.dom s4.dom := by
    obtain ⟨_, x, _⟩ := createElementWithFlags_spec hc2.late e3
    exact x.trans (SameSk.of_nodes q34.nodes).ext
  have hipok4 : IpOk s4.dom ip := hipok2.ext hext24
  have hnol4 : ∀ q, el ∉ s4.dom.childrenOf q := fun q => by rw [childrenOf_of_nodes q34.nodes]; exact hnol3 q
  have hel4 : s4.dom.isElement el = true := by rw [isElement_of_nodes q34.nodes]; exact hel3
  have hloose4 : Loose s4.dom el := ⟨hel4, hnol4 0⟩
  obtain ⟨hl5, hext5, hk05, hdo5⟩ := insertAt_spec (child := .node el) hc4.late hipok4 hloose4.childOk e5
  have hchg05 : Chg s.dom s5.dom :=
    ((SameSk.of_nodes q02.nodes).chg.trans hchg3).trans ((SameSk.of_nodes q34.nodes).chg.trans hext5.chg)
  have hh5 : s5.headElem = s.headElem ∧ s5.templateModes = s.templateModes := by
    have h5 := hdo5; have h3 := hdo3; have h34 := q34.rest; have h02 := q02.rest
    constructor <;> rw [h5, h34, h3, h02]
  by_cases hp : pushIt = true
  · simp only [hp, if_true] at hs'
    subst hs'
    exact ⟨hchg05, hh5.1, hh5.2⟩
  · simp only [hp] at hs'
    subst hs'
    exact ⟨hchg05, hh5.1, hh5.2⟩


/-! ### the contexts -/

theorem tmplIns_big {tag : Tag} (htn : tag.name = "template".toList) {m : Mode} {s : State} {r : Id} {up : List Id}
    {ph : Phase} (hc : Core s r up ph) (hbb : BodyBase s.dom s.headElem up ph) (hneed : Need s.dom m up) :
    TmplIns tag s r up ph := by
  intro s5 s6 el hc5 hsn hh hoe htc e
  have hb5 : Big m r ph s5 := ⟨up, hc5, by rw [hh]; exact hbb.congr hsn, hneed.congr hsn, FPok.triv _ _⟩
  unfold insertElementFor at e
  rw [htn] at e
  obtain ⟨hb6, hm6, ho6, hnm6, _, _, hst6, _⟩ := insertElement_gen hb5 (fun _ => pushOk_template htc) e
  obtain ⟨hchg, hh6, _⟩ := insertElement_chg hb5 e
  obtain ⟨up6, hc6, _⟩ := hb6
  simp only [if_true] at hst6
  have hup6 : up6 = up ++ [el] := by
    have h1 := hc6.stack
    rw [hst6, hc5.stack] at h1
    have h2 : r :: up ++ [el] = r :: (up ++ [el]) := rfl
    rw [h2] at h1
    exact (List.cons.inj h1).2.symm
  subst hup6
  exact ⟨hc6, hc5.sameNames hchg, hnm6, hh6, hm6, ho6⟩

theorem tmplIns_head {tag : Tag} (htn : tag.name = "template".toList) {s : State} {r h : Id}
    (hc : Core s r [h] .p1) (hhn : nm s.dom h = hN "head") : TmplIns tag s r [h] .p1 := by
  intro s5 s6 el hc5 hsn hh hoe htc e
  have hn5 : nm s5.dom h = hN "head" := by rw [hsn h (by simp)]; exact hhn
  have hi : Inner s5 r h := inner_head hc5 hn5
  unfold insertElementFor at e
  rw [htn] at e
  obtain ⟨g1, g2, g3, g4, g5, g6, _⟩ := insertPush_inner hc5 hi (pushOk_template htc) e
  exact ⟨g1, g2, g3, g4, g5, g6⟩

/-- `<template>` in a body-like mode -/
theorem rb_tmplStart {tag : Tag} (h : tag.isStart ["template"] = true) : RB (stepInHead (.tag tag)) :=
  ⟨fun m r ph s res s' hb hm hbl e => by
    obtain ⟨up, hc, hbb, hneed, _⟩ := id hb
    obtain ⟨a, ha, htn, _⟩ := name_of_isStart h
    simp only [List.mem_cons, List.not_mem_nil, or_false] at ha
    subst ha
    obtain ⟨rfl, el, hc', hsn, hnm, hh, hm', _⟩ := tmplStart_sem h hc (tmplIns_big htn hc hbb hneed) e
    refine Good.mk' ⟨hc', fitsM_of_fits (by decide) (by decide) hm' ⟨?_, el, by simp, by rw [hnm]; decide⟩⟩
    rw [hh]
    refine (hbb.congr hsn).snoc (fun hd hhd => ?_)
    rintro rfl
    -- the head element is called `head`
    have hhn : nm s'.dom el = hN "head" := by
      have hnpf := hbb.notPf
      have hel := hc'.elems
      rw [hh] at hel
      cases ph with
      | p0 =>
        rcases hbb with ⟨_, _, _, h0, _⟩ | ⟨_, _, _, _, _, _, h0⟩ | ⟨_, _, _, _, h0, _⟩ <;> cases h0
      | p1 => obtain ⟨h', e1, _, e3⟩ := hel; rw [hhd] at e1; cases e1; exact e3
      | pb b => obtain ⟨h', e1, _, e3, _⟩ := hel; rw [hhd] at e1; cases e1; exact e3
      | pf fs => exact absurd trivial hnpf
    rw [hnm] at hhn; revert hhn; decide⟩

/-- `</template>` in a body-like mode -/
theorem rb_tmplEnd {tag : Tag} (h : tag.isEnd ["template"] = true) : RB (stepInHead (.tag tag)) :=
  ⟨fun m r ph s res s' hb hm hbl e => by
    obtain ⟨up, hc, hbs⟩ := hb.base
    obtain ⟨rfl, q | ⟨up', hs', _⟩⟩ := tmplEnd_sem h hc hbs e
    · exact (hb.good hm hbl).qs q
    · exact Good.mk' hs'⟩

/-- the template arms in InHead -/
theorem tmplOk_inHead : TmplOk .inHead := by
  intro tag r s res s' hg hm hse e
  obtain ⟨up, ph, hs, _⟩ := id hg
  have hf := hs.fits
  unfold FitsM at hf
  rw [hm] at hf
  obtain ⟨h, hh, rfl, rfl⟩ : ∃ h, s.headElem = some h ∧ up = [h] ∧ ph = .p1 := hf
  have hc := hs.core
  have hhn : nm s.dom h = hN "head" := by
    obtain ⟨h', e1, _, e3⟩ := hc.elems; rw [hh] at e1; cases e1; exact e3
  rcases hse with hst | hen
  · obtain ⟨a, ha, htn, _⟩ := name_of_isStart hst
    simp only [List.mem_cons, List.not_mem_nil, or_false] at ha
    subst ha
    obtain ⟨rfl, el, hc', hsn, hnm, hh', hm', _⟩ := tmplStart_sem hst hc (tmplIns_head htn hc hhn) e
    refine Good.mk' ⟨hc', fitsM_of_fits (by decide) (by decide) hm' ⟨?_, el, by simp, by rw [hnm]; decide⟩⟩
    exact Or.inr (Or.inl ⟨h, el, [], by rw [hh']; exact hh, rfl, hnm, rfl⟩)
  · obtain ⟨rfl, q | ⟨up', hs', _⟩⟩ := tmplEnd_sem hen hc (Or.inr (Or.inl ⟨h, hh, rfl, rfl⟩)) e
    · exact hg.qs q
    · exact Good.mk' hs'

/-- the template arms as AfterHead uses them -/
theorem tmplAfterHead : TmplAfterHead where
  start := by
    intro tag r h0 s res s' s'' u hc hh hm hst e e2
    have hhn : nm s.dom h0 = hN "head" := by
      obtain ⟨h', e1, _, e3⟩ := hc.elems; rw [hh] at e1; cases e1; exact e3
    obtain ⟨a, ha, htn, _⟩ := name_of_isStart hst
    simp only [List.mem_cons, List.not_mem_nil, or_false] at ha
    subst ha
    obtain ⟨rfl, el, hc', hsn, hnm, hh', hm', _⟩ := tmplStart_sem hst hc (tmplIns_head htn hc hhn) e
    obtain ⟨hse, hst4⟩ := removeSecond hc' e2
    have hc4 : Core s'' r [el] .p1 := hc'.dropSecond hse hst4
      (by intro b hb; simp at hb; subst hb; rw [hnm]; decide) (by intro y hy; cases hy)
    have hr := hse.rest
    have hm4 : s''.mode = .inTemplate := by rw [hr]; exact hm'
    refine Good.mk' ⟨hc4, fitsM_of_fits (om := .inTemplate) (by decide) (by decide) hm4
      ⟨?_, el, by simp, by rw [hse.nm, hnm]; decide⟩⟩
    refine Or.inr (Or.inr ⟨el, [], rfl, by rw [hse.nm]; exact hnm, rfl, fun hd hhd => ?_⟩)
    have : s''.headElem = s'.headElem := by rw [hr]
    rw [this, hh', hh] at hhd
    cases hhd
    intro hmem
    have heq : h0 = el := by simpa using hmem
    have := hsn h0 (by simp)
    rw [hhn, heq, hnm] at this; exact absurd this (by decide)
  end_ := by
    intro tag r s res s' hg hm hen e
    obtain ⟨up, ph, hs, _⟩ := id hg
    have hf := hs.fits
    unfold FitsM at hf
    rw [hm] at hf
    obtain ⟨rfl, rfl⟩ : up = [] ∧ ph = .p1 := hf
    obtain ⟨rfl, q | ⟨up', hs', _⟩⟩ := tmplEnd_sem hen hs.core (Or.inr (Or.inr ⟨rfl, rfl⟩)) e
    · exact hg.qs q
    · exact Good.mk' hs'

end H5V.Props.C06
