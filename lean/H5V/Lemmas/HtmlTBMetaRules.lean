import H5V.Lemmas.HtmlTBMetaBase
/-!
C19, part 2: no rule arm but the `meta` arm of "in head" constructs an encoding indicator, and every
`Reprocess` hands on the token the rule was given (`ROk`), one lemma per insertion mode.
-/
namespace H5V.Props.C19
open H5V.Model.Dom (Id QualName Attr NodeOrText SinkOp Output ElementFlags QuirksMode Dom)
open H5V.Model.HtmlTB
open H5V.Lemmas.TBM

/-! ### helpers that answer plainly -/

instance : Ans Plain unexpected := by unfold unexpected; ans_walk
instance (t : Str) : Ans Plain (appendText t) := by unfold appendText; ans_walk
instance (t : Str) : Ans Plain (appendComment t) := by unfold appendComment; ans_walk
instance (t : Str) : Ans Plain (appendCommentToDoc t) := by unfold appendCommentToDoc; ans_walk
instance (t : Str) : Ans Plain (appendCommentToHtml t) := by unfold appendCommentToHtml; ans_walk
instance (k : H5V.Model.HtmlTok.RawKind) : Ans Plain (toRawTextMode k) := by unfold toRawTextMode; ans_walk
instance (tag : Tag) (k : H5V.Model.HtmlTok.RawKind) : Ans Plain (parseRawData tag k) := by
  unfold parseRawData; ans_walk
instance (tag : Tag) : Ans Plain (inBodyHtml tag) := by unfold inBodyHtml; ans_walk
instance (tag : Tag) : Ans Plain (inBodyVoid tag) := by unfold inBodyVoid; ans_walk
instance (tag : Tag) (ns : Str) : Ans Plain (enterForeign tag ns) := by unfold enterForeign; ans_walk
instance (tag : Tag) : Ans Plain (foreignStartTag tag) := by unfold foreignStartTag; ans_walk

instance : Ans (ROk .eof) inTemplateEof := by unfold inTemplateEof; ans_walk

/-! ### in head -/

theorem isStart_kind {tag : Tag} {l : List String} (h : tag.isStart l = true) : tag.kind = .startTag := by
  simp only [Tag.isStart, Bool.and_eq_true, beq_iff_eq] at h
  exact h.1

theorem isName_eq {n : Str} {x : String} (h : isName n x = true) : n = x.toList := by
  simp only [isName, beq_iff_eq] at h
  exact h.symm

instance (c : Str) : Ans (fun r => r = contentLabel c) (extractEncoding c) :=
  ⟨fun _ _ _ e => (extractEncoding_ok e).1⟩

macro_rules
  | `(tactic| ans_step) => `(tactic|
      (with_reducible apply Ans.bindK (inferInstance : Ans (fun r => r = contentLabel _) (extractEncoding _))))

instance (tok : Token) : Ans (ROk tok) (stepInHead tok) := by
  unfold stepInHead
  ans_walk
  · rename_i tag _ hs _ hm _ cs hcs
    exact Ans.pure ⟨tag, rfl, ⟨isStart_kind hs, isName_eq (by simpa using hm)⟩, qualifies_charset hcs⟩
  · rename_i tag _ hs _ hm _ hcs hp _ content hct _ enc he
    refine Ans.pure ⟨tag, rfl, ⟨isStart_kind hs, isName_eq (by simpa using hm)⟩, ?_⟩
    rw [qualifies_pragma hcs]
    have hpr : isPragma tag = true := by
      unfold isPragma
      cases hq : tag.getAttribute "http-equiv" with
      | none => rw [hq] at hp; simp at hp
      | some v => rw [hq] at hp; simpa using hp
    simp [hpr, hct, ← he]

/-! ### the other insertion modes -/

-- the two places where an answer is bound, something else is done, and the answer is returned
theorem ans_stepInHead_bind {β : Type} {Q : β → Prop} {tok : Token} {f : ProcessResult → M β}
    (h : ∀ r, ROk tok r → Ans Q (f r)) : Ans Q (stepInHead tok >>= f) := Ans.bindK inferInstance h

macro_rules
  | `(tactic| ans_step) => `(tactic| with_reducible apply ans_stepInHead_bind)

instance (tok : Token) : Ans (ROk tok) (stepInitial tok) := by unfold stepInitial; ans_walk
instance (tok : Token) : Ans (ROk tok) (stepBeforeHtml tok) := by unfold stepBeforeHtml; ans_walk
instance (tok : Token) : Ans (ROk tok) (stepInBody tok) := by unfold stepInBody; ans_walk
theorem ans_stepInBody_bind {β : Type} {Q : β → Prop} {tok : Token} {f : ProcessResult → M β}
    (h : ∀ r, ROk tok r → Ans Q (f r)) : Ans Q (stepInBody tok >>= f) := Ans.bindK inferInstance h

macro_rules
  | `(tactic| ans_step) => `(tactic| with_reducible apply ans_stepInBody_bind)

instance (tok : Token) : Ans (ROk tok) (stepBeforeHead tok) := by unfold stepBeforeHead; ans_walk
instance (tok : Token) : Ans (ROk tok) (stepInHeadNoscript tok) := by unfold stepInHeadNoscript; ans_walk
instance (tok : Token) : Ans (ROk tok) (stepAfterHead tok) := by unfold stepAfterHead; ans_walk
instance (tok : Token) : Ans (ROk tok) (stepText tok) := by unfold stepText; ans_walk
instance (tok : Token) : Ans (ROk tok) (fosterParentInBody tok) := by unfold fosterParentInBody; ans_walk
instance (tok : Token) : Ans (ROk tok) (processCharsInTable tok) := by unfold processCharsInTable; ans_walk
instance (tok : Token) : Ans (ROk tok) (stepInTable tok) := by unfold stepInTable; ans_walk
instance (tok : Token) : Ans (ROk tok) (stepInTableText tok) := by unfold stepInTableText; ans_walk
instance (tok : Token) : Ans (ROk tok) (stepInCaption tok) := by unfold stepInCaption; ans_walk
instance (tok : Token) : Ans (ROk tok) (stepInColumnGroup tok) := by unfold stepInColumnGroup; ans_walk
instance (tok : Token) : Ans (ROk tok) (stepInTableBody tok) := by unfold stepInTableBody; ans_walk
instance (tok : Token) : Ans (ROk tok) (stepInRow tok) := by unfold stepInRow; ans_walk
instance (tok : Token) : Ans (ROk tok) (stepInCell tok) := by unfold stepInCell; ans_walk
instance (tok : Token) : Ans (ROk tok) (stepInTemplate tok) := by unfold stepInTemplate; ans_walk
instance (tok : Token) : Ans (ROk tok) (stepAfterBody tok) := by unfold stepAfterBody; ans_walk
instance (tok : Token) : Ans (ROk tok) (stepInFrameset tok) := by unfold stepInFrameset; ans_walk
instance (tok : Token) : Ans (ROk tok) (stepAfterFrameset tok) := by unfold stepAfterFrameset; ans_walk
instance (tok : Token) : Ans (ROk tok) (stepAfterAfterBody tok) := by unfold stepAfterAfterBody; ans_walk
instance (tok : Token) : Ans (ROk tok) (stepAfterAfterFrameset tok) := by unfold stepAfterAfterFrameset; ans_walk

/-- **every insertion mode**: an encoding indicator only for a qualifying `meta` start tag -/
instance (mode : Mode) (tok : Token) : Ans (ROk tok) (step mode tok) := by
  cases mode <;> (unfold step; exact inferInstance)

/-! ### foreign content -/

instance (tag : Tag) : Ans (ROk (.tag tag)) (unexpectedStartTagInForeignContent tag) := by
  unfold unexpectedStartTagInForeignContent; ans_walk

theorem ans_foreignEndTagLoop (tag : Tag) : ∀ (i : Nat) (first : Bool), Ans (ROk (.tag tag)) (foreignEndTagLoop tag i first)
  | 0, _ => by unfold foreignEndTagLoop; ans_walk
  | i + 1, first => by
    have ih := ans_foreignEndTagLoop tag i
    unfold foreignEndTagLoop; ans_walk
instance (tag : Tag) (i : Nat) (first : Bool) : Ans (ROk (.tag tag)) (foreignEndTagLoop tag i first) :=
  ans_foreignEndTagLoop tag i first

instance (tok : Token) : Ans (ROk tok) (stepForeign tok) := by unfold stepForeign; ans_walk

end H5V.Props.C19
