import H5V.Lemmas.HtmlTBMetaBase
/-!
C19, part 2: no rule arm but the `meta` arm of "in head" constructs an encoding indicator, and every
`Reprocess` hands on the token the rule was given (`ROk`), one lemma per insertion mode.
-/
namespace H5V.Props.C19
open H5V.Model.Dom (Id QualName Attr NodeOrText SinkOp Output ElementFlags QuirksMode Dom)
open H5V.Model.HtmlTB
open H5V.Lemmas.TBM

/-! ### helpers that answer plainly -/

instance : Ans Plain unexpected := by unfold unexpected; ans_walk
instance (t : Str) : Ans Plain (appendText t) := by unfold appendText; ans_walk
instance (t : Str) : Ans Plain (appendComment t) := by unfold appendComment; ans_walk
instance (t : Str) : Ans Plain (appendCommentToDoc t) := by unfold appendCommentToDoc; ans_walk
instance (t : Str) : Ans Plain (appendCommentToHtml t) := by unfold appendCommentToHtml; ans_walk
instance (k : H5V.Model.HtmlTok.RawKind) : Ans Plain (toRawTextMode k) := by unfold toRawTextMode; ans_walk
instance (tag : Tag) (k : H5V.Model.HtmlTok.RawKind) : Ans Plain (parseRawData tag k) := by
  unfold parseRawData; ans_walk
instance (tag : Tag) : Ans Plain (inBodyHtml tag) := by unfold inBodyHtml; ans_walk
instance (tag : Tag) : Ans Plain (inBodyVoid tag) := by unfold inBodyVoid; ans_walk
instance (tag : Tag) (ns : Str) : Ans Plain (enterForeign tag ns) := by unfold enterForeign; ans_walk
instance (tag : Tag) : Ans Plain (foreignStartTag tag) := by unfold foreignStartTag; ans_walk

instance : Ans (ROk .eof) inTemplateEof := by unfold inTemplateEof; ans_walk

/-! ### in head -/

theorem isStart_kind {tag : Tag} {l : List String} (h : tag.isStart l = true) : tag.kind = .startTag := by
  simp only [Tag.isStart, Bool.and_eq_true, beq_iff_eq] at h
  exact h.1

theorem isName_eq {n : Str} {x : String} (h : isName n x = true) : n = x.toList := by
  simp only [isName, beq_iff_eq] at h
  exact h.symm

instance (c : Str) : Ans (fun r => r = contentLabel c) (extractEncoding c) :=
  ⟨fun _ _ _ e => (extractEncoding_ok e).1⟩

macro_rules
  | `(tactic| ans_step) => `(tactic|
      (with_reducible apply Ans.bindK (inferInstance : Ans (fun r => r = contentLabel _) (extractEncoding _))))

instance (tok : Token) : Ans (ROk tok) (stepInHead tok) := by
  unfold stepInHead
  ans_walk
  · rename_i tag _ hs _ hm _ cs hcs
    exact Ans.pure ⟨tag, rfl, ⟨isStart_kind hs, isName_eq (by simpa using hm)⟩, qualifies_charset hcs⟩
  · rename_i tag _ hs _ hm _ hcs hp _ content hct _ enc he
    refine Ans.pure ⟨tag, rfl, ⟨isStart_kind hs, isName_eq (by simpa using hm)⟩, ?_⟩
    rw [qualifies_pragma hcs]
    have hpr : isPragma tag = true := by
      unfold isPragma
      cases hq : tag.getAttribute "http-equiv" with
      | none => rw [hq] at hp; simp at hp
      | some v => rw [hq] at hp; simpa using hp
    simp [hpr, hct, ← he]

end H5V.Props.C19
