import H5V.Lemmas.HtmlTBAlgoPrim
/-!
C02, second batch: the model's *popping* helpers (`generate_implied_end_tags`, `pop_until_current`,
`pop_until`, `close_p_element`, `close_the_cell`, `process_end_tag_in_body`) and stack queries
against the functions of `H5V.Spec.TreeAlgo2` (stack = `List (Elem N)`, current node last), as
total-correctness triples relative to the sink (`Tot`).

Every triple says: only `openElems` (and, for `close_the_cell`, `activeFormatting`) of the tree
builder's fields changes, no edit call is made (only queries, `pop` notifications, parse errors),
the new stack is a prefix of the old one and, abstracted with the names of the *initial* DOM, it is
the stack the standard's steps produce.
-/
namespace H5V.Lemmas.HtmlTBAlgo
open H5V.Model.HtmlTB
open H5V.Model.Dom (Id SinkOp Output Dom QualName Attr NodeOrText ElementFlags NodeData)
open H5V.Lemmas.Dom
open H5V.Lemmas.HtmlTBSpec (NamesOk toName)
open H5V.Lemmas.HtmlTBTables
open H5V.Spec.TreeAlgo2 (Elem Entry PState)

/-! ### rules -/

/-- `tot_bind` with the `Ext` fact of the first computation at hand -/
theorem pop_tot_bind {α β : Type} {m : M α} {f : α → M β} {s : State} {P : α → State → List Call → Prop}
    {Q : β → State → List Call → Prop} (hm : Tot m s P)
    (hf : ∀ a s1 c1, Ext s c1 s1 → P a s1 c1 → Tot (f a) s1 (fun b s2 c2 => Q b s2 (c1 ++ c2))) :
    Tot (m >>= f) s Q :=
  tot_bind (tot_conseq hm hf)

/-- of the tree builder's fields only the stack of open elements changed -/
def StackOnly (s s' : State) : Prop :=
  s' = { s with openElems := s'.openElems, dom := s'.dom, traceRev := s'.traceRev }

theorem StackOnly.refl (s : State) : StackOnly s s := rfl

theorem StackOnly.trans {a b c : State} (h1 : StackOnly a b) (h2 : StackOnly b c) : StackOnly a c := by
  unfold StackOnly at *; rw [h2, h1]

theorem StackOnly.of_sameTB {s s' : State} (h : SameTB s s') : StackOnly s s' := by
  unfold SameTB at h; unfold StackOnly; rw [h]

theorem SameTB.pop_openElems {s s' : State} (h : SameTB s s') : s'.openElems = s.openElems := by
  unfold SameTB at h; rw [h]

theorem SameTB.pop_activeFormatting {s s' : State} (h : SameTB s s') : s'.activeFormatting = s.activeFormatting := by
  unfold SameTB at h; rw [h]

theorem StackOnly.activeFormatting {s s' : State} (h : StackOnly s s') : s'.activeFormatting = s.activeFormatting := by
  unfold StackOnly at h; rw [h]

/-- the sink names the handles of `l` as `nm` says (a DOM-independent naming, stable under `Ext`) -/
def NamedBy (d : Dom) (l : List Id) (nm : Id → EName) : Prop :=
  ∀ h ∈ l, d.isElement h = true ∧ nameOf d h = nm h

theorem NamedBy.stable {d d' : Dom} {l : List Id} {nm : Id → EName} (h : NamedBy d l nm) (hs : Stable d d') :
    NamedBy d' l nm :=
  fun x hx => ⟨isElement_stable hs (h x hx).1, by rw [nameOf_stable hs (h x hx).1]; exact (h x hx).2⟩

theorem NamedBy.of_elemsOk {d : Dom} {l : List Id} (h : ElemsOk d l) : NamedBy d l (nameOf d) :=
  fun x hx => ⟨h x hx, rfl⟩

theorem NamedBy.sub {d : Dom} {l l' : List Id} {nm : Id → EName} (h : NamedBy d l nm) (hs : ∀ x ∈ l', x ∈ l) :
    NamedBy d l' nm := fun x hx => h x (hs x hx)

theorem NamedBy.tail {d : Dom} {x : Id} {l : List Id} {nm : Id → EName} (h : NamedBy d (x :: l) nm) :
    NamedBy d l nm := h.sub fun _ hy => List.mem_cons_of_mem _ hy

theorem NamedBy.reverse {d : Dom} {l : List Id} {nm : Id → EName} (h : NamedBy d l nm) :
    NamedBy d l.reverse nm := h.sub fun _ hy => List.mem_reverse.mp hy

/-! ### list lemmas -/

theorem pop_dropWhile_map {α β : Type} (f : α → β) (p : β → Bool) (l : List α) :
    (l.dropWhile (fun x => p (f x))).map f = (l.map f).dropWhile p := by
  induction l with
  | nil => rfl
  | cons x l ih =>
    simp only [List.dropWhile_cons, List.map_cons]
    cases p (f x) <;> simp [ih]

theorem pop_takeWhile_map {α β : Type} (f : α → β) (p : β → Bool) (l : List α) :
    (l.takeWhile (fun x => p (f x))).map f = (l.map f).takeWhile p := by
  induction l with
  | nil => rfl
  | cons x l ih =>
    simp only [List.takeWhile_cons, List.map_cons]
    cases p (f x) <;> simp [ih]

theorem pop_dropWhile_congr {α : Type} {p q : α → Bool} {l : List α} (h : ∀ x ∈ l, p x = q x) :
    l.dropWhile p = l.dropWhile q := by
  induction l with
  | nil => rfl
  | cons x l ih =>
    simp only [List.dropWhile_cons]
    rw [h x (List.mem_cons_self ..), ih fun y hy => h y (List.mem_cons_of_mem _ hy)]

theorem pop_dropWhile_nil {α : Type} {p : α → Bool} {l : List α} (h : l.dropWhile p = []) :
    ∀ x ∈ l, p x = true := by
  induction l with
  | nil => intro x hx; cases hx
  | cons y l ih =>
    simp only [List.dropWhile_cons] at h
    cases hp : p y with
    | false => simp [hp] at h
    | true =>
      simp only [hp, if_true] at h
      intro x hx
      rcases List.mem_cons.mp hx with rfl | hx
      · exact hp
      · exact ih h x hx

/-- the abstraction of a stack given current node first -/
theorem pop_absStack_reverse (d : Dom) (l : List Id) : absStack d l.reverse = (absStack d l).reverse := by
  unfold absStack; rw [List.map_reverse]

theorem pop_absStack_take (d : Dom) (l : List Id) (n : Nat) : absStack d (l.take n) = (absStack d l).take n := by
  unfold absStack; rw [List.map_take]

theorem pop_elemOf_name (d : Dom) (h : Id) : (elemOf d h).name = toName (nameOf d h) := rfl

theorem ElemsOk.of_prefix {d : Dom} {l l' : List Id} (h : ElemsOk d l) (hp : l' <+: l) : ElemsOk d l' :=
  fun x hx => h x (hp.subset hx)

/-! ### `pop`, `pop` without notification, `current_node` -/

theorem pop_tot_pop {s : State} {h : Id} (hl : s.openElems.getLast? = some h) :
    Tot pop s (fun a s' calls => a = h ∧ StackOnly s s' ∧ s'.openElems = s.openElems.dropLast ∧ edits calls = []) := by
  unfold pop
  refine tot_getS_bind ?_
  simp only [hl]
  refine tot_bind (tot_set rfl rfl ?_)
  refine tot_bind (tot_conseq (tot_sinkUnit _ trivial) fun _ s1 c1 _ ⟨d', out, _, hs1, hc1⟩ => ?_)
  subst hs1 hc1
  exact tot_pure ⟨rfl, rfl, rfl, rfl⟩

theorem pop_tot_popSilently (s : State) :
    Tot popSilently s (fun a s' calls => a = s.openElems.getLast? ∧ StackOnly s s' ∧
      s'.openElems = s.openElems.dropLast ∧ calls = []) := by
  unfold popSilently
  refine tot_getS_bind ?_
  cases hl : s.openElems.getLast? with
  | none =>
    have : s.openElems = [] := List.getLast?_eq_none_iff.mp hl
    exact tot_pure ⟨rfl, rfl, by rw [this]; rfl, rfl⟩
  | some h =>
    refine tot_bind (tot_set rfl rfl ?_)
    exact tot_pure ⟨rfl, rfl, rfl, rfl⟩

/-- `current_node()`: the last entry of the stack -/
theorem pop_tot_currentNode_eq {s : State} {h : Id} (hl : s.openElems.getLast? = some h) :
    Tot currentNode s (fun a s' calls => a = h ∧ s' = s ∧ calls = []) := by
  unfold currentNode
  refine tot_getS_bind ?_
  simp only [hl]
  exact tot_pure ⟨rfl, rfl, rfl⟩

theorem pop_tot_currentNode {s : State} {h : Id} (hl : s.openElems.getLast? = some h) :
    Tot currentNode s (QueryQ s h) :=
  tot_conseq (pop_tot_currentNode_eq hl) fun _ _ _ _ ⟨h1, h2, h3⟩ => ⟨h1, h2 ▸ SameTB.refl s, by rw [h3]; rfl⟩

/-! ### 1. generate implied end tags -/

/-- the loop pops exactly the maximal run of current nodes in `set`; `r`: the stack, current node first -/
theorem pop_impliedLoop (set : EName → Bool) (nm : Id → EName) :
    ∀ (r : List Id) (s : State) (fuel : Nat), s.openElems = r.reverse → NamedBy s.dom r nm → r.length + 1 ≤ fuel →
      Tot (generateImpliedEndTagsLoop set fuel) s (fun _ s' calls => StackOnly s s' ∧
        s'.openElems = (r.dropWhile (fun h => set (nm h))).reverse ∧ edits calls = []) := by
  intro r
  induction r with
  | nil =>
    intro s fuel hs _ hf
    obtain ⟨f, rfl⟩ : ∃ f, fuel = f + 1 := ⟨fuel - 1, by omega⟩
    simp only [generateImpliedEndTagsLoop]
    refine tot_getS_bind ?_
    have hl : s.openElems.getLast? = none := by simp [hs]
    simp only [hl]
    exact tot_pure ⟨rfl, by simpa using hs, rfl⟩
  | cons h r ih =>
    intro s fuel hs hn hf
    obtain ⟨f, rfl⟩ : ∃ f, fuel = f + 1 := ⟨fuel - 1, by simp at hf; omega⟩
    have hl : s.openElems.getLast? = some h := by simp [hs]
    simp only [generateImpliedEndTagsLoop]
    refine tot_getS_bind ?_
    simp only [hl]
    refine tot_query_bind (tot_elemName' s h) fun s1 c1 he1 hs1 hc1 => ?_
    rw [(hn h (List.mem_cons_self ..)).2]
    cases hset : set (nm h) with
    | false =>
      simp only [Bool.not_false, if_true, List.dropWhile_cons, hset, Bool.false_eq_true, if_false]
      exact tot_pure ⟨StackOnly.of_sameTB hs1, by rw [hs1.pop_openElems, hs], by simp [hc1]⟩
    | true =>
      simp only [Bool.not_true, Bool.false_eq_true, if_false, List.dropWhile_cons, hset, if_true]
      have hl1 : s1.openElems.getLast? = some h := by rw [hs1.pop_openElems]; exact hl
      refine pop_tot_bind (pop_tot_pop hl1) fun a s2 c2 he2 ⟨_, hso, hst, hc2⟩ => ?_
      have hs2 : s2.openElems = r.reverse := by rw [hst, hs1.pop_openElems, hs]; simp
      have hn2 : NamedBy s2.dom r nm := hn.tail.stable (he1.stable.trans he2.stable)
      refine tot_conseq (ih s2 f hs2 hn2 (by simp at hf; omega)) fun _ s3 c3 _ ⟨h1, h2, h3⟩ => ?_
      exact ⟨(StackOnly.of_sameTB hs1).trans (hso.trans h1), h2, by simp [edits_append, hc1, hc2, h3]⟩

/-- the common postcondition: of the tree builder's fields only the stack changed, it shrank to a
prefix, no edit was made, and — with the names of the initial DOM — the new stack is `f` of the old -/
def PopsTo (s : State) (f : List (Elem Id) → List (Elem Id)) (s' : State) (calls : List Call) : Prop :=
  StackOnly s s' ∧ s'.openElems <+: s.openElems ∧
    absStack s.dom s'.openElems = f (absStack s.dom s.openElems) ∧ edits calls = []

theorem pop_prefix_dropWhile {α : Type} (p : α → Bool) (l : List α) : (l.reverse.dropWhile p).reverse <+: l := by
  have := List.reverse_prefix.mpr (List.dropWhile_suffix p (l := l.reverse))
  simpa using this

theorem pop_abs_dropWhile (d : Dom) (l : List Id) (set : EName → Bool) (q : Spec.TreeAlgo.Name → Bool)
    (hq : ∀ n, set n = q (toName n)) :
    absStack d (l.reverse.dropWhile (fun h => set (nameOf d h))).reverse
      = ((absStack d l).reverse.dropWhile (fun e => q e.name)).reverse := by
  rw [pop_absStack_reverse, ← pop_absStack_reverse d l]
  unfold absStack
  rw [← pop_dropWhile_map]
  congr 2
  exact pop_dropWhile_congr fun h _ => hq _

/-- **1.** `generate_implied_end_tags(set)`: pop while the current node is in `set` -/
theorem tot_generateImpliedEndTags (s : State) (hok : ElemsOk s.dom s.openElems) (set : EName → Bool)
    (q : Spec.TreeAlgo.Name → Bool) (hq : ∀ n, set n = q (toName n)) :
    Tot (generateImpliedEndTags set) s (fun _ s' calls =>
      PopsTo s (fun st => (st.reverse.dropWhile (fun e => q e.name)).reverse) s' calls) := by
  unfold generateImpliedEndTags
  refine tot_getS_bind ?_
  refine tot_conseq (pop_impliedLoop set (nameOf s.dom) s.openElems.reverse s _ (by simp)
    (NamedBy.of_elemsOk hok).reverse (by simp)) fun _ s' calls _ ⟨h1, h2, h3⟩ => ?_
  refine ⟨h1, ?_, ?_, h3⟩
  · rw [h2]; exact pop_prefix_dropWhile _ _
  · rw [h2]; exact pop_abs_dropWhile s.dom s.openElems set q hq

theorem PopsTo.congr {s s' : State} {calls : List Call} {f g : List (Elem Id) → List (Elem Id)}
    (h : PopsTo s f s' calls) (hfg : f (absStack s.dom s.openElems) = g (absStack s.dom s.openElems)) :
    PopsTo s g s' calls := ⟨h.1, h.2.1, hfg ▸ h.2.2.1, h.2.2.2⟩

/-- **1a.** "generate implied end tags" -/
theorem tot_generateImpliedEndTags_cursory (s : State) (hok : ElemsOk s.dom s.openElems) :
    Tot (Model.HtmlTB.generateImpliedEndTags cursoryImpliedEnd) s
      (fun _ s' calls => PopsTo s (Spec.TreeAlgo2.generateImpliedEndTags none) s' calls) :=
  tot_generateImpliedEndTags s hok _ _ fun n => (HtmlTBSpec.implied_sets_eq_spec n []).1

/-- **1b.** "generate implied end tags, except for `x` elements" -/
theorem tot_generateImpliedEndExcept (s : State) (hok : ElemsOk s.dom s.openElems) (x : Str) :
    Tot (generateImpliedEndExcept x) s
      (fun _ s' calls => PopsTo s (Spec.TreeAlgo2.generateImpliedEndTags (some x)) s' calls) :=
  tot_generateImpliedEndTags s hok _ _ fun n => (HtmlTBSpec.implied_sets_eq_spec n x).2.1

/-- **1c.** "generate implied end tags, except for `p` elements" -/
theorem tot_generateImpliedEndTags_exceptP (s : State) (hok : ElemsOk s.dom s.openElems) :
    Tot (Model.HtmlTB.generateImpliedEndTags impliedExceptP) s
      (fun _ s' calls => PopsTo s (Spec.TreeAlgo2.generateImpliedEndTags (some "p".toList)) s' calls) :=
  tot_generateImpliedEndTags s hok _ _ fun n => (HtmlTBSpec.implied_sets_eq_spec n []).2.2.1

/-- the element types of a stack, current node first (the convention of `Spec.TreeAlgo`) -/
def namesRev (st : List (Elem Id)) : List Spec.TreeAlgo.Name := st.reverse.map (·.name)

theorem pop_namesRev_popWhile (q : Spec.TreeAlgo.Name → Bool) (st : List (Elem Id)) :
    namesRev (st.reverse.dropWhile (fun e => q e.name)).reverse = (namesRev st).dropWhile q := by
  unfold namesRev
  rw [List.reverse_reverse]
  exact pop_dropWhile_map (fun e : Elem Id => e.name) q st.reverse

/-- **1d.** "generate all implied end tags thoroughly" (`Spec.TreeAlgo`, names, current node first) -/
theorem tot_generateImpliedEndTags_thorough (s : State) (hok : ElemsOk s.dom s.openElems) :
    Tot (Model.HtmlTB.generateImpliedEndTags thoroughImpliedEnd) s (fun _ s' calls =>
      StackOnly s s' ∧ s'.openElems <+: s.openElems ∧ edits calls = [] ∧
      namesRev (absStack s.dom s'.openElems)
        = Spec.TreeAlgo.generateAllImpliedEndTagsThoroughly (namesRev (absStack s.dom s.openElems))) := by
  refine tot_conseq (tot_generateImpliedEndTags s hok _ _ fun n => (HtmlTBSpec.implied_sets_eq_spec n []).2.2.2)
    fun _ s' calls _ ⟨h1, h2, h3, h4⟩ => ⟨h1, h2, h4, ?_⟩
  rw [h3]; exact pop_namesRev_popWhile _ _

/-! ### 2. clear the stack back to a table / table body / table row context -/

theorem pop_tot_currentNodeIn {s : State} {h : Id} (hl : s.openElems.getLast? = some h) (set : EName → Bool) :
    Tot (currentNodeIn set) s (QueryQ s (set (nameOf s.dom h))) := by
  unfold currentNodeIn
  refine pop_tot_bind (pop_tot_currentNode_eq hl) fun a s1 c1 _ ⟨ha, hs1, hc1⟩ => ?_
  subst ha hs1 hc1
  refine tot_query_bind (tot_elemName' s1 a) fun s2 c2 he2 hs2 hc2 => ?_
  exact tot_pure ⟨rfl, hs2, by simp [hc2]⟩

/-- the loop pops exactly the maximal run of current nodes *not* in `set` -/
theorem pop_untilCurrentLoop (set : EName → Bool) (nm : Id → EName) :
    ∀ (r : List Id) (s : State) (fuel : Nat), s.openElems = r.reverse → NamedBy s.dom r nm → r.length + 1 ≤ fuel →
      r.any (fun h => set (nm h)) = true →
      Tot (popUntilCurrentLoop set fuel) s (fun _ s' calls => StackOnly s s' ∧
        s'.openElems = (r.dropWhile (fun h => !set (nm h))).reverse ∧ edits calls = []) := by
  intro r
  induction r with
  | nil => intro s fuel _ _ _ hex; simp at hex
  | cons h r ih =>
    intro s fuel hs hn hf hex
    obtain ⟨f, rfl⟩ : ∃ f, fuel = f + 1 := ⟨fuel - 1, by simp at hf; omega⟩
    have hl : s.openElems.getLast? = some h := by simp [hs]
    simp only [popUntilCurrentLoop]
    refine tot_query_bind (pop_tot_currentNodeIn hl set) fun s1 c1 he1 hs1 hc1 => ?_
    rw [(hn h (List.mem_cons_self ..)).2]
    cases hset : set (nm h) with
    | true =>
      simp only [if_true, List.dropWhile_cons, hset, Bool.not_true, Bool.false_eq_true, if_false]
      exact tot_pure ⟨StackOnly.of_sameTB hs1, by rw [hs1.pop_openElems, hs], by simp [hc1]⟩
    | false =>
      simp only [Bool.false_eq_true, if_false, List.dropWhile_cons, hset, Bool.not_false, if_true]
      refine pop_tot_bind (pop_tot_popSilently s1) fun a s2 c2 he2 ⟨_, hso, hst, hc2⟩ => ?_
      have hs2 : s2.openElems = r.reverse := by rw [hst, hs1.pop_openElems, hs]; simp
      have hn2 : NamedBy s2.dom r nm := hn.tail.stable (he1.stable.trans he2.stable)
      have hex2 : r.any (fun h => set (nm h)) = true := by simpa [hset] using hex
      refine tot_conseq (ih s2 f hs2 hn2 (by simp at hf; omega) hex2) fun _ s3 c3 _ ⟨h1, h2, h3⟩ => ?_
      exact ⟨(StackOnly.of_sameTB hs1).trans (hso.trans h1), h2, by simp [edits_append, hc1, hc2, h3]⟩

theorem pop_abs_any (d : Dom) (l : List Id) (set : EName → Bool) (q : Spec.TreeAlgo.Name → Bool)
    (hq : ∀ n, set n = q (toName n)) :
    (absStack d l).any (fun e => q e.name) = l.any (fun h => set (nameOf d h)) := by
  unfold absStack
  rw [List.any_map]
  congr 1
  funext h; exact (hq _).symm

/-- **2.** `pop_until_current(set)`: pop while the current node is not in `set` (some entry of the
stack is in `set`: otherwise "the current node" runs out — the model panics) -/
theorem tot_popUntilCurrent (s : State) (hok : ElemsOk s.dom s.openElems) (set : EName → Bool)
    (q : Spec.TreeAlgo.Name → Bool) (hq : ∀ n, set n = q (toName n))
    (hex : (absStack s.dom s.openElems).any (fun e => q e.name) = true) :
    Tot (popUntilCurrent set) s (fun _ s' calls =>
      PopsTo s (fun st => (st.reverse.dropWhile (fun e => !q e.name)).reverse) s' calls) := by
  unfold popUntilCurrent
  refine tot_getS_bind ?_
  have hex' : s.openElems.reverse.any (fun h => set (nameOf s.dom h)) = true := by
    rw [List.any_reverse, ← pop_abs_any s.dom s.openElems set q hq]; exact hex
  refine tot_conseq (pop_untilCurrentLoop set (nameOf s.dom) s.openElems.reverse s _ (by simp)
    (NamedBy.of_elemsOk hok).reverse (by simp) hex') fun _ s' calls _ ⟨h1, h2, h3⟩ => ?_
  refine ⟨h1, ?_, ?_, h3⟩
  · rw [h2]; exact pop_prefix_dropWhile _ _
  · rw [h2]
    exact pop_abs_dropWhile s.dom s.openElems (fun n => !set n) (fun n => !q n) fun n => by rw [hq]

theorem pop_tableScope_eq (n : EName) :
    tableScope n = Spec.TreeAlgo.inHtml Spec.TreeTables.tableContext (toName n) := by
  unfold tableScope
  rw [htmlIn_eq, memName_of_sameSet (b := rows "html" Spec.TreeTables.tableContext) (by decide +kernel), ← htmlIn_eq]
  rfl

/-- **2a.** "clear the stack back to a table context" -/
theorem tot_popUntilCurrent_table (s : State) (hok : ElemsOk s.dom s.openElems)
    (hex : (absStack s.dom s.openElems).any
      (fun e => Spec.TreeAlgo.inHtml Spec.TreeTables.tableContext e.name) = true) :
    Tot (popUntilCurrent tableScope) s
      (fun _ s' calls => PopsTo s Spec.TreeAlgo2.clearStackBackToTableContext s' calls) :=
  tot_popUntilCurrent s hok _ _ pop_tableScope_eq hex

/-- **2b.** "clear the stack back to a table body context" -/
theorem tot_popUntilCurrent_tableBody (s : State) (hok : ElemsOk s.dom s.openElems)
    (hex : (absStack s.dom s.openElems).any
      (fun e => Spec.TreeAlgo.inHtml Spec.TreeTables.tableBodyContext e.name) = true) :
    Tot (popUntilCurrent tableBodyContext) s
      (fun _ s' calls => PopsTo s Spec.TreeAlgo2.clearStackBackToTableBodyContext s' calls) :=
  tot_popUntilCurrent s hok _ _ (fun _ => rfl) hex

/-- **2c.** "clear the stack back to a table row context" -/
theorem tot_popUntilCurrent_tableRow (s : State) (hok : ElemsOk s.dom s.openElems)
    (hex : (absStack s.dom s.openElems).any
      (fun e => Spec.TreeAlgo.inHtml Spec.TreeTables.tableRowContext e.name) = true) :
    Tot (popUntilCurrent tableRowContext) s
      (fun _ s' calls => PopsTo s Spec.TreeAlgo2.clearStackBackToTableRowContext s' calls) :=
  tot_popUntilCurrent s hok _ _ (fun _ => rfl) hex

/-! ### 3. pop elements until an element of a kind has been popped -/

/-- `pop_until`: the loop pops up to and including the first entry with `pred` (everything if there
is none) and counts its iterations; `r`: the stack, current node first -/
theorem pop_untilLoop (pred : EName → Bool) (nm : Id → EName) :
    ∀ (r : List Id) (s : State) (fuel n : Nat), s.openElems = r.reverse → NamedBy s.dom r nm → r.length + 1 ≤ fuel →
      Tot (popUntilLoop pred fuel n) s (fun k s' calls => StackOnly s s' ∧
        s'.openElems = ((r.dropWhile (fun h => !pred (nm h))).drop 1).reverse ∧
        k = n + (r.takeWhile (fun h => !pred (nm h))).length + 1 ∧ edits calls = []) := by
  intro r
  induction r with
  | nil =>
    intro s fuel n hs _ hf
    obtain ⟨f, rfl⟩ : ∃ f, fuel = f + 1 := ⟨fuel - 1, by omega⟩
    simp only [popUntilLoop]
    refine pop_tot_bind (pop_tot_popSilently s) fun a s1 c1 _ ⟨ha, hso, hst, hc1⟩ => ?_
    have hl : s.openElems.getLast? = none := by simp [hs]
    rw [hl] at ha; subst ha
    refine tot_pure ⟨hso, ?_, by simp, by simp [hc1]⟩
    rw [hst, hs]; rfl
  | cons h r ih =>
    intro s fuel n hs hn hf
    obtain ⟨f, rfl⟩ : ∃ f, fuel = f + 1 := ⟨fuel - 1, by simp at hf; omega⟩
    have hl : s.openElems.getLast? = some h := by simp [hs]
    simp only [popUntilLoop]
    refine pop_tot_bind (pop_tot_popSilently s) fun a s1 c1 he1 ⟨ha, hso, hst, hc1⟩ => ?_
    rw [hl] at ha; subst ha
    have hs1 : s1.openElems = r.reverse := by rw [hst, hs]; simp
    have hn1 : NamedBy s1.dom (h :: r) nm := hn.stable he1.stable
    simp only []
    refine tot_query_bind (tot_elemName' s1 h) fun s2 c2 he2 hs2 hc2 => ?_
    rw [(hn1 h (List.mem_cons_self ..)).2]
    cases hp : pred (nm h) with
    | true =>
      simp only [if_true, List.dropWhile_cons, List.takeWhile_cons, hp, Bool.not_true, Bool.false_eq_true, if_false,
        List.drop_succ_cons, List.drop_zero, List.length_nil]
      exact tot_pure ⟨hso.trans (StackOnly.of_sameTB hs2), by rw [hs2.pop_openElems, hs1], by omega,
        by simp [hc1, hc2]⟩
    | false =>
      simp only [Bool.false_eq_true, if_false, List.dropWhile_cons, List.takeWhile_cons, hp, Bool.not_false, if_true,
        List.length_cons]
      have hs2' : s2.openElems = r.reverse := by rw [hs2.pop_openElems, hs1]
      refine tot_conseq (ih s2 f (n + 1) hs2' (hn1.tail.stable he2.stable) (by simp at hf; omega))
        fun _ s3 c3 _ ⟨h1, h2, h3, h4⟩ => ?_
      exact ⟨hso.trans ((StackOnly.of_sameTB hs2).trans h1), h2, by omega, by simp [edits_append, hc1, hc2, h4]⟩

theorem pop_prefix_dropWhile_drop {α : Type} (p : α → Bool) (l : List α) :
    ((l.reverse.dropWhile p).drop 1).reverse <+: l := by
  have h1 : (l.reverse.dropWhile p).drop 1 <:+ l.reverse :=
    (List.drop_suffix 1 _).trans (List.dropWhile_suffix p)
  have := List.reverse_prefix.mpr h1
  simpa using this

theorem pop_abs_dropWhile_drop (d : Dom) (l : List Id) (set : EName → Bool) (q : Spec.TreeAlgo.Name → Bool)
    (hq : ∀ n, set n = q (toName n)) :
    absStack d ((l.reverse.dropWhile (fun h => set (nameOf d h))).drop 1).reverse
      = (((absStack d l).reverse.dropWhile (fun e => q e.name)).drop 1).reverse := by
  rw [pop_absStack_reverse, ← pop_absStack_reverse d l]
  unfold absStack
  rw [← pop_dropWhile_map, List.map_drop]
  congr 3
  exact pop_dropWhile_congr fun h _ => hq _

theorem pop_abs_takeWhile_length (d : Dom) (l : List Id) (set : EName → Bool) (q : Spec.TreeAlgo.Name → Bool)
    (hq : ∀ n, set n = q (toName n)) :
    ((absStack d l).reverse.takeWhile (fun e => q e.name)).length
      = (l.reverse.takeWhile (fun h => set (nameOf d h))).length := by
  rw [← pop_absStack_reverse d l]
  unfold absStack
  rw [← pop_takeWhile_map, List.length_map]
  congr 2
  funext h; exact (hq _).symm

/-- the number of iterations `pop_until` reports: the entries popped before the hit, plus one -/
def popCount (p : Elem Id → Bool) (stack : List (Elem Id)) : Nat :=
  (stack.reverse.takeWhile fun e => !p e).length + 1

/-- `popCount = 1` iff the current node (if there is one) is a hit -/
theorem popCount_eq_one (p : Elem Id → Bool) (stack : List (Elem Id)) :
    popCount p stack = 1 ↔ ∀ e, stack.getLast? = some e → p e = true := by
  unfold popCount
  rw [← List.head?_reverse]
  cases stack.reverse with
  | nil => simp
  | cons x r =>
    simp only [List.takeWhile_cons, List.head?_cons, Option.some.injEq]
    cases hp : p x with
    | true => simp [hp]
    | false =>
      simp only [Bool.not_false, if_true, List.length_cons]
      constructor
      · intro h; omega
      · intro h; have := h x rfl; rw [hp] at this; cases this

/-- **3.** `pop_until(pred)`: "pop elements from the stack of open elements until a `pred` element
has been popped from the stack"; the count returned is `popCount` -/
theorem tot_popUntil (s : State) (hok : ElemsOk s.dom s.openElems) (pred : EName → Bool)
    (q : Spec.TreeAlgo.Name → Bool) (hq : ∀ n, pred n = q (toName n)) :
    Tot (popUntil pred) s (fun k s' calls =>
      PopsTo s (Spec.TreeAlgo2.popUntilPopped (fun e => q e.name)) s' calls ∧
      k = popCount (fun e => q e.name) (absStack s.dom s.openElems)) := by
  unfold popUntil
  refine tot_getS_bind ?_
  refine tot_conseq (pop_untilLoop pred (nameOf s.dom) s.openElems.reverse s _ 0 (by simp)
    (NamedBy.of_elemsOk hok).reverse (by simp)) fun k s' calls _ ⟨h1, h2, h3, h4⟩ => ?_
  refine ⟨⟨h1, ?_, ?_, h4⟩, ?_⟩
  · rw [h2]; exact pop_prefix_dropWhile_drop _ _
  · rw [h2]
    exact pop_abs_dropWhile_drop s.dom s.openElems (fun n => !pred n) (fun n => !q n) fun n => by rw [hq]
  · rw [h3, popCount, pop_abs_takeWhile_length s.dom s.openElems (fun n => !pred n) (fun n => !q n) fun n => by rw [hq]]
    omega

/-- is `e` an HTML element with the tag name `name` -/
def isNamed (name : Str) (e : Elem Id) : Bool := e.name.ns == Spec.TreeAlgo.nsHtml && e.name.loc == name

/-- **3a.** `pop_until_named(name)` -/
theorem tot_popUntilNamedS (s : State) (hok : ElemsOk s.dom s.openElems) (name : Str) :
    Tot (popUntilNamedS name) s (fun k s' calls =>
      PopsTo s (Spec.TreeAlgo2.popUntilPopped (isNamed name)) s' calls ∧
      k = popCount (isNamed name) (absStack s.dom s.openElems)) :=
  tot_popUntil s hok _ (fun n => n.ns == Spec.TreeAlgo.nsHtml && n.loc == name) fun _ => rfl

/-- **3b.** `expect_to_close(name)` -/
theorem tot_expectToCloseS (s : State) (hok : ElemsOk s.dom s.openElems) (name : Str) :
    Tot (expectToCloseS name) s (fun _ s' calls =>
      PopsTo s (Spec.TreeAlgo2.popUntilPopped (isNamed name)) s' calls) := by
  unfold expectToCloseS
  refine pop_tot_bind (tot_popUntilNamedS s hok name) fun k s1 c1 he1 ⟨⟨h1, h2, h3, h4⟩, _⟩ => ?_
  by_cases hk : (k != 1) = true
  · simp only [hk, if_true]
    refine tot_conseq (tot_parseError s1 _) fun _ s2 c2 _ ⟨_, hs2, hc2⟩ => ?_
    exact ⟨h1.trans (StackOnly.of_sameTB hs2), by rw [hs2.pop_openElems]; exact h2, by rw [hs2.pop_openElems]; exact h3,
      by simp [edits_append, h4, hc2]⟩
  · simp only [hk]
    exact tot_pure ⟨h1, h2, h3, by simp [h4]⟩

/-! ### 4. close a p element, close the cell -/

theorem PopsTo.elemsOk {s s1 : State} {c1 : List Call} {f : List (Elem Id) → List (Elem Id)}
    (hok : ElemsOk s.dom s.openElems) (he : Ext s c1 s1) (h1 : PopsTo s f s1 c1) : ElemsOk s1.dom s1.openElems :=
  (hok.of_prefix h1.2.1).stable he.stable

/-- two popping steps in a row -/
theorem PopsTo.comp {s s1 s2 : State} {c1 c2 : List Call} {f g : List (Elem Id) → List (Elem Id)}
    (hok : ElemsOk s.dom s.openElems) (he : Ext s c1 s1) (h1 : PopsTo s f s1 c1) (h2 : PopsTo s1 g s2 c2) :
    PopsTo s (fun st => g (f st)) s2 (c1 ++ c2) := by
  obtain ⟨a1, a2, a3, a4⟩ := h1
  obtain ⟨b1, b2, b3, b4⟩ := h2
  refine ⟨a1.trans b1, b2.trans a2, ?_, by simp [edits_append, a4, b4]⟩
  have hok1 : ElemsOk s.dom s1.openElems := hok.of_prefix a2
  have hok2 : ElemsOk s.dom s2.openElems := hok1.of_prefix b2
  rw [← absStack_stable hok2 he.stable, b3, absStack_stable hok1 he.stable, a3]

theorem pop_isHtml_p (e : Elem Id) : e.name.isHtml "p" = isNamed "p".toList e := rfl

/-- **4a.** `close_p_element` -/
theorem tot_closePElement (s : State) (hok : ElemsOk s.dom s.openElems) :
    Tot Model.HtmlTB.closePElement s (fun _ s' calls => PopsTo s Spec.TreeAlgo2.closePElement s' calls) := by
  unfold Model.HtmlTB.closePElement
  refine pop_tot_bind (tot_generateImpliedEndTags_exceptP s hok) fun _ s1 c1 he1 h1 => ?_
  refine tot_conseq (tot_expectToCloseS s1 (h1.elemsOk hok he1) "p".toList) fun _ s2 c2 _ h2 => ?_
  exact PopsTo.comp (f := Spec.TreeAlgo2.generateImpliedEndTags (some "p".toList))
    (g := Spec.TreeAlgo2.popUntilPopped (isNamed "p".toList)) hok he1 h1 h2

theorem pop_tdTh_eq (n : EName) : tdTh n = ((toName n).isHtml "td" || (toName n).isHtml "th") := by
  rw [HtmlTBSpec.isHtml_eq, HtmlTBSpec.isHtml_eq]
  unfold tdTh htmlIn isOneOf isName
  cases (n.ns == nsHtml) <;> simp

theorem pop_clearRev_eq : ∀ l : List FormatEntry,
    absList (clearToMarkerRev l) = Spec.TreeAlgo2.clearRev (absList l)
  | [] => rfl
  | .marker :: rest => rfl
  | .element h t :: rest => by
    show absList (clearToMarkerRev rest) = Spec.TreeAlgo2.clearRev (absList rest)
    exact pop_clearRev_eq rest

/-- the model's `clear_active_formatting_to_marker` is "clear the list of active formatting elements
up to the last marker" -/
theorem pop_clearToLastMarker_eq (af : List FormatEntry) :
    absList ((clearToMarkerRev af.reverse).reverse) = Spec.TreeAlgo2.clearToLastMarker (absList af) := by
  unfold Spec.TreeAlgo2.clearToLastMarker
  have h1 : ∀ l : List FormatEntry, absList l.reverse = (absList l).reverse := fun l => by
    unfold absList; rw [List.map_reverse]
  rw [h1, pop_clearRev_eq, h1]

theorem pop_closeTheCell_abs (s : State) (supply : List Id) (log : List (Spec.TreeAlgo2.Edit Id Tag))
    (stk : List (Elem Id)) (lst : List (Entry Id Tag))
    (h1 : stk = Spec.TreeAlgo2.popUntilPopped (fun e => e.name.isHtml "td" || e.name.isHtml "th")
      (Spec.TreeAlgo2.generateImpliedEndTags none (absStack s.dom s.openElems)))
    (h2 : lst = Spec.TreeAlgo2.clearToLastMarker (absList s.activeFormatting)) :
    ({ absState s supply log with stack := stk, list := lst } : PState Id Tag)
      = Spec.TreeAlgo2.closeTheCell (absState s supply log) := by
  subst h1 h2; rfl

/-- **4b.** `close_the_cell`: steps 1–4 of "close the cell" on the stack and the list of active
formatting elements (names of the initial DOM); everything else is unchanged -/
theorem tot_closeTheCell (s : State) (hok : ElemsOk s.dom s.openElems) (supply : List Id)
    (log : List (Spec.TreeAlgo2.Edit Id Tag)) :
    Tot Model.HtmlTB.closeTheCell s (fun _ s' calls =>
      s' = { s with openElems := s'.openElems, activeFormatting := s'.activeFormatting,
                    dom := s'.dom, traceRev := s'.traceRev } ∧
      s'.openElems <+: s.openElems ∧ edits calls = [] ∧
      ({ absState s supply log with stack := absStack s.dom s'.openElems, list := absList s'.activeFormatting }
        : PState Id Tag) = Spec.TreeAlgo2.closeTheCell (absState s supply log)) := by
  unfold Model.HtmlTB.closeTheCell
  refine pop_tot_bind (tot_generateImpliedEndTags_cursory s hok) fun _ s1 c1 he1 h1 => ?_
  have hok1 := h1.elemsOk hok he1
  refine pop_tot_bind (tot_popUntil s1 hok1 tdTh (fun n => n.isHtml "td" || n.isHtml "th") pop_tdTh_eq)
    fun k s2 c2 he2 ⟨h2, _⟩ => ?_
  have h12 := PopsTo.comp (f := Spec.TreeAlgo2.generateImpliedEndTags none)
    (g := Spec.TreeAlgo2.popUntilPopped fun e => e.name.isHtml "td" || e.name.isHtml "th") hok he1 h1 h2
  -- the parse error (or not), then the list
  have hfin : ∀ s3 c3, SameTB s2 s3 → edits c3 = [] →
      Tot clearActiveFormattingToMarker s3 (fun _ s' c4 =>
        s' = { s with openElems := s'.openElems, activeFormatting := s'.activeFormatting,
                      dom := s'.dom, traceRev := s'.traceRev } ∧
        s'.openElems <+: s.openElems ∧ edits (c1 ++ (c2 ++ (c3 ++ c4))) = [] ∧
        ({ absState s supply log with stack := absStack s.dom s'.openElems, list := absList s'.activeFormatting }
          : PState Id Tag) = Spec.TreeAlgo2.closeTheCell (absState s supply log)) := by
    intro s3 c3 hs3 hc3
    unfold clearActiveFormattingToMarker
    refine tot_modS rfl rfl ⟨?_, ?_, ?_, ?_⟩
    · have e1 := h12.1
      unfold StackOnly at e1
      unfold SameTB at hs3
      rw [hs3, e1]
    · show s3.openElems <+: s.openElems
      rw [hs3.pop_openElems]; exact h12.2.1
    · have := h12.2.2.2
      simp only [edits_append] at this ⊢
      simp [hc3, List.append_eq_nil_iff.mp this]
    · refine pop_closeTheCell_abs s supply log _ _ ?_ ?_
      · show absStack s.dom s3.openElems = _
        rw [hs3.pop_openElems, h12.2.2.1]
      · show absList (clearToMarkerRev s3.activeFormatting.reverse).reverse = _
        rw [hs3.pop_activeFormatting, h12.1.activeFormatting, pop_clearToLastMarker_eq]
  by_cases hk : (k != 1) = true
  · simp only [hk, if_true]
    refine tot_query_bind (tot_parseError s2 _) fun s3 c3 _ hs3 hc3 => ?_
    exact hfin s3 c3 hs3 hc3
  · simp only [hk]
    have := hfin s2 [] (SameTB.refl _) rfl
    simpa using this

/-! ### 5. "any other end tag" -/

/-- the special category of the model is the standard's -/
theorem pop_specialTag_eq (n : EName) :
    specialTag n = Spec.TreeAlgo.inTable Spec.TreeTables.special (toName n) := by
  rw [specialTag_rows, ← HtmlTBSpec.memName_eq_inTable]
  exact memName_of_sameSet (by decide +kernel) n

/-- the search loop of `process_end_tag_in_body` as a function of the names -/
def endTagSearchPure (name : Str) (nm : Id → EName) : List Id → Nat → Option (Option Nat)
  | [], _ => some none
  | h :: rest, len =>
    if (nm h).ns == nsHtml && (nm h).loc == name then some (some (len - 1))
    else if specialTag (nm h) then none
    else endTagSearchPure name nm rest (len - 1)

theorem pop_endTagSearch (name : Str) (nm : Id → EName) :
    ∀ (r : List Id) (s : State) (len : Nat), NamedBy s.dom r nm →
      Tot (endTagSearch name r len) s (QueryQ s (endTagSearchPure name nm r len)) := by
  intro r
  induction r with
  | nil => intro s len _; exact tot_pure ⟨rfl, rfl, rfl⟩
  | cons h r ih =>
    intro s len hn
    simp only [endTagSearch, endTagSearchPure]
    refine tot_query_bind (tot_htmlElemNamedS s h name) fun s1 c1 he1 hs1 hc1 => ?_
    rw [(hn h (List.mem_cons_self ..)).2]
    by_cases hnamed : ((nm h).ns == nsHtml && (nm h).loc == name) = true
    · simp only [hnamed, if_true]
      exact tot_pure ⟨rfl, hs1, by simp [hc1]⟩
    · simp only [hnamed, Bool.false_eq_true, if_false]
      have hn1 := hn.stable he1.stable
      refine tot_query_bind (tot_elemIn s1 h specialTag) fun s2 c2 he2 hs2 hc2 => ?_
      rw [(hn1 h (List.mem_cons_self ..)).2]
      by_cases hsp : specialTag (nm h) = true
      · simp only [hsp, if_true]
        refine tot_query_bind (tot_parseError s2 _) fun s3 c3 _ hs3 hc3 => ?_
        exact tot_pure ⟨rfl, hs1.trans (hs2.trans hs3), by simp [edits_append, hc1, hc2, hc3]⟩
      · simp only [hsp, Bool.false_eq_true, if_false]
        refine tot_conseq (ih s2 (len - 1) (hn1.tail.stable he2.stable)) fun _ s3 c3 _ ⟨h1, h2, h3⟩ => ?_
        exact ⟨h1, hs1.trans (hs2.trans h2), by simp [edits_append, hc1, hc2, h3]⟩

theorem pop_search_bound (name : Str) (nm : Id → EName) :
    ∀ (r : List Id) (len i : Nat), endTagSearchPure name nm r len = some (some i) → r.length ≤ len →
      len - r.length ≤ i ∧ i < len := by
  intro r
  induction r with
  | nil => intro len i h; simp [endTagSearchPure] at h
  | cons x r ih =>
    intro len i h hl
    simp only [List.length_cons] at hl
    simp only [endTagSearchPure] at h
    by_cases hnamed : ((nm x).ns == nsHtml && (nm x).loc == name) = true
    · simp only [hnamed, if_true, Option.some.injEq] at h
      simp only [List.length_cons]; omega
    · simp only [hnamed, Bool.false_eq_true, if_false] at h
      by_cases hsp : specialTag (nm x) = true
      · simp [hsp] at h
      · simp only [hsp, Bool.false_eq_true, if_false] at h
        have := ih (len - 1) i h (by omega)
        simp only [List.length_cons]; omega

theorem pop_search_mem (name : Str) (nm : Id → EName) :
    ∀ (r : List Id) (len i : Nat), endTagSearchPure name nm r len = some (some i) →
      ∃ h ∈ r, ((nm h).ns == nsHtml && (nm h).loc == name) = true := by
  intro r
  induction r with
  | nil => intro len i h; simp [endTagSearchPure] at h
  | cons x r ih =>
    intro len i h
    simp only [endTagSearchPure] at h
    by_cases hnamed : ((nm x).ns == nsHtml && (nm x).loc == name) = true
    · exact ⟨x, List.mem_cons_self .., hnamed⟩
    · simp only [hnamed, Bool.false_eq_true, if_false] at h
      by_cases hsp : specialTag (nm x) = true
      · simp [hsp] at h
      · simp only [hsp, Bool.false_eq_true, if_false] at h
        obtain ⟨y, hy, hy'⟩ := ih (len - 1) i h
        exact ⟨y, List.mem_cons_of_mem _ hy, hy'⟩

/-- the model's search and the standard's: index from the top of the stack ↔ distance from the
current node -/
theorem pop_search_spec (name : Str) (nm : Id → EName) :
    ∀ (r : List Id) (len : Nat), r.length ≤ len →
      Spec.TreeAlgo2.anyOtherEndTagSearch name (r.map fun h => (⟨h, toName (nm h)⟩ : Elem Id))
        = ((endTagSearchPure name nm r len).getD none).map (fun i => len - 1 - i) := by
  intro r
  induction r with
  | nil => intro len _; rfl
  | cons x r ih =>
    intro len hl
    simp only [List.length_cons] at hl
    simp only [List.map_cons, Spec.TreeAlgo2.anyOtherEndTagSearch, endTagSearchPure, Spec.TreeAlgo2.isSpecial,
      ← pop_specialTag_eq]
    have hnm : ((toName (nm x)).ns == Spec.TreeAlgo.nsHtml && (toName (nm x)).loc == name)
        = ((nm x).ns == nsHtml && (nm x).loc == name) := rfl
    rw [hnm]
    by_cases hnamed : ((nm x).ns == nsHtml && (nm x).loc == name) = true
    · simp only [hnamed, if_true, Option.getD_some, Option.map_some]
      congr 1; omega
    · simp only [hnamed, Bool.false_eq_true, if_false]
      by_cases hsp : specialTag (nm x) = true
      · simp [hsp]
      · simp only [hsp, Bool.false_eq_true, if_false]
        rw [ih (len - 1) (by omega)]
        cases hres : endTagSearchPure name nm r (len - 1) with
        | none => rfl
        | some o =>
          cases o with
          | none => rfl
          | some i =>
            have := pop_search_bound name nm r (len - 1) i hres (by omega)
            simp only [Option.getD_some, Option.map_some]
            congr 1; omega

theorem pop_tot_unexpected (s : State) : Tot unexpected s (QueryQ s ProcessResult.done) := by
  unfold unexpected
  refine tot_query_bind (tot_parseError s _) fun s1 c1 _ hs1 hc1 => ?_
  exact tot_pure ⟨rfl, hs1, by simp [hc1]⟩

theorem PopsTo.of_sameTB {s s' : State} {calls : List Call} {f : List (Elem Id) → List (Elem Id)}
    (hs : SameTB s s') (hc : edits calls = []) (hf : f (absStack s.dom s.openElems) = absStack s.dom s.openElems) :
    PopsTo s f s' calls :=
  ⟨StackOnly.of_sameTB hs, by rw [hs.pop_openElems]; exact List.prefix_refl _, by rw [hs.pop_openElems, hf], hc⟩

/-- **5.** `process_end_tag_in_body(tag)` is the "any other end tag" entry of "in body" -/
theorem tot_processEndTagInBody (s : State) (hok : ElemsOk s.dom s.openElems) (tag : Tag) :
    Tot (processEndTagInBody tag) s (fun _ s' calls =>
      PopsTo s (Spec.TreeAlgo2.anyOtherEndTag tag.name) s' calls) := by
  unfold processEndTagInBody
  refine tot_getS_bind ?_
  have hnamed := (NamedBy.of_elemsOk hok).reverse
  refine tot_query_bind (pop_endTagSearch tag.name (nameOf s.dom) s.openElems.reverse s s.openElems.length hnamed)
    fun s1 c1 he1 hs1 hc1 => ?_
  -- the standard's search on the abstract stack
  have hspec := pop_search_spec tag.name (nameOf s.dom) s.openElems.reverse s.openElems.length (by simp)
  have habs : (s.openElems.reverse.map fun h => (⟨h, toName (nameOf s.dom h)⟩ : Elem Id))
      = (absStack s.dom s.openElems).reverse := by
    rw [← pop_absStack_reverse]; rfl
  rw [habs] at hspec
  cases hres : endTagSearchPure tag.name (nameOf s.dom) s.openElems.reverse s.openElems.length with
  | none =>
    simp only []
    rw [hres] at hspec
    refine tot_pure (PopsTo.of_sameTB hs1 (by simp [hc1]) ?_)
    unfold Spec.TreeAlgo2.anyOtherEndTag; rw [hspec]; rfl
  | some o =>
    cases o with
    | none =>
      simp only []
      rw [hres] at hspec
      refine tot_query_bind (pop_tot_unexpected s1) fun s2 c2 _ hs2 hc2 => ?_
      refine tot_pure (PopsTo.of_sameTB (hs1.trans hs2) (by simp [edits_append, hc1, hc2]) ?_)
      unfold Spec.TreeAlgo2.anyOtherEndTag; rw [hspec]; rfl
    | some i =>
      simp only []
      rw [hres] at hspec
      obtain ⟨hlo, hi⟩ := pop_search_bound tag.name (nameOf s.dom) _ _ i hres (by simp)
      obtain ⟨x, hx, hxn⟩ := pop_search_mem tag.name (nameOf s.dom) _ _ i hres
      have hok1 : ElemsOk s1.dom s1.openElems := by rw [hs1.pop_openElems]; exact hok.stable he1.stable
      refine pop_tot_bind (tot_generateImpliedEndExcept s1 hok1 tag.name) fun _ s2 c2 he2 h2 => ?_
      refine tot_getS_bind ?_
      obtain ⟨g1, g2, g3, g4⟩ := h2
      rw [hs1.pop_openElems] at g2
      rw [hs1.pop_openElems, absStack_stable hok he1.stable,
        absStack_stable (hok.of_prefix g2) he1.stable] at g3
      -- the implied end tags stop at the matched node at the latest
      have hne : s2.openElems.length ≠ 0 := by
        intro h0
        have h1 : (absStack s.dom s2.openElems).length = 0 := by unfold absStack; simpa using h0
        rw [g3] at h1
        unfold Spec.TreeAlgo2.generateImpliedEndTags at h1
        have h2 : ((absStack s.dom s.openElems).reverse.dropWhile
            fun e => Spec.TreeAlgo.impliedEndTag (some tag.name) e.name) = [] := by
          simpa using h1
        have h2 := pop_dropWhile_nil h2
        have hmem : elemOf s.dom x ∈ (absStack s.dom s.openElems).reverse := by
          rw [← pop_absStack_reverse]; exact List.mem_map_of_mem hx
        have h3 := h2 _ hmem
        rw [pop_elemOf_name, ← (HtmlTBSpec.implied_sets_eq_spec (nameOf s.dom x) tag.name).2.1] at h3
        unfold impliedExcept at h3
        simp [hxn] at h3
      have hlen : (s2.openElems.length == 0) = false := by simpa using hne
      simp only [hlen, Bool.false_eq_true, if_false]
      -- the parse error (or not), then the truncation
      have hfin : ∀ s3 c3, SameTB s2 s3 → edits c3 = [] →
          Tot (modS fun s => { s with openElems := s.openElems.take i }) s3 (fun _ s' c4 =>
            PopsTo s (Spec.TreeAlgo2.anyOtherEndTag tag.name) s' (c1 ++ (c2 ++ (c3 ++ c4)))) := by
        intro s3 c3 hs3 hc3
        refine tot_modS rfl rfl ⟨?_, ?_, ?_, ?_⟩
        · have e1 := StackOnly.of_sameTB hs1
          have e3 := StackOnly.of_sameTB hs3
          unfold StackOnly at e1 g1 e3 ⊢
          rw [e3, g1, e1]
        · show s3.openElems.take i <+: s.openElems
          rw [hs3.pop_openElems]; exact (List.take_prefix _ _).trans g2
        · show absStack s.dom (s3.openElems.take i) = _
          rw [hs3.pop_openElems, pop_absStack_take, g3]
          unfold Spec.TreeAlgo2.anyOtherEndTag
          rw [hspec]
          have hl : (absStack s.dom s.openElems).length = s.openElems.length := by unfold absStack; simp
          simp only [Option.getD_some, Option.map_some, hl]
          congr 1; omega
        · simp [edits_append, hc1, g4, hc3]
      by_cases hm : (i != s2.openElems.length - 1) = true
      · simp only [hm, if_true]
        refine tot_query_bind (pop_tot_unexpected s2) fun s3 c3 _ hs3 hc3 => ?_
        exact hfin s3 c3 hs3 hc3
      · simp only [hm]
        have := hfin s2 [] (SameTB.refl _) rfl
        simpa using this

/-! ### 6. queries -/

theorem pop_checkBodyEndLoop : ∀ (l : List Id) (s : State), Tot (checkBodyEndLoop l) s (QueryQ s ()) := by
  intro l
  induction l with
  | nil => intro s; exact tot_pure ⟨rfl, rfl, rfl⟩
  | cons h l ih =>
    intro s
    simp only [checkBodyEndLoop]
    refine tot_query_bind (tot_elemName' s h) fun s1 c1 _ hs1 hc1 => ?_
    by_cases hb : bodyEndOk (nameOf s.dom h) = true
    · simp only [hb, if_true]
      refine tot_conseq (ih s1) fun _ s2 c2 _ ⟨_, h2, h3⟩ => ⟨rfl, hs1.trans h2, by simp [edits_append, hc1, h3]⟩
    · simp only [hb, Bool.false_eq_true, if_false]
      refine tot_conseq (tot_parseError s1 _) fun _ s2 c2 _ ⟨_, h2, h3⟩ => ⟨rfl, hs1.trans h2, by simp [edits_append, hc1, h3]⟩

/-- **6a.** `check_body_end` changes nothing (it only reports a parse error, or not) -/
theorem tot_checkBodyEnd (s : State) : Tot checkBodyEnd s (QueryQ s ()) := by
  unfold checkBodyEnd
  exact tot_getS_bind (pop_checkBodyEndLoop _ s)

theorem pop_anyHtmlElemNamed (name : String) (nm : Id → EName) :
    ∀ (l : List Id) (s : State), NamedBy s.dom l nm →
      Tot (anyHtmlElemNamed name l) s (QueryQ s (l.any fun h => (toName (nm h)).isHtml name)) := by
  intro l
  induction l with
  | nil => intro s _; exact tot_pure ⟨rfl, rfl, rfl⟩
  | cons h l ih =>
    intro s hn
    simp only [anyHtmlElemNamed, List.any_cons]
    refine tot_query_bind (tot_htmlElemNamed s h name) fun s1 c1 he1 hs1 hc1 => ?_
    rw [pop_elemOf_name, (hn h (List.mem_cons_self ..)).2]
    by_cases hb : (toName (nm h)).isHtml name = true
    · simp only [hb, if_true, Bool.true_or]
      exact tot_pure ⟨rfl, hs1, by simp [hc1]⟩
    · simp only [hb, Bool.false_eq_true, if_false, Bool.false_or]
      refine tot_conseq (ih s1 (hn.tail.stable he1.stable)) fun _ s2 c2 _ ⟨h1, h2, h3⟩ =>
        ⟨h1, hs1.trans h2, by simp [edits_append, hc1, h3]⟩

/-- **6b.** `in_html_elem_named(name)`: is there a `name` element on the stack of open elements -/
theorem pop_tot_inHtmlElemNamed (s : State) (hok : ElemsOk s.dom s.openElems) (name : String) :
    Tot (inHtmlElemNamed name) s (QueryQ s ((absStack s.dom s.openElems).any fun e => e.name.isHtml name)) := by
  unfold inHtmlElemNamed
  refine tot_getS_bind ?_
  have := pop_anyHtmlElemNamed name (nameOf s.dom) s.openElems s (NamedBy.of_elemsOk hok)
  have e : ((absStack s.dom s.openElems).any fun e => e.name.isHtml name)
      = s.openElems.any fun h => (toName (nameOf s.dom h)).isHtml name := by
    unfold absStack; rw [List.any_map]; rfl
  rw [e]; exact this

/-- **6c.** `current_node()` is the last entry of the stack (the model panics on the empty stack) -/
theorem pop_tot_currentNode_abs (s : State) (e : Elem Id) (h : (absStack s.dom s.openElems).getLast? = some e) :
    Tot currentNode s (QueryQ s e.id) := by
  unfold absStack at h
  rw [List.getLast?_map] at h
  cases hl : s.openElems.getLast? with
  | none => simp [hl] at h
  | some x =>
    simp only [hl, Option.map_some, Option.some.injEq] at h
    subst h
    exact pop_tot_currentNode hl

theorem pop_inScopeLoop (scope : EName → Bool) (q : Spec.TreeAlgo.Name → Bool) (hq : ∀ n, scope n = q (toName n))
    (name : Str) (nm : Id → EName) :
    ∀ (r : List Id) (s : State), NamedBy s.dom r nm →
      Tot (inScopeLoop scope (fun h => htmlElemNamedS h name) r) s
        (QueryQ s (Spec.TreeAlgo.hasInScope (fun n => n.ns == Spec.TreeAlgo.nsHtml && n.loc == name) q
          (r.map fun h => toName (nm h)))) := by
  intro r
  induction r with
  | nil => intro s _; exact tot_pure ⟨rfl, rfl, rfl⟩
  | cons h r ih =>
    intro s hn
    simp only [inScopeLoop, List.map_cons, Spec.TreeAlgo.hasInScope]
    have hnm : ((toName (nm h)).ns == Spec.TreeAlgo.nsHtml && (toName (nm h)).loc == name)
        = ((nm h).ns == nsHtml && (nm h).loc == name) := rfl
    rw [hnm, ← hq]
    refine tot_query_bind (tot_htmlElemNamedS s h name) fun s1 c1 he1 hs1 hc1 => ?_
    rw [(hn h (List.mem_cons_self ..)).2]
    by_cases hnamed : ((nm h).ns == nsHtml && (nm h).loc == name) = true
    · simp only [hnamed, if_true]
      exact tot_pure ⟨rfl, hs1, by simp [hc1]⟩
    · simp only [hnamed, Bool.false_eq_true, if_false]
      have hn1 := hn.stable he1.stable
      refine tot_query_bind (tot_elemName' s1 h) fun s2 c2 he2 hs2 hc2 => ?_
      rw [(hn1 h (List.mem_cons_self ..)).2]
      by_cases hsc : scope (nm h) = true
      · simp only [hsc, if_true]
        exact tot_pure ⟨rfl, hs1.trans hs2, by simp [edits_append, hc1, hc2]⟩
      · simp only [hsc, Bool.false_eq_true, if_false]
        refine tot_conseq (ih s2 (hn1.tail.stable he2.stable)) fun _ s3 c3 _ ⟨h1, h2, h3⟩ =>
          ⟨h1, hs1.trans (hs2.trans h2), by simp [edits_append, hc1, hc2, h3]⟩

/-- **6d.** `in_scope_named(scope, name)` is "has a `name` element in the specific scope" -/
theorem tot_inScopeNamedS (s : State) (hok : ElemsOk s.dom s.openElems) (scope : EName → Bool)
    (q : Spec.TreeAlgo.Name → Bool) (hq : ∀ n, scope n = q (toName n)) (name : Str) :
    Tot (inScopeNamedS scope name) s
      (QueryQ s (Spec.TreeAlgo.hasInScope (fun n => n.ns == Spec.TreeAlgo.nsHtml && n.loc == name) q
        (namesRev (absStack s.dom s.openElems)))) := by
  unfold inScopeNamedS inScope
  refine tot_getS_bind ?_
  have := pop_inScopeLoop scope q hq name (nameOf s.dom) s.openElems.reverse s (NamedBy.of_elemsOk hok).reverse
  have e : namesRev (absStack s.dom s.openElems) = s.openElems.reverse.map fun h => toName (nameOf s.dom h) := by
    unfold namesRev absStack; rw [← List.map_reverse, List.map_map]; rfl
  rw [e]; exact this

/-- "has a `name` element in scope" -/
theorem tot_inScopeNamedS_default (s : State) (hok : ElemsOk s.dom s.openElems) (name : Str) :
    Tot (inScopeNamedS defaultScope name) s
      (QueryQ s (Spec.TreeAlgo.hasElementInScope name (namesRev (absStack s.dom s.openElems)))) :=
  tot_inScopeNamedS s hok _ _ (fun n => (HtmlTBSpec.scope_sets_eq_spec n).1) name

/-- "has a `name` element in list item scope" -/
theorem tot_inScopeNamedS_listItem (s : State) (hok : ElemsOk s.dom s.openElems) (name : Str) :
    Tot (inScopeNamedS listItemScope name) s
      (QueryQ s (Spec.TreeAlgo.hasElementInListItemScope name (namesRev (absStack s.dom s.openElems)))) :=
  tot_inScopeNamedS s hok _ _ (fun n => (HtmlTBSpec.scope_sets_eq_spec n).2.1) name

/-- "has a `name` element in button scope" -/
theorem tot_inScopeNamedS_button (s : State) (hok : ElemsOk s.dom s.openElems) (name : Str) :
    Tot (inScopeNamedS buttonScope name) s
      (QueryQ s (Spec.TreeAlgo.hasElementInButtonScope name (namesRev (absStack s.dom s.openElems)))) :=
  tot_inScopeNamedS s hok _ _ (fun n => (HtmlTBSpec.scope_sets_eq_spec n).2.2.1) name

/-- "has a `name` element in table scope" -/
theorem tot_inScopeNamedS_table (s : State) (hok : ElemsOk s.dom s.openElems) (name : Str) :
    Tot (inScopeNamedS tableScope name) s
      (QueryQ s (Spec.TreeAlgo.hasElementInTableScope name (namesRev (absStack s.dom s.openElems)))) :=
  tot_inScopeNamedS s hok _ _ (fun n => (HtmlTBSpec.scope_sets_eq_spec n).2.2.2) name

/-- **6e.** `close_p_element_in_button_scope`: "if the stack of open elements has a `p` element in
button scope, then close a `p` element" -/
theorem tot_closePElementInButtonScope (s : State) (hok : ElemsOk s.dom s.openElems) :
    Tot closePElementInButtonScope s (fun _ s' calls =>
      PopsTo s (fun st => if Spec.TreeAlgo.hasElementInButtonScope "p".toList (namesRev st)
        then Spec.TreeAlgo2.closePElement st else st) s' calls) := by
  unfold closePElementInButtonScope inScopeNamed
  refine tot_query_bind (tot_inScopeNamedS_button s hok "p".toList) fun s1 c1 he1 hs1 hc1 => ?_
  by_cases hb : Spec.TreeAlgo.hasElementInButtonScope "p".toList (namesRev (absStack s.dom s.openElems)) = true
  · simp only [hb, if_true]
    have hok1 : ElemsOk s1.dom s1.openElems := by rw [hs1.pop_openElems]; exact hok.stable he1.stable
    refine tot_conseq (tot_closePElement s1 hok1) fun _ s2 c2 _ h2 => ?_
    have h1 : PopsTo s (fun st => st) s1 c1 := PopsTo.of_sameTB hs1 hc1 rfl
    have := PopsTo.comp (f := fun st => st) (g := Spec.TreeAlgo2.closePElement) hok he1 h1 h2
    exact this.congr (by simp only [hb, if_true])
  · simp only [hb, Bool.false_eq_true, if_false]
    exact tot_pure (PopsTo.of_sameTB hs1 (by simp [hc1]) (by simp only [hb, Bool.false_eq_true, if_false]))

/-! ### the `String` variants and the shape of the final state -/

theorem tot_popUntilNamed (s : State) (hok : ElemsOk s.dom s.openElems) (name : String) :
    Tot (popUntilNamed name) s (fun k s' calls =>
      PopsTo s (Spec.TreeAlgo2.popUntilPopped (isNamed name.toList)) s' calls ∧
      k = popCount (isNamed name.toList) (absStack s.dom s.openElems)) :=
  tot_popUntilNamedS s hok name.toList

theorem tot_expectToClose (s : State) (hok : ElemsOk s.dom s.openElems) (name : String) :
    Tot (expectToClose name) s (fun _ s' calls =>
      PopsTo s (Spec.TreeAlgo2.popUntilPopped (isNamed name.toList)) s' calls) :=
  tot_expectToCloseS s hok name.toList

theorem tot_inScopeNamed (s : State) (hok : ElemsOk s.dom s.openElems) (scope : EName → Bool)
    (q : Spec.TreeAlgo.Name → Bool) (hq : ∀ n, scope n = q (toName n)) (name : String) :
    Tot (inScopeNamed scope name) s
      (QueryQ s (Spec.TreeAlgo.hasInScope (fun n => n.ns == Spec.TreeAlgo.nsHtml && n.loc == name.toList) q
        (namesRev (absStack s.dom s.openElems)))) :=
  tot_inScopeNamedS s hok scope q hq name.toList

/-- `PopsTo`, spelled out -/
theorem PopsTo.unfold {s s' : State} {calls : List Call} {f : List (Elem Id) → List (Elem Id)}
    (h : PopsTo s f s' calls) :
    s' = { s with openElems := s'.openElems, dom := s'.dom, traceRev := s'.traceRev } ∧
    s'.openElems <+: s.openElems ∧
    absStack s.dom s'.openElems = f (absStack s.dom s.openElems) ∧ edits calls = [] := h

end H5V.Lemmas.HtmlTBAlgo

section Axioms
open H5V.Lemmas.HtmlTBAlgo
#print axioms tot_generateImpliedEndTags
#print axioms tot_generateImpliedEndTags_cursory
#print axioms tot_generateImpliedEndExcept
#print axioms tot_generateImpliedEndTags_exceptP
#print axioms tot_generateImpliedEndTags_thorough
#print axioms tot_popUntilCurrent
#print axioms tot_popUntilCurrent_table
#print axioms tot_popUntilCurrent_tableBody
#print axioms tot_popUntilCurrent_tableRow
#print axioms tot_popUntil
#print axioms popCount_eq_one
#print axioms tot_popUntilNamedS
#print axioms tot_expectToCloseS
#print axioms tot_closePElement
#print axioms pop_clearToLastMarker_eq
#print axioms tot_closeTheCell
#print axioms pop_specialTag_eq
#print axioms tot_processEndTagInBody
#print axioms tot_checkBodyEnd
#print axioms pop_tot_inHtmlElemNamed
#print axioms pop_tot_currentNode
#print axioms pop_tot_currentNode_abs
#print axioms tot_inScopeNamedS
#print axioms tot_inScopeNamedS_default
#print axioms tot_inScopeNamedS_listItem
#print axioms tot_inScopeNamedS_button
#print axioms tot_inScopeNamedS_table
#print axioms tot_closePElementInButtonScope
end Axioms
