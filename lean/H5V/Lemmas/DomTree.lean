import H5V.Lemmas.DomWF
/-! Tree structure of a well-formed arena: depth, tree induction, the pre-order list `Dom.subtree`. -/
namespace H5V.Lemmas.Dom
open H5V.Model.Dom

/-! ### depth, tree induction -/

/-- number of nodes on the parent chain of `x`, `x` included -/
def depth (d : Dom) (x : Id) : Nat := (d.ancestorsOrSelf d.size x).length

theorem depth_of_chain {d : Dom} (hw : WF d) {x : Id} (hx : x < d.size) {l : List Id} (hl : Chain d x l) :
    depth d x = l.length := by
  unfold depth; rw [hl.ancestorsOrSelf d.size (hl.length_le hw hx)]

theorem depth_pos_le {d : Dom} (hw : WF d) {x : Id} (hx : x < d.size) : 1 ≤ depth d x ∧ depth d x ≤ d.size := by
  obtain ⟨l, hl⟩ := Chain.of_rooted (hw.rooted x)
  rw [depth_of_chain hw hx hl]
  obtain ⟨t, ht⟩ := hl.head
  exact ⟨by rw [ht]; simp, hl.length_le hw hx⟩

theorem depth_child {d : Dom} (hw : WF d) {c p : Id} (hc : c ∈ d.childrenOf p) : depth d c = depth d p + 1 := by
  have hpar := (hw.links c p).mpr hc
  obtain ⟨l, hl⟩ := Chain.of_rooted (hw.rooted p)
  rw [depth_of_chain hw (parent_lt_size hw hpar) hl,
    depth_of_chain hw (child_lt_size hpar) (Chain.step hpar hl)]
  simp

theorem child_valid {d : Dom} (hw : WF d) {c p : Id} (hc : c ∈ d.childrenOf p) : c < d.size :=
  child_lt_size ((hw.links c p).mpr hc)

/-- induction over the tree structure of a well-formed arena -/
theorem WF.tree_induction {d : Dom} (hw : WF d) {P : Id → Prop}
    (step : ∀ x, x < d.size → (∀ c ∈ d.childrenOf x, P c) → P x) : ∀ x, x < d.size → P x := by
  have main : ∀ k x, x < d.size → d.size - depth d x = k → P x := by
    intro k
    induction k using Nat.strongRecOn with
    | _ k ih =>
      intro x hx hk
      apply step x hx
      intro c hc
      have hcv := child_valid hw hc
      have h1 := depth_child hw hc
      have h2 := depth_pos_le hw hcv
      exact ih (d.size - depth d c) (by omega) c hcv rfl
  intro x hx
  exact main _ x hx rfl

/-! ### the pre-order list -/

theorem flatMap_congr' {α β : Type} {f g : α → List β} {l : List α} (h : ∀ a ∈ l, f a = g a) :
    l.flatMap f = l.flatMap g := by
  induction l with
  | nil => rfl
  | cons a t ih =>
    simp only [List.flatMap_cons]
    rw [h a (by simp), ih (fun b hb => h b (by simp [hb]))]

theorem preorderAux_adequate {d : Dom} (hw : WF d) : ∀ (f g : Nat) (x : Id), x < d.size →
    d.size < f + depth d x → d.size < g + depth d x → Dom.preorderAux d f x = Dom.preorderAux d g x := by
  intro f
  induction f with
  | zero =>
    intro g x hx hf _
    have := depth_pos_le hw hx; omega
  | succ f ih =>
    intro g x hx hf hg
    cases g with
    | zero => have := depth_pos_le hw hx; omega
    | succ g =>
      simp only [Dom.preorderAux]
      congr 1
      apply flatMap_congr'
      intro c hc
      have h1 := depth_child hw hc
      exact ih g c (child_valid hw hc) (by omega) (by omega)

/-- the recursive equation of `subtree` on a well-formed arena -/
theorem subtree_unfold {d : Dom} (hw : WF d) {x : Id} (hx : x < d.size) :
    d.subtree x = x :: (d.childrenOf x).flatMap (d.subtree ·) := by
  unfold Dom.subtree
  have hpos := depth_pos_le hw hx
  cases hs : d.size with
  | zero => omega
  | succ s =>
    simp only [Dom.preorderAux]
    congr 1
    apply flatMap_congr'
    intro c hc
    have h1 := depth_child hw hc
    have := preorderAux_adequate hw s (s + 1) c (child_valid hw hc) (by omega) (by omega)
    exact this

/-! ### membership and uniqueness in the pre-order list -/

theorem no_parent_cycle {d : Dom} (hw : WF d) {c x : Id} (hpar : d.parentOf c = some x) : ¬ Anc d c x := by
  intro ha
  obtain ⟨l, hl⟩ := Chain.of_rooted (hw.rooted x)
  have hc : c ∈ l := (hl.mem_iff_anc c).mpr ha
  obtain ⟨l', h1, h2⟩ := hl.suffix c hc
  have := Chain.functional h1 (Chain.step hpar hl)
  subst this
  have := h2.length_le
  simp at this
  omega

/-- two nodes on one parent chain with the same parent are the same node -/
theorem Chain.unique_child {d : Dom} (hw : WF d) {y : Id} {l : List Id} (hl : Chain d y l) {a b x : Id}
    (ha : a ∈ l) (hb : b ∈ l) (hpa : d.parentOf a = some x) (hpb : d.parentOf b = some x) : a = b := by
  induction hl with
  | @root y h0 => simp at ha hb; rw [ha, hb]
  | @step y p l hp hc ih =>
    simp only [List.mem_cons] at ha hb
    rcases ha with ha | ha <;> rcases hb with hb | hb
    · rw [ha, hb]
    · subst ha
      rw [hp] at hpa; cases hpa
      exact absurd ((hc.mem_iff_anc b).mp hb) (no_parent_cycle hw hpb)
    · subst hb
      rw [hp] at hpb; cases hpb
      exact absurd ((hc.mem_iff_anc a).mp ha) (no_parent_cycle hw hpa)
    · exact ih ha hb

theorem mem_subtree_anc {d : Dom} (hw : WF d) : ∀ x, x < d.size → ∀ y, y ∈ d.subtree x → Anc d x y := by
  refine hw.tree_induction (P := fun x => ∀ y, y ∈ d.subtree x → Anc d x y) ?_
  intro x hx ih y hy
  rw [subtree_unfold hw hx] at hy
  simp only [List.mem_cons, List.mem_flatMap] at hy
  rcases hy with hy | ⟨c, hc, hyc⟩
  · subst hy; exact Anc.refl
  · exact Anc.parent (ih c hc y hyc) ((hw.links c x).mpr hc)

theorem anc_mem_subtree {d : Dom} (hw : WF d) {x y : Id} (hx : x < d.size) (h : Anc d x y) : y ∈ d.subtree x := by
  induction h with
  | refl => rw [subtree_unfold hw hx]; simp
  | @step y p hp ha ih =>
    -- y is a child of p, p ∈ subtree x; show the subtree is closed under children
    have closed : ∀ x, x < d.size → ∀ p, p ∈ d.subtree x → ∀ y, y ∈ d.childrenOf p → y ∈ d.subtree x := by
      refine hw.tree_induction (P := fun x => ∀ p, p ∈ d.subtree x → ∀ y, y ∈ d.childrenOf p → y ∈ d.subtree x) ?_
      intro x hx ih2 p hp2 y hy
      rw [subtree_unfold hw hx] at hp2 ⊢
      simp only [List.mem_cons, List.mem_flatMap] at hp2 ⊢
      rcases hp2 with hp2 | ⟨c, hc, hpc⟩
      · subst hp2
        exact Or.inr ⟨y, hy, by rw [subtree_unfold hw (child_valid hw hy)]; simp⟩
      · exact Or.inr ⟨c, hc, ih2 c hc p hpc y hy⟩
    exact closed x hx p ih y ((hw.links y p).mp hp)

theorem mem_subtree_iff {d : Dom} (hw : WF d) {x y : Id} (hx : x < d.size) : y ∈ d.subtree x ↔ Anc d x y :=
  ⟨mem_subtree_anc hw x hx y, anc_mem_subtree hw hx⟩

theorem nodup_flatMap {α β : Type} {f : α → List β} : ∀ {l : List α}, l.Nodup → (∀ a ∈ l, (f a).Nodup) →
    (∀ a ∈ l, ∀ b ∈ l, ∀ y, y ∈ f a → y ∈ f b → a = b) → (l.flatMap f).Nodup := by
  intro l
  induction l with
  | nil => intro _ _ _; simp
  | cons a t ih =>
    intro hnd h1 h2
    simp only [List.flatMap_cons]
    obtain ⟨hat, hndt⟩ := List.nodup_cons.mp hnd
    refine List.nodup_append.mpr ⟨h1 a (by simp), ih hndt (fun b hb => h1 b (by simp [hb]))
      (fun b hb c hc y => h2 b (by simp [hb]) c (by simp [hc]) y), ?_⟩
    intro y hy z hz e
    subst e
    obtain ⟨b, hb, hyb⟩ := List.mem_flatMap.mp hz
    have := h2 a (by simp) b (by simp [hb]) y hy hyb
    subst this
    exact hat hb

theorem subtree_lt {d : Dom} (hw : WF d) : ∀ x, x < d.size → ∀ y, y ∈ d.subtree x → y < d.size := by
  refine hw.tree_induction (P := fun x => ∀ y, y ∈ d.subtree x → y < d.size) ?_
  intro x hx ih y hy
  rw [subtree_unfold hw hx] at hy
  simp only [List.mem_cons, List.mem_flatMap] at hy
  rcases hy with hy | ⟨c, hc, hyc⟩
  · subst hy; exact hx
  · exact ih c hc y hyc

/-- every node occurs at most once in the pre-order list -/
theorem nodup_subtree {d : Dom} (hw : WF d) : ∀ x, x < d.size → (d.subtree x).Nodup := by
  refine hw.tree_induction (P := fun x => (d.subtree x).Nodup) ?_
  intro x hx ih
  rw [subtree_unfold hw hx]
  refine List.nodup_cons.mpr ⟨?_, nodup_flatMap (hw.nodup x) ih ?_⟩
  · intro hm
    obtain ⟨c, hc, hxc⟩ := List.mem_flatMap.mp hm
    exact no_parent_cycle hw ((hw.links c x).mpr hc) (mem_subtree_anc hw c (child_valid hw hc) x hxc)
  · intro a ha b hb y hya hyb
    obtain ⟨l, hl⟩ := Chain.of_rooted (hw.rooted y)
    exact Chain.unique_child hw hl
      ((hl.mem_iff_anc a).mpr (mem_subtree_anc hw a (child_valid hw ha) y hya))
      ((hl.mem_iff_anc b).mpr (mem_subtree_anc hw b (child_valid hw hb) y hyb))
      ((hw.links a x).mpr ha) ((hw.links b x).mpr hb)

theorem length_subtree_le {d : Dom} (hw : WF d) {x : Id} (hx : x < d.size) : (d.subtree x).length ≤ d.size :=
  length_le_of_nodup_lt d.size _ (nodup_subtree hw x hx) (subtree_lt hw x hx)

end H5V.Lemmas.Dom
