import H5V.Lemmas.HtmlTokSpecDefs
/-!
# C01 simulation — basic lemmas: steps of the specification (`Reach`), the canonical output form,
the register part of the relation (`RegCore`)
-/
namespace H5V.Lemmas.HtmlTokSpec
open H5V.Model.HtmlTok
open H5V.Spec.HtmlTokenizer (St Tok Emit Tree Switch Ctl ReturnSt normalizeNewlinesFrom normalizeNewlines
  dedupAttrs)

/-! ## steps -/

def ctlAdv : Ctl → Bool
  | .advance _ => true
  | .stop => false

def ctlN : Ctl → Nat
  | .advance n => n
  | .stop => 0

@[simp] theorem ctlAdv_advance (n : Nat) : ctlAdv (.advance n) = true := rfl
@[simp] theorem ctlAdv_stop : ctlAdv .stop = false := rfl
@[simp] theorem ctlN_advance (n : Nat) : ctlN (.advance n) = n := rfl

theorem Steps.trans {tree : Tree} {t1 : Tok} {r1 : Str} {t2 : Tok} {r2 : Str} {t3 : Tok} {r3 : Str}
    (h1 : Steps tree t1 r1 t2 r2) (h2 : Steps tree t2 r2 t3 r3) : Steps tree t1 r1 t3 r3 := by
  induction h1 with
  | refl => exact h2
  | step hs _ ih => exact Steps.step hs (ih h2)

/-- some configuration satisfying `P` is reached after `k ≥ 0` steps (none of which stops) -/
def Reach (tree : Tree) (t : Tok) (rest : Str) (P : Tok → Str → Prop) : Prop :=
  ∃ t' rest', Steps tree t rest t' rest' ∧ P t' rest'

theorem Reach.done {tree : Tree} {t : Tok} {rest : Str} {P : Tok → Str → Prop} (h : P t rest) :
    Reach tree t rest P := ⟨t, rest, Steps.refl _ _, h⟩

/-- one step, in a form without meta-variables: the goal after `refine Reach.step' ?_ ?_` mentions
`sstep tree t rest`, to be computed by `simp` -/
theorem Reach.step' {tree : Tree} {t : Tok} {rest : Str} {P : Tok → Str → Prop}
    (h1 : ctlAdv (sstep tree t rest).2 = true)
    (h2 : Reach tree (sstep tree t rest).1 (rest.drop (ctlN (sstep tree t rest).2)) P) :
    Reach tree t rest P := by
  obtain ⟨t', rest', hs, hp⟩ := h2
  refine ⟨t', rest', ?_, hp⟩
  cases hc : (sstep tree t rest).2 with
  | stop => rw [hc] at h1; simp at h1
  | advance n =>
    rw [hc] at hs
    exact Steps.step (t1 := (sstep tree t rest).1) (n := n) (by rw [← hc]) hs

theorem Reach.stepEq {tree : Tree} {t : Tok} {rest : Str} {P : Tok → Str → Prop} {t1 : Tok} {n : Nat}
    (h1 : sstep tree t rest = (t1, .advance n)) (h2 : Reach tree t1 (rest.drop n) P) :
    Reach tree t rest P := by
  obtain ⟨t', rest', hs, hp⟩ := h2
  exact ⟨t', rest', Steps.step h1 hs, hp⟩

theorem Reach.mono {tree : Tree} {t : Tok} {rest : Str} {P Q : Tok → Str → Prop}
    (h : Reach tree t rest P) (hpq : ∀ t' r', P t' r' → Q t' r') : Reach tree t rest Q := by
  obtain ⟨t', rest', hs, hp⟩ := h
  exact ⟨t', rest', hs, hpq _ _ hp⟩

theorem Reach.bind {tree : Tree} {t : Tok} {rest : Str} {P Q : Tok → Str → Prop}
    (h : Reach tree t rest P) (hpq : ∀ t' r', P t' r' → Reach tree t' r' Q) : Reach tree t rest Q := by
  obtain ⟨t', rest', hs, hp⟩ := h
  obtain ⟨t'', rest'', hs2, hq⟩ := hpq _ _ hp
  exact ⟨t'', rest'', hs.trans hs2, hq⟩

/-! ## output -/

@[simp] theorem flat_nil : flat [] = [] := rfl
@[simp] theorem flat_cons (tok : Token) (l : Nat) (out : Out) :
    flat ((tok, l) :: out) = (flatTok tok).reverse ++ flat out := rfl

@[simp] theorem flatTok_error (s : Str) : flatTok (.error s) = [] := rfl
@[simp] theorem flatTok_eof : flatTok .eof = [] := rfl
@[simp] theorem flatTok_pause (b : Bool) : flatTok (.pause b) = [] := rfl
@[simp] theorem flatTok_chars (s : Str) : flatTok (.chars s) = s.map .char := rfl
@[simp] theorem flatTok_null : flatTok .nullChar = [.null] := rfl
@[simp] theorem flatTok_tag (t : Tag) : flatTok (.tag t) = [.tag t] := rfl
@[simp] theorem flatTok_comment (s : Str) : flatTok (.comment s) = [.comment s] := rfl
@[simp] theorem flatTok_doctype (d : Doctype) : flatTok (.doctype d) = [.doctype d] := rfl

/-! ## the register part of the relation -/

/-- everything of the relation that does not concern the reader: state, registers, output; no
character reference in progress -/
structure RegCore (m : Mach) (t : Tok) : Prop where
  std : Std m.state
  st : t.state = stOf m.state ∨ altSt m.state t
  cr : m.charRef = none
  reg : RegRel m t
  out : OutRel m t

/-- the reader's registers: a machine that differs from `m` only in `ignore_lf`, `reconsume`,
the line counter and `current_char` -/
def readerUpd (m : Mach) (il rc : Bool) (ln : Nat) (cc : Char) : Mach :=
  { m with ignoreLf := il, reconsume := rc, line := ln, currentChar := cc }

theorem RegCore.readerUpd {m : Mach} {t : Tok} (h : RegCore m t) (il rc : Bool) (ln : Nat) (cc : Char) :
    RegCore (readerUpd m il rc ln cc) t :=
  ⟨h.std, h.st, h.cr, h.reg, h.out⟩

end H5V.Lemmas.HtmlTokSpec
