import H5V.Lemmas.HtmlTBSkelShapeBody2
/-!
C06, second invariant layer, part 16: the rules of InBody, assembled.
-/
namespace H5V.Props.C06
open H5V.Model.Dom hiding Str
open H5V.Model.HtmlTB hiding Str
open H5V.Lemmas.Dom
set_option synthInstance.maxSize 4096
set_option synthInstance.maxHeartbeats 400000

set_option maxHeartbeats 1600000 in
theorem stepInBody_tag_rbw (tag : Tag)
    (hhead : (tag.isStart ["base", "basefont", "bgsound", "link", "meta", "noframes", "script", "style",
      "template", "title"] || tag.isEnd ["template"]) = true → RB (stepInHead (.tag tag)))
    (hfs : tag.isStart ["frameset"] = true → FramesetArm tag) :
    RBw (fun s => EndSide tag s.mode) (stepInBody (.tag tag)) := by
  unfold stepInBody
  dsimp only
  repeat rbw_arm
  all_goals first
    | (with_reducible apply rbw_generic_end) <;> assumption
    | (apply RBw.of_rb
       first
        | exact hhead (by assumption)
        | (have h : tag.isStart ["frameset"] = true := by assumption
           with_reducible apply RB.bindPB inferInstance
           intro _
           with_reducible apply RB.bindPB inferInstance
           intro s0
           with_reducible apply RB.dite
           · intro _; exact inferInstance
           · intro _
             with_reducible apply rb_bodyElem
             · dsimp only; exact inferInstance
             · intro b; dsimp only; exact hfs h b)
        | (have h : tag.isStart ["body"] = true := by assumption
           with_reducible apply RB.bindPB inferInstance
           intro _
           with_reducible apply rb_bodyElem
           · dsimp only; exact inferInstance
           · intro b; dsimp only; apply RBw.of_rb; rb_walk)
        | (have h : tag.isEnd ["form"] = true := by assumption
           with_reducible apply RB.bindPB inferInstance
           intro _
           with_reducible apply RB.dite
           · intro _
             with_reducible apply rb_ofGetS
             intro s0
             cases hfe : s0.formElem with
             | none => dsimp only; apply RBw.of_rb; rb_walk
             | some node => dsimp only; exact rbw_form_end s0 node hfe _ _
           · intro _; rb_walk)
        | (have h : (tag.kind == H5V.Model.HtmlTok.TagKind.startTag) = true := by assumption
           haveI := plain_generic_start h (by assumption) (by assumption) (by assumption) (by assumption)
             (by assumption) (by assumption)
           rb_walk)
        | (haveI := plain_of_isStart (by assumption) (by decide)
           first | (haveI := fmt_of_isStart (by assumption) (by decide); rb_walk) | rb_walk)
        | (haveI := plain_of_isEnd (by assumption) (by decide)
           haveI := notCursory_of_isEnd (by assumption) (by decide); rb_walk)
        | (haveI := plain_of_isEnd (by assumption) (by decide); rb_walk)
        | rb_walk)


/-! ### InBody as a whole -/

theorem fits_of_fitsM {s : State} {m : Mode} {up : List Id} {ph : Phase} (hbl : isBL m = true) (hm : s.mode = m)
    (h : FitsM s up ph) : Fits s.dom s.headElem m up ph := by
  unfold FitsM at h
  rw [hm] at h
  rcases isBL_cases hbl with rfl | rfl | rfl | rfl | rfl | rfl | rfl | rfl <;> exact h

theorem Good.big {r : Id} {s : State} {m : Mode} (h : Good r s) (hm : s.mode = m) (hbl : isBL m = true) :
    ∃ ph, Big m r ph s := by
  obtain ⟨up, ph, ⟨hc, hf⟩, _⟩ := h
  obtain ⟨hbb, hn⟩ := bl_of_fits hbl (fits_of_fitsM hbl hm hf)
  exact ⟨ph, up, hc, hbb, hn, FPok.triv _ _⟩

theorem RB.good {prog : M ProcessResult} (h : RB prog) {r : Id} {s s' : State} {m : Mode} {res : ProcessResult}
    (hg : Good r s) (hm : s.mode = m) (hbl : isBL m = true) (e : prog s = .ok (res, s')) : Out r s' res := by
  obtain ⟨ph, hb⟩ := hg.big hm hbl
  exact h.p m r ph s res s' hb hm hbl e

theorem RBw.good {W : State → Prop} {prog : M ProcessResult} (h : RBw W prog) {r : Id} {s s' : State} {m : Mode}
    {res : ProcessResult} (hg : Good r s) (hm : s.mode = m) (hbl : isBL m = true) (hw : W s)
    (e : prog s = .ok (res, s')) : Out r s' res := by
  obtain ⟨ph, hb⟩ := hg.big hm hbl
  exact h m r ph s res s' hb hm hbl hw e

/-- the parts of the InBody rules that are delegated: the head-only tags (handled by the InHead rules),
`<frameset>` replacing `body`, EOF inside a template -/
structure BodyDeleg : Prop where
  head : ∀ tag : Tag, (tag.isStart ["base", "basefont", "bgsound", "link", "meta", "noframes", "script", "style",
      "template", "title"] || tag.isEnd ["template"]) = true → RB (stepInHead (.tag tag))
  frameset : ∀ tag : Tag, tag.isStart ["frameset"] = true → FramesetArm tag
  eof : RB inTemplateEof

/-- the InBody rules for tokens other than tags -/
theorem stepInBody_other_rb (D : BodyDeleg) (tok : Token) [ht : TokW tok] (hnt : ∀ tag, tok ≠ .tag tag) :
    RB (stepInBody tok) := by
  unfold stepInBody
  cases tok with
  | tag t => exact absurd rfl (hnt t)
  | nullChar => dsimp only; exact inferInstance
  | comment c => dsimp only; exact inferInstance
  | chars st text =>
    haveI : NE text := ⟨ht.ne st text rfl⟩
    dsimp only
    rb_walk
  | eof =>
    haveI := D.eof
    dsimp only
    rb_walk

/-- **the InBody rules**, used in mode `m` -/
theorem stepInBody_good (D : BodyDeleg) {tok : Token} [ht : TokW tok] {r : Id} {s s' : State} {m : Mode}
    {res : ProcessResult} (hg : Good r s) (hm : s.mode = m) (hbl : isBL m = true)
    (hside : ∀ tag, tok = .tag tag → EndSide tag m) (e : stepInBody tok s = .ok (res, s')) : Out r s' res := by
  cases tok with
  | tag t =>
    exact (stepInBody_tag_rbw t (D.head t) (D.frameset t)).good hg hm hbl (by rw [hm]; exact hside t rfl) e
  | nullChar => exact (stepInBody_other_rb D _ (by intro t h; cases h)).good hg hm hbl e
  | comment c => exact (stepInBody_other_rb D _ (by intro t h; cases h)).good hg hm hbl e
  | chars st text => exact (stepInBody_other_rb D _ (by intro t h; cases h)).good hg hm hbl e
  | eof => exact (stepInBody_other_rb D _ (by intro t h; cases h)).good hg hm hbl e

theorem modeOk_inBody (D : BodyDeleg) : ModeOk .inBody := by
  intro tok ht r s res s' hg hm e
  exact stepInBody_good D hg hm rfl (fun tag _ _ => Or.inr rfl) e

end H5V.Props.C06
