import H5V.Props.C02Algo
import H5V.Props.C04TB
import H5V.Spec.TreeModes
/-!
Foundations for `H5V.Props.C02Modes` (the model of html5ever's tree builder against the insertion
modes of `H5V.Spec.TreeModes`).

`PC m s Q` — partial correctness with the call list: if the model computation `m`, run in `s`, returns
`(a, s')`, then the `TreeSink` calls it made are `calls` (`Ext2`: trace extension and replay on the DOM)
and `Q a s' calls` holds.  Panics and exhausted fuel make `PC` hold vacuously: that they do not occur
is C04 (`H5V.Props.C04TB`: the invariant `TI`, no panic, fuel).  Every `Tot` triple of
`H5V.Props.C02Algo` is a `PC` triple (`PC.of_tot`).

Element signatures (name, template contents, integration-point flag) survive every sink call
(`TBSafe.apply_ext`), so `Ext2` implies `TBSafe.Ext`.
-/
namespace H5V.Lemmas.HtmlTBModes
open H5V.Model.HtmlTB
open H5V.Model.Dom (Id SinkOp Output Dom QualName Attr NodeOrText ElementFlags NodeData)
open H5V.Lemmas.HtmlTBAlgo
open H5V.Lemmas.TBSafe (IsEl nm AllEl sigOf HInv SInv TI Rooted)

/-! ### the triple -/

structure Ext2 (s : State) (calls : List Call) (s' : State) : Prop where
  trace : s'.traceRev = calls.reverse ++ s.traceRev
  replay : Replay s.dom calls s'.dom

theorem replay_ext : ∀ {d d' : Dom} {calls : List Call}, Replay d calls d' → TBSafe.Ext d d' := by
  intro d d' calls
  induction calls generalizing d with
  | nil => intro h; simp only [Replay] at h; subst h; exact TBSafe.Ext.refl _
  | cons c r ih =>
    intro h
    obtain ⟨d1, h1, h2⟩ := h
    exact (TBSafe.apply_ext h1).trans (ih h2)

theorem Ext2.ext {s s' : State} {calls : List Call} (h : Ext2 s calls s') : TBSafe.Ext s.dom s'.dom := replay_ext h.replay

theorem Ext2.refl (s : State) : Ext2 s [] s := ⟨rfl, rfl⟩
theorem Ext2.of_eq {s s' : State} (hd : s'.dom = s.dom) (ht : s'.traceRev = s.traceRev) : Ext2 s [] s' :=
  ⟨by simpa using ht, hd⟩
theorem Ext2.trans {s s1 s2 : State} {a b : List Call} (h1 : Ext2 s a s1) (h2 : Ext2 s1 b s2) : Ext2 s (a ++ b) s2 :=
  ⟨by rw [h2.trace, h1.trace]; simp, h1.replay.append h2.replay⟩
theorem Ext2.of_ext {s s' : State} {calls : List Call} (h : Ext s calls s') : Ext2 s calls s' := ⟨h.trace, h.replay⟩

def PC {α : Type} (m : M α) (s : State) (Q : α → State → List Call → Prop) : Prop :=
  ∀ a s', m.run s = .ok (a, s') → ∃ calls, Ext2 s calls s' ∧ Q a s' calls

theorem PC.of_tot {α : Type} {m : M α} {s : State} {Q : α → State → List Call → Prop} (h : Tot m s Q) : PC m s Q := by
  intro a s' hr
  unfold Tot at h
  rw [hr] at h
  obtain ⟨calls, he, hq⟩ := h
  exact ⟨calls, Ext2.of_ext he, hq⟩

theorem pc_pure {α : Type} {s : State} {a : α} {Q : α → State → List Call → Prop} (h : Q a s []) :
    PC (pure a : M α) s Q := by
  intro a' s' hr
  cases hr
  exact ⟨[], Ext2.refl s, h⟩

theorem pc_throw {α : Type} {s : State} {e : String} {Q : α → State → List Call → Prop} : PC (throw e : M α) s Q := by
  intro a s' hr; cases hr

theorem pc_panicAt {α : Type} {s : State} {c site text : String} {Q : α → State → List Call → Prop} :
    PC (panicAt c site text : M α) s Q := pc_throw

theorem pc_fuelOut {α : Type} {s : State} {w : String} {Q : α → State → List Call → Prop} :
    PC (fuelOut w : M α) s Q := pc_throw

theorem pc_conseq {α : Type} {m : M α} {s : State} {Q Q' : α → State → List Call → Prop}
    (h : PC m s Q) (hq : ∀ a s' calls, Ext2 s calls s' → Q a s' calls → Q' a s' calls) : PC m s Q' := by
  intro a s' hr
  obtain ⟨calls, he, hq'⟩ := h a s' hr
  exact ⟨calls, he, hq a s' calls he hq'⟩

theorem pc_bind {α β : Type} {m : M α} {f : α → M β} {s : State} {Q : β → State → List Call → Prop}
    (h : PC m s (fun a s1 c1 => PC (f a) s1 (fun b s2 c2 => Q b s2 (c1 ++ c2)))) : PC (m >>= f) s Q := by
  intro b s2 hr
  rw [StateT.run_bind] at hr
  cases hm : m.run s with
  | error e => rw [hm] at hr; cases hr
  | ok p =>
    obtain ⟨a, s1⟩ := p
    rw [hm] at hr
    obtain ⟨c1, he1, h2⟩ := h a s1 hm
    obtain ⟨c2, he2, hq⟩ := h2 b s2 hr
    exact ⟨c1 ++ c2, he1.trans he2, hq⟩

theorem pc_getS_bind {β : Type} {f : State → M β} {s : State} {Q : β → State → List Call → Prop}
    (h : PC (f s) s Q) : PC (getS >>= f) s Q := h

theorem pc_getS {s : State} {Q : State → State → List Call → Prop} (h : Q s s []) : PC getS s Q := by
  intro a s' hr; cases hr; exact ⟨[], Ext2.refl s, h⟩

theorem pc_modS {f : State → State} {s : State} {Q : Unit → State → List Call → Prop}
    (hd : (f s).dom = s.dom) (ht : (f s).traceRev = s.traceRev) (h : Q () (f s) []) : PC (modS f) s Q := by
  intro a s' hr; cases hr; exact ⟨[], Ext2.of_eq hd ht, h⟩

theorem pc_set {s2 s : State} {Q : Unit → State → List Call → Prop}
    (hd : s2.dom = s.dom) (ht : s2.traceRev = s.traceRev) (h : Q () s2 []) : PC (set s2 : M Unit) s Q := by
  intro a s' hr; cases hr; exact ⟨[], Ext2.of_eq hd ht, h⟩

/-- any sink call -/
theorem pc_sink {op : SinkOp} {s : State} {Q : Output → State → List Call → Prop}
    (h : ∀ d' out, s.dom.apply op = .ok (d', out) → Q out (afterCall s d' op out) [(op, out)]) :
    PC (sink op) s Q := by
  intro o s' hr
  have hrun : (sink op).run s = (match s.dom.apply op with
      | .error e => .error (errClass e ++ "@sink: " ++ e)
      | .ok (d, out) => .ok (out, afterCall s d op out)) := rfl
  rw [hrun] at hr
  cases ha : s.dom.apply op with
  | error e => rw [ha] at hr; cases hr
  | ok p =>
    obtain ⟨d', out⟩ := p
    rw [ha] at hr
    have e1 : o = out := by cases hr; rfl
    have e2 : s' = afterCall s d' op out := by cases hr; rfl
    subst e1 e2
    exact ⟨[(op, o)], ⟨rfl, ⟨d', ha, rfl⟩⟩, h d' o ha⟩

theorem pc_sinkUnit {op : SinkOp} (s : State) :
    PC (sinkUnit op) s (fun _ s' calls => ∃ d' out, s.dom.apply op = .ok (d', out) ∧
      s' = afterCall s d' op out ∧ calls = [(op, out)]) := by
  unfold sinkUnit
  refine pc_bind (pc_sink ?_)
  intro d' out ha
  exact pc_pure ⟨d', out, ha, rfl, rfl⟩

/-- a query followed by anything -/
theorem pc_query_bind {α β : Type} {m : M α} {f : α → M β} {s : State} {v : α}
    {Q : β → State → List Call → Prop} (hm : PC m s (QueryQ s v))
    (hf : ∀ s1 c1, Ext2 s c1 s1 → SameTB s s1 → edits c1 = [] → PC (f v) s1 (fun b s2 c2 => Q b s2 (c1 ++ c2))) :
    PC (m >>= f) s Q :=
  pc_bind (pc_conseq hm fun _ s1 c1 he ⟨ha, hs, hc⟩ => ha ▸ hf s1 c1 he hs hc)

/-! ### the two vocabularies -/

theorem isEl_iff {d : Dom} {h : Id} : IsEl d h ↔ d.isElement h = true := by
  unfold IsEl sigOf Dom.isElement
  cases hd : d.dataOf h with
  | none => simp
  | some v => cases v <;> simp [TBSafe.sigData]

theorem nm_eq_nameOf (d : Dom) (h : Id) : nm d h = nameOf d h := by
  unfold nm nameOf sigOf Dom.elemName Dom.dataOf Dom.get
  cases hn : d.nodes[h]? with
  | none => simp [bind, Except.bind]
  | some n =>
    simp only [Option.map_some, Option.bind_some, bind, Except.bind]
    cases hdat : n.data <;> simp [TBSafe.sigData, TBSafe.enameOfSig, throw, throwThe, MonadExceptOf.throw]

theorem elemsOk_of_allEl {d : Dom} {l : List Id} (h : AllEl d l) : ElemsOk d l := fun x hx => isEl_iff.mp (h x hx)
theorem allEl_of_elemsOk {d : Dom} {l : List Id} (h : ElemsOk d l) : AllEl d l := fun x hx => isEl_iff.mpr (h x hx)

theorem nameOf_ext {d d' : Dom} (he : TBSafe.Ext d d') {h : Id} (hi : d.isElement h = true) : nameOf d' h = nameOf d h := by
  rw [← nm_eq_nameOf, ← nm_eq_nameOf]; exact TBSafe.nm_ext he (isEl_iff.mpr hi)

theorem isElement_ext {d d' : Dom} (he : TBSafe.Ext d d') {h : Id} (hi : d.isElement h = true) : d'.isElement h = true :=
  isEl_iff.mp ((isEl_iff.mpr hi).ext he)

theorem elemOf_ext {d d' : Dom} (he : TBSafe.Ext d d') {h : Id} (hi : d.isElement h = true) : elemOf d' h = elemOf d h := by
  unfold elemOf; rw [nameOf_ext he hi]

theorem ElemsOk.ext {d d' : Dom} {l : List Id} (h : ElemsOk d l) (he : TBSafe.Ext d d') : ElemsOk d' l :=
  fun x hx => isElement_ext he (h x hx)

theorem absStack_ext {d d' : Dom} {l : List Id} (h : ElemsOk d l) (he : TBSafe.Ext d d') : absStack d' l = absStack d l := by
  unfold absStack
  apply List.map_congr_left
  intro x hx
  exact elemOf_ext he (h x hx)

theorem tcOf_ext {d d' : Dom} (he : TBSafe.Ext d d') {h : Id} (hi : d.isElement h = true) : tcOf d' h = tcOf d h := by
  obtain ⟨x, hx⟩ := isEl_iff.mpr hi
  have hx' := he h x hx
  unfold tcOf Dom.templateContentsOf
  unfold sigOf at hx hx'
  cases hd : d.dataOf h with
  | none => simp [hd] at hx
  | some v =>
    cases hd' : d'.dataOf h with
    | none => simp [hd'] at hx'
    | some v' =>
      rw [hd] at hx; rw [hd'] at hx'
      cases v <;> simp [TBSafe.sigData] at hx
      cases v' <;> simp [TBSafe.sigData] at hx'
      rw [← hx] at hx'
      simp only [Prod.mk.injEq] at hx'
      simp [hx'.2.1]

/-- the sink's "MathML annotation-xml integration point" flag of an element (`false` for non-elements) -/
def ipOfDom (d : Dom) (h : Id) : Bool :=
  match d.dataOf h with
  | some (.element _ _ _ ip) => ip
  | _ => false

theorem ipOfDom_ext {d d' : Dom} (he : TBSafe.Ext d d') {h : Id} (hi : d.isElement h = true) : ipOfDom d' h = ipOfDom d h := by
  obtain ⟨x, hx⟩ := isEl_iff.mpr hi
  have hx' := he h x hx
  unfold ipOfDom
  unfold sigOf at hx hx'
  cases hd : d.dataOf h with
  | none => simp [hd] at hx
  | some v =>
    cases hd' : d'.dataOf h with
    | none => simp [hd'] at hx'
    | some v' =>
      rw [hd] at hx; rw [hd'] at hx'
      cases v <;> simp [TBSafe.sigData] at hx
      cases v' <;> simp [TBSafe.sigData] at hx'
      rw [← hx] at hx'
      simp only [Prod.mk.injEq] at hx'
      simp [hx'.2.2]

/-! ### the invariant of C04 gives the hypotheses of C02Algo -/

theorem elemsOk_of_ti {s : State} (h : TI s) : ElemsOk s.dom s.openElems := elemsOk_of_allEl h.h.open_el

theorem headOk_of_rooted {d : Dom} {l : List Id} (h : Rooted d l) : HeadOk d l := by
  obtain ⟨r, rest, hl, hn⟩ := h
  refine ⟨r, by rw [hl]; rfl, ?_, ?_⟩
  · unfold elemOf; rw [← nm_eq_nameOf, hn]; show (HtmlTBSpec.toName TBSafe.htmlName).isHtml "table" = false; decide
  · unfold Spec.TreeAlgo2.isSpecial elemOf; rw [← nm_eq_nameOf, hn]
    show Spec.TreeAlgo.inTable Spec.TreeTables.special (HtmlTBSpec.toName TBSafe.htmlName) = true
    decide +kernel

theorem afOk_of_hinv {s : State} (h : HInv s) : AFOk s.dom s.openElems s.activeFormatting := by
  intro x t hm
  obtain ⟨h1, h2, h3⟩ := h.af x t hm
  refine ⟨isElement_lt (isEl_iff.mp h1), ?_, fun _ => by rw [← nm_eq_nameOf]; exact h2⟩
  -- a formatting name is not special
  unfold TBSafe.fmtNames isOneOf at h3
  simp only [List.any_cons, List.any_nil, Bool.or_false, Bool.or_eq_true, beq_iff_eq] at h3
  rcases h3 with h3 | h3 | h3 | h3 | h3 | h3 | h3 | h3 | h3 | h3 | h3 | h3 | h3 | h3 <;> rw [← h3] <;> decide +kernel

end H5V.Lemmas.HtmlTBModes
