import H5V.Lemmas.HtmlTBContractRules0
/-!
# TreeSink contract for the HTML tree builder: the answers of the helpers that return a `ProcessResult`

By inversion of successful runs: none of them answers `Reprocess…` (`NoRep`).
-/
namespace H5V.Lemmas.TBC
open H5V.Model.HtmlTB
open H5V.Model.Dom (Id SinkOp)

theorem ok_getS_bind {β : Type} {f : State → M β} {s s'' : State} {b : β}
    (h : (getS >>= f) s = .ok (b, s'')) : f s s = .ok (b, s'') := h

theorem ok_modS_bind {β : Type} {g : State → State} {f : Unit → M β} {s s'' : State} {b : β}
    (h : (modS g >>= f) s = .ok (b, s'')) : f () (g s) = .ok (b, s'') := h

theorem ok_ite {α : Type} {c : Prop} [Decidable c] {a b : M α} {s s' : State} {r : α} {P : α → Prop}
    (h : (if c then a else b) s = .ok (r, s')) (h1 : ∀ s s' r, a s = .ok (r, s') → P r)
    (h2 : ∀ s s' r, b s = .ok (r, s') → P r) : P r := by
  by_cases hc : c
  · rw [if_pos hc] at h; exact h1 _ _ _ h
  · rw [if_neg hc] at h; exact h2 _ _ _ h

theorem res_unexpected {s s' : State} {r : ProcessResult} (h : unexpected s = .ok (r, s')) : r = .done := by
  unfold unexpected at h; exact ok_bind_pure h

theorem res_appendText {t : Str} {s s' : State} {r : ProcessResult} (h : appendText t s = .ok (r, s')) :
    r = .done := by
  unfold appendText at h; exact ok_bind_pure h

theorem res_appendComment {t : Str} {s s' : State} {r : ProcessResult} (h : appendComment t s = .ok (r, s')) :
    r = .done := by
  unfold appendComment at h
  obtain ⟨c, s1, _, h2⟩ := ok_bind h
  exact ok_bind_pure h2

theorem res_appendCommentToDoc {t : Str} {s s' : State} {r : ProcessResult}
    (h : appendCommentToDoc t s = .ok (r, s')) : r = .done := by
  unfold appendCommentToDoc at h
  obtain ⟨c, s1, _, h2⟩ := ok_bind h
  have h3 := ok_getS_bind h2
  exact ok_bind_pure h3

theorem res_appendCommentToHtml {t : Str} {s s' : State} {r : ProcessResult}
    (h : appendCommentToHtml t s = .ok (r, s')) : r = .done := by
  unfold appendCommentToHtml at h
  obtain ⟨tg, s1, _, h2⟩ := ok_bind h
  obtain ⟨c, s2, _, h3⟩ := ok_bind h2
  exact ok_bind_pure h3

theorem res_toRawTextMode {k : H5V.Model.HtmlTok.RawKind} {s s' : State} {r : ProcessResult}
    (h : toRawTextMode k s = .ok (r, s')) : r = .toRawData k := by
  unfold toRawTextMode at h
  have := ok_modS_bind h
  exact (ok_pure this).1.symm

theorem res_parseRawData {tag : Tag} {k : H5V.Model.HtmlTok.RawKind} {s s' : State} {r : ProcessResult}
    (h : parseRawData tag k s = .ok (r, s')) : r = .toRawData k := by
  unfold parseRawData at h
  obtain ⟨e, s1, _, h2⟩ := ok_bind h
  exact res_toRawTextMode h2

theorem noRep_done : NoRep .done := trivial
theorem noRep_ack : NoRep .doneAckSelfClosing := trivial
theorem noRep_raw (k : H5V.Model.HtmlTok.RawKind) : NoRep (.toRawData k) := trivial

theorem res_enterForeign {tag : Tag} {ns : Str} {s s' : State} {r : ProcessResult}
    (h : enterForeign tag ns s = .ok (r, s')) : NoRep r := by
  unfold enterForeign at h
  refine ok_ite h ?_ ?_
  · intro s1 s2 r1 h1; rw [ok_bind_pure h1]; trivial
  · intro s1 s2 r1 h1; rw [ok_bind_pure h1]; trivial

theorem res_inBodyVoid {tag : Tag} {s s' : State} {r : ProcessResult} (h : inBodyVoid tag s = .ok (r, s')) :
    r = .doneAckSelfClosing := by
  unfold inBodyVoid at h
  obtain ⟨_, s1, _, h2⟩ := ok_bind h
  obtain ⟨_, s2, _, h3⟩ := ok_bind h2
  exact ok_bind_pure h3

end H5V.Lemmas.TBC
