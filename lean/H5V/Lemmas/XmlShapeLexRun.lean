import H5V.Lemmas.XmlShapeCmt
import H5V.Lemmas.XmlTokCleanRefs
/-!
C17, shape of parsed trees, part 6 (tokenizer side): the lexical invariant `Lex` (`XmlShapeCmt`) through the
reader, the character-reference sub-tokenizer, `step`, `run`, `feed` and `end` of the XML tokenizer model.

`Rd a b`: machine `b` differs from `a` only in reader registers (`ignore_lf`, `reconsume`, `current_char`,
`temp_buf`, `char_ref`, `at_eof`, `discard_bom`, the attribute VALUE register) and in parse-error tokens
added to the log — nothing `LexE` looks at.  The reader and the character-reference sub-tokenizer relate
their input machine to their output machine by `Rd`.  The comment part of `Lex` mentions `reconsume` /
`current_char` in the comment state only; `getChar_lexT` is where a pending reconsume is turned into the
table's precondition.  The characters handed to the tables are preprocessed (C15: `CInv NN`), which is where
`NmCh` / `DtCh` come from; a character reference is only in progress in the data / attribute-value states
(C04: `Safe`).  `LInv = NInv ∧ Safe ∧ Lex` is preserved by `run` and `feed`; `finish_lex`: after `end` the
log satisfies `CleanP NN` and `TokA`.
-/
namespace H5V.Lemmas.XmlShapeLex
open H5V.Model.XmlTok H5V.Lemmas.XmlRT

structure Rd (a b : Mach) : Prop where
  state : b.state = a.state
  tagKind : b.tagKind = a.tagKind
  tagName : b.tagName = a.tagName
  tagAttrs : b.tagAttrs = a.tagAttrs
  attrName : b.attrName = a.attrName
  comment : b.comment = a.comment
  doctype : b.doctype = a.doctype
  piTarget : b.piTarget = a.piTarget
  piData : b.piData = a.piData
  out : ∀ t ∈ b.out, t ∈ a.out ∨ ∃ s, t = .error s

theorem Rd.refl (a : Mach) : Rd a a := ⟨rfl, rfl, rfl, rfl, rfl, rfl, rfl, rfl, rfl, fun _ h => Or.inl h⟩
theorem Rd.trans {a b c : Mach} (h1 : Rd a b) (h2 : Rd b c) : Rd a c :=
  ⟨h2.state.trans h1.state, h2.tagKind.trans h1.tagKind, h2.tagName.trans h1.tagName,
   h2.tagAttrs.trans h1.tagAttrs, h2.attrName.trans h1.attrName, h2.comment.trans h1.comment,
   h2.doctype.trans h1.doctype,
   h2.piTarget.trans h1.piTarget, h2.piData.trans h1.piData, fun t ht => by
     rcases h2.out t ht with h | h
     · exact h1.out t h
     · exact Or.inr h⟩

theorem LexE.of_rd {a b : Mach} (h : LexE a) (r : Rd a b) : LexE b := by
  refine ⟨⟨?_, by rw [r.attrName]; exact h.1.aname, by rw [r.tagAttrs]; exact h.1.attrs,
    by rw [r.tagAttrs]; exact h.1.nodup, by rw [r.piTarget]; exact h.1.piT, by rw [r.piData]; exact h.1.piD,
    by rw [r.doctype]; exact h.1.dt, by rw [r.comment]; exact h.1.scan⟩, ?_⟩
  · intro t ht
    rcases r.out t ht with h' | ⟨s, rfl⟩
    · exact h.1.out t h'
    · trivial
  · rw [r.state]; exact modeOK_congr h.2 r.tagKind r.tagName r.piTarget

section reader
variable {m : Mach}

macro "rd_same" : tactic => `(tactic| exact ⟨rfl, rfl, rfl, rfl, rfl, rfl, rfl, rfl, rfl, fun _ h => Or.inl h⟩)

theorem Rd_setIgnoreLf (m : Mach) (b : Bool) : Rd m (m.setIgnoreLf b) := by rd_same
theorem Rd_setReconsume (m : Mach) (b : Bool) : Rd m (m.setReconsume b) := by rd_same
theorem Rd_setTempBuf (m : Mach) (s : Str) : Rd m (m.setTempBuf s) := by rd_same
theorem Rd_setCharRef (m : Mach) (x : Option CharRefSt) : Rd m (m.setCharRef x) := by rd_same
theorem Rd_setAtEof (m : Mach) (b : Bool) : Rd m (m.setAtEof b) := by rd_same
theorem Rd_setDiscardBom (m : Mach) (b : Bool) : Rd m (m.setDiscardBom b) := by rd_same
theorem Rd_setCurrentChar (m : Mach) (c : Char) : Rd m (m.setCurrentChar c) := by rd_same
theorem Rd_emitE (m : Mach) (s : Str) : Rd m (emit m (.error s)) :=
  ⟨rfl, rfl, rfl, rfl, rfl, rfl, rfl, rfl, rfl, fun t h => by
    rcases List.mem_cons.mp h with rfl | h
    · exact Or.inr ⟨s, rfl⟩
    · exact Or.inl h⟩
theorem Rd_emitErr (m : Mach) (s : String) : Rd m (emitErr m s) := Rd_emitE m _
theorem Rd_nameErr (o : Opts) (m : Mach) (nb : Str) : Rd m (nameErr o m nb) := by
  unfold nameErr; split
  · exact Rd_emitE m _
  · exact Rd_emitErr m _

theorem foldChar_rd (o : Opts) (m : Mach) (c : Char) : Rd m (foldChar o m c).2 := by
  unfold foldChar
  generalize hcm : (if c = '\r' then ('\n', m.setIgnoreLf true) else (c, m)) = cm
  have h2 : Rd m cm.2 := by
    rw [← hcm]; split
    · exact Rd_setIgnoreLf m true
    · exact Rd.refl m
  dsimp only
  generalize (if cm.1 = '\x00' then '�' else cm.1) = c'
  refine Rd.trans ?_ (Rd_setCurrentChar _ c')
  split
  · exact h2.trans (Rd_emitE _ _)
  · exact h2

theorem preprocess_rd (o : Opts) (m : Mach) (c : Char) (inp : Str) : Rd m (preprocess o m c inp).2.1 := by
  unfold preprocess
  split
  · split
    · cases inp with
      | nil => exact Rd_setIgnoreLf m false
      | cons c' rest => exact (Rd_setIgnoreLf m false).trans (foldChar_rd o _ c')
    · exact (Rd_setIgnoreLf m false).trans (foldChar_rd o _ c)
  · exact foldChar_rd o m c

theorem getChar_rd (o : Opts) (m : Mach) (inp : Str) : Rd m (getChar o m inp).2.1 := by
  unfold getChar
  split
  · exact Rd_setReconsume m false
  · cases inp with
    | nil => exact Rd.refl m
    | cons c rest => exact preprocess_rd o m c rest

theorem popExceptFrom_rd (o : Opts) (S : List Char) (m : Mach) (inp : Str) :
    Rd m (popExceptFrom o S m inp).2.1 ∧ ∀ r, (popExceptFrom o S m inp).1 = some r → SetRes.NonEmpty r := by
  unfold popExceptFrom
  split
  · refine ⟨getChar_rd o m inp, fun r hr => ?_⟩
    dsimp only at hr
    cases hg : (getChar o m inp).1 with
    | none => rw [hg] at hr; cases hr
    | some x =>
      rw [hg] at hr
      simp only [Option.map_some, Option.some.injEq] at hr
      subst hr; trivial
  · cases inp with
    | nil => exact ⟨Rd.refl m, fun r hr => by cases hr⟩
    | cons c rest =>
      dsimp only
      split
      · refine ⟨preprocess_rd o m c rest, fun r hr => ?_⟩
        dsimp only at hr
        cases hg : (preprocess o m c rest).1 with
        | none => rw [hg] at hr; cases hr
        | some x =>
          rw [hg] at hr
          simp only [Option.map_some, Option.some.injEq] at hr
          subst hr; trivial
      · refine ⟨Rd.refl m, fun r hr => ?_⟩
        simp only [Option.some.injEq] at hr
        subst hr
        show [c] ≠ []
        simp

theorem eatSkipLf_rd (o : Opts) (m : Mach) (inp : Str) : Rd m (eatSkipLf o m inp).1 := by
  unfold eatSkipLf
  split
  · split
    · split
      · exact (Rd_setIgnoreLf m false).trans (getChar_rd o _ inp)
      · exact Rd_setIgnoreLf m false
    · exact Rd.refl m
  · exact Rd.refl m

theorem eat_rd (o : Opts) (m : Mach) (inp pat : Str) : Rd m (eat o m inp pat).2.1 := by
  have h1 := eatSkipLf_rd o m inp
  unfold eat
  dsimp only
  generalize eatSkipLf o m inp = mi at h1
  repeat' split
  all_goals exact h1.trans (Rd_setTempBuf _ _)

theorem unconsume_rd (m : Mach) (inp buf : Str) : Rd m (unconsume m inp buf).1 := by
  unfold unconsume; split
  · exact Rd_setIgnoreLf m false
  · exact Rd.refl m

end reader

/-! ### the character-reference sub-tokenizer -/

theorem discardChar_rd (o : Opts) (m : Mach) (inp : Str) (m1 : Mach) (i1 : Str)
    (hd : discardChar o m inp = .ok (m1, i1)) : Rd m m1 := by
  unfold discardChar at hd
  have hg := getChar_rd o m inp
  generalize getChar o m inp = r at hd hg
  obtain ⟨c, m2, i2⟩ := r
  cases c with
  | none => simp at hd
  | some c =>
    simp only [Except.ok.injEq, Prod.mk.injEq] at hd
    obtain ⟨h1, _⟩ := hd; subst h1
    exact hg

theorem finishNumeric_rd (o : Opts) (m : Mach) (cr : CharRefSt) : Rd m (finishNumeric o m cr).1 := by
  unfold finishNumeric
  dsimp only
  repeat' split
  all_goals first | exact Rd.refl m | exact Rd_emitE m _ | exact Rd_emitErr m _

/-- the machine of a successful sub-tokenizer step is `Rd`-related to `m0` -/
def CRRes.RdOk (m0 : Mach) (r : CRRes) : Prop :=
  match r with
  | .error _ => True
  | .ok (m1, _, _, _) => Rd m0 m1

theorem unconsumeNumeric_rd {m0 m : Mach} (h : Rd m0 m) (inp : Str) (cr : CharRefSt) :
    CRRes.RdOk m0 (unconsumeNumeric m inp cr) := by
  simp only [unconsumeNumeric, CRRes.RdOk]
  exact (h.trans (unconsume_rd m _ _)).trans (Rd_emitErr _ _)

theorem finishNumericStatus_rd (o : Opts) {m0 m : Mach} (h : Rd m0 m) (inp : Str) (cr : CharRefSt) :
    CRRes.RdOk m0 (finishNumericStatus o m inp cr) := by
  unfold finishNumericStatus
  have := finishNumeric_rd o m cr
  split
  · rename_i heq; rw [heq] at this; exact h.trans this
  · trivial

theorem unconsumeName_rd {m0 m : Mach} (h : Rd m0 m) (inp : Str) (cr : CharRefSt) :
    CRRes.RdOk m0 (unconsumeName m inp cr) := by
  unfold unconsumeName
  split
  · trivial
  · exact h.trans (unconsume_rd m _ _)

theorem namedDecision_rd (m : Mach) (cr : CharRefSt) (nb : Str) (c1 c2 : Nat) (m1 : Mach)
    (r : Option Str) (hd : namedDecision m cr nb c1 c2 = .ok (m1, r)) : Rd m m1 := by
  unfold namedDecision at hd
  dsimp only at hd
  repeat' split at hd
  all_goals
    first
      | (simp at hd; done)
      | (simp only [Except.ok.injEq, Prod.mk.injEq] at hd
         obtain ⟨h1, _⟩ := hd; subst h1
         first | exact Rd.refl m | exact Rd_emitErr m _)

theorem finishNamed_rd (o : Opts) {m0 m : Mach} (h : Rd m0 m) (inp : Str) (cr : CharRefSt) (ec : Option Char) :
    CRRes.RdOk m0 (finishNamed o m inp cr ec) := by
  unfold finishNamed
  split
  · trivial
  · split
    · dsimp only
      repeat' split
      all_goals
        first
          | exact h
          | exact unconsumeName_rd h _ _
          | exact unconsumeName_rd (h.trans (Rd_nameErr _ _ _)) _ _
          | (apply unconsumeName_rd
             repeat' split
             all_goals first | exact h | exact h.trans (Rd_nameErr _ _ _))
    · split
      · trivial
      · exact unconsumeName_rd (h.trans (namedDecision_rd _ _ _ _ _ _ _ (by assumption))) _ _
      · exact (h.trans (namedDecision_rd _ _ _ _ _ _ _ (by assumption))).trans (unconsume_rd _ _ _)

/-- **one step of the character-reference sub-tokenizer changes nothing `LexE` looks at** -/
theorem crStep_rd (o : Opts) (m : Mach) (inp : Str) (cr : CharRefSt) :
    CRRes.RdOk m (crStep o m inp cr) := by
  have h := Rd.refl m
  unfold crStep
  cases hst : cr.state with
  | named =>
    simp only
    have hp := getChar_rd o m inp
    generalize getChar o m inp = r at hp
    obtain ⟨c, m2, i2⟩ := r
    cases c with
    | none => exact hp
    | some c =>
      simp only
      repeat' split
      all_goals first | trivial | exact hp | exact finishNamed_rd o hp _ _ _
  | bogusName =>
    simp only
    have hp := getChar_rd o m inp
    generalize getChar o m inp = r at hp
    obtain ⟨c, m2, i2⟩ := r
    cases c with
    | none => exact hp
    | some c =>
      simp only
      repeat' split
      all_goals
        first
          | trivial
          | exact hp
          | exact unconsumeName_rd (hp.trans (Rd_nameErr _ _ _)) _ _
          | exact unconsumeName_rd hp _ _
  | begin =>
    simp only
    repeat' split
    all_goals first | trivial | exact h | exact discardChar_rd o m _ _ _ (by assumption)
  | octothorpe =>
    simp only
    repeat' split
    all_goals first | trivial | exact h | exact discardChar_rd o m _ _ _ (by assumption)
  | numeric base =>
    simp only
    repeat' split
    all_goals
      first
        | trivial
        | exact h
        | exact discardChar_rd o m _ _ _ (by assumption)
        | exact unconsumeNumeric_rd h _ _
  | numericSemicolon =>
    simp only
    repeat' split
    all_goals
      first
        | trivial
        | exact h
        | exact finishNumericStatus_rd o (discardChar_rd o m _ _ _ (by assumption)) _ _
        | exact finishNumericStatus_rd o (Rd_emitErr m _) _ _

theorem foldl_emitChar_lex (chars : Str) {m : Mach} (h : LexE m) : LexE (chars.foldl emitChar m) := by
  induction chars generalizing m with
  | nil => exact h
  | cons c cs ih => exact ih (Lex_emitChar h c)

theorem foldl_pushValue_lex (chars : Str) {m : Mach} (h : LexE m) :
    LexE (chars.foldl (fun m c => pushValue c m) m) := by
  induction chars generalizing m with
  | nil => exact h
  | cons c cs ih => exact ih (Lex_pushValue h c)

theorem processCharRef_lex {m : Mach} (h : LexE m) (chars : Str) : LexE (processCharRef m chars).1 := by
  unfold processCharRef
  dsimp only
  split
  · exact foldl_emitChar_lex _ h
  · exact foldl_emitChar_lex _ h
  · exact foldl_pushValue_lex _ h
  · exact h

/-! ### the comment part of the invariant through the reader -/

/-- outside the comment state the comment part only looks at the comment register -/
theorem cmtOK_congr {md : CMode} {a b : Mach} (h : CmtOK md a) (hcm : b.comment = a.comment)
    (hk : md ≠ .cC ∨ (b.reconsume = a.reconsume ∧ b.currentChar = a.currentChar)) : CmtOK md b := by
  cases md with
  | none => trivial
  | c0 => simp only [CmtOK] at h ⊢; rw [hcm]; exact h
  | cLt => simp only [CmtOK] at h ⊢; rw [hcm]; exact h
  | cLtB => simp only [CmtOK] at h ⊢; rw [hcm]; exact h
  | cED => simp only [CmtOK] at h ⊢; rw [hcm]; exact h
  | cC =>
    rcases hk with hk | ⟨e1, e2⟩
    · exact absurd rfl hk
    · simp only [CmtOK] at h ⊢; rw [hcm, e1, e2]; exact h

theorem Lex.of_rd {a b : Mach} (h : Lex a) (r : Rd a b)
    (hk : cmtOf a.state ≠ .cC ∨ (b.reconsume = a.reconsume ∧ b.currentChar = a.currentChar)) : Lex b :=
  ⟨h.1.of_rd r, by rw [r.state]; exact cmtOK_congr h.2 r.comment hk⟩

/-- a reader operation on a machine that is not in a comment state -/
theorem Lex.of_rd_none {a b : Mach} (h : Lex a) (r : Rd a b) (hs : cmtOf a.state = .none) : Lex b :=
  h.of_rd r (Or.inl (by rw [hs]; decide))

/-- the character handed to the table: a pending reconsume delivers `current_char` -/
theorem cmtPre_of_ok {m m1 : Mach} {c : Char} (h2 : CmtOK (cmtOf m.state) m)
    (hrc : m.reconsume = true → m.currentChar = c) (hcm : m1.comment = m.comment) (hs : m1.state = m.state) :
    CmtPre (cmtOf m1.state) m1 c := by
  rw [hs]
  cases hm : cmtOf m.state with
  | none => trivial
  | c0 => rw [hm] at h2; simp only [CmtOK] at h2; simp only [CmtPre]; rw [hcm]; exact h2
  | cLt => rw [hm] at h2; simp only [CmtOK] at h2; simp only [CmtPre]; rw [hcm]; exact h2
  | cLtB => rw [hm] at h2; simp only [CmtOK] at h2; simp only [CmtPre]; rw [hcm]; exact h2
  | cED => rw [hm] at h2; simp only [CmtOK] at h2; simp only [CmtPre]; rw [hcm]; exact h2
  | cC =>
    rw [hm] at h2
    simp only [CmtOK] at h2
    simp only [CmtPre]
    rw [hcm]
    rcases h2 with w | ⟨r, cr⟩
    · exact CR_of_CW w c
    · rw [← hrc r]; exact cr

theorem cmtOK_of_ok_nrc {m m1 : Mach} (h2 : CmtOK (cmtOf m.state) m) (hrc : m.reconsume = false)
    (hcm : m1.comment = m.comment) (hs : m1.state = m.state) : CmtOK (cmtOf m1.state) m1 := by
  rw [hs]
  cases hm : cmtOf m.state with
  | none => trivial
  | c0 => rw [hm] at h2; simp only [CmtOK] at h2 ⊢; rw [hcm]; exact h2
  | cLt => rw [hm] at h2; simp only [CmtOK] at h2 ⊢; rw [hcm]; exact h2
  | cLtB => rw [hm] at h2; simp only [CmtOK] at h2 ⊢; rw [hcm]; exact h2
  | cED => rw [hm] at h2; simp only [CmtOK] at h2 ⊢; rw [hcm]; exact h2
  | cC =>
    rw [hm] at h2
    simp only [CmtOK] at h2 ⊢
    rw [hcm]
    rcases h2 with w | ⟨r, _⟩
    · exact Or.inl w
    · rw [hrc] at r; cases r

/-- **`get_char`** from a machine satisfying the invariant: no character → the invariant still holds;
a character `c` → the table's precondition `LexT`, `current_char = c`, and `c` is preprocessed -/
theorem getChar_lexT (o : Opts) {m : Mach} (hc : CInv NN m) (h : Lex m) (inp : Str) :
    ((getChar o m inp).1 = none → Lex (getChar o m inp).2.1) ∧
    ∀ c, (getChar o m inp).1 = some c →
      LexT (getChar o m inp).2.1 c ∧ (getChar o m inp).2.1.currentChar = c ∧ QC c := by
  obtain ⟨_, g2, g3⟩ := getChar_clean o hc inp
  have hr := getChar_rd o m inp
  have he := h.1.of_rd hr
  by_cases hrc : m.reconsume = true
  · have e : getChar o m inp = (some m.currentChar, m.setReconsume false, inp) := by
      unfold getChar; simp [hrc]
    refine ⟨(fun hn => by rw [e] at hn; cases hn), fun c hcs => ?_⟩
    obtain ⟨q1, q2⟩ := g3 c hcs
    refine ⟨⟨he, cmtPre_of_ok h.2 (fun _ => ?_) hr.comment hr.state⟩, q2, q1⟩
    rw [e] at hcs; simp only [Option.some.injEq] at hcs; exact hcs
  · have hrc' : m.reconsume = false := by simpa using hrc
    refine ⟨fun _ => ⟨he, cmtOK_of_ok_nrc h.2 hrc' hr.comment hr.state⟩, fun c hcs => ?_⟩
    obtain ⟨q1, q2⟩ := g3 c hcs
    exact ⟨⟨he, cmtPre_of_ok h.2 (fun r => by rw [hrc'] at r; cases r) hr.comment hr.state⟩, q2, q1⟩

/-! ### one `XmlTokenizer::step` -/

def RL : R → Prop
  | .cont m _ => Lex m
  | .suspend m _ => Lex m
  | .panic _ => True

theorem ofSig_RL {ms : Mach × Sig} (h : Lex ms.1) (inp : Str) : RL (ofSig ms inp) := by
  unfold ofSig
  split
  · exact h
  · trivial

theorem contChar_RL (o : Opts) {m : Mach} (hc : CInv NN m) (h : Lex m) (inp : Str) :
    RL (contChar o (getChar o m inp)) := by
  obtain ⟨g1, g2⟩ := getChar_lexT o hc h inp
  generalize getChar o m inp = r at g1 g2
  obtain ⟨c, m1, i1⟩ := r
  cases c with
  | none => exact g1 rfl
  | some c =>
    obtain ⟨q1, q2, q3⟩ := g2 c rfl
    exact ofSig_RL (transChar_lex o q1 q3 q2) _

theorem transSet_cmtOf (m : Mach) (r : SetRes) (hs : cmtOf m.state = .none) :
    cmtOf (transSet m r).1.state = .none := by
  unfold transSet
  split
  all_goals first
    | (dsimp only; (repeat' split) <;> simp [cmtOf, *]; done)
    | exact hs
    | simp [cmtOf, *]

theorem contSet_RL (o : Opts) (S : List Char) {m : Mach} (h : Lex m) (hs : cmtOf m.state = .none) (inp : Str) :
    RL (contSet (popExceptFrom o S m inp)) := by
  obtain ⟨hr, g3⟩ := popExceptFrom_rd o S m inp
  generalize popExceptFrom o S m inp = r at g3 hr
  obtain ⟨c, m1, i1⟩ := r
  cases c with
  | none => exact h.of_rd_none hr hs
  | some c =>
    have hs1 : cmtOf m1.state = .none := by rw [hr.state]; exact hs
    exact ofSig_RL (Lex.of_none (transSet_lex (h.1.of_rd hr) (g3 c rfl)) (transSet_cmtOf m1 c hs1)) _

theorem stepMd_RL (o : Opts) {m : Mach} (h : Lex m) (hs : m.state = .markupDecl) (inp : Str) :
    RL (stepMd o m inp) := by
  unfold stepMd
  have hn : cmtOf m.state = .none := by rw [hs]; rfl
  have r1' := eat_rd o m inp kwDashDash
  have e1 := h.1.of_rd r1'
  generalize eat o m inp kwDashDash = r1 at e1 r1'
  obtain ⟨b1, m1, i1⟩ := r1
  have hn1 : cmtOf m1.state = .none := by rw [r1'.state]; exact hn
  rcases b1 with _ | _ | _
  · exact Lex.of_none e1 hn1
  · dsimp only
    have r2' := eat_rd o m1 i1 kwCdata
    have e2 := e1.of_rd r2'
    generalize eat o m1 i1 kwCdata = r2 at e2 r2'
    obtain ⟨b2, m2, i2⟩ := r2
    have hn2 : cmtOf m2.state = .none := by rw [r2'.state]; exact hn1
    rcases b2 with _ | _ | _
    · exact Lex.of_none e2 hn2
    · dsimp only
      have r3' := eat_rd o m2 i2 kwDoctype
      have e3 := e2.of_rd r3'
      generalize eat o m2 i2 kwDoctype = r3 at e3 r3'
      obtain ⟨b3, m3, i3⟩ := r3
      have hn3 : cmtOf m3.state = .none := by rw [r3'.state]; exact hn2
      rcases b3 with _ | _ | _
      · exact Lex.of_none e3 hn3
      · exact Lex.of_none (Lex_to_other (Lex_badChar e3 o) _ rfl) rfl
      · exact Lex.of_none (Lex_to_other e3 _ rfl) rfl
    · exact Lex.of_none (Lex_to_other e2 _ rfl) rfl
  · exact ⟨Lex_to_other (Lex_clearComment e1) _ rfl, rfl⟩

theorem stepAdn_RL (o : Opts) {m : Mach} (hc : CInv NN m) (h : Lex m) (hs : m.state = .afterDoctypeName)
    (inp : Str) : RL (stepAdn o m inp) := by
  unfold stepAdn
  have hn : cmtOf m.state = .none := by rw [hs]; rfl
  have r1' := eat_rd o m inp kwPublic
  have e1 := h.1.of_rd r1'
  have c1 := eat_cinv o hc inp kwPublic
  generalize eat o m inp kwPublic = r1 at e1 c1 r1'
  obtain ⟨b1, m1, i1⟩ := r1
  have hn1 : cmtOf m1.state = .none := by rw [r1'.state]; exact hn
  rcases b1 with _ | _ | _
  · exact Lex.of_none e1 hn1
  · dsimp only
    have r2' := eat_rd o m1 i1 kwSystem
    have e2 := e1.of_rd r2'
    have c2 := eat_cinv o c1 i1 kwSystem
    generalize eat o m1 i1 kwSystem = r2 at e2 c2 r2'
    obtain ⟨b2, m2, i2⟩ := r2
    have hn2 : cmtOf m2.state = .none := by rw [r2'.state]; exact hn1
    rcases b2 with _ | _ | _
    · exact Lex.of_none e2 hn2
    · exact contChar_RL o c2 (Lex.of_none e2 hn2) i2
    · exact Lex.of_none (Lex_to_other e2 _ rfl) rfl
  · exact Lex.of_none (Lex_to_other e1 _ rfl) rfl

theorem foldl_emitChar_state (chars : Str) (m : Mach) : (chars.foldl emitChar m).state = m.state := by
  induction chars generalizing m with
  | nil => rfl
  | cons c cs ih => simp only [List.foldl_cons]; rw [ih]; rfl

theorem foldl_pushValue_state (chars : Str) (m : Mach) :
    (chars.foldl (fun m c => pushValue c m) m).state = m.state := by
  induction chars generalizing m with
  | nil => rfl
  | cons c cs ih => simp only [List.foldl_cons]; rw [ih]; rfl

theorem processCharRef_state (m : Mach) (chars : Str) : (processCharRef m chars).1.state = m.state := by
  unfold processCharRef
  dsimp only
  split
  · exact foldl_emitChar_state _ _
  · exact foldl_emitChar_state _ _
  · exact foldl_pushValue_state _ _
  · rfl

theorem cmtOf_crStateOk {s : State} (h : crStateOk s) : cmtOf s = .none := by
  rcases h with rfl | ⟨k, rfl⟩ <;> rfl

theorem stepCharRef_RL (o : Opts) {m : Mach} (h : Lex m) (hs : crStateOk m.state) (inp : Str) (cr : CharRefSt) :
    RL (stepCharRef o m inp cr) := by
  unfold stepCharRef
  have hg := crStep_rd o m inp cr
  have hn := cmtOf_crStateOk hs
  cases hc : crStep o m inp cr with
  | error e => trivial
  | ok v =>
    obtain ⟨m1, i1, cr1, st⟩ := v
    rw [hc] at hg
    have hg' : Rd m m1 := hg
    have h1 : LexE m1 := h.1.of_rd hg'
    have hn1 : cmtOf m1.state = .none := by rw [hg'.state]; exact hn
    cases st with
    | stuck => exact Lex.of_none (h1.of_rd (Rd_setCharRef _ _)) hn1
    | progress => exact Lex.of_none (h1.of_rd (Rd_setCharRef _ _)) hn1
    | done chars =>
      refine ofSig_RL (ms := ((processCharRef m1 chars).1.setCharRef none, (processCharRef m1 chars).2))
        (Lex.of_none ((processCharRef_lex h1 chars).of_rd (Rd_setCharRef _ _)) ?_) _
      show cmtOf (processCharRef m1 chars).1.state = .none
      rw [processCharRef_state]; exact hn1

theorem state_of_readKind_md {s : State} (h : readKind s = .eatMd) : s = .markupDecl := by
  cases s <;> simp [readKind] at h ⊢

theorem cmtOf_popExcept {s : State} (h : readKind s = .popExcept) : cmtOf s = .none := by
  cases s <;> simp [readKind] at h <;> rfl

/-- **one step of the tokenizer loop preserves the lexical invariant** -/
theorem step_RL (o : Opts) {m : Mach} (hc : CInv NN m) (hs : Safe m) (h : Lex m) (inp : Str) :
    RL (step o m inp) := by
  cases hcr : m.charRef with
  | some cr =>
    rw [step_kind_charRef o m inp cr hcr]
    exact stepCharRef_RL o h (hs.crState cr hcr) inp cr
  | none =>
    cases hrk : readKind m.state with
    | getChar => rw [step_getChar o m inp hcr hrk]; exact contChar_RL o hc h inp
    | popExcept => rw [step_popExcept o m inp hcr hrk]; exact contSet_RL o _ h (cmtOf_popExcept hrk) inp
    | eatMd => rw [step_kind_md o m inp hcr hrk]; exact stepMd_RL o h (state_of_readKind_md hrk) inp
    | eatAdn => rw [step_kind_adn o m inp hcr hrk]; exact stepAdn_RL o hc h (readKind_adn hrk) inp

/-! ### `run`, `feed`, `end` -/

/-- the joint invariant: C15's `NInv`, C04's `Safe` and the lexical invariant -/
def LInv (m : Mach) : Prop := NInv m ∧ Safe m ∧ Lex m

theorem run_linv (o : Opts) (fuel : Nat) {m : Mach} (h : LInv m) (inp : Str) (m' : Mach) (i' : Str)
    (hr : run o fuel m inp = .done m' i') : LInv m' := by
  induction fuel generalizing m inp with
  | zero => simp [run] at hr
  | succ f ih =>
    have hs := step_ninv o h.1 inp
    have hsafe := (step_safe' o m inp h.2.1).2
    have hl := step_RL o h.1.1 h.2.1 h.2.2 inp
    simp only [run] at hr
    cases hst : step o m inp with
    | cont m1 i1 =>
      rw [hst] at hr hs hl
      exact ih ⟨hs, hsafe m1 i1 (Or.inl hst), hl⟩ i1 hr
    | suspend m1 i1 =>
      rw [hst] at hr hs hl
      simp only [RunRes.done.injEq] at hr
      obtain ⟨e1, _⟩ := hr; subst e1
      exact ⟨hs, hsafe m1 i1 (Or.inr hst), hl⟩
    | panic e => rw [hst] at hr; simp at hr

theorem feedBom_lex {m : Mach} (h : Lex m) (inp : Str) : Lex (feedBom m inp).1 := by
  unfold feedBom
  split
  · exact h
  · split
    · exact h.of_rd (Rd_setDiscardBom _ _) (Or.inr ⟨rfl, rfl⟩)
    · exact h

theorem feed_linv (o : Opts) {m : Mach} (h : LInv m) (inp chunk : Str) (m' : Mach) (i' : Str)
    (hf : feed o m inp chunk = .done m' i') : LInv m' := by
  unfold feed at hf
  dsimp only at hf
  split at hf
  · simp only [RunRes.done.injEq] at hf
    obtain ⟨e1, _⟩ := hf; subst e1; exact h
  · exact run_linv o _ ⟨feedBom_ninv h.1 _, feedBom_safe _ _ h.2.1, feedBom_lex h.2.2 _⟩ _ m' i' hf

theorem crEofOnce_rd (o : Opts) (m : Mach) (inp : Str) (cr : CharRefSt) :
    CRRes.RdOk m (crEofOnce o m inp cr) := by
  have h := Rd.refl m
  unfold crEofOnce
  repeat' split
  all_goals
    first
      | exact h
      | exact unconsumeNumeric_rd h _ _
      | exact finishNumericStatus_rd o (Rd_emitErr m _) _ _
      | exact finishNamed_rd o h _ _ _
      | exact unconsumeName_rd h _ _
      | exact (unconsume_rd m _ _).trans (Rd_emitErr _ _)

theorem crEof_rd (o : Opts) (m : Mach) (inp : Str) (cr : CharRefSt) (m1 : Mach) (i1 chars : Str)
    (he : crEof o m inp cr = .ok (m1, i1, chars)) : Rd m m1 := by
  rw [crEof_eq] at he
  have g1 := crEofOnce_rd o m inp cr
  cases h1 : crEofOnce o m inp cr with
  | error e => rw [h1] at he; simp at he
  | ok v =>
    obtain ⟨m2, i2, cr2, st⟩ := v
    rw [h1] at he g1
    cases st with
    | stuck => simp at he
    | done cs =>
      simp only [Except.ok.injEq, Prod.mk.injEq] at he
      obtain ⟨e1, _, _⟩ := he; subst e1
      exact g1
    | progress =>
      simp only at he
      have g2 := crEofOnce_rd o m2 i2 cr2
      cases h2 : crEofOnce o m2 i2 cr2 with
      | error e => rw [h2] at he; simp at he
      | ok v2 =>
        obtain ⟨m3, i3, cr3, st3⟩ := v2
        rw [h2] at he g2
        cases st3 with
        | stuck => simp at he
        | progress => simp at he
        | done cs =>
          simp only [Except.ok.injEq, Prod.mk.injEq] at he
          obtain ⟨e1, _, _⟩ := he; subst e1
          exact Rd.trans g1 g2

theorem finishPre_lex (o : Opts) {m : Mach} (hs : Safe m) (h : Lex m) (m1 : Mach) (i1 : Str)
    (hf : finishPre o m = .ok (m1, i1)) : Lex m1 := by
  unfold finishPre at hf
  cases hcr : m.charRef with
  | none =>
    rw [hcr] at hf
    simp only [Except.ok.injEq, Prod.mk.injEq] at hf
    obtain ⟨e1, _⟩ := hf; subst e1; exact h
  | some cr =>
    rw [hcr] at hf
    simp only at hf
    have hn := cmtOf_crStateOk (hs.crState cr hcr)
    cases he : crEof o m [] cr with
    | error e => rw [he] at hf; simp at hf
    | ok v =>
      obtain ⟨m2, i2, chars⟩ := v
      rw [he] at hf
      simp only at hf
      have r2 := crEof_rd o m [] cr m2 i2 chars he
      have g1 := h.1.of_rd r2
      have hp := processCharRef_lex (g1.of_rd (Rd_setCharRef m2 none)) chars
      have hst := processCharRef_state (m2.setCharRef none) chars
      cases hpc : processCharRef (m2.setCharRef none) chars with
      | mk m3 sig =>
        rw [hpc] at hf hp hst
        cases sig with
        | cont =>
          simp only [Except.ok.injEq, Prod.mk.injEq] at hf
          obtain ⟨e1, _⟩ := hf; subst e1
          refine Lex.of_none hp ?_
          have : m3.state = m.state := by
            have h3 : m3.state = (m2.setCharRef none).state := hst
            rw [h3]; exact r2.state
          rw [this]; exact hn
        | panic e => simp at hf

theorem eofLoop_lex (o : Opts) (fuel : Nat) {m : Mach} (h : LexE m) (m' : Mach)
    (he : eofLoop o fuel m = .ok m') : LexE m' := by
  induction fuel generalizing m with
  | zero => simp [eofLoop] at he
  | succ f ih =>
    have ht := transEof_lex o h
    simp only [eofLoop] at he
    generalize transEof o m = r at he ht
    obtain ⟨m1, sg⟩ := r
    cases sg with
    | cont => exact ih ht he
    | done => simp only [Except.ok.injEq] at he; subst he; exact ht
    | panic e => simp at he

/-- **`XmlTokenizer::end`**: the final machine satisfies C15's `CleanP NN` and the state-independent part of
the lexical invariant (in particular `TokA` for every token of the log) -/
theorem finish_lex (o : Opts) {m : Mach} (h : LInv m) (mf : Mach) (hf : finish o m = .ok mf) :
    CleanP NN mf ∧ LexE mf := by
  refine ⟨finish_clean o h.1 mf hf, ?_⟩
  rw [finish_eq] at hf
  cases hp : finishPre o m with
  | error e => rw [hp] at hf; simp at hf
  | ok v =>
    obtain ⟨m1, i1⟩ := v
    rw [hp] at hf
    simp only at hf
    have h1 := NInv_setAtEof (finishPre_ninv o h.1 m1 i1 hp) true
    have l1 : Lex (m1.setAtEof true) :=
      (finishPre_lex o h.2.1 h.2.2 m1 i1 hp).of_rd (Rd_setAtEof _ _) (Or.inr ⟨rfl, rfl⟩)
    have s1 : Safe (m1.setAtEof true) := by
      obtain ⟨m1', i1', e, hcn⟩ := finishPre_ok o m h.2.1
      rw [hp] at e
      simp only [Except.ok.injEq, Prod.mk.injEq] at e
      obtain ⟨e1, _⟩ := e; subst e1
      exact Safe.of_none (by simpa using hcn)
    cases hr : run o (fuelFor (m1.setAtEof true) i1) (m1.setAtEof true) i1 with
    | done m2 i2 =>
      rw [hr] at hf
      simp only at hf
      exact eofLoop_lex o 8 (run_linv o _ ⟨h1, s1, l1⟩ i1 m2 i2 hr).2.2.1 mf hf
    | panic e => rw [hr] at hf; simp at hf
    | outOfFuel => rw [hr] at hf; simp at hf

theorem lex_initial (bom : Bool) : Lex { discardBom := bom } :=
  ⟨⟨⟨(fun _ h => nomatch h), Or.inl rfl, (fun _ h => nomatch h), List.nodup_nil, Or.inl rfl, (fun _ h => nomatch h),
    dtI_empty, gtScan_nil⟩, trivial⟩, trivial⟩

theorem linv_initial (bom : Bool) : LInv { discardBom := bom } :=
  ⟨ninv_initial .data bom, Safe.of_none rfl, lex_initial bom⟩

end H5V.Lemmas.XmlShapeLex
