import H5V.Lemmas.HtmlTBModesSmall2
import H5V.Lemmas.HtmlTBModesPrimFmt
/-!
The table family of insertion modes, part 1: the bridge from `byModeDev`, foster
parenting ("process the token using the rules for in body with foster parenting enabled") for
non-character tokens and for runs of characters, and the rule function `stepInTable`.
-/
namespace H5V.Lemmas.HtmlTBModes
open H5V.Model.HtmlTB
open H5V.Model.Dom (Id SinkOp Output Dom QualName Attr NodeOrText ElementFlags NodeData QuirksMode)
open H5V.Lemmas.HtmlTBAlgo
open H5V.Lemmas.TBSafe (TI HInv SInv Rooted)
open H5V.Spec.TreeAlgo2 (Elem Entry PState Ctx Edit Place)
open H5V.Spec.TreeModes (STok ETok IMode Config Out TokSwitch XOp Op Step Edition)

/-! ### the bridge: `byModeDev` in the table modes -/

section Bridge
variable {cfg : Config Id} {σ : SState}

theorem tbl_isCharacter_stokOf {tok : Token} (h : isCharsTok tok = false) (hn : tok ≠ .nullChar) :
    isCharacter (stokOf tok) = false := by
  cases tok with
  | chars _ _ => cases h
  | nullChar => exact absurd rfl hn
  | tag t => simp only [stokOf, stokOfTag]; split <;> rfl
  | comment _ => rfl
  | eof => rfl

theorem tbl_isDoctype_stokOf (tok : Token) : isDoctype (stokOf tok) = false := by
  cases tok with
  | tag t => simp only [stokOf, stokOfTag]; split <;> rfl
  | _ => rfl

theorem byModeDev_inTable (h : σ.mode = .inTable) (tok : STok) :
    byModeDev cfg σ tok = Spec.TreeModes.inTable cfg σ tok := by
  rw [byModeDev_eq cfg σ tok (cellAssertFails_of_mode _ _ (by rw [h]; decide))]
  simp only [Spec.TreeModes.byMode, h]

theorem byModeDev_inTableBody (h : σ.mode = .inTableBody) (tok : STok) :
    byModeDev cfg σ tok = Spec.TreeModes.inTableBody cfg σ tok := by
  rw [byModeDev_eq cfg σ tok (cellAssertFails_of_mode _ _ (by rw [h]; decide))]
  simp only [Spec.TreeModes.byMode, h]

theorem byModeDev_inRow (h : σ.mode = .inRow) (tok : STok) :
    byModeDev cfg σ tok = Spec.TreeModes.inRow cfg σ tok := by
  rw [byModeDev_eq cfg σ tok (cellAssertFails_of_mode _ _ (by rw [h]; decide))]
  simp only [Spec.TreeModes.byMode, h]

/-- a character token in "in table body" falls back to "in table" -/
theorem byModeDev_inTableBody_char (h : σ.mode = .inTableBody) (c : Char) :
    byModeDev cfg σ (.character c) = Spec.TreeModes.inTable cfg σ (.character c) := by
  rw [byModeDev_inTableBody h]
  simp only [Spec.TreeModes.inTableBody]

/-- a character token in "in row" falls back to "in table" -/
theorem byModeDev_inRow_char (h : σ.mode = .inRow) (c : Char) :
    byModeDev cfg σ (.character c) = Spec.TreeModes.inTable cfg σ (.character c) := by
  rw [byModeDev_inRow h]
  simp only [Spec.TreeModes.inRow]

theorem byModeDev_inCaption (h : σ.mode = .inCaption) (tok : STok) :
    byModeDev cfg σ tok = Spec.TreeModes.inCaption cfg σ tok := by
  rw [byModeDev_eq cfg σ tok (cellAssertFails_of_mode _ _ (by rw [h]; decide))]
  simp only [Spec.TreeModes.byMode, h]

theorem byModeDev_inColumnGroup (h : σ.mode = .inColumnGroup) (tok : STok) :
    byModeDev cfg σ tok = Spec.TreeModes.inColumnGroup cfg σ tok := by
  rw [byModeDev_eq cfg σ tok (cellAssertFails_of_mode _ _ (by rw [h]; decide))]
  simp only [Spec.TreeModes.byMode, h]

theorem byModeDev_inCell (h : σ.mode = .inCell) (tok : STok) (hc : cellAssertFails σ tok = false) :
    byModeDev cfg σ tok = Spec.TreeModes.inCell cfg σ tok := by
  rw [byModeDev_eq cfg σ tok hc]
  simp only [Spec.TreeModes.byMode, h]

/-- the asserted-impossible case of "in cell" (first clause of `byModeDev`) -/
theorem byModeDev_inCell_assert (_h : σ.mode = .inCell) (tok : STok) (hc : cellAssertFails σ tok = true) :
    byModeDev cfg σ tok
      = pure (.done (σ.err "in cell: no cell in table scope (asserted impossible)")) := by
  simp only [byModeDev, hc, if_true]

theorem byModeDev_inTableText (h : σ.mode = .inTableText) (tok : STok) :
    byModeDev cfg σ tok = Spec.TreeModes.inTableText cfg σ tok := by
  rw [byModeDev_eq cfg σ tok (cellAssertFails_of_mode _ _ (by rw [h]; decide))]
  simp only [Spec.TreeModes.byMode, h]

/-- a character token in "in table", current node one of the six: switch to "in table text" -/
theorem inTable_char_text (c : Char) (h : σ.curIn ["table", "tbody", "template", "tfoot", "thead", "tr"] = true) :
    Spec.TreeModes.inTable cfg σ (.character c)
      = pure (.reprocess { σ with pendingTableChars := [], originalMode := σ.mode, mode := .inTableText }) := by
  simp only [Spec.TreeModes.inTable, h, if_true]

/-- a character token in "in table", current node none of the six: foster parenting -/
theorem inTable_char_foster (c : Char) (h : σ.curIn ["table", "tbody", "template", "tfoot", "thead", "tr"] = false) :
    Spec.TreeModes.inTable cfg σ (.character c) = Spec.TreeModes.inTableAnythingElse cfg σ (.character c) := by
  simp only [Spec.TreeModes.inTable, h, Bool.false_eq_true, if_false]

end Bridge

/-! ### foster parenting, non-character tokens -/

theorem tbl_auxOk_unapplyRes {s : State} {x : Aux} {res : ProcessResult} (h : AuxOk (applyRes res s) x) : AuxOk s x := by
  cases res <;> first | exact h | exact ⟨h.live, h.annot, h.annotEl, h.xlog⟩

theorem tbl_mInv_unapplyRes {s : State} {res : ProcessResult} (h : MInv (applyRes res s)) : MInv s := by
  cases res <;> first | exact h | exact (h.withMode s.mode)

/-- stretch, inner rule function (on a token that is not EOF), stretch that does not touch the `Aux` -/
theorem tbl_tokPost_inner {spec specIn : SState → Spec.TreeModes.M (Step Id)} {s s1 s2 s3 : State} {tok : Token}
    {res : ProcessResult} {c1 c2 c3 : List Call} {R1 : Aux → Aux → Prop} {F : SState → SState}
    (htok : tok ≠ .eof) (h1 : Tr s s1 c1 R1) (he2 : Ext2 s1 c2 s2) (h2 : TokPost specIn s1 tok res s2 c2)
    (h3 : MInv s2 → Tr s2 s3 c3 (fun x x' => x' = x ∧ absF s3 x = F (absF s2 x)))
    (hfin : ∀ x x1 x2, AuxOk s x → AuxOk s1 x1 → R1 x x1 → AuxOk s2 x2 →
      specIn (absF s1 x1) = .ok (stepOf res s2 x2) → absF s3 x2 = F (absF s2 x2) →
      spec (absF s x) = .ok (stepOf res s3 x2)) :
    TokPost spec s tok res s3 (c1 ++ (c2 ++ c3)) := by
  obtain ⟨hm1, hc1, hx1, ids1, hfi1, f1⟩ := h1
  obtain ⟨hres, hm2', hc2, ids2, hfi2, f2⟩ := h2
  obtain ⟨hm3, hc3, hx3, ids3, hfi3, f3⟩ := h3 (tbl_mInv_unapplyRes hm2')
  refine ⟨hres, hm3.applyRes res, (hc3.trans hc2).trans hc1, ids1 ++ (ids2 ++ ids3),
    hfi1.append ((hfi2.append (hfi3.of_dom he2.ext)).of_dom hx1), fun x rest hx hs => ?_⟩
  obtain ⟨x1, l1, r1⟩ := f1 x (ids2 ++ (ids3 ++ rest)) hx (by rw [hs]; simp only [List.append_assoc])
  obtain ⟨x2, ops2, e2, hok2, hstop2, hsup2, hout2, houts2, hlog2, hcalls2⟩ := f2 x1 (ids3 ++ rest) l1.aux l1.supply
  have hlive2 : x2.stopped = false := by
    cases hst : x2.stopped with
    | false => rfl
    | true => exact absurd (hstop2 hst).2 htok
  have hx2 : AuxOk s2 x2 := tbl_auxOk_unapplyRes (hok2 hlive2)
  obtain ⟨x3, l3, hxx, r3⟩ := f3 x2 rest hx2 hsup2
  subst x3
  obtain ⟨ops1, el1, k1⟩ := l1.log
  obtain ⟨ops3, el3, k3⟩ := l3.log
  have hops3 : ops3 = [] := by simpa using el3
  subst hops3
  refine ⟨x2, ops1 ++ ops2, hfin x x1 x2 hx l1.aux r1 hx2 e2 r3, fun _ => l3.aux.applyRes res,
    (fun h => by rw [hlive2] at h; cases h), l3.supply, outRel_congr l1.switch l1.script hout2, houts2.trans l1.outs, ?_, ?_⟩
  · rw [hlog2, el1, List.append_assoc]
  · intro tc htc
    have t2 : TcOk s2.dom tc := tcOk_of_ext htc hx3
    have t1 : TcOk s1.dom tc := tcOk_of_ext t2 he2.ext
    have k3' := k3 tc htc
    simp only [List.map_nil, flatCalls_nil] at k3'
    rw [edits2_append, edits2_append, flatCalls_append, flatCalls_append, List.map_append, flatCalls_append, k1 tc t1,
      hcalls2 tc t2, k3', List.append_nil]

/-- one more parse error of the specification -/
theorem tbl_tr_err {s : State} (hm : MInv s) (w : String) :
    Tr s s [] (fun x x' => x' = { x with errors := x.errors ++ [w] }) :=
  (Tr.refl hm).reaux (fun _ x' => { x' with errors := x'.errors ++ [w] })
    (fun _ _ => ⟨⟨rfl, rfl, rfl, rfl, rfl⟩, rfl, rfl, rfl⟩)
    (fun x x' _ _ h => by subst h; rfl)

/-- `{ s with fosterParenting := b }` -/
theorem tbl_tr_setFoster {s : State} (hm : MInv s) (b : Bool) :
    Tr s { s with fosterParenting := b } []
      (fun x x' => x' = x ∧ absF { s with fosterParenting := b } x = (absF s x).setFoster b) :=
  (Tr.of_upd (s' := { s with fosterParenting := b }) hm rfl (fun _ h => h)
    (MInv.of_fields hm (TBSafe.Ext.refl _) rfl rfl rfl rfl rfl) rfl).conseq
    fun _ _ _ _ h => ⟨h, rfl⟩

theorem tbl_stepOf_foster (res : ProcessResult) (s2 : State) (x2 : Aux) :
    (stepOf res s2 x2).map (fun σ => σ.setFoster false) = stepOf res { s2 with fosterParenting := false } x2 := by
  cases res <;> rfl

/-- **"anything else" of "in table"** on a non-character token: after a stretch `h0` that only reported
a parse error, `foster_parent_in_body(token)` -/
theorem tbl_pc_foster (hbody : StepSimTok stepInBody Spec.TreeModes.inBody) {tok : Token} (hch : isCharsTok tok = false)
    (hwf : TokWf tok) (hne : tok ≠ .eof) {s s0 : State} {c0 : List Call}
    (h0 : Tr s s0 c0 (fun x x' => x' = x ∧ absF s x = absF s0 x)) :
    PC (fosterParentInBody tok) s0 (fun res s' c =>
      TokPost (fun σ => Spec.TreeModes.inTableAnythingElse (cfgOf s) σ (stokOf tok)) s tok res s' (c0 ++ c)) := by
  have hm0 : MInv s0 := h0.1
  have hc0 : cfgOf s0 = cfgOf s := h0.2.1
  unfold fosterParentInBody
  refine pc_seq (pc_modS (Q := fun _ s1 c => s1 = { s0 with fosterParenting := true } ∧ c = []) rfl rfl ⟨rfl, rfl⟩) ?_
  rintro _ s1 c1 _ ⟨rfl, rfl⟩
  have htr1 := tbl_tr_setFoster hm0 true
  refine pc_seq (hbody tok hch hwf _ htr1.1) ?_
  intro res s2 c2 he2 hp
  refine pc_seq (pc_modS (Q := fun _ s3 c => s3 = { s2 with fosterParenting := false } ∧ c = []) rfl rfl ⟨rfl, rfl⟩) ?_
  rintro _ s3 c3 _ ⟨rfl, rfl⟩
  refine pc_pure ?_
  have key := tbl_tokPost_inner (spec := fun σ => Spec.TreeModes.inTableAnythingElse (cfgOf s) σ (stokOf tok))
    (F := fun σ => σ.setFoster false) hne
    ((h0.trans htr1).trans (tbl_tr_err htr1.1 "in table: foster parenting")) he2 hp
    (fun hm2 => tbl_tr_setFoster hm2 false) ?_
  · simpa only [List.append_nil, List.nil_append] using key
  · rintro x x1 x2 hx hx1 ⟨xa, ⟨xb, ⟨hxb, e0⟩, hxa, e1⟩, hx1e⟩ hx2 e2 e3
    subst hxb
    subst hxa
    subst hx1e
    have e2' : Spec.TreeModes.inBody (cfgOf s) (((absF s xa).err "in table: foster parenting").setFoster true) (stokOf tok)
        = .ok (stepOf res s2 x2) := by
      rw [← e2, e0]
      show _ = Spec.TreeModes.inBody (cfgOf s0) _ _
      rw [hc0]
      rfl
    simp only [Spec.TreeModes.inTableAnythingElse, e2']
    show Except.ok ((stepOf res s2 x2).map fun σ => σ.setFoster false) = _
    rw [tbl_stepOf_foster]

/-! ### ends of arms shared by the table modes -/

/-- the abstract state after a switch of the insertion mode (not to "in table text"), the junk
pending table text kept -/
theorem tbl_absF_setMode (s : State) (x : Aux) (m : Mode) (hne : m ≠ .inTableText) :
    absF { s with mode := m } { x with pendingJunk := (absF s x).pendingTableChars } = (absF s x).setMode (imode m) := by
  have : (m == Mode.inTableText) = false := by
    cases m <;> first | rfl | exact absurd rfl hne
  simp only [absF, absP, this, Bool.false_eq_true, if_false, Spec.TreeModes.State.setMode]

/-- "… Insert an HTML element for the token, then switch the insertion mode to `m`." after a stretch
`h0` that prepared the stack / the list -/
theorem tbl_pc_insertSetMode {s s0 : State} {c0 : List Call} {F : SState → SState}
    (h0 : Tr s s0 c0 (fun x x' => x' = x ∧ absF s0 x = F (absF s x))) {t : Tag} (hp : PlainTag t) (m : Mode)
    (hne : m ≠ .inTableText) (tok : Token) :
    PC (insertElementFor t >>= fun _ => setMode m >>= fun _ => pure ProcessResult.done) s0 (fun res s' c =>
      TokPost (fun σ => do
        let σ1 ← Spec.TreeModes.insertHtml' (F σ) (specTag t)
        pure (Step.done (σ1.setMode (imode m)))) s tok res s' (c0 ++ c)) := by
  refine pc_seq (pc_insertElementFor' h0.1 hp) ?_
  rintro a s1 c1 _ ⟨-, -, -, -, -, htr1⟩
  refine pc_seq (pc_setMode htr1.1 m) ?_
  rintro _ s2 c2 _ ⟨rfl, htr2⟩
  refine pc_pure ?_
  rw [List.append_nil, ← List.append_assoc]
  refine tokPost_of_tr ((h0.trans htr1).trans htr2) trivial ?_
  rintro x x2 hx hx2 ⟨x1, ⟨x0, ⟨hx0, e0⟩, e1⟩, hx2e⟩
  subst x0
  subst x2
  refine ⟨{ x1 with pendingJunk := (absF s1 x1).pendingTableChars }, ?_, ⟨rfl, rfl, rfl, rfl, rfl⟩, Or.inl rfl, rfl, rfl⟩
  rw [← e0, e1]
  simp only [stepOf]
  rw [tbl_absF_setMode _ _ _ hne]
  rfl

/-- "… Insert an HTML element for a `name` start tag token with no attributes, then switch the
insertion mode to `m`.  Reprocess the current token." -/
theorem tbl_pc_phantomReprocess {s s0 : State} {c0 : List Call} {F : SState → SState}
    (h0 : Tr s s0 c0 (fun x x' => x' = x ∧ absF s0 x = F (absF s x))) (name : String) (m : Mode)
    (hne : m ≠ .inTableText) (tok : Token) :
    PC (insertPhantom name >>= fun _ => pure (ProcessResult.reprocess m tok)) s0 (fun res s' c =>
      TokPost (fun σ => do
        let σ1 ← Spec.TreeModes.insertHtml' (F σ) (Spec.TreeModes.bareTag name)
        pure (Step.reprocess (σ1.setMode (imode m)))) s tok res s' (c0 ++ c)) := by
  refine pc_seq (pc_insertPhantom' h0.1 name) ?_
  rintro a s1 c1 _ ⟨-, -, -, -, -, htr1⟩
  refine pc_pure ?_
  rw [List.append_nil]
  refine tokPost_of_tr (h0.trans htr1) rfl ?_
  rintro x x1 hx hx1 ⟨x0, ⟨hx0, e0⟩, e1⟩
  subst x0
  refine ⟨{ x1 with pendingJunk := (absF s1 x1).pendingTableChars }, ?_, ⟨rfl, rfl, rfl, rfl, rfl⟩, Or.inl rfl, rfl, rfl⟩
  rw [← e0, e1]
  simp only [stepOf, applyRes]
  rw [tbl_absF_setMode _ _ _ hne]
  rfl

/-! ### `stepInTable` -/

/-- no template insertion mode is "in table text" -/
theorem tbl_htm {s : State} (hm : MInv s) : s.templateModes.getLast? ≠ some .inTableText :=
  fun h => hm.tmodes _ (List.mem_of_getLast? h) rfl

/-- an `Aux` for every state -/
theorem tbl_auxOk_exists {s : State} (hm : MInv s) (sup : List Id) : ∃ x, AuxOk s x ∧ x.supply = sup := by
  refine ⟨{ supply := sup, annot := s.openElems.filter (fun h => ipOfDom s.dom h) }, ⟨rfl, ?_, ?_, ?_⟩, rfl⟩
  · intro h hh _
    show (s.openElems.filter (fun h => ipOfDom s.dom h)).contains h = _
    cases hi : ipOfDom s.dom h with
    | true => simp [List.mem_filter, hh, hi]
    | false =>
      have : ¬ h ∈ s.openElems.filter (fun h => ipOfDom s.dom h) := by simp [List.mem_filter, hi]
      simpa [List.contains_iff_mem] using this
  · intro a ha
    exact hm.elems a (List.mem_filter.mp ha).1
  · exact ⟨by simp, by simp⟩

theorem tbl_imode_inj {a b : Mode} (h : imode a = imode b) : a = b := by
  cases a <;> cases b <;> first | rfl | cases h

/-- a stretch that keeps the insertion mode and the stack of template insertion modes of the abstract
state keeps them in the model -/
theorem tbl_tr_fields {s s' : State} {c : List Call} {R : Aux → Aux → Prop} (hm : MInv s) (h : Tr s s' c R)
    (hR : ∀ x x', AuxOk s x → AuxOk s' x' → R x x' → (absF s' x').mode = (absF s x).mode ∧
      (absF s' x').templateModes = (absF s x).templateModes) :
    s'.mode = s.mode ∧ s'.templateModes = s.templateModes := by
  obtain ⟨hm', -, -, ids, hfi, f⟩ := h
  obtain ⟨x, hx, hsup⟩ := tbl_auxOk_exists hm ids
  obtain ⟨x', l, r⟩ := f x [] hx (by simp [hsup])
  obtain ⟨h1, h2⟩ := hR x x' hx l.aux r
  exact ⟨tbl_imode_inj h1, (List.map_inj_right (fun a b => tbl_imode_inj)).mp h2⟩

/-- `pop_until_named(name)`, with the frame -/
theorem tbl_pc_popUntilNamed {s : State} (hm : MInv s) (name : String) :
    PC (popUntilNamed name) s (fun _ s' calls => s'.mode = s.mode ∧ s'.templateModes = s.templateModes ∧
      Tr s s' calls (fun x x' => x' = x ∧ absF s' x = Spec.TreeModes.popUntilPopped (absF s x) name)) := by
  refine pc_conseq (pc_popUntilNamed hm name) ?_
  rintro _ s' calls _ htr
  have hf := tbl_tr_fields hm htr (by
    rintro x x' _ _ ⟨hx, e, -⟩
    subst x'
    rw [e]
    exact ⟨rfl, rfl⟩)
  exact ⟨hf.1, hf.2, htr.conseq fun _ _ _ _ ⟨h1, h2, _⟩ => ⟨h1, h2⟩⟩

/-- a query, with the frame -/
theorem tbl_tr_query_fields {s s' : State} {c : List Call} {P : Aux → Prop} (hm : MInv s)
    (h : Tr s s' c (fun x x' => x' = x ∧ absF s x = absF s' x ∧ P x)) :
    s'.mode = s.mode ∧ s'.templateModes = s.templateModes :=
  tbl_tr_fields hm h (by
    rintro x x' _ _ ⟨hx, e, -⟩
    subst x'
    rw [← e]
    exact ⟨rfl, rfl⟩)

theorem tbl_tr_same_fields {s s' : State} {c : List Call} (hm : MInv s)
    (h : Tr s s' c (fun x x' => x' = x ∧ absF s x = absF s' x)) :
    s'.mode = s.mode ∧ s'.templateModes = s.templateModes :=
  tbl_tr_fields hm h (by
    rintro x x' _ _ ⟨hx, e⟩
    subst x'
    rw [← e]
    exact ⟨rfl, rfl⟩)

/-- `unexpected`, the parse error of the specification reported first -/
theorem tbl_pc_unexpected_err {s : State} (hm : MInv s) (w : String) :
    PC unexpected s (fun r s' calls => r = .done ∧
      Tr s s' calls (fun x x' => x' = { x with errors := x.errors ++ [w] } ∧ (absF s x).err w = absF s' x')) := by
  refine pc_conseq (pc_unexpected hm) ?_
  rintro r s' calls _ ⟨hr, htr⟩
  refine ⟨hr, ((tbl_tr_err hm w).trans htr).conseq ?_⟩
  rintro x x' _ _ ⟨x1, hx1, hx', e⟩
  subst x'
  subst x1
  exact ⟨rfl, e⟩

theorem tbl_find_type : ∀ (l : List Attr), (∀ a ∈ l, HtmlTBSpec.Plain a) →
    ((l.map (fun a => (⟨a.name.loc, a.value⟩ : Spec.TreeModes.Attr))).find? (fun a => a.name == "type".toList)).map (·.value)
      = (l.find? (fun a => a.name.ns == [] && isName a.name.loc "type")).map (·.value) := by
  intro l
  induction l with
  | nil => intro _; rfl
  | cons a r ih =>
    intro hp
    have ha : a.name.ns = [] := by
      have := hp a List.mem_cons_self
      unfold HtmlTBSpec.Plain at this
      rw [this]; rfl
    have e1 : ((⟨a.name.loc, a.value⟩ : Spec.TreeModes.Attr).name == "type".toList) = decide (a.name.loc = "type".toList) :=
      beq_str _ _
    have e2 : (a.name.ns == [] && isName a.name.loc "type") = decide (a.name.loc = "type".toList) := by
      rw [ha, isName_eq]; rfl
    rw [List.map_cons, List.find?_cons, List.find?_cons, e1, e2]
    by_cases h : a.name.loc = "type".toList
    · have hd : decide (a.name.loc = "type".toList) = true := decide_eq_true h
      rw [hd]
      rfl
    · have hd : decide (a.name.loc = "type".toList) = false := decide_eq_false h
      rw [hd]
      exact ih (fun b hb => hp b (List.mem_cons_of_mem _ hb))

theorem tbl_kind_se : (H5V.Model.HtmlTok.TagKind.startTag == H5V.Model.HtmlTok.TagKind.endTag) = false := rfl
theorem tbl_kind_es : (H5V.Model.HtmlTok.TagKind.endTag == H5V.Model.HtmlTok.TagKind.startTag) = false := rfl
theorem tbl_kind_ss : (H5V.Model.HtmlTok.TagKind.startTag == H5V.Model.HtmlTok.TagKind.startTag) = true := rfl
theorem tbl_kind_ee : (H5V.Model.HtmlTok.TagKind.endTag == H5V.Model.HtmlTok.TagKind.endTag) = true := rfl

theorem tbl_or3_false {p q r : Prop} [Decidable p] [Decidable q] [Decidable r] (h : ¬ (p ∨ q ∨ r)) :
    (decide p || (decide q || decide r)) = false := by
  simp only [not_or] at h
  simp [h.1, h.2.1, h.2.2]

theorem tbl_or3_true {p q r : Prop} [Decidable p] [Decidable q] [Decidable r] (h : p ∨ q ∨ r) :
    (decide p || (decide q || decide r)) = true := by
  rcases h with h | h | h <;> simp [h]

theorem tbl_isTypeHidden {t : Tag} (hp : PlainTag t) : isTypeHidden t = (specTag t).typeIsHidden := by
  unfold isTypeHidden Spec.TreeModes.Tag.typeIsHidden Spec.TreeModes.Tag.attr?
  have := tbl_find_type t.attrs hp
  simp only [specTag] at this ⊢
  rw [this]
  cases t.attrs.find? (fun a => a.name.ns == [] && isName a.name.loc "type") with
  | none => rfl
  | some a => rfl

theorem sim_inTable_start (hhead : StepSimTok stepInHead Spec.TreeModes.inHead)
    (hbody : StepSimTok stepInBody Spec.TreeModes.inBody) (t : Tag) (hwf : TagWf t) (hk : t.kind = .startTag)
    (s : State) (hm : MInv s) (htm : s.templateModes.getLast? ≠ some .inTableText) :
    PC (stepInTable (.tag t)) s (TokPost (fun σ => Spec.TreeModes.inTable (cfgOf s) σ (stokOf (.tag t))) s (.tag t)) := by
  simp only [stepInTable, Tag.isStart, Tag.isEnd, isOneOf_cons, isOneOf_nil, Bool.or_false, hk]
  simp only [stokOf, stokOfTag_start hk, Spec.TreeModes.inTable, Spec.TreeModes.Tag.is, Spec.TreeModes.Tag.isOneOf, strIs_eq,
    strIsOneOf_cons, strIsOneOf_nil, Bool.or_false, specTag_name]
  by_cases h1 : t.name = "caption".toList
  · simp +decide only [h1, if_true]
    refine pc_seq (pc_popUntilCurrent_table hm) ?_
    rintro _ s1 c1 _ htr1
    refine pc_seq (pc_pushMarker htr1.1) ?_
    rintro _ s2 c2 _ ⟨-, htr2⟩
    have h0 : Tr s s2 (c1 ++ c2) (fun x x' => x' = x ∧
        absF s2 x = (fun σ => (Spec.TreeModes.clearBackToTable σ).insertMarker) (absF s x)) :=
      (htr1.trans htr2).conseq (by
        rintro x x2 _ _ ⟨x1, ⟨hx1, e1⟩, hx2, e2⟩
        subst x1; subst x2
        exact ⟨rfl, by rw [← e2, e1]⟩)
    have := tbl_pc_insertSetMode (F := fun σ => (Spec.TreeModes.clearBackToTable σ).insertMarker) h0 hwf.plain .inCaption (by decide) (.tag t)
    simp only [List.append_assoc] at this
    exact this
  · by_cases h2 : t.name = "colgroup".toList
    · simp +decide only [h2, if_true, if_false]
      refine pc_seq (pc_popUntilCurrent_table hm) ?_
      rintro _ s1 c1 _ htr1
      exact tbl_pc_insertSetMode htr1 hwf.plain .inColumnGroup (by decide) (.tag t)
    · by_cases h3 : t.name = "col".toList
      · simp +decide only [h3, if_true, if_false]
        refine pc_seq (pc_popUntilCurrent_table hm) ?_
        rintro _ s1 c1 _ htr1
        exact tbl_pc_phantomReprocess htr1 "colgroup" .inColumnGroup (by decide) (.tag t)
      · by_cases h4 : t.name = "tbody".toList ∨ t.name = "tfoot".toList ∨ t.name = "thead".toList
        · have := tbl_or3_true h4
          simp +decide only [h1, h2, h3, this, if_true, if_false]
          refine pc_seq (pc_popUntilCurrent_table hm) ?_
          rintro _ s1 c1 _ htr1
          exact tbl_pc_insertSetMode htr1 hwf.plain .inTableBody (by decide) (.tag t)
        · have h4' := tbl_or3_false h4
          by_cases h5 : t.name = "td".toList ∨ t.name = "th".toList ∨ t.name = "tr".toList
          · have := tbl_or3_true h5
            simp +decide only [h1, h2, h3, h4', this, if_true, if_false]
            refine pc_seq (pc_popUntilCurrent_table hm) ?_
            rintro _ s1 c1 _ htr1
            exact tbl_pc_phantomReprocess htr1 "tbody" .inTableBody (by decide) (.tag t)
          · have h5' := tbl_or3_false h5
            by_cases h6 : t.name = "table".toList
            · simp +decide only [h6, if_true, if_false]
              refine pc_seq (tbl_pc_unexpected_err hm "in table: table start tag") ?_
              rintro _ s1 c1 _ ⟨-, htr1⟩
              refine pc_seq (pc_inScopeNamed_table htr1.1 "table") ?_
              rintro b s2 c2 _ htr2
              have hf1 := tbl_tr_fields hm htr1 (by rintro x x' _ _ ⟨_, e⟩; rw [← e]; exact ⟨rfl, rfl⟩)
              have hf2 := tbl_tr_query_fields htr1.1 htr2
              cases b with
              | false =>
                simp only [Bool.false_eq_true, if_false]
                refine pc_pure ?_
                rw [List.append_nil]
                refine tokPost_of_tr (htr1.trans htr2) trivial ?_
                rintro x x2 hx hx2 ⟨x1, ⟨hx1, e1⟩, hx2e, e2, hb⟩
                subst x2
                refine ⟨x1, ?_, AuxSame.rfl', Or.inl rfl, rfl, rfl⟩
                rw [e1, ← hb]
                simp only [Bool.not_false, if_true, stepOf, e2]
                rfl
              | true =>
                simp only [if_true]
                refine pc_seq (tbl_pc_popUntilNamed htr2.1 "table") ?_
                rintro _ s3 c3 _ ⟨hm3, ht3, htr3⟩
                refine pc_seq (pc_resetInsertionMode htr3.1) ?_
                rintro m s4 c4 _ ⟨hs4, hmt, htr4⟩
                refine pc_pure ?_
                have hne : m ≠ .inTableText := fun h => htm (by rw [← hf1.2, ← hf2.2, ← ht3]; exact hmt h)
                have hcfg : cfgOf s3 = cfgOf s := ((htr1.trans htr2).trans htr3).2.1
                rw [List.append_nil, ← List.append_assoc, ← List.append_assoc]
                refine tokPost_of_tr (((htr1.trans htr2).trans htr3).trans htr4) rfl ?_
                rintro x x4 hx hx4 ⟨x3, ⟨x2, ⟨x1, ⟨hx1, e1⟩, hx2, e2, hb⟩, hx3, e3⟩, hx4e, e4, r4⟩
                subst x4
                subst x3
                subst x2
                refine ⟨{ x1 with pendingJunk := (absF s4 x1).pendingTableChars }, ?_, ⟨rfl, rfl, rfl, rfl, rfl⟩, Or.inl rfl, rfl, rfl⟩
                rw [e1, ← hb]
                simp only [Bool.not_true, Bool.false_eq_true, if_false, stepOf, applyRes]
                rw [e2, ← e3, ← hcfg, r4, tbl_absF_setMode _ _ _ hne, ← e4]
                rfl
            · simp +decide only [h1, h2, h3, h4', h5', h6, if_false, tbl_kind_se, tbl_kind_ss, Bool.false_and, Bool.true_and,
                Bool.or_false]
              by_cases h7 : t.name = "style".toList ∨ t.name = "script".toList ∨ t.name = "template".toList
              · have := tbl_or3_true h7
                simp +decide only [this, if_true]
                refine pc_tokPost_congr (hhead (.tag t) rfl hwf s hm) ?_
                intro x hx
                simp only [stokOf, stokOfTag_start hk]
              · have h7' := tbl_or3_false h7
                simp +decide only [h7', if_false]
                by_cases h8 : t.name = "input".toList
                · simp +decide only [h8, if_true]
                  cases hh : isTypeHidden t with
                  | false =>
                    have hh' : (specTag t).typeIsHidden = false := by rw [← tbl_isTypeHidden hwf.plain]; exact hh
                    simp only [hh', Bool.not_false, if_true, Bool.false_eq_true, if_false]
                    refine pc_seq (pc_unexpected hm) ?_
                    rintro _ s1 c1 _ ⟨-, htr1⟩
                    refine pc_conseq (tbl_pc_foster hbody (tok := .tag t) rfl hwf (by simp) htr1) ?_
                    intro res s' c _ hp
                    refine tokPost_congr hp ?_
                    intro x hx
                    simp only [stokOf, stokOfTag_start hk]
                  | true =>
                    have hh' : (specTag t).typeIsHidden = true := by rw [← tbl_isTypeHidden hwf.plain]; exact hh
                    simp only [hh', Bool.not_true, if_true, Bool.false_eq_true, if_false]
                    refine pc_seq (tbl_pc_unexpected_err hm "in table: input type=hidden") ?_
                    rintro _ s1 c1 _ ⟨-, htr1⟩
                    refine pc_seq (pc_insertVoid htr1.1 hwf.plain) ?_
                    rintro a s2 c2 _ ⟨-, -, -, -, -, htr2⟩
                    refine pc_pure ?_
                    rw [List.append_nil]
                    refine tokPost_of_tr (htr1.trans htr2) trivial ?_
                    rintro x x2 hx hx2 ⟨x1, ⟨hx1, e1⟩, e2⟩
                    refine ⟨x2, ?_, AuxSame.rfl', Or.inl rfl, rfl, rfl⟩
                    rw [e1, e2]
                    rfl
                · simp +decide only [h8, if_false]
                  by_cases h9 : t.name = "form".toList
                  · simp +decide only [h9, if_true]
                    refine pc_seq (tbl_pc_unexpected_err hm "in table: form start tag") ?_
                    rintro _ s1 c1 _ ⟨-, htr1⟩
                    refine pc_seq (pc_inHtmlElemNamed_template htr1.1) ?_
                    rintro b s2 c2 _ htr2
                    cases b with
                    | true =>
                      simp only [if_true, pure_bind, Bool.false_eq_true, if_false]
                      refine pc_pure ?_
                      rw [List.append_nil]
                      refine tokPost_of_tr (htr1.trans htr2) trivial ?_
                      rintro x x2 hx hx2 ⟨x1, ⟨hx1, e1⟩, hx2e, e2, hb⟩
                      subst x2
                      refine ⟨x1, ?_, AuxSame.rfl', Or.inl rfl, rfl, rfl⟩
                      rw [e1, ← hb]
                      simp only [Bool.true_or, if_true, stepOf, e2]
                      rfl
                    | false =>
                      simp only [Bool.false_eq_true, if_false]
                      refine pc_getS_bind ?_
                      simp only [pure_bind]
                      cases hfe : s2.formElem with
                      | some f =>
                        simp only [Option.isNone_some, Bool.false_eq_true, if_false]
                        refine pc_pure ?_
                        rw [List.append_nil]
                        refine tokPost_of_tr (htr1.trans htr2) trivial ?_
                        rintro x x2 hx hx2 ⟨x1, ⟨hx1, e1⟩, hx2e, e2, hb⟩
                        subst x2
                        refine ⟨x1, ?_, AuxSame.rfl', Or.inl rfl, rfl, rfl⟩
                        have hfp : (absF s1 x1).p.formPointer.isSome = true := by
                          rw [e2]; show s2.formElem.isSome = true; rw [hfe]; rfl
                        rw [e1, ← hb, hfp]
                        simp only [Bool.or_true, if_true, stepOf, e2]
                        rfl
                      | none =>
                        simp only [Option.isNone_none, if_true]
                        refine pc_seq (show PC (insertAndPopElementFor t) s2 _ from
                          pc_insertHtml_core htr2.1 false t (specTag t) (specTag_etok hwf.plain)) ?_
                        rintro a s3 c3 _ ⟨-, -, -, hel3, hnm3, htr3⟩
                        have hm3 : MInv s3 := htr3.1
                        have hform : s3.dom.isElement a = true ∧ nameOf s3.dom a ≠ ⟨nsHtml, "html".toList⟩ := by
                          refine ⟨hel3, ?_⟩
                          rw [hnm3, h9]
                          decide
                        have hm4 : MInv { s3 with formElem := some a } :=
                          { elems := hm3.elems, root := hm3.root, af := hm3.af, afEl := hm3.afEl, head := hm3.head,
                            ctx := hm3.ctx, afwf := hm3.afwf, ip := hm3.ip, tmodes := hm3.tmodes,
                            form := fun f hf => by cases hf; exact hform, pend := hm3.pend }
                        refine pc_seq (pc_modS (Q := fun _ s4 c => s4 = { s3 with formElem := some a } ∧ c = []) rfl rfl ⟨rfl, rfl⟩) ?_
                        rintro _ s4 c4 _ ⟨rfl, rfl⟩
                        have htr4 : Tr s3 { s3 with formElem := some a } [] (fun x x' => x' = x) :=
                          Tr.of_upd (s' := { s3 with formElem := some a }) hm3 rfl (fun _ h => h) hm4 rfl
                        refine pc_pure ?_
                        rw [List.append_nil, List.append_nil, ← List.append_assoc]
                        have htr := ((htr1.trans htr2).trans htr3).trans htr4
                        rw [List.append_nil] at htr
                        refine tokPost_of_tr htr trivial ?_
                        rintro x x4 hx hx4 ⟨x3, ⟨x2, ⟨x1, ⟨hx1, e1⟩, hx2e, e2, hb⟩, σ1, hins, e3⟩, hx4e⟩
                        subst x4
                        subst x2
                        refine ⟨x3, ?_, AuxSame.rfl', Or.inl rfl, rfl, rfl⟩
                        have hfp : (absF s1 x1).p.formPointer.isSome = false := by
                          rw [e2]; show s2.formElem.isSome = false; rw [hfe]; rfl
                        rw [e1, ← hb, hfp, e2, hins]
                        simp only [Bool.or_self, Bool.false_eq_true, if_false, stepOf]
                        show Except.ok (Step.done ((σ1.pop).setForm (some a))) = _
                        have e3' : absF s3 x3 = σ1.pop := e3
                        rw [← e3']
                        rfl
                  · simp +decide only [h9, if_false]
                    refine pc_seq (pc_unexpected hm) ?_
                    rintro _ s1 c1 _ ⟨-, htr1⟩
                    refine pc_conseq (tbl_pc_foster hbody (tok := .tag t) rfl hwf (by simp) htr1) ?_
                    intro res s' c _ hp
                    refine tokPost_congr hp ?_
                    intro x hx
                    simp only [stokOf, stokOfTag_start hk]


theorem sim_inTable_end (hhead : StepSimTok stepInHead Spec.TreeModes.inHead)
    (hbody : StepSimTok stepInBody Spec.TreeModes.inBody) (t : Tag) (hwf : TagWf t) (hk : t.kind = .endTag)
    (s : State) (hm : MInv s) (htm : s.templateModes.getLast? ≠ some .inTableText) :
    PC (stepInTable (.tag t)) s (TokPost (fun σ => Spec.TreeModes.inTable (cfgOf s) σ (stokOf (.tag t))) s (.tag t)) := by
  simp only [stepInTable, Tag.isStart, Tag.isEnd, isOneOf_cons, isOneOf_nil, Bool.or_false, hk, tbl_kind_es, tbl_kind_ee,
    Bool.false_and, Bool.true_and, Bool.false_eq_true, if_false, Bool.false_or]
  simp only [stokOf, stokOfTag_end hk, Spec.TreeModes.inTable, Spec.TreeModes.Tag.is, Spec.TreeModes.Tag.isOneOf, strIs_eq,
    strIsOneOf_cons, strIsOneOf_nil, Bool.or_false, specTag_name]
  by_cases h1 : t.name = "table".toList
  · simp +decide only [h1, if_true]
    refine pc_seq (pc_inScopeNamed_table hm "table") ?_
    rintro b s1 c1 _ htr1
    have hf1 := tbl_tr_query_fields hm htr1
    cases b with
    | false =>
      simp only [Bool.false_eq_true, if_false]
      refine pc_seq (pc_unexpected htr1.1) ?_
      rintro _ s2 c2 _ ⟨-, htr2⟩
      refine pc_pure ?_
      rw [List.append_nil]
      refine tokPost_of_tr (htr1.trans htr2) trivial ?_
      rintro x x2 hx hx2 ⟨x1, ⟨hx1, e1, hb⟩, hx2e, e2⟩
      subst x2
      subst x1
      refine ⟨{ x with errors := x.errors ++ ["in table: table end tag without table in table scope"] }, ?_,
        ⟨rfl, rfl, rfl, rfl, rfl⟩, Or.inl rfl, rfl, rfl⟩
      rw [← hb]
      simp only [Bool.not_false, if_true, stepOf]
      rw [e1, e2]
      rfl
    | true =>
      simp only [if_true]
      refine pc_seq (tbl_pc_popUntilNamed htr1.1 "table") ?_
      rintro _ s2 c2 _ ⟨hm2, ht2, htr2⟩
      have htm2 : s2.templateModes.getLast? ≠ some .inTableText := by rw [ht2, hf1.2]; exact htm
      refine pc_seq (pc_resetInsertionMode htr2.1) ?_
      rintro m s3 c3 _ ⟨-, hmt, htr3⟩
      have hne : m ≠ .inTableText := fun h => htm2 (hmt h)
      refine pc_seq (pc_setMode_junk htr3.1 m hne) ?_
      rintro _ s4 c4 _ ⟨-, htr4⟩
      refine pc_pure ?_
      have hcfg : cfgOf s2 = cfgOf s := (htr1.trans htr2).2.1
      rw [List.append_nil, ← List.append_assoc, ← List.append_assoc]
      refine tokPost_of_tr (((htr1.trans htr2).trans htr3).trans htr4) trivial ?_
      rintro x x4 hx hx4 ⟨x3, ⟨x2, ⟨x1, ⟨hx1, e1, hb⟩, hx2, e2⟩, hx3, e3, r3⟩, hx4e, e4⟩
      subst x3
      subst x2
      subst x1
      refine ⟨x4, ?_, AuxSame.rfl', Or.inl rfl, rfl, rfl⟩
      rw [← hb]
      simp only [Bool.not_true, Bool.false_eq_true, if_false, stepOf]
      rw [e1, ← e2, ← hcfg, r3, e4, ← e3]
      rfl
  · by_cases h2 : t.name = "body".toList ∨ t.name = "caption".toList ∨ t.name = "col".toList ∨ t.name = "colgroup".toList ∨
        t.name = "html".toList ∨ t.name = "tbody".toList ∨ t.name = "td".toList ∨ t.name = "tfoot".toList ∨
        t.name = "th".toList ∨ t.name = "thead".toList ∨ t.name = "tr".toList
    · have : (decide (t.name = "body".toList) || (decide (t.name = "caption".toList) || (decide (t.name = "col".toList) ||
          (decide (t.name = "colgroup".toList) || (decide (t.name = "html".toList) || (decide (t.name = "tbody".toList) ||
          (decide (t.name = "td".toList) || (decide (t.name = "tfoot".toList) || (decide (t.name = "th".toList) ||
          (decide (t.name = "thead".toList) || decide (t.name = "tr".toList))))))))))) = true := by
        rcases h2 with h | h | h | h | h | h | h | h | h | h | h <;> simp [h]
      simp +decide only [h1, this, if_true, if_false]
      exact pc_unexpected_err hm _ _
    · have h2' : (decide (t.name = "body".toList) || (decide (t.name = "caption".toList) || (decide (t.name = "col".toList) ||
          (decide (t.name = "colgroup".toList) || (decide (t.name = "html".toList) || (decide (t.name = "tbody".toList) ||
          (decide (t.name = "td".toList) || (decide (t.name = "tfoot".toList) || (decide (t.name = "th".toList) ||
          (decide (t.name = "thead".toList) || decide (t.name = "tr".toList))))))))))) = false := by
        simp only [not_or] at h2
        obtain ⟨a1, a2, a3, a4, a5, a6, a7, a8, a9, a10, a11⟩ := h2
        simp only [decide_eq_false a1, decide_eq_false a2, decide_eq_false a3, decide_eq_false a4, decide_eq_false a5,
          decide_eq_false a6, decide_eq_false a7, decide_eq_false a8, decide_eq_false a9, decide_eq_false a10,
          decide_eq_false a11, Bool.or_self]
      simp +decide only [h1, h2', if_false]
      by_cases h3 : t.name = "template".toList
      · simp +decide only [h3, if_true]
        refine pc_tokPost_congr (hhead (.tag t) rfl hwf s hm) ?_
        intro x hx
        simp only [stokOf, stokOfTag_end hk]
      · simp +decide only [h3, if_false]
        refine pc_seq (pc_unexpected hm) ?_
        rintro _ s1 c1 _ ⟨-, htr1⟩
        refine pc_conseq (tbl_pc_foster hbody (tok := .tag t) rfl hwf (by simp) htr1) ?_
        intro res s' c _ hp
        refine tokPost_congr hp ?_
        intro x hx
        simp only [stokOf, stokOfTag_end hk]


/-! ### `process_chars_in_table` -/

theorem tbl_absF_toText (s1 : State) (x : Aux) (h : s1.pendingTableText = []) :
    absF { s1 with origMode := some s1.mode, mode := .inTableText } x
      = { absF s1 x with pendingTableChars := [], originalMode := (absF s1 x).mode, mode := .inTableText } := by
  simp only [absF, absP, h, pendingChars]
  rfl

theorem tbl_tr_withMode {s s' : State} {calls : List Call} {R : Aux → Aux → Prop} (h : Tr s s' calls R) (m : Mode) :
    Tr s { s' with mode := m } calls R := by
  obtain ⟨hm, hc, he, ids, hfi, f⟩ := h
  refine ⟨hm.withMode m, hc, he, ids, hfi, fun x rest hx hs => ?_⟩
  obtain ⟨x', l, r⟩ := f x rest hx hs
  exact ⟨x', ⟨l.aux.withMode m, l.supply, l.switch, l.script, l.outs, l.log⟩, r⟩

/-- the two branches of `process_chars_in_table` -/
theorem tbl_pc_processChars {tok : Token} {s : State} (hm : MInv s) {Q : ProcessResult → State → List Call → Prop}
    (htext : ∀ s1 c1, Tr s s1 c1 (fun x x' => x' = x ∧ absF s x = absF s1 x ∧
        (absF s x).curIn ["table", "tbody", "template", "tfoot", "thead", "tr"] = true) → s1.pendingTableText = [] →
      Q (.reprocess .inTableText tok) { s1 with origMode := some s1.mode } c1)
    (hfoster : ∀ s1 c1, Tr s s1 c1 (fun x x' => x' = x ∧ absF s x = absF s1 x ∧
        (absF s x).curIn ["table", "tbody", "template", "tfoot", "thead", "tr"] = false) →
      PC (fosterParentInBody tok) s1 (fun r s2 c2 => Q r s2 (c1 ++ c2))) :
    PC (processCharsInTable tok) s Q := by
  simp only [processCharsInTable]
  refine pc_seq (pc_currentNodeIn_tableOuterChars hm) ?_
  rintro b s1 c1 _ htr1
  cases b with
  | true =>
    simp only [if_true]
    refine pc_getS_bind ?_
    cases hp : s1.pendingTableText with
    | cons a r =>
      simp only [List.isEmpty_cons, Bool.not_false, if_true]
      exact pc_bind pc_panicAt
    | nil =>
      simp only [List.isEmpty_nil, Bool.not_true, Bool.false_eq_true, if_false]
      refine pc_seq (pc_modS (Q := fun _ s2 c => s2 = { s1 with origMode := some s1.mode } ∧ c = []) rfl rfl ⟨rfl, rfl⟩) ?_
      rintro _ s2 c2 _ ⟨rfl, rfl⟩
      refine pc_pure ?_
      rw [List.append_nil, List.append_nil]
      exact htext s1 c1 (htr1.conseq fun x x' _ _ ⟨h1, h2, h3⟩ => ⟨h1, h2, h3.symm⟩) hp
  | false =>
    simp only [Bool.false_eq_true, if_false]
    refine pc_seq (pc_parseError htr1.1 _) ?_
    rintro _ s2 c2 _ htr2
    have htr : Tr s s2 (c1 ++ c2) (fun x x' => x' = x ∧ absF s x = absF s2 x ∧
        (absF s x).curIn ["table", "tbody", "template", "tfoot", "thead", "tr"] = false) :=
      (htr1.trans htr2).conseq (by
        rintro x x2 _ _ ⟨x1, ⟨hx1, e1, hb⟩, hx2, e2⟩
        subst x2; subst x1
        exact ⟨rfl, e1.trans e2, hb.symm⟩)
    have := hfoster s2 (c1 ++ c2) htr
    simp only [List.append_assoc] at this
    exact this

/-- the stretch of the branch "switch to in table text" -/
theorem tbl_tr_toText {s s1 : State} {c1 : List Call} (c : Char)
    (htr1 : Tr s s1 c1 (fun x x' => x' = x ∧ absF s x = absF s1 x ∧
        (absF s x).curIn ["table", "tbody", "template", "tfoot", "thead", "tr"] = true))
    (hp : s1.pendingTableText = []) :
    Tr s { s1 with origMode := some s1.mode } c1 (fun x x' =>
      Spec.TreeModes.inTable (cfgOf s) (absF s x) (.character c)
        = .ok (.reprocess (absF { s1 with origMode := some s1.mode, mode := .inTableText } x'))) := by
  have h2 : Tr s1 { s1 with origMode := some s1.mode } [] (fun x x' => x' = x) :=
    Tr.of_upd (s' := { s1 with origMode := some s1.mode }) htr1.1 rfl (fun _ h => h)
      (MInv.of_fields htr1.1 (TBSafe.Ext.refl _) rfl rfl rfl rfl rfl) rfl
  have h := htr1.trans h2
  rw [List.append_nil] at h
  refine h.conseq ?_
  rintro x x2 _ _ ⟨x1, ⟨hx1, e1, hb⟩, hx2⟩
  subst x2
  subst x1
  rw [inTable_char_text c hb, tbl_absF_toText s1 x hp, e1]
  rfl

/-- what a stretch says about the current node holds for every `Aux` -/
theorem tbl_tr_curIn {s s1 : State} {c1 : List Call} {b : Bool} {l : List String} (hm : MInv s)
    (h : Tr s s1 c1 (fun x x' => x' = x ∧ absF s x = absF s1 x ∧ (absF s x).curIn l = b)) :
    ∀ x, AuxOk s x → (absF s x).curIn l = b := by
  obtain ⟨-, -, -, ids, hfi, f⟩ := h
  obtain ⟨x0, hx0, hsup⟩ := tbl_auxOk_exists hm ids
  obtain ⟨x', _, -, -, r⟩ := f x0 [] hx0 (by simp [hsup])
  intro x hx
  rw [← r]
  unfold Spec.TreeModes.State.curIn
  rw [absF_cur hx, absF_cur hx0]

theorem sim_inTable (hhead : StepSimTok stepInHead Spec.TreeModes.inHead)
    (hbody : StepSimTok stepInBody Spec.TreeModes.inBody) (tok : Token) (hch : isCharsTok tok = false) (hwf : TokWf tok)
    (s : State) (hm : MInv s) :
    PC (stepInTable tok) s (TokPost (fun σ => Spec.TreeModes.inTable (cfgOf s) σ (stokOf tok)) s tok) := by
  have htm : s.templateModes.getLast? ≠ some .inTableText := tbl_htm hm
  cases tok with
  | chars st text => cases hch
  | comment text =>
    simp only [stepInTable]
    refine pc_conseq (pc_appendComment' hm text) ?_
    rintro r s' calls _ ⟨rfl, htr⟩
    refine tokPost_of_tr htr trivial ?_
    intro x x' hx hx' hr
    refine ⟨x', ?_, AuxSame.rfl', Or.inl rfl, rfl, rfl⟩
    simp only [stokOf, Spec.TreeModes.inTable, hr]
    rfl
  | eof =>
    simp only [stepInTable]
    refine pc_tokPost_congr (hbody .eof rfl hwf s hm) ?_
    intro x hx
    simp only [stokOf, Spec.TreeModes.inTable]
  | nullChar =>
    simp only [stepInTable]
    refine tbl_pc_processChars hm ?_ ?_
    · intro s1 c1 htr1 hp
      exact tokPost_of_tr (tbl_tr_toText '\x00' htr1 hp) rfl
        (fun x x' _ _ r => ⟨x', r, AuxSame.rfl', Or.inl rfl, rfl, rfl⟩)
    · intro s1 c1 htr1
      refine pc_conseq (tbl_pc_foster hbody (tok := .nullChar) rfl hwf (by simp)
        (htr1.conseq fun x x' _ _ ⟨h1, h2, _⟩ => ⟨h1, h2⟩)) ?_
      intro res s' c _ hp
      refine tokPost_congr hp ?_
      intro x hx
      exact inTable_char_foster _ (tbl_tr_curIn hm htr1 x hx)
  | tag t =>
    cases hk : t.kind with
    | startTag => exact sim_inTable_start hhead hbody t hwf hk s hm htm
    | endTag => exact sim_inTable_end hhead hbody t hwf hk s hm htm


theorem modeSim_inTable (hhead : StepSimTok stepInHead Spec.TreeModes.inHead)
    (hbody : StepSimTok stepInBody Spec.TreeModes.inBody) : ModeSim .inTable := by
  intro tok hch hwf s _ hm hmode _
  refine pc_tokPost_congr (sim_inTable hhead hbody tok hch hwf s hm) ?_
  intro x hx
  exact byModeDev_inTable (by show imode s.mode = _; rw [hmode]; rfl) _

end H5V.Lemmas.HtmlTBModes
