import H5V.Lemmas.HtmlTBSkelShapeClone
/-!
C06, third invariant layer (adjacent text), part 5: `maybe_clone_an_option_into_selectedcontent`.

The copies are new nodes.  Through the cloning (`cloneFixed`, as repaired) the region of new nodes
(`b ≤ id`) keeps `CJ`: its child lists hold new nodes only, which point back to their parent; the lists
have no duplicates and no two adjacent text nodes — the last because the text/non-text pattern of a
copy's child list is a prefix of the pattern of the original's list.  Old child lists are untouched,
except that of the `selectedcontent` element, which is replaced by the list of the (new) copies of the
option's children.  `AdjD.graft` turns this into the invariant.
-/
namespace H5V.Props.C06
open H5V.Model.Dom hiding Str
open H5V.Model.HtmlTB hiding Str
open H5V.Lemmas.Dom

/-! ### lists -/

theorem noAdj_of_map_eq {f g : Id → Bool} : ∀ {l l' : List Id}, l.map f = l'.map g → noAdj f l = noAdj g l'
  | [], [], _ => rfl
  | [], _ :: _, h => by simp at h
  | _ :: _, [], h => by simp at h
  | [a], [a'], _ => rfl
  | [a], _ :: _ :: _, h => by simp at h
  | _ :: _ :: _, [a'], h => by simp at h
  | a :: b :: t, a' :: b' :: t', h => by
    simp only [List.map_cons, List.cons.injEq] at h
    obtain ⟨h1, h2, h3⟩ := h
    have ih : noAdj f (b :: t) = noAdj g (b' :: t') := noAdj_of_map_eq (by simp [h2, h3])
    simp only [noAdj, h1, h2, ih]

theorem noAdj_prefix {f : Id → Bool} {l1 l2 : List Id} (h : noAdj f (l1 ++ l2) = true) : noAdj f l1 = true := by
  rw [noAdj_append] at h
  simp only [Bool.and_eq_true] at h
  exact h.1.1

/-! ### the graft -/

/-- the arena grew: old nodes keep their data; a child list that holds an old node is unchanged; the
new arena has no adjacent text siblings, children point to their parents, lists have no duplicates -/
theorem AdjD.graft {d d' : Dom} {O : List Id} (h : AdjD d O) (hkv : ∀ P x, x ∈ d.childrenOf P → x < d.size)
    (hO : ∀ e ∈ O, e < d.size) (hdata : ∀ x, x < d.size → d'.dataOf x = d.dataOf x)
    (hkeep : ∀ P x, x ∈ d'.childrenOf P → x < d.size → d'.childrenOf P = d.childrenOf P)
    (hnat : NoAdjacentText d') (hlk : ∀ P e, e ∈ d'.childrenOf P → d'.parentOf e = some P)
    (hnd : ∀ P, (d'.childrenOf P).Nodup) : AdjD d' O := by
  have hnm : ∀ e ∈ O, nm d' e = nm d e := fun e he => nm_of_data (hdata e (hO e he))
  refine ⟨hnat, hlk, hnd, ?_, ?_, ?_, ?_⟩
  · intro e he hx P l1 l2 hc
    rw [hnm e he] at hx
    have hk := hkeep P e (by rw [hc]; simp) (hO e he)
    rw [hk] at hc
    have := h.ol e he hx P l1 l2 hc
    cases l2 with
    | nil => rfl
    | cons y t =>
      have hy : y < d.size := hkv P y (by rw [hc]; simp)
      simp only [headT, List.head?_cons] at this ⊢
      rw [isText_of_data (hdata y hy)]; exact this
  · intro P e he heO hP
    have hk := hkeep P e he (hO e heO)
    rw [hk] at he
    exact h.pb P e he heO hP
  · intro T tc e htc hT0 he heO hT
    rw [hnm T hT] at hT0
    rw [tc_of_data (hdata T (hO T hT))] at htc
    have hk := hkeep tc e he (hO e heO)
    rw [hk] at he
    exact h.pbt T tc e htc hT0 he heO hT
  · intro P x y hb hxO hyO hxx hyt
    rw [hnm x hxO] at hxx
    rw [hnm y hyO] at hyt
    have hk := hkeep P x hb.mem.1 (hO x hxO)
    rw [hk] at hb
    exact h.tb P x y hb hxO hyO hxx hyt

/-! ### the region of new nodes -/

structure CJ (b : Nat) (d : Dom) : Prop where
  mem : ∀ q, b ≤ q → ∀ c ∈ d.childrenOf q, b ≤ c ∧ d.parentOf c = some q
  nd : ∀ q, b ≤ q → (d.childrenOf q).Nodup
  nat : ∀ q, b ≤ q → noAdj d.isText (d.childrenOf q) = true

/-- the old nodes, the sources of the copies -/
structure SRC (b : Nat) (d : Dom) : Prop where
  nat : ∀ q, q < b → noAdj d.isText (d.childrenOf q) = true
  kids : ∀ q, q < b → ∀ c ∈ d.childrenOf q, c < b
  tc : ∀ q, q < b → ∀ t, d.templateContentsOf q = some t → t < b

theorem SRC.frK {b : Nat} {d d' : Dom} (h : SRC b d) (hbs : b ≤ d.size) (hf : FrK d d' none) : SRC b d' := by
  have hk : ∀ q, q < b → d'.childrenOf q = d.childrenOf q := fun q hq =>
    hf.kids q (Nat.lt_of_lt_of_le hq hbs) (by simp)
  have hdat : ∀ x, x < b → d'.dataOf x = d.dataOf x := fun x hx => hf.data x (Nat.lt_of_lt_of_le hx hbs)
  refine ⟨fun q hq => ?_, fun q hq c hc => ?_, fun q hq t ht => ?_⟩
  · rw [hk q hq, noAdj_congr (fun x hx => isText_of_data (hdat x (h.kids q hq x hx)))]
    exact h.nat q hq
  · rw [hk q hq] at hc; exact h.kids q hq c hc
  · rw [tc_of_data (hdat q hq)] at ht; exact h.tc q hq t ht

theorem CJ.alloc {b : Nat} {d : Dom} (h : CJ b d) (hb : DomBase d) (v : NodeData) : CJ b (d.alloc v).1 := by
  refine ⟨fun q hq c hc => ?_, fun q hq => ?_, fun q hq => ?_⟩
  · rw [childrenOf_alloc] at hc
    rw [parentOf_alloc]; exact h.mem q hq c hc
  · rw [childrenOf_alloc]; exact h.nd q hq
  · rw [childrenOf_alloc]
    have hcg : noAdj (d.alloc v).1.isText (d.childrenOf q) = noAdj d.isText (d.childrenOf q) :=
      noAdj_congr (fun x hx => isText_of_data (by
        rw [dataOf_alloc, if_neg (Nat.ne_of_lt (hb.kidsValid q x hx))]))
    rw [hcg]; exact h.nat q hq

theorem CJ.appendRaw {b : Nat} {d d' : Dom} {p c : Id} (h : CJ b d) (e : d.appendRaw p c = .ok d') (hne : p ≠ c)
    (hp : b ≤ p) (hc : b ≤ c) (hnat : noAdj d.isText (d.childrenOf p ++ [c]) = true) : CJ b d' := by
  obtain ⟨cn, pn, hcn, hcpar, _, hpar, hk, hdat, _, _⟩ := appendRaw_ok e hne
  have hcp : d.parentOf c = none := by rw [parentOf_of_node hcn]; exact hcpar
  have hcq : ∀ q, b ≤ q → c ∉ d.childrenOf q := fun q hq hm => by
    have := (h.mem q hq c hm).2
    rw [hcp] at this; cases this
  have htx : ∀ x, d'.isText x = d.isText x := fun x => isText_of_data (hdat x)
  refine ⟨fun q hq x hx => ?_, fun q hq => ?_, fun q hq => ?_⟩
  · rw [hk] at hx
    rw [hpar]
    by_cases hqp : q = p
    · subst hqp
      simp only [if_true] at hx
      rcases List.mem_append.mp hx with h1 | h1
      · have hxc : x ≠ c := fun e => hcq q hq (e ▸ h1)
        simp only [hxc, if_false]
        exact h.mem q hq x h1
      · have : x = c := by simpa using h1
        subst this
        simp only [if_true]
        exact ⟨hc, trivial⟩
    · simp only [hqp, if_false] at hx
      have hxc : x ≠ c := fun e => hcq q hq (e ▸ hx)
      simp only [hxc, if_false]
      exact h.mem q hq x hx
  · rw [hk]
    by_cases hqp : q = p
    · subst hqp
      simp only [if_true]
      rw [List.nodup_append]
      exact ⟨h.nd q hq, by simp, by intro a ha b' hb'; simp at hb'; subst hb'; rintro rfl; exact hcq q hq ha⟩
    · simp only [hqp, if_false]; exact h.nd q hq
  · rw [hk, noAdj_congr (fun x _ => htx x)]
    by_cases hqp : q = p
    · subst hqp
      simp only [if_true]; exact hnat
    · simp only [hqp, if_false]; exact h.nat q hq

/-- `eraseTc`-equal data have the same text-ness -/
theorem isText_of_eraseTc {d d' : Dom} {x k : Id}
    (h : (d'.dataOf k).map eraseTc = (d.dataOf x).map eraseTc) : d'.isText k = d.isText x := by
  unfold Dom.isText
  cases h1 : d'.dataOf k with
  | none =>
    cases h2 : d.dataOf x with
    | none => rfl
    | some w => rw [h1, h2] at h; simp at h
  | some v =>
    cases h2 : d.dataOf x with
    | none => rw [h1, h2] at h; simp at h
    | some w =>
      rw [h1, h2] at h
      simp only [Option.map_some, Option.some.injEq] at h
      cases v <;> cases w <;> simp_all [eraseTc]

/-- the result of copying a subtree, with the facts the adjacency invariant needs -/
structure CR (b : Nat) (d d' : Dom) (x k : Id) : Prop where
  cs : CS d d' x k
  cj : CJ b d'
  src : SRC b d'
  kpar : d'.parentOf k = none
  pp : ∀ y, y < d.size → d'.parentOf y = d.parentOf y

/-- the loop that copies the children -/
theorem cloneKids_cr {b : Nat} {cl : Dom → Id → Except String (Dom × Id)}
    (hcl : ∀ d c d' k, DomBase d → b ≤ d.size → CJ b d → SRC b d → c < b → cl d c = .ok (d', k) → CR b d d' c k)
    {id : Id} (hid : b ≤ id) :
    ∀ (cs pre : List Id) (d d' : Dom), DomBase d → id < d.size → (cs ≠ [] → d.isContainer id = true) →
      (∀ c ∈ pre ++ cs, c < b ∧ d.dataOf c ≠ some .document) → CJ b d → SRC b d →
      noAdj d.isText (pre ++ cs) = true → (d.childrenOf id).map d.isText = pre.map d.isText →
      Dom.cloneKidsWith cl id d cs = .ok d' →
      DomBase d' ∧ FrK d d' (some id) ∧ CJ b d' ∧ SRC b d' ∧ (∀ y, y < d.size → d'.parentOf y = d.parentOf y) := by
  intro cs
  induction cs with
  | nil =>
    intro pre d d' hb _ _ _ hcj hsrc _ _ h
    simp [Dom.cloneKidsWith] at h
    subst h
    exact ⟨hb, FrK.refl _ _, hcj, hsrc, fun _ _ => rfl⟩
  | cons c cs ih =>
    intro pre d d' hb hidlt hcont hcs hcj hsrc hnat hpat h
    simp only [Dom.cloneKidsWith, bind, Except.bind] at h
    cases h1 : cl d c with
    | error e => simp [h1] at h
    | ok r =>
      obtain ⟨d1, k⟩ := r
      simp only [h1] at h
      have hbs : b ≤ d.size := Nat.le_of_lt (Nat.lt_of_le_of_lt hid hidlt)
      have hcb : c < b := (hcs c (by simp)).1
      have cr1 := hcl d c d1 k hb hbs hcj hsrc hcb h1
      have cs1 := cr1.cs
      cases h2 : d1.appendRaw id k with
      | error e => simp [h2] at h
      | ok d2 =>
        simp only [h2] at h
        have hidc : d1.isContainer id = true := cs1.fr.chg.isContainer (hcont (by simp))
        have hknd : d1.dataOf k ≠ some .document := not_doc_of_eraseTc cs1.data (hcs c (by simp)).2
        obtain ⟨hb2, hchg2, _, _⟩ := append_node_spec cs1.base hidc hknd (by rw [append_node_eq]; exact h2)
        have hf12 : FrK d d2 (some id) := cs1.fr.weaken.trans (frK_appendRaw h2)
        have hne : id ≠ k := by
          intro e; rw [e] at hidlt; exact Nat.lt_irrefl _ (Nat.lt_of_lt_of_le hidlt cs1.fresh)
        have hkb : b ≤ k := Nat.le_trans hbs cs1.fresh
        -- text-ness of old nodes is stable
        have htx1 : ∀ y, y < d.size → d1.isText y = d.isText y := fun y hy => isText_of_data (cs1.fr.data y hy)
        have hold : ∀ y ∈ pre ++ c :: cs, y < d.size := fun y hy => Nat.lt_of_lt_of_le (hcs y hy).1 hbs
        have hk1id : d1.childrenOf id = d.childrenOf id := cs1.fr.kids id hidlt (by simp)
        -- the pattern of the list with the new copy
        have hpat1 : (d1.childrenOf id ++ [k]).map d1.isText = (pre ++ [c]).map d.isText := by
          rw [List.map_append, List.map_append, hk1id]
          have : (d.childrenOf id).map d1.isText = (d.childrenOf id).map d.isText :=
            List.map_congr_left (fun y hy => htx1 y (hb.kidsValid id y hy))
          rw [this, hpat]
          simp only [List.map_cons, List.map_nil, List.append_cancel_left_eq, List.cons.injEq, and_true]
          exact isText_of_eraseTc cs1.data
        have hnat1 : noAdj d1.isText (d1.childrenOf id ++ [k]) = true := by
          rw [noAdj_of_map_eq hpat1]
          have : pre ++ c :: cs = (pre ++ [c]) ++ cs := by simp
          rw [this] at hnat
          exact noAdj_prefix hnat
        have hcj2 : CJ b d2 := cr1.cj.appendRaw h2 hne hid hkb hnat1
        obtain ⟨cn, pn, _, _, _, hpar2, hk2, hdat2, hsz2, _⟩ := appendRaw_ok h2 hne
        have hf2n : FrK d1 d2 (some id) := frK_appendRaw h2
        have hsrc2 : SRC b d2 := by
          have hbs1 : b ≤ d1.size := Nat.le_trans hbs cs1.fr.size
          have hk : ∀ q, q < b → d2.childrenOf q = d1.childrenOf q := fun q hq => by
            rw [hk2]
            have : q ≠ id := fun e => Nat.lt_irrefl _ (Nat.lt_of_lt_of_le (e ▸ hq) hid)
            simp [this]
          refine ⟨fun q hq => ?_, fun q hq x hx => ?_, fun q hq t ht => ?_⟩
          · rw [hk q hq, noAdj_congr (fun x _ => isText_of_data (hdat2 x))]
            exact cr1.src.nat q hq
          · rw [hk q hq] at hx; exact cr1.src.kids q hq x hx
          · rw [tc_of_data (hdat2 q)] at ht; exact cr1.src.tc q hq t ht
        have htx2 : ∀ y, y < d.size → d2.isText y = d.isText y := fun y hy => by
          rw [isText_of_data (hdat2 y)]; exact htx1 y hy
        have hnat2 : noAdj d2.isText ((pre ++ [c]) ++ cs) = true := by
          rw [noAdj_congr (fun y hy => htx2 y (hold y (by simpa using hy)))]
          have : (pre ++ [c]) ++ cs = pre ++ c :: cs := by simp
          rw [this]; exact hnat
        have hpat2 : (d2.childrenOf id).map d2.isText = (pre ++ [c]).map d2.isText := by
          have h1' : d2.childrenOf id = d1.childrenOf id ++ [k] := by rw [hk2]; simp
          rw [h1']
          have h2' : (d1.childrenOf id ++ [k]).map d2.isText = (d1.childrenOf id ++ [k]).map d1.isText :=
            List.map_congr_left (fun y _ => isText_of_data (hdat2 y))
          rw [h2', hpat1]
          exact (List.map_congr_left (fun y hy => htx2 y (hold y (by
            simp only [List.mem_append, List.mem_singleton, List.mem_cons] at hy ⊢
            rcases hy with hy | hy
            · exact Or.inl hy
            · exact Or.inr (Or.inl (by simpa using hy)))))).symm
        obtain ⟨hb', hf', hcj', hsrc', hpp'⟩ := ih (pre ++ [c]) d2 d' hb2 (Nat.lt_of_lt_of_le hidlt hf12.size)
          (fun _ => hchg2.isContainer hidc)
          (by
            intro c' hc'
            have hc'' : c' ∈ pre ++ c :: cs := by simpa using hc'
            obtain ⟨h1', h2'⟩ := hcs c' hc''
            exact ⟨h1', by rw [hf12.data c' (Nat.lt_of_lt_of_le h1' hbs)]; exact h2'⟩)
          hcj2 hsrc2 hnat2 hpat2 h
        refine ⟨hb', hf12.trans hf', hcj', hsrc', fun y hy => ?_⟩
        rw [hpp' y (Nat.lt_of_lt_of_le hy hf12.size), hpar2]
        have : y ≠ k := fun e => Nat.lt_irrefl _ (Nat.lt_of_lt_of_le (e ▸ hy) cs1.fresh)
        simp only [this, if_false]
        exact cr1.pp y hy


theorem SRC.alloc {b : Nat} {d : Dom} (h : SRC b d) (hbs : b ≤ d.size) (v : NodeData) : SRC b (d.alloc v).1 :=
  h.frK hbs (frK_alloc d v)

/-- second half of `clone_with_subtree`: allocate the copy, copy the children below it -/
theorem clone_stage_cr {b : Nat} {cl : Dom → Id → Except String (Dom × Id)}
    (hclCS : ∀ d c d' k, DomBase d → cl d c = .ok (d', k) → CS d d' c k)
    (hcl : ∀ d c d' k, DomBase d → b ≤ d.size → CJ b d → SRC b d → c < b → cl d c = .ok (d', k) → CR b d d' c k)
    {d d1 d3 : Dom} {x : Id} {n : Node} {data : NodeData} (hb : DomBase d) (hn : d.node? x = some n) (hxb : x < b)
    (hb1 : DomBase d1) (hf1 : FrK d d1 none) (hbs : b ≤ d.size) (hsrc : SRC b d) (hcj1 : CJ b d1) (hsrc1 : SRC b d1)
    (hpp1 : ∀ y, y < d.size → d1.parentOf y = d.parentOf y)
    (hdat : eraseTc data = eraseTc n.data)
    (htc : ∀ nm a tc ip, data = .element nm a (some tc) ip → tc ≠ 0 ∧ d1.dataOf tc = some .document)
    (hk : Dom.cloneKidsWith cl d1.size (d1.alloc data).1 n.children = .ok d3) : CR b d d3 x d1.size := by
  have hcs0 := clone_stage hclCS hb hn hb1 hf1 hdat htc hk
  have hb2 : DomBase (d1.alloc data).1 := by
    refine hb1.alloc data ⟨?_, htc⟩
    intro t ht
    subst ht
    have : n.data = .text t := by
      cases hnd : n.data <;> simp [hnd, eraseTc] at hdat
      rw [hdat]
    exact hb.textNe x t (by rw [dataOf_of_node hn, this])
  have hidc : n.children ≠ [] → (d1.alloc data).1.isContainer d1.size = true := by
    intro hne
    have hc := hb.cont x (by rw [childrenOf_of_node hn]; exact hne)
    unfold Dom.isContainer at hc ⊢
    rw [dataOf_alloc]
    simp only [if_true]
    rw [dataOf_of_node hn] at hc
    cases hnd : n.data <;> simp [hnd] at hc <;> cases data <;> simp [hnd, eraseTc] at hdat <;> rfl
  have hbs1 : b ≤ d1.size := Nat.le_trans hbs hf1.size
  have hcs : ∀ c ∈ [] ++ n.children, c < b ∧ (d1.alloc data).1.dataOf c ≠ some .document := by
    intro c hc
    have hcx : c ∈ d.childrenOf x := by rw [childrenOf_of_node hn]; simpa using hc
    have hlt := hb.kidsValid x c hcx
    have hlt1 : c < d1.size := Nat.lt_of_lt_of_le hlt hf1.size
    refine ⟨hsrc.kids x hxb c hcx, ?_⟩
    rw [dataOf_alloc]
    simp only [Nat.ne_of_lt hlt1, if_false]
    rw [hf1.data c hlt]
    exact hb.kidNotDoc x c hcx
  have hs2 : (d1.alloc data).1.size = d1.size + 1 := size_alloc _ _
  have hsrc2 : SRC b (d1.alloc data).1 := hsrc1.alloc hbs1 data
  have hkx : (d1.alloc data).1.childrenOf x = n.children := by
    rw [childrenOf_alloc, hf1.kids x (Nat.lt_of_lt_of_le hxb hbs) (by simp), childrenOf_of_node hn]
  obtain ⟨_, _, hcj3, hsrc3, hpp3⟩ := cloneKids_cr hcl (id := d1.size) hbs1 n.children [] _ _ hb2
    (by rw [hs2]; exact Nat.lt_succ_self _) hidc hcs (hcj1.alloc hb1 data) hsrc2
    (by have := hsrc2.nat x hxb; rw [hkx] at this; simpa using this)
    (by rw [childrenOf_alloc, childrenOf_nil_of_ge (Nat.le_refl _)]) hk
  refine ⟨hcs0, hcj3, hsrc3, ?_, fun y hy => ?_⟩
  · rw [hpp3 d1.size (by rw [hs2]; exact Nat.lt_succ_self _), parentOf_alloc]
    exact parentOf_none_of_ge (Nat.le_refl _)
  · have hy1 : y < d1.size := Nat.lt_of_lt_of_le hy hf1.size
    rw [hpp3 y (by rw [hs2]; exact Nat.lt_succ_of_lt hy1), parentOf_alloc]
    exact hpp1 y hy

theorem cloneFixed_cr (b : Nat) : ∀ (fuel : Nat) (d : Dom) (x : Id) (d' : Dom) (k : Id), DomBase d → b ≤ d.size →
    CJ b d → SRC b d → x < b → Dom.cloneFixed d fuel x = .ok (d', k) → CR b d d' x k := by
  intro fuel
  induction fuel with
  | zero => intro d x d' k _ _ _ _ _ h; simp [Dom.cloneFixed] at h
  | succ fuel ih =>
    intro d x d' k hb hbs hcj hsrc hxb h
    simp only [Dom.cloneFixed, bind, Except.bind] at h
    cases hg : d.get x with
    | error e => simp [hg] at h
    | ok n =>
      have hn := get_ok.mp hg
      simp only [hg] at h
      have hclCS : ∀ d c d' k, DomBase d → (fun d c => Dom.cloneFixed d fuel c) d c = .ok (d', k) → CS d d' c k :=
        fun d c d' k hb h => cloneFixed_frame fuel d c d' k hb h
      have hcl : ∀ d c d' k, DomBase d → b ≤ d.size → CJ b d → SRC b d → c < b →
          (fun d c => Dom.cloneFixed d fuel c) d c = .ok (d', k) → CR b d d' c k :=
        fun d c d' k hb hbs hcj hsrc hcb h => ih d c d' k hb hbs hcj hsrc hcb h
      cases hnd : n.data with
      | element nm a tco ip =>
        cases tco with
        | some tc =>
          simp only [hnd] at h
          cases h1 : Dom.cloneFixed d fuel tc with
          | error e => simp [h1] at h
          | ok r =>
            obtain ⟨d1, tc'⟩ := r
            simp only [h1, pure, Except.pure] at h
            have htcb : tc < b := hsrc.tc x hxb tc (by unfold Dom.templateContentsOf; rw [dataOf_of_node hn, hnd])
            have cr1 := ih d tc d1 tc' hb hbs hcj hsrc htcb h1
            have cs1 := cr1.cs
            cases hk : Dom.cloneKidsWith (fun d c => Dom.cloneFixed d fuel c) d1.size
                (d1.alloc (.element nm a (some tc') ip)).1 n.children with
            | error e =>
              have : (d1.alloc (.element nm a (some tc') ip)).2 = d1.size := rfl
              simp [this, hk] at h
            | ok d3 =>
              have : (d1.alloc (.element nm a (some tc') ip)).2 = d1.size := rfl
              simp only [this, hk, Except.ok.injEq, Prod.mk.injEq] at h
              obtain ⟨rfl, rfl⟩ := h
              refine clone_stage_cr hclCS hcl hb hn hxb cs1.base cs1.fr hbs hsrc cr1.cj cr1.src cr1.pp
                (by rw [hnd]; rfl) ?_ hk
              intro nm2 a2 tc2 ip2 he
              cases he
              have htcd : d.dataOf tc = some .document :=
                (hb.tcOk x tc (by unfold Dom.templateContentsOf; rw [dataOf_of_node hn, hnd])).2
              refine ⟨Nat.ne_of_gt (Nat.lt_of_lt_of_le hb.size_pos cs1.fresh), ?_⟩
              have := cs1.data
              rw [htcd] at this
              cases hd' : d1.dataOf tc' with
              | none => simp [hd'] at this
              | some v =>
                simp only [hd', Option.map_some, Option.some.injEq] at this
                rw [eraseTc_document this]
        | none =>
          simp only [hnd, pure, Except.pure] at h
          cases hk : Dom.cloneKidsWith (fun d c => Dom.cloneFixed d fuel c) d.size
              (d.alloc (.element nm a none ip)).1 n.children with
          | error e =>
            have : (d.alloc (.element nm a none ip)).2 = d.size := rfl
            simp [this, hk] at h
          | ok d3 =>
            have : (d.alloc (.element nm a none ip)).2 = d.size := rfl
            simp only [this, hk, Except.ok.injEq, Prod.mk.injEq] at h
            obtain ⟨rfl, rfl⟩ := h
            exact clone_stage_cr hclCS hcl hb hn hxb hb (FrK.refl _ _) hbs hsrc hcj hsrc (fun _ _ => rfl)
              (by rw [hnd]) (by intro _ _ _ _ he; cases he) hk
      | document | doctype _ _ _ | comment _ | text _ | pi _ _ =>
        simp only [hnd, pure, Except.pure] at h
        cases hk : Dom.cloneKidsWith (fun d c => Dom.cloneFixed d fuel c) d.size
            (d.alloc n.data).1 n.children with
        | error e =>
          have : (d.alloc n.data).2 = d.size := rfl
          rw [hnd] at hk this
          simp [this, hk] at h
        | ok d3 =>
          have : (d.alloc n.data).2 = d.size := rfl
          rw [hnd] at hk this
          simp only [this, hk, Except.ok.injEq, Prod.mk.injEq] at h
          obtain ⟨rfl, rfl⟩ := h
          exact clone_stage_cr hclCS hcl hb hn hxb hb (FrK.refl _ _) hbs hsrc hcj hsrc (fun _ _ => rfl)
            (by rw [hnd]) (by intro _ _ _ _ he; cases he) hk


/-- step 2 of the mirror: the list of copies -/
theorem cloneList_cr {b : Nat} {cl : Dom → Id → Except String (Dom × Id)}
    (hcl : ∀ d c d' k, DomBase d → b ≤ d.size → CJ b d → SRC b d → c < b → cl d c = .ok (d', k) → CR b d d' c k) :
    ∀ (cs : List Id) (d d' : Dom) (ks : List Id), DomBase d → b ≤ d.size → CJ b d → SRC b d →
      (∀ c ∈ cs, c < b ∧ d.dataOf c ≠ some .document) → Dom.cloneListWith cl d cs = .ok (d', ks) →
      DomBase d' ∧ FrK d d' none ∧ CJ b d' ∧ SRC b d' ∧ (∀ y, y < d.size → d'.parentOf y = d.parentOf y) ∧
        (∀ k ∈ ks, d.size ≤ k ∧ k < d'.size ∧ d'.parentOf k = none) ∧ ks.Nodup ∧
        ks.map d'.isText = cs.map d.isText := by
  intro cs
  induction cs with
  | nil =>
    intro d d' ks hb _ hcj hsrc _ h
    simp [Dom.cloneListWith] at h
    obtain ⟨rfl, rfl⟩ := h
    exact ⟨hb, FrK.refl _ _, hcj, hsrc, fun _ _ => rfl, (by intro k hk; cases hk), List.nodup_nil, rfl⟩
  | cons c cs ih =>
    intro d d' ks hb hbs hcj hsrc hcs h
    simp only [Dom.cloneListWith, bind, Except.bind] at h
    cases h1 : cl d c with
    | error e => simp [h1] at h
    | ok r =>
      obtain ⟨d1, k⟩ := r
      simp only [h1] at h
      have cr1 := hcl d c d1 k hb hbs hcj hsrc (hcs c (by simp)).1 h1
      have cs1 := cr1.cs
      cases h2 : Dom.cloneListWith cl d1 cs with
      | error e => simp [h2] at h
      | ok r2 =>
        obtain ⟨d2, ks2⟩ := r2
        simp only [h2, Except.ok.injEq, Prod.mk.injEq] at h
        obtain ⟨rfl, rfl⟩ := h
        have hbs1 : b ≤ d1.size := Nat.le_trans hbs cs1.fr.size
        obtain ⟨hb2, hf2, hcj2, hsrc2, hpp2, hks, hnd2, hpat2⟩ := ih d1 d2 ks2 cs1.base hbs1 cr1.cj cr1.src (by
          intro c' hc'
          obtain ⟨h1', h2'⟩ := hcs c' (List.mem_cons_of_mem _ hc')
          exact ⟨h1', by rw [cs1.fr.data c' (Nat.lt_of_lt_of_le h1' hbs)]; exact h2'⟩) h2
        refine ⟨hb2, cs1.fr.trans hf2, hcj2, hsrc2, fun y hy => ?_, ?_, ?_, ?_⟩
        · rw [hpp2 y (Nat.lt_of_lt_of_le hy cs1.fr.size)]; exact cr1.pp y hy
        · intro k' hk'
          simp only [List.mem_cons] at hk'
          rcases hk' with rfl | hk'
          · exact ⟨cs1.fresh, Nat.lt_of_lt_of_le cs1.valid hf2.size, by rw [hpp2 k' cs1.valid]; exact cr1.kpar⟩
          · exact ⟨Nat.le_trans cs1.fr.size (hks k' hk').1, (hks k' hk').2.1, (hks k' hk').2.2⟩
        · rw [List.nodup_cons]
          refine ⟨fun hm => ?_, hnd2⟩
          exact Nat.lt_irrefl _ (Nat.lt_of_lt_of_le cs1.valid (hks k hm).1)
        · simp only [List.map_cons, List.cons.injEq]
          refine ⟨?_, ?_⟩
          · rw [isText_of_data (hf2.data k cs1.valid)]; exact isText_of_eraseTc cs1.data
          · rw [hpat2]
            exact List.map_congr_left (fun c' hc' =>
              isText_of_data (cs1.fr.data c' (Nat.lt_of_lt_of_le (hcs c' (List.mem_cons_of_mem _ hc')).1 hbs)))

theorem attachAll_eff2 {p : Id} : ∀ (ks : List Id) (d d' : Dom), (∀ k ∈ ks, p ≠ k) → d.attachAll p ks = .ok d' →
    (∀ k ∈ ks, d'.parentOf k = some p) ∧ (∀ x, d'.dataOf x = d.dataOf x) := by
  intro ks
  induction ks with
  | nil =>
    intro d d' _ h
    simp [Dom.attachAll] at h; subst h
    exact ⟨fun k hk => (by cases hk), fun _ => rfl⟩
  | cons k ks ih =>
    intro d d' hne h
    simp only [Dom.attachAll, bind, Except.bind] at h
    cases h1 : d.appendRaw p k with
    | error e => simp [h1] at h
    | ok d1 =>
      simp only [h1] at h
      obtain ⟨_, _, _, _, _, hpar, _, hdat, _, _⟩ := appendRaw_ok h1 (hne k (by simp))
      have hne' : ∀ k' ∈ ks, p ≠ k' := fun k' hk' => hne k' (List.mem_cons_of_mem _ hk')
      obtain ⟨i1, i2⟩ := ih d1 d' hne' h
      obtain ⟨j1, _⟩ := attachAll_eff ks d1 d' hne' h
      refine ⟨fun k' hk' => ?_, fun x => (i2 x).trans (hdat x)⟩
      by_cases hm : k' ∈ ks
      · exact i1 k' hm
      · have : k' = k := by
          rcases List.mem_cons.mp hk' with h0 | h0
          · exact h0
          · exact absurd h0 hm
        subst this
        rw [j1 k' hm, hpar]; simp

/-- the copy into the `selectedcontent` element keeps the adjacency invariant -/
theorem cloneOptionInto_adj {d d' : Dom} {o sc : Id} {O : List Id} (hb : DomBase d) (hadj : AdjD d O)
    (hO : ∀ e ∈ O, e < d.size) (hsc : d.isContainer sc = true)
    (h : d.cloneOptionInto .fixed o sc = .ok d') : AdjD d' O := by
  unfold Dom.cloneOptionInto at h
  simp only [bind, Except.bind] at h
  cases ho : d.get o with
  | error e => simp [ho] at h
  | ok on =>
    simp only [ho] at h
    cases h1 : Dom.cloneListWith (fun d c => Dom.cloneFixed d (d.size + 1) c) d on.children with
    | error e => simp [h1] at h
    | ok res =>
      obtain ⟨d1, frag⟩ := res
      simp only [h1] at h
      have hon := get_ok.mp ho
      have hko : d.childrenOf o = on.children := childrenOf_of_node hon
      have hcj0 : CJ d.size d := by
        refine ⟨fun q hq c hc => ?_, fun q hq => ?_, fun q hq => ?_⟩
        · rw [childrenOf_of_size_le hq] at hc; cases hc
        · rw [childrenOf_of_size_le hq]; exact List.nodup_nil
        · rw [childrenOf_of_size_le hq]; rfl
      have hsrc0 : SRC d.size d :=
        ⟨fun q _ => hadj.nat q, fun q _ c hc => hb.kidsValid q c hc, fun q _ t ht => lt_of_data (hb.tcOk q t ht).2⟩
      have hcs : ∀ c ∈ on.children, c < d.size ∧ d.dataOf c ≠ some .document := by
        intro c hc
        have hcx : c ∈ d.childrenOf o := by rw [hko]; exact hc
        exact ⟨hb.kidsValid o c hcx, hb.kidNotDoc o c hcx⟩
      obtain ⟨hb1, hf1, hcj1, hsrc1, hpp1, hks, hndf, hpatf⟩ := cloneList_cr (b := d.size)
        (fun d0 c d0' k hb0 hbs0 hcj0' hsrc0' hcb h0 => cloneFixed_cr d.size _ d0 c d0' k hb0 hbs0 hcj0' hsrc0' hcb h0)
        _ _ _ _ hb (Nat.le_refl _) hcj0 hsrc0 hcs h1
      cases h2 : d1.detachChildren sc with
      | error e => simp [h2] at h
      | ok d2 =>
        simp only [h2] at h
        obtain ⟨_, hp2, hk2, hd2, hs2⟩ := detachChildren_ok h2
        have hsclt : sc < d.size := lt_of_isContainer hsc
        have hne : ∀ k ∈ frag, sc ≠ k := by
          intro k hk e
          have := (hks k hk).1
          rw [← e] at this
          exact Nat.lt_irrefl _ (Nat.lt_of_lt_of_le hsclt this)
        obtain ⟨hp3, hk3⟩ := attachAll_eff frag d2 d' hne h
        obtain ⟨hpf, hd3⟩ := attachAll_eff2 frag d2 d' hne h
        have hk1sc : d1.childrenOf sc = d.childrenOf sc := hf1.kids sc hsclt (by simp)
        have hdat' : ∀ x, d'.dataOf x = d1.dataOf x := fun x => (hd3 x).trans (hd2 x)
        have htx' : ∀ x, d'.isText x = d1.isText x := fun x => isText_of_data (hdat' x)
        -- the child lists of the result
        have hksc : d'.childrenOf sc = frag := by rw [hk3, hk2]; simp
        have hkq : ∀ q, q ≠ sc → d'.childrenOf q = d1.childrenOf q := fun q hq => by
          rw [hk3, if_neg hq, hk2, if_neg hq]
        have hkold : ∀ q, q ≠ sc → q < d.size → d'.childrenOf q = d.childrenOf q := fun q hq hlt => by
          rw [hkq q hq]; exact hf1.kids q hlt (by simp)
        have hfragnew : ∀ k ∈ frag, d.size ≤ k := fun k hk => (hks k hk).1
        refine hadj.graft hb.kidsValid hO (fun x hx => (hdat' x).trans (hf1.data x hx)) ?_ ?_ ?_ ?_
        · intro P x hx hxl
          by_cases hP : P = sc
          · subst hP
            rw [hksc] at hx
            exact absurd (hfragnew x hx) (Nat.not_le.mpr hxl)
          · rcases Nat.lt_or_ge P d.size with hPl | hPl
            · exact hkold P hP hPl
            · rw [hkq P hP] at hx
              exact absurd (hcj1.mem P hPl x hx).1 (Nat.not_le.mpr hxl)
        · intro P
          by_cases hP : P = sc
          · subst hP
            rw [hksc]
            have hpat : frag.map d'.isText = (d.childrenOf o).map d.isText := by
              rw [hko, ← hpatf]
              exact List.map_congr_left (fun k _ => htx' k)
            rw [noAdj_of_map_eq hpat]; exact hadj.nat o
          · rcases Nat.lt_or_ge P d.size with hPl | hPl
            · rw [hkold P hP hPl]
              have hcg : noAdj d'.isText (d.childrenOf P) = noAdj d.isText (d.childrenOf P) :=
                noAdj_congr (fun x hx => by
                  rw [htx' x]; exact isText_of_data (hf1.data x (hb.kidsValid P x hx)))
              rw [hcg]; exact hadj.nat P
            · rw [hkq P hP]
              have hcg : noAdj d'.isText (d1.childrenOf P) = noAdj d1.isText (d1.childrenOf P) :=
                noAdj_congr (fun x _ => htx' x)
              rw [hcg]; exact hcj1.nat P hPl
        · intro P e he
          by_cases hP : P = sc
          · subst hP
            rw [hksc] at he
            exact hpf e he
          · rcases Nat.lt_or_ge P d.size with hPl | hPl
            · rw [hkold P hP hPl] at he
              have helt : e < d.size := hb.kidsValid P e he
              have hef : e ∉ frag := fun hm => Nat.lt_irrefl _ (Nat.lt_of_lt_of_le helt (hfragnew e hm))
              have hesc : e ∉ d1.childrenOf sc := by
                rw [hk1sc]
                intro hm
                have h1' := hadj.lk sc e hm
                have h2' := hadj.lk P e he
                rw [h1'] at h2'
                exact hP (Option.some.inj h2').symm
              rw [hp3 e hef, hp2]
              simp only [hesc, if_false]
              rw [hpp1 e helt]; exact hadj.lk P e he
            · rw [hkq P hP] at he
              obtain ⟨heb, hep⟩ := hcj1.mem P hPl e he
              have hef : e ∉ frag := fun hm => by
                have := (hks e hm).2.2
                rw [hep] at this; cases this
              have hesc : e ∉ d1.childrenOf sc := by
                rw [hk1sc]
                intro hm
                exact Nat.lt_irrefl _ (Nat.lt_of_lt_of_le (hb.kidsValid sc e hm) heb)
              rw [hp3 e hef, hp2]
              simp only [hesc, if_false]
              exact hep
        · intro P
          by_cases hP : P = sc
          · subst hP; rw [hksc]; exact hndf
          · rcases Nat.lt_or_ge P d.size with hPl | hPl
            · rw [hkold P hP hPl]; exact hadj.nd P
            · rw [hkq P hP]; exact hcj1.nd P hPl

/-- **`maybe_clone_an_option_into_selectedcontent` keeps the adjacency invariant** -/
theorem maybeClone_adj {d d' : Dom} {o : Id} {O : List Id} (hb : DomBase d) (h : AdjD d O)
    (hO : ∀ e ∈ O, e < d.size) (e : d.maybeCloneOption .fixed o = .ok d') : AdjD d' O := by
  unfold Dom.maybeCloneOption at e
  simp only [bind, Except.bind] at e
  cases ht : d.cloneTarget .fixed o with
  | error er => simp [ht] at e
  | ok res =>
    simp only [ht] at e
    cases res with
    | none => simp at e; subst e; exact h
    | some sc =>
      simp only at e
      exact cloneOptionInto_adj hb h hO (isContainer_of_isElement (cloneTarget_fixed_isElement ht)) e

instance (o : Id) : PB (sinkUnit (.maybeCloneAnOptionIntoSelectedcontent o)) :=
  ⟨fun m r ph s a s' hb e => by
    obtain ⟨out, e⟩ := sinkUnit_ok.mp e
    obtain ⟨d, hd, rfl⟩ := sink_ok.mp e
    have hl := hb.late
    have hcl := apply_clone hd
    obtain ⟨hb', hc', hk0⟩ := maybeCloneOption_spec hl.base hcl
    have hrel : s.dom.isElement r = true := hl.st.oe r hb.root_mem
    have hrs : RS r s.dom d := by
      refine rs_maybeClone hl.base (lt_of_isElement hrel) ?_ hcl
      have hn := hb.root_name
      unfold nm at hn
      unfold Dom.localNameOf
      cases hdr : s.dom.dataOf r with
      | none => simp
      | some v =>
        rw [hdr] at hn
        cases v with
        | element n a tc ip =>
          simp only at hn ⊢
          intro he
          have h1 : n.loc = "html".toList := by
            have := congrArg EName.loc hn
            exact this
          rw [h1] at he
          revert he; decide
        | _ => simp
    exact ⟨hb.dom (hl.dom hb' hc' hk0).1 rfl hc' hrs hk0 (maybeClone_adj hl.base hb.adj hl.oe_lt hcl), rfl, rfl⟩⟩



end H5V.Props.C06
