import H5V.Lemmas.HtmlParseSpecRun
import H5V.Lemmas.HtmlTokOptE
import H5V.Props.C03Joint
import H5V.Props.C04
/-!
Capstone, part: `Parser::process` of ONE chunk and `Parser::finish` of the joint driver against `HtmlTok.feed` /
`HtmlTok.finish` of the tokenizer model alone under a pause-free history policy (`feed_star`, `finish_star`),
and the unfolding of `parseChunks … [s]` into its `feed` and `finish` halves (`parse_unfold`).
-/
namespace H5V.Lemmas.ParseSpec
open H5V.Model.HtmlTok (Mach Pol SinkRes R Out Sig Str Tag Token step clr NoPause fuelFor feedBom)
open H5V.Model.HtmlTB (finishTB)
open H5V.Model.HtmlTB.Joint (JState absorb polOf)
open H5V.Lemmas.JointChunk

/-- a `Done` answer of `Joint.run` with no input left is a `JRunsTo` -/
theorem jrun_done_jrunsTo (o : TOpts) : ∀ (fuel : Nat) (m : Mach) (inp : Chars) (j : JState) (m' : Mach) (j' : JState),
    jrun o fuel m inp j = .done m' [] j' → JRunsTo o m inp j m' j'
  | 0, _, _, _, _, _, h => by rw [run_zero] at h; cases h
  | fuel + 1, m, inp, j, m', j', h => by
    rw [run_succ] at h
    cases hs : step o (polOf j) m inp with
    | panic e => rw [hs] at h; cases h
    | cont m1 i1 =>
      rw [hs] at h
      simp only [deliver] at h
      cases ha : absorb m1.out.reverse j with
      | error e => rw [ha] at h; cases h
      | ok j1 =>
        rw [ha] at h
        exact JRunsTo.cont hs ha (jrun_done_jrunsTo o fuel _ _ _ _ _ h)
    | suspend m1 i1 =>
      rw [hs] at h
      simp only [deliver] at h
      cases ha : absorb m1.out.reverse j with
      | error e => rw [ha] at h; cases h
      | ok j1 =>
        rw [ha] at h
        cases h
        exact JRunsTo.susp hs ha
    | script m1 i1 =>
      rw [hs] at h
      simp only [deliver] at h
      cases ha : absorb m1.out.reverse j with
      | error e => rw [ha] at h; cases h
      | ok j1 => rw [ha] at h; cases h
    | indicator m1 i1 =>
      rw [hs] at h
      simp only [deliver] at h
      cases ha : absorb m1.out.reverse j with
      | error e => rw [ha] at h; cases h
      | ok j1 => rw [ha] at h; cases h

/-! ### `Parser::process` of the whole text -/

/-- the tokenizer-only `feed` of the whole text under `pol'` ends in the machine of the joint run, with the
whole history `D1` in `out` -/
theorem feed_star {o : TOpts} {j0 : JState} {m0 : Mach} (hm0 : m0.out = [])
    {s : Str} (hne : s ≠ []) {m1 : Mach} {j1 : JState} {D1 : Out}
    (h : JRunsD o (feedBom m0 s).1 (feedBom m0 s).2 j0 m1 j1 D1) :
    absorb D1.reverse j0 = .ok j1 ∧ m1.out = [] ∧
      ∀ pol', NoPause pol' → ∀ P, Agrees pol' j0 P → P D1 → ∀ M1 i1,
        H5V.Model.HtmlTok.feed o pol' m0 [] s = .done M1 i1 → M1 = sh D1 m1 ∧ i1 = [] := by
  have hb : (feedBom m0 s).1.out = [] := by
    rcases H5V.Props.C03.feedBom_fst m0 s with e | e <;> rw [e] <;> exact hm0
  obtain ⟨g1, g3, g4⟩ := jruns_star (j0 := j0) h hb [] rfl
  rw [List.append_nil] at g1 g4
  refine ⟨g1, g3, fun pol' hnp P hP hPH M1 i1 hf => ?_⟩
  have ht := g4 pol' hnp P hP hPH
  rw [sh_nil_of hb] at ht
  have hemp : s.isEmpty = false := by
    cases s with
    | nil => exact absurd rfl hne
    | cons _ _ => rfl
  simp only [H5V.Model.HtmlTok.feed, List.nil_append, hemp, Bool.false_eq_true, if_false] at hf
  rcases ht.run (fuelFor (feedBom m0 s).1 (feedBom m0 s).2) with e | e
  · rw [e] at hf; cases hf
  · rw [e] at hf; cases hf; exact ⟨rfl, rfl⟩

/-! ### `Parser::finish` -/

/-- the parts of a successful `Parser::finish` from the machine `m` and joint state `j`: the flush of a pending
character reference (delivering `Dp`), the final run at end of input (delivering `D2`), `eof_step` (delivering
`m3.out`), `TreeBuilder::end` -/
structure FinishData (o : TOpts) (m : Mach) (j jf : JState) (Dp : Out) (m1 : Mach) (inp : Str) (j1 : JState)
    (D2 : Out) (m2 : Mach) (j2 : JState) (m3 : Mach) (j3 : JState) : Prop where
  pro : (m.charRef = none ∧ Dp = [] ∧ m1 = m ∧ inp = [] ∧ j1 = j) ∨
    (∃ cr ma chars mb, m.charRef = some cr ∧ H5V.Model.HtmlTok.crEof o m [] cr = .ok (ma, inp, chars) ∧
      H5V.Model.HtmlTok.processCharRef (ma.setCharRef none) chars = (mb, .cont) ∧ Dp = mb.out ∧ m1 = clr mb ∧
      absorb mb.out.reverse j = .ok j1)
  run : JRunsD o (m1.setAtEof true) inp j1 m2 j2 D2
  eof : H5V.Model.HtmlTok.eofLoop o 8 m2 = .ok m3
  abs : absorb m3.out.reverse j2 = .ok j3
  fin : finishTB.run j3.tb = .ok ((), jf.tb)
  res : jf.results = j3.results

theorem finish_data {o : TOpts} {m : Mach} {j jf : JState}
    (hfin : H5V.Model.HtmlTB.Joint.finish o m j = .ok jf) :
    ∃ Dp m1 inp j1 D2 m2 j2 m3 j3, FinishData o m j jf Dp m1 inp j1 D2 m2 j2 m3 j3 := by
  rw [finish_eq] at hfin
  cases hp : finishPrologue o m j with
  | error e => rw [hp] at hfin; cases hfin
  | ok v =>
    obtain ⟨m1, inp, j1⟩ := v
    rw [hp] at hfin
    simp only at hfin
    -- the prologue
    have hpro : ∃ Dp, (m.charRef = none ∧ Dp = [] ∧ m1 = m ∧ inp = [] ∧ j1 = j) ∨
        (∃ cr ma chars mb, m.charRef = some cr ∧ H5V.Model.HtmlTok.crEof o m [] cr = .ok (ma, inp, chars) ∧
          H5V.Model.HtmlTok.processCharRef (ma.setCharRef none) chars = (mb, .cont) ∧ Dp = mb.out ∧ m1 = clr mb ∧
          absorb mb.out.reverse j = .ok j1) := by
      unfold finishPrologue at hp
      cases hcr : m.charRef with
      | none =>
        rw [hcr] at hp
        cases hp
        exact ⟨[], Or.inl ⟨rfl, rfl, rfl, rfl, rfl⟩⟩
      | some cr =>
        rw [hcr] at hp
        simp only at hp
        cases hce : H5V.Model.HtmlTok.crEof o m [] cr with
        | error e => rw [hce] at hp; cases hp
        | ok w =>
          obtain ⟨ma, i2, chars⟩ := w
          rw [hce] at hp
          simp only at hp
          cases hpc : H5V.Model.HtmlTok.processCharRef (ma.setCharRef none) chars with
          | mk mb sg =>
            rw [hpc] at hp
            cases sg with
            | cont =>
              simp only at hp
              cases hab : absorb mb.out.reverse j with
              | error e => rw [hab] at hp; cases hp
              | ok j1' =>
                rw [hab] at hp
                cases hp
                exact ⟨mb.out, Or.inr ⟨cr, ma, chars, mb, rfl, hce, hpc, rfl, rfl, hab⟩⟩
            | script => simp only at hp; cases hp
            | indicator => simp only at hp; cases hp
            | panic e => simp only at hp; cases hp
    obtain ⟨Dp, hpro⟩ := hpro
    unfold finishMain at hfin
    cases hr : jrun o (fuelFor (m1.setAtEof true) inp) (m1.setAtEof true) inp j1 with
    | panic e => rw [hr] at hfin; cases hfin
    | script _ _ _ => rw [hr] at hfin; cases hfin
    | indicator _ _ _ => rw [hr] at hfin; cases hfin
    | done m2 i2 j2 =>
      rw [hr] at hfin
      simp only at hfin
      unfold finishTail at hfin
      by_cases hi2 : (!i2.isEmpty) = true
      · rw [if_pos hi2] at hfin; cases hfin
      · rw [if_neg hi2] at hfin
        have hi2' : i2 = [] := by
          cases i2 with
          | nil => rfl
          | cons _ _ => simp at hi2
        subst hi2'
        cases he : H5V.Model.HtmlTok.eofLoop o 8 m2 with
        | error e => rw [he] at hfin; cases hfin
        | ok m3 =>
          rw [he] at hfin
          simp only at hfin
          cases hab : absorb m3.out.reverse j2 with
          | error e => rw [hab] at hfin; cases hfin
          | ok j3 =>
            rw [hab] at hfin
            simp only at hfin
            cases hft : finishTB.run j3.tb with
            | error e => rw [hft] at hfin; cases hfin
            | ok v =>
              obtain ⟨⟨⟩, tb⟩ := v
              rw [hft] at hfin
              cases hfin
              obtain ⟨D2, hD2⟩ := jrunsD_of_jrunsTo (jrun_done_jrunsTo o _ _ _ _ _ _ hr)
              exact ⟨Dp, m1, inp, j1, D2, m2, j2, m3, j3, hpro, hD2, he, hab, hft, rfl⟩

/-- the histories of a `Parser::finish` -/
theorem FinishData.hist {o : TOpts} {m : Mach} {j jf : JState} {Dp : Out} {m1 : Mach} {inp : Str} {j1 : JState}
    {D2 : Out} {m2 : Mach} {j2 : JState} {m3 : Mach} {j3 : JState}
    (d : FinishData o m j jf Dp m1 inp j1 D2 m2 j2 m3 j3) (hm : m.out = []) {j0 : JState} (H : Out)
    (hH : absorb H.reverse j0 = .ok j) :
    m1.out = [] ∧ absorb (Dp ++ H).reverse j0 = .ok j1 ∧ absorb (D2 ++ (Dp ++ H)).reverse j0 = .ok j2 ∧
      m2.out = [] ∧ absorb (m3.out ++ (D2 ++ (Dp ++ H))).reverse j0 = .ok j3 ∧
      ∃ l rest, m3.out = (H5V.Model.HtmlTok.Token.eof, l) :: rest := by
  have h1 : m1.out = [] ∧ absorb (Dp ++ H).reverse j0 = .ok j1 := by
    rcases d.pro with ⟨_, rfl, rfl, _, rfl⟩ | ⟨cr, ma, chars, mb, _, _, _, rfl, rfl, hab⟩
    · exact ⟨hm, hH⟩
    · refine ⟨rfl, ?_⟩
      rw [List.reverse_append, absorb_append, hH]
      exact hab
  obtain ⟨g1, g3, _⟩ := jruns_star (j0 := j0) d.run (by show m1.out = []; exact h1.1) _ h1.2
  refine ⟨h1.1, h1.2, g1, g3, ?_, H5V.Props.C04.C04_tok_eof_is_last o 8 m2 m3 d.eof⟩
  rw [List.reverse_append, absorb_append, g1]
  exact d.abs

/-- the tokenizer-only `finish` under an agreeing policy delivers the same history -/
theorem FinishData.star {o : TOpts} {m : Mach} {j jf : JState} {Dp : Out} {m1 : Mach} {inp : Str} {j1 : JState}
    {D2 : Out} {m2 : Mach} {j2 : JState} {m3 : Mach} {j3 : JState}
    (d : FinishData o m j jf Dp m1 inp j1 D2 m2 j2 m3 j3) (hm : m.out = []) {j0 : JState} (H : Out)
    (hH : absorb H.reverse j0 = .ok j) :
    ∀ pol', NoPause pol' → ∀ P, Agrees pol' j0 P → P (D2 ++ (Dp ++ H)) →
      ∀ mf', H5V.Model.HtmlTok.finish o pol' (sh H m) = .ok mf' → mf'.out = m3.out ++ (D2 ++ (Dp ++ H)) := by
  intro pol' hnp P hP hPH mf' hstar
  obtain ⟨hm1, hH1, _, _, _, _⟩ := d.hist hm H hH
  -- the prologue of the tokenizer-only `finish`
  have hpre : H5V.Model.HtmlTok.finishPreE o (sh H m) = .ok (sh (Dp ++ H) m1, inp) := by
    unfold H5V.Model.HtmlTok.finishPreE
    have hcr' : (sh H m).charRef = m.charRef := rfl
    rw [hcr']
    rcases d.pro with ⟨hcr, rfl, rfl, rfl, _⟩ | ⟨cr, ma, chars, mb, hcr, hce, hpc, rfl, rfl, _⟩
    · rw [hcr]; rfl
    · rw [hcr]
      simp only
      rw [crEof_shift, hce]
      simp only [Except.map]
      have hsc : (sh H ma).setCharRef none = sh H (ma.setCharRef none) := rfl
      rw [hsc, processCharRef_shift, hpc]
      rfl
  obtain ⟨_, _, g4⟩ := jruns_star (j0 := j0) d.run (by show m1.out = []; exact hm1) _ hH1
  have ht := g4 pol' hnp P hP hPH
  rw [H5V.Model.HtmlTok.finish_eqE, hpre] at hstar
  simp only [H5V.Model.HtmlTok.finishPost] at hstar
  have hM : (sh (Dp ++ H) m1).setAtEof true = sh (Dp ++ H) (m1.setAtEof true) := rfl
  rw [hM] at hstar
  rcases ht.run (fuelFor (sh (Dp ++ H) (m1.setAtEof true)) inp) with e | e
  · rw [e] at hstar; cases hstar
  · rw [e] at hstar
    simp only [List.isEmpty_nil, Bool.not_true, Bool.false_eq_true, if_false] at hstar
    rw [eofLoop_shift, d.eof] at hstar
    simp only [Except.map] at hstar
    cases hstar
    rfl

end H5V.Lemmas.ParseSpec
