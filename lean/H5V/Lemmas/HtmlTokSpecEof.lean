import H5V.Lemmas.HtmlTokSpecTac
set_option linter.unusedSimpArgs false
set_option linter.unusedVariables false
/-!
# C01 simulation — layer L4a "end of file": the model's `eof_step` loop (`eofLoop`) and the
specification's EOF arms deliver the same tokens (`eof_sim`)
-/
namespace H5V.Lemmas.HtmlTokSpec
open H5V.Model.HtmlTok
open H5V.Spec.HtmlTokenizer (St Tok Emit Tree Switch Ctl ReturnSt)
open H5V.Spec.HtmlTokenizer

/-- the specification, at end of input, stops after `k ≥ 0` further steps with output `out` -/
def StopsWith (tree : Tree) (t : Tok) (out : List Emit) : Prop :=
  ∃ t1 t2, Steps tree t [] t1 [] ∧ sstep tree t1 [] = (t2, .stop) ∧ t2.out = out

theorem StopsWith.now {tree : Tree} {t t2 : Tok} {out : List Emit}
    (h1 : sstep tree t [] = (t2, .stop)) (h2 : t2.out = out) : StopsWith tree t out :=
  ⟨t, t2, Steps.refl _ _, h1, h2⟩

theorem StopsWith.step {tree : Tree} {t t1 : Tok} {n : Nat} {out : List Emit}
    (h1 : sstep tree t [] = (t1, .advance n)) (h2 : StopsWith tree t1 out) : StopsWith tree t out := by
  obtain ⟨t', t2, hs, h3, h4⟩ := h2
  exact ⟨t', t2, Steps.step h1 (by simpa using hs), h3, h4⟩

/-- `StopsWith.now` without meta-variables -/
theorem StopsWith.now' {tree : Tree} {t : Tok} {out : List Emit}
    (h1 : ctlAdv (sstep tree t []).2 = false) (h2 : (sstep tree t []).1.out = out) :
    StopsWith tree t out := by
  refine StopsWith.now (t2 := (sstep tree t []).1) ?_ h2
  cases hc : (sstep tree t []).2 with
  | stop => rw [← hc]
  | advance n => rw [hc] at h1; simp at h1

/-- `StopsWith.step` without meta-variables -/
theorem StopsWith.step' {tree : Tree} {t : Tok} {out : List Emit}
    (h1 : ctlAdv (sstep tree t []).2 = true) (h2 : StopsWith tree (sstep tree t []).1 out) :
    StopsWith tree t out := by
  cases hc : (sstep tree t []).2 with
  | stop => rw [hc] at h1; simp at h1
  | advance n => exact StopsWith.step (t1 := (sstep tree t []).1) (n := n) (by rw [← hc]) h2

macro "eof_simp" : tactic => `(tactic|
  simp (config := {decide := true}) [sstep, H5V.Spec.HtmlTokenizer.step,
    dataState, rcdataState, rawtextState, scriptDataState, plaintextState, tagOpenState, endTagOpenState, tagNameState,
    genericEndTagNameState, rcdataLessThanSignState, rcdataEndTagOpenState, rcdataEndTagNameState,
    rawtextLessThanSignState, rawtextEndTagOpenState, rawtextEndTagNameState, scriptDataLessThanSignState,
    scriptDataEndTagOpenState, scriptDataEndTagNameState, scriptDataEscapeStartState, scriptDataEscapeStartDashState,
    scriptDataEscapedState, scriptDataEscapedDashState, scriptDataEscapedDashDashState,
    scriptDataEscapedLessThanSignState, scriptDataEscapedEndTagOpenState, scriptDataEscapedEndTagNameState,
    scriptDataDoubleEscapeStartState, scriptDataDoubleEscapedState, scriptDataDoubleEscapedDashState,
    scriptDataDoubleEscapedDashDashState, scriptDataDoubleEscapedLessThanSignState, scriptDataDoubleEscapeEndState,
    beforeAttributeNameState, attributeNameState, afterAttributeNameState, beforeAttributeValueState,
    attributeValueDoubleQuotedState, attributeValueSingleQuotedState, attributeValueUnquotedState,
    afterAttributeValueQuotedState, selfClosingStartTagState, bogusCommentState,
    markupDeclarationOpenState, nextAre, nextAreCaseInsensitive,
    commentStartState, commentStartDashState, commentState, commentLessThanSignState, commentLessThanSignBangState,
    commentLessThanSignBangDashState, commentLessThanSignBangDashDashState, commentEndDashState, commentEndState,
    commentEndBangState, doctypeState, beforeDoctypeNameState, doctypeNameState, afterDoctypeNameState,
    afterDoctypePublicKeywordState, beforeDoctypePublicIdentifierState, doctypePublicIdentifierDoubleQuotedState,
    doctypePublicIdentifierSingleQuotedState, afterDoctypePublicIdentifierState,
    betweenDoctypePublicAndSystemIdentifiersState, afterDoctypeSystemKeywordState, beforeDoctypeSystemIdentifierState,
    doctypeSystemIdentifierDoubleQuotedState, doctypeSystemIdentifierSingleQuotedState,
    afterDoctypeSystemIdentifierState, bogusDoctypeState, cdataSectionState, cdataSectionBracketState,
    cdataSectionEndState, ambiguousAmpersandState,
    Tok.switchTo, Tok.reconsumeIn, Tok.done, Tok.emitEOF, Tok.emitChar, Tok.emitNull, Tok.emit, Tok.setState, Tok.setReturnState,
    Tok.clearTemporaryBuffer, Tok.appendTemporaryBuffer, Tok.createTag, Tok.appendTagName, Tok.setSelfClosing,
    Tok.createComment, Tok.appendComment, Tok.appendCommentStr, Tok.emitComment, Tok.createDoctype, Tok.setForceQuirks,
    Tok.setDoctypeName, Tok.appendDoctypeName, Tok.setPublicIdEmpty, Tok.setSystemIdEmpty, Tok.appendPublicId,
    Tok.appendSystemId, Tok.emitDoctype, ReturnSt.inAttribute,
    emitChars_eq,
    to, reconsumeTo, emitChar, emitChars, H5V.Model.HtmlTok.emit, emitErr, badChar, badEof,
    pushTemp, clearTemp, emitTempBuf, H5V.Model.HtmlTok.emitComment,
    H5V.Model.HtmlTok.createDoctype, forceQuirks, H5V.Model.HtmlTok.emitDoctype, *])

/-- one computed step of the specification at end of input -/
macro "eof_step" : tactic => `(tactic| (refine StopsWith.step' ?_ ?_ <;> eof_simp))

/-- the specification stops now -/
macro "eof_now" : tactic => `(tactic| (refine StopsWith.now' ?_ ?_ <;> eof_simp <;> done))

macro "eof_leaf" : tactic => `(tactic| (
  first
  | eof_now
  | (eof_step; eof_now)
  | (eof_step; eof_step; eof_now)
  | (eof_step; eof_step; eof_step; eof_now)))

/-- destructure `h : RegCore m t` at the state `hs`, compute the model's loop in `he` -/
macro "eof_state" h:ident hs:ident he:ident : tactic => `(tactic| (
  obtain ⟨hstd, hst, hcr, hreg, hout⟩ := $h
  simp [$hs:ident, stOf, altSt, isRet] at hst
  simp [RegRel, AttrRel, $hs:ident, isTagSt, needsCur, usesTemp, usesComment, usesDoctype] at hreg
  simp [OutRel, cdataBuf, isCdata, $hs:ident] at hout
  simp [eofLoop, transEof, $hs:ident, to, reconsumeTo] at $he:ident
  subst $he:ident
  repeat' (rcases hst with hst | hst)))

/-- goal of the per-state lemmas: whatever fuel `≥ 4` the loop is given, its result carries the
output with which the specification stops -/
def EofOk (o : Opts) (tree : Tree) (m : Mach) (t : Tok) : Prop :=
  ∀ (k : Nat) (mf : Mach), eofLoop o (k + 4) m = .ok mf → StopsWith tree t (flat mf.out)

set_option maxHeartbeats 1600000 in
theorem eof_data (o : Opts) (ho : o.exactErrors = false) (tree : Tree) (m : Mach) (t : Tok)
    (h : RegCore m t) (hs : m.state = .data) : EofOk o tree m t := by
  intro k mf he
  eof_state h hs he
  all_goals eof_leaf

set_option maxHeartbeats 1600000 in
theorem eof_plaintext (o : Opts) (ho : o.exactErrors = false) (tree : Tree) (m : Mach) (t : Tok)
    (h : RegCore m t) (hs : m.state = .plaintext) : EofOk o tree m t := by
  intro k mf he
  eof_state h hs he
  all_goals eof_leaf

set_option maxHeartbeats 1600000 in
theorem eof_tagOpen (o : Opts) (ho : o.exactErrors = false) (tree : Tree) (m : Mach) (t : Tok)
    (h : RegCore m t) (hs : m.state = .tagOpen) : EofOk o tree m t := by
  intro k mf he
  eof_state h hs he
  all_goals eof_leaf

set_option maxHeartbeats 1600000 in
theorem eof_endTagOpen (o : Opts) (ho : o.exactErrors = false) (tree : Tree) (m : Mach) (t : Tok)
    (h : RegCore m t) (hs : m.state = .endTagOpen) : EofOk o tree m t := by
  intro k mf he
  eof_state h hs he
  all_goals eof_leaf

set_option maxHeartbeats 1600000 in
theorem eof_tagName (o : Opts) (ho : o.exactErrors = false) (tree : Tree) (m : Mach) (t : Tok)
    (h : RegCore m t) (hs : m.state = .tagName) : EofOk o tree m t := by
  intro k mf he
  eof_state h hs he
  all_goals eof_leaf

set_option maxHeartbeats 1600000 in
theorem eof_scriptDataEscapeStartDash (o : Opts) (ho : o.exactErrors = false) (tree : Tree) (m : Mach) (t : Tok)
    (h : RegCore m t) (hs : m.state = .scriptDataEscapeStartDash) : EofOk o tree m t := by
  intro k mf he
  eof_state h hs he
  all_goals eof_leaf

set_option maxHeartbeats 1600000 in
theorem eof_scriptDataDoubleEscapeEnd (o : Opts) (ho : o.exactErrors = false) (tree : Tree) (m : Mach) (t : Tok)
    (h : RegCore m t) (hs : m.state = .scriptDataDoubleEscapeEnd) : EofOk o tree m t := by
  intro k mf he
  eof_state h hs he
  all_goals eof_leaf

set_option maxHeartbeats 1600000 in
theorem eof_beforeAttributeName (o : Opts) (ho : o.exactErrors = false) (tree : Tree) (m : Mach) (t : Tok)
    (h : RegCore m t) (hs : m.state = .beforeAttributeName) : EofOk o tree m t := by
  intro k mf he
  eof_state h hs he
  all_goals eof_leaf

set_option maxHeartbeats 1600000 in
theorem eof_attributeName (o : Opts) (ho : o.exactErrors = false) (tree : Tree) (m : Mach) (t : Tok)
    (h : RegCore m t) (hs : m.state = .attributeName) : EofOk o tree m t := by
  intro k mf he
  eof_state h hs he
  all_goals eof_leaf

set_option maxHeartbeats 1600000 in
theorem eof_afterAttributeName (o : Opts) (ho : o.exactErrors = false) (tree : Tree) (m : Mach) (t : Tok)
    (h : RegCore m t) (hs : m.state = .afterAttributeName) : EofOk o tree m t := by
  intro k mf he
  eof_state h hs he
  all_goals eof_leaf

set_option maxHeartbeats 1600000 in
theorem eof_beforeAttributeValue (o : Opts) (ho : o.exactErrors = false) (tree : Tree) (m : Mach) (t : Tok)
    (h : RegCore m t) (hs : m.state = .beforeAttributeValue) : EofOk o tree m t := by
  intro k mf he
  eof_state h hs he
  all_goals eof_leaf

set_option maxHeartbeats 1600000 in
theorem eof_afterAttributeValueQuoted (o : Opts) (ho : o.exactErrors = false) (tree : Tree) (m : Mach) (t : Tok)
    (h : RegCore m t) (hs : m.state = .afterAttributeValueQuoted) : EofOk o tree m t := by
  intro k mf he
  eof_state h hs he
  all_goals eof_leaf

set_option maxHeartbeats 1600000 in
theorem eof_selfClosingStartTag (o : Opts) (ho : o.exactErrors = false) (tree : Tree) (m : Mach) (t : Tok)
    (h : RegCore m t) (hs : m.state = .selfClosingStartTag) : EofOk o tree m t := by
  intro k mf he
  eof_state h hs he
  all_goals eof_leaf

set_option maxHeartbeats 1600000 in
theorem eof_bogusComment (o : Opts) (ho : o.exactErrors = false) (tree : Tree) (m : Mach) (t : Tok)
    (h : RegCore m t) (hs : m.state = .bogusComment) : EofOk o tree m t := by
  intro k mf he
  eof_state h hs he
  all_goals eof_leaf

set_option maxHeartbeats 1600000 in
theorem eof_commentStart (o : Opts) (ho : o.exactErrors = false) (tree : Tree) (m : Mach) (t : Tok)
    (h : RegCore m t) (hs : m.state = .commentStart) : EofOk o tree m t := by
  intro k mf he
  eof_state h hs he
  all_goals eof_leaf

set_option maxHeartbeats 1600000 in
theorem eof_commentStartDash (o : Opts) (ho : o.exactErrors = false) (tree : Tree) (m : Mach) (t : Tok)
    (h : RegCore m t) (hs : m.state = .commentStartDash) : EofOk o tree m t := by
  intro k mf he
  eof_state h hs he
  all_goals eof_leaf

set_option maxHeartbeats 1600000 in
theorem eof_comment (o : Opts) (ho : o.exactErrors = false) (tree : Tree) (m : Mach) (t : Tok)
    (h : RegCore m t) (hs : m.state = .comment) : EofOk o tree m t := by
  intro k mf he
  eof_state h hs he
  all_goals eof_leaf

set_option maxHeartbeats 1600000 in
theorem eof_commentLessThanSign (o : Opts) (ho : o.exactErrors = false) (tree : Tree) (m : Mach) (t : Tok)
    (h : RegCore m t) (hs : m.state = .commentLessThanSign) : EofOk o tree m t := by
  intro k mf he
  eof_state h hs he
  all_goals eof_leaf

set_option maxHeartbeats 1600000 in
theorem eof_commentLessThanSignBang (o : Opts) (ho : o.exactErrors = false) (tree : Tree) (m : Mach) (t : Tok)
    (h : RegCore m t) (hs : m.state = .commentLessThanSignBang) : EofOk o tree m t := by
  intro k mf he
  eof_state h hs he
  all_goals eof_leaf

set_option maxHeartbeats 1600000 in
theorem eof_commentLessThanSignBangDash (o : Opts) (ho : o.exactErrors = false) (tree : Tree) (m : Mach) (t : Tok)
    (h : RegCore m t) (hs : m.state = .commentLessThanSignBangDash) : EofOk o tree m t := by
  intro k mf he
  eof_state h hs he
  all_goals eof_leaf

set_option maxHeartbeats 1600000 in
theorem eof_commentLessThanSignBangDashDash (o : Opts) (ho : o.exactErrors = false) (tree : Tree) (m : Mach) (t : Tok)
    (h : RegCore m t) (hs : m.state = .commentLessThanSignBangDashDash) : EofOk o tree m t := by
  intro k mf he
  eof_state h hs he
  all_goals eof_leaf

set_option maxHeartbeats 1600000 in
theorem eof_commentEndDash (o : Opts) (ho : o.exactErrors = false) (tree : Tree) (m : Mach) (t : Tok)
    (h : RegCore m t) (hs : m.state = .commentEndDash) : EofOk o tree m t := by
  intro k mf he
  eof_state h hs he
  all_goals eof_leaf

set_option maxHeartbeats 1600000 in
theorem eof_commentEnd (o : Opts) (ho : o.exactErrors = false) (tree : Tree) (m : Mach) (t : Tok)
    (h : RegCore m t) (hs : m.state = .commentEnd) : EofOk o tree m t := by
  intro k mf he
  eof_state h hs he
  all_goals eof_leaf

set_option maxHeartbeats 1600000 in
theorem eof_commentEndBang (o : Opts) (ho : o.exactErrors = false) (tree : Tree) (m : Mach) (t : Tok)
    (h : RegCore m t) (hs : m.state = .commentEndBang) : EofOk o tree m t := by
  intro k mf he
  eof_state h hs he
  all_goals eof_leaf

set_option maxHeartbeats 1600000 in
theorem eof_doctype (o : Opts) (ho : o.exactErrors = false) (tree : Tree) (m : Mach) (t : Tok)
    (h : RegCore m t) (hs : m.state = .doctype) : EofOk o tree m t := by
  intro k mf he
  eof_state h hs he
  all_goals eof_leaf

set_option maxHeartbeats 1600000 in
theorem eof_beforeDoctypeName (o : Opts) (ho : o.exactErrors = false) (tree : Tree) (m : Mach) (t : Tok)
    (h : RegCore m t) (hs : m.state = .beforeDoctypeName) : EofOk o tree m t := by
  intro k mf he
  eof_state h hs he
  all_goals eof_leaf

set_option maxHeartbeats 1600000 in
theorem eof_doctypeName (o : Opts) (ho : o.exactErrors = false) (tree : Tree) (m : Mach) (t : Tok)
    (h : RegCore m t) (hs : m.state = .doctypeName) : EofOk o tree m t := by
  intro k mf he
  eof_state h hs he
  all_goals eof_leaf

set_option maxHeartbeats 1600000 in
theorem eof_afterDoctypeName (o : Opts) (ho : o.exactErrors = false) (tree : Tree) (m : Mach) (t : Tok)
    (h : RegCore m t) (hs : m.state = .afterDoctypeName) : EofOk o tree m t := by
  intro k mf he
  eof_state h hs he
  all_goals eof_leaf

set_option maxHeartbeats 1600000 in
theorem eof_betweenDoctypePublicAndSystemIdentifiers (o : Opts) (ho : o.exactErrors = false) (tree : Tree) (m : Mach) (t : Tok)
    (h : RegCore m t) (hs : m.state = .betweenDoctypePublicAndSystemIdentifiers) : EofOk o tree m t := by
  intro k mf he
  eof_state h hs he
  all_goals eof_leaf

set_option maxHeartbeats 1600000 in
theorem eof_bogusDoctype (o : Opts) (ho : o.exactErrors = false) (tree : Tree) (m : Mach) (t : Tok)
    (h : RegCore m t) (hs : m.state = .bogusDoctype) : EofOk o tree m t := by
  intro k mf he
  eof_state h hs he
  all_goals eof_leaf

set_option maxHeartbeats 1600000 in
theorem eof_cdataSection (o : Opts) (ho : o.exactErrors = false) (tree : Tree) (m : Mach) (t : Tok)
    (h : RegCore m t) (hs : m.state = .cdataSection) : EofOk o tree m t := by
  intro k mf he
  eof_state h hs he
  all_goals eof_leaf

set_option maxHeartbeats 1600000 in
theorem eof_cdataSectionBracket (o : Opts) (ho : o.exactErrors = false) (tree : Tree) (m : Mach) (t : Tok)
    (h : RegCore m t) (hs : m.state = .cdataSectionBracket) : EofOk o tree m t := by
  intro k mf he
  eof_state h hs he
  all_goals eof_leaf

set_option maxHeartbeats 1600000 in
theorem eof_cdataSectionEnd (o : Opts) (ho : o.exactErrors = false) (tree : Tree) (m : Mach) (t : Tok)
    (h : RegCore m t) (hs : m.state = .cdataSectionEnd) : EofOk o tree m t := by
  intro k mf he
  eof_state h hs he
  all_goals eof_leaf

set_option maxHeartbeats 1600000 in
/-- html5ever's `eof_step` does not clear `current_comment` in this state: it is empty there (every
exit of a comment state takes it), which is the last clause of `RegRel` -/
theorem eof_markupDeclarationOpen (o : Opts) (ho : o.exactErrors = false) (tree : Tree) (m : Mach) (t : Tok)
    (h : RegCore m t) (hs : m.state = .markupDeclarationOpen) : EofOk o tree m t := by
  intro k mf he
  eof_state h hs he
  all_goals eof_leaf

set_option maxHeartbeats 1600000 in
theorem eof_scriptDataEscapeStart (o : Opts) (ho : o.exactErrors = false) (tree : Tree) (m : Mach) (t : Tok)
    (h : RegCore m t) (kd : ScriptEscapeKind) (hs : m.state = .scriptDataEscapeStart kd) : EofOk o tree m t := by
  intro k mf he
  cases kd
  all_goals (eof_state h hs he; all_goals eof_leaf)

set_option maxHeartbeats 1600000 in
theorem eof_scriptDataEscapedDash (o : Opts) (ho : o.exactErrors = false) (tree : Tree) (m : Mach) (t : Tok)
    (h : RegCore m t) (kd : ScriptEscapeKind) (hs : m.state = .scriptDataEscapedDash kd) : EofOk o tree m t := by
  intro k mf he
  cases kd
  all_goals (eof_state h hs he; all_goals eof_leaf)

set_option maxHeartbeats 1600000 in
theorem eof_scriptDataEscapedDashDash (o : Opts) (ho : o.exactErrors = false) (tree : Tree) (m : Mach) (t : Tok)
    (h : RegCore m t) (kd : ScriptEscapeKind) (hs : m.state = .scriptDataEscapedDashDash kd) : EofOk o tree m t := by
  intro k mf he
  cases kd
  all_goals (eof_state h hs he; all_goals eof_leaf)

set_option maxHeartbeats 1600000 in
theorem eof_attributeValue (o : Opts) (ho : o.exactErrors = false) (tree : Tree) (m : Mach) (t : Tok)
    (h : RegCore m t) (kd : AttrValueKind) (hs : m.state = .attributeValue kd) : EofOk o tree m t := by
  intro k mf he
  cases kd
  all_goals (eof_state h hs he; all_goals eof_leaf)

set_option maxHeartbeats 1600000 in
theorem eof_afterDoctypeKeyword (o : Opts) (ho : o.exactErrors = false) (tree : Tree) (m : Mach) (t : Tok)
    (h : RegCore m t) (kd : DoctypeIdKind) (hs : m.state = .afterDoctypeKeyword kd) : EofOk o tree m t := by
  intro k mf he
  cases kd
  all_goals (eof_state h hs he; all_goals eof_leaf)

set_option maxHeartbeats 1600000 in
theorem eof_beforeDoctypeIdentifier (o : Opts) (ho : o.exactErrors = false) (tree : Tree) (m : Mach) (t : Tok)
    (h : RegCore m t) (kd : DoctypeIdKind) (hs : m.state = .beforeDoctypeIdentifier kd) : EofOk o tree m t := by
  intro k mf he
  cases kd
  all_goals (eof_state h hs he; all_goals eof_leaf)

set_option maxHeartbeats 1600000 in
theorem eof_doctypeIdentifierDoubleQuoted (o : Opts) (ho : o.exactErrors = false) (tree : Tree) (m : Mach) (t : Tok)
    (h : RegCore m t) (kd : DoctypeIdKind) (hs : m.state = .doctypeIdentifierDoubleQuoted kd) : EofOk o tree m t := by
  intro k mf he
  cases kd
  all_goals (eof_state h hs he; all_goals eof_leaf)

set_option maxHeartbeats 1600000 in
theorem eof_doctypeIdentifierSingleQuoted (o : Opts) (ho : o.exactErrors = false) (tree : Tree) (m : Mach) (t : Tok)
    (h : RegCore m t) (kd : DoctypeIdKind) (hs : m.state = .doctypeIdentifierSingleQuoted kd) : EofOk o tree m t := by
  intro k mf he
  cases kd
  all_goals (eof_state h hs he; all_goals eof_leaf)

set_option maxHeartbeats 1600000 in
theorem eof_afterDoctypeIdentifier (o : Opts) (ho : o.exactErrors = false) (tree : Tree) (m : Mach) (t : Tok)
    (h : RegCore m t) (kd : DoctypeIdKind) (hs : m.state = .afterDoctypeIdentifier kd) : EofOk o tree m t := by
  intro k mf he
  cases kd
  all_goals (eof_state h hs he; all_goals eof_leaf)

set_option maxHeartbeats 1600000 in
theorem eof_rawData (o : Opts) (ho : o.exactErrors = false) (tree : Tree) (m : Mach) (t : Tok)
    (h : RegCore m t) (kd : RawKind) (hs : m.state = .rawData kd) : EofOk o tree m t := by
  intro k mf he
  cases kd
  case scriptDataEscaped e =>
    cases e
    all_goals (eof_state h hs he; all_goals eof_leaf)
  all_goals (eof_state h hs he; all_goals eof_leaf)

set_option maxHeartbeats 1600000 in
theorem eof_rawLessThanSign (o : Opts) (ho : o.exactErrors = false) (tree : Tree) (m : Mach) (t : Tok)
    (h : RegCore m t) (kd : RawKind) (hs : m.state = .rawLessThanSign kd) : EofOk o tree m t := by
  intro k mf he
  cases kd
  case scriptDataEscaped e =>
    cases e
    all_goals (eof_state h hs he; all_goals eof_leaf)
  all_goals (eof_state h hs he; all_goals eof_leaf)

set_option maxHeartbeats 1600000 in
theorem eof_rawEndTagOpen (o : Opts) (ho : o.exactErrors = false) (tree : Tree) (m : Mach) (t : Tok)
    (h : RegCore m t) (kd : RawKind) (hs : m.state = .rawEndTagOpen kd) : EofOk o tree m t := by
  intro k mf he
  cases kd
  case scriptDataEscaped e =>
    cases e
    · eof_state h hs he
      all_goals eof_leaf
    · exact absurd h.std (by simp [Std, hs])
  all_goals (eof_state h hs he; all_goals eof_leaf)

set_option maxHeartbeats 1600000 in
theorem eof_rawEndTagName (o : Opts) (ho : o.exactErrors = false) (tree : Tree) (m : Mach) (t : Tok)
    (h : RegCore m t) (kd : RawKind) (hs : m.state = .rawEndTagName kd) : EofOk o tree m t := by
  intro k mf he
  cases kd
  case scriptDataEscaped e =>
    cases e
    · eof_state h hs he
      all_goals eof_leaf
    · exact absurd h.std (by simp [Std, hs])
  all_goals (eof_state h hs he; all_goals eof_leaf)

/-- all states: any fuel `≥ 4` -/
theorem eof_ok (o : Opts) (ho : o.exactErrors = false) (tree : Tree) (m : Mach) (t : Tok)
    (h : RegCore m t) : EofOk o tree m t := by
  cases hs : m.state with
  | data => exact eof_data o ho tree m t h hs
  | plaintext => exact eof_plaintext o ho tree m t h hs
  | tagOpen => exact eof_tagOpen o ho tree m t h hs
  | endTagOpen => exact eof_endTagOpen o ho tree m t h hs
  | tagName => exact eof_tagName o ho tree m t h hs
  | scriptDataEscapeStartDash => exact eof_scriptDataEscapeStartDash o ho tree m t h hs
  | scriptDataDoubleEscapeEnd => exact eof_scriptDataDoubleEscapeEnd o ho tree m t h hs
  | beforeAttributeName => exact eof_beforeAttributeName o ho tree m t h hs
  | attributeName => exact eof_attributeName o ho tree m t h hs
  | afterAttributeName => exact eof_afterAttributeName o ho tree m t h hs
  | beforeAttributeValue => exact eof_beforeAttributeValue o ho tree m t h hs
  | afterAttributeValueQuoted => exact eof_afterAttributeValueQuoted o ho tree m t h hs
  | selfClosingStartTag => exact eof_selfClosingStartTag o ho tree m t h hs
  | bogusComment => exact eof_bogusComment o ho tree m t h hs
  | commentStart => exact eof_commentStart o ho tree m t h hs
  | commentStartDash => exact eof_commentStartDash o ho tree m t h hs
  | comment => exact eof_comment o ho tree m t h hs
  | commentLessThanSign => exact eof_commentLessThanSign o ho tree m t h hs
  | commentLessThanSignBang => exact eof_commentLessThanSignBang o ho tree m t h hs
  | commentLessThanSignBangDash => exact eof_commentLessThanSignBangDash o ho tree m t h hs
  | commentLessThanSignBangDashDash => exact eof_commentLessThanSignBangDashDash o ho tree m t h hs
  | commentEndDash => exact eof_commentEndDash o ho tree m t h hs
  | commentEnd => exact eof_commentEnd o ho tree m t h hs
  | commentEndBang => exact eof_commentEndBang o ho tree m t h hs
  | doctype => exact eof_doctype o ho tree m t h hs
  | beforeDoctypeName => exact eof_beforeDoctypeName o ho tree m t h hs
  | doctypeName => exact eof_doctypeName o ho tree m t h hs
  | afterDoctypeName => exact eof_afterDoctypeName o ho tree m t h hs
  | betweenDoctypePublicAndSystemIdentifiers => exact eof_betweenDoctypePublicAndSystemIdentifiers o ho tree m t h hs
  | bogusDoctype => exact eof_bogusDoctype o ho tree m t h hs
  | cdataSection => exact eof_cdataSection o ho tree m t h hs
  | cdataSectionBracket => exact eof_cdataSectionBracket o ho tree m t h hs
  | cdataSectionEnd => exact eof_cdataSectionEnd o ho tree m t h hs
  | markupDeclarationOpen => exact eof_markupDeclarationOpen o ho tree m t h hs
  | scriptDataEscapeStart kd => exact eof_scriptDataEscapeStart o ho tree m t h kd hs
  | scriptDataEscapedDash kd => exact eof_scriptDataEscapedDash o ho tree m t h kd hs
  | scriptDataEscapedDashDash kd => exact eof_scriptDataEscapedDashDash o ho tree m t h kd hs
  | attributeValue kd => exact eof_attributeValue o ho tree m t h kd hs
  | afterDoctypeKeyword kd => exact eof_afterDoctypeKeyword o ho tree m t h kd hs
  | beforeDoctypeIdentifier kd => exact eof_beforeDoctypeIdentifier o ho tree m t h kd hs
  | doctypeIdentifierDoubleQuoted kd => exact eof_doctypeIdentifierDoubleQuoted o ho tree m t h kd hs
  | doctypeIdentifierSingleQuoted kd => exact eof_doctypeIdentifierSingleQuoted o ho tree m t h kd hs
  | afterDoctypeIdentifier kd => exact eof_afterDoctypeIdentifier o ho tree m t h kd hs
  | rawData kd => exact eof_rawData o ho tree m t h kd hs
  | rawLessThanSign kd => exact eof_rawLessThanSign o ho tree m t h kd hs
  | rawEndTagOpen kd => exact eof_rawEndTagOpen o ho tree m t h kd hs
  | rawEndTagName kd => exact eof_rawEndTagName o ho tree m t h kd hs

/-- **end of file**: the model's `eof_step` loop, started in a configuration related to the
specification's, ends with the output with which the specification, reading the empty input, stops -/
theorem eof_sim (o : Opts) (ho : o.exactErrors = false) (tree : Tree) (m : Mach) (t : Tok)
    (h : RegCore m t) (mf : Mach) (he : eofLoop o 8 m = .ok mf) : StopsWith tree t (flat mf.out) :=
  eof_ok o ho tree m t h 4 mf he

/-- the loop never fails and never runs out of its fuel -/
theorem eofLoop_ok (o : Opts) (m : Mach) : ∃ mf, eofLoop o 8 m = .ok mf := by
  cases hs : m.state with
  | rawData kd => cases kd with
    | scriptDataEscaped e => cases e <;> simp [eofLoop, transEof, hs, to, reconsumeTo]
    | _ => simp [eofLoop, transEof, hs, to, reconsumeTo]
  | rawLessThanSign kd => cases kd with
    | scriptDataEscaped e => cases e <;> simp [eofLoop, transEof, hs, to, reconsumeTo]
    | _ => simp [eofLoop, transEof, hs, to, reconsumeTo]
  | rawEndTagOpen kd => cases kd with
    | scriptDataEscaped e => cases e <;> simp [eofLoop, transEof, hs, to, reconsumeTo]
    | _ => simp [eofLoop, transEof, hs, to, reconsumeTo]
  | rawEndTagName kd => cases kd with
    | scriptDataEscaped e => cases e <;> simp [eofLoop, transEof, hs, to, reconsumeTo]
    | _ => simp [eofLoop, transEof, hs, to, reconsumeTo]
  | scriptDataEscapeStart kd => cases kd <;> simp [eofLoop, transEof, hs, to, reconsumeTo]
  | _ => simp [eofLoop, transEof, hs, to, reconsumeTo]

end H5V.Lemmas.HtmlTokSpec
