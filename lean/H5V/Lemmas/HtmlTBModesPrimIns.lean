import H5V.Lemmas.HtmlTBModesDefs
/-!
Simulation lemmas for the INSERTION primitives of `Model/HtmlTB/Actions.lean` against the helpers of
`Spec/TreeModes{1,2,3}.lean`.
-/
namespace H5V.Lemmas.HtmlTBModes
open H5V.Model.HtmlTB
open H5V.Model.Dom (Id SinkOp Output Dom QualName Attr NodeOrText ElementFlags NodeData QuirksMode)
open H5V.Lemmas.HtmlTBAlgo
open H5V.Lemmas.Dom
open H5V.Lemmas.HtmlTBSpec (toAdj Plain toName)
open H5V.Lemmas.TBSafe (TI HInv SInv Rooted)
open H5V.Spec.TreeAlgo2 (Elem Entry PState Ctx Edit Place)
open H5V.Spec.TreeModes (STok ETok IMode Config Out TokSwitch XOp Op Step Edition)

/-! ### tokens -/

/-- the element token of the specification's tag of a plain model tag is the model tag's element token -/
theorem specTag_etok {t : Tag} (hp : PlainTag t) : Spec.TreeModes.Tag.etok (specTag t) = etokOf t := by
  simp only [Spec.TreeModes.Tag.etok, specTag, etokOf, List.map_map]
  congr 1
  apply List.map_congr_left
  intro a ha
  have h := hp a ha
  unfold Plain at h
  simp only [Function.comp, toAdj]
  rw [h]
  rfl

/-! ### the model panics on the empty stack -/

theorem pc_bind_false {α β : Type} {m : M α} {f : α → M β} {s : State} {Q : β → State → List Call → Prop}
    (h : PC m s (fun _ _ _ => False)) : PC (m >>= f) s Q :=
  pc_bind (pc_conseq h fun _ _ _ _ hf => hf.elim)

theorem pc_currentNode_nil {s : State} (h : s.openElems = []) {Q : Id → State → List Call → Prop} :
    PC currentNode s Q := by
  unfold currentNode
  refine pc_getS_bind ?_
  simp only [h, List.getLast?_nil]
  exact pc_panicAt

theorem pc_apfi_nil {s : State} (h : s.openElems = []) {Q : InsertionPoint → State → List Call → Prop} :
    PC (appropriatePlaceForInsertion none) s Q := by
  rw [apfi_eq]
  exact pc_bind_false (pc_currentNode_nil h)

theorem pc_insertElement_nil {s : State} (h : s.openElems = []) (pushIt : Bool) (ns name : Str) (attrs : List Attr)
    (hadDup : Bool) {Q : Id → State → List Call → Prop} : PC (insertElement pushIt ns name attrs hadDup) s Q := by
  rw [insertElement_eq]
  unfold ieMain
  exact pc_bind_false (pc_apfi_nil h)

theorem pc_insertAppropriately_nil {s : State} (h : s.openElems = []) (child : NodeOrText)
    {Q : Unit → State → List Call → Prop} : PC (insertAppropriately child none) s Q := by
  unfold insertAppropriately
  exact pc_bind_false (pc_apfi_nil h)

/-! ### steps that change the stack of open elements only -/

/-- only the stack of open elements, the sink and the trace changed -/
structure SameButOpen (s s' : State) : Prop where
  opts : s'.opts = s.opts
  mode : s'.mode = s.mode
  origMode : s'.origMode = s.origMode
  templateModes : s'.templateModes = s.templateModes
  pendingTableText : s'.pendingTableText = s.pendingTableText
  quirksMode : s'.quirksMode = s.quirksMode
  docHandle : s'.docHandle = s.docHandle
  activeFormatting : s'.activeFormatting = s.activeFormatting
  headElem : s'.headElem = s.headElem
  formElem : s'.formElem = s.formElem
  framesetOk : s'.framesetOk = s.framesetOk
  ignoreLf : s'.ignoreLf = s.ignoreLf
  fosterParenting : s'.fosterParenting = s.fosterParenting
  contextElem : s'.contextElem = s.contextElem

theorem SameButOpen.of_eq {s s' : State} {l : List Id}
    (h : s' = { s with openElems := l, dom := s'.dom, traceRev := s'.traceRev }) : SameButOpen s s' := by
  constructor <;> rw [h]

theorem SameButOpen.of_same {s s' : State} (h : SameTB s s') : SameButOpen s s' := by
  have f := h.fields
  exact ⟨f.opts, f.mode, f.origMode, f.templateModes, f.pendingTableText, f.quirksMode, f.docHandle,
    f.activeFormatting, f.headElem, f.formElem, f.framesetOk, f.ignoreLf, f.fosterParenting, f.contextElem⟩

theorem cfgOf_sameButOpen {s s' : State} (hm : MInv s) (f : SameButOpen s s') (he : TBSafe.Ext s.dom s'.dom) :
    cfgOf s' = cfgOf s := by
  obtain ⟨c1, c2⟩ := context_ext hm he
  simp only [cfgOf, f.docHandle, f.opts, f.contextElem, c1, c2]

theorem absF_sameButOpen {s s' : State} (hm : MInv s) (f : SameButOpen s s') (he : TBSafe.Ext s.dom s'.dom) (x : Aux) :
    absF s' x = { absF s x with p := absP s' x } := by
  have e2 : s'.headElem.map (elemOf s'.dom) = s.headElem.map (elemOf s.dom) := by
    rw [f.headElem]; exact headPointer_ext hm he
  simp only [absF, e2, f.mode, f.origMode, f.templateModes, f.pendingTableText, f.quirksMode, f.framesetOk, f.ignoreLf]

theorem absP_sameButOpen {s s' : State} (f : SameButOpen s s') (x : Aux) :
    absP s' x = { absP s x with stack := if x.stopped then [] else absStack s'.dom s'.openElems } := by
  simp only [absP, f.activeFormatting, f.fosterParenting, f.formElem]

/-- the invariant after a push of a fresh element -/
theorem MInv.pushed {s s' : State} {a : Id} (hm : MInv s) (f : SameButOpen s s') (he : TBSafe.Ext s.dom s'.dom)
    (ho : s'.openElems = s.openElems ++ [a]) (hfresh : s.dom.size ≤ a) (hel : s'.dom.isElement a = true)
    (hroot : s.openElems = [] → nameOf s'.dom a = ⟨nsHtml, "html".toList⟩)
    (hip : (nameOf s'.dom a).ns ≠ nsHtml → ipOfDom s'.dom a = true → nameOf s'.dom a = annotName) : MInv s' := by
  refine ⟨?_, ?_, ?_, ?_, ?_, ?_, ?_, ?_, by rw [f.templateModes]; exact hm.tmodes, hm.form_ext he f.formElem,
    by rw [f.pendingTableText]; exact hm.pend⟩
  · rw [ho]
    intro y hy
    rcases List.mem_append.mp hy with h | h
    · exact isElement_ext he (hm.elems y h)
    · simp only [List.mem_singleton] at h; subst h; exact hel
  · intro h0 hh
    rw [ho] at hh
    cases hl : s.openElems with
    | nil => rw [hl] at hh; simp at hh; subst hh; exact hroot hl
    | cons b r =>
      rw [hl] at hh; simp at hh; subst hh
      rw [nameOf_ext he (hm.elems b (by rw [hl]; simp))]
      exact hm.root b (by rw [hl]; rfl)
  · rw [ho, f.activeFormatting]
    intro y t hy
    obtain ⟨h1, h2, h3⟩ := hm.af y t hy
    refine ⟨isElement_lt (isElement_ext he (hm.afEl y t hy)), h2, fun hx => ?_⟩
    rcases List.mem_append.mp hx with h | h
    · rw [nameOf_ext he (hm.elems y h)]; exact h3 h
    · simp only [List.mem_singleton] at h; subst h
      exact absurd (Nat.lt_of_lt_of_le h1 hfresh) (Nat.lt_irrefl _)
  · intro y t hy; rw [f.activeFormatting] at hy; exact isElement_ext he (hm.afEl y t hy)
  · intro y hy; rw [f.headElem] at hy; exact isElement_ext he (hm.head y hy)
  · exact hm.ctx_ext he f.contextElem
  · intro y t hy; rw [f.activeFormatting] at hy
    rw [nameOf_ext he (hm.afEl y t hy)]; exact hm.afwf y t hy
  · rw [ho]
    intro y hy
    rcases List.mem_append.mp hy with h | h
    · rw [nameOf_ext he (hm.elems y h), ipOfDom_ext he (hm.elems y h)]; exact hm.ip y h
    · simp only [List.mem_singleton] at h; subst h; exact hip

/-- the invariant when only the sink moved -/
theorem MInv.sameButOpen {s s' : State} (hm : MInv s) (f : SameButOpen s s') (he : TBSafe.Ext s.dom s'.dom)
    (ho : s'.openElems = s.openElems) : MInv s' := by
  refine ⟨by rw [ho]; exact ElemsOk.ext hm.elems he, ?_, ?_, ?_, ?_, ?_, ?_, ?_, by rw [f.templateModes]; exact hm.tmodes,
    hm.form_ext he f.formElem, by rw [f.pendingTableText]; exact hm.pend⟩
  · intro h0 hh; rw [ho] at hh
    rw [nameOf_ext he (hm.elems h0 (List.mem_of_head? hh))]; exact hm.root h0 hh
  · rw [ho, f.activeFormatting]
    intro y t hy
    obtain ⟨h1, h2, h3⟩ := hm.af y t hy
    exact ⟨isElement_lt (isElement_ext he (hm.afEl y t hy)), h2, fun hx => by rw [nameOf_ext he (hm.elems y hx)]; exact h3 hx⟩
  · intro y t hy; rw [f.activeFormatting] at hy; exact isElement_ext he (hm.afEl y t hy)
  · intro y hy; rw [f.headElem] at hy; exact isElement_ext he (hm.head y hy)
  · exact hm.ctx_ext he f.contextElem
  · intro y t hy; rw [f.activeFormatting] at hy
    rw [nameOf_ext he (hm.afEl y t hy)]; exact hm.afwf y t hy
  · rw [ho]
    intro y hy
    rw [nameOf_ext he (hm.elems y hy), ipOfDom_ext he (hm.elems y hy)]; exact hm.ip y hy

/-! ### the new element of a `create_element` call -/

theorem replay_mem : ∀ {d d' : Dom} {calls : List Call}, Replay d calls d' → ∀ c ∈ calls,
    ∃ d0 d1 : Dom, Dom.apply d0 c.1 = Except.ok (d1, c.2) ∧ TBSafe.Ext d1 d' := by
  intro d d' calls
  induction calls generalizing d with
  | nil => intro _ c hc; cases hc
  | cons c0 r ih =>
    intro h c hc
    obtain ⟨dm, h1, h2⟩ := h
    rcases List.mem_cons.mp hc with rfl | hc
    · exact ⟨d, dm, h1, replay_ext h2⟩
    · exact ih h2 c hc

theorem ipOfDom_createElement (d : Dom) (name : QualName) (attrs : List Attr) (flags : ElementFlags) :
    ipOfDom (d.createElement name attrs flags).1 (d.createElement name attrs flags).2 = flags.mathmlIP ∧
    (d.createElement name attrs flags).1.isElement (d.createElement name attrs flags).2 = true := by
  unfold Dom.createElement ipOfDom Dom.isElement
  by_cases ht : flags.template = true
  · simp only [ht, if_true, dataOf_alloc, alloc_id]
    simp
  · have ht' : flags.template = false := by simpa using ht
    simp only [ht', Bool.false_eq_true, if_false, dataOf_alloc, alloc_id]
    simp

/-- the integration-point flag of the element made by a `create_element` call of a replayed call list -/
theorem ipOfDom_of_create {d d' : Dom} {calls : List Call} (h : Replay d calls d') {name : QualName} {attrs : List Attr}
    {flags : ElementFlags} {a : Id} (hc : (SinkOp.createElement name attrs flags, Output.node a) ∈ calls) :
    ipOfDom d' a = flags.mathmlIP := by
  obtain ⟨d0, d1, h1, h2⟩ := replay_mem h _ hc
  rw [TBSafe.apply_createElement] at h1
  have e1 : d1 = (d0.createElement name attrs flags).1 := by cases h1; rfl
  have e2 : a = (d0.createElement name attrs flags).2 := by cases h1; rfl
  obtain ⟨f1, f2⟩ := ipOfDom_createElement d0 name attrs flags
  rw [← e1, ← e2] at f1 f2
  rw [ipOfDom_ext h2 f2, f1]

/-! ### `insert_element` -/

/-- `create_element_with_flags` sets the integration-point flag only on a MathML `annotation-xml` -/
theorem name_of_flagsFor_ip {ns name : Str} {attrs : List Attr} {hadDup : Bool}
    (h : (flagsFor { pfx := none, ns := ns, loc := name } attrs hadDup).mathmlIP = true) :
    (⟨ns, name⟩ : EName) = annotName := by
  unfold flagsFor at h
  by_cases hc : (ns == nsMathml && isName name "annotation-xml") = true
  · simp only [Bool.and_eq_true, beq_iff_eq, isName] at hc
    obtain ⟨h1, h2⟩ := hc
    subst h1; subst h2; rfl
  · simp only [hc] at h
    exact absurd h (by simp)

/-- `MInv.ip` for a new element named `⟨ns, name⟩` made by `create_element_with_flags` -/
theorem ip_of_flagsFor {d : Dom} {a : Id} {ns name : Str} {attrs : List Attr} {hadDup : Bool}
    (hnm : nameOf d a = ⟨ns, name⟩)
    (hip : ipOfDom d a = (flagsFor { pfx := none, ns := ns, loc := name } attrs hadDup).mathmlIP) :
    (nameOf d a).ns ≠ nsHtml → ipOfDom d a = true → nameOf d a = annotName := by
  intro _ h
  rw [hnm]
  exact name_of_flagsFor_ip (by rw [← hip]; exact h)

/-- `MInv.ip` for a new HTML element -/
theorem ip_of_html {d : Dom} {a : Id} {name : Str} (hnm : nameOf d a = ⟨nsHtml, name⟩) :
    (nameOf d a).ns ≠ nsHtml → ipOfDom d a = true → nameOf d a = annotName := by
  intro h; rw [hnm] at h; exact absurd rfl h

/-- the new integration points of "insert a foreign element": the new node if it is a MathML
`annotation-xml` element with a matching `encoding` attribute -/
def newAnnot (ns : Str) (tag : Tag) (a : Id) : List Id :=
  if (flagsFor { pfx := none, ns := ns, loc := tag.name } tag.attrs tag.hadDup).mathmlIP then [a] else []

theorem create_mem_of_spec {s : State} {a : Id} {rest : List Id} {tag : Tag} {ns : Str} {only : Bool}
    {p : PState Id Tag} {e : Elem Id}
    (h : Spec.TreeAlgo2.insertForeignElement tagCtx (absState s (a :: rest) []) tag ns only = some (p, e)) :
    Edit.create a ns tag ∈ p.log := by
  unfold Spec.TreeAlgo2.insertForeignElement at h
  cases hp : Spec.TreeAlgo2.appropriatePlace (absState s (a :: rest) []).stack (absState s (a :: rest) []).fosterParenting none with
  | none => rw [hp] at h; cases h
  | some loc =>
    rw [hp] at h
    simp only [Option.bind_some, PState.newNode, absState, Option.map_some, Option.some.injEq, Prod.mk.injEq] at h
    rw [← h.1]
    simp

theorem absStack_snoc (d : Dom) (l : List Id) (a : Id) : absStack d (l ++ [a]) = absStack d l ++ [elemOf d a] := by
  simp [absStack]

/-- from the phase-1 facts about an insertion (`insert_element`, `insert_foreign_element`) to the stretch -/
theorem tr_insert_of_spec {s s' : State} {calls : List Call} (hm : MInv s) (hne : s.openElems ≠ [])
    (pushIt only : Bool) (ns : Str) (tag : Tag) (a : Id) (he : Ext2 s calls s') (f : SameButOpen s s')
    (ho : s'.openElems = if pushIt then s.openElems ++ [a] else s.openElems)
    (hfresh : s.dom.size ≤ a) (hel : s'.dom.isElement a = true) (hnm : nameOf s'.dom a = ⟨ns, tag.name⟩)
    (L : List (Edit Id Tag)) (hL : ∀ tc, TcOk s.dom tc → edits calls = L.map (editCall tc))
    (hspec : ∀ rest log0, Spec.TreeAlgo2.insertForeignElement tagCtx (absState s (a :: rest) log0) tag ns only
      = some ({ absState s rest (log0 ++ L) with
                  stack := absStack s.dom s.openElems ++ [⟨a, ⟨ns, tag.name⟩⟩] }, ⟨a, ⟨ns, tag.name⟩⟩)) :
    Tr s s' calls (fun x x' => ∃ p1,
      Spec.TreeAlgo2.insertForeignElement Spec.TreeModes.cx (absP s x) (etokOf tag) ns only
        = some (p1, ⟨a, ⟨ns, tag.name⟩⟩) ∧
      absF s' x' = { absF s x with p := if pushIt then p1 else { p1 with stack := p1.stack.dropLast },
                                   annotationHtml := x.annot ++ newAnnot ns tag a }) := by
  have hx := he.ext
  have hcreate : Edit.create a ns tag ∈ L := by
    exact create_mem_of_spec (hspec [] [])
  have hip : ipOfDom s'.dom a = (flagsFor { pfx := none, ns := ns, loc := tag.name } tag.attrs tag.hadDup).mathmlIP := by
    have h1 := hL (tcOf s.dom) (TcOk.self _)
    have hmem : createCall ns tag a ∈ edits calls := by
      rw [h1]; exact List.mem_map.mpr ⟨_, hcreate, rfl⟩
    exact ipOfDom_of_create he.replay (List.mem_filter.mp hmem).1
  have hm' : MInv s' := by
    cases pushIt
    · exact hm.sameButOpen f hx (by simpa using ho)
    · exact hm.pushed f hx (by simpa using ho) hfresh hel (fun h => absurd h hne) (ip_of_flagsFor hnm hip)
  have hold : ∀ h ∈ s.openElems, h ≠ a := by
    intro h hh e
    have := isElement_lt (hm.elems h hh)
    rw [e] at this
    exact absurd (Nat.lt_of_lt_of_le this hfresh) (Nat.lt_irrefl _)
  refine (Tr.of_edits hm' (cfgOf_sameButOpen hm f hx) he [a] L (newAnnot ns tag a)
    (FreshIds.of_size (by intro n hn; simp only [List.mem_singleton] at hn; subst hn; exact hfresh)) ?_ ?_ ?_).conseq ?_
  · intro tc htc; exact hL tc (tcOk_of_ext htc hx)
  · intro x hxa h hh hn
    have hcase : h ∈ s.openElems ∨ h = a := by
      rw [ho] at hh
      cases pushIt
      · exact Or.inl (by simpa using hh)
      · simp only [if_true, List.mem_append, List.mem_singleton] at hh; exact hh
    rcases hcase with hin | rfl
    · rw [nameOf_ext hx (hm.elems h hin)] at hn
      rw [ipOfDom_ext hx (hm.elems h hin), ← hxa.annot h hin hn]
      have : (newAnnot ns tag a).contains h = false := by
        unfold newAnnot; split
        · simp [hold h hin]
        · rfl
      rw [List.contains_append, this, Bool.or_false]
    · have : x.annot.contains h = false := by
        cases hc : x.annot.contains h with
        | false => rfl
        | true =>
          have hmem : h ∈ x.annot := by simpa using hc
          have := isElement_lt (hxa.annotEl h hmem)
          exact absurd (Nat.lt_of_lt_of_le this hfresh) (Nat.lt_irrefl _)
      rw [hip, List.contains_append, this, Bool.false_or]
      unfold newAnnot
      cases (flagsFor { pfx := none, ns := ns, loc := tag.name } tag.attrs tag.hadDup).mathmlIP <;> simp
  · intro b hb
    unfold newAnnot at hb
    split at hb
    · simp only [List.mem_singleton] at hb; subst hb; exact hel
    · cases hb
  · rintro x x' hxa _ ⟨hx', rest, hsup⟩
    subst hx'
    have hsup' : x.supply = a :: rest := hsup
    have h1 := insertForeignElement_mapP etokOf ctxMap_etok (absState s (a :: rest) x.logT) tag ns only
    rw [hspec rest x.logT] at h1
    have hstk : absStack s'.dom s'.openElems = if pushIt then absStack s.dom s.openElems ++ [⟨a, ⟨ns, tag.name⟩⟩]
        else absStack s.dom s.openElems := by
      rw [ho]
      have e1 : elemOf s'.dom a = ⟨a, ⟨ns, tag.name⟩⟩ := by unfold elemOf; rw [hnm]; rfl
      cases pushIt
      · simp only [Bool.false_eq_true, if_false]; exact absStack_ext hm.elems hx
      · simp only [if_true]; rw [absStack_snoc, absStack_ext hm.elems hx, e1]
    let P : PState Id ETok := { absP s x with
      stack := absStack s.dom s.openElems ++ [⟨a, ⟨ns, tag.name⟩⟩], supply := rest,
      log := x.log ++ L.map (Edit.mapTok etokOf) }
    have hP : mapP etokOf { absState s rest (x.logT ++ L) with
        stack := absStack s.dom s.openElems ++ [⟨a, ⟨ns, tag.name⟩⟩] } = P := by
      show ({ mapP etokOf (absState s rest (x.logT ++ L)) with
        stack := absStack s.dom s.openElems ++ [⟨a, ⟨ns, tag.name⟩⟩] } : PState Id ETok) = P
      rw [mapP_absState]
      simp only [P, absP, List.map_append, Aux.logT_map]
    refine ⟨P, ?_, ?_⟩
    · rw [absP_eq s x hxa.live, hsup', h1]
      simp only [Option.map_some, mapFst_mk, hP]
    · rw [absF_sameButOpen hm f hx]
      have : absP s' (x.step [a].length L (newAnnot ns tag a))
          = if pushIt then P else { P with stack := P.stack.dropLast } := by
        rw [absP_sameButOpen f, hstk]
        cases pushIt <;> simp [P, Aux.step, absP, hxa.live, hsup']
      rw [this]; rfl

/-- `insert_element(push, ns, tag)` (mod.rs:1360) against `TreeAlgo2.insertForeignElement` on the abstract
state (`pushIt = false`: the new element is popped again) -/
theorem pc_insertElement_core {s : State} (hm : MInv s) (pushIt : Bool) (ns : Str) (tag : Tag) :
    PC (insertElement pushIt ns tag.name tag.attrs tag.hadDup) s (fun a s' calls =>
      SameButOpen s s' ∧ s'.openElems = (if pushIt then s.openElems ++ [a] else s.openElems) ∧
      s.dom.size ≤ a ∧ s'.dom.isElement a = true ∧ nameOf s'.dom a = ⟨ns, tag.name⟩ ∧
      Tr s s' calls (fun x x' => ∃ p1,
        Spec.TreeAlgo2.insertForeignElement Spec.TreeModes.cx (absP s x) (etokOf tag) ns false
          = some (p1, ⟨a, ⟨ns, tag.name⟩⟩) ∧
        absF s' x' = { absF s x with p := if pushIt then p1 else { p1 with stack := p1.stack.dropLast },
                                     annotationHtml := x.annot ++ newAnnot ns tag a })) := by
  by_cases hne : s.openElems = []
  · exact pc_insertElement_nil hne _ _ _ _ _
  have hhead := hm.headOk hne
  refine pc_conseq (PC.of_tot (tot_insertElement_spec s pushIt ns tag hm.elems hhead)) ?_
  rintro a s' calls he ⟨hs', hfresh, hel, hnm, L, hL, hspec⟩
  have f : SameButOpen s s' := SameButOpen.of_eq hs'
  have ho : s'.openElems = if pushIt then s.openElems ++ [a] else s.openElems := by rw [hs']
  exact ⟨f, ho, hfresh, hel, hnm, tr_insert_of_spec hm hne pushIt false ns tag a he f ho hfresh hel hnm L hL hspec⟩

/-! ### changing the unobserved part of the final `Aux` of a stretch -/

/-- the final `Aux` of a stretch may be replaced by one that differs in what `Link` does not look at
(error labels, the self-closing acknowledgement, the original-mode default, the junk table text) -/
theorem Tr.reaux {s s' : State} {c : List Call} {R R' : Aux → Aux → Prop} (h : Tr s s' c R) (g : Aux → Aux → Aux)
    (hg : ∀ x x', AuxSame x' (g x x') ∧ (g x x').stopped = x'.stopped ∧ (g x x').out.switch = x'.out.switch ∧
      (g x x').out.script = x'.out.script)
    (hr : ∀ x x', AuxOk s x → AuxOk s' x' → R x x' → R' x (g x x')) : Tr s s' c R' := by
  obtain ⟨hm, hc, he, ids, hfi, f⟩ := h
  refine ⟨hm, hc, he, ids, hfi, fun x rest hx hs => ?_⟩
  obtain ⟨x', l, r⟩ := f x rest hx hs
  obtain ⟨hsame, hst, hsw, hsc⟩ := hg x x'
  refine ⟨g x x', ⟨⟨by rw [hst]; exact l.aux.live, by rw [hsame.annot]; exact l.aux.annot,
    by rw [hsame.annot]; exact l.aux.annotEl, by rw [hsame.xlog, hsame.log]; exact l.aux.xlog⟩,
    hsame.supply.trans l.supply, hsw.trans l.switch, hsc.trans l.script, hsame.outs.trans l.outs, ?_⟩, hr x x' hx l.aux r⟩
  obtain ⟨ops, e1, k1⟩ := l.log
  refine ⟨ops, ?_, k1⟩
  unfold Aux.fullLog at e1 ⊢
  rw [hsame.xlog, hsame.log]; exact e1

/-! ### "insert an HTML element" -/

theorem newAnnot_html (tag : Tag) (a : Id) : newAnnot nsHtml tag a = [] := by
  unfold newAnnot flagsFor
  have : (nsHtml == nsMathml) = false := by decide
  simp [this]

theorem pop_eq (σ : SState) : Spec.TreeModes.State.pop σ = { σ with p := { σ.p with stack := σ.p.stack.dropLast } } := rfl

/-- `insert_element(push, html, tag)` against `insertHtml` for a specification tag `st` with the same
element token -/
theorem pc_insertHtml_core {s : State} (hm : MInv s) (pushIt : Bool) (t : Tag) (st : STag) (het : st.etok = etokOf t) :
    PC (insertElement pushIt nsHtml t.name t.attrs t.hadDup) s (fun a s' calls =>
      SameButOpen s s' ∧ s'.openElems = (if pushIt then s.openElems ++ [a] else s.openElems) ∧
      s.dom.size ≤ a ∧ s'.dom.isElement a = true ∧ nameOf s'.dom a = ⟨nsHtml, t.name⟩ ∧
      Tr s s' calls (fun x x' => ∃ σ1, Spec.TreeModes.insertHtml (absF s x) st = .ok (σ1, elemOf s'.dom a) ∧
        absF s' x' = if pushIt then σ1 else σ1.pop)) := by
  refine pc_conseq (pc_insertElement_core hm pushIt nsHtml t) ?_
  rintro a s' calls he ⟨f, ho, hfresh, hel, hnm, htr⟩
  refine ⟨f, ho, hfresh, hel, hnm, htr.conseq ?_⟩
  rintro x x' hx hx' ⟨p1, h1, h2⟩
  have e1 : elemOf s'.dom a = ⟨a, ⟨nsHtml, t.name⟩⟩ := by unfold elemOf; rw [hnm]; rfl
  refine ⟨{ absF s x with p := p1 }, ?_, ?_⟩
  · unfold Spec.TreeModes.insertHtml Spec.TreeAlgo2.insertHtmlElement
    rw [het, absF_p]
    rw [show Spec.TreeAlgo.nsHtml = nsHtml from rfl, h1, e1]
    rfl
  · rw [h2, newAnnot_html, List.append_nil]
    cases pushIt <;> rfl

/-- `insert_element_for(tag)` (mod.rs:1416) is "insert an HTML element" (`insertHtml`) -/
theorem pc_insertElementFor {s : State} (hm : MInv s) {t : Tag} (hp : PlainTag t) :
    PC (insertElementFor t) s (fun a s' calls =>
      SameButOpen s s' ∧ s'.openElems = s.openElems ++ [a] ∧ s.dom.size ≤ a ∧ s'.dom.isElement a = true ∧
      nameOf s'.dom a = ⟨nsHtml, t.name⟩ ∧
      Tr s s' calls (fun x x' => Spec.TreeModes.insertHtml (absF s x) (specTag t) = .ok (absF s' x', elemOf s'.dom a))) := by
  unfold insertElementFor
  refine pc_conseq (pc_insertHtml_core hm true t (specTag t) (specTag_etok hp)) ?_
  rintro a s' calls he ⟨f, ho, hfresh, hel, hnm, htr⟩
  refine ⟨f, by simpa using ho, hfresh, hel, hnm, htr.conseq ?_⟩
  rintro x x' hx hx' ⟨σ1, h1, h2⟩
  rw [h2]; exact h1

/-- `insert_element_for(tag)` against `insertHtml'` -/
theorem pc_insertElementFor' {s : State} (hm : MInv s) {t : Tag} (hp : PlainTag t) :
    PC (insertElementFor t) s (fun a s' calls =>
      SameButOpen s s' ∧ s'.openElems = s.openElems ++ [a] ∧ s.dom.size ≤ a ∧ s'.dom.isElement a = true ∧
      nameOf s'.dom a = ⟨nsHtml, t.name⟩ ∧
      Tr s s' calls (fun x x' => Spec.TreeModes.insertHtml' (absF s x) (specTag t) = .ok (absF s' x'))) := by
  refine pc_conseq (pc_insertElementFor hm hp) ?_
  rintro a s' calls he ⟨f, ho, hfresh, hel, hnm, htr⟩
  refine ⟨f, ho, hfresh, hel, hnm, htr.conseq ?_⟩
  rintro x x' hx hx' h1
  unfold Spec.TreeModes.insertHtml'
  rw [h1]; rfl

/-- the tag `insert_phantom(name)` creates an element for -/
def phantomTag (name : String) : Tag := { kind := .startTag, name := name.toList }

/-- `insert_phantom(name)` (mod.rs:1436) is "insert an HTML element for a `name` start tag token with no
attributes" -/
theorem pc_insertPhantom {s : State} (hm : MInv s) (name : String) :
    PC (insertPhantom name) s (fun a s' calls =>
      SameButOpen s s' ∧ s'.openElems = s.openElems ++ [a] ∧ s.dom.size ≤ a ∧ s'.dom.isElement a = true ∧
      nameOf s'.dom a = ⟨nsHtml, name.toList⟩ ∧
      Tr s s' calls (fun x x' =>
        Spec.TreeModes.insertHtml (absF s x) (Spec.TreeModes.bareTag name) = .ok (absF s' x', elemOf s'.dom a))) := by
  have e : insertPhantom name = insertElement true nsHtml (phantomTag name).name (phantomTag name).attrs (phantomTag name).hadDup := rfl
  rw [e]
  refine pc_conseq (pc_insertHtml_core hm true (phantomTag name) (Spec.TreeModes.bareTag name) rfl) ?_
  rintro a s' calls he ⟨f, ho, hfresh, hel, hnm, htr⟩
  refine ⟨f, by simpa using ho, hfresh, hel, hnm, htr.conseq ?_⟩
  rintro x x' hx hx' ⟨σ1, h1, h2⟩
  rw [h2]; exact h1

/-- `insert_phantom(name)` against `insertHtml'` -/
theorem pc_insertPhantom' {s : State} (hm : MInv s) (name : String) :
    PC (insertPhantom name) s (fun a s' calls =>
      SameButOpen s s' ∧ s'.openElems = s.openElems ++ [a] ∧ s.dom.size ≤ a ∧ s'.dom.isElement a = true ∧
      nameOf s'.dom a = ⟨nsHtml, name.toList⟩ ∧
      Tr s s' calls (fun x x' =>
        Spec.TreeModes.insertHtml' (absF s x) (Spec.TreeModes.bareTag name) = .ok (absF s' x'))) := by
  refine pc_conseq (pc_insertPhantom hm name) ?_
  rintro a s' calls he ⟨f, ho, hfresh, hel, hnm, htr⟩
  refine ⟨f, ho, hfresh, hel, hnm, htr.conseq ?_⟩
  rintro x x' hx hx' h1
  unfold Spec.TreeModes.insertHtml'
  rw [h1]; rfl

/-- `insert_and_pop_element_for(tag)` (mod.rs:1426) is "insert an HTML element" followed by "pop the
current node" (the caller deals with the acknowledgement of the self-closing flag) -/
theorem pc_insertAndPopElementFor {s : State} (hm : MInv s) {t : Tag} (hp : PlainTag t) :
    PC (insertAndPopElementFor t) s (fun a s' calls =>
      SameButOpen s s' ∧ s'.openElems = s.openElems ∧ s.dom.size ≤ a ∧ s'.dom.isElement a = true ∧
      nameOf s'.dom a = ⟨nsHtml, t.name⟩ ∧
      Tr s s' calls (fun x x' => ∃ σ1, Spec.TreeModes.insertHtml' (absF s x) (specTag t) = .ok σ1 ∧
        absF s' x' = σ1.pop)) := by
  unfold insertAndPopElementFor
  refine pc_conseq (pc_insertHtml_core hm false t (specTag t) (specTag_etok hp)) ?_
  rintro a s' calls he ⟨f, ho, hfresh, hel, hnm, htr⟩
  refine ⟨f, by simpa using ho, hfresh, hel, hnm, htr.conseq ?_⟩
  rintro x x' hx hx' ⟨σ1, h1, h2⟩
  refine ⟨σ1, ?_, by simpa using h2⟩
  unfold Spec.TreeModes.insertHtml'
  rw [h1]; rfl

/-- the `Aux` with the self-closing flag of `t` acknowledged -/
def Aux.ack (x : Aux) (selfClosing : Bool) : Aux :=
  if selfClosing then { x with out := { x.out with ackSelfClosing := true } } else x

theorem absF_ack (s : State) (x : Aux) (t : STag) : absF s (x.ack t.selfClosing) = (absF s x).ack t := by
  unfold Aux.ack Spec.TreeModes.State.ack
  cases t.selfClosing <;> rfl

theorem Aux.ack_same (x : Aux) (b : Bool) : AuxSame x (x.ack b) ∧ (x.ack b).stopped = x.stopped ∧
    (x.ack b).out.switch = x.out.switch ∧ (x.ack b).out.script = x.out.script := by
  unfold Aux.ack
  cases b <;> exact ⟨⟨rfl, rfl, rfl, rfl, rfl⟩, rfl, rfl, rfl⟩

/-- `insert_and_pop_element_for(tag)` is `insertVoid`: "insert an HTML element, immediately pop the
current node, acknowledge the token's self-closing flag" (html5ever: result `DoneAckSelfClosing`) -/
theorem pc_insertVoid {s : State} (hm : MInv s) {t : Tag} (hp : PlainTag t) :
    PC (insertAndPopElementFor t) s (fun a s' calls =>
      SameButOpen s s' ∧ s'.openElems = s.openElems ∧ s.dom.size ≤ a ∧ s'.dom.isElement a = true ∧
      nameOf s'.dom a = ⟨nsHtml, t.name⟩ ∧
      Tr s s' calls (fun x x' => Spec.TreeModes.insertVoid (absF s x) (specTag t) = .ok (absF s' x'))) := by
  refine pc_conseq (pc_insertAndPopElementFor hm hp) ?_
  rintro a s' calls he ⟨f, ho, hfresh, hel, hnm, htr⟩
  refine ⟨f, ho, hfresh, hel, hnm, htr.reaux (fun _ x' => x'.ack t.selfClosing) (fun _ x' => x'.ack_same _) ?_⟩
  rintro x x' hx hx' ⟨σ1, h1, h2⟩
  unfold Spec.TreeModes.insertVoid
  rw [h1]
  show Except.ok (σ1.pop.ack (specTag t)) = _
  rw [← h2, ← absF_ack]; rfl

/-! ### "insert a character" -/

theorem flat_of_flat {calls : List Call} {L : List (Edit Id Tag)} {tc : Id → Id}
    (h : flatCalls (edits2 calls) = flatCalls (L.map (editCall tc))) :
    flatCalls (edits2 calls) = flatCalls (((L.map (Edit.mapTok etokOf)).map Op.edit).map (opCall tc)) := by
  rw [h]
  simp only [flatCalls, List.map_map, List.flatMap_map]
  apply flatMap_congr'
  intro e _
  exact (flatCall_editCallE tc e).symm

/-- **glue**, up to the splitting of text insertions: a stretch whose DOM calls are, up to `flatCalls`,
the edits `L` -/
theorem Tr.of_flat {s s' : State} {calls : List Call} (hm' : MInv s') (hc : cfgOf s' = cfgOf s)
    (he : Ext2 s calls s') (ids : List Id) (L : List (Edit Id Tag)) (na : List Id) (hfi : FreshIds s ids)
    (hcalls : ∀ tc, TcOk s'.dom tc → flatCalls (edits2 calls) = flatCalls (L.map (editCall tc)))
    (hann : ∀ x, AuxOk s x → (∀ h ∈ s'.openElems, nameOf s'.dom h = annotName → (x.annot ++ na).contains h = ipOfDom s'.dom h))
    (hna : ∀ a ∈ na, s'.dom.isElement a = true) :
    Tr s s' calls (fun x x' => x' = x.step ids.length L na ∧ ∃ rest, x.supply = ids ++ rest) := by
  refine ⟨hm', hc, he.ext, ids, hfi, fun x rest hx hs => ⟨x.step ids.length L na, ⟨⟨hx.live, hann x hx, ?_, ?_⟩, ?_, rfl, rfl, rfl, ?_⟩, rfl, rest, hs⟩⟩
  · intro a ha
    rcases List.mem_append.mp ha with h | h
    · exact isElement_ext he.ext (hx.annotEl a h)
    · exact hna a h
  · refine ⟨hx.xlog.1, fun j hj => ?_⟩
    have := hx.xlog.2 j hj
    simp only [Aux.step, List.length_append]
    omega
  · simp [Aux.step, hs]
  · exact ⟨_, Aux.fullLog_step hx _ _ _, fun tc htc => flat_of_flat (hcalls tc htc)⟩

theorem flatCall_insertText (ip : InsertionPoint) (t : Str) (o : Output) :
    flatCall (insertOp ip (.text t), o) = t.map fun c => (insertOp ip (.text [c]), o) := by
  cases ip <;> rfl

theorem isEdit2_insertOp (ip : InsertionPoint) (ch : NodeOrText) : isEdit2 (insertOp ip ch) = true := by
  cases ip <;> rfl

theorem flatCalls_chars (tc : Id → Id) (place : Place Id) (text : Str) :
    flatCalls ((text.map fun c => Edit.insertText place [c]).map (editCall tc))
      = text.map fun c => (insertOp (ipOf tc place) (.text [c]), Output.unit) := by
  induction text with
  | nil => rfl
  | cons c r ih =>
    simp only [List.map_cons, flatCalls, List.flatMap_cons] at ih ⊢
    rw [ih]
    simp only [editCall, flatCall_insertText, List.map_cons, List.map_nil, List.singleton_append]

/-- `append_text(text)` (mod.rs:1322): one insertion of `text` at the appropriate place -/
theorem pc_appendText_flat {s : State} (hm : MInv s) (text : Str) :
    PC (appendText text) s (fun r s' calls => r = .done ∧ SameTB s s' ∧ ∃ place,
      Spec.TreeAlgo2.appropriatePlace (absStack s.dom s.openElems) s.fosterParenting none = some place ∧
      ∀ tc, TcOk s'.dom tc → flatCalls (edits2 calls)
        = text.map fun c => (insertOp (ipOf tc place) (.text [c]), Output.unit)) := by
  by_cases hne : s.openElems = []
  · unfold appendText
    exact pc_bind_false (pc_insertAppropriately_nil hne _)
  have hok := hm.elems
  obtain ⟨h0, hh0, hnt, hsp⟩ := hm.headOk hne
  obtain ⟨place, hplace, hpn⟩ := appropriatePlace_some (absStack s.dom s.openElems) s.fosterParenting none
    (elemOf s.dom h0) (by rw [absStack_head?, hh0]; rfl) hnt
  unfold appendText
  refine pc_seq (PC.of_tot (tot_insertAppropriately s (.text text) none hok (by simp) place hplace)) ?_
  rintro _ s1 c1 he1 ⟨hs1, hc1⟩
  refine pc_pure ⟨rfl, hs1, place, hplace, ?_⟩
  intro tc htc
  rw [List.append_nil, ← edits2_edits, hc1]
  have hpel : ∀ y ∈ placeNodes place, s.dom.isElement y = true := by
    intro y hy
    rcases hpn y hy with h | ⟨t, ht, _⟩
    · obtain ⟨e, he', rfl⟩ := List.mem_map.mp h
      obtain ⟨z, hz, rfl⟩ := List.mem_map.mp he'
      exact hok z hz
    · cases ht
  rw [← ipOf_congr (tcOk_of_ext htc he1.ext) hpel]
  simp only [edits2, List.filter_cons, isEdit2_insertOp, if_true, List.filter_nil, flatCalls, List.flatMap_cons,
    List.flatMap_nil, List.append_nil, flatCall_insertText]

theorem foldlM_insertChar (σ : SState) (place : Place Id)
    (h : Spec.TreeAlgo2.appropriatePlace σ.p.stack σ.p.fosterParenting none = some place) (text : Str) :
    text.foldlM (fun σ c => Spec.TreeModes.insertChar σ c) σ
      = .ok { σ with p := { σ.p with log := σ.p.log ++ text.map fun c => Edit.insertText place [c] } } := by
  induction text generalizing σ with
  | nil => simp only [List.foldlM_nil, List.map_nil, List.append_nil]; rfl
  | cons c r ih =>
    have e1 : Spec.TreeModes.insertChar σ c
        = .ok { σ with p := { σ.p with log := σ.p.log ++ [Edit.insertText place [c]] } } := by
      simp only [Spec.TreeModes.insertChar, Spec.TreeAlgo2.insertCharacters, h, Option.map_some, Spec.TreeModes.req]
      rfl
    rw [List.foldlM_cons, e1]
    show List.foldlM _ _ r = _
    rw [ih { σ with p := { σ.p with log := σ.p.log ++ [Edit.insertText place [c]] } } h]
    simp only [List.map_cons, List.append_assoc, List.singleton_append]

/-- `append_text(text)` is "insert a character" for every character of `text` (the sink merges the
insertions; `Link.log` compares the calls up to the splitting of text insertions) -/
theorem pc_appendText {s : State} (hm : MInv s) (text : Str) :
    PC (appendText text) s (fun r s' calls => r = .done ∧ SameTB s s' ∧
      Tr s s' calls (fun x x' =>
        text.foldlM (fun σ c => Spec.TreeModes.insertChar σ c) (absF s x) = .ok (absF s' x'))) := by
  refine pc_conseq (pc_appendText_flat hm text) ?_
  rintro r s' calls he ⟨hr, hs, place, hplace, hflat⟩
  refine ⟨hr, hs, ?_⟩
  refine (Tr.of_flat (hm.sameTB hs he.ext) (cfgOf_of_same hm hs he.ext) he []
    (text.map fun c => Edit.insertText place [c]) [] (FreshIds.nil _) ?_
    (annot_of_sub he.ext hm (by rw [hs.openElems]; exact fun _ h => h)) (by simp)).conseq ?_
  · intro tc htc
    rw [hflat tc htc, flatCalls_chars]
  · rintro x x' hx _ ⟨hx', rest, hsup⟩
    subst hx'
    rw [absF_step_same hm hs he.ext]
    have hpl : Spec.TreeAlgo2.appropriatePlace (absF s x).p.stack (absF s x).p.fosterParenting none = some place := by
      simp only [absF_p, absP, hx.live]; exact hplace
    rw [foldlM_insertChar _ place hpl]
    simp [absF, absP, List.map_map, Edit.mapTok, Function.comp]

/-- `append_text([c])` is "insert a character" (`insertChar`) -/
theorem pc_appendText_char {s : State} (hm : MInv s) (c : Char) :
    PC (appendText [c]) s (fun r s' calls => r = .done ∧ SameTB s s' ∧
      Tr s s' calls (fun x x' => Spec.TreeModes.insertChar (absF s x) c = .ok (absF s' x'))) := by
  refine pc_conseq (pc_appendText hm [c]) ?_
  rintro r s' calls he ⟨hr, hs, htr⟩
  refine ⟨hr, hs, htr.conseq ?_⟩
  intro x x' _ _ h
  simp only [List.foldlM_cons, List.foldlM_nil] at h
  cases hi : Spec.TreeModes.insertChar (absF s x) c with
  | error e => rw [hi] at h; cases h
  | ok σ => rw [hi] at h; exact h

/-- the log entry of `insertChars` -/
def charsEdits (place : Place Id) : Str → List (Edit Id Tag)
  | [] => []
  | c :: r => [Edit.insertText place (c :: r)]

/-- `append_text(text)` is "insert the characters `text`" (`insertChars`: nothing for the empty string) -/
theorem pc_appendText_chars {s : State} (hm : MInv s) (text : Str) :
    PC (appendText text) s (fun r s' calls => r = .done ∧ SameTB s s' ∧
      Tr s s' calls (fun x x' => Spec.TreeModes.insertChars (absF s x) text = .ok (absF s' x'))) := by
  refine pc_conseq (pc_appendText_flat hm text) ?_
  rintro r s' calls he ⟨hr, hs, place, hplace, hflat⟩
  refine ⟨hr, hs, ?_⟩
  refine (Tr.of_flat (hm.sameTB hs he.ext) (cfgOf_of_same hm hs he.ext) he []
    (charsEdits place text) [] (FreshIds.nil _) ?_
    (annot_of_sub he.ext hm (by rw [hs.openElems]; exact fun _ h => h)) (by simp)).conseq ?_
  · intro tc htc
    rw [hflat tc htc]
    cases text with
    | nil => rfl
    | cons c r =>
      simp only [charsEdits, List.map_cons, List.map_nil, editCall, flatCalls, List.flatMap_cons, List.flatMap_nil,
        List.append_nil, flatCall_insertText]
  · rintro x x' hx _ ⟨hx', rest, hsup⟩
    subst hx'
    rw [absF_step_same hm hs he.ext]
    have hpl : Spec.TreeAlgo2.appropriatePlace (absF s x).p.stack (absF s x).p.fosterParenting none = some place := by
      simp only [absF_p, absP, hx.live]; exact hplace
    cases text with
    | nil => simp [Spec.TreeModes.insertChars, absF, absP, pure, Except.pure, charsEdits]
    | cons c r =>
      simp only [Spec.TreeModes.insertChars, Spec.TreeAlgo2.insertCharacters, hpl, Option.map_some, Spec.TreeModes.req]
      simp [absF, absP, Edit.mapTok, bind, Except.bind, pure, Except.pure, charsEdits]

/-! ### "insert a comment" -/

/-- `append_comment(text)` (mod.rs:1327) is "insert a comment" (`insertComment`); no hypothesis on the
stack: on the empty stack the model panics -/
theorem pc_appendComment_ins {s : State} (hm : MInv s) (text : Str) :
    PC (appendComment text) s (fun r s' calls => r = .done ∧
      Tr s s' calls (fun x x' => Spec.TreeModes.insertComment (absF s x) text = .ok (absF s' x'))) := by
  by_cases hne : s.openElems = []
  · unfold appendComment
    refine pc_seq (PC.of_tot (tot_createComment s text)) ?_
    rintro c s1 c1 he1 ⟨hs1, -, -⟩
    exact pc_bind_false (pc_insertAppropriately_nil (by rw [hs1.openElems]; exact hne) _)
  · exact pc_appendComment hm hne text

/-- the common part of `append_comment_to_doc` / `append_comment_to_html`: a comment node created and
appended to the node `target` -/
theorem tr_commentIn {s s' : State} {calls : List Call} (hm : MInv s) (hs : SameTB s s') (he : Ext2 s calls s')
    (target : Id) (text : Str) (c : Id) (hfc : s.dom.size ≤ c) (L : List (Edit Id Tag))
    (hL : edits calls = L.map (editCall (tcOf s.dom)))
    (hspec : ∀ rest log0, Spec.TreeAlgo2.insertCommentAsLastChildOf (absState s (c :: rest) log0) target text
        = some (absState s rest (log0 ++ L))) :
    Tr s s' calls (fun x x' => Spec.TreeModes.insertCommentIn (absF s x) target text = .ok (absF s' x')) := by
  have hLe : L = [Edit.createComment c text, Edit.insert (.lastChildOf target) c] := by
    have := hspec [] []
    simp only [Spec.TreeAlgo2.insertCommentAsLastChildOf, PState.newNode, absState, Option.map_some,
      Option.some.injEq, PState.mk.injEq, List.nil_append, true_and] at this
    exact this.symm
  refine (Tr.of_edits (hm.sameTB hs he.ext) (cfgOf_of_same hm hs he.ext) he [c] L [] (FreshIds.of_size (by intro n hn; simp only [List.mem_singleton] at hn; subst hn; exact hfc)) ?_
    (annot_of_sub he.ext hm (by rw [hs.openElems]; exact fun _ h => h)) (by simp)).conseq ?_
  · intro tc htc
    rw [hL, hLe]
    simp [editCall, ipOf]
  · rintro x x' hx _ ⟨hx', rest, hsup⟩
    subst hx'
    rw [absF_step_same hm hs he.ext]
    unfold Spec.TreeModes.insertCommentIn
    rw [absF_p, absP_eq s x hx.live, insertCommentAsLastChildOf_mapP, hsup, List.singleton_append, hspec rest x.logT]
    simp only [Option.map_some, Spec.TreeModes.req, mapP_absState, List.map_append, Aux.logT_map]
    simp [absP, hx.live, hsup, absF, bind, Except.bind, pure, Except.pure]

/-- `append_comment_to_doc(text)` (mod.rs:1333) is "insert a comment as the last child of the Document
object" -/
theorem pc_appendCommentToDoc {s : State} (hm : MInv s) (text : Str) :
    PC (appendCommentToDoc text) s (fun r s' calls => r = .done ∧ SameTB s s' ∧
      Tr s s' calls (fun x x' =>
        Spec.TreeModes.insertCommentIn (absF s x) (cfgOf s).document text = .ok (absF s' x'))) := by
  refine pc_conseq (PC.of_tot (tot_appendCommentToDoc s text)) ?_
  rintro r s' calls he ⟨hr, hs, c, L, hfresh, hL, hspec⟩
  exact ⟨hr, hs, tr_commentIn hm hs he s.docHandle text c hfresh L hL hspec⟩

/-- `append_comment_to_html(text)` (mod.rs:1339) is "insert a comment as the last child of the first
element in the stack of open elements"; on the empty stack the model panics -/
theorem pc_appendCommentToHtml {s : State} (hm : MInv s) (text : Str) :
    PC (appendCommentToHtml text) s (fun r s' calls => r = .done ∧ SameTB s s' ∧
      Tr s s' calls (fun x x' => ∃ html, (absF s x).p.stack.head? = some html ∧
        Spec.TreeModes.insertCommentIn (absF s x) html.id text = .ok (absF s' x'))) := by
  cases hh : s.openElems.head? with
  | none =>
    unfold appendCommentToHtml htmlElemFn
    refine pc_bind_false (pc_getS_bind ?_)
    simp only [hh]
    exact pc_panicAt
  | some h0 =>
    refine pc_conseq (PC.of_tot (tot_appendCommentToHtml s text h0 hh)) ?_
    rintro r s' calls he ⟨hr, hs, c, L, hfresh, hL, hspec⟩
    refine ⟨hr, hs, (tr_commentIn hm hs he h0 text c hfresh L hL hspec).conseq ?_⟩
    intro x x' hx _ h
    refine ⟨elemOf s.dom h0, ?_, h⟩
    simp only [absF_p, absP, hx.live, Bool.false_eq_true, if_false, absStack_head?, hh, Option.map_some]

/-! ### `create_root` -/

/-- the integration-point list stays right when an element that is not `annotation-xml` is pushed -/
theorem annot_push {s s' : State} {a : Id} (he : TBSafe.Ext s.dom s'.dom) (hm : MInv s)
    (ho : s'.openElems = s.openElems ++ [a]) (hna : nameOf s'.dom a ≠ annotName) (x : Aux) (hx : AuxOk s x) :
    ∀ h ∈ s'.openElems, nameOf s'.dom h = annotName → (x.annot ++ []).contains h = ipOfDom s'.dom h := by
  intro h hh hn
  rw [ho] at hh
  rcases List.mem_append.mp hh with hin | hin
  · rw [nameOf_ext he (hm.elems h hin)] at hn
    rw [List.append_nil, hx.annot h hin hn, ipOfDom_ext he (hm.elems h hin)]
  · simp only [List.mem_singleton] at hin; subst hin
    exact absurd hn hna

theorem html_ne_annot (name : Str) : (⟨nsHtml, name⟩ : EName) ≠ annotName := by
  intro h
  have : nsHtml = nsMathml := congrArg EName.ns h
  revert this; decide

/-- the tag `create_root(attrs)` creates the element for -/
def rootTag (attrs : List Attr) : Tag := { kind := .startTag, name := "html".toList, attrs := attrs }

/-- `create_root(attrs)` (mod.rs:1348) against `createRootHtml`: "create an element for the token in
the HTML namespace, append it to the Document object, put it in the stack of open elements"; `st` is
the specification's token (an `html` start tag with these attributes) -/
theorem pc_createRoot {s : State} (hm : MInv s) (attrs : List Attr) (st : STag)
    (het : st.etok = etokOf (rootTag attrs)) :
    PC (createRoot attrs) s (fun _ s' calls => ∃ a,
      SameButOpen s s' ∧ s'.openElems = s.openElems ++ [a] ∧ s.dom.size ≤ a ∧ s'.dom.isElement a = true ∧
      nameOf s'.dom a = ⟨nsHtml, "html".toList⟩ ∧
      Tr s s' calls (fun x x' => Spec.TreeModes.createRootHtml (cfgOf s) (absF s x) st = .ok (absF s' x'))) := by
  unfold createRoot
  refine pc_seq (PC.of_tot (tot_createElementWithFlags s nsHtml (rootTag attrs))) ?_
  rintro a s1 c1 he1 ⟨hs1, hc1, hfresh, hel1, hnm1⟩
  subst hc1
  refine pc_seq (PC.of_tot (tot_push s1 a)) ?_
  rintro _ s2 c2 he2 ⟨hs2, hc2⟩
  subst hc2
  refine pc_getS_bind ?_
  refine pc_conseq (PC.of_tot (tot_sinkUnit_unit' s2 trivial (unit_append' s2.docHandle (.node a)))) ?_
  rintro _ s3 c3 he3 ⟨hs3, hc3⟩
  subst hc3
  have he := he1.trans (he2.trans he3)
  have hx := he.ext
  have hdoc : s2.docHandle = s.docHandle := by rw [hs2]; exact hs1.fields.docHandle
  have f : SameButOpen s s3 := by
    have f1 := SameButOpen.of_same hs1
    have f3 := SameButOpen.of_same hs3
    have f2 : SameButOpen s1 s2 := by constructor <;> rw [hs2]
    constructor
    · rw [f3.opts, f2.opts, f1.opts]
    · rw [f3.mode, f2.mode, f1.mode]
    · rw [f3.origMode, f2.origMode, f1.origMode]
    · rw [f3.templateModes, f2.templateModes, f1.templateModes]
    · rw [f3.pendingTableText, f2.pendingTableText, f1.pendingTableText]
    · rw [f3.quirksMode, f2.quirksMode, f1.quirksMode]
    · rw [f3.docHandle, f2.docHandle, f1.docHandle]
    · rw [f3.activeFormatting, f2.activeFormatting, f1.activeFormatting]
    · rw [f3.headElem, f2.headElem, f1.headElem]
    · rw [f3.formElem, f2.formElem, f1.formElem]
    · rw [f3.framesetOk, f2.framesetOk, f1.framesetOk]
    · rw [f3.ignoreLf, f2.ignoreLf, f1.ignoreLf]
    · rw [f3.fosterParenting, f2.fosterParenting, f1.fosterParenting]
    · rw [f3.contextElem, f2.contextElem, f1.contextElem]
  have ho : s3.openElems = s.openElems ++ [a] := by
    rw [hs3.openElems, hs2, ← hs1.openElems]
  have hel : s3.dom.isElement a = true := by
    have h2 : s2.dom = s1.dom := by rw [hs2]
    exact isElement_ext he3.ext (by rw [h2]; exact hel1)
  have hnm : nameOf s3.dom a = ⟨nsHtml, "html".toList⟩ := by
    have h2 : s2.dom = s1.dom := by rw [hs2]
    rw [nameOf_ext he3.ext (by rw [h2]; exact hel1), h2]; exact hnm1
  have hm' : MInv s3 := hm.pushed f hx ho hfresh hel (fun _ => hnm) (ip_of_html hnm)
  refine ⟨a, f, ho, hfresh, hel, hnm, ?_⟩
  refine (Tr.of_edits hm' (cfgOf_sameButOpen hm f hx) he [a]
    [Edit.create a nsHtml (rootTag attrs), Edit.insert (.lastChildOf s.docHandle) a] []
    (FreshIds.of_size (by intro n hn; simp only [List.mem_singleton] at hn; subst hn; exact hfresh)) ?_
    (annot_push hx hm ho (by rw [hnm]; exact html_ne_annot _)) (by simp)).conseq ?_
  · intro tc htc
    rw [hdoc]
    simp [edits, isEdit, editCall, ipOf, insertOp, createCall]
  · rintro x x' hxa _ ⟨hx', rest, hsup⟩
    subst hx'
    have hsup' : x.supply = a :: rest := hsup
    rw [absF_sameButOpen hm f hx, absP_sameButOpen f, ho, absStack_snoc, absStack_ext hm.elems hx]
    have e1 : elemOf s3.dom a = ⟨a, ⟨nsHtml, "html".toList⟩⟩ := by unfold elemOf; rw [hnm]; rfl
    rw [e1]
    simp only [Spec.TreeModes.createRootHtml, absF_p, absP, hxa.live, PState.newNode, hsup', Spec.TreeModes.req, het]
    simp [absF, absP, Aux.step, hxa.live, hsup', Edit.mapTok, bind, Except.bind, pure, Except.pure, cfgOf]
    rfl

/-- `create_root([])` in "before html", anything else: an `html` start tag token with no attributes -/
theorem pc_createRoot_bare {s : State} (hm : MInv s) :
    PC (createRoot []) s (fun _ s' calls => ∃ a,
      SameButOpen s s' ∧ s'.openElems = s.openElems ++ [a] ∧ s.dom.size ≤ a ∧ s'.dom.isElement a = true ∧
      nameOf s'.dom a = ⟨nsHtml, "html".toList⟩ ∧
      Tr s s' calls (fun x x' =>
        Spec.TreeModes.createRootHtml (cfgOf s) (absF s x) (Spec.TreeModes.bareTag "html") = .ok (absF s' x'))) :=
  pc_createRoot hm [] _ rfl

/-- `create_root(tag.attrs)` in "before html" for an `html` start tag -/
theorem pc_createRoot_tag {s : State} (hm : MInv s) {t : Tag} (hp : PlainTag t) (hn : t.name = "html".toList) :
    PC (createRoot t.attrs) s (fun _ s' calls => ∃ a,
      SameButOpen s s' ∧ s'.openElems = s.openElems ++ [a] ∧ s.dom.size ≤ a ∧ s'.dom.isElement a = true ∧
      nameOf s'.dom a = ⟨nsHtml, "html".toList⟩ ∧
      Tr s s' calls (fun x x' =>
        Spec.TreeModes.createRootHtml (cfgOf s) (absF s x) (specTag t) = .ok (absF s' x'))) :=
  pc_createRoot hm t.attrs _ (by rw [specTag_etok hp]; simp only [etokOf, rootTag, hn])

/-! ### field updates, extra operations -/

theorem MInv.of_fields {s s' : State} (hm : MInv s) (he : TBSafe.Ext s.dom s'.dom) (ho : s'.openElems = s.openElems)
    (haf : s'.activeFormatting = s.activeFormatting) (hh : s'.headElem = s.headElem)
    (hcx : s'.contextElem = s.contextElem) (htm : s'.templateModes = s.templateModes)
    (hfe : s'.formElem = s.formElem := by rfl) (hpe : s'.pendingTableText = s.pendingTableText := by rfl) : MInv s' := by
  refine ⟨by rw [ho]; exact ElemsOk.ext hm.elems he, ?_, ?_, ?_, ?_, ?_, ?_, ?_, by rw [htm]; exact hm.tmodes,
    hm.form_ext he hfe, by rw [hpe]; exact hm.pend⟩
  · intro h0 hh; rw [ho] at hh
    rw [nameOf_ext he (hm.elems h0 (List.mem_of_head? hh))]; exact hm.root h0 hh
  · rw [ho, haf]
    intro y t hy
    obtain ⟨h1, h2, h3⟩ := hm.af y t hy
    exact ⟨isElement_lt (isElement_ext he (hm.afEl y t hy)), h2, fun hx => by rw [nameOf_ext he (hm.elems y hx)]; exact h3 hx⟩
  · intro y t hy; rw [haf] at hy; exact isElement_ext he (hm.afEl y t hy)
  · intro y hy; rw [hh] at hy; exact isElement_ext he (hm.head y hy)
  · exact hm.ctx_ext he hcx
  · intro y t hy; rw [haf] at hy
    rw [nameOf_ext he (hm.afEl y t hy)]; exact hm.afwf y t hy
  · rw [ho]
    intro y hy
    rw [nameOf_ext he (hm.elems y hy), ipOfDom_ext he (hm.elems y hy)]; exact hm.ip y hy

/-- as `MInv.of_fields`, the stack of template insertion modes may shrink -/
theorem MInv.of_fields' {s s' : State} (hm : MInv s) (he : TBSafe.Ext s.dom s'.dom) (ho : s'.openElems = s.openElems)
    (haf : s'.activeFormatting = s.activeFormatting) (hh : s'.headElem = s.headElem)
    (hcx : s'.contextElem = s.contextElem) (htm : ∀ m ∈ s'.templateModes, m ∈ s.templateModes)
    (hfe : s'.formElem = s.formElem := by rfl) (hpe : s'.pendingTableText = s.pendingTableText := by rfl) : MInv s' := by
  have h0 : MInv { s' with templateModes := s.templateModes } := MInv.of_fields hm he ho haf hh hcx rfl hfe hpe
  exact { h0 with tmodes := fun m hmem => hm.tmodes m (htm m hmem) }

theorem mem_of_mem_dropLast' {α : Type} {a : α} : ∀ {l : List α}, a ∈ l.dropLast → a ∈ l
  | [], h => by simp at h
  | [_], h => by simp at h
  | b :: c :: l, h => by
    rw [List.dropLast_cons_cons] at h
    rcases List.mem_cons.mp h with h | h
    · exact h ▸ List.mem_cons_self
    · exact List.mem_cons_of_mem _ (mem_of_mem_dropLast' h)

/-- `self.frameset_ok.set(b)` -/
theorem pc_setFramesetOk {s : State} (hm : MInv s) (b : Bool) :
    PC (setFramesetOk b) s (fun _ s' calls => s' = { s with framesetOk := b } ∧
      Tr s s' calls (fun x x' => x' = x ∧ absF s' x' = { absF s x with framesetOk := b })) := by
  unfold setFramesetOk
  refine pc_modS rfl rfl ⟨rfl, (Tr.of_upd (s' := { s with framesetOk := b }) hm rfl (fun _ h => h) ⟨hm.elems, hm.root, hm.af, hm.afEl, hm.head, hm.ctx, hm.afwf, hm.ip, hm.tmodes, hm.form, hm.pend⟩ rfl).conseq ?_⟩
  intro x x' _ _ h
  subst h
  exact ⟨rfl, rfl⟩

/-- `self.frameset_ok.set(false)`: "set the frameset-ok flag to "not ok"" (`State.notOk`) -/
theorem pc_setFramesetNotOk {s : State} (hm : MInv s) :
    PC (setFramesetOk false) s (fun _ s' calls => s' = { s with framesetOk := false } ∧
      Tr s s' calls (fun x x' => x' = x ∧ absF s' x' = (absF s x).notOk)) :=
  pc_setFramesetOk hm false

/-- the `Aux` after an extra operation that consumed `n` nodes -/
def Aux.xstep (x : Aux) (n : Nat) (o : XOp Id) : Aux :=
  { x with supply := x.supply.drop n, xlog := x.xlog ++ [(x.log.length, o)] }

theorem Aux.fullLog_xstep {s : State} {x : Aux} (hx : AuxOk s x) (n : Nat) (o : XOp Id) :
    (x.xstep n o).fullLog = x.fullLog ++ [.x o] := by
  unfold Aux.fullLog Aux.xstep
  have := mergeLog_snoc x.xlog 0 x.log o (by simpa using hx.xlog.2)
  simpa using this

/-- **glue** for the extra operations: a stretch whose only DOM call is the one of `o` -/
theorem Tr.of_xop {s s' : State} {calls : List Call} (hm : MInv s) (hm' : MInv s') (hc : cfgOf s' = cfgOf s)
    (he : Ext2 s calls s') (ids : List Id) (hfi : FreshIds s ids) (o : XOp Id)
    (hcalls : flatCalls (edits2 calls) = flatCalls [xopCall o])
    (ho : ∀ h ∈ s'.openElems, h ∈ s.openElems) :
    Tr s s' calls (fun x x' => x' = x.xstep ids.length o ∧ ∃ rest, x.supply = ids ++ rest) := by
  refine ⟨hm', hc, he.ext, ids, hfi, fun x rest hx hs => ⟨x.xstep ids.length o, ⟨⟨hx.live, ?_, ?_, ?_⟩, ?_, rfl, rfl, rfl, ?_⟩, rfl, rest, hs⟩⟩
  · have := annot_of_sub he.ext hm ho x hx
    simpa [Aux.xstep] using this
  · intro a ha; exact isElement_ext he.ext (hx.annotEl a ha)
  · simp only [Aux.xstep, List.map_append, List.map_cons, List.map_nil]
    refine ⟨?_, ?_⟩
    · rw [List.pairwise_append]
      refine ⟨hx.xlog.1, by simp, ?_⟩
      intro a ha b hb
      simp only [List.mem_singleton] at hb; subst hb
      exact hx.xlog.2 a ha
    · intro j hj
      rcases List.mem_append.mp hj with h | h
      · exact hx.xlog.2 j h
      · simp only [List.mem_singleton] at h; subst h; exact Nat.le_refl _
  · simp [Aux.xstep, hs]
  · exact ⟨_, Aux.fullLog_xstep hx _ _, fun tc _ => by rw [hcalls]; rfl⟩

theorem qmodeOf_dmode (m : QuirksMode) : qmodeOf (dmode m) = m := by cases m <;> rfl

/-- `set_quirks_mode(m)` (mod.rs:658): "set the Document to quirks / limited-quirks mode" as the
standard does it (`initial`: only when the mode is not no-quirks); html5ever also tells the sink
`NoQuirks`, which the comparison drops (`isEdit2`).  For `m = NoQuirks` the model's field must have
been `NoQuirks` already (the standard does not touch the Document's mode then). -/
theorem pc_setQuirksMode {s : State} (hm : MInv s) (m : QuirksMode) (hq : m = .noQuirks → s.quirksMode = .noQuirks) :
    PC (setQuirksMode m) s (fun _ s' calls =>
      s' = { s with quirksMode := m, dom := s'.dom, traceRev := s'.traceRev } ∧
      Tr s s' calls (fun x x' => absF s' x' =
        (if dmode m != .noQuirks then { (absF s x).xop (.setDocumentMode (dmode m)) with quirks := dmode m }
         else absF s x))) := by
  unfold setQuirksMode
  refine pc_seq (pc_modS (f := fun s => { s with quirksMode := m }) (Q := fun _ s1 c1 => s1 = { s with quirksMode := m } ∧ c1 = []) rfl rfl ⟨rfl, rfl⟩) ?_
  rintro _ s1 c1 he1 ⟨hs1, hc1⟩
  subst hc1
  refine pc_conseq (pc_sinkUnit s1) ?_
  rintro _ s' calls he ⟨d', out, ha, hs', hc⟩
  have hout : out = .unit := by
    unfold Dom.apply Dom.applyV at ha
    cases ha; rfl
  subst hout
  have hd1 : s1.dom = s.dom := by rw [hs1]
  have hE : Ext2 s ([] ++ calls) s' := he1.trans he
  have hx := hE.ext
  have hS : s' = { s with quirksMode := m, dom := s'.dom, traceRev := s'.traceRev } := by
    rw [hs', hs1]; rfl
  have ho : s'.openElems = s.openElems := by rw [hS]
  have hm' : MInv s' := hm.of_fields hx ho (by rw [hS]) (by rw [hS]) (by rw [hS]) (by rw [hS]) (by rw [hS]) (by rw [hS])
  have hcfg : cfgOf s' = cfgOf s := by
    obtain ⟨c1, c2⟩ := context_ext hm hx
    have e1 : s'.contextElem = s.contextElem := by rw [hS]
    have e2 : s'.docHandle = s.docHandle := by rw [hS]
    have e3 : s'.opts = s.opts := by rw [hS]
    simp only [cfgOf, e1, e2, e3, c1, c2]
  have habs : ∀ x : Aux, absF s' x = { absF s x with quirks := dmode m } := by
    intro x
    have e1 : absStack s'.dom s.openElems = absStack s.dom s.openElems := absStack_ext hm.elems hx
    have e2 := headPointer_ext hm hx
    rw [hS]
    simp only [absF, absP, e1, e2]
  refine ⟨hS, ?_⟩
  by_cases hmq : m = .noQuirks
  · subst hmq
    have hs : SameTB s s' := by
      have e : ∀ q, s.quirksMode = q → ({ s with quirksMode := q, dom := s'.dom, traceRev := s'.traceRev } : State)
          = { s with dom := s'.dom, traceRev := s'.traceRev } := by
        intro q h; subst h; rfl
      exact hS.trans (e _ (hq rfl))
    have hcalls : edits2 ([] ++ calls) = [] := by rw [hc]; rfl
    refine (Tr.of_same hm hs hE hcalls).conseq ?_
    rintro x x' _ _ ⟨h1, h2⟩
    subst h1
    rw [← h2]; rfl
  · have hd : (dmode m != .noQuirks) = true := by cases m <;> first | rfl | exact absurd rfl hmq
    refine (Tr.of_xop hm hm' hcfg hE [] (FreshIds.nil _) (.setDocumentMode (dmode m)) ?_ (by rw [ho]; exact fun _ h => h)).conseq ?_
    · rw [hc]
      simp only [List.nil_append, xopCall, qmodeOf_dmode]
      have : isEdit2 (SinkOp.setQuirksMode m) = true := by cases m <;> first | rfl | exact absurd rfl hmq
      simp [edits2, this]
    · rintro x x' hxa _ ⟨hx', rest, hsup⟩
      subst hx'
      rw [habs, hd]
      simp [absF, absP, Aux.xstep, Spec.TreeModes.State.xop]

/-- the standard's "append a DocumentType node to the Document node" (part of the DOCTYPE clause of
`initial`): a node from the supply, the operation in the extra log -/
def specAppendDoctype (σ : SState) (n p sy : Str) : Spec.TreeModes.M SState := do
  let r ← Spec.TreeModes.req σ.p.newNode "initial: no node for the DocumentType"
  pure (({ σ with p := r.2 } : SState).xop (.appendDoctype r.1 n p sy))

/-- `sink.append_doctype_to_document(name, public_id, system_id)` in `process_token` (mod.rs:506) -/
theorem pc_appendDoctype {s : State} (hm : MInv s) (n p sy : Str) :
    PC (sinkUnit (.appendDoctypeToDocument n p sy)) s (fun _ s' calls => SameTB s s' ∧
      Tr s s' calls (fun x x' => specAppendDoctype (absF s x) n p sy = .ok (absF s' x'))) := by
  refine pc_conseq (pc_sinkUnit s) ?_
  rintro _ s' calls he ⟨d', out, ha, hs', hc⟩
  have hout : out = .unit := by
    unfold Dom.apply Dom.applyV at ha
    simp only [bind, Except.bind] at ha
    split at ha
    · cases ha
    · cases ha; rfl
  subst hout
  have hs : SameTB s s' := hs' ▸ SameTB.afterCall ..
  refine ⟨hs, ?_⟩
  refine (Tr.of_xop hm (hm.sameTB hs he.ext) (cfgOf_of_same hm hs he.ext) he [s.dom.size] (FreshIds.of_size (by intro n hn; simp only [List.mem_singleton] at hn; subst hn; exact Nat.le_refl _))
    (.appendDoctype s.dom.size n p sy) ?_ (by rw [hs.openElems]; exact fun _ h => h)).conseq ?_
  · rw [hc]; rfl
  · rintro x x' hxa _ ⟨hx', rest, hsup⟩
    subst hx'
    have hsup' : x.supply = s.dom.size :: rest := hsup
    rw [absF_of_same _ hm hs he.ext]
    simp only [specAppendDoctype, absF_p, absP, PState.newNode, hsup', Spec.TreeModes.req]
    simp [absF, absP, Aux.xstep, Spec.TreeModes.State.xop, hsup', bind, Except.bind, pure, Except.pure]

/-! ### raw text: `to_raw_text_mode`, `parse_raw_data` -/

/-- `to_raw_text_mode(k)` (mod.rs:672): "set the original insertion mode to the current insertion mode,
switch the insertion mode to "text"" (the switch of the tokenizer is the result `ToRawData(k)`, see
`tokPost_toRawData`) -/
theorem pc_toRawTextMode {s : State} (hm : MInv s) (k : H5V.Model.HtmlTok.RawKind) :
    PC (toRawTextMode k) s (fun r s' calls => r = .toRawData k ∧
      s' = { s with origMode := some s.mode, mode := .text } ∧
      Tr s s' calls (fun x x' =>
        absF s' x' = { absF s x with originalMode := (absF s x).mode, mode := .text })) := by
  unfold toRawTextMode
  refine pc_seq (pc_modS (f := fun s => { s with origMode := some s.mode, mode := .text })
    (Q := fun _ s1 c1 => s1 = { s with origMode := some s.mode, mode := .text } ∧ c1 = []) rfl rfl ⟨rfl, rfl⟩) ?_
  rintro _ s1 c1 he1 ⟨hs1, hc1⟩
  subst hc1 hs1
  refine pc_pure ⟨rfl, rfl, ?_⟩
  refine (Tr.of_upd (s' := { s with origMode := some s.mode, mode := .text }) hm rfl (fun _ h => h)
    ⟨hm.elems, hm.root, hm.af, hm.afEl, hm.head, hm.ctx, hm.afwf, hm.ip, hm.tmodes, hm.form, hm.pend⟩ rfl).reaux
    (fun x x' => { x' with pendingJunk := (absF s x).pendingTableChars })
    (fun _ _ => ⟨⟨rfl, rfl, rfl, rfl, rfl⟩, rfl, rfl, rfl⟩) ?_
  intro x x' _ _ h
  subst h
  rfl

/-- **the end of a rule that returns `ToRawData(k)`**: the specification's rule ends with "switch the
tokenizer to the RCDATA / RAWTEXT / script data state" -/
theorem tokPost_toRawData {spec : SState → Spec.TreeModes.M (Step Id)} {s s' : State} {tok : Token} {calls : List Call}
    {R : Aux → Aux → Prop} {k : H5V.Model.HtmlTok.RawKind} (h : Tr s s' calls R)
    (hfin : ∀ x x', AuxOk s x → AuxOk s' x' → R x x' →
      spec (absF s x) = .ok (.done ((absF s' x').switchTokenizer (rawSwitch k)))) :
    TokPost spec s tok (.toRawData k) s' calls := by
  refine tokPost_of_tr h trivial ?_
  intro x x' hx hx' r
  refine ⟨{ x' with out := { x'.out with switch := some (rawSwitch k) } }, ?_, ⟨rfl, rfl, rfl, rfl, rfl⟩, Or.inl rfl, rfl, rfl⟩
  rw [hfin x x' hx hx' r]
  rfl

/-- **the end of a rule that returns `ToPlaintext`**: the specification's rule ends with "switch the
tokenizer to the PLAINTEXT state" -/
theorem tokPost_toPlaintext {spec : SState → Spec.TreeModes.M (Step Id)} {s s' : State} {tok : Token} {calls : List Call}
    {R : Aux → Aux → Prop} (h : Tr s s' calls R)
    (hfin : ∀ x x', AuxOk s x → AuxOk s' x' → R x x' →
      spec (absF s x) = .ok (.done ((absF s' x').switchTokenizer .plaintext))) :
    TokPost spec s tok .toPlaintext s' calls := by
  refine tokPost_of_tr h trivial ?_
  intro x x' hx hx' r
  refine ⟨{ x' with out := { x'.out with switch := some .plaintext } }, ?_, ⟨rfl, rfl, rfl, rfl, rfl⟩, Or.inl rfl, rfl, rfl⟩
  rw [hfin x x' hx hx' r]
  rfl

/-- **the end of a rule that returns `DoneAckSelfClosing`**: the specification's rule ends with
"acknowledge the token's self-closing flag, if it is set" -/
theorem tokPost_ack {spec : SState → Spec.TreeModes.M (Step Id)} {s s' : State} {tok : Token} {calls : List Call}
    {R : Aux → Aux → Prop} (t : STag) (h : Tr s s' calls R)
    (hfin : ∀ x x', AuxOk s x → AuxOk s' x' → R x x' → spec (absF s x) = .ok (.done ((absF s' x').ack t))) :
    TokPost spec s tok .doneAckSelfClosing s' calls := by
  refine tokPost_of_tr h trivial ?_
  intro x x' hx hx' r
  obtain ⟨h1, h2, h3, h4⟩ := x'.ack_same t.selfClosing
  refine ⟨x'.ack t.selfClosing, ?_, h1, Or.inl h2, h3, h4⟩
  rw [hfin x x' hx hx' r, ← absF_ack]
  rfl

/-- `parse_raw_data(tag, k)` (mod.rs:679) as a stretch: "insert an HTML element for the token", then the
mode switch of the generic raw text / RCDATA element parsing algorithm -/
theorem pc_parseRawData {s : State} (hm : MInv s) {t : Tag} (hp : PlainTag t) (k : H5V.Model.HtmlTok.RawKind) :
    PC (parseRawData t k) s (fun r s' calls => r = .toRawData k ∧ ∃ a s1,
      SameButOpen s s1 ∧ s1.openElems = s.openElems ++ [a] ∧ s1.dom.isElement a = true ∧
      nameOf s1.dom a = ⟨nsHtml, t.name⟩ ∧ s' = { s1 with origMode := some s1.mode, mode := .text } ∧
      Tr s s' calls (fun x x' => ∃ σ1, Spec.TreeModes.insertHtml' (absF s x) (specTag t) = .ok σ1 ∧
        absF s' x' = { σ1 with originalMode := σ1.mode, mode := .text })) := by
  unfold parseRawData
  refine pc_seq (pc_insertElementFor' hm hp) ?_
  rintro a s1 c1 he1 ⟨f, ho, hfresh, hel, hnm, htr1⟩
  refine pc_conseq (pc_toRawTextMode htr1.1 k) ?_
  rintro r s' c2 he2 ⟨hr, hs', htr2⟩
  refine ⟨hr, a, s1, f, ho, hel, hnm, hs', (htr1.trans htr2).conseq ?_⟩
  rintro x x' _ _ ⟨x1, r1, r2⟩
  exact ⟨_, r1, r2⟩

/-- `parse_raw_data(tag, k)` as a whole rule arm: the generic raw text / RCDATA element parsing algorithm
(`genericRawText`, `genericRcdata`; with `k = ScriptData` the `script` start-tag clause of "in head") -/
theorem pc_parseRawData_tokPost {s : State} (hm : MInv s) {t : Tag} (hp : PlainTag t) (k : H5V.Model.HtmlTok.RawKind)
    (tok : Token) :
    PC (parseRawData t k) s
      (TokPost (fun σ => Step.done <$> Spec.TreeModes.genericTextElement σ (specTag t) (rawSwitch k)) s tok) := by
  refine pc_conseq (pc_parseRawData hm hp k) ?_
  rintro r s' calls he ⟨hr, a, s1, f, ho, hel, hnm, hs', htr⟩
  subst hr
  refine tokPost_toRawData htr ?_
  rintro x x' _ _ ⟨σ1, r1, r2⟩
  simp only [Spec.TreeModes.genericTextElement, r1, r2]
  rfl

/-- `parse_raw_data(tag, Rawtext)` is the generic raw text element parsing algorithm -/
theorem pc_parseRawData_rawtext {s : State} (hm : MInv s) {t : Tag} (hp : PlainTag t) (tok : Token) :
    PC (parseRawData t .rawtext) s
      (TokPost (fun σ => Step.done <$> Spec.TreeModes.genericRawText σ (specTag t)) s tok) :=
  pc_parseRawData_tokPost hm hp .rawtext tok

/-- `parse_raw_data(tag, Rcdata)` is the generic RCDATA element parsing algorithm -/
theorem pc_parseRawData_rcdata {s : State} (hm : MInv s) {t : Tag} (hp : PlainTag t) (tok : Token) :
    PC (parseRawData t .rcdata) s
      (TokPost (fun σ => Step.done <$> Spec.TreeModes.genericRcdata σ (specTag t)) s tok) :=
  pc_parseRawData_tokPost hm hp .rcdata tok

/-! ### the `html` start tag of "in body" -/

theorem specTag_attrs_back {t : Tag} (hp : PlainTag t) :
    (specTag t).attrs.map (fun a => ({ name := plainName a.name, value := a.value } : Attr)) = t.attrs := by
  simp only [specTag, List.map_map]
  rw [List.map_congr_left (g := id)]
  · simp
  · intro a ha
    have h := hp a ha
    unfold Plain at h
    obtain ⟨n, v⟩ := a
    simp only [Function.comp, id]
    rw [← h]

/-- `sink.add_attrs_if_missing(target, tag.attrs)`: "for each attribute on the token, check to see if
the attribute is already present on the element; if it is not, add the attribute" -/
theorem pc_addAttrsIfMissing {s : State} (hm : MInv s) (target : Id) {t : Tag} (hp : PlainTag t) :
    PC (sinkUnit (.addAttrsIfMissing target t.attrs)) s (fun _ s' calls => SameTB s s' ∧
      Tr s s' calls (fun x x' => absF s' x' = (absF s x).xop (.addMissingAttributes target (specTag t).attrs))) := by
  refine pc_conseq (pc_sinkUnit s) ?_
  rintro _ s' calls he ⟨d', out, ha, hs', hc⟩
  have hout : out = .unit := by
    unfold Dom.apply Dom.applyV at ha
    simp only [bind, Except.bind] at ha
    split at ha
    · cases ha
    · cases ha; rfl
  subst hout
  have hs : SameTB s s' := hs' ▸ SameTB.afterCall ..
  refine ⟨hs, ?_⟩
  refine (Tr.of_xop hm (hm.sameTB hs he.ext) (cfgOf_of_same hm hs he.ext) he [] (FreshIds.nil _)
    (.addMissingAttributes target (specTag t).attrs) ?_ (by rw [hs.openElems]; exact fun _ h => h)).conseq ?_
  · rw [hc]
    simp only [xopCall, specTag_attrs_back hp]
    rfl
  · rintro x x' hxa _ ⟨hx', rest, hsup⟩
    subst hx'
    rw [absF_of_same _ hm hs he.ext]
    simp [absF, absP, Aux.xstep, Spec.TreeModes.State.xop]

/-- `<html>` in "in body" (rules.rs:432, used by every mode that delegates it) against `inBodyStartHtml` -/
theorem pc_inBodyHtml {s : State} (hm : MInv s) {t : Tag} (hp : PlainTag t) (tok : Token) :
    PC (inBodyHtml t) s (TokPost (fun σ => Spec.TreeModes.inBodyStartHtml σ (specTag t)) s tok) := by
  unfold inBodyHtml
  refine pc_seq (pc_unexpected hm) ?_
  rintro _ s1 c1 he1 ⟨-, htr1⟩
  have hm1 := htr1.1
  refine pc_query_bind (PC.of_tot (tot_inHtmlElemNamed_place s1 "template" hm1.elems)) ?_
  intro s2 c2 he2 hs2 hc2
  have htr2 := Tr.of_same hm1 hs2 he2 (by rw [← edits2_edits, hc2]; rfl)
  have hm2 := htr2.1
  have htr12 := htr1.trans htr2
  by_cases ht : ((absStack s1.dom s1.openElems).any fun e => e.name.isHtml "template") = true
  · simp only [ht, Bool.not_true, Bool.false_eq_true, if_false]
    refine pc_pure (tokPost_of_tr (by rw [List.append_nil]; exact htr12) trivial ?_)
    rintro x x'' hx hx'' ⟨x1, ⟨e1, r1⟩, e2, r2⟩
    subst e1 e2
    refine ⟨{ x'' with errors := x''.errors ++ ["in body: html start tag"] }, ?_, ⟨rfl, rfl, rfl, rfl, rfl⟩, Or.inl rfl, rfl, rfl⟩
    have hts : (Spec.TreeModes.State.err (absF s x'') "in body: html start tag").templateOnStack = true := by
      rw [r1]
      simp only [Spec.TreeModes.State.templateOnStack, Spec.TreeModes.State.err, absF_p, absP, hx.live,
        Bool.false_eq_true, if_false]
      exact ht
    simp only [Spec.TreeModes.inBodyStartHtml, hts, if_true, stepOf]
    rw [r1, r2]
    rfl
  · have ht' : ((absStack s1.dom s1.openElems).any fun e => e.name.isHtml "template") = false := by simpa using ht
    simp only [ht', Bool.not_false, if_true]
    cases hh : s2.openElems.head? with
    | none =>
      unfold htmlElemFn
      refine pc_bind_false (pc_getS_bind ?_)
      simp only [hh]
      exact pc_panicAt
    | some top =>
      refine pc_query_bind (PC.of_tot (tot_htmlElemFn hh)) ?_
      intro s3 c3 he3 hs3 hc3
      have htr3 := Tr.of_same hm2 hs3 he3 (by rw [← edits2_edits, hc3]; rfl)
      refine pc_seq (pc_addAttrsIfMissing htr3.1 top hp) ?_
      rintro _ s4 c4 he4 ⟨hs4, htr4⟩
      refine pc_pure (tokPost_of_tr (calls := c1 ++ (c2 ++ (c3 ++ (c4 ++ []))))
        (by rw [List.append_nil, ← List.append_assoc c2, ← List.append_assoc c1, ← List.append_assoc]
            exact (htr12.trans htr3).trans htr4) trivial ?_)
      rintro x x'' hx hx'' ⟨x3, ⟨x2, ⟨x1, ⟨e1, r1⟩, e2, r2⟩, e3, r3⟩, r4⟩
      subst e1 e2 e3
      refine ⟨{ x'' with errors := x''.errors ++ ["in body: html start tag"] }, ?_, ⟨rfl, rfl, rfl, rfl, rfl⟩, Or.inl rfl, rfl, rfl⟩
      have hts : (Spec.TreeModes.State.err (absF s x3) "in body: html start tag").templateOnStack = false := by
        rw [r1]
        simp only [Spec.TreeModes.State.templateOnStack, Spec.TreeModes.State.err, absF_p, absP, hx.live,
          Bool.false_eq_true, if_false]
        exact ht'
      have hhd : (Spec.TreeModes.State.err (absF s x3) "in body: html start tag").p.stack.head? = some (elemOf s1.dom top) := by
        rw [r1]
        simp only [Spec.TreeModes.State.err, absF_p, absP, hx.live, Bool.false_eq_true, if_false, absStack_head?]
        rw [← hs2.openElems, hh]; rfl
      simp only [Spec.TreeModes.inBodyStartHtml, hts, Bool.false_eq_true, if_false, hhd, Spec.TreeModes.req, stepOf]
      show Except.ok (Step.done ((Spec.TreeModes.State.err (absF s x3) "in body: html start tag").xop
          (XOp.addMissingAttributes top (specTag t).attrs)))
        = Except.ok (Step.done { absF s4 x'' with errors := (absF s4 x'').errors ++ ["in body: html start tag"] })
      rw [r4, ← r3, ← r2, ← r1]
      rfl

end H5V.Lemmas.HtmlTBModes
