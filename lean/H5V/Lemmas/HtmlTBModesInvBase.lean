import H5V.Spec.TreeModes
/-!
C02 (insertion modes), the standard's "Assert" of "in cell": an invariant of the SPECIFICATION's own run.

`Good σ` is preserved by every rule of `Spec.TreeModes` (this file: definitions and the tool box; the rules:
`HtmlTBModesInv*.lean`):

* `cell`:  insertion mode "in cell" ⇒ a `td`/`th` element is in table scope (the Assert of §13.2.6.4.15);
* `text`:  "text" ⇒ the original insertion mode is neither "text" nor "in table text", and if it is "in cell", the
  stack below the current node has a `td`/`th` in table scope (that the rules of "text" and not those of foreign
  content are applied to tags in this mode is a fact the model provides, see `H5V.Lemmas.HtmlTBModesInvDriver`);
* `ttext`: "in table text" ⇒ the original insertion mode is "in table" / "in table body" / "in row", and the current
  node is an HTML `table`, `tbody`, `template`, `tfoot`, `thead`, `tr` element (or — a case that the specification
  alone cannot exclude, the model can — the *first* element of the stack is one);
* `af`:    the tokens in the list of active formatting elements are formatting start tags;
* `tm`:    the stack of template insertion modes holds only the modes "in template" pushes;
* `nosel`: (2025 text) the insertion mode is not one of the two select modes.

Everything here is about the specification only (no model, no html5ever).
-/
set_option linter.unusedSectionVars false
set_option linter.unusedSimpArgs false
namespace H5V.Lemmas.ModesInv
open H5V.Spec H5V.Spec.TreeModes
open H5V.Spec.TreeAlgo (Str Name nsHtml nsMathml nsSvg inHtml)
open H5V.Spec.TreeAlgo2 (Elem Entry PState)

/-! ## names -/

/-- an HTML `td` or `th` element -/
def tdThN (n : Name) : Bool := inHtml ["td", "th"] n
/-- one of the element types of "has an element in table scope": HTML `html`, `table`, `template` -/
def markN (n : Name) : Bool := TreeAlgo.tableScopeList n
/-- neither: pushing or popping such an element does not change "has a td/th in table scope" -/
def neutralN (n : Name) : Bool := !tdThN n && !markN n

/-- "has a `td` or `th` element in table scope" on the element types, **current node first** -/
def cellR : List Name → Bool := TreeAlgo.hasInScope tdThN markN

theorem cellR_nil : cellR [] = false := rfl
theorem cellR_cons (n : Name) (l : List Name) :
    cellR (n :: l) = if tdThN n then true else if markN n then false else cellR l := rfl

theorem cellR_cons_neutral {n : Name} (h : neutralN n = true) (l : List Name) : cellR (n :: l) = cellR l := by
  simp only [neutralN, Bool.and_eq_true, Bool.not_eq_true'] at h
  rw [cellR_cons, h.1, h.2]; rfl

theorem cellR_cons_td {n : Name} (h : tdThN n = true) (l : List Name) : cellR (n :: l) = true := by
  rw [cellR_cons, h]; rfl

/-- a name outside the HTML namespace is neutral -/
theorem neutralN_of_ns {n : Name} (h : n.ns ≠ nsHtml) : neutralN n = true := by
  have h1 : (n.ns == nsHtml) = false := by simpa using h
  have h2 : tdThN n = false := by simp [tdThN, inHtml, h1]
  have h3 : markN n = false := by
    simp only [markN, TreeAlgo.tableScopeList, TreeAlgo.inTable, TreeTables.tableScope, TreeAlgo.nsUrl,
      List.any_cons, List.any_nil, Bool.or_false]
    have : (nsHtml == n.ns) = false := by simpa using fun h' => h h'.symm
    simp [this]
  simp [neutralN, h2, h3]

/-- an HTML name other than `td`, `th`, `html`, `table`, `template` is neutral -/
theorem neutralN_of_loc {n : Name}
    (h : n.loc ≠ "td".toList ∧ n.loc ≠ "th".toList ∧ n.loc ≠ "html".toList ∧ n.loc ≠ "table".toList ∧
      n.loc ≠ "template".toList) : neutralN n = true := by
  obtain ⟨h1, h2, h3, h4, h5⟩ := h
  have k : ∀ (a : String), n.loc ≠ a.toList → (a.toList == n.loc) = false := by
    intro a ha; simpa using fun h' => ha h'.symm
  simp only [neutralN, tdThN, markN, inHtml, TreeAlgo.tableScopeList, TreeAlgo.inTable, TreeTables.tableScope,
    List.any_cons, List.any_nil, Bool.or_false, k _ h1, k _ h2, k _ h3, k _ h4, k _ h5, Bool.and_false, Bool.or_self,
    Bool.not_false, Bool.and_self]

/-- dropping elements none of which is a `td`/`th` keeps "td/th in table scope" -/
theorem cellR_dropWhile {p : Name → Bool} : ∀ {l : List Name}, (∀ n ∈ l.takeWhile p, tdThN n = false) →
    cellR l = true → cellR (l.dropWhile p) = true
  | [], _, h => h
  | n :: l, hn, h => by
    by_cases hp : p n = true
    · rw [List.dropWhile_cons_of_pos hp]
      have hn' : ∀ m ∈ (n :: l).takeWhile p, tdThN m = false := hn
      rw [List.takeWhile_cons_of_pos hp] at hn'
      have h1 : tdThN n = false := hn' n (List.mem_cons_self ..)
      rw [cellR_cons, h1] at h
      by_cases hm : markN n = true
      · rw [hm] at h; cases h
      · have hm' : markN n = false := by simpa using hm
        rw [hm'] at h
        exact cellR_dropWhile (fun m hmm => hn' m (List.mem_cons_of_mem _ hmm)) h
    · rw [List.dropWhile_cons_of_neg hp]; exact h

theorem cellR_drop : ∀ (k : Nat) {l : List Name}, (∀ n ∈ l.take k, tdThN n = false) →
    cellR l = true → cellR (l.drop k) = true
  | 0, _, _, h => h
  | _ + 1, [], _, h => h
  | k + 1, n :: l, hn, h => by
    have h1 : tdThN n = false := hn n (by simp)
    rw [cellR_cons, h1] at h
    by_cases hm : markN n = true
    · rw [hm] at h; cases h
    · have hm' : markN n = false := by simpa using hm
      rw [hm'] at h
      exact cellR_drop k (fun m hmm => hn m (by simp [hmm])) h

/-- "td/th in table scope" only looks at the non-neutral elements -/
theorem cellR_filter : ∀ (l : List Name), cellR (l.filter fun n => !neutralN n) = cellR l
  | [] => rfl
  | n :: l => by
    by_cases hn : neutralN n = true
    · rw [List.filter_cons_of_neg (by simp [hn]), cellR_cons_neutral hn, cellR_filter l]
    · have hn' : neutralN n = false := by simpa using hn
      rw [List.filter_cons_of_pos (by simp [hn']), cellR_cons, cellR_cons, cellR_filter l]

/-- two stacks with the same non-neutral elements agree on "td/th in table scope" -/
theorem cellR_congr {l l' : List Name} (h : (l'.filter fun n => !neutralN n) = l.filter fun n => !neutralN n) :
    cellR l' = cellR l := by
  rw [← cellR_filter l', h, cellR_filter]

/-- in a specific scope whose list contains `td`, `th`: no `td`/`th` above the target -/
theorem noTd_above_target {isTarget list : Name → Bool} (hl : ∀ n, tdThN n = true → list n = true) :
    ∀ {l : List Name}, TreeAlgo.hasInScope isTarget list l = true →
      ∀ n ∈ l.takeWhile (fun n => !isTarget n), tdThN n = false
  | [], h, _, _ => by cases h
  | m :: l, h, n, hn => by
    unfold TreeAlgo.hasInScope at h
    by_cases ht : isTarget m = true
    · rw [List.takeWhile_cons_of_neg (by simp [ht])] at hn; cases hn
    · have ht' : isTarget m = false := by simpa using ht
      rw [List.takeWhile_cons_of_pos (by simp [ht'])] at hn
      rw [ht'] at h
      simp only [Bool.false_eq_true, if_false] at h
      by_cases hlm : list m = true
      · rw [hlm] at h; simp at h
      · rw [if_neg hlm] at h
        rcases List.mem_cons.mp hn with rfl | hn
        · cases hh : tdThN n
          · rfl
          · exact absurd (hl n hh) hlm
        · exact noTd_above_target hl h n hn

/-! ## the state -/
section
variable {N : Type} [DecidableEq N]

/-- the element types of the stack, current node first (`= State.names`) -/
def namesOf (st : List (Elem N)) : List Name := st.reverse.map (·.name)

theorem names_eq (σ : State N) : σ.names = namesOf σ.p.stack := rfl
theorem namesOf_snoc (st : List (Elem N)) (e : Elem N) : namesOf (st ++ [e]) = e.name :: namesOf st := by
  simp [namesOf]
theorem namesOf_append (st es : List (Elem N)) : namesOf (st ++ es) = namesOf es ++ namesOf st := by
  simp [namesOf]

/-- the Assert of "in cell" is `cellR` of the stack -/
theorem hasAnyInTableScope_td (σ : State N) : hasAnyInTableScope σ ["td", "th"] = cellR σ.names := rfl

/-- the formatting start tags: the only tokens "push onto the list of active formatting elements" is used for -/
def fmtNames : List String := ["a", "b", "big", "code", "em", "font", "i", "nobr", "s", "small", "strike", "strong", "tt", "u"]
def fmtN (name : Str) : Bool := strIsOneOf name fmtNames

theorem neutralN_of_fmt {name : Str} (h : fmtN name = true) : neutralN ⟨nsHtml, name⟩ = true := by
  apply neutralN_of_loc
  simp only [fmtN, strIsOneOf, fmtNames, List.any_cons, List.any_nil, Bool.or_false, Bool.or_eq_true, beq_iff_eq] at h
  refine ⟨?_, ?_, ?_, ?_, ?_⟩ <;> intro (hc : name = _) <;> subst hc <;> revert h <;> decide

/-- the tokens of the list of active formatting elements are formatting start tags -/
def AFOk (l : List (Entry N ETok)) : Prop := ∀ n t, Entry.element n t ∈ l → fmtN t.name = true

def tableish : List String := ["table", "tbody", "template", "tfoot", "thead", "tr"]

/-- what "in template" pushes onto the stack of template insertion modes -/
def tmOk (m : IMode) : Prop :=
  m = .inTemplate ∨ m = .inTable ∨ m = .inColumnGroup ∨ m = .inTableBody ∨ m = .inRow ∨ m = .inBody

def tblOrig (m : IMode) : Prop := m = .inTable ∨ m = .inTableBody ∨ m = .inRow

/-- the mode is one of those `Good` says nothing about (beyond `af`, `tm`) -/
def plainMode (m : IMode) : Prop :=
  m ≠ .inCell ∧ m ≠ .text ∧ m ≠ .inTableText ∧ m ≠ .inSelect ∧ m ≠ .inSelectInTable

instance (m : IMode) : Decidable (plainMode m) := by unfold plainMode; infer_instance

/-- what the original insertion mode of "text" can be -/
def origOk (m : IMode) : Prop := m ≠ .text ∧ m ≠ .inTableText ∧ m ≠ .inSelect ∧ m ≠ .inSelectInTable

structure Good (σ : State N) : Prop where
  cell : σ.mode = .inCell → cellR σ.names = true
  text : σ.mode = .text → origOk σ.originalMode ∧ (σ.originalMode = .inCell → cellR (σ.names.drop 1) = true)
  ttext : σ.mode = .inTableText → tblOrig σ.originalMode ∧
    (σ.curIn tableish = true ∨ (σ.p.stack.head?.any fun e => inHtml tableish e.name) = true)
  nosel : σ.mode ≠ .inSelect ∧ σ.mode ≠ .inSelectInTable
  af : AFOk σ.p.list
  tm : ∀ m ∈ σ.templateModes, tmOk m

/-- the invariant: `Good` unless "stop parsing" was reached -/
def Inv (σ : State N) : Prop := σ.stopped = false → Good σ

/-- the link between the two lists that the MODEL provides for free (an element's type is a function of the
node): an element of the stack that has an entry in the list of active formatting elements has the type of the
entry's token -/
def Link (σ : State N) : Prop :=
  (∀ e ∈ σ.p.stack, ∀ t, Entry.element e.id t ∈ σ.p.list → e.name = ⟨nsHtml, t.name⟩) ∧
  (∀ e ∈ σ.p.stack, σ.p.formPointer = some e.id → e.name = ⟨nsHtml, "form".toList⟩)

/-- the consequence of `Link` (and `AFOk`) the adoption agency algorithm needs: no td/th element of the stack has an
entry in the list -/
def WLink (σ : State N) : Prop :=
  ∀ e ∈ σ.p.stack, ∀ t, Entry.element e.id t ∈ σ.p.list → tdThN e.name = false

theorem WLink.same {σ σ' : State N} (h : WLink σ) (hs : σ'.p.stack = σ.p.stack := by rfl)
    (hl : σ'.p.list = σ.p.list := by rfl) : WLink σ' := by
  unfold WLink; rw [hs, hl]; exact h

theorem Link.same {σ σ' : State N} (h : Link σ) (hs : σ'.p.stack = σ.p.stack := by rfl)
    (hl : σ'.p.list = σ.p.list := by rfl) (hf : σ'.p.formPointer = σ.p.formPointer := by rfl) : Link σ' := by
  unfold Link; rw [hs, hl, hf]; exact h

/-- the node ids taken from the supply between `sup` and its suffix `sup'` are not ids of td/th elements of `st`
(node ids are fresh: a fact about the node supply that the MODEL provides; it is needed for the adoption agency
algorithm only, which finds stack elements by their node id) -/
def FreshL (st : List (Elem N)) (sup sup' : List N) : Prop :=
  ∀ used, sup = used ++ sup' → ∀ n ∈ used, ∀ e ∈ st, tdThN e.name = true → e.id ≠ n

/-- freshness for a later stretch: the ids taken between `sup1` and `sup2`, where `sup = u ++ sup1`, `sup2 = v ++ sup'`,
for a stack whose td/th elements are elements of `st` -/
theorem FreshL.mono {st st1 : List (Elem N)} {sup sup' sup1 sup2 : List N} (h : FreshL st sup sup')
    (h1 : ∃ u, sup = u ++ sup1) (h2 : ∃ v, sup2 = v ++ sup')
    (hst : ∀ e ∈ st1, tdThN e.name = true → e ∈ st) : FreshL st1 sup1 sup2 := by
  obtain ⟨u, hu⟩ := h1
  obtain ⟨v, hv⟩ := h2
  intro used hused n hn e he htd
  exact h (u ++ used ++ v) (by rw [hu, hused, hv]; simp) n (by simp [hn]) e (hst e he htd) htd

theorem Link.weak {σ : State N} (h : Link σ) (haf : AFOk σ.p.list) : WLink σ := by
  intro e he t ht
  have hn := neutralN_of_fmt (haf _ _ ht)
  rw [← h.1 e he t ht] at hn
  simp only [neutralN, Bool.and_eq_true, Bool.not_eq_true'] at hn
  exact hn.1

def isChar : STok → Bool
  | .character _ => true
  | _ => false

/-- `Link` is needed for tags only (the adoption agency algorithm) -/
def LinkFor (σ : State N) (tok : STok) : Prop := isChar tok = false → Link σ

/-- the node ids a rule takes from the supply are fresh (needed for tags only) -/
def FreshFor (σ : State N) (tok : STok) (r : Step N) : Prop :=
  isChar tok = false → FreshL σ.p.stack σ.p.supply r.state.p.supply

/-- the post-condition of a rule of an insertion mode: the invariant; a state that is reprocessed has not stopped;
the rules of the insertion modes never answer "reprocess according to the rules of the current insertion mode in
HTML content" (only the rules for foreign content do) -/
def Post : Step N → Prop
  | .done s => Inv s
  | .reprocess s => s.stopped = false ∧ Good s
  | .reprocessHtml _ => False

@[simp] theorem post_done (s : State N) : Post (.done s) = Inv s := rfl
@[simp] theorem post_reprocess (s : State N) : Post (.reprocess s) = (s.stopped = false ∧ Good s) := rfl
@[simp] theorem post_reprocessHtml (s : State N) : Post (.reprocessHtml s) = False := rfl

/-- the post-condition of the rules for foreign content -/
def PostF : Step N → Prop
  | .done s => Inv s
  | .reprocess s => s.stopped = false ∧ Good s
  | .reprocessHtml s => s.stopped = false ∧ Good s

theorem Post.toF {r : Step N} (h : Post r) : PostF r := by
  cases r with
  | done s => exact h
  | reprocess s => exact h
  | reprocessHtml s => exact h.elim

theorem Post.inv {r : Step N} (h : Post r) : Inv r.state := by
  cases r with
  | done s => exact h
  | reprocess s => exact fun _ => h.2
  | reprocessHtml s => exact h.elim

/-- a start or end tag `td` / `th` end tag: the tokens "in cell" never hands to "in body" -/
def cellEnd : STok → Bool
  | .endTag t => t.isOneOf ["td", "th"]
  | _ => false

/-- the rule function `f`, called in a good state in which `pre` holds, keeps the invariant (2025 text) -/
def Keeps (f : Config N → State N → STok → M (Step N)) (pre : State N → STok → Prop) : Prop :=
  ∀ (cfg : Config N), cfg.edition = .customizableSelect → ∀ (σ : State N) (tok : STok) (r : Step N),
    Good σ → σ.stopped = false → LinkFor σ tok → FreshFor σ tok r → pre σ tok → f cfg σ tok = .ok r → Post r

/-- the same for a rule function that does not need `Link` -/
def Keeps0 (f : Config N → State N → STok → M (Step N)) (pre : State N → STok → Prop) : Prop :=
  ∀ (cfg : Config N), cfg.edition = .customizableSelect → ∀ (σ : State N) (tok : STok) (r : Step N),
    Good σ → σ.stopped = false → pre σ tok → f cfg σ tok = .ok r → Post r

theorem Keeps0.keeps {f : Config N → State N → STok → M (Step N)} {pre : State N → STok → Prop} (h : Keeps0 f pre) :
    Keeps f pre := fun cfg hed σ tok r hg hst _ _ hp he => h cfg hed σ tok r hg hst hp he

/-- when "in body" may be called: not in "text" / "in table text" (see `inBody_char_eff` for the characters of
"in table text"); in "in cell" not for the `td`/`th` end tags -/
def PreBody (σ : State N) (tok : STok) : Prop :=
  σ.mode ≠ .text ∧ σ.mode ≠ .inTableText ∧ (σ.mode = .inCell → cellEnd tok = false)

/-- when "in head" may be called -/
def PreHead (σ : State N) (_ : STok) : Prop := σ.mode ≠ .text ∧ σ.mode ≠ .inTableText

/-- the rule function of the mode `m` is called in the mode `m` -/
def PreMode (m : IMode) (σ : State N) (_ : STok) : Prop := σ.mode = m

/-- "in table" is called from "in table", "in table body", "in row" -/
def PreTable (σ : State N) (_ : STok) : Prop := tblOrig σ.mode

/-! ### states that differ only where `Good` does not look -/

/-- `σ'` has the insertion mode, the original insertion mode, the template insertion modes and the stopped flag
of `σ`; its stack is `st`, its list `l` -/
structure Upd (σ σ' : State N) (st : List (Elem N)) (l : List (Entry N ETok)) : Prop where
  mode : σ'.mode = σ.mode
  orig : σ'.originalMode = σ.originalMode
  tms : σ'.templateModes = σ.templateModes
  stopped : σ'.stopped = σ.stopped
  stack : σ'.p.stack = st
  list : σ'.p.list = l

theorem Upd.refl (σ : State N) : Upd σ σ σ.p.stack σ.p.list := ⟨rfl, rfl, rfl, rfl, rfl, rfl⟩

theorem Upd.trans {σ σ1 σ2 : State N} {st1 st2 l1 l2} (h1 : Upd σ σ1 st1 l1) (h2 : Upd σ1 σ2 st2 l2) : Upd σ σ2 st2 l2 :=
  ⟨h2.mode.trans h1.mode, h2.orig.trans h1.orig, h2.tms.trans h1.tms, h2.stopped.trans h1.stopped, h2.stack, h2.list⟩

/-- `Good` from its parts, for a state in a plain mode -/
theorem Good.plain {σ : State N} (hm : plainMode σ.mode) (haf : AFOk σ.p.list) (htm : ∀ m ∈ σ.templateModes, tmOk m) :
    Good σ where
  cell := fun h => absurd h hm.1
  text := fun h => absurd h hm.2.1
  ttext := fun h => absurd h hm.2.2.1
  nosel := ⟨hm.2.2.2.1, hm.2.2.2.2⟩
  af := haf
  tm := htm

/-- same mode, same original mode (neither "text" nor "in table text"); the stack changed in a way that keeps
"td/th in table scope" -/
theorem Good.upd {σ σ' : State N} {st l} (hg : Good σ) (hu : Upd σ σ' st l) (hnt : σ.mode ≠ .text)
    (hntt : σ.mode ≠ .inTableText) (hc : σ.mode = .inCell → cellR σ.names = true → cellR (namesOf st) = true)
    (haf : AFOk l) : Good σ' where
  cell := by
    intro h
    rw [names_eq, hu.stack]
    rw [hu.mode] at h
    exact hc h (hg.cell h)
  text := fun h => absurd (hu.mode ▸ h) hnt
  ttext := fun h => absurd (hu.mode ▸ h) hntt
  nosel := by rw [hu.mode]; exact hg.nosel
  af := by rw [hu.list]; exact haf
  tm := by rw [hu.tms]; exact hg.tm

/-- nothing `Good` looks at changed -/
theorem Good.same {σ σ' : State N} (hg : Good σ) (hm : σ'.mode = σ.mode := by rfl)
    (ho : σ'.originalMode = σ.originalMode := by rfl) (ht : σ'.templateModes = σ.templateModes := by rfl)
    (hs : σ'.p.stack = σ.p.stack := by rfl) (hl : σ'.p.list = σ.p.list := by rfl) : Good σ' := by
  have hn : σ'.names = σ.names := by rw [names_eq, names_eq, hs]
  have hc : σ'.curIn tableish = σ.curIn tableish := by simp only [State.curIn, State.cur, hs]
  constructor
  · intro h; rw [hn]; exact hg.cell (hm ▸ h)
  · intro h
    rw [hm, ho, hs, hn] at *
    exact hg.text h
  · intro h
    rw [ho, hc, hs]
    exact hg.ttext (hm ▸ h)
  · rw [hm]; exact hg.nosel
  · rw [hl]; exact hg.af
  · rw [ht]; exact hg.tm

theorem Inv.same {σ σ' : State N} (hg : Good σ) (hm : σ'.mode = σ.mode := by rfl)
    (ho : σ'.originalMode = σ.originalMode := by rfl) (ht : σ'.templateModes = σ.templateModes := by rfl)
    (hs : σ'.p.stack = σ.p.stack := by rfl) (hl : σ'.p.list = σ.p.list := by rfl) : Inv σ' :=
  fun _ => hg.same hm ho ht hs hl

/-- a state in a plain mode whose list and template modes are those of a good state -/
theorem Good.toPlain {σ σ' : State N} (hg : Good σ) (hm : plainMode σ'.mode)
    (ht : σ'.templateModes = σ.templateModes := by rfl) (hl : σ'.p.list = σ.p.list := by rfl) : Good σ' :=
  Good.plain hm (hl ▸ hg.af) (ht ▸ hg.tm)

/-- `Good.plain` / `Good.toPlain` with the mode named: `Good.plain' (m := .inRow) rfl (by decide) …` -/
theorem Good.plain' {σ : State N} {m : IMode} (hm : σ.mode = m) (hp : plainMode m) (haf : AFOk σ.p.list)
    (htm : ∀ m ∈ σ.templateModes, tmOk m) : Good σ := Good.plain (hm ▸ hp) haf htm

theorem Good.toPlain' {σ σ' : State N} (hg : Good σ) {m : IMode} (hm : σ'.mode = m) (hp : plainMode m)
    (ht : σ'.templateModes = σ.templateModes := by rfl) (hl : σ'.p.list = σ.p.list := by rfl) : Good σ' :=
  hg.toPlain (hm ▸ hp) ht hl

/-- `Good` for a state in "in cell" -/
theorem Good.ofCell {σ : State N} (hm : σ.mode = .inCell) (hc : cellR σ.names = true) (haf : AFOk σ.p.list)
    (htm : ∀ m ∈ σ.templateModes, tmOk m) : Good σ where
  cell := fun _ => hc
  text := fun h => by rw [hm] at h; cases h
  ttext := fun h => by rw [hm] at h; cases h
  nosel := by rw [hm]; exact ⟨(by decide), (by decide)⟩
  af := haf
  tm := htm

/-- "stop parsing" -/
theorem inv_stopParsing (σ : State N) : Inv (stopParsing σ) := fun h => by cases h

/-! ### the monad -/

theorem bind_ok {α β : Type} {x : M α} {f : α → M β} {b : β} (h : x >>= f = .ok b) :
    ∃ a, x = .ok a ∧ f a = .ok b := by
  cases x with
  | error e => cases h
  | ok a => exact ⟨a, rfl, h⟩

theorem map_ok {α β : Type} {x : M α} {f : α → β} {b : β} (h : f <$> x = .ok b) : ∃ a, x = .ok a ∧ f a = b := by
  cases x with
  | error e => cases h
  | ok a => exact ⟨a, rfl, Except.ok.inj h⟩

theorem pure_ok {α : Type} {a b : α} (h : (pure a : M α) = .ok b) : a = b := Except.ok.inj h

theorem req_ok {α : Type} {o : Option α} {msg : String} {a : α} (h : req o msg = .ok a) : o = some a := by
  cases o with
  | none => cases h
  | some x => exact congrArg some (Except.ok.inj h)

end
end H5V.Lemmas.ModesInv
