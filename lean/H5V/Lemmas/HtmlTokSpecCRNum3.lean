import H5V.Lemmas.HtmlTokSpecCRNum2
set_option linter.unusedSimpArgs false
set_option linter.unusedVariables false
/-!
# C01 simulation — layer L3a, character references (start and numeric), part 3: one step of the model
in the sub-states `Begin` and `Octothorpe`
-/
namespace H5V.Lemmas.HtmlTokSpec
open H5V.Model.HtmlTok
open H5V.Spec.HtmlTokenizer (St Tok Emit Tree Switch Ctl ReturnSt normalizeNewlinesFrom)

/-- no character available: `Stuck`, the machine is unchanged -/
theorem crnum_stuck (o : Opts) {m : Mach} {cr : CharRefSt} (hcr : m.charRef = some cr) (hr : m.reconsume = false) :
    stepCharRef o m [] cr = .suspend m [] := by
  unfold stepCharRef crStep
  simp only [crnum_peek _ hr, List.head?_nil, setCharRef_self m _ hcr]

theorem crnum_alnum_plain {c : Char} (h : isAsciiAlnum c = true) : c ≠ '\r' ∧ c ≠ '\n' := by
  have := alnum_not_brk c h
  simp only [isBrk, Bool.or_eq_false_iff, decide_eq_false_iff_not] at this
  exact ⟨this.2, this.1⟩

theorem crnum_foldCh_cases (c : Char) : (c = '\r' ∧ foldCh c = '\n') ∨ (c ≠ '\r' ∧ foldCh c = c) := by
  unfold foldCh
  by_cases h : c = '\r'
  · exact Or.inl ⟨h, by simp [h]⟩
  · exact Or.inr ⟨h, by simp [h]⟩

/-- the delivery step of `stepCharRef`, in closed form -/
theorem crnum_ofSig_deliver {m1 : Mach} (hret : isRet m1.state = true) (cs : Str) (hne : cs ≠ [])
    (h0 : ∀ c ∈ cs, c ≠ '\x00') (inp : Str) :
    ofSig ((processCharRef m1 cs).1.setCharRef none, (processCharRef m1 cs).2) inp =
      .cont ((delivM m1 cs).setCharRef none) inp := by
  rw [crnum_processCharRef hret cs hne h0]
  rfl

theorem crnum_ofSig_deliver_nil {m1 : Mach} (hret : isRet m1.state = true) (inp : Str) :
    ofSig ((processCharRef m1 []).1.setCharRef none, (processCharRef m1 []).2) inp =
      .cont ((delivM m1 ['&']).setCharRef none) inp := by
  rw [crnum_processCharRef_nil hret]
  rfl

theorem crnum_begin (o : Opts) (ho : o.exactErrors = false) (pol : Pol) (tree : Tree)
    (m : Mach) (inp : Str) (t : Tok) (rest : Str) (h : RelCore m inp t rest) (cr : CharRefSt)
    (hcr : m.charRef = some cr) (hst : cr.state = .begin) :
    StepOk tree t rest (stepCharRef o m inp cr) := by
  obtain ⟨c, hd, hrest⟩ := crnum_ctx h hcr
  rw [hst] at hd
  obtain ⟨hts, hf1, hf2, hf3, hf4, hf5, hf6, hf7⟩ := hd
  rw [hf5] at hrest
  simp only [Option.getD_none, List.nil_append] at hrest
  cases inp with
  | nil => rw [crnum_stuck o hcr c.rcn]; exact h.toRel
  | cons c0 inp' =>
    by_cases hal : isAsciiAlnum c0 = true
    · -- named reference
      have hstep : stepCharRef o m (c0 :: inp') cr =
          .cont (m.setCharRef (some { cr with state := .named, nameBuf := some [] })) (c0 :: inp') := by
        unfold stepCharRef crStep
        simp only [crnum_peek _ c.rcn, List.head?_cons, hst, hal, if_true]
      rw [hstep]
      have ht := crnum_step_tinv o pol _ c.tinv hcr _ _ (by rw [hstep]; rfl)
      obtain ⟨p1, p2⟩ := crnum_alnum_plain hal
      rw [crnum_norm_plain _ _ p1 p2] at hrest
      refine Reach.stepEq (t1 := crTok t .namedCharacterReference ['&'] t.characterReferenceCode) (n := 0) ?_
        (Reach.done ?_)
      · rw [crnum_sstep_begin tree t rest hts, hrest]
        exact crnum_begin_alnum t c0 hal
      · refine c.progress _ (c0 :: inp') _ _ _ _ rfl ⟨rfl, rfl, by simp⟩ ?_ ?_ ht
        · intro nb hnb
          simp only [Option.some.injEq] at hnb
          subst hnb
          exact ⟨Or.inl rfl, by rw [hf6, hf7]; exact H5V.Props.C14.Walk.best_nil⟩
        · simp only [Option.getD_some, List.nil_append, List.drop_zero]
          rw [hrest, crnum_norm_plain _ _ p1 p2]
    · by_cases hh : c0 = '#'
      · -- numeric reference
        subst hh
        have hstep : stepCharRef o m ('#' :: inp') cr =
            .cont (m.setCharRef (some { cr with state := .octothorpe })) inp' := by
          unfold stepCharRef crStep
          simp (config := {decide := true}) only [crnum_peek _ c.rcn, List.head?_cons, hst, hal, if_true, if_false,
            crnum_discard _ c.rcn, List.tail_cons, Bool.false_eq_true]
        rw [hstep]
        have ht := crnum_step_tinv o pol _ c.tinv hcr _ _ (by rw [hstep]; rfl)
        rw [crnum_norm_plain _ _ (by decide) (by decide)] at hrest
        refine Reach.stepEq (t1 := crTok t .numericCharacterReference ['&', '#'] t.characterReferenceCode) (n := 1) ?_
          (Reach.done ?_)
        · rw [crnum_sstep_begin tree t rest hts, hrest]
          exact crnum_begin_hash t
        · refine c.progress _ inp' _ _ _ _ rfl ⟨rfl, rfl, hf1, hf2, hf3, hf4, hf5, hf6, hf7⟩ trivial ?_ ht
          simp only [hf5, Option.getD_none, List.nil_append]
          rw [hrest]; rfl
      · -- not a reference: `&` is text
        have hal' : isAsciiAlnum c0 = false := by simpa using hal
        have hstep : stepCharRef o m (c0 :: inp') cr =
            .cont ((delivM m ['&']).setCharRef none) (c0 :: inp') := by
          unfold stepCharRef crStep
          simp only [crnum_peek _ c.rcn, List.head?_cons, hst, hal', hh, if_false, Bool.false_eq_true]
          exact crnum_ofSig_deliver_nil c.ret _
        rw [hstep]
        have ht := crnum_step_tinv o pol _ c.tinv hcr _ _ (by rw [hstep]; rfl)
        obtain ⟨r, hr⟩ := crnum_norm_head c0 inp'
        refine Reach.stepEq (t1 := finT t ['&'] t.characterReferenceCode) (n := 0) ?_ (Reach.done ?_)
        · rw [crnum_sstep_begin tree t rest hts, hrest, hr]
          apply crnum_begin_other
          intro x hx
          simp only [List.head?_cons, Option.some.injEq] at hx
          subst hx
          rcases crnum_foldCh_cases c0 with ⟨_, e⟩ | ⟨_, e⟩ <;> rw [e]
          · exact ⟨by decide, by decide⟩
          · exact ⟨hh, hal'⟩
        · have := c.done ['&'] [] (c0 :: inp') t.characterReferenceCode (by simp) ht
          simpa [hrest] using this

theorem crnum_octothorpe (o : Opts) (ho : o.exactErrors = false) (pol : Pol) (tree : Tree)
    (m : Mach) (inp : Str) (t : Tok) (rest : Str) (h : RelCore m inp t rest) (cr : CharRefSt)
    (hcr : m.charRef = some cr) (hst : cr.state = .octothorpe) :
    StepOk tree t rest (stepCharRef o m inp cr) := by
  obtain ⟨c, hd, hrest⟩ := crnum_ctx h hcr
  rw [hst] at hd
  obtain ⟨hts, htb, hf1, hf2, hf3, hf4, hf5, hf6, hf7⟩ := hd
  rw [hf5] at hrest
  simp only [Option.getD_none, List.nil_append] at hrest
  cases inp with
  | nil => rw [crnum_stuck o hcr c.rcn]; exact h.toRel
  | cons c0 inp' =>
    by_cases hx : c0 = 'x' ∨ c0 = 'X'
    · have hstep : stepCharRef o m (c0 :: inp') cr =
          .cont (m.setCharRef (some { cr with hexMarker := some c0, state := .numeric 16 })) inp' := by
        unfold stepCharRef crStep
        have hx' : (c0 = 'x' || c0 = 'X') = true := by simpa using hx
        simp only [crnum_peek _ c.rcn, List.head?_cons, hst, hx', if_true, crnum_discard _ c.rcn, List.tail_cons]
      rw [hstep]
      have ht := crnum_step_tinv o pol _ c.tinv hcr _ _ (by rw [hstep]; rfl)
      have hpl : c0 ≠ '\r' ∧ c0 ≠ '\n' := by rcases hx with rfl | rfl <;> exact ⟨by decide, by decide⟩
      rw [crnum_norm_plain _ _ hpl.1 hpl.2] at hrest
      refine Reach.stepEq (t1 := crTok t .hexadecimalCharacterReferenceStart (t.temporaryBuffer ++ [c0]) 0) (n := 1) ?_
        (Reach.done ?_)
      · rw [crnum_sstep_num tree t rest hts, hrest]
        exact crnum_num_x t c0 hx
      · refine c.progress _ inp' _ _ _ _ rfl ?_ trivial ?_ ht
        · show CRStD _ _ _ (.numeric 16)
          simp only [CRStD, crBase, Option.isSome_some, if_true, hf5, hf3, Bool.false_eq_true, if_false, numStart,
            crTok_state, crTok_buf, crTok_code, htb, hf1, hf2, Option.toList_some, true_and]
        · simp only [hf5, Option.getD_none, List.nil_append]
          rw [hrest]; rfl
    · have hx1 : c0 ≠ 'x' := fun e => hx (Or.inl e)
      have hx2 : c0 ≠ 'X' := fun e => hx (Or.inr e)
      have hstep : stepCharRef o m (c0 :: inp') cr =
          .cont (m.setCharRef (some { cr with hexMarker := none, state := .numeric 10 })) (c0 :: inp') := by
        unfold stepCharRef crStep
        simp only [crnum_peek _ c.rcn, List.head?_cons, hst, hx1, hx2, decide_false, Bool.or_self, Bool.false_eq_true,
          if_false]
      rw [hstep]
      have ht := crnum_step_tinv o pol _ c.tinv hcr _ _ (by rw [hstep]; rfl)
      obtain ⟨r, hr⟩ := crnum_norm_head c0 inp'
      refine Reach.stepEq (t1 := crTok t .decimalCharacterReferenceStart t.temporaryBuffer 0) (n := 0) ?_
        (Reach.done ?_)
      · rw [crnum_sstep_num tree t rest hts, hrest, hr]
        have hne : ∀ y, y ≠ '\r' → y ≠ '\n' → c0 ≠ y → foldCh c0 ≠ y := by
          intro y y1 y2 y3
          rcases crnum_foldCh_cases c0 with ⟨_, e⟩ | ⟨_, e⟩ <;> rw [e]
          · exact fun e => y2 e.symm
          · exact y3
        apply crnum_num_other
        · simpa using hne 'x' (by decide) (by decide) hx1
        · simpa using hne 'X' (by decide) (by decide) hx2
      · refine c.progress _ (c0 :: inp') _ _ _ _ rfl ?_ trivial ?_ ht
        · show CRStD _ _ _ (.numeric 10)
          simp only [CRStD, crBase, Option.isSome_none, Bool.false_eq_true, if_false, hf5, hf3, numStart,
            crTok_state, crTok_buf, crTok_code, htb, hf1, hf2, Option.toList_none, true_and, List.append_nil]
        · simp only [hf5, Option.getD_none, List.nil_append, List.drop_zero]
          exact hrest
end H5V.Lemmas.HtmlTokSpec
