import H5V.Lemmas.HtmlTokOptE
import H5V.Lemmas.HtmlTokOut
import H5V.Lemmas.HtmlTokTerm
import H5V.Lemmas.HtmlJointChunkTok
/-!
What the HTML tokenizer model delivers while the tree builder is in the "text" insertion mode.

* `step_form` / `step_one_tag` / `step_tag_form`: EVERY step delivers at most one tag token; it is the newest entry
  of the step apart from a pause marker, and the step result then has the `emit_current_tag` form.
* `step_textSt`: from a raw-text family state (or inside the end tag that leaves it) a step only delivers
  character tokens, parse errors, pause markers and at most one END tag; without a tag the machine is in a text
  state again.
* `eofLoop_textSt`, `eofLoop_no_tag`, `crEof_processCharRef_out`: the same for `Tokenizer::end`.

The traversals use one generic "the log grew by tokens satisfying `P`" relation `RF.Gr P m x`.
-/
namespace H5V.Lemmas.ParseSpec
open H5V.Model.HtmlTok

/-- raw text / RCDATA / script data and all their sub-states -/
def RawFam : State → Bool
  | .rawData _ | .rawLessThanSign _ | .rawEndTagOpen _ | .rawEndTagName _ | .scriptDataEscapeStart _
  | .scriptDataEscapeStartDash | .scriptDataEscapedDash _ | .scriptDataEscapedDashDash _
  | .scriptDataDoubleEscapeEnd => true
  | _ => false

/-- the states in which the current tag token is being completed (after its name) -/
def TagFam : State → Bool
  | .beforeAttributeName | .attributeName | .afterAttributeName | .beforeAttributeValue | .attributeValue _
  | .afterAttributeValueQuoted | .selfClosingStartTag => true
  | _ => false

def isRawEndTagName : State → Bool
  | .rawEndTagName _ => true
  | _ => false

/-- a pending character reference whose best match so far is a real entity (first code point non-zero; the
tokenizer only records matches `mt` with `mt.1 ≠ 0`) -/
def CrOk (cr : CharRefSt) : Prop := ∀ c1 c2, cr.nameMatch = some (c1, c2) → c1 ≠ 0

/-- invariant of every reachable machine: the pending character reference, if any, is `CrOk` -/
def CrInv (m : Mach) : Prop := ∀ cr, m.charRef = some cr → CrOk cr

/-- where the tokenizer can be while the tree builder is in the "text" insertion mode -/
def TextSt (m : Mach) : Prop :=
  ((RawFam m.state = true ∧ (isRawEndTagName m.state = true → m.tagKind = .endTag)) ∨
    (TagFam m.state = true ∧ m.tagKind = .endTag)) ∧ CrInv m

def isTagTok : Token → Bool
  | .tag _ => true
  | _ => false

def isPauseTok : Token → Bool
  | .pause _ => true
  | _ => false

/-- what may be delivered in the "text" insertion mode (EOF apart) -/
def AllowedInText : Token → Prop
  | .chars _ => True
  | .error _ => True
  | .pause _ => True
  | .tag t => t.kind = .endTag
  | _ => False

namespace RF

/-! ### lists with exactly one tag token -/

theorem tag_decomp_unique : ∀ {pre post a b : Out} {t0 t : Tag} {l0 l : Nat},
    (∀ p ∈ pre, isTagTok p.1 = false) → (∀ p ∈ post, isTagTok p.1 = false) →
    pre ++ (Token.tag t0, l0) :: post = a ++ (Token.tag t, l) :: b → a = pre ∧ t = t0 ∧ l = l0 ∧ b = post := by
  intro pre
  induction pre with
  | nil =>
    intro post a b t0 t l0 l _ hpost e
    cases a with
    | nil =>
      simp only [List.nil_append, List.cons.injEq, Prod.mk.injEq, Token.tag.injEq] at e
      exact ⟨rfl, e.1.1.symm, e.1.2.symm, e.2.symm⟩
    | cons x a' =>
      simp only [List.nil_append, List.cons_append, List.cons.injEq] at e
      have hm : (Token.tag t, l) ∈ post := by rw [e.2]; exact List.mem_append_right _ List.mem_cons_self
      have := hpost _ hm
      cases this
  | cons p pre' ih =>
    intro post a b t0 t l0 l hpre hpost e
    cases a with
    | nil =>
      simp only [List.nil_append, List.cons_append, List.cons.injEq] at e
      have := hpre p List.mem_cons_self
      rw [e.1] at this
      cases this
    | cons x a' =>
      simp only [List.cons_append, List.cons.injEq] at e
      obtain ⟨e1, e2⟩ := e
      obtain ⟨r1, r2, r3, r4⟩ := ih (fun q hq => hpre q (List.mem_cons_of_mem _ hq)) hpost e2
      exact ⟨by rw [r1, e1], r2, r3, r4⟩

/-! ### the log grows by tokens satisfying `P` -/

/-- the log of `x` is the log of `m` plus new entries whose tokens satisfy `P` -/
def Gr (P : Token → Prop) (m x : Mach) : Prop := ∃ new, x.out = new ++ m.out ∧ ∀ p ∈ new, P p.1

/-- `P` holds of parse errors and character tokens -/
class PC (P : Token → Prop) : Prop where
  err : ∀ s, P (.error s)
  chars : ∀ s, P (.chars s)

/-- `P` holds of the U+0000 token -/
class PN (P : Token → Prop) : Prop where
  nul : P .nullChar

/-- `P` holds of comments and DOCTYPEs -/
class PD (P : Token → Prop) : Prop where
  comment : ∀ s, P (.comment s)
  doctype : ∀ d, P (.doctype d)

/-- `P` holds of the end-of-file token -/
class PE (P : Token → Prop) : Prop where
  eof : P .eof

theorem Gr.refl (P : Token → Prop) (m : Mach) : Gr P m m := ⟨[], rfl, fun _ h => by cases h⟩

theorem Gr.trans {P : Token → Prop} {m x y : Mach} (h1 : Gr P m x) (h2 : Gr P x y) : Gr P m y := by
  obtain ⟨n1, e1, p1⟩ := h1
  obtain ⟨n2, e2, p2⟩ := h2
  refine ⟨n2 ++ n1, by rw [e2, e1, List.append_assoc], ?_⟩
  intro p hp
  rcases List.mem_append.mp hp with hp | hp
  · exact p2 p hp
  · exact p1 p hp

theorem Gr.mono {P Q : Token → Prop} (hpq : ∀ t, P t → Q t) {m x : Mach} (h : Gr P m x) : Gr Q m x := by
  obtain ⟨n, e, p⟩ := h
  exact ⟨n, e, fun q hq => hpq _ (p q hq)⟩

theorem Gr.of_out {P : Token → Prop} {m x y : Mach} (h : Gr P m x) (e : y.out = x.out) : Gr P m y := by
  obtain ⟨n, e1, p⟩ := h
  exact ⟨n, by rw [e, e1], p⟩

section
variable {P : Token → Prop} {m x : Mach}

theorem Gr_emit (h : Gr P m x) (t : Token) (ht : P t) : Gr P m (emit x t) := by
  obtain ⟨n, e, p⟩ := h
  refine ⟨(t, x.line) :: n, ?_, ?_⟩
  · show (t, x.line) :: x.out = _
    rw [e]; rfl
  · intro q hq
    rcases List.mem_cons.mp hq with rfl | hq
    · exact ht
    · exact p q hq

theorem Gr_emitErr [PC P] (h : Gr P m x) (s : String) : Gr P m (emitErr x s) := Gr_emit h _ (PC.err _)
theorem Gr_emitErrL [PC P] (h : Gr P m x) (s : Str) : Gr P m (emit x (.error s)) := Gr_emit h _ (PC.err _)
theorem Gr_emitChars [PC P] (h : Gr P m x) (s : Str) : Gr P m (emitChars x s) := Gr_emit h _ (PC.chars _)

theorem Gr_emitChar [PC P] [PN P] (h : Gr P m x) (c : Char) : Gr P m (emitChar x c) := by
  unfold emitChar; split
  · exact Gr_emit h _ PN.nul
  · exact Gr_emit h _ (PC.chars _)

theorem Gr_emitCharNe [PC P] (h : Gr P m x) (c : Char) (hc : c ≠ '\x00') : Gr P m (emitChar x c) := by
  unfold emitChar; split
  · rename_i e; exact absurd e hc
  · exact Gr_emit h _ (PC.chars _)

theorem Gr_badChar [PC P] (h : Gr P m x) (o : Opts) : Gr P m (badChar o x) := by
  unfold badChar; split
  · exact Gr_emitErr h _
  · exact Gr_emitErrL h _

theorem Gr_badEof [PC P] (h : Gr P m x) (o : Opts) : Gr P m (badEof o x) := by
  unfold badEof; split <;> exact Gr_emitErr h _

theorem Gr_to (h : Gr P m x) (s : State) : Gr P m (to s x) := h
theorem Gr_reconsumeTo (h : Gr P m x) (s : State) : Gr P m (reconsumeTo s x) := h
theorem Gr_discardTag (h : Gr P m x) : Gr P m (discardTag x) := h
theorem Gr_createTag (h : Gr P m x) (k : TagKind) (c : Char) : Gr P m (createTag k c x) := h
theorem Gr_pushTag (h : Gr P m x) (c : Char) : Gr P m (pushTag c x) := h
theorem Gr_pushTemp (h : Gr P m x) (c : Char) : Gr P m (pushTemp c x) := h
theorem Gr_clearTemp (h : Gr P m x) : Gr P m (clearTemp x) := h
theorem Gr_pushName (h : Gr P m x) (c : Char) : Gr P m (pushName c x) := h
theorem Gr_pushValue (h : Gr P m x) (c : Char) : Gr P m (pushValue c x) := h
theorem Gr_appendValue (h : Gr P m x) (s : Str) : Gr P m (appendValue s x) := h
theorem Gr_pushComment (h : Gr P m x) (c : Char) : Gr P m (pushComment c x) := h
theorem Gr_appendComment (h : Gr P m x) (s : String) : Gr P m (appendComment s x) := h
theorem Gr_clearComment (h : Gr P m x) : Gr P m (clearComment x) := h
theorem Gr_createDoctype (h : Gr P m x) : Gr P m (createDoctype x) := h
theorem Gr_pushDoctypeName (h : Gr P m x) (c : Char) : Gr P m (pushDoctypeName c x) := h
theorem Gr_pushDoctypeId (h : Gr P m x) (k : DoctypeIdKind) (c : Char) : Gr P m (pushDoctypeId k c x) := by
  cases k <;> exact h
theorem Gr_clearDoctypeId (h : Gr P m x) (k : DoctypeIdKind) : Gr P m (clearDoctypeId k x) := by
  cases k <;> exact h
theorem Gr_forceQuirks (h : Gr P m x) : Gr P m (forceQuirks x) := h
theorem Gr_takeTag (h : Gr P m x) : Gr P m (takeTag x) := h
theorem Gr_selfClosing (h : Gr P m x) : Gr P m { x with tagSelfClosing := true } := h
theorem Gr_setIgnoreLf (h : Gr P m x) (b : Bool) : Gr P m (x.setIgnoreLf b) := h
theorem Gr_setReconsume (h : Gr P m x) (b : Bool) : Gr P m (x.setReconsume b) := h
theorem Gr_setTempBuf (h : Gr P m x) (s : Str) : Gr P m (x.setTempBuf s) := h
theorem Gr_setCharRef (h : Gr P m x) (c : Option CharRefSt) : Gr P m (x.setCharRef c) := h
theorem Gr_setAtEof (h : Gr P m x) (b : Bool) : Gr P m (x.setAtEof b) := h
theorem Gr_setDiscardBom (h : Gr P m x) (b : Bool) : Gr P m (x.setDiscardBom b) := h
theorem Gr_bumpLine (h : Gr P m x) : Gr P m x.bumpLine := h
theorem Gr_setCurrentChar (h : Gr P m x) (c : Char) : Gr P m (x.setCurrentChar c) := h

theorem Gr_emitTempBuf [PC P] (h : Gr P m x) : Gr P m (emitTempBuf x) := by
  unfold emitTempBuf
  exact Gr_emitChars (x := { x with tempBuf := [] }) h _

theorem Gr_emitComment [PD P] (h : Gr P m x) : Gr P m (emitComment x) := by
  unfold emitComment
  exact Gr_emit (x := { x with comment := [] }) h _ (PD.comment _)

theorem Gr_emitDoctype [PD P] (h : Gr P m x) : Gr P m (emitDoctype x) := by
  unfold emitDoctype
  exact Gr_emit (x := { x with doctype := {} }) h _ (PD.doctype _)

theorem Gr_ite (c : Prop) [Decidable c] {a b : Mach} (ha : Gr P m a) (hb : Gr P m b) :
    Gr P m (if c then a else b) := by
  split <;> assumption

theorem Gr_finishAttribute [PC P] (h : Gr P m x) : Gr P m (finishAttribute x) := by
  unfold finishAttribute
  split
  · exact h
  · dsimp only
    split
    · exact Gr_emitErr (x := { x with attrName := [] }) h _
    · exact h

theorem Gr_createAttr [PC P] (h : Gr P m x) (c : Char) : Gr P m (createAttr c x) := by
  unfold createAttr
  exact Gr_finishAttribute h

theorem Gr_tagPrologue [PC P] (h : Gr P m x) : Gr P m (tagPrologue x) := by
  have h1 := Gr_finishAttribute h
  unfold tagPrologue
  dsimp only
  generalize finishAttribute x = y at h1
  split
  · exact h1
  · split
    · split
      · exact Gr_emitErr (Gr_emitErr h1 _) _
      · exact Gr_emitErr h1 _
    · split
      · exact Gr_emitErr h1 _
      · exact h1

theorem Gr_consumeCharRef (h : Gr P m x) : Gr P m (consumeCharRef x).1 := by
  unfold consumeCharRef
  split <;> exact h

theorem Gr_discardChar (h : Gr P m x) (inp : Str) : Gr P m (discardChar x inp).1 := by
  unfold discardChar; split <;> exact h

theorem Gr_numericErr [PC P] (h : Gr P m x) (o : Opts) (n : Nat) : Gr P m (numericErr o x n) := by
  unfold numericErr; split
  · exact Gr_emitErrL h _
  · exact Gr_emitErr h _

theorem Gr_nameErr [PC P] (h : Gr P m x) (o : Opts) (nb : Str) : Gr P m (nameErr o x nb) := by
  unfold nameErr; split
  · exact Gr_emitErrL h _
  · exact Gr_emitErr h _

end

/-! ### characters -/

theorem lal_src_ne {c cl : Char} (h : lowerAsciiLetter c = some cl) : c ≠ '\x00' := by
  intro e; subst e
  have : lowerAsciiLetter '\x00' = none := by decide
  rw [this] at h; cases h

theorem ws3_ne {c : Char} (h : (isWs c || decide (c = '/') || decide (c = '>')) = true) : c ≠ '\x00' := by
  intro e; subst e; revert h; decide

end RF

/-- close a goal `RF.Gr P m (helper (… m))` by chaining the helper lemmas; side goals `c ≠ '\x00'` (only when `P`
excludes the U+0000 token) are closed from the context -/
macro "rfg_chain" h:ident : tactic =>
  `(tactic| (repeat' (first
      | exact $h
      | with_reducible apply RF.Gr_to | with_reducible apply RF.Gr_reconsumeTo | with_reducible apply RF.Gr_discardTag
      | with_reducible apply RF.Gr_createTag | with_reducible apply RF.Gr_pushTag
      | with_reducible apply RF.Gr_pushTemp | with_reducible apply RF.Gr_clearTemp | with_reducible apply RF.Gr_pushName
      | with_reducible apply RF.Gr_pushValue | with_reducible apply RF.Gr_appendValue
      | with_reducible apply RF.Gr_pushComment | with_reducible apply RF.Gr_appendComment
      | with_reducible apply RF.Gr_clearComment | with_reducible apply RF.Gr_createDoctype
      | with_reducible apply RF.Gr_pushDoctypeName | with_reducible apply RF.Gr_pushDoctypeId
      | with_reducible apply RF.Gr_clearDoctypeId | with_reducible apply RF.Gr_forceQuirks
      | with_reducible apply RF.Gr_emitChar | with_reducible apply RF.Gr_emitCharNe
      | with_reducible apply RF.Gr_emitChars | with_reducible apply RF.Gr_badChar
      | with_reducible apply RF.Gr_badEof | with_reducible apply RF.Gr_emitTempBuf
      | with_reducible apply RF.Gr_emitComment | with_reducible apply RF.Gr_emitDoctype
      | with_reducible apply RF.Gr_createAttr | with_reducible apply RF.Gr_finishAttribute
      | with_reducible apply RF.Gr_tagPrologue | with_reducible apply RF.Gr_takeTag
      | with_reducible apply RF.Gr_selfClosing | with_reducible apply RF.Gr_ite
      | with_reducible apply RF.Gr_setCurrentChar | with_reducible apply RF.Gr_setIgnoreLf
      | with_reducible apply RF.Gr_setReconsume | with_reducible apply RF.Gr_setCharRef
      | with_reducible apply RF.Gr_setAtEof | with_reducible apply RF.Gr_setDiscardBom
      | with_reducible apply RF.Gr_setTempBuf
      | with_reducible apply RF.Gr_bumpLine | with_reducible apply RF.Gr_emitErrL | with_reducible apply RF.Gr_emitErr
      | with_reducible apply RF.Gr_discardChar
      | assumption
      | (apply RF.lal_src_ne; assumption)
      | (apply RF.ws3_ne; assumption)
      | decide)))

namespace RF

/-! ### (A) every step delivers at most one tag token -/

/-- not a tag token -/
def NTag (t : Token) : Prop := isTagTok t = false

instance : PC NTag := ⟨fun _ => rfl, fun _ => rfl⟩
instance : PN NTag := ⟨rfl⟩
instance : PD NTag := ⟨fun _ => rfl, fun _ => rfl⟩
instance : PE NTag := ⟨rfl⟩

/-- result of a table arm: no tag token, or the `emit_current_tag` form on top of a tag-free extension -/
def OTS (pol : Pol) (m : Mach) (y : Mach × Sig) : Prop :=
  Gr NTag m y.1 ∨
    ∃ q t, q.state = .data ∧ Gr NTag m q ∧ y = applySinkRes (emit q (.tag t)) (pol.onTag q.out t)

theorem OTS_ok {pol : Pol} {m x : Mach} (h : Gr NTag m x) : OTS pol m (x, .cont) := Or.inl h
theorem OTS_panic {pol : Pol} {m x : Mach} (h : Gr NTag m x) (s : String) : OTS pol m (x, .panic s) := Or.inl h

theorem OTS_emitTag {pol : Pol} {m x : Mach} (h : Gr NTag m x) : OTS pol m (emitTag pol .data x) := by
  refine Or.inr ⟨takeTag (tagPrologue (to .data x)), currentTag (tagPrologue (to .data x)), ?_, ?_, rfl⟩
  · simp
  · rfg_chain h

theorem OTS_consumeCharRef {pol : Pol} {m x : Mach} (h : Gr NTag m x) : OTS pol m (consumeCharRef x) :=
  Or.inl (Gr_consumeCharRef h)

end RF

/-- close a table arm of the one-tag traversal -/
macro "rfa_arm" h:ident : tactic =>
  `(tactic| first
      | (apply RF.OTS_emitTag; rfg_chain $h)
      | (apply RF.OTS_consumeCharRef; rfg_chain $h)
      | (apply RF.OTS_panic; rfg_chain $h)
      | (apply RF.OTS_ok; rfg_chain $h))

namespace RF

set_option maxHeartbeats 1600000 in
theorem transChar_ots (o : Opts) (pol : Pol) {m0 m : Mach} (h : Gr NTag m0 m) (c : Char) :
    OTS pol m0 (transChar o pol m c) := by
  unfold transChar
  split <;> (repeat' split) <;> (try dsimp only) <;> rfa_arm h

set_option maxHeartbeats 1600000 in
theorem transSet_ots (o : Opts) (pol : Pol) {m0 m : Mach} (h : Gr NTag m0 m) (r : SetRes) :
    OTS pol m0 (transSet o pol m r) := by
  unfold transSet
  split <;> (repeat' split) <;> (try dsimp only) <;> rfa_arm h

end RF

namespace RF

/-! ### the reader and the character-reference sub-tokenizer: the log grows by parse errors (and characters), the
state, tag-kind and `char_ref_tokenizer` registers are kept -/

/-- `Gr` plus: the `state`, `tagKind` and `charRef` registers are unchanged -/
def Keep (P : Token → Prop) (m x : Mach) : Prop :=
  Gr P m x ∧ x.state = m.state ∧ x.tagKind = m.tagKind ∧ x.charRef = m.charRef

theorem Keep.refl (P : Token → Prop) (m : Mach) : Keep P m m := ⟨Gr.refl P m, rfl, rfl, rfl⟩

theorem Keep.trans {P : Token → Prop} {m x y : Mach} (h1 : Keep P m x) (h2 : Keep P x y) : Keep P m y :=
  ⟨h1.1.trans h2.1, h2.2.1.trans h1.2.1, h2.2.2.1.trans h1.2.2.1, h2.2.2.2.trans h1.2.2.2⟩

theorem Keep.mono {P Q : Token → Prop} (hpq : ∀ t, P t → Q t) {m x : Mach} (h : Keep P m x) : Keep Q m x :=
  ⟨h.1.mono hpq, h.2⟩

section
variable {P : Token → Prop} {m x : Mach}

theorem Keep_emit (h : Keep P m x) (t : Token) (ht : P t) : Keep P m (emit x t) :=
  ⟨Gr_emit h.1 t ht, h.2.1, h.2.2.1, h.2.2.2⟩
theorem Keep_emitErr [PC P] (h : Keep P m x) (s : String) : Keep P m (emitErr x s) := Keep_emit h _ (PC.err _)
theorem Keep_emitErrL [PC P] (h : Keep P m x) (s : Str) : Keep P m (emit x (.error s)) := Keep_emit h _ (PC.err _)
theorem Keep_setIgnoreLf (h : Keep P m x) (b : Bool) : Keep P m (x.setIgnoreLf b) := h
theorem Keep_setReconsume (h : Keep P m x) (b : Bool) : Keep P m (x.setReconsume b) := h
theorem Keep_setTempBuf (h : Keep P m x) (s : Str) : Keep P m (x.setTempBuf s) := h
theorem Keep_setAtEof (h : Keep P m x) (b : Bool) : Keep P m (x.setAtEof b) := h
theorem Keep_setDiscardBom (h : Keep P m x) (b : Bool) : Keep P m (x.setDiscardBom b) := h
theorem Keep_bumpLine (h : Keep P m x) : Keep P m x.bumpLine := h
theorem Keep_setCurrentChar (h : Keep P m x) (c : Char) : Keep P m (x.setCurrentChar c) := h
theorem Keep_pushValue (h : Keep P m x) (c : Char) : Keep P m (pushValue c x) := h

theorem Keep_discardChar (h : Keep P m x) (inp : Str) : Keep P m (discardChar x inp).1 := by
  unfold discardChar; split <;> exact h

theorem Keep_numericErr [PC P] (h : Keep P m x) (o : Opts) (n : Nat) : Keep P m (numericErr o x n) := by
  unfold numericErr; split
  · exact Keep_emitErrL h _
  · exact Keep_emitErr h _

theorem Keep_nameErr [PC P] (h : Keep P m x) (o : Opts) (nb : Str) : Keep P m (nameErr o x nb) := by
  unfold nameErr; split
  · exact Keep_emitErrL h _
  · exact Keep_emitErr h _

theorem Keep_emitChar [PC P] [PN P] (h : Keep P m x) (c : Char) : Keep P m (emitChar x c) := by
  unfold emitChar; split
  · exact Keep_emit h _ PN.nul
  · exact Keep_emit h _ (PC.chars _)

theorem Keep_emitCharNe [PC P] (h : Keep P m x) (c : Char) (hc : c ≠ '\x00') : Keep P m (emitChar x c) := by
  unfold emitChar; split
  · rename_i e; exact absurd e hc
  · exact Keep_emit h _ (PC.chars _)

end

end RF

/-- the chain with the setters of the reader, for `RF.Keep` -/
macro "rfk_rd" h:ident : tactic =>
  `(tactic| (repeat' (first
      | exact $h
      | with_reducible apply RF.Keep_setCurrentChar | with_reducible apply RF.Keep_setIgnoreLf
      | with_reducible apply RF.Keep_setReconsume
      | with_reducible apply RF.Keep_setAtEof | with_reducible apply RF.Keep_setDiscardBom
      | with_reducible apply RF.Keep_setTempBuf
      | with_reducible apply RF.Keep_bumpLine | with_reducible apply RF.Keep_emitErrL
      | with_reducible apply RF.Keep_emitErr
      | with_reducible apply RF.Keep_discardChar
      | with_reducible apply RF.Keep_nameErr | with_reducible apply RF.Keep_numericErr)))

namespace RF

section
variable {P : Token → Prop} [PC P] {m x : Mach}

theorem foldChar_keep (o : Opts) (h : Keep P m x) (c : Char) : Keep P m (foldChar o x c).2 := by
  unfold foldChar
  dsimp only
  split <;> split <;> split <;> rfk_rd h

theorem preprocess_keep (o : Opts) (h : Keep P m x) (c : Char) (inp : Str) :
    Keep P m (preprocess o x c inp).2.1 := by
  unfold preprocess
  split
  · split
    · cases inp with
      | nil => exact h
      | cons y ys => exact foldChar_keep o (Keep_setIgnoreLf h false) y
    · exact foldChar_keep o (Keep_setIgnoreLf h false) c
  · exact foldChar_keep o h c

theorem getChar_keep (o : Opts) (h : Keep P m x) (inp : Str) : Keep P m (getChar o x inp).2.1 := by
  unfold getChar
  split
  · exact h
  · cases inp with
    | nil => exact h
    | cons c rest => exact preprocess_keep o h c rest

theorem popExceptFrom_keep (o : Opts) (S : List Char) (h : Keep P m x) (inp : Str) :
    Keep P m (popExceptFrom o S x inp).2.1 := by
  unfold popExceptFrom
  split
  · exact getChar_keep o h inp
  · cases inp with
    | nil => exact h
    | cons c rest =>
      dsimp only
      split
      · exact preprocess_keep o h c rest
      · exact h

theorem readData_keep (o : Opts) (h : Keep P m x) (inp : Str) : Keep P m (readData o x inp).2.1 := by
  unfold readData
  split
  · exact popExceptFrom_keep o _ h inp
  · cases inp with
    | nil => exact h
    | cons c rest =>
      dsimp only
      split
      · exact popExceptFrom_keep o _ h (c :: rest)
      · split <;> exact h

omit [PC P] in
theorem eatSkipLf_keep (h : Keep P m x) (inp : Str) : Keep P m (eatSkipLf x inp).1 := by
  unfold eatSkipLf discardChar
  repeat' split
  all_goals exact h

omit [PC P] in
theorem eat_keep (h : Keep P m x) (inp pat : Str) (eq : Char → Char → Bool) : Keep P m (eat x inp pat eq).2.1 := by
  rw [eat_eq_core]
  have hs := eatSkipLf_keep h inp
  generalize (eatSkipLf x inp).2 = i1
  generalize (eatSkipLf x inp).1 = m1 at hs
  unfold eatCore
  split
  · exact hs
  · exact hs
  · split <;> exact hs

/-! #### character references -/

theorem toNat_ofNat_valid (k : Nat) (h : isValidScalar k = true) : (Char.ofNat k).toNat = k := by
  have hv : k.isValidChar := by
    unfold isValidScalar at h
    simp only [Bool.or_eq_true, decide_eq_true_eq, Bool.and_eq_true] at h
    unfold Nat.isValidChar
    omega
  simp [Char.ofNat, hv, Char.toNat, Char.ofNatAux]

theorem ofNat_ne_nul (k : Nat) (h : isValidScalar k = true) (h0 : k ≠ 0) : Char.ofNat k ≠ '\x00' := by
  intro e
  have := toNat_ofNat_valid k h
  rw [e] at this
  simp at this
  exact h0 this.symm

theorem conv_ne {n : Nat} {c : Char} (h0 : n ≠ 0)
    (h : (if isValidScalar n = true then Except.ok (Char.ofNat n) else
        (Except.error "invalid char missed by error handling cases" : Except String Char)) = .ok c) : c ≠ '\x00' := by
  split at h
  · rename_i hv
    simp only [Except.ok.injEq] at h
    subst h
    exact ofNat_ne_nul n hv h0
  · cases h

theorem c1_table_ne : ∀ x ∈ Gen.C1.table, x ≠ some 0 := by decide

/-- a numeric character reference never resolves to U+0000 -/
theorem numericValue_ne (cr : CharRefSt) (c : Char) (b : Bool) (h : numericValue cr = (.ok c, b)) : c ≠ '\x00' := by
  unfold numericValue at h
  dsimp only at h
  split at h
  · simp only [Prod.mk.injEq, Except.ok.injEq] at h
    rw [← h.1]; decide
  · split at h
    · simp only [Prod.mk.injEq, Except.ok.injEq] at h
      rw [← h.1]; decide
    · rename_i hz
      have h0 : cr.num ≠ 0 := by
        intro e; apply hz; rw [e]; rfl
      split at h
      · split at h
        · rename_i r hr
          simp only [Prod.mk.injEq] at h
          have hr0 : r ≠ 0 := by
            intro e; subst e
            exact c1_table_ne _ (List.mem_of_getElem? hr) rfl
          exact conv_ne hr0 h.1
        · simp only [Prod.mk.injEq] at h
          exact conv_ne h0 h.1
        · simp at h
      · split at h
        · simp only [Prod.mk.injEq] at h
          exact conv_ne h0 h.1
        · split at h <;> (simp only [Prod.mk.injEq] at h; exact conv_ne h0 h.1)

/-- the characters of a finished reference contain no U+0000 -/
def DoneOk : CRStatus → Prop
  | .done chars => ∀ c ∈ chars, c ≠ '\x00'
  | _ => True

/-- a char-ref step result: registers kept, log grown by `P`-tokens; if the reference was `CrOk` it still is, and
the characters delivered are not U+0000 -/
def CRK (P : Token → Prop) (m : Mach) (cr : CharRefSt) : CRRes → Prop
  | .ok v => Keep P m v.1 ∧ (CrOk cr → CrOk v.2.2.1 ∧ DoneOk v.2.2.2)
  | .error _ => True

omit [PC P] in
theorem CRK_ok {cr cr1 : CharRefSt} (hk : Keep P m x) (hc : CrOk cr → CrOk cr1) (i : Str) (st : CRStatus)
    (hd : DoneOk st) : CRK P m cr (.ok (x, i, cr1, st)) := ⟨hk, fun h => ⟨hc h, hd⟩⟩

theorem DoneOk_nil : DoneOk (.done []) := fun _ h => by cases h

theorem finishNumericStatus_crk (o : Opts) {cr0 cr : CharRefSt} (hk : Keep P m x) (hc : CrOk cr0 → CrOk cr)
    (inp : Str) : CRK P m cr0 (finishNumericStatus o x inp cr) := by
  unfold finishNumericStatus finishNumeric
  dsimp only
  have hv := numericValue_ne cr
  generalize numericValue cr = v at hv
  obtain ⟨v1, v2⟩ := v
  cases v1 with
  | error e => trivial
  | ok c =>
    have hc0 := hv c v2 rfl
    refine CRK_ok ?_ hc _ _ ?_
    · cases v2
      · exact hk
      · exact Keep_numericErr hk _ _
    · intro d hd
      rcases List.mem_cons.mp hd with rfl | hd
      · exact hc0
      · cases hd

theorem namedDecision_keep (hk : Keep P m x) (cr : CharRefSt) (nb : Str) (c1 c2 : Nat) (m1 : Mach) (chars : Str)
    (h : namedDecision x cr nb c1 c2 = .ok (some (m1, chars))) :
    Keep P m m1 ∧ (c1 ≠ 0 → ∀ c ∈ chars, c ≠ '\x00') := by
  unfold namedDecision at h
  dsimp only at h
  repeat' split at h
  all_goals
    first
      | (simp at h; done)
      | (simp only [Except.ok.injEq, Option.some.injEq, Prod.mk.injEq] at h
         obtain ⟨h1, h2⟩ := h
         subst h1; subst h2
         rename_i hv hc2
         have hv' : isValidScalar c1 = true ∧ isValidScalar c2 = true := by
           cases h1 : isValidScalar c1 <;> cases h2 : isValidScalar c2 <;> simp [h1, h2] at hv ⊢
         refine ⟨by rfk_rd hk, fun hc1 c hcm => ?_⟩
         first
           | (rcases List.mem_cons.mp hcm with rfl | hcm
              · exact ofNat_ne_nul _ hv'.1 hc1
              · rcases List.mem_cons.mp hcm with rfl | hcm
                · exact ofNat_ne_nul _ hv'.2 hc2
                · cases hcm)
           | (rcases List.mem_cons.mp hcm with rfl | hcm
              · exact ofNat_ne_nul _ hv'.1 hc1
              · cases hcm))

theorem CrOk_same {cr cr1 : CharRefSt} (e : cr1.nameMatch = cr.nameMatch) (h : CrOk cr) : CrOk cr1 := by
  intro c1 c2 hm
  rw [e] at hm
  exact h c1 c2 hm

/-- a leaf `.ok (m', i', cr', st)` of the char-ref tables -/
macro "rfk_leaf" hk:ident hc:term : tactic =>
  `(tactic| (refine CRK_ok ?_ ?_ _ _ ?_
             · rfk_rd $hk
             · first
               | exact fun h => CrOk_same rfl ($hc h)
               | (intro _ c1 c2 hm
                  simp only [Option.some.injEq] at hm
                  subst hm
                  assumption)
             · first | trivial | exact DoneOk_nil))

theorem finishNamed_crk (o : Opts) {cr0 cr : CharRefSt} (hk : Keep P m x) (hc : CrOk cr0 → CrOk cr)
    (inp : Str) (e : Option Char) : CRK P m cr0 (finishNamed o x inp cr e) := by
  unfold finishNamed
  split
  · trivial
  · split
    · dsimp only
      (repeat' split) <;> rfk_leaf hk hc
    · rename_i c1 c2 hnm
      split
      · trivial
      · rfk_leaf hk hc
      · rename_i m1 chars hnd
        obtain ⟨k1, k2⟩ := namedDecision_keep hk _ _ _ _ _ _ hnd
        exact ⟨k1, fun h => ⟨hc h, k2 (hc h c1 c2 hnm)⟩⟩

theorem crStep_crk (o : Opts) (m : Mach) (inp : Str) (cr : CharRefSt) : CRK P m cr (crStep o m inp cr) := by
  have hk := Keep.refl P m
  unfold crStep unconsumeNumeric
  dsimp only
  split
  · rfk_leaf hk id
  · split <;> (repeat' split) <;>
      first
      | trivial
      | exact finishNumericStatus_crk o (Keep_discardChar hk _) id _
      | exact finishNumericStatus_crk o (Keep_emitErr hk _) id _
      | exact finishNamed_crk o (Keep_discardChar hk _) (CrOk_same rfl) _ _
      | rfk_leaf hk id

theorem foldl_emitChar_keep [PN P] (cs : Str) : ∀ {x : Mach}, Keep P m x → Keep P m (cs.foldl emitChar x) := by
  induction cs with
  | nil => intro x h; exact h
  | cons c cs ih => intro x h; exact ih (Keep_emitChar h c)

theorem foldl_emitChar_keep_ne (cs : Str) (hcs : ∀ c ∈ cs, c ≠ '\x00') :
    ∀ {x : Mach}, Keep P m x → Keep P m (cs.foldl emitChar x) := by
  induction cs with
  | nil => intro x h; exact h
  | cons c cs ih =>
    intro x h
    exact ih (fun d hd => hcs d (List.mem_cons_of_mem _ hd)) (Keep_emitCharNe h c (hcs c List.mem_cons_self))

omit [PC P] in
theorem foldl_pushValue_keep (cs : Str) :
    ∀ {x : Mach}, Keep P m x → Keep P m (cs.foldl (fun m c => pushValue c m) x) := by
  induction cs with
  | nil => intro x h; exact h
  | cons c cs ih => intro x h; exact ih (Keep_pushValue h c)

theorem processCharRef_keep [PN P] (h : Keep P m x) (chars : Str) : Keep P m (processCharRef x chars).1 := by
  unfold processCharRef
  dsimp only
  split
  · exact foldl_emitChar_keep _ h
  · exact foldl_emitChar_keep _ h
  · exact foldl_pushValue_keep _ h
  · exact h

theorem processCharRef_keep_ne (h : Keep P m x) (chars : Str) (hc : ∀ c ∈ chars, c ≠ '\x00') :
    Keep P m (processCharRef x chars).1 := by
  have hc' : ∀ c ∈ (if chars.isEmpty = true then ['&'] else chars), c ≠ '\x00' := by
    split
    · intro c hcm
      rcases List.mem_cons.mp hcm with rfl | hcm
      · decide
      · cases hcm
    · exact hc
  unfold processCharRef
  dsimp only
  split
  · exact foldl_emitChar_keep_ne _ hc' h
  · exact foldl_emitChar_keep_ne _ hc' h
  · exact foldl_pushValue_keep _ h
  · exact h

end

/-! ### (A), step level -/

/-- a step result: no tag token, or the `emit_current_tag` form on top of a tag-free extension -/
def ROT (pol : Pol) (m : Mach) (r : R) : Prop :=
  ∀ m1 i1, r.pair? = some (m1, i1) →
    Gr NTag m m1 ∨
      ∃ q t, q.state = .data ∧ Gr NTag m q ∧ r = ofSig (applySinkRes (emit q (.tag t)) (pol.onTag q.out t)) i1

theorem ROT_cont {pol : Pol} {m x : Mach} (h : Gr NTag m x) (i : Str) : ROT pol m (.cont x i) := by
  intro m1 i1 e
  simp only [R.pair?, Option.some.injEq, Prod.mk.injEq] at e
  obtain ⟨rfl, rfl⟩ := e
  exact Or.inl h

theorem ROT_suspend {pol : Pol} {m x : Mach} (h : Gr NTag m x) (i : Str) : ROT pol m (.suspend x i) := by
  intro m1 i1 e
  simp only [R.pair?, Option.some.injEq, Prod.mk.injEq] at e
  obtain ⟨rfl, rfl⟩ := e
  exact Or.inl h

theorem ROT_panic {pol : Pol} {m : Mach} (s : String) : ROT pol m (.panic s) := by
  intro m1 i1 e
  simp [R.pair?] at e

theorem ROT_ofSig {pol : Pol} {m : Mach} {y : Mach × Sig} (hy : OTS pol m y) (i : Str) : ROT pol m (ofSig y i) := by
  intro m1 i1 e
  obtain ⟨e1, e2⟩ := ofSig_pair _ _ _ _ e
  subst e1; subst e2
  rcases hy with h | ⟨q, t, hq, hg, hy⟩
  · exact Or.inl h
  · exact Or.inr ⟨q, t, hq, hg, by rw [hy]⟩

theorem contChar_rot (o : Opts) (pol : Pol) {m0 : Mach} (r : Option Char × Mach × Str) (h : Gr NTag m0 r.2.1) :
    ROT pol m0 (contChar o pol r) := by
  obtain ⟨c, m1, i1⟩ := r
  cases c with
  | none => exact ROT_suspend h _
  | some c => exact ROT_ofSig (transChar_ots o pol h c) i1

theorem contSet_rot (o : Opts) (pol : Pol) {m0 : Mach} (r : Option SetRes × Mach × Str) (h : Gr NTag m0 r.2.1) :
    ROT pol m0 (contSet o pol r) := by
  obtain ⟨c, m1, i1⟩ := r
  cases c with
  | none => exact ROT_suspend h _
  | some c => exact ROT_ofSig (transSet_ots o pol h c) i1

theorem stepCharRef_rot (o : Opts) (pol : Pol) (m : Mach) (inp : Str) (cr : CharRefSt) :
    ROT pol m (stepCharRef o m inp cr) := by
  unfold stepCharRef
  have h1 := crStep_crk (P := NTag) o m inp cr
  generalize crStep o m inp cr = r at h1
  cases r with
  | error e => exact ROT_panic _
  | ok v =>
    obtain ⟨m1, i1, c1, s1⟩ := v
    cases s1 with
    | stuck => exact ROT_suspend (Gr_setCharRef h1.1.1 _) _
    | progress => exact ROT_cont (Gr_setCharRef h1.1.1 _) _
    | done chars =>
      dsimp only
      exact ROT_ofSig (y := ((processCharRef m1 chars).1.setCharRef none, _))
        (Or.inl (Gr_setCharRef (processCharRef_keep h1.1 chars).1 none)) i1

theorem stepBav_rot (o : Opts) (pol : Pol) (m : Mach) (inp : Str) : ROT pol m (stepBav o pol m inp) := by
  have h := Gr.refl NTag m
  unfold stepBav
  cases peek m inp with
  | none => exact ROT_suspend h _
  | some c =>
    dsimp only
    have hm : Gr NTag m (if m.ignoreLf = true then m.setIgnoreLf false else m) := by
      split <;> exact h
    generalize (if m.ignoreLf = true then m.setIgnoreLf false else m) = m' at hm
    split
    · exact ROT_cont (Gr_discardChar hm inp) _
    · split
      · have hg := (getChar_keep (P := NTag) o (Keep.refl NTag m') inp).1
        generalize getChar o m' inp = r at hg
        obtain ⟨c1, m1, i1⟩ := r
        cases c1
        · exact ROT_suspend (hm.trans hg) _
        · exact ROT_cont (hm.trans hg) _
      · repeat' split
        all_goals
          first
          | exact ROT_cont (Gr_discardChar hm inp) _
          | exact ROT_cont (Gr_to (Gr_discardChar hm inp) _) _
          | exact ROT_cont (Gr_to hm _) _
          | exact ROT_ofSig (OTS_emitTag (Gr_badChar (Gr_discardChar hm inp) o)) _

theorem stepMdo_rot (o : Opts) (pol : Pol) (m : Mach) (inp : Str) : ROT pol m (stepMdo o pol m inp) := by
  have h := Keep.refl NTag m
  unfold stepMdo
  have e1 := eat_keep h inp kwDashDash eqExact
  generalize eat m inp kwDashDash eqExact = r1 at e1
  obtain ⟨x1, m1, i1⟩ := r1
  cases x1 with
  | none => exact ROT_suspend e1.1 _
  | some t1 =>
    cases t1 with
    | true => exact ROT_cont (Gr_to (Gr_clearComment e1.1) _) _
    | false =>
      dsimp only
      have e2 := eat_keep e1 i1 kwDoctype eqCi
      generalize eat m1 i1 kwDoctype eqCi = r2 at e2
      obtain ⟨x2, m2, i2⟩ := r2
      cases x2 with
      | none => exact ROT_suspend e2.1 _
      | some t2 =>
        cases t2 with
        | true => exact ROT_cont (Gr_to e2.1 _) _
        | false =>
          dsimp only
          split
          · have e3 := eat_keep e2 i2 kwCdata eqExact
            generalize eat m2 i2 kwCdata eqExact = r3 at e3
            obtain ⟨x3, m3, i3⟩ := r3
            cases x3 with
            | none => exact ROT_suspend e3.1 _
            | some t3 =>
              cases t3 with
              | true => exact ROT_cont (Gr_to (Gr_clearTemp e3.1) _) _
              | false => exact ROT_cont (Gr_to (Gr_clearComment (Gr_badChar e3.1 o)) _) _
          · exact ROT_cont (Gr_to (Gr_clearComment (Gr_badChar e2.1 o)) _) _

theorem stepAdn_rot (o : Opts) (pol : Pol) (m : Mach) (inp : Str) : ROT pol m (stepAdn o pol m inp) := by
  have h := Keep.refl NTag m
  unfold stepAdn
  have e1 := eat_keep h inp kwPublic eqCi
  generalize eat m inp kwPublic eqCi = r1 at e1
  obtain ⟨x1, m1, i1⟩ := r1
  cases x1 with
  | none => exact ROT_suspend e1.1 _
  | some t1 =>
    cases t1 with
    | true => exact ROT_cont (Gr_to e1.1 _) _
    | false =>
      dsimp only
      have e2 := eat_keep e1 i1 kwSystem eqCi
      generalize eat m1 i1 kwSystem eqCi = r2 at e2
      obtain ⟨x2, m2, i2⟩ := r2
      cases x2 with
      | none => exact ROT_suspend e2.1 _
      | some t2 =>
        cases t2 with
        | true => exact ROT_cont (Gr_to e2.1 _) _
        | false =>
          dsimp only
          exact contChar_rot o pol (getChar o m2 i2) (getChar_keep o e2 i2).1

/-- **every step**: the log grows by non-tag tokens only, or the step is the delivery of the current tag
(`emit_current_tag`, next state `data`) on top of a machine `q` whose log grew by non-tag tokens only -/
theorem step_rot (o : Opts) (pol : Pol) (m : Mach) (inp : Str) : ROT pol m (step o pol m inp) := by
  cases hcr : m.charRef with
  | some cr =>
    rw [step_kind_charRef o pol m inp cr hcr]
    exact stepCharRef_rot o pol m inp cr
  | none =>
    cases hrk : readKind m.state with
    | getChar =>
      rw [step_getChar o pol m inp hcr hrk]
      exact contChar_rot o pol _ (getChar_keep o (Keep.refl NTag m) inp).1
    | popExcept =>
      rw [step_popExcept o pol m inp hcr hrk]
      exact contSet_rot o pol _ (popExceptFrom_keep o _ (Keep.refl NTag m) inp).1
    | dataSimd =>
      rw [step_dataSimd o pol m inp hcr hrk]
      exact contSet_rot o pol _ (readData_keep o (Keep.refl NTag m) inp).1
    | peekBav =>
      rw [step_kind_bav o pol m inp hcr hrk]
      exact stepBav_rot o pol m inp
    | eatMdo =>
      rw [step_kind_mdo o pol m inp hcr hrk]
      exact stepMdo_rot o pol m inp
    | eatAdn =>
      rw [step_kind_adn o pol m inp hcr hrk]
      exact stepAdn_rot o pol m inp

theorem applySinkRes_out (x : Mach) (r : SinkRes) :
    ∃ pre, (applySinkRes x r).1.out = pre ++ x.out ∧ ∀ p ∈ pre, isPauseTok p.1 = true := by
  cases r with
  | continue_ => exact ⟨[], rfl, fun _ h => by cases h⟩
  | plaintext => exact ⟨[], rfl, fun _ h => by cases h⟩
  | rawData k => exact ⟨[], rfl, fun _ h => by cases h⟩
  | script =>
    refine ⟨[(.pause true, x.line)], rfl, ?_⟩
    intro p hp
    rcases List.mem_cons.mp hp with rfl | hp
    · rfl
    · cases hp
  | indicator =>
    refine ⟨[(.pause false, x.line)], rfl, ?_⟩
    intro p hp
    rcases List.mem_cons.mp hp with rfl | hp
    · rfl
    · cases hp

theorem pause_not_tag {t : Token} (h : isPauseTok t = true) : isTagTok t = false := by
  cases t <;> first | rfl | cases h

/-- the shape of what a step adds to the log -/
theorem step_shape (o : Opts) (pol : Pol) (m : Mach) (inp : Str) (m1 : Mach) (i1 : Str)
    (hs : (step o pol m inp).pair? = some (m1, i1)) :
    (∃ new, m1.out = new ++ m.out ∧ ∀ p ∈ new, isTagTok p.1 = false) ∨
    (∃ pre q t nq, m1.out = (pre ++ (Token.tag t, q.line) :: nq) ++ m.out ∧ (∀ p ∈ pre, isPauseTok p.1 = true) ∧
      (∀ p ∈ nq, isTagTok p.1 = false) ∧ q.state = .data ∧ q.out = nq ++ m.out ∧
      step o pol m inp = ofSig (applySinkRes (emit q (.tag t)) (pol.onTag q.out t)) i1) := by
  rcases step_rot o pol m inp m1 i1 hs with h | ⟨q, t, hq, ⟨nq, eq, pq⟩, hstep⟩
  · exact Or.inl h
  · right
    rw [hstep] at hs
    obtain ⟨e1, _⟩ := ofSig_pair _ _ _ _ hs
    obtain ⟨pre, epre, ppre⟩ := applySinkRes_out (emit q (.tag t)) (pol.onTag q.out t)
    refine ⟨pre, q, t, nq, ?_, ppre, pq, hq, eq, hstep⟩
    rw [e1, epre]
    show pre ++ (Token.tag t, q.line) :: q.out = _
    rw [eq, List.append_assoc]
    rfl

end RF

open RF in
/-- (A), combined form: a step adds non-tag tokens only (`RF.Gr RF.NTag m m1`), or it is the delivery of the current
tag: `emit_current_tag` with next state `data` on top of a machine `q` whose log grew by non-tag tokens only -/
theorem step_form (o : Opts) (pol : Pol) (m : Mach) (inp : Str) (m1 : Mach) (i1 : Str)
    (hs : (step o pol m inp).pair? = some (m1, i1)) :
    (∃ new, m1.out = new ++ m.out ∧ ∀ p ∈ new, isTagTok p.1 = false) ∨
      ∃ q t, q.state = .data ∧ (∃ nq, q.out = nq ++ m.out ∧ ∀ p ∈ nq, isTagTok p.1 = false) ∧
        step o pol m inp = ofSig (applySinkRes (emit q (.tag t)) (pol.onTag q.out t)) i1 :=
  RF.step_rot o pol m inp m1 i1 hs

open RF in
/-- (A) EVERY step, from every machine: what it adds to the log contains at most one tag token, which is the newest
entry apart from pause markers -/
theorem step_one_tag (o : Opts) (pol : Pol) (m : Mach) (inp : Str) (m1 : Mach) (i1 : Str)
    (hs : (step o pol m inp).pair? = some (m1, i1)) :
    ∃ new, m1.out = new ++ m.out ∧
      ∀ a b t l, new = a ++ (Token.tag t, l) :: b →
        (∀ p ∈ a, isPauseTok p.1 = true) ∧ (∀ p ∈ b, isTagTok p.1 = false) := by
  rcases step_shape o pol m inp m1 i1 hs with ⟨new, e, p⟩ | ⟨pre, q, t0, nq, e, ppre, pq, _, _, _⟩
  · refine ⟨new, e, ?_⟩
    intro a b t l hsplit
    have := p (Token.tag t, l) (by rw [hsplit]; exact List.mem_append_right _ List.mem_cons_self)
    cases this
  · refine ⟨_, e, ?_⟩
    intro a b t l hsplit
    obtain ⟨r1, _, _, r4⟩ := tag_decomp_unique (fun p hp => pause_not_tag (ppre p hp)) pq hsplit
    rw [r1, r4]
    exact ⟨ppre, pq⟩

open RF in
/-- when the step delivered a tag, the whole step result has the `emit_current_tag` form -/
theorem step_tag_form (o : Opts) (pol : Pol) (m : Mach) (inp : Str) (m1 : Mach) (i1 : Str)
    (hs : (step o pol m inp).pair? = some (m1, i1)) (new a b : Out) (t : Tag) (l : Nat)
    (hnew : m1.out = new ++ m.out) (hsplit : new = a ++ (Token.tag t, l) :: b) :
    ∃ q : Mach, q.state = .data ∧ q.out = b ++ m.out ∧
      step o pol m inp = ofSig (applySinkRes (emit q (.tag t)) (pol.onTag q.out t)) i1 := by
  rcases step_shape o pol m inp m1 i1 hs with ⟨n, e, p⟩ | ⟨pre, q, t0, nq, e, ppre, pq, hq, eq, hstep⟩
  · exfalso
    rw [hnew] at e
    have e2 := List.append_cancel_right e
    have := p (Token.tag t, l) (by rw [← e2, hsplit]; exact List.mem_append_right _ List.mem_cons_self)
    cases this
  · rw [hnew] at e
    have e2 := List.append_cancel_right e
    rw [hsplit] at e2
    obtain ⟨_, r2, r3, r4⟩ := tag_decomp_unique (fun p hp => pause_not_tag (ppre p hp)) pq e2.symm
    subst r2; subst r4
    exact ⟨q, hq, eq, hstep⟩

/-! ### (B) a step from a text state -/

namespace RF

/-- character tokens and parse errors -/
def CE : Token → Prop
  | .chars _ => True
  | .error _ => True
  | _ => False

instance : PC CE := ⟨fun _ => trivial, fun _ => trivial⟩

theorem CE.allowed {t : Token} (h : CE t) : AllowedInText t := by
  cases t <;> first | trivial | cases h

theorem CE.noTag {t : Token} (h : CE t) : isTagTok t = false := by
  cases t <;> first | rfl | cases h

theorem pause_allowed {t : Token} (h : isPauseTok t = true) : AllowedInText t := by
  cases t <;> first | trivial | cases h

/-- the current tag must be an end tag in these states -/
def needEnd (s : State) : Bool := isRawEndTagName s || TagFam s

/-- the register part of `TextSt`, computable -/
def stOk (s : State) (k : TagKind) : Bool := (RawFam s || TagFam s) && (!needEnd s || decide (k = .endTag))

theorem stOk_iff (s : State) (k : TagKind) :
    stOk s k = true ↔
      ((RawFam s = true ∧ (isRawEndTagName s = true → k = .endTag)) ∨ (TagFam s = true ∧ k = .endTag)) := by
  cases s <;> cases k <;> simp [stOk, needEnd, RawFam, TagFam, isRawEndTagName]

theorem textSt_iff (m : Mach) : TextSt m ↔ stOk m.state m.tagKind = true ∧ CrInv m := by
  unfold TextSt
  rw [stOk_iff]

theorem stOk_fam {s : State} {k : TagKind} (h : stOk s k = true) : (RawFam s || TagFam s) = true := by
  unfold stOk at h
  simp only [Bool.and_eq_true] at h
  exact h.1

theorem stOk_tk {s : State} {k : TagKind} (h : stOk s k = true) (hn : needEnd s = true) : k = .endTag := by
  unfold stOk at h
  simp only [Bool.and_eq_true, Bool.or_eq_true, Bool.not_eq_true', decide_eq_true_eq] at h
  rcases h.2 with h2 | h2
  · rw [hn] at h2; cases h2
  · exact h2

/-! tag-kind register of the helpers -/

theorem tk_emit (m : Mach) (t : Token) : (emit m t).tagKind = m.tagKind := rfl
theorem tk_emitErr (m : Mach) (s : String) : (emitErr m s).tagKind = m.tagKind := rfl
theorem tk_emitChars (m : Mach) (s : Str) : (emitChars m s).tagKind = m.tagKind := rfl
theorem tk_emitChar (m : Mach) (c : Char) : (emitChar m c).tagKind = m.tagKind := by
  unfold emitChar; split <;> rfl
theorem tk_badChar (m : Mach) (o : Opts) : (badChar o m).tagKind = m.tagKind := by
  unfold badChar; split <;> rfl
theorem tk_to (m : Mach) (s : State) : (to s m).tagKind = m.tagKind := rfl
theorem tk_reconsumeTo (m : Mach) (s : State) : (reconsumeTo s m).tagKind = m.tagKind := rfl
theorem tk_discardTag (m : Mach) : (discardTag m).tagKind = m.tagKind := rfl
theorem tk_createTag (m : Mach) (k : TagKind) (c : Char) : (createTag k c m).tagKind = k := rfl
theorem tk_pushTag (m : Mach) (c : Char) : (pushTag c m).tagKind = m.tagKind := rfl
theorem tk_pushTemp (m : Mach) (c : Char) : (pushTemp c m).tagKind = m.tagKind := rfl
theorem tk_clearTemp (m : Mach) : (clearTemp m).tagKind = m.tagKind := rfl
theorem tk_emitTempBuf (m : Mach) : (emitTempBuf m).tagKind = m.tagKind := rfl
theorem tk_pushName (m : Mach) (c : Char) : (pushName c m).tagKind = m.tagKind := rfl
theorem tk_pushValue (m : Mach) (c : Char) : (pushValue c m).tagKind = m.tagKind := rfl
theorem tk_appendValue (m : Mach) (s : Str) : (appendValue s m).tagKind = m.tagKind := rfl
theorem tk_setIgnoreLf (m : Mach) (b : Bool) : (m.setIgnoreLf b).tagKind = m.tagKind := rfl
theorem tk_finishAttribute (m : Mach) : (finishAttribute m).tagKind = m.tagKind := by
  unfold finishAttribute
  split
  · rfl
  · dsimp only
    split <;> rfl
theorem tk_createAttr (m : Mach) (c : Char) : (createAttr c m).tagKind = m.tagKind := by
  unfold createAttr
  exact tk_finishAttribute m
theorem tk_discardChar (m : Mach) (inp : Str) : (discardChar m inp).1.tagKind = m.tagKind := by
  unfold discardChar; split <;> rfl
theorem st_discardChar (m : Mach) (inp : Str) : (discardChar m inp).1.state = m.state := by
  unfold discardChar; split <;> rfl
theorem cr_discardChar (m : Mach) (inp : Str) : (discardChar m inp).1.charRef = m.charRef := by
  unfold discardChar; split <;> rfl
theorem tk_tagPrologue (m : Mach) : (tagPrologue m).tagKind = m.tagKind := by
  have h := tk_finishAttribute m
  unfold tagPrologue
  dsimp only
  generalize finishAttribute m = y at h
  split
  · exact h
  · (repeat' split) <;> exact h

/-- result of a table arm from a text state -/
def TRes (m y : Mach) : Prop :=
  ∃ new, y.out = new ++ m.out ∧ (∀ p ∈ new, AllowedInText p.1) ∧ ((∀ p ∈ new, isTagTok p.1 = false) → TextSt y)

theorem TRes_ok {m x : Mach} (hci : CrInv m) (hg : Gr CE m x) (hs : stOk x.state x.tagKind = true)
    (hc : x.charRef = m.charRef) : TRes m x := by
  obtain ⟨n, e, p⟩ := hg
  refine ⟨n, e, fun q hq => (p q hq).allowed, fun _ => (textSt_iff x).mpr ⟨hs, ?_⟩⟩
  intro cr hcr
  rw [hc] at hcr
  exact hci cr hcr

theorem TRes_emitTag {m x : Mach} (hg : Gr CE m x) (hk : x.tagKind = .endTag) (pol : Pol) (s : State) :
    TRes m (emitTag pol s x).1 := by
  obtain ⟨n, e, p⟩ := Gr_tagPrologue (Gr_to hg s)
  obtain ⟨pre, epre, ppre⟩ :=
    applySinkRes_out (emit (takeTag (tagPrologue (to s x))) (.tag (currentTag (tagPrologue (to s x)))))
      (pol.onTag (takeTag (tagPrologue (to s x))).out (currentTag (tagPrologue (to s x))))
  refine ⟨pre ++ (Token.tag (currentTag (tagPrologue (to s x))), (tagPrologue (to s x)).line) :: n, ?_, ?_, ?_⟩
  · show (applySinkRes _ _).1.out = _
    rw [epre]
    show pre ++ (_ :: (tagPrologue (to s x)).out) = _
    rw [e, List.append_assoc]
    rfl
  · intro q hq
    rcases List.mem_append.mp hq with hq | hq
    · exact pause_allowed (ppre q hq)
    · rcases List.mem_cons.mp hq with rfl | hq
      · show (tagPrologue (to s x)).tagKind = .endTag
        rw [tk_tagPrologue]
        exact hk
      · exact (p q hq).allowed
  · intro hnt
    have := hnt (Token.tag (currentTag (tagPrologue (to s x))), (tagPrologue (to s x)).line)
      (List.mem_append_right _ List.mem_cons_self)
    cases this

theorem CrOk_fresh (b : Bool) : CrOk { inAttr := b } := by
  intro c1 c2 h
  cases h

theorem TRes_consumeCharRef {m : Mach} (h : TextSt m) : TRes m (consumeCharRef m).1 := by
  obtain ⟨hst, hci⟩ := (textSt_iff m).mp h
  refine ⟨[], ?_, fun _ hq => (by cases hq), fun _ => (textSt_iff _).mpr ⟨?_, ?_⟩⟩
  · unfold consumeCharRef; split <;> rfl
  · have e1 : (consumeCharRef m).1.state = m.state := by unfold consumeCharRef; split <;> rfl
    have e2 : (consumeCharRef m).1.tagKind = m.tagKind := by unfold consumeCharRef; split <;> rfl
    rw [e1, e2]; exact hst
  · unfold consumeCharRef
    split
    · exact hci
    · intro cr hcr
      simp only [Option.some.injEq] at hcr
      subst hcr
      exact CrOk_fresh _

theorem TRes_trans {m0 m y : Mach} (hk : Keep CE m0 m) (h : TRes m y) : TRes m0 y := by
  obtain ⟨n1, e1, p1⟩ := hk.1
  obtain ⟨n2, e2, a2, t2⟩ := h
  refine ⟨n2 ++ n1, by rw [e2, e1, List.append_assoc], ?_, ?_⟩
  · intro q hq
    rcases List.mem_append.mp hq with hq | hq
    · exact a2 q hq
    · exact (p1 q hq).allowed
  · intro hnt
    exact t2 (fun q hq => hnt q (List.mem_append_left _ hq))

theorem TextSt_keep {P : Token → Prop} {m x : Mach} (hk : Keep P m x) (h : TextSt m) : TextSt x := by
  obtain ⟨hst, hci⟩ := (textSt_iff m).mp h
  refine (textSt_iff x).mpr ⟨by rw [hk.2.1, hk.2.2.1]; exact hst, ?_⟩
  intro cr hcr
  rw [hk.2.2.2] at hcr
  exact hci cr hcr

end RF

/-- close a table arm of the text-state traversal -/
macro "rfb_arm" hci:ident hG:ident hT:ident : tactic =>
  `(tactic| first
      | (apply RF.TRes_emitTag
         · rfg_chain $hG
         · first | assumption | simp only [RF.tk_clearTemp, RF.tk_badChar, RF.tk_discardChar, *])
      | exact RF.TRes_consumeCharRef $hT
      | (apply RF.TRes_ok $hci
         · rfg_chain $hG
         · (simp only [emitChar_state, emitChars_state, badChar_state, to_state, reconsumeTo_state,
              discardTag_state, createTag_state, pushTag_state, pushTemp_state, clearTemp_state,
              emitTempBuf_state, createAttr_state, pushName_state, pushValue_state, appendValue_state,
              RF.tk_emitChar, RF.tk_emitChars, RF.tk_badChar, RF.tk_to, RF.tk_reconsumeTo, RF.tk_discardTag,
              RF.tk_createTag, RF.tk_pushTag, RF.tk_pushTemp, RF.tk_clearTemp, RF.tk_emitTempBuf,
              RF.tk_createAttr, RF.tk_pushName, RF.tk_pushValue, RF.tk_appendValue, *]
            try rfl)
         · first
           | rfl
           | simp only [emitChar_charRef, emitChars_charRef, badChar_charRef, to_charRef, reconsumeTo_charRef,
              discardTag_charRef, createTag_charRef, pushTag_charRef, pushTemp_charRef, clearTemp_charRef,
              emitTempBuf_charRef, createAttr_charRef, pushName_charRef, pushValue_charRef,
              appendValue_charRef]))

namespace RF

set_option maxHeartbeats 1600000 in
/-- the `get_char!` table from a text state -/
theorem transChar_text (o : Opts) (pol : Pol) {m : Mach} (hT : TextSt m) (c : Char) :
    TRes m (transChar o pol m c).1 := by
  obtain ⟨hst, hci⟩ := (textSt_iff m).mp hT
  have hfam := stOk_fam hst
  have htk := stOk_tk hst
  have hG := Gr.refl CE m
  clear hst
  unfold transChar
  generalize hs : m.state = s at hfam htk ⊢
  cases s <;> first | (exfalso; simp [RawFam, TagFam] at hfam; done) | skip
  all_goals (try (have htk2 := htk rfl))
  all_goals (clear htk hfam)
  all_goals (try (rename_i k; cases k))
  all_goals (try (rename_i k; cases k))
  all_goals (dsimp only)
  all_goals ((repeat' split) <;> (try dsimp only) <;> rfb_arm hci hG hT)

set_option maxHeartbeats 1600000 in
/-- the `pop_except_from` table from a text state -/
theorem transSet_text (o : Opts) (pol : Pol) {m : Mach} (hT : TextSt m) (r : SetRes) :
    TRes m (transSet o pol m r).1 := by
  obtain ⟨hst, hci⟩ := (textSt_iff m).mp hT
  have hfam := stOk_fam hst
  have htk := stOk_tk hst
  have hG := Gr.refl CE m
  clear hst
  unfold transSet
  generalize hs : m.state = s at hfam htk ⊢
  cases s <;> first | (exfalso; simp [RawFam, TagFam] at hfam; done) | skip
  all_goals (try (have htk2 := htk rfl))
  all_goals (clear htk hfam)
  all_goals (try (rename_i k; cases k))
  all_goals (try (rename_i k; cases k))
  all_goals (cases r)
  all_goals (dsimp only)
  all_goals ((repeat' split) <;> (try dsimp only) <;> rfb_arm hci hG hT)

/-! #### step level -/

/-- a step result from a text state -/
def RText (m : Mach) (r : R) : Prop := ∀ m1 i1, r.pair? = some (m1, i1) → TRes m m1

theorem RText_cont {m x : Mach} (h : TRes m x) (i : Str) : RText m (.cont x i) := by
  intro m1 i1 e
  simp only [R.pair?, Option.some.injEq, Prod.mk.injEq] at e
  obtain ⟨rfl, rfl⟩ := e
  exact h

theorem RText_suspend {m x : Mach} (h : TRes m x) (i : Str) : RText m (.suspend x i) := by
  intro m1 i1 e
  simp only [R.pair?, Option.some.injEq, Prod.mk.injEq] at e
  obtain ⟨rfl, rfl⟩ := e
  exact h

theorem RText_panic {m : Mach} (s : String) : RText m (.panic s) := by
  intro m1 i1 e
  simp [R.pair?] at e

theorem RText_ofSig {m : Mach} {y : Mach × Sig} (h : TRes m y.1) (i : Str) : RText m (ofSig y i) := by
  intro m1 i1 e
  obtain ⟨e1, _⟩ := ofSig_pair _ _ _ _ e
  subst e1
  exact h

/-- registers kept, log grown by characters/errors, `char_ref_tokenizer` replaced by an admissible one -/
theorem TRes_keepCr {m x : Mach} (hT : TextSt m) (hk : Keep CE m x) (c : Option CharRefSt)
    (hc : ∀ cr, c = some cr → CrOk cr) : TRes m (x.setCharRef c) := by
  obtain ⟨hst, _⟩ := (textSt_iff m).mp hT
  obtain ⟨n, e, p⟩ := hk.1
  refine ⟨n, e, fun q hq => (p q hq).allowed, fun _ => (textSt_iff _).mpr ⟨?_, hc⟩⟩
  show stOk x.state x.tagKind = true
  rw [hk.2.1, hk.2.2.1]
  exact hst

theorem TRes_keep {m x : Mach} (hT : TextSt m) (hk : Keep CE m x) : TRes m x := by
  obtain ⟨n, e, p⟩ := hk.1
  exact ⟨n, e, fun q hq => (p q hq).allowed, fun _ => TextSt_keep hk hT⟩

theorem contChar_text (o : Opts) (pol : Pol) {m0 : Mach} (hT : TextSt m0) (r : Option Char × Mach × Str)
    (hk : Keep CE m0 r.2.1) : RText m0 (contChar o pol r) := by
  obtain ⟨c, m1, i1⟩ := r
  cases c with
  | none => exact RText_suspend (TRes_keep hT hk) _
  | some c => exact RText_ofSig (TRes_trans hk (transChar_text o pol (TextSt_keep hk hT) c)) i1

theorem contSet_text (o : Opts) (pol : Pol) {m0 : Mach} (hT : TextSt m0) (r : Option SetRes × Mach × Str)
    (hk : Keep CE m0 r.2.1) : RText m0 (contSet o pol r) := by
  obtain ⟨c, m1, i1⟩ := r
  cases c with
  | none => exact RText_suspend (TRes_keep hT hk) _
  | some c => exact RText_ofSig (TRes_trans hk (transSet_text o pol (TextSt_keep hk hT) c)) i1

theorem stepCharRef_text (o : Opts) {m : Mach} (hT : TextSt m) (inp : Str) (cr : CharRefSt)
    (hcr : m.charRef = some cr) : RText m (stepCharRef o m inp cr) := by
  unfold stepCharRef
  have h1 := crStep_crk (P := CE) o m inp cr
  have hok : CrOk cr := hT.2 cr hcr
  generalize crStep o m inp cr = r at h1
  cases r with
  | error e => exact RText_panic _
  | ok v =>
    obtain ⟨m1, i1, c1, s1⟩ := v
    obtain ⟨hk, h2⟩ := h1
    obtain ⟨hc1, hd⟩ := h2 hok
    cases s1 with
    | stuck =>
      refine RText_suspend (TRes_keepCr hT hk _ ?_) _
      intro c e; cases e; exact hc1
    | progress =>
      refine RText_cont (TRes_keepCr hT hk _ ?_) _
      intro c e; cases e; exact hc1
    | done chars =>
      dsimp only
      refine RText_ofSig (y := ((processCharRef m1 chars).1.setCharRef none, _))
        (TRes_keepCr hT (processCharRef_keep_ne hk chars hd) none ?_) i1
      intro c e; cases e

theorem TRes_toTag {m x : Mach} (hT : TextSt m) (hk : Keep CE m x) (htk : m.tagKind = .endTag) (s : State)
    (hs : stOk s .endTag = true) : TRes m (to s x) := by
  refine TRes_ok hT.2 (Gr_to hk.1 s) ?_ hk.2.2.2
  show stOk s x.tagKind = true
  rw [hk.2.2.1, htk]
  exact hs

theorem stepBav_text (o : Opts) (pol : Pol) {m : Mach} (hT : TextSt m) (hs : m.state = .beforeAttributeValue)
    (inp : Str) : RText m (stepBav o pol m inp) := by
  have htk : m.tagKind = .endTag := by
    obtain ⟨hst, _⟩ := (textSt_iff m).mp hT
    rw [hs] at hst
    exact stOk_tk hst rfl
  have h := Keep.refl CE m
  unfold stepBav
  cases peek m inp with
  | none => exact RText_suspend (TRes_keep hT h) _
  | some c =>
    dsimp only
    have hm : Keep CE m (if m.ignoreLf = true then m.setIgnoreLf false else m) := by
      split <;> exact h
    generalize (if m.ignoreLf = true then m.setIgnoreLf false else m) = m' at hm
    have hd := Keep_discardChar hm inp
    split
    · exact RText_cont (TRes_keep hT hd) _
    · split
      · have hg := getChar_keep o hm inp
        generalize getChar o m' inp = r at hg
        obtain ⟨c1, m1, i1⟩ := r
        cases c1
        · exact RText_suspend (TRes_keep hT hg) _
        · exact RText_cont (TRes_keep hT hg) _
      · repeat' split
        all_goals
          first
          | exact RText_cont (TRes_keep hT hd) _
          | exact RText_cont (TRes_toTag hT hd htk _ rfl) _
          | exact RText_cont (TRes_toTag hT hm htk _ rfl) _
          | exact RText_ofSig (TRes_emitTag (Gr_badChar hd.1 o)
              (by rw [tk_badChar, hd.2.2.1]; exact htk) pol _) _

theorem readKind_simd {s : State} (h : readKind s = .dataSimd) : s = .data := by
  cases s <;> simp [readKind] at h ⊢

theorem readKind_bav {s : State} (h : readKind s = .peekBav) : s = .beforeAttributeValue := by
  cases s <;> simp [readKind] at h ⊢

theorem TextSt_not {m : Mach} (hT : TextSt m) {s : State} (hs : m.state = s) (hf : (RawFam s || TagFam s) = false) :
    False := by
  obtain ⟨hst, _⟩ := (textSt_iff m).mp hT
  have := stOk_fam hst
  rw [hs, hf] at this
  cases this

theorem step_text (o : Opts) (pol : Pol) {m : Mach} (hT : TextSt m) (inp : Str) : RText m (step o pol m inp) := by
  cases hcr : m.charRef with
  | some cr =>
    rw [step_kind_charRef o pol m inp cr hcr]
    exact stepCharRef_text o hT inp cr hcr
  | none =>
    cases hrk : readKind m.state with
    | getChar =>
      rw [step_getChar o pol m inp hcr hrk]
      exact contChar_text o pol hT _ (getChar_keep o (Keep.refl CE m) inp)
    | popExcept =>
      rw [step_popExcept o pol m inp hcr hrk]
      exact contSet_text o pol hT _ (popExceptFrom_keep o _ (Keep.refl CE m) inp)
    | dataSimd => exact (TextSt_not hT (readKind_simd hrk) rfl).elim
    | peekBav =>
      rw [step_kind_bav o pol m inp hcr hrk]
      exact stepBav_text o pol hT (readKind_bav hrk) inp
    | eatMdo => exact (TextSt_not hT (readKind_mdo hrk) rfl).elim
    | eatAdn => exact (TextSt_not hT (readKind_adn hrk) rfl).elim

end RF

/-- (B) a step from a text state: only allowed tokens; and if no tag was delivered the machine is in a text state
again -/
theorem step_textSt (o : Opts) (pol : Pol) (m : Mach) (inp : Str) (h : TextSt m) (m1 : Mach) (i1 : Str)
    (hs : (step o pol m inp).pair? = some (m1, i1)) :
    ∃ new, m1.out = new ++ m.out ∧ (∀ p ∈ new, AllowedInText p.1) ∧
      ((∀ p ∈ new, isTagTok p.1 = false) → TextSt m1) :=
  RF.step_text o pol h inp m1 i1 hs

/-! ### (C), (E): `eof_step` -/

namespace RF

set_option maxHeartbeats 1600000 in
/-- the `eof_step` table, any state: the log grows by `P`-tokens -/
theorem transEof_gr {P : Token → Prop} [PC P] [PN P] [PD P] [PE P] (o : Opts) {m0 m : Mach} (h : Gr P m0 m) :
    Gr P m0 (transEof o m).1 := by
  unfold transEof
  split <;> (try dsimp only) <;>
    first
    | exact Gr_emit h _ PE.eof
    | rfg_chain h

theorem eofLoop_gr {P : Token → Prop} [PC P] [PN P] [PD P] [PE P] (o : Opts) :
    ∀ (n : Nat) {m0 m : Mach}, Gr P m0 m → ∀ mf, eofLoop o n m = .ok mf → Gr P m0 mf := by
  intro n
  induction n with
  | zero => intro m0 m _ mf e; cases e
  | succ n ih =>
    intro m0 m h mf e
    unfold eofLoop at e
    have ht := transEof_gr (P := P) o h
    generalize transEof o m = r at ht e
    obtain ⟨m1, s1⟩ := r
    cases s1 with
    | cont => exact ih ht mf e
    | done =>
      simp only [Except.ok.injEq] at e
      subst e
      exact ht
    | panic x => cases e

/-- allowed in the "text" insertion mode, or the end-of-file token -/
def CEE (t : Token) : Prop := AllowedInText t ∨ t = .eof

instance : PC CEE := ⟨fun _ => Or.inl trivial, fun _ => Or.inl trivial⟩
instance : PE CEE := ⟨Or.inr rfl⟩

/-- the states `eof_step` runs through when started in a text state -/
def eofFam (s : State) : Bool := RawFam s || TagFam s || s == .data

set_option maxHeartbeats 1600000 in
theorem transEof_text (o : Opts) {m0 m : Mach} (hf : eofFam m.state = true) (hg : Gr CEE m0 m) :
    Gr CEE m0 (transEof o m).1 ∧ ((transEof o m).2 = .cont → eofFam (transEof o m).1.state = true) := by
  unfold transEof
  generalize hs : m.state = s at hf ⊢
  cases s <;> first | (exfalso; simp [eofFam, RawFam, TagFam] at hf; done) | skip
  all_goals (try (rename_i k; cases k))
  all_goals (try (rename_i k; cases k))
  all_goals (dsimp only)
  all_goals
    first
    | exact ⟨Gr_emit hg _ PE.eof, fun e => nomatch e⟩
    | exact ⟨by rfg_chain hg, fun _ => rfl⟩

theorem eofLoop_text (o : Opts) :
    ∀ (n : Nat) {m0 m : Mach}, eofFam m.state = true → Gr CEE m0 m → ∀ mf, eofLoop o n m = .ok mf → Gr CEE m0 mf := by
  intro n
  induction n with
  | zero => intro m0 m _ _ mf e; cases e
  | succ n ih =>
    intro m0 m hf h mf e
    unfold eofLoop at e
    have ht := transEof_text o hf h
    generalize transEof o m = r at ht e
    obtain ⟨m1, s1⟩ := r
    cases s1 with
    | cont => exact ih (ht.2 rfl) ht.1 mf e
    | done =>
      simp only [Except.ok.injEq] at e
      subst e
      exact ht.1
    | panic x => cases e

theorem textSt_eofFam {m : Mach} (h : TextSt m) : eofFam m.state = true := by
  obtain ⟨hst, _⟩ := (textSt_iff m).mp h
  have := stOk_fam hst
  unfold RF.eofFam
  rw [this]; rfl

end RF

/-- (C) end of input from a text state: `eof_step` delivers character tokens, parse errors and the EOF token only -/
theorem eofLoop_textSt (o : Opts) (n : Nat) (m m' : Mach) (h : TextSt m) (he : eofLoop o n m = .ok m') :
    ∃ new, m'.out = new ++ m.out ∧ ∀ p ∈ new, AllowedInText p.1 ∨ p.1 = .eof :=
  RF.eofLoop_text o n (RF.textSt_eofFam h) (RF.Gr.refl _ m) m' he

/-- (E) from ANY machine, `eof_step` delivers no tag token -/
theorem eofLoop_no_tag (o : Opts) (n : Nat) (m m' : Mach) (he : eofLoop o n m = .ok m') :
    ∃ new, m'.out = new ++ m.out ∧ ∀ p ∈ new, isTagTok p.1 = false :=
  RF.eofLoop_gr (P := RF.NTag) o n (RF.Gr.refl _ m) m' he

/-! ### (D): the flush of a pending character reference at the start of `Tokenizer::end` -/

namespace RF

section
variable {P : Token → Prop} [PC P] {m x : Mach}

theorem crEofOnceE_crk (o : Opts) {cr0 cr : CharRefSt} (hk : Keep P m x) (hc : CrOk cr0 → CrOk cr) (inp : Str) :
    CRK P m cr0 (crEofOnceE o x inp cr) := by
  unfold crEofOnceE unconsumeNumeric
  split <;> (repeat' split) <;>
    first
    | trivial
    | exact finishNumericStatus_crk o (Keep_emitErr hk _) hc _
    | exact finishNamed_crk o hk hc _ _
    | rfk_leaf hk hc

/-- result of the char-ref tokenizer's `end_of_file` -/
def CEK (P : Token → Prop) (m : Mach) (cr : CharRefSt) : Except String (Mach × Str × Str) → Prop
  | .ok v => Keep P m v.1 ∧ (CrOk cr → ∀ c ∈ v.2.2, c ≠ '\x00')
  | .error _ => True

omit [PC P] in
theorem crEofLast_cek {cr : CharRefSt} {r : CRRes} (h : CRK P m cr r) : CEK P m cr (crEofLast r) := by
  cases r with
  | error e => trivial
  | ok v =>
    obtain ⟨m1, i1, c1, s1⟩ := v
    cases s1 with
    | done chars => exact ⟨h.1, fun hc => (h.2 hc).2⟩
    | stuck => exact ⟨h.1, fun _ _ hm => by cases hm⟩
    | progress => exact ⟨h.1, fun _ _ hm => by cases hm⟩

theorem crEofDrive_cek (o : Opts) {cr : CharRefSt} {r : CRRes} (h : CRK P m cr r) : CEK P m cr (crEofDrive o r) := by
  cases r with
  | error e => trivial
  | ok v =>
    obtain ⟨m1, i1, c1, s1⟩ := v
    cases s1 with
    | done chars => exact ⟨h.1, fun hc => (h.2 hc).2⟩
    | stuck => exact ⟨h.1, fun _ _ hm => by cases hm⟩
    | progress => exact crEofLast_cek (crEofOnceE_crk o h.1 (fun hc => (h.2 hc).1) _)

theorem crEof_cek (o : Opts) (m : Mach) (inp : Str) (cr : CharRefSt) : CEK P m cr (crEof o m inp cr) := by
  rw [crEof_eqE]
  exact crEofDrive_cek o (crEofOnceE_crk o (Keep.refl P m) id inp)

end

/-- character tokens, parse errors and the U+0000 token -/
def CEN (t : Token) : Prop := (∃ x, t = .chars x) ∨ (∃ e, t = .error e) ∨ t = .nullChar

instance : PC CEN := ⟨fun s => Or.inr (Or.inl ⟨s, rfl⟩), fun s => Or.inl ⟨s, rfl⟩⟩
instance : PN CEN := ⟨Or.inr (Or.inr rfl)⟩

theorem CEN.noTag {t : Token} (h : CEN t) : isTagTok t = false := by
  rcases h with ⟨x, rfl⟩ | ⟨e, rfl⟩ | rfl <;> rfl

end RF

/-- (D), with the no-tag fact packaged: the flush of a pending character reference at the start of
`Tokenizer::end` delivers character tokens and parse errors only (and, from an unreachable `cr`, possibly the
U+0000 token), no tag token, and the state register is unchanged (from ANY machine) -/
theorem crEof_processCharRef_noTag (o : Opts) (m : Mach) (cr : CharRefSt) (ma : Mach) (inp chars : Str) (mb : Mach)
    (sg : Sig) (h1 : crEof o m [] cr = .ok (ma, inp, chars))
    (h2 : processCharRef (ma.setCharRef none) chars = (mb, sg)) :
    ∃ new, mb.out = new ++ m.out ∧
      (∀ p ∈ new, (∃ x, p.1 = .chars x) ∨ (∃ e, p.1 = .error e) ∨ p.1 = .nullChar) ∧
      (∀ p ∈ new, isTagTok p.1 = false) ∧
      mb.state = m.state ∧ mb.tagKind = m.tagKind := by
  have hc := RF.crEof_cek (P := RF.CEN) o m [] cr
  rw [h1] at hc
  have hp := RF.processCharRef_keep (RF.Keep.refl RF.CEN (ma.setCharRef none)) chars
  rw [h2] at hp
  obtain ⟨hg2, e1, e2, _⟩ := hp
  obtain ⟨n, e, p⟩ := (RF.Gr_setCharRef hc.1.1 none).trans hg2
  exact ⟨n, e, p, fun q hq => (p q hq).noTag, e1.trans hc.1.2.1, e2.trans hc.1.2.2.1⟩

/-- (D) the flush of a pending character reference at the start of `Tokenizer::end`: character tokens and parse
errors only (and, from an unreachable `cr`, possibly the U+0000 token), and the state register is unchanged (from
ANY machine) -/
theorem crEof_processCharRef_out (o : Opts) (m : Mach) (cr : CharRefSt) (ma : Mach) (inp chars : Str) (mb : Mach)
    (sg : Sig) (h1 : crEof o m [] cr = .ok (ma, inp, chars))
    (h2 : processCharRef (ma.setCharRef none) chars = (mb, sg)) :
    ∃ new, mb.out = new ++ m.out ∧
      (∀ p ∈ new, (∃ x, p.1 = .chars x) ∨ (∃ e, p.1 = .error e) ∨ p.1 = .nullChar) ∧
      mb.state = m.state ∧ mb.tagKind = m.tagKind := by
  obtain ⟨n, e, p, _, e1, e2⟩ := crEof_processCharRef_noTag o m cr ma inp chars mb sg h1 h2
  exact ⟨n, e, p, e1, e2⟩

/-! ### the invariant `CrInv`, entering and keeping `TextSt` -/

theorem crInv_of_none {m : Mach} (h : m.charRef = none) : CrInv m := by
  intro cr hcr
  rw [h] at hcr
  cases hcr

theorem crInv_clr (m : Mach) : CrInv (clr m) ↔ CrInv m := Iff.rfl
theorem crInv_setAtEof (m : Mach) (b : Bool) : CrInv (m.setAtEof b) ↔ CrInv m := Iff.rfl
theorem textSt_clr (m : Mach) : TextSt (clr m) ↔ TextSt m := Iff.rfl
theorem textSt_setAtEof (m : Mach) (b : Bool) : TextSt (m.setAtEof b) ↔ TextSt m := Iff.rfl

/-- entering the "text" insertion mode: the sink answered a start tag with `RawData k` -/
theorem textSt_of_rawData {m : Mach} {k : RawKind} (hs : m.state = .rawData k) (hc : CrInv m) : TextSt m := by
  refine ⟨Or.inl ⟨by rw [hs]; rfl, fun hn => ?_⟩, hc⟩
  rw [hs] at hn
  cases hn

/-- EVERY step, from every machine, preserves `CrInv` -/
theorem step_crInv (o : Opts) (pol : Pol) (m : Mach) (inp : Str) (h : CrInv m) (m1 : Mach) (i1 : Str)
    (hs : (step o pol m inp).pair? = some (m1, i1)) : CrInv m1 := by
  cases hcr : m.charRef with
  | none =>
    rcases step_charRef_after o pol m inp hcr m1 i1 hs with e | ⟨b, e⟩
    · exact crInv_of_none e
    · intro cr hc
      rw [e] at hc
      simp only [Option.some.injEq] at hc
      subst hc
      exact RF.CrOk_fresh b
  | some cr =>
    rw [step_kind_charRef o pol m inp cr hcr] at hs
    unfold stepCharRef at hs
    have h1 := RF.crStep_crk (P := RF.NTag) o m inp cr
    have hok : CrOk cr := h cr hcr
    generalize crStep o m inp cr = r at h1 hs
    cases r with
    | error e => simp [R.pair?] at hs
    | ok v =>
      obtain ⟨m2, i2, c2, s2⟩ := v
      obtain ⟨_, h2⟩ := h1
      obtain ⟨hc2, _⟩ := h2 hok
      cases s2 with
      | stuck =>
        simp only [R.pair?, Option.some.injEq, Prod.mk.injEq] at hs
        obtain ⟨rfl, _⟩ := hs
        intro c e; cases e; exact hc2
      | progress =>
        simp only [R.pair?, Option.some.injEq, Prod.mk.injEq] at hs
        obtain ⟨rfl, _⟩ := hs
        intro c e; cases e; exact hc2
      | done chars =>
        dsimp only at hs
        obtain ⟨e1, _⟩ := ofSig_pair _ _ _ _ hs
        subst e1
        exact crInv_of_none rfl

/-- (D') the end-of-input flush of a pending character reference from a text state: character tokens and parse
errors only (no U+0000 token), and the machine stays in a text state -/
theorem crEof_processCharRef_textSt_full (o : Opts) (m : Mach) (h : TextSt m) (cr : CharRefSt) (ma : Mach)
    (inp chars : Str) (mb : Mach) (sg : Sig) (hcr : m.charRef = some cr)
    (h1 : crEof o m [] cr = .ok (ma, inp, chars)) (h2 : processCharRef (ma.setCharRef none) chars = (mb, sg)) :
    ∃ new, mb.out = new ++ m.out ∧ (∀ p ∈ new, AllowedInText p.1) ∧ (∀ p ∈ new, isTagTok p.1 = false) ∧
      (∀ p ∈ new, (∃ x, p.1 = .chars x) ∨ (∃ e, p.1 = .error e)) ∧
      mb.state = m.state ∧ mb.tagKind = m.tagKind ∧ mb.charRef = none ∧
      TextSt mb ∧ TextSt (clr mb) ∧ TextSt ((clr mb).setAtEof true) := by
  have hc := RF.crEof_cek (P := RF.CE) o m [] cr
  rw [h1] at hc
  have hok : CrOk cr := h.2 cr hcr
  have hk : RF.Keep RF.CE m ma := hc.1
  have hp := RF.processCharRef_keep_ne (RF.Keep.refl RF.CE (ma.setCharRef none)) chars (hc.2 hok)
  rw [h2] at hp
  obtain ⟨⟨n1, e1, p1⟩, s1, t1, c1⟩ := hk
  obtain ⟨⟨n2, e2, p2⟩, s2, t2, c2⟩ := hp
  have hst : mb.state = m.state := s2.trans s1
  have htk : mb.tagKind = m.tagKind := t2.trans t1
  have hcn : mb.charRef = none := c2
  have hT : TextSt mb := by
    obtain ⟨hso, _⟩ := (RF.textSt_iff m).mp h
    exact (RF.textSt_iff mb).mpr ⟨by rw [hst, htk]; exact hso, crInv_of_none hcn⟩
  have hall : ∀ p ∈ n2 ++ n1, RF.CE p.1 := by
    intro q hq
    rcases List.mem_append.mp hq with hq | hq
    · exact p2 q hq
    · exact p1 q hq
  refine ⟨n2 ++ n1, ?_, fun q hq => (hall q hq).allowed, fun q hq => (hall q hq).noTag, ?_, hst, htk, hcn, hT, hT, hT⟩
  · rw [e2]
    show n2 ++ ma.out = _
    rw [e1, List.append_assoc]
  · intro q hq
    have := hall q hq
    revert this
    cases q.1 <;> intro hce <;> first | exact Or.inl ⟨_, rfl⟩ | exact Or.inr ⟨_, rfl⟩ | cases hce

/-- (D'), short form -/
theorem crEof_processCharRef_textSt (o : Opts) (m : Mach) (h : TextSt m) (cr : CharRefSt) (ma : Mach)
    (inp chars : Str) (mb : Mach) (sg : Sig) (hcr : m.charRef = some cr)
    (h1 : crEof o m [] cr = .ok (ma, inp, chars)) (h2 : processCharRef (ma.setCharRef none) chars = (mb, sg)) :
    ∃ new, mb.out = new ++ m.out ∧ (∀ p ∈ new, AllowedInText p.1) ∧ (∀ p ∈ new, isTagTok p.1 = false) ∧
      TextSt (clr mb) ∧ TextSt ((clr mb).setAtEof true) := by
  obtain ⟨new, e, a, b, _, _, _, _, _, t1, t2⟩ :=
    crEof_processCharRef_textSt_full o m h cr ma inp chars mb sg hcr h1 h2
  exact ⟨new, e, a, b, t1, t2⟩

end H5V.Lemmas.ParseSpec
